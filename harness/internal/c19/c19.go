// Package c19: correspondence driver for C19 (shell framework dispatch).
//
// Every case is one run of a GENERATED bash hook script that sources the real
// $VERIF_REPO/shell_lib.sh (strict mode) — through a copy in which the one hard-coded
// path `/frameworks/shell/` (the location inside the shell-operator image) is replaced
// by $VERIF_REPO/frameworks/shell/ — so that the real hook.sh and context.sh are loaded,
// defines a chosen set of handler functions (each appends its name and the current
// context index/binding to a trace file and returns a scripted status) and calls
// `hook::run "$@"`.  BINDING_CONTEXT_PATH points to a JSON array rendered by the real
// pkg/hook/binding_context (ConvertBindingContextList "v1") from the generated contexts.
// bash and jq are the interpreter: nothing of the framework is re-implemented here.
//
// The text the script's __config__ writes is an input of the case too (Input.Config: any
// bytes, in several pieces, written by cat / here-document / printf / echo); the complete
// stdout of every run is recorded (Obs.Out, run-length form, lossless) and compared by Coq,
// byte for byte, with the model's - `hook::run --config` prints the configuration.
package c19

import (
	"bytes"
	"context"
	"encoding/hex"
	"encoding/json"
	"fmt"
	"os"
	"os/exec"
	"path/filepath"
	"regexp"
	"sort"
	"strconv"
	"strings"
	"time"
	"unicode/utf8"

	bctx "github.com/flant/shell-operator/pkg/hook/binding_context"
	htypes "github.com/flant/shell-operator/pkg/hook/types"
	kemtypes "github.com/flant/shell-operator/pkg/kube_events_manager/types"
	"k8s.io/apimachinery/pkg/apis/meta/v1/unstructured"

	"verifharness/internal/core"
)

// Ctx is one generated binding context.  Kind "raw" carries a literal JSON object.
type Ctx struct {
	Kind    string `json:"kind"` // onStartup schedule sync added modified deleted group validating mutating conversion kubeShort raw
	Binding string `json:"binding"`
	Group   string `json:"group,omitempty"`
	From    string `json:"from,omitempty"`
	To      string `json:"to,omitempty"`
	Raw     string `json:"raw,omitempty"`
	// Pad: KiB of object payload carried by the context (objects of a Synchronization, the
	// object of an Event, the snapshot of a Group, a member "pad" of a raw one).  The payload has
	// no part in the choice of the handler; a context may be larger than one argument or
	// environment string may be (128 KiB on Linux).
	Pad int `json:"pad,omitempty"`
}

// Cmd is one command of a handler body.  Op names the shape, St the exit statuses of the
// simple commands in it (one for plain/ortrue/andtrue/if/not/return/exit, the components
// of a pipe, the commands of the inner block of group/call/subst/localsubst), Form how
// each of those simple commands is spelled (see plainText; missing = 0).
//
//	plain       P                      ortrue   P || true        andtrue  P && true
//	pipe        P1 | P2 | ...          if       if P; then :; fi not      ! P
//	return      return N               exit     exit N           unset    : "${never_set}"
//	group       ( P1; P2; ... )        call     helper (a function with body P1; P2; ...)
//	subst       v=$( P1; P2; ... )     localsubst  local v=$( P1; P2; ... )
type Cmd struct {
	Op   string `json:"op"`
	St   []int  `json:"st,omitempty"`
	Form []int  `json:"form,omitempty"`
}

// Arm: the commands a handler runs when the current context index is Index.
type Arm struct {
	Index int   `json:"index"`
	Body  []Cmd `json:"body"`
}

// Handler is a function the generated script defines.  It runs Body (or the arm of the
// current context index) under the strict mode of shell_lib.sh and then - unless Falloff -
// does an explicit `return Status[i]` for context index i (missing = 0).  With Falloff the
// function has no final return: its status is that of its last command.  For __config__
// index 0 is used.
type Handler struct {
	Name    string `json:"name"`
	Status  []int  `json:"status,omitempty"`
	Falloff bool   `json:"falloff,omitempty"`
	Body    []Cmd  `json:"body,omitempty"`
	Arms    []Arm  `json:"arms,omitempty"`
}

// Text is a byte string.  In JSON it is a string when it is valid UTF-8 and {"hex": "..."}
// otherwise, so that replay files are readable and every byte survives.
type Text string

func (t Text) MarshalJSON() ([]byte, error) {
	if utf8.ValidString(string(t)) {
		return json.Marshal(string(t))
	}
	return json.Marshal(map[string]string{"hex": hex.EncodeToString([]byte(t))})
}

func (t *Text) UnmarshalJSON(b []byte) error {
	var s string
	if err := json.Unmarshal(b, &s); err == nil {
		*t = Text(s)
		return nil
	}
	var m struct {
		Hex string `json:"hex"`
	}
	if err := json.Unmarshal(b, &m); err != nil {
		return err
	}
	x, err := hex.DecodeString(m.Hex)
	if err != nil {
		return err
	}
	*t = Text(x)
	return nil
}

// Chunk is a piece of the text the generated __config__ writes to its stdout: Text, Rep times
// (0 = once), written the way Form says (see chunkWriter; a form that cannot express the bytes
// falls back to form 0).  The same type carries the complete stdout of a run in run-length form.
type Chunk struct {
	Text Text `json:"text"`
	Rep  int  `json:"rep,omitempty"`
	Form int  `json:"form,omitempty"`
}

type Input struct {
	Exotic  bool      `json:"exotic,omitempty"`
	Args    []string  `json:"args,omitempty"`
	Ctxs    []Ctx     `json:"ctxs"`
	Defined []Handler `json:"defined"`
	// Config: what __config__ (when the script defines it) writes to its stdout, chunk after
	// chunk, before it runs its commands.  Absent = the one line VERIF-CONFIG-TEXT.
	Config *[]Chunk `json:"config,omitempty"`
}

type Entry struct {
	Name    string `json:"name"`
	Index   int    `json:"index"`
	Binding string `json:"binding"`
}

type Obs struct {
	Trace   []Entry    `json:"trace"`
	Steps   [][][2]int `json:"steps,omitempty"` // per invocation: marks (position, inner position) of the commands that started
	Status  int        `json:"status"`
	Printed bool       `json:"printed"`           // __config__ was invoked and stdout is, byte for byte, what it wrote
	Stdout  string     `json:"stdout,omitempty"`  // the first bytes of stdout, quoted (for the reader)
	Out     []Chunk    `json:"out,omitempty"`     // the complete stdout in run-length form (compared by Coq)
	OutLen  int        `json:"stdout_len"`
	Stderr  string     `json:"stderr_tail,omitempty"`
	Err     string     `json:"err,omitempty"`
}

const configText = "VERIF-CONFIG-TEXT"

const maxConfigBytes = 1 << 20 // of one chunk after repetition

// forms of writing a chunk
const (
	formFile   = 0 // cat of a file that holds the bytes (any bytes)
	formHere   = 1 // cat <<'VERIF_EOF' ... (the bytes end with a newline, no NUL, no delimiter line)
	formPrintf = 2 // printf '%s' '...' (no NUL)
	formEcho   = 3 // echo '...' (the bytes end with a newline, no NUL, the rest is not an option of echo)
	nCfgForms  = 4
)

var echoOption = regexp.MustCompile(`^-[neE]+$`)

func (c Chunk) bytes() string {
	n := c.Rep
	if n < 1 {
		n = 1
	}
	return strings.Repeat(string(c.Text), n)
}

// effForm: the form actually used for the bytes of a chunk.
func effForm(b string, form int) int {
	inline := !strings.Contains(b, "\x00") && len(b) <= 48<<10
	switch form {
	case formHere:
		if inline && strings.HasSuffix(b, "\n") && !strings.HasPrefix(b, "VERIF_EOF\n") && !strings.Contains(b, "\nVERIF_EOF\n") {
			return formHere
		}
	case formPrintf:
		if inline {
			return formPrintf
		}
	case formEcho:
		if inline && strings.HasSuffix(b, "\n") && !echoOption.MatchString(b[:len(b)-1]) {
			return formEcho
		}
	}
	return formFile
}

func shq(s string) string { return "'" + strings.ReplaceAll(s, "'", `'\''`) + "'" }

// chunkWriter: the command of __config__ that writes chunk number i.
func chunkWriter(i int, c Chunk) string {
	b := c.bytes()
	switch c.Form {
	case formHere:
		return "cat <<'VERIF_EOF'\n" + b + "VERIF_EOF"
	case formPrintf:
		return "printf '%s' " + shq(b)
	case formEcho:
		return "echo " + shq(b[:len(b)-1])
	}
	return fmt.Sprintf("cat \"$VERIF_CFG.%d\"", i)
}

// configOf: the chunks as Script, Run and Render read them (normalised).
func configOf(in Input) []Chunk {
	if in.Config == nil {
		return []Chunk{{Text: configText + "\n", Rep: 1, Form: formEcho}}
	}
	out := make([]Chunk, 0, len(*in.Config))
	for _, c := range *in.Config {
		if c.Rep < 1 {
			c.Rep = 1
		}
		if len(c.Text) > maxConfigBytes {
			c.Text = c.Text[:maxConfigBytes]
		}
		if len(c.Text)*c.Rep > maxConfigBytes {
			c.Rep = maxConfigBytes / len(c.Text)
		}
		c.Form = effForm(c.bytes(), c.Form)
		out = append(out, c)
	}
	return out
}

// ConfigText: every byte the generated __config__ writes.
func ConfigText(in Input) string {
	var b strings.Builder
	for _, c := range configOf(in) {
		b.WriteString(c.bytes())
	}
	return b.String()
}

// encodeRuns: a byte string in run-length form - periodic stretches of at least 512 bytes
// (period up to 64) become one chunk, the rest literal chunks.  Lossless (checked by the caller).
func encodeRuns(s string) []Chunk {
	var out []Chunk
	lit := 0 // start of the pending literal
	flush := func(to int) {
		if to > lit {
			out = append(out, Chunk{Text: Text(s[lit:to]), Rep: 1})
		}
	}
	p := 0
	for p < len(s) {
		bestL, bestK := 0, 0
		if len(s)-p >= 512 {
			for l := 1; l <= 64 && p+2*l <= len(s); l++ {
				k := 1
				for p+(k+1)*l <= len(s) && s[p+k*l:p+(k+1)*l] == s[p:p+l] {
					k++
				}
				if k >= 2 && k*l >= 512 && k*l > bestK*bestL {
					bestL, bestK = l, k
				}
			}
		}
		if bestK > 0 {
			flush(p)
			out = append(out, Chunk{Text: Text(s[p : p+bestL]), Rep: bestK})
			p += bestK * bestL
			lit = p
			continue
		}
		p++
	}
	flush(len(s))
	return out
}

func decodeRuns(cs []Chunk) string {
	var b strings.Builder
	for _, c := range cs {
		b.WriteString(c.bytes())
	}
	return b.String()
}

var safeName = regexp.MustCompile(`^[A-Za-z0-9_:./-]+$`)

func repoDir() string {
	if r := os.Getenv("VERIF_REPO"); r != "" {
		return r
	}
	return "/repo"
}

// ---- rendering of the binding contexts through the real Go code ----

func toBindingContext(c Ctx) bctx.BindingContext {
	var bc bctx.BindingContext
	bc.Binding = c.Binding
	switch c.Kind {
	case "onStartup":
		bc.Metadata.BindingType = htypes.OnStartup
	case "schedule":
		bc.Metadata.BindingType = htypes.Schedule
	case "sync":
		bc.Metadata.BindingType = htypes.OnKubernetesEvent
		bc.Type = kemtypes.TypeSynchronization
	case "added", "modified", "deleted":
		bc.Metadata.BindingType = htypes.OnKubernetesEvent
		bc.Type = kemtypes.TypeEvent
		bc.WatchEvent = map[string]kemtypes.WatchEventType{"added": kemtypes.WatchEventAdded,
			"modified": kemtypes.WatchEventModified, "deleted": kemtypes.WatchEventDeleted}[c.Kind]
	case "group":
		bc.Metadata.BindingType = htypes.OnKubernetesEvent
		bc.Type = kemtypes.TypeSynchronization
		bc.Metadata.Group = c.Group
	case "validating":
		bc.Metadata.BindingType = htypes.KubernetesValidating
	case "mutating":
		bc.Metadata.BindingType = htypes.KubernetesMutating
	case "conversion":
		bc.Metadata.BindingType = htypes.KubernetesConversion
		bc.FromVersion, bc.ToVersion = c.From, c.To
	case "kubeShort":
		bc.Metadata.BindingType = htypes.OnKubernetesEvent // Type == "": the short form without a type
	}
	if c.Pad > 0 {
		switch c.Kind {
		case "sync":
			// many objects of about 1 KiB
			for i := 0; i < c.Pad; i++ {
				bc.Objects = append(bc.Objects, padObject(i, 1))
			}
		case "added", "modified", "deleted":
			bc.Objects = []kemtypes.ObjectAndFilterResult{padObject(0, c.Pad)}
		case "group":
			bc.Metadata.IncludeAllSnapshots = true
			bc.Snapshots = map[string][]kemtypes.ObjectAndFilterResult{c.Binding: {padObject(0, c.Pad/2), padObject(1, c.Pad-c.Pad/2)}}
		}
	}
	return bc
}

func padObject(i, kib int) kemtypes.ObjectAndFilterResult {
	var o kemtypes.ObjectAndFilterResult
	o.Object = &unstructured.Unstructured{Object: map[string]interface{}{
		"apiVersion": "v1", "kind": "ConfigMap",
		"metadata": map[string]interface{}{"name": fmt.Sprintf("pad-%d", i), "namespace": "default"},
		"data":     map[string]interface{}{"blob": strings.Repeat("0123456789abcdef", 64*kib-8)},
	}}
	o.Metadata.ResourceId = fmt.Sprintf("default/ConfigMap/pad-%d", i)
	return o
}

// paddable tells whether Pad has an effect on a context of this kind.
func paddable(kind string) bool {
	switch kind {
	case "sync", "added", "modified", "deleted", "group", "raw":
		return true
	}
	return false
}

// ContextsJSON is the content of the binding context file of a case.
func ContextsJSON(in Input) ([]byte, error) {
	list := make(bctx.BindingContextList, 0, len(in.Ctxs))
	for _, c := range in.Ctxs {
		if c.Kind == "raw" {
			var m map[string]interface{}
			if err := json.Unmarshal([]byte(c.Raw), &m); err != nil {
				return nil, fmt.Errorf("raw context: %v", err)
			}
			if c.Pad > 0 {
				m["pad"] = strings.Repeat("0123456789abcdef", 64*c.Pad)
			}
			list = append(list, m)
			continue
		}
		one := bctx.ConvertBindingContextList("v1", []bctx.BindingContext{toBindingContext(c)})
		list = append(list, one[0])
	}
	return list.Json()
}

var ops = map[string]string{"plain": "Plain", "pipe": "Pipe", "ortrue": "OrTrue", "andtrue": "AndTrue", "if": "IfCond",
	"not": "Not", "return": "Return", "exit": "Exit", "unset": "Unset", "group": "Group", "call": "Call", "subst": "Subst",
	"localsubst": "LocalSubst"}

func isBlock(op string) bool {
	return op == "group" || op == "call" || op == "subst" || op == "localsubst"
}

// normCmd makes a command from a hand-edited replay file well-formed (generated ones are):
// known op, statuses 0..255, exactly one status where the shape has one.
func normCmd(c Cmd) Cmd {
	if _, ok := ops[c.Op]; !ok {
		return Cmd{Op: "plain", St: []int{0}}
	}
	n := Cmd{Op: c.Op}
	for _, x := range c.St {
		n.St = append(n.St, ((x%256)+256)%256)
	}
	switch {
	case c.Op == "unset":
		n.St = nil
	case c.Op == "pipe" || isBlock(c.Op):
	default:
		if len(n.St) == 0 {
			n.St = []int{0}
		}
		n.St = n.St[:1]
	}
	for i := range n.St {
		f := 0
		if i < len(c.Form) {
			f = c.Form[i]
		}
		n.Form = append(n.Form, f)
	}
	return n
}

func normBody(b []Cmd) []Cmd {
	var r []Cmd
	for _, c := range b {
		r = append(r, normCmd(c))
	}
	return r
}

// norm: the input as Script and Render read it.
func norm(in Input) Input {
	out := in
	cfg := configOf(in)
	out.Config = &cfg
	out.Defined = nil
	for _, h := range in.Defined {
		n := Handler{Name: h.Name, Falloff: h.Falloff, Body: normBody(h.Body)}
		for _, x := range h.Status {
			n.Status = append(n.Status, ((x%256)+256)%256)
		}
		seen := map[int]bool{}
		for _, a := range h.Arms {
			if a.Index < 0 || seen[a.Index] {
				continue
			}
			seen[a.Index] = true
			n.Arms = append(n.Arms, Arm{Index: a.Index, Body: normBody(a.Body)})
		}
		out.Defined = append(out.Defined, n)
	}
	return out
}

// plainText spells a simple command that exits with status st.
func plainText(st, form int) string {
	switch form {
	case 1:
		return fmt.Sprintf("(exit %d)", st)
	case 2:
		return fmt.Sprintf("sh -c 'exit %d'", st)
	case 3:
		if st == 0 {
			return "true"
		}
		if st == 1 {
			return "false"
		}
	case 4:
		if st == 0 {
			return "[[ -d / ]]"
		}
		if st == 1 {
			return "[[ -f /nonexistent-verif ]]"
		}
	case 5:
		switch st {
		case 0:
			return "test 1 -eq 1"
		case 1:
			return "grep -q verif /dev/null"
		case 2:
			return "grep -q x /nonexistent-verif 2>/dev/null"
		}
	case 7:
		// commands that read the hook's standard input (the operator starts hooks with stdin at /dev/null)
		if st == 0 {
			return "cat >/dev/null"
		}
		if st == 1 {
			return "read -r __verif_line"
		}
	case 6:
		if st == 0 {
			return ":"
		}
		if st == 1 {
			return "cat /nonexistent-verif >/dev/null 2>&1"
		}
	}
	return fmt.Sprintf("__verif_st %d", st)
}

func blockText(k int, c Cmd) string {
	var parts []string
	for j, st := range c.St {
		parts = append(parts, fmt.Sprintf("__verif_s %d %d; %s", k, j+1, plainText(st, c.Form[j])))
	}
	if len(parts) == 0 {
		return ":"
	}
	return strings.Join(parts, "; ")
}

// cmdText: the bash text of command k of a body; helper receives the definition of the
// function a `call` needs.
func cmdText(k int, c Cmd, helperName string, helpers *strings.Builder) string {
	p := func(i int) string { return plainText(c.St[i], c.Form[i]) }
	switch c.Op {
	case "plain":
		return p(0)
	case "pipe":
		var parts []string
		for i := range c.St {
			parts = append(parts, p(i))
		}
		if len(parts) == 0 {
			return ":"
		}
		return strings.Join(parts, " | ")
	case "ortrue":
		return p(0) + " || true"
	case "andtrue":
		return p(0) + " && true"
	case "if":
		return "if " + p(0) + "; then :; fi"
	case "not":
		return "! " + p(0)
	case "return":
		return fmt.Sprintf("return %d", c.St[0])
	case "exit":
		return fmt.Sprintf("exit %d", c.St[0])
	case "unset":
		return `: "${__verif_never_set}"`
	case "group":
		return "( " + blockText(k, c) + " )"
	case "call":
		fmt.Fprintf(helpers, "function %s() { %s; }\n", helperName, blockText(k, c))
		return helperName
	case "subst":
		return "__verif_v=$( " + blockText(k, c) + " )"
	case "localsubst":
		return "local __verif_l=$( " + blockText(k, c) + " )"
	}
	return ":"
}

func statusAt(h Handler, i int) int {
	if i >= 0 && i < len(h.Status) {
		return h.Status[i]
	}
	return 0
}

// writeCmds writes the commands of one arm (or of the default body), each preceded by its
// mark, and the final explicit return unless the handler runs to its end.
func writeCmds(b, helpers *strings.Builder, indent string, hi int, arm string, cmds []Cmd, h Handler, final int) {
	for k, c := range cmds {
		fmt.Fprintf(b, "%s__verif_s %d 0\n%s%s\n", indent, k, indent, cmdText(k, c, fmt.Sprintf("__verif_f_%d_%s_%d", hi, arm, k), helpers))
	}
	if !h.Falloff {
		fmt.Fprintf(b, "%s__verif_s %d 0\n%sreturn %d\n", indent, len(cmds), indent, final)
	}
}

// Script is the generated hook.
func Script(in Input) string {
	in = norm(in)
	var b strings.Builder
	b.WriteString("#!/usr/bin/env bash\n")
	b.WriteString("source \"$VERIF_LIB\"\n")
	b.WriteString("__verif_h() { printf '%s\\t%s\\t%s\\n' \"$1\" \"${BINDING_CONTEXT_CURRENT_INDEX:-}\" \"${BINDING_CONTEXT_CURRENT_BINDING:-}\" >> \"$VERIF_TRACE\"; }\n")
	b.WriteString("__verif_s() { printf '@\\t%s\\t%s\\n' \"$1\" \"$2\" >> \"$VERIF_TRACE\"; }\n")
	b.WriteString("__verif_st() { return \"$1\"; }\n")
	for hi, h := range in.Defined {
		if !safeName.MatchString(h.Name) {
			continue // never generated; a replay file edited by hand cannot inject shell text
		}
		var f, helpers strings.Builder
		fmt.Fprintf(&f, "function %s() {\n  __verif_h '%s'\n", h.Name, h.Name)
		if h.Name == "__config__" {
			for i, c := range *in.Config {
				f.WriteString(chunkWriter(i, c) + "\n")
			}
		}
		// arms: the indices with their own commands or a non-zero final status
		arms := map[int][]Cmd{}
		var idx []int
		for _, a := range h.Arms {
			arms[a.Index] = a.Body
			idx = append(idx, a.Index)
		}
		if !h.Falloff {
			for i, st := range h.Status {
				if _, ok := arms[i]; st != 0 && !ok {
					arms[i] = h.Body
					idx = append(idx, i)
				}
			}
		}
		sort.Ints(idx)
		if len(idx) == 0 {
			writeCmds(&f, &helpers, "  ", hi, "d", h.Body, h, 0)
		} else {
			f.WriteString("  case \"${BINDING_CONTEXT_CURRENT_INDEX:-0}\" in\n")
			for _, i := range idx {
				fmt.Fprintf(&f, "  %d)\n", i)
				writeCmds(&f, &helpers, "    ", hi, strconv.Itoa(i), arms[i], h, statusAt(h, i))
				f.WriteString("    ;;\n")
			}
			f.WriteString("  *)\n")
			writeCmds(&f, &helpers, "    ", hi, "d", h.Body, h, 0)
			f.WriteString("    ;;\n  esac\n")
		}
		f.WriteString("}\n")
		b.WriteString(helpers.String())
		b.WriteString(f.String())
	}
	b.WriteString("hook::run \"$@\"\n")
	return b.String()
}

func tmpBase() string {
	if wd, err := os.Getwd(); err == nil {
		d := filepath.Join(wd, ".build", "tmp")
		if os.MkdirAll(d, 0o755) == nil {
			return d
		}
	}
	return os.TempDir()
}

// Run executes one generated hook with bash against the real library.
func Run(in Input) Obs {
	repo := repoDir()
	lib, err := os.ReadFile(filepath.Join(repo, "shell_lib.sh"))
	if err != nil {
		return Obs{Err: "cannot read shell_lib.sh: " + err.Error(), Status: -1}
	}
	const imagePath = "/frameworks/shell/"
	if !bytes.Contains(lib, []byte(imagePath)) {
		return Obs{Err: "shell_lib.sh no longer loads the framework from " + imagePath, Status: -1}
	}
	lib = bytes.ReplaceAll(lib, []byte(imagePath), []byte(filepath.Join(repo, "frameworks", "shell")+"/"))
	dir, err := os.MkdirTemp(tmpBase(), "c19-")
	if err != nil {
		return Obs{Err: err.Error(), Status: -1}
	}
	defer os.RemoveAll(dir)
	cj, err := ContextsJSON(in)
	if err != nil {
		return Obs{Err: err.Error(), Status: -1}
	}
	trace := filepath.Join(dir, "trace")
	if err := os.Mkdir(filepath.Join(dir, "cwd"), 0o755); err != nil {
		return Obs{Err: err.Error(), Status: -1}
	}
	files := map[string][]byte{"lib.sh": lib, "ctx.json": cj, "hook.sh": []byte(Script(in))}
	for i, c := range configOf(in) {
		if c.Form == formFile {
			files[fmt.Sprintf("config.%d", i)] = []byte(c.bytes())
		}
	}
	for name, content := range files {
		if err := os.WriteFile(filepath.Join(dir, name), content, 0o644); err != nil {
			return Obs{Err: err.Error(), Status: -1}
		}
	}
	// a run takes some 50 ms; on a machine under heavy load a run that exceeds the time limit is
	// repeated once with a generous limit before it counts as a hang (no verdict from timing)
	var so, se bytes.Buffer
	o := Obs{}
	for attempt, limit := range []time.Duration{30 * time.Second, 100 * time.Second} {
		so.Reset()
		se.Reset()
		o = Obs{}
		if attempt > 0 {
			os.Remove(trace)
		}
		ctx, cancel := context.WithTimeout(context.Background(), limit)
		cmd := exec.CommandContext(ctx, "bash", append([]string{filepath.Join(dir, "hook.sh")}, in.Args...)...)
		// the hook runs in an EMPTY directory of its own (before the repair a686454 the framework's unquoted
		// expansions underwent pathname expansion: a run against such a tree must not depend on stray files)
		cmd.Dir = filepath.Join(dir, "cwd")
		cmd.Env = []string{"PATH=" + os.Getenv("PATH"), "LC_ALL=C", "VERIF_LIB=" + filepath.Join(dir, "lib.sh"),
			"VERIF_TRACE=" + trace, "VERIF_CFG=" + filepath.Join(dir, "config"), "BINDING_CONTEXT_PATH=" + filepath.Join(dir, "ctx.json")}
		cmd.Stdout, cmd.Stderr = &so, &se
		err = cmd.Run()
		timedOut := ctx.Err() != nil
		cancel()
		if err != nil {
			if ee, ok := err.(*exec.ExitError); ok && ee.ExitCode() >= 0 {
				o.Status = ee.ExitCode()
			} else {
				o.Status = -1
				o.Err = err.Error()
			}
		}
		if !timedOut {
			break
		}
	}
	raw := so.String()
	o.OutLen = len(raw)
	o.Out = encodeRuns(raw)
	if decodeRuns(o.Out) != raw { // (cannot happen) never let an encoding fault pass for an observation
		o.Out = []Chunk{{Text: Text(raw), Rep: 1}}
	}
	if len(raw) > 300 {
		o.Stdout = strconv.Quote(raw[:300]) + "..."
	} else if raw != "" {
		o.Stdout = strconv.Quote(raw)
	}
	st := se.String()
	if len(st) > 600 {
		st = st[len(st)-600:]
	}
	o.Stderr = st
	if tb, err := os.ReadFile(trace); err == nil {
		for _, line := range strings.Split(strings.TrimSuffix(string(tb), "\n"), "\n") {
			f := strings.SplitN(line, "\t", 3)
			if len(f) != 3 {
				o.Err = "bad trace line: " + line
				continue
			}
			if f[0] == "@" { // the mark of a command of the handler invoked last
				k, e1 := strconv.Atoi(f[1])
				j, e2 := strconv.Atoi(f[2])
				if e1 != nil || e2 != nil || len(o.Steps) == 0 {
					o.Err = "bad mark line: " + line
					continue
				}
				o.Steps[len(o.Steps)-1] = append(o.Steps[len(o.Steps)-1], [2]int{k, j})
				continue
			}
			idx := 0
			if f[1] != "" {
				if idx, err = strconv.Atoi(f[1]); err != nil {
					o.Err = "bad trace index: " + line
				}
			}
			o.Trace = append(o.Trace, Entry{Name: f[0], Index: idx, Binding: f[2]})
			o.Steps = append(o.Steps, [][2]int{})
		}
	}
	// "the configuration was printed": __config__ ran and stdout is exactly what it wrote
	for _, e := range o.Trace {
		if e.Name == "__config__" {
			o.Printed = raw == ConfigText(in)
		}
	}
	return o
}

// ---- rendering for Coq ----

func optField(m map[string]interface{}, k string) (string, bool, bool) {
	v, ok := m[k]
	if !ok || v == nil {
		return "", false, true
	}
	switch x := v.(type) {
	case string:
		return x, true, true
	case bool:
		if !x {
			return "", false, true
		}
	}
	return "", false, false // a value the model has no reading for
}

func coqOptBytes(s string, present bool) string { return core.CoqOpt(present, core.CoqBytes(s)) }

func coqCtxs(in Input) (string, bool) {
	cj, err := ContextsJSON(in)
	if err != nil {
		return "[]", false
	}
	var list []map[string]interface{}
	if err := json.Unmarshal(cj, &list); err != nil {
		return "[]", false
	}
	okAll := true
	parts := make([]string, len(list))
	for i, m := range list {
		var fs []string
		for _, k := range []string{"binding", "type", "watchEvent", "groupName", "fromVersion", "toVersion"} {
			s, present, ok := optField(m, k)
			okAll = okAll && ok
			fs = append(fs, coqOptBytes(s, present))
		}
		parts[i] = "mkCtx " + strings.Join(fs, " ")
	}
	return "[" + strings.Join(parts, ";\n    ") + "]", okAll
}

func coqEntry(e Entry) string {
	return fmt.Sprintf("(%s, %d, %s)", core.CoqBytes(e.Name), e.Index, core.CoqBytes(e.Binding))
}

var exoticLog []any

func Render(in Input, obs *Obs, crash string) core.Case {
	o := Obs{Status: 9999}
	if obs != nil {
		o = *obs
	}
	if crash != "" {
		o.Err = crash
	}
	status := o.Status
	if status < 0 || o.Err != "" {
		status = 9999 // the harness could not run or read the case: never equal to a model status
	}
	kb, _ := json.Marshal(in)
	given := in // (Config absent = the default text)
	in = norm(in)
	ctxs, readable := coqCtxs(in)
	exotic := in.Exotic || !readable
	defs := core.CoqList(in.Defined, func(h Handler) string {
		return fmt.Sprintf("mkH %s %s %s %s %s", core.CoqBytes(h.Name), core.CoqList(h.Status, core.CoqN), core.CoqBool(h.Falloff),
			coqBody(h.Body), core.CoqList(h.Arms, func(a Arm) string { return fmt.Sprintf("(%d, %s)", a.Index, coqBody(a.Body)) }))
	})
	steps := o.Steps
	for len(steps) < len(o.Trace) { // (an observation from an old replay file)
		steps = append(steps, nil)
	}
	c := core.Case{}
	c.Coq = fmt.Sprintf("mkCase %s %s\n   %s\n   %s\n   %s\n   (mkObsB (mkObs %s %d %s) %s)\n   %s", core.CoqBool(exotic),
		core.CoqList(in.Args, core.CoqBytes), ctxs, defs, coqChunks(*in.Config),
		core.CoqList(o.Trace, coqEntry), status, core.CoqBool(o.Printed),
		core.CoqList(steps, func(ss [][2]int) string {
			return core.CoqList(ss, func(m [2]int) string { return fmt.Sprintf("(%d, %d)", m[0], m[1]) })
		}), coqChunks(o.Out))
	c.JSON = o
	c.Key = string(kb)
	config := len(in.Args) > 0 && in.Args[0] == "--config"
	if config {
		c.Tags = append(c.Tags, "mode:config")
		c.Tags = append(c.Tags, cfgTags(given)...)
		if o.Printed {
			c.Tags = append(c.Tags, "cfg:printed-verbatim")
		}
	} else {
		c.Tags = append(c.Tags, "mode:run", fmt.Sprintf("nctx:%d", len(in.Ctxs)))
		for _, x := range in.Ctxs {
			c.Tags = append(c.Tags, "kind:"+x.Kind)
		}
		c.Tags = append(c.Tags, fmt.Sprintf("calls:%d", len(o.Trace)))
		for _, e := range o.Trace {
			c.Tags = append(c.Tags, "invoked:"+handlerClass(e.Name))
		}
	}
	c.Tags = append(c.Tags, bodyTags(in, o)...)
	if !config {
		c.Tags = append(c.Tags, nameTags(in)...)
	}
	switch {
	case status == 0:
		c.Tags = append(c.Tags, "exit:0")
	case status == 9999:
		c.Tags = append(c.Tags, "exit:harness-error")
	default:
		c.Tags = append(c.Tags, "exit:nonzero")
	}
	c.Tags = append(c.Tags, fmt.Sprintf("ndefined:%d", len(in.Defined)))
	// non-trivial: a dispatch over at least one context with at least one handler defined,
	// or --config with __config__ defined
	c.Nontrivial = (!config && len(in.Ctxs) >= 1 && len(in.Defined) >= 1) || (config && hasHandler(in, "__config__"))
	if exotic {
		exp := goTriageExpectation(in)
		exoticLog = append(exoticLog, map[string]any{"ctxs": in.Ctxs, "defined": handlerNames(in), "args": in.Args,
			"observed_trace": o.Trace, "observed_status": o.Status, "stderr_tail": lastLine(o.Stderr),
			"names_as_atoms_would_call": exp, "differs_from_atoms_reading": !sameCalls(exp, o.Trace)})
	}
	return c
}

func coqChunks(cs []Chunk) string {
	return core.CoqList(cs, func(c Chunk) string {
		n := c.Rep
		if n < 1 {
			n = 1
		}
		return fmt.Sprintf("(%d, %s)", n, core.CoqBytes(string(c.Text)))
	})
}

var cfgFormNames = []string{"file", "here-document", "printf", "echo"}

// cfgTags describes the text of __config__ of a --config case.
func cfgTags(in Input) []string {
	if !hasHandler(in, "__config__") {
		return []string{"cfg:undefined"}
	}
	if in.Config == nil {
		return []string{"cfg:default-text"}
	}
	cs := configOf(in)
	t := ConfigText(in)
	set := map[string]bool{fmt.Sprintf("cfg:chunks:%d", len(cs)): true}
	for _, c := range cs {
		set["cfg:form:"+cfgFormNames[c.Form]] = true
	}
	has := func(tag string, b bool) {
		if b {
			set["cfg:"+tag] = true
		}
	}
	has("empty", t == "")
	has("leading-dash", strings.HasPrefix(t, "-"))
	has("document-marker", strings.HasPrefix(t, "---"))
	has("percent", strings.Contains(t, "%"))
	has("backslash", strings.Contains(t, "\\"))
	has("escaped-quote", strings.Contains(t, "\\\""))
	has("double-backslash", strings.Contains(t, "\\\\"))
	has("no-final-newline", t != "" && !strings.HasSuffix(t, "\n"))
	has("one-final-newline", strings.HasSuffix(t, "\n") && !strings.HasSuffix(t, "\n\n"))
	has("several-final-newlines", strings.HasSuffix(t, "\n\n"))
	has("several-lines", strings.Count(t, "\n") >= 2)
	has("nul", strings.Contains(t, "\x00"))
	has("non-utf8", !utf8.ValidString(t))
	has("carriage-return", strings.Contains(t, "\r"))
	has("dollar-or-backquote", strings.ContainsAny(t, "$`"))
	has("glob-characters", strings.ContainsAny(t, "*?["))
	has("leading-or-trailing-blank", strings.HasPrefix(t, " ") || strings.HasPrefix(t, "\t") || strings.HasSuffix(t, " ") || strings.HasSuffix(t, " \n"))
	has("json", strings.HasPrefix(t, "{"))
	switch {
	case len(t) > 128<<10:
		set["cfg:size:>128KiB"] = true
	case len(t) > 64<<10:
		set["cfg:size:>64KiB"] = true
	case len(t) >= 4096:
		set["cfg:size:>=4KiB"] = true
	default:
		set["cfg:size:<4KiB"] = true
	}
	var r []string
	for k := range set {
		r = append(r, k)
	}
	sort.Strings(r)
	return r
}

func coqCmd(c Cmd) string {
	switch {
	case c.Op == "unset":
		return "Unset"
	case c.Op == "pipe" || isBlock(c.Op):
		return ops[c.Op] + " " + core.CoqList(c.St, core.CoqN)
	}
	return fmt.Sprintf("%s %d", ops[c.Op], c.St[0])
}

func coqBody(b []Cmd) string { return core.CoqList(b, coqCmd) }

// cmdsAt: the commands handler h runs at context index i (without the final return).
func cmdsAt(h Handler, i int) []Cmd {
	for _, a := range h.Arms {
		if a.Index == i {
			return a.Body
		}
	}
	return h.Body
}

// bodyTags describes, from the OBSERVED marks, how the invoked handlers' bodies ended:
//
//	body:none              no invoked handler has commands besides the final return
//	body:ops:<op>          an invoked handler's commands contain this shape
//	body:no-final-return   an invoked handler has no final explicit return (its status is its last command's)
//	body:all-started       every command of an invoked body started
//	body:stopped-mid       an invoked body stopped at a command after which further commands remained,
//	body:stopped-at:<op>   ... that command having this shape,
//	body:stopped-mid-with-contexts-left   ... with binding contexts left after that invocation
//	body:run-continued-after-tolerated-failure   a command failed in a tested position and later handlers ran
func bodyTags(in Input, o Obs) []string {
	set := map[string]bool{}
	byName := map[string]Handler{}
	for _, h := range in.Defined {
		if _, ok := byName[h.Name]; !ok {
			byName[h.Name] = h
		}
	}
	any := false
	for n, e := range o.Trace {
		h, ok := byName[e.Name]
		if !ok || n >= len(o.Steps) {
			continue
		}
		cmds := cmdsAt(h, e.Index)
		if len(cmds) == 0 {
			continue
		}
		any = true
		if h.Falloff {
			set["body:no-final-return"] = true
		}
		tolerated := false
		for _, c := range cmds {
			set["body:ops:"+c.Op] = true
			if (c.Op == "ortrue" || c.Op == "if" || c.Op == "andtrue" || c.Op == "localsubst") && anyNonzero(c.St) {
				tolerated = true
			}
		}
		top := -1
		for _, m := range o.Steps[n] {
			if m[1] == 0 && m[0] > top {
				top = m[0]
			}
		}
		total := len(cmds)
		if !h.Falloff {
			total++
		}
		switch {
		case top < 0:
		case top >= total-1:
			set["body:all-started"] = true
			if tolerated && n+1 < len(o.Trace) {
				set["body:run-continued-after-tolerated-failure"] = true
			}
		default: // commands after number top never started
			set["body:stopped-at:"+cmds[top].Op] = true
			set["body:stopped-mid"] = true
			if n+1 < len(in.Ctxs) && !(len(in.Args) > 0 && in.Args[0] == "--config") {
				set["body:stopped-mid-with-contexts-left"] = true
			}
		}
	}
	if !any {
		return []string{"body:none"}
	}
	var r []string
	for k := range set {
		r = append(r, k)
	}
	sort.Strings(r)
	return r
}

func anyNonzero(xs []int) bool {
	for _, x := range xs {
		if x != 0 {
			return true
		}
	}
	return false
}

func lastLine(s string) string {
	ls := strings.Split(strings.TrimSpace(s), "\n")
	return ls[len(ls)-1]
}

func handlerClass(n string) string {
	switch {
	case n == "__main__" || n == "__config__" || n == "__on_startup":
		return n
	case strings.HasPrefix(n, "__on_kubernetes::"):
		for _, s := range []string{"::synchronization", "::added_or_modified", "::added", "::modified", "::deleted"} {
			if strings.HasSuffix(n, s) {
				return "kubernetes" + s
			}
		}
		return "kubernetes"
	case strings.HasPrefix(n, "__on_conversion::"):
		if strings.Count(n, "::") >= 3 {
			return "conversion::versions"
		}
		return "conversion"
	case strings.HasPrefix(n, "__on_"):
		return strings.SplitN(strings.TrimPrefix(n, "__on_"), "::", 2)[0]
	}
	return "other"
}

func hasHandler(in Input, n string) bool {
	for _, h := range in.Defined {
		if h.Name == n {
			return true
		}
	}
	return false
}

func handlerNames(in Input) []string {
	var r []string
	for _, h := range in.Defined {
		r = append(r, h.Name)
	}
	return r
}

// ---- generation ----

// candNames lists the documented specific handler names of a context.  Used ONLY to
// choose which handler subsets to generate (and as an unverified triage hint for the
// exotic stream); judging is done by Coq.
func candNames(c Ctx) []string {
	b := c.Binding
	k := "__on_kubernetes::" + b
	switch c.Kind {
	case "onStartup":
		return []string{"__on_startup"}
	case "schedule":
		return []string{"__on_schedule::" + b}
	case "sync":
		return []string{k + "::synchronization", k}
	case "added":
		return []string{k + "::added", k + "::added_or_modified", k}
	case "modified":
		return []string{k + "::modified", k + "::added_or_modified", k}
	case "deleted":
		return []string{k + "::deleted", k}
	case "group":
		return []string{"__on_group::" + c.Group}
	case "validating":
		return []string{"__on_validating::" + b}
	case "mutating":
		return []string{"__on_mutating::" + b}
	case "conversion":
		return []string{"__on_conversion::" + b + "::" + strings.Replace(c.From, "/", ".", 1) + "::" + strings.Replace(c.To, "/", ".", 1),
			"__on_conversion::" + b}
	}
	return nil
}

// universe: every handler name any kind could use for binding b (decoys come from here)
func universe(b string) []string {
	k := "__on_kubernetes::" + b
	return []string{"__on_startup", "__on_schedule::" + b, k, k + "::synchronization", k + "::added", k + "::modified",
		k + "::deleted", k + "::added_or_modified", "__on_group::" + b, "__on_validating::" + b, "__on_mutating::" + b,
		"__on_conversion::" + b, "__on_conversion::" + b + "::v1::v2"}
}

func goTriageExpectation(in Input) []string {
	if len(in.Args) > 0 && in.Args[0] == "--config" {
		return nil
	}
	var calls []string
	for i, c := range in.Ctxs {
		found := ""
		for _, n := range append(candNames(c), "__main__") {
			if hasHandler(in, n) {
				found = n
				break
			}
		}
		if found == "" {
			break
		}
		calls = append(calls, found)
		st := 0
		for _, h := range in.Defined {
			if h.Name == found && i < len(h.Status) {
				st = h.Status[i]
			}
		}
		if st != 0 {
			break
		}
	}
	return calls
}

func sameCalls(exp []string, tr []Entry) bool {
	if len(exp) != len(tr) {
		return false
	}
	for i := range exp {
		if exp[i] != tr[i].Name {
			return false
		}
	}
	return true
}

var kinds = []string{"onStartup", "schedule", "sync", "added", "modified", "deleted", "group", "validating", "mutating", "conversion", "kubeShort", "unknownType", "unknownEvent"}

func mkCtx(kind, binding string) Ctx {
	switch kind {
	case "onStartup":
		return Ctx{Kind: kind, Binding: "onStartup"}
	case "group":
		return Ctx{Kind: kind, Binding: binding, Group: "g-" + binding}
	case "conversion":
		return Ctx{Kind: kind, Binding: binding, From: "stable.example.com/v1alpha1", To: "stable.example.com/v1"}
	case "unknownType":
		return Ctx{Kind: "raw", Binding: binding, Raw: fmt.Sprintf(`{"binding":%q,"type":"Custom"}`, binding)}
	case "unknownEvent":
		return Ctx{Kind: "raw", Binding: binding, Raw: fmt.Sprintf(`{"binding":%q,"type":"Event","watchEvent":"Bookmark"}`, binding)}
	}
	return Ctx{Kind: kind, Binding: binding}
}

func subsets(names []string) [][]string {
	var out [][]string
	for m := 0; m < 1<<len(names); m++ {
		var s []string
		for i, n := range names {
			if m&(1<<i) != 0 {
				s = append(s, n)
			}
		}
		out = append(out, s)
	}
	return out
}

func union(a, b []string) []string {
	seen := map[string]bool{}
	var r []string
	for _, x := range append(append([]string{}, a...), b...) {
		if !seen[x] {
			seen[x] = true
			r = append(r, x)
		}
	}
	return r
}

func minus(a, b []string) []string {
	drop := map[string]bool{}
	for _, x := range b {
		drop[x] = true
	}
	var r []string
	for _, x := range a {
		if !drop[x] {
			r = append(r, x)
		}
	}
	return r
}

func handlers(names []string, status func(name string) []int) []Handler {
	hs := make([]Handler, 0, len(names))
	for _, n := range names {
		hs = append(hs, Handler{Name: n, Status: status(n)})
	}
	return hs
}

// exhaustive, one context: every kind x every subset of its candidates (+__main__) x
// handler status {0,1} x decoys {absent, present}
func exhaustiveSingles() []Input {
	var ins []Input
	for _, k := range kinds {
		c := mkCtx(k, "b1")
		cands := append(candNames(c), "__main__")
		decoys := minus(union(universe(c.Binding), union(universe("b2"), []string{"__on_group::" + c.Group, "__config__"})), cands)
		for _, sub := range subsets(cands) {
			for _, st := range []int{0, 1} {
				for _, withDecoys := range []bool{false, true} {
					names := sub
					if withDecoys {
						names = append(append([]string{}, decoys...), sub...)
					}
					st := st
					ins = append(ins, Input{Ctxs: []Ctx{c}, Defined: handlers(names, func(string) []int { return []int{st} })})
				}
			}
		}
	}
	return ins
}

// exhaustive, two contexts under one binding: every ordered pair of kinds x every subset
// of the union of their candidates (+__main__) x failure pattern {none, every handler
// fails at index 0, every handler fails at index 1}
func exhaustivePairs() []Input {
	var ins []Input
	for _, k1 := range kinds {
		for _, k2 := range kinds {
			c1, c2 := mkCtx(k1, "b1"), mkCtx(k2, "b1")
			cands := union(union(candNames(c1), candNames(c2)), []string{"__main__"})
			for _, sub := range subsets(cands) {
				for _, pat := range [][]int{nil, {1, 0}, {0, 1}} {
					pat := pat
					ins = append(ins, Input{Ctxs: []Ctx{c1, c2}, Defined: handlers(sub, func(string) []int { return pat })})
				}
			}
		}
	}
	return ins
}

var safeBindings = []string{"b1", "pods", "my-cm", "a.b", "x_y", "unknown", "B2", "monitor-pods.v1"}
var versions = []string{"v1", "v1beta1", "stable.example.com/v1", "stable.example.com/v1alpha1", "a/b/c", ""}
var failCodes = []int{1, 1, 1, 2, 3, 42, 127, 255}

func randomCtx(r *core.Rng, malformedPct int) Ctx {
	b := safeBindings[r.Intn(len(safeBindings))]
	if r.Chance(malformedPct) {
		switch r.Intn(5) {
		case 0:
			return Ctx{Kind: "raw", Raw: fmt.Sprintf(`{"binding":%q,"type":"Group"}`, b)}
		case 1:
			return Ctx{Kind: "raw", Raw: fmt.Sprintf(`{"binding":%q,"type":"Conversion","fromVersion":"v1"}`, b)}
		case 2:
			return Ctx{Kind: "raw", Raw: `{"type":"Schedule"}`}
		case 3:
			return Ctx{Kind: "raw", Raw: `{"binding":null,"type":"Synchronization","objects":[]}`}
		default:
			return Ctx{Kind: "raw", Raw: fmt.Sprintf(`{"binding":%q,"type":"Event","watchEvent":null}`, b)}
		}
	}
	k := kinds[r.Intn(len(kinds))]
	c := mkCtx(k, b)
	if c.Kind == "group" {
		c.Group = []string{"g1", "main", b, "grp.a-b"}[r.Intn(4)]
	}
	if c.Kind == "conversion" {
		c.From, c.To = versions[r.Intn(len(versions))], versions[r.Intn(len(versions))]
	}
	return c
}

func randomInput(r *core.Rng) Input {
	n := 1 + r.Intn(6)
	if r.Chance(3) {
		n = 0
	}
	if r.Chance(12) {
		// long arrays: ten and more contexts in one run (a combined backlog), around the digit boundaries
		n = []int{9, 10, 11, 12, 19, 20, 21, 25, 99, 100, 101}[r.Intn(11)]
		if n > 30 && !r.Chance(25) {
			n = 10 + r.Intn(16)
		}
	}
	var in Input
	malformed := 0
	if r.Chance(12) {
		malformed = 25
	}
	var cands, decoys []string
	for i := 0; i < n; i++ {
		c := randomCtx(r, malformed)
		in.Ctxs = append(in.Ctxs, c)
		cands = union(cands, candNames(c))
		decoys = union(decoys, universe(c.Binding))
	}
	cands = union(cands, []string{"__main__"})
	decoys = minus(decoys, cands)
	pDef := []int{20, 50, 50, 80}[r.Intn(4)]
	pFail := []int{0, 10, 10, 30}[r.Intn(4)]
	status := func(string) []int {
		var s []int
		for i := 0; i < n; i++ {
			if r.Chance(pFail) {
				s = append(s, failCodes[r.Intn(len(failCodes))])
			} else {
				s = append(s, 0)
			}
		}
		return s
	}
	var names []string
	for _, c := range cands {
		if r.Chance(pDef) {
			names = append(names, c)
		}
	}
	for _, d := range decoys {
		if r.Chance(15) {
			names = append(names, d)
		}
	}
	// shuffle the definition order (it must not matter)
	for i := len(names) - 1; i > 0; i-- {
		j := r.Intn(i + 1)
		names[i], names[j] = names[j], names[i]
	}
	in.Defined = handlers(names, status)
	switch k := r.Intn(100); {
	case k < 8:
		in.Args = []string{"--config"}
		if r.Chance(75) {
			st := 0
			if r.Chance(25) {
				st = failCodes[r.Intn(len(failCodes))]
			}
			in.Defined = append(in.Defined, Handler{Name: "__config__", Status: []int{st}})
		}
	case k < 10:
		in.Args = []string{"--config", "extra"}
		in.Defined = append(in.Defined, Handler{Name: "__config__", Status: []int{0}})
	case k < 14:
		in.Args = [][]string{{"run"}, {"", "--config"}, {"--configure"}, {"-config"}}[r.Intn(4)]
		if r.Bool() {
			in.Defined = append(in.Defined, Handler{Name: "__config__", Status: []int{0}})
		}
	case k < 30:
		in.Defined = append(in.Defined, Handler{Name: "__config__", Status: []int{0}})
	}
	return in
}

// largeInput: a random input in which one or two contexts carry a payload around and beyond
// 128 KiB (the largest single argument / environment string on Linux); their handlers and
// __main__ are usually defined.
func largeInput(r *core.Rng) Input {
	var in Input
	for {
		in = randomInput(r)
		if len(in.Args) == 0 && len(in.Ctxs) > 0 {
			break
		}
	}
	if len(in.Ctxs) > 3 {
		in.Ctxs = in.Ctxs[:3]
		for hi := range in.Defined {
			if len(in.Defined[hi].Status) > 3 {
				in.Defined[hi].Status = in.Defined[hi].Status[:3]
			}
		}
	}
	sizes := []int{100, 126, 127, 128, 129, 160, 200, 300}
	n := 1 + r.Intn(2)
	for k := 0; k < n; k++ {
		i := r.Intn(len(in.Ctxs))
		if !paddable(in.Ctxs[i].Kind) {
			b := in.Ctxs[i].Binding
			if b == "" || b == "onStartup" {
				b = safeBindings[r.Intn(len(safeBindings))]
			}
			in.Ctxs[i] = mkCtx([]string{"sync", "added", "modified", "deleted", "group"}[r.Intn(5)], b)
		}
		in.Ctxs[i].Pad = sizes[r.Intn(len(sizes))]
	}
	// define the most specific candidate of every padded context with probability 3/4, __main__ with 1/2
	have := map[string]bool{}
	for _, h := range in.Defined {
		have[h.Name] = true
	}
	add := func(name string) {
		if !have[name] && safeName.MatchString(name) {
			have[name] = true
			in.Defined = append(in.Defined, Handler{Name: name})
		}
	}
	for _, c := range in.Ctxs {
		if c.Pad > 0 && r.Chance(75) {
			if cs := candNames(c); len(cs) > 0 {
				add(cs[r.Intn(len(cs))])
			}
		}
	}
	if r.Chance(50) {
		add("__main__")
	}
	return in
}

// ---- handler bodies ----

const nForms = 8

func plain(st, form int) Cmd { return Cmd{Op: "plain", St: []int{st}, Form: []int{form}} }

func one(op string, st, form int) Cmd { return Cmd{Op: op, St: []int{st}, Form: []int{form}} }

func many(op string, sts ...int) Cmd {
	c := Cmd{Op: op, St: sts}
	for i := range sts {
		c.Form = append(c.Form, i%2) // function / subshell alternately
	}
	return c
}

// strictCatalogue: one command of every shape and of every way to fail or to be tolerated.
func strictCatalogue() []Cmd {
	cs := []Cmd{}
	for f := 0; f < nForms; f++ {
		cs = append(cs, plain(1, f)) // every spelling of a failing simple command
	}
	cs = append(cs, plain(3, 0), plain(42, 1), plain(2, 5), plain(255, 2),
		many("pipe", 1, 0), many("pipe", 0, 1), many("pipe", 0, 2, 0), many("pipe", 3, 4), many("pipe", 4, 3, 0), many("pipe", 0, 0),
		Cmd{Op: "pipe", St: []int{1, 0}, Form: []int{3, 3}}, Cmd{Op: "pipe", St: []int{1, 0}, Form: []int{6, 6}},
		one("ortrue", 1, 0), one("ortrue", 1, 6), one("andtrue", 2, 0), one("andtrue", 0, 3), one("if", 1, 4), one("if", 0, 0),
		one("not", 0, 3), one("not", 1, 3), one("not", 5, 0),
		one("return", 0, 0), one("return", 5, 0), one("exit", 0, 0), one("exit", 7, 0), Cmd{Op: "unset"},
		many("group", 0, 2, 0), many("group", 0, 0), many("call", 0, 2, 0), many("call", 3), many("call", 0, 0),
		many("subst", 0, 2, 0), many("subst", 0, 0), many("localsubst", 0, 2, 0), many("localsubst", 1))
	return cs
}

// strictSystematic: every command of the catalogue first / in the MIDDLE / last in the body of
// the handler of context 0 (of 2), with and without a final explicit return (first / last: one
// of the two, alternately); and in the arm
// for context 1 of a handler that serves three contexts.
func strictSystematic() []Input {
	ctxs := []Ctx{mkCtx("schedule", "b1"), mkCtx("onStartup", "")}
	same := []Ctx{mkCtx("schedule", "b1"), mkCtx("schedule", "b1"), mkCtx("schedule", "b1")}
	var ins []Input
	for n, x := range strictCatalogue() {
		a, b := plain(0, n%nForms), plain(0, (n+3)%nForms)
		for pos, body := range [][]Cmd{{x, a, b}, {a, x, b}, {a, b, x}} {
			for fi, falloff := range []bool{false, true} {
				if pos != 1 && fi != (n+pos/2)%2 {
					continue // first / last: one of the two, alternately; middle: both
				}
				ins = append(ins, Input{Ctxs: ctxs, Defined: []Handler{
					{Name: "__on_schedule::b1", Body: body, Falloff: falloff},
					{Name: "__main__", Body: []Cmd{plain(0, pos)}, Falloff: !falloff}}})
			}
		}
		ins = append(ins, Input{Ctxs: same, Defined: []Handler{
			{Name: "__on_schedule::b1", Body: []Cmd{a}, Falloff: n%2 == 0, Arms: []Arm{{Index: 1, Body: []Cmd{a, x, b}}}}}})
	}
	return ins
}

func randomCmd(r *core.Rng, pFail int) Cmd {
	st := 0
	if r.Chance(pFail) {
		st = failCodes[r.Intn(len(failCodes))]
	}
	tst := 0 // the status of a command in a tested position: fails half of the time
	if r.Bool() {
		tst = failCodes[r.Intn(len(failCodes))]
	}
	block := func(op string) Cmd {
		c := Cmd{Op: op}
		n := 1 + r.Intn(3)
		at := r.Intn(n)
		for i := 0; i < n; i++ {
			x := 0
			if (st != 0 && i == at) || r.Chance(5) {
				x = failCodes[r.Intn(len(failCodes))]
				if st != 0 && i == at {
					x = st
				}
			}
			c.St = append(c.St, x)
			c.Form = append(c.Form, r.Intn(nForms))
		}
		return c
	}
	switch k := r.Intn(100); {
	case k < 38:
		return plain(st, r.Intn(nForms))
	case k < 54:
		c := block("pipe")
		if len(c.St) < 2 {
			c.St, c.Form = append(c.St, 0), append(c.Form, r.Intn(nForms))
		}
		return c
	case k < 61:
		return one("ortrue", tst, r.Intn(nForms))
	case k < 66:
		return one("andtrue", tst, r.Intn(nForms))
	case k < 72:
		return one("if", tst, r.Intn(nForms))
	case k < 77:
		return one("not", tst, r.Intn(nForms))
	case k < 81:
		if st == 0 && r.Chance(70) {
			return plain(0, r.Intn(nForms))
		}
		return one("return", st, 0)
	case k < 83:
		if st == 0 && r.Chance(70) {
			return plain(0, r.Intn(nForms))
		}
		return one("exit", st, 0)
	case k < 85:
		if st == 0 {
			return plain(0, r.Intn(nForms))
		}
		return Cmd{Op: "unset"}
	case k < 89:
		return block("group")
	case k < 93:
		return block("call")
	case k < 97:
		return block("subst")
	}
	c := block("localsubst")
	if tst != 0 {
		c.St[r.Intn(len(c.St))] = tst
	}
	return c
}

func randomBody(r *core.Rng, pFail int) []Cmd {
	var b []Cmd
	for n := r.Intn(5); n > 0; n-- {
		b = append(b, randomCmd(r, pFail))
	}
	return b
}

// bodyInput: a random input (as in the random stream) whose handlers get bodies.
func bodyInput(r *core.Rng) Input {
	in := randomInput(r)
	pFail := []int{5, 15, 15, 30}[r.Intn(4)]
	for i := range in.Defined {
		h := &in.Defined[i]
		if r.Chance(75) {
			h.Body = randomBody(r, pFail)
		}
		h.Falloff = r.Chance(30)
		if len(in.Ctxs) > 0 && r.Chance(25) {
			h.Arms = append(h.Arms, Arm{Index: r.Intn(len(in.Ctxs)), Body: randomBody(r, 40)})
		}
		if r.Chance(50) { // leave failing to the body
			h.Status = nil
		}
	}
	return in
}


// ---- the text of __config__ ----

func lit(s string) []Chunk { return []Chunk{{Text: Text(s)}} }

func configInput(cfg []Chunk, form int, st int) Input {
	c := make([]Chunk, len(cfg))
	for i := range cfg {
		c[i] = cfg[i]
		c[i].Form = (form + i) % nCfgForms
	}
	h := Handler{Name: "__config__"}
	if st != 0 {
		h.Status = []int{st}
	}
	return Input{Args: []string{"--config"}, Ctxs: []Ctx{}, Defined: []Handler{h}, Config: &c}
}

const yamlPlain = "configVersion: v1\nonStartup: 10\n"

// configCatalogue: texts a __config__ may write, one feature each, small ones first: whole
// configurations (YAML with and without the document marker, JSON whose jqFilter has escaped
// quotes and backslashes, `%` in a jqFilter), then the lexical classes on their own - leading
// dashes, `%` and printf-like formats, backslash sequences, ends of the text (no / one /
// several final newlines, blanks, nothing at all), shell-significant characters, bytes that are
// not text, lengths around the limits of pipes, pages and arguments, several writes.
func configCatalogue() [][]Chunk {
	ts := []string{
		yamlPlain,
		"---\n" + yamlPlain,
		`{"configVersion":"v1","kubernetes":[{"name":"pods","kind":"Pod","jqFilter":".metadata.labels[\"app\"]"}]}` + "\n",
		"configVersion: v1\nkubernetes:\n- name: pods\n  kind: Deployment\n  jqFilter: \".spec.replicas % 2\"\n",
		"configVersion: v1\nkubernetes:\n- name: pods\n  kind: Pod\n  jqFilter: '.metadata.name | test(\"^web-\\\\d+$\")'\n",
		"configVersion: v1\nschedule:\n- name: every-5\n  crontab: \"*/5 * * * *\"\n",
		"# hook configuration\n" + yamlPlain,
		"%YAML 1.2\n---\n" + yamlPlain,
		"--- # document\n" + yamlPlain + "...\n",
		"- a\n- b\n",
		// leading dashes
		"-", "--", "---", "-n\n", "-e\n", "-E\n", "-nx\n", "-v var\n", "-- x\n", "--help\n", "-\n",
		// percent
		"%", "%\n", "%%\n", "%s\n", "%d\n", "100%\n", "a % b\n", "%5.2f %q %b %c\n", "%(%F)T\n", "%n\n", "% d\n", "%*d\n",
		// backslash sequences
		"\\n", "\\n\n", "a\\nb\n", "a\\tb\n", "\\1\n", "\\0\n", "\\101\n", "\\x41\n", "\\u00e9\n", "\\c\n", "x\\cy\n", "\\e[0m\n", "\\\\\n", "\\\\\\\\\n", "\\\"\n", "\\'\n", "\\a\\b\\f\\r\\v\n", "a\\\nb\n", "\\", "x\\",
		// the end of the text
		"", "x", "x\n\n", "x\n\n\n", "\n", "\n\n", "\n\nx\n", " ", " \n", "x \n", "x  ", "  x\n", "\tx\n", "x\t\n", "x\n \n", "a: 1\nb: 2", "a: 1\n\nb: 2\n\n",
		// shell-significant characters
		"$HOME\n", "${PATH}\n", "$(id)\n", "`id`\n", "*\n", "? [a-z] ~ !\n", "a  b   c\n", "a\tb\n", "\"quoted\" 'single'\n", "a;b|c&d>e<f\n", "#x\n", "!!\n", "{a,b}\n", "$'\\n'\n", "$1 $@ $* $? $$\n",
		// bytes that are not text
		"a\r\nb\r\n", "x\r", "caf\xc3\xa9\n", "\xff\xfe\n", "\x80", "\x01\x02\x1b[0m\x7f\n", "a\x00b\n", "\x00", "\x00\n\x00",
	}
	var out [][]Chunk
	for _, t := range ts {
		out = append(out, lit(t))
	}
	line := "0123456789abcde\n"
	out = append(out,
		// several writes
		[]Chunk{{Text: "---\n"}, {Text: yamlPlain}},
		[]Chunk{{Text: "a"}, {Text: "b\n"}},
		[]Chunk{{Text: "%"}, {Text: "s\n"}},
		[]Chunk{{Text: "x\\"}, {Text: "n\n"}},
		[]Chunk{{Text: "x\n"}, {Text: "\n"}, {Text: ""}},
		[]Chunk{{Text: ""}, {Text: ""}},
		[]Chunk{},
		[]Chunk{{Text: "a: 1"}, {Text: "\n"}, {Text: "b: \"\\\"\"\n"}, {Text: "c: 100%"}},
		// lengths: a page, a pipe buffer, an argument, beyond
		[]Chunk{{Text: "x", Rep: 4095}, {Text: "\n"}},
		[]Chunk{{Text: "x", Rep: 4096}},
		[]Chunk{{Text: Text(line), Rep: 256}, {Text: "%\n"}},
		[]Chunk{{Text: Text(line), Rep: 4096}},
		[]Chunk{{Text: Text(line), Rep: 4096}, {Text: "x"}},
		[]Chunk{{Text: "- name: \"b\\\\d\"\n", Rep: 8192}},
		[]Chunk{{Text: Text(line), Rep: 8192}, {Text: "\n\n"}},
		[]Chunk{{Text: "y", Rep: 131073}},
		[]Chunk{{Text: "---\n"}, {Text: Text(line), Rep: 20000}},
		[]Chunk{{Text: "\n", Rep: 1000}},
		[]Chunk{{Text: "%s\\n", Rep: 300}},
	)
	return out
}

// configSystematic: every text of the catalogue with a succeeding __config__ (the way of
// writing rotates through the forms), and every eighth one also with a failing __config__.
func configSystematic() []Input {
	var ins []Input
	for n, cfg := range configCatalogue() {
		ins = append(ins, configInput(cfg, n, 0))
	}
	for n, cfg := range configCatalogue() {
		if n%8 == 1 {
			in := configInput(cfg, n+1, failCodes[(n/8)%len(failCodes)])
			if n%16 == 1 { // fails by a command of its body, after the text is out
				in.Defined[0].Status, in.Defined[0].Falloff = nil, true
				in.Defined[0].Body = []Cmd{plain(0, 3), plain(failCodes[(n/8)%len(failCodes)], 0)}
			}
			ins = append(ins, in)
		}
	}
	return ins
}

var jqFilters = []string{
	`.metadata.labels`, `.metadata.labels["app"]`, `.spec.replicas % 2`, `.metadata.name | test("^web-\\d+$")`,
	`.data | to_entries | map("\(.key)=\(.value)") | join("\n")`, `.status.phase // "Unknown"`, `"100%"`,
	`.metadata.annotations["a/b"] | @base64d`, `. as $x | $x.spec`, `.spec.containers[] | select(.image | startswith("nginx:"))`,
	`"%s %d"`, `.metadata.name | sub("\\."; "-")`, `"tab\there"`, `.a | tostring + "\\n"`, "`x`", `'single'`, `-1`, `.x * 100 | tostring + "%"`,
	`{name: .metadata.name, ok: (.status.ready == true)}`, `.spec | tojson | @sh`, `"\u00e9\ud83d\ude00"`, `.metadata.labels | keys[] | select(test("^app\\.kubernetes\\.io/"))`,
}

var spice = []string{"%", "%s", "%%", "%d", "\\n", "\\t", "\\\\", "\\1", "\\0", "\\c", "\\x41", "\\\"", "--", "-", "$x", "`", "\\", "'", "\"", "\n", " ", "\t", "*", "\r", "#", "\xc3\xa9", "\x01"}

const randomAlphabet = "%\\-n \n\"'$sdc01x{}:`*\t"

func yamlSingle(s string) string { return "'" + strings.ReplaceAll(s, "'", "''") + "'" }
func yamlDouble(s string) string {
	b, _ := json.Marshal(s)
	return string(b)
}

// randomConfigText: a hook configuration from the grammar
//
//	text    := leading document trailing | bytes
//	document:= YAML (jqFilter plain / single-quoted / double-quoted / block scalar) | JSON
//	leading := "" | "---\n" | "--- \n" | "# comment\n" | "\n" | "%YAML 1.2\n---\n"
//	trailing:= "" (one final newline) | no final newline | "\n" | "\n\n" | " \n" | "...\n"
//
// with, sometimes, a few `spice` tokens spliced in at random places; `bytes` is a short string
// over an alphabet of the characters printf, echo and the shell give a meaning to.
func randomConfigText(r *core.Rng) string {
	if r.Chance(20) {
		n := r.Intn(17)
		b := make([]byte, n)
		for i := range b {
			b[i] = randomAlphabet[r.Intn(len(randomAlphabet))]
		}
		return string(b)
	}
	name := safeBindings[r.Intn(len(safeBindings))]
	nb := 1 + r.Intn(3)
	var doc string
	if r.Chance(30) {
		var ks []map[string]any
		for i := 0; i < nb; i++ {
			ks = append(ks, map[string]any{"name": fmt.Sprintf("%s-%d", name, i), "kind": "Pod", "jqFilter": jqFilters[r.Intn(len(jqFilters))]})
		}
		m := map[string]any{"configVersion": "v1", "kubernetes": ks}
		var b []byte
		if r.Bool() {
			b, _ = json.Marshal(m)
		} else {
			b, _ = json.MarshalIndent(m, "", "  ")
		}
		doc = string(b) + "\n"
	} else {
		var b strings.Builder
		b.WriteString("configVersion: v1\n")
		if r.Chance(30) {
			fmt.Fprintf(&b, "onStartup: %d\n", r.Intn(100))
		}
		if r.Chance(30) {
			b.WriteString("schedule:\n- name: cron\n  crontab: \"*/5 * * * *\"\n")
		}
		b.WriteString("kubernetes:\n")
		for i := 0; i < nb; i++ {
			f := jqFilters[r.Intn(len(jqFilters))]
			fmt.Fprintf(&b, "- name: %s-%d\n  kind: Pod\n", name, i)
			switch r.Intn(4) {
			case 0:
				b.WriteString("  jqFilter: " + yamlSingle(f) + "\n")
			case 1:
				b.WriteString("  jqFilter: " + yamlDouble(f) + "\n")
			case 2:
				b.WriteString("  jqFilter: |\n    " + strings.ReplaceAll(f, "\n", "\n    ") + "\n")
			default:
				b.WriteString("  jqFilter: >-\n    " + strings.ReplaceAll(f, "\n", "\n    ") + "\n")
			}
		}
		doc = b.String()
	}
	lead := []string{"", "", "", "---\n", "---\n", "--- \n", "# comment\n", "\n", "%YAML 1.2\n---\n"}[r.Intn(9)]
	if strings.HasPrefix(doc, "{") && r.Chance(70) {
		lead = ""
	}
	t := lead + doc
	switch r.Intn(10) {
	case 0, 1:
		t = strings.TrimSuffix(t, "\n")
	case 2:
		t += "\n"
	case 3:
		t += "\n\n"
	case 4:
		t = strings.TrimSuffix(t, "\n") + " \n"
	case 5:
		t += "...\n"
	}
	if r.Chance(30) {
		for k := 1 + r.Intn(3); k > 0; k-- {
			at := r.Intn(len(t) + 1)
			t = t[:at] + spice[r.Intn(len(spice))] + t[at:]
		}
	}
	return t
}

// configRandomInput: --config with a text from the grammar, written in 1-4 pieces in random
// forms; __config__ succeeds in 4 of 5 cases (otherwise: an explicit return status, or a command
// of its body); contexts, other handlers and further arguments are present at random (they must
// not matter).
func configRandomInput(r *core.Rng) Input {
	t := randomConfigText(r)
	var cfg []Chunk
	for k := r.Intn(4); k > 0 && len(t) > 0; k-- {
		at := r.Intn(len(t) + 1)
		cfg = append(cfg, Chunk{Text: Text(t[:at]), Form: r.Intn(nCfgForms)})
		t = t[at:]
	}
	cfg = append(cfg, Chunk{Text: Text(t), Form: r.Intn(nCfgForms)})
	if r.Chance(4) {
		cfg = append(cfg, Chunk{Text: Text(spice[r.Intn(len(spice))]), Rep: []int{4096, 70000, 140000}[r.Intn(3)], Form: r.Intn(nCfgForms)})
	}
	in := Input{Args: []string{"--config"}, Ctxs: []Ctx{}, Config: &cfg}
	h := Handler{Name: "__config__"}
	switch k := r.Intn(100); {
	case k < 8:
		h.Status = []int{failCodes[r.Intn(len(failCodes))]}
	case k < 20:
		h.Body = randomBody(r, 40)
		h.Falloff = r.Bool()
	case k < 35:
		h.Body = randomBody(r, 0)
		h.Falloff = r.Bool()
	}
	in.Defined = []Handler{h}
	if r.Chance(25) {
		in.Ctxs = append(in.Ctxs, randomCtx(r, 0))
		in.Defined = append(in.Defined, Handler{Name: "__main__"})
		if cs := candNames(in.Ctxs[0]); len(cs) > 0 && safeName.MatchString(cs[0]) && r.Bool() {
			in.Defined = append([]Handler{{Name: cs[0], Status: []int{1}}}, in.Defined...)
		}
	}
	if r.Chance(10) {
		in.Args = append(in.Args, []string{"extra", "--config", "-n", ""}[r.Intn(4)])
	}
	if r.Chance(3) { // __config__ is not defined
		kept := []Handler{}
		for _, x := range in.Defined {
			if x.Name != "__config__" {
				kept = append(kept, x)
			}
		}
		in.Defined = kept
	}
	return in
}

var exoticBindings = []string{"a b", "x y z", "a*", "?", "[ab]", "$HOME", "a;b", `a"b`, "a'b", "`id`", "-n", `a\b`, "", "café", "b1 __main__", "*"}

var wordRe = regexp.MustCompile(`\S+`)

func exoticInput(r *core.Rng) Input {
	in := Input{} // (judged: the model speaks about names of any content)
	b := exoticBindings[r.Intn(len(exoticBindings))]
	typed := []string{"schedule", "sync", "added", "modified", "deleted", "group", "validating", "mutating", "conversion"}
	c := mkCtx(typed[r.Intn(len(typed))], b)
	in.Ctxs = []Ctx{c}
	if r.Chance(40) {
		in.Ctxs = append(in.Ctxs, mkCtx(kinds[r.Intn(len(kinds))], "b1"))
	}
	var pool []string
	for _, n := range candNames(c) {
		pool = union(pool, wordRe.FindAllString(n, -1)) // the pieces bash would see after word splitting
		pool = union(pool, []string{n})
	}
	pool = union(pool, []string{"__on_startup", "__main__"})
	if len(in.Ctxs) > 1 {
		pool = union(pool, candNames(in.Ctxs[1]))
	}
	var names []string
	for _, n := range pool {
		if safeName.MatchString(n) && r.Chance(55) {
			names = append(names, n)
		}
	}
	in.Defined = handlers(names, func(string) []int { return nil })
	return in
}

// reservedInput: a typed context whose binding the user named "onStartup" (trigger of F20),
// possibly among ordinary contexts.
func reservedInput(r *core.Rng) Input {
	typed := []string{"schedule", "sync", "added", "modified", "deleted", "group", "validating", "mutating", "conversion"}
	c := mkCtx(typed[r.Intn(len(typed))], "onStartup")
	var in Input
	pre := r.Intn(3)
	for i := 0; i < pre; i++ {
		in.Ctxs = append(in.Ctxs, mkCtx(kinds[r.Intn(len(kinds))], "b1"))
	}
	in.Ctxs = append(in.Ctxs, c)
	if r.Chance(40) {
		in.Ctxs = append(in.Ctxs, mkCtx(kinds[r.Intn(len(kinds))], "b1"))
	}
	var pool []string
	for _, x := range in.Ctxs {
		pool = union(pool, candNames(x))
	}
	pool = union(pool, []string{"__on_startup", "__main__"})
	var names []string
	for _, n := range pool {
		if r.Chance(65) {
			names = append(names, n)
		}
	}
	in.Defined = handlers(names, func(string) []int { return nil })
	return in
}

// Corpus runs first: the Example of C19_Properties.v, an empty array, --config, a failing
// handler in the middle, no candidate at all.
func Corpus() []core.In[Input] {
	ex := []Ctx{mkCtx("added", "pods"), {Kind: "group", Binding: "pods", Group: "g1"}, mkCtx("onStartup", "")}
	exDef := []string{"__on_kubernetes::pods", "__on_group::g1", "__main__", "__on_schedule::pods"}
	zero := func(string) []int { return nil }
	ins := []Input{
		{Ctxs: ex, Defined: handlers(exDef, zero)},
		{Ctxs: nil, Defined: handlers([]string{"__main__"}, zero)},
		{Args: []string{"--config"}, Ctxs: ex, Defined: handlers(append([]string{"__config__"}, exDef...), zero)},
		{Args: []string{"--config"}, Ctxs: ex, Defined: handlers(exDef, zero)},
		{Ctxs: ex, Defined: handlers(exDef, func(n string) []int {
			if n == "__on_group::g1" {
				return []int{0, 3, 0}
			}
			return nil
		})},
		{Ctxs: ex, Defined: handlers([]string{"__on_kubernetes::pods", "__on_schedule::pods"}, zero)},
		{Ctxs: []Ctx{mkCtx("conversion", "conv")}, Defined: handlers([]string{"__on_conversion::conv", "__on_conversion::conv::stable.example.com.v1alpha1::stable.example.com.v1"}, zero)},
	}
	// handlers that fail because of strict mode, not by an explicit return: three schedule
	// contexts, each with its own handler; in the second one a command in the middle fails
	// and the last command succeeds (plain command / pipeline / called function); the same
	// with the failure in a tested position (the run goes on); a handler without final
	// return whose last command fails; an unset variable.
	three := []Ctx{mkCtx("schedule", "first"), mkCtx("schedule", "second"), mkCtx("schedule", "third")}
	mid := func(x Cmd, falloff bool) Input {
		return Input{Ctxs: three, Defined: []Handler{
			{Name: "__on_schedule::first", Body: []Cmd{plain(0, 3)}, Falloff: true},
			{Name: "__on_schedule::second", Body: []Cmd{plain(0, 6), x, plain(0, 3)}, Falloff: falloff},
			{Name: "__on_schedule::third", Body: []Cmd{plain(0, 0)}, Falloff: true}}}
	}
	ins = append(ins, mid(plain(1, 6), true), mid(plain(1, 3), false), mid(many("pipe", 0, 1, 0), true),
		mid(Cmd{Op: "pipe", St: []int{1, 0}, Form: []int{5, 3}}, false), mid(many("call", 0, 2, 0), true),
		mid(many("subst", 0, 4), false), mid(one("ortrue", 1, 6), true), mid(one("if", 1, 4), false), mid(Cmd{Op: "unset"}, true),
		Input{Ctxs: three, Defined: []Handler{{Name: "__main__", Falloff: true, Body: []Cmd{plain(0, 0)},
			Arms: []Arm{{Index: 1, Body: []Cmd{plain(0, 3), one("andtrue", 3, 0)}}}}}},
		Input{Args: []string{"--config"}, Ctxs: three, Defined: []Handler{{Name: "__config__", Body: []Cmd{plain(0, 0), plain(1, 3), plain(0, 0)}}}})
	var out []core.In[Input]
	for _, in := range ins {
		out = append(out, core.In[Input]{Input: in, Stream: "corpus"})
	}
	for _, in := range namesCorpus() {
		out = append(out, core.In[Input]{Input: in, Stream: "names-corpus"})
	}
	// witness of the recorded finding F20 (reserved binding name): judged; excused by trigger F20
	out = append(out, core.In[Input]{Input: Input{Ctxs: []Ctx{{Kind: "schedule", Binding: "onStartup"}},
		Defined: handlers([]string{"__on_schedule::onStartup", "__on_startup"}, zero)}, Stream: "trigger-F20"})
	return out
}

func Gen(r *core.Rng, tier string) ([]core.In[Input], bool) {
	ins := Corpus()
	for _, in := range exhaustiveSingles() {
		ins = append(ins, core.In[Input]{Input: in, Stream: "exhaustive-1"})
	}
	for _, in := range strictSystematic() {
		ins = append(ins, core.In[Input]{Input: in, Stream: "strict-systematic"})
	}
	for _, in := range configSystematic() {
		ins = append(ins, core.In[Input]{Input: in, Stream: "config-systematic"})
	}
	nRandom, nExotic, pairs, nBody, nLarge, nConfig, nNames := 60, 24, false, 110, 10, 120, 50
	switch tier {
	case "thorough":
		nRandom, nExotic, pairs, nBody, nLarge, nConfig, nNames = 2500, 300, true, 6000, 150, 5000, 4000
	case "search":
		nRandom, nExotic, pairs, nBody, nLarge, nConfig, nNames = 600, 0, false, 1500, 60, 1200, 1500
	}
	for _, in := range namesSystematic(tier == "thorough") {
		ins = append(ins, core.In[Input]{Input: in, Stream: "names-systematic"})
	}
	if pairs {
		for _, in := range exhaustivePairs() {
			ins = append(ins, core.In[Input]{Input: in, Stream: "exhaustive-2"})
		}
	}
	rr := r.Fork()
	for i := 0; i < nRandom; i++ {
		in := randomInput(rr)
		stream := "random"
		for _, c := range in.Ctxs {
			if c.Kind == "raw" && !strings.Contains(c.Raw, "Custom") && !strings.Contains(c.Raw, "Bookmark") {
				stream = "malformed"
			}
		}
		ins = append(ins, core.In[Input]{Input: in, Stream: stream})
	}
	rt := r.Fork()
	nReserved := nRandom / 20 // ~5% of the random stream
	if nReserved < 4 {
		nReserved = 4
	}
	for i := 0; i < nReserved; i++ {
		ins = append(ins, core.In[Input]{Input: reservedInput(rt), Stream: "trigger-F20"})
	}
	re := r.Fork()
	for i := 0; i < nExotic; i++ {
		ins = append(ins, core.In[Input]{Input: exoticInput(re), Stream: "exotic"})
	}
	rl := r.Fork()
	for i := 0; i < nLarge; i++ {
		ins = append(ins, core.In[Input]{Input: largeInput(rl), Stream: "large-context"})
	}
	rb := r.Fork()
	for i := 0; i < nBody; i++ {
		ins = append(ins, core.In[Input]{Input: bodyInput(rb), Stream: "random-body"})
	}
	rc := r.Fork()
	for i := 0; i < nConfig; i++ {
		ins = append(ins, core.In[Input]{Input: configRandomInput(rc), Stream: "config-random"})
	}
	rn := r.Fork()
	for i := 0; i < nNames; i++ {
		ins = append(ins, core.In[Input]{Input: namesRandom(rn), Stream: "names-random"})
	}
	return ins, false
}

func Extra() map[string]any {
	differ := 0
	for _, e := range exoticLog {
		if e.(map[string]any)["differs_from_atoms_reading"].(bool) {
			differ++
		}
	}
	log := exoticLog
	sort.SliceStable(log, func(i, j int) bool {
		return log[i].(map[string]any)["differs_from_atoms_reading"].(bool) && !log[j].(map[string]any)["differs_from_atoms_reading"].(bool)
	})
	if len(log) > 30 {
		log = log[:30]
	}
	return map[string]any{
		"partial":                   "bash 5.2 and jq 1.6 interpret the framework and are not modelled; only the handler-name table, the hook::run loop (names as atoms) and the effect of strict mode (errexit, pipefail, nounset, inherit_errexit, tested positions, return/exit, status of the last command) on the generated shapes of handler bodies are",
		"handler_bodies":            "strict-systematic: a catalogue of ~50 commands (every shape, every spelling of a failing simple command, pipelines failing at each component, tested positions, return/exit 0 and non-zero, unset variable, subshell/called function/command substitution blocks) x {first, middle, last} in the body of the handler of context 0 of 2 x {final explicit return, none} (first/last: one of the two, alternately) + in the arm for context 1 of a handler serving 3 contexts; random-body: the random stream with 0-4 random commands per handler, 30% without final return, 25% with an arm for one context index; observed per invocation: the marks of the commands that started (tags body:*)",
		"library":                   "real " + repoDir() + "/shell_lib.sh sourced through a copy whose only change is /frameworks/shell/ -> " + repoDir() + "/frameworks/shell/",
		"context_file":              "rendered by the real pkg/hook/binding_context ConvertBindingContextList(v1)",
		"exhaustive_scope":          "exhaustive-1: 13 context kinds x every subset of the kind's candidate handlers (+__main__) x exit status {0,1} x decoy handlers {absent,present}; exhaustive-2 (thorough): 13x13 ordered kind pairs under one binding x every subset of the union of candidates x {no failure, failure at index 0, failure at index 1}",
		"names_streams":             "names-systematic: a catalogue of ~110 user-style names x (quick: one typed kind and one position each, rotating; thorough: 9 typed kinds x position first/middle/last x __main__ defined or not) in an array of three contexts whose other two (Event Added `pods`, Schedule `b1`) have their own handlers defined; the wild string is the binding name, for Group also/only the group name, for Conversion also a version. names-random: 2-5 contexts, each position wild with probability ~1/2 (catalogue or composed from ~45 tokens and blank/tab separators), handlers: whole documented names, the words they fall apart into (low rate), __main__ 75%, failing statuses. Every hook runs in an empty working directory; contexts with a bare word the shell of this machine knows beyond a small table are not generated (hazard filter: matters only when the check runs against a tree without the repair a686454, where such a word would be executed). All these cases are compared with the model and judged by the predicate; the names-corpus holds the regression witnesses of the two repaired defects (a name whose word is another handler / a shell keyword / a builtin; a name with glob characters)",
		"exotic_stream":             "the former triage-only stream (single wild names) is judged like the names streams now; XMODEL / XSPEC count cases outside the model (a member the harness cannot read back, a NUL or newline in a string). trigger-F20 stream: typed contexts bound under the reserved name onStartup (corpus witness + ~5% of the random count), judged and excused by the recorded finding F20",
		"config_text":               "the text the generated __config__ writes is an input (absent = the line VERIF-CONFIG-TEXT): a list of chunks (bytes x repetitions), each written by cat of a file / a quoted here-document / printf '%s' / echo, before the commands of its body; the COMPLETE stdout of every run (all modes) is recorded, run-length encoded losslessly and compared byte for byte with the model's (Coq expands both); config-systematic: a catalogue of ~130 texts (whole YAML/JSON configurations with document marker, escaped quotes, %, regex backslashes; leading dashes; % and printf formats; backslash sequences; no/one/several final newlines, blanks, empty; shell-significant characters; CR, non-UTF-8, control bytes, NUL; several writes; 4 KiB / 64 KiB / 128 KiB / 320 KiB) with a succeeding __config__, every eighth also with a failing one; config-random: texts from a grammar (leading x YAML|JSON document with jqFilters in every quoting style x trailing, spliced special tokens, or short strings over the alphabet of special characters), 1-4 writes in random forms, 1 in 5 with a failing __config__ (return status or a command of its body), contexts / other handlers / further arguments at random; tags cfg:*",
		"exotic_cases":              len(exoticLog),
		"exotic_differ_atoms_hint":  differ,
		"exotic_for_triage_first30": log,
	}
}

var Driver = core.Driver[Input, Obs]{
	Spec: core.Spec{Property: "C19", Imports: []string{"C19_Model", "C19_Spec", "C19_Corr"}, Corr: "C19_Corr",
		Triggers: []string{"F20", "XMODEL", "XSPEC"}, ShrinkKey: "ctxs",
		Rule: "one run of a generated bash hook (real shell_lib.sh + frameworks/shell, scripted handler functions, trace file) per case; streams: corpus, exhaustive-1, exhaustive-2 (thorough), strict-systematic and random-body (handlers with bodies of commands run under strict mode: a failing command / pipeline / unset variable / block in the middle followed by succeeding commands, tested positions, return/exit, no final return; the marks of the commands that started are compared), random (0-6 contexts, safe binding names, shuffled definitions, 8 exit codes, --config and other arguments), malformed (contexts the operator never produces; model only), trigger-F20 (typed binding named onStartup), names-corpus / names-systematic / names-random and exotic (the CONTENT of binding names, group names and versions in arrays of several contexts: names with blanks, tabs, runs of blanks, leading/trailing blanks, empty, glob characters, quotes, backslashes, $, shell keywords, fragments that are other handlers' names, in every position of the array, beside contexts with identifier-like names that have their own handlers; compared with the model C19_Model of the repaired hook.sh (a686454: a name is one candidate whatever it contains) and judged by C19_WSpec.PW, every case, the names mishandled before the repair included), config-systematic and config-random (--config with the TEXT of __config__ as an input: any bytes, written in several pieces and ways; the raw stdout of the run is compared byte for byte and judged by the clause printed-verbatim - the raw stdout is compared in every other stream too); non-trivial = dispatch over >=1 context with >=1 handler defined, or --config with __config__ defined; distinct = distinct input JSON"},
	Gen: Gen, Run: Run, Render: Render, PerShard: 150, Workers: 12, CaseTimout: 150 * time.Second, Extra: Extra,
}
