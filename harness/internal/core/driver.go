package core

import (
	"bufio"
	"encoding/json"
	"flag"
	"fmt"
	"io"
	"os"
	"os/exec"
	"runtime/debug"
	"sync"
	"sync/atomic"
	"time"
)

// In is a generated input with its stream label.
type In[I any] struct {
	Input  I      `json:"input"`
	Stream string `json:"stream"`
}

// Driver describes the correspondence harness of one property.
//
//	Gen    builds the inputs (corpus first, then seeded random / exhaustive streams);
//	Run    executes the implementation on one input and returns its observation
//	       (runs in a child process so that a panic in a goroutine of the code under
//	       test costs one case, not the run);
//	Render turns (input, observation | crash) into a Case (Coq term, JSON, key, tags).
type Driver[I any, O any] struct {
	Spec       Spec
	Gen        func(rng *Rng, tier string) ([]In[I], bool)
	Run        func(in I) O
	Render     func(in I, obs *O, crash string) Case
	PerShard   int
	Workers    int
	CaseTimout time.Duration
	Extra      func() map[string]any
	// Explicit (optional) rewrites the input recorded in the case JSON (replay files,
	// shrinking), e.g. to replace "seed" by the explicit actions that were executed.
	Explicit func(in I, obs *O) I
}

type childOut[O any] struct {
	Obs   *O     `json:"obs,omitempty"`
	Panic string `json:"panic,omitempty"`
}

func (d Driver[I, O]) child() {
	rd := bufio.NewReaderSize(os.Stdin, 1<<20)
	// results go to fd 3: the code under test logs to stdout
	wr := bufio.NewWriter(os.NewFile(3, "results"))
	dec := json.NewDecoder(rd)
	for {
		var in I
		if err := dec.Decode(&in); err != nil {
			if err == io.EOF {
				return
			}
			fmt.Fprintln(os.Stderr, "child decode:", err)
			os.Exit(3)
		}
		var out childOut[O]
		func() {
			defer func() {
				if r := recover(); r != nil {
					out.Panic = fmt.Sprintf("%v\n%s", r, debug.Stack())
				}
			}()
			o := d.Run(in)
			out.Obs = &o
		}()
		b, _ := json.Marshal(out)
		wr.Write(b)
		wr.WriteByte('\n')
		wr.Flush()
	}
}

// CrashRetries counts the cases that were run a second time because their child died or hung.
var CrashRetries int64

// runChunk runs inputs[lo:hi] in child processes, restarting after a crash.
func (d Driver[I, O]) runChunk(self string, prop string, inputs []In[I], lo, hi int, res []childOut[O]) {
	i := lo
	retried := map[int]bool{}
	for i < hi {
		cmd := exec.Command(self, "-child")
		cmd.Stderr = io.Discard
		if os.Getenv("VERIF_CHILD_STDERR") != "" {
			cmd.Stderr = os.Stderr
		}
		stdin, _ := cmd.StdinPipe()
		stdout, pw, perr := os.Pipe()
		if perr != nil {
			fmt.Fprintln(os.Stderr, "pipe:", perr)
			os.Exit(3)
		}
		cmd.ExtraFiles = []*os.File{pw}
		cmd.Stdout = io.Discard
		if os.Getenv("VERIF_CHILD_STDERR") != "" {
			cmd.Stdout = os.Stderr
		}
		if err := cmd.Start(); err != nil {
			fmt.Fprintln(os.Stderr, "cannot start child:", err)
			os.Exit(3)
		}
		pw.Close()
		go func(from int) {
			enc := json.NewEncoder(stdin)
			for k := from; k < hi; k++ {
				if enc.Encode(inputs[k].Input) != nil {
					return
				}
			}
			stdin.Close()
		}(i)
		rd := bufio.NewReaderSize(stdout, 1<<20)
		timeout := d.CaseTimout
		if timeout == 0 {
			timeout = 60 * time.Second
		}
		for i < hi {
			type lineRes struct {
				b   []byte
				err error
			}
			ch := make(chan lineRes, 1)
			go func() {
				b, err := rd.ReadBytes('\n')
				ch <- lineRes{b, err}
			}()
			var lr lineRes
			select {
			case lr = <-ch:
			case <-time.After(timeout):
				cmd.Process.Kill()
				lr = lineRes{nil, fmt.Errorf("timeout")}
			}
			if lr.err != nil {
				// child died (or hung) on case i.  Once is not a verdict: on a loaded machine a case can
				// run into its time limit; the case is run again in a fresh child, and only a second
				// death or hang is reported (the retries are counted in the run's meta data)
				if !retried[i] {
					retried[i] = true
					atomic.AddInt64(&CrashRetries, 1)
					break
				}
				res[i] = childOut[O]{Panic: "process died or hung (twice): " + lr.err.Error()}
				i++
				break
			}
			var out childOut[O]
			if err := json.Unmarshal(lr.b, &out); err != nil {
				res[i] = childOut[O]{Panic: "bad child output: " + err.Error()}
			} else {
				if out.Obs == nil && out.Panic == "" {
					out.Panic = "empty child output: " + string(lr.b)
				}
				res[i] = out
			}
			i++
		}
		stdin.Close()
		cmd.Process.Kill()
		cmd.Wait()
		stdout.Close()
	}
}

// Main is the entry point of one property's sub-command.
func (d Driver[I, O]) Main(prop string, args []string) {
	fs := flag.NewFlagSet(prop, flag.ExitOnError)
	tier := fs.String("tier", "quick", "quick|thorough|search")
	seed := fs.Int64("seed", 1, "PRNG seed")
	out := fs.String("out", "", "output directory")
	replay := fs.String("replay", "", "replay file: run only its case")
	inputsFile := fs.String("inputs", "", "JSON file with a list of inputs to run instead of generating")
	childMode := fs.Bool("child", false, "internal")
	fs.Parse(args)
	if *childMode {
		d.child()
		return
	}
	var inputs []In[I]
	exhaustive := false
	if *replay != "" {
		var in I
		if err := LoadReplayInput(*replay, &in); err != nil {
			fmt.Fprintln(os.Stderr, "replay:", err)
			os.Exit(3)
		}
		inputs = []In[I]{{Input: in, Stream: "replay"}}
	} else if *inputsFile != "" {
		b, err := os.ReadFile(*inputsFile)
		var ins []I
		if err == nil {
			err = json.Unmarshal(b, &ins)
		}
		if err != nil {
			fmt.Fprintln(os.Stderr, "inputs:", err)
			os.Exit(3)
		}
		for _, in := range ins {
			inputs = append(inputs, In[I]{Input: in, Stream: "given"})
		}
	} else {
		inputs, exhaustive = d.Gen(NewRng(*seed), *tier)
	}
	res := make([]childOut[O], len(inputs))
	self, _ := os.Executable()
	w := d.Workers
	if w <= 0 {
		w = 1
	}
	if w > len(inputs) {
		w = len(inputs)
	}
	var wg sync.WaitGroup
	for k := 0; k < w; k++ {
		lo := len(inputs) * k / w
		hi := len(inputs) * (k + 1) / w
		wg.Add(1)
		go func() {
			defer wg.Done()
			d.runChunk(self, prop, inputs, lo, hi, res)
		}()
	}
	wg.Wait()
	cases := make([]Case, len(inputs))
	var direct []DirectFinding
	for i := range inputs {
		c := d.Render(inputs[i].Input, res[i].Obs, res[i].Panic)
		c.Stream = inputs[i].Stream
		// every case JSON carries its input so that a replay file can re-run it
		var recorded any = inputs[i].Input
		if d.Explicit != nil {
			recorded = d.Explicit(inputs[i].Input, res[i].Obs)
		}
		c.JSON = map[string]any{"input": recorded, "observed": c.JSON, "stream": c.Stream}
		if res[i].Panic != "" {
			direct = append(direct, DirectFinding{Case: i, What: "panic/crash in implementation", Detail: res[i].Panic})
		}
		cases[i] = c
	}
	var extra map[string]any
	if d.Extra != nil {
		extra = d.Extra()
	}
	if n := atomic.LoadInt64(&CrashRetries); n > 0 {
		if extra == nil {
			extra = map[string]any{}
		}
		extra["cases_run_again_after_a_child_died_or_hung_once"] = n
	}
	if err := WriteShards(*out, d.Spec, *tier, *seed, cases, d.PerShard, extra, direct, exhaustive); err != nil {
		fmt.Fprintln(os.Stderr, "write:", err)
		os.Exit(3)
	}
}

// LoadReplayInput reads replay.case.input.
func LoadReplayInput(path string, into interface{}) error {
	b, err := os.ReadFile(path)
	if err != nil {
		return err
	}
	var r struct {
		Case struct {
			Input json.RawMessage `json:"input"`
		} `json:"case"`
	}
	if err := json.Unmarshal(b, &r); err != nil {
		return err
	}
	if len(r.Case.Input) == 0 {
		return fmt.Errorf("replay file has no case.input")
	}
	return json.Unmarshal(r.Case.Input, into)
}
