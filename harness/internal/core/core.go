// Package core: shared plumbing of the correspondence harness — case records,
// the cases.v printer, shard/meta writers and a deterministic PRNG.
package core

import (
	"encoding/json"
	"fmt"
	"os"
	"path/filepath"
	"sort"
	"strings"
)

// Case is one input together with what the implementation did on it.
type Case struct {
	Coq        string      // Coq term of type Cnn_Corr.case (input + implementation's observation)
	JSON       interface{} // the same, human readable, for replay files and evidence samples
	Key        string      // canonical text used to count distinct cases
	Nontrivial bool        // satisfies the per-property non-triviality rule
	Tags       []string    // distribution buckets (op kinds, sizes, error kinds ...)
	Stream     string      // "corpus", "random", "trigger", "exhaustive", "malformed" ...
}

// Meta is written next to the shards and copied into the evidence by ./check.
type Meta struct {
	Property           string          `json:"property"`
	Tier               string          `json:"tier"`
	Seed               int64           `json:"seed"`
	Evaluations        int             `json:"evaluations"`
	DistinctNontrivial int             `json:"distinct_nontrivial"`
	Rule               string          `json:"rule"`
	Samples            []interface{}   `json:"samples"`
	Distribution       map[string]int  `json:"distribution"`
	Streams            map[string]int  `json:"streams"`
	Programs           int             `json:"programs"`
	Exhaustive         bool            `json:"exhaustive"`
	Shards             []string        `json:"shards"`
	ShardSizes         []int           `json:"shard_sizes"`
	Extra              map[string]any  `json:"extra,omitempty"`
	Triggers           []string        `json:"triggers"`
	ShrinkKey          string          `json:"shrink_key"`
	Direct             []DirectFinding `json:"direct,omitempty"`
}

// DirectFinding is a violation the harness itself is certain of (a panic, a
// positive runtime observation); it does not depend on Coq.
type DirectFinding struct {
	Case   int         `json:"case"`
	What   string      `json:"what"`
	Detail interface{} `json:"detail,omitempty"`
}

type Spec struct {
	Property  string   // "C05"
	Imports   []string // Coq modules to import, e.g. "C05_Model", "C05_Spec", "C05_Corr"
	Corr      string   // module that defines case/mismatches/spec_violations/trigger_<X>
	Rule      string
	Triggers  []string // names X of known-finding trigger predicates: Corr.trigger_X : list case -> list N
	ShrinkKey string   // name of the list-valued member of the input that delta-debugging may shorten ("" = none)
}

// WriteShards writes cases_<k>.v files (at most per cases each), cases.json and meta.json.
func WriteShards(out string, sp Spec, tier string, seed int64, cases []Case, per int, extra map[string]any, direct []DirectFinding, exhaustive bool) error {
	if err := os.MkdirAll(out, 0o755); err != nil {
		return err
	}
	m := Meta{Property: sp.Property, Tier: tier, Seed: seed, Rule: sp.Rule, Triggers: sp.Triggers, ShrinkKey: sp.ShrinkKey,
		Distribution: map[string]int{}, Streams: map[string]int{}, Extra: extra, Direct: direct, Exhaustive: exhaustive}
	seen := map[string]bool{}
	for _, c := range cases {
		m.Evaluations++
		m.Streams[c.Stream]++
		for _, t := range c.Tags {
			m.Distribution[t]++
		}
		if c.Nontrivial && !seen[c.Key] {
			seen[c.Key] = true
			m.DistinctNontrivial++
		}
	}
	m.Programs = 1
	// samples: first, middle, last (actual cases)
	if len(cases) > 0 {
		idx := []int{0, len(cases) / 2, len(cases) - 1}
		done := map[int]bool{}
		for _, i := range idx {
			if !done[i] {
				done[i] = true
				m.Samples = append(m.Samples, cases[i].JSON)
			}
		}
	}
	var all []interface{}
	for _, c := range cases {
		all = append(all, c.JSON)
	}
	if per <= 0 {
		per = 500
	}
	for k := 0; k*per < len(cases); k++ {
		lo, hi := k*per, (k+1)*per
		if hi > len(cases) {
			hi = len(cases)
		}
		name := fmt.Sprintf("cases_%03d", k)
		var b strings.Builder
		fmt.Fprintf(&b, "From Verif Require Import Common %s.\n", strings.Join(sp.Imports, " "))
		b.WriteString("Open Scope N_scope.\n")
		fmt.Fprintf(&b, "Definition cases : list %s.case := [\n", sp.Corr)
		for i := lo; i < hi; i++ {
			b.WriteString(cases[i].Coq)
			if i+1 < hi {
				b.WriteString(";\n")
			} else {
				b.WriteString("\n")
			}
		}
		b.WriteString("].\n")
		fmt.Fprintf(&b, "Definition mism := Eval vm_compute in %s.mismatches cases.\n", sp.Corr)
		fmt.Fprintf(&b, "Definition pviol := Eval vm_compute in %s.spec_violations cases.\n", sp.Corr)
		b.WriteString("Print mism.\nPrint pviol.\n")
		for _, t := range sp.Triggers {
			fmt.Fprintf(&b, "Definition known_%s := Eval vm_compute in %s.trigger_%s cases.\nPrint known_%s.\n", t, sp.Corr, t, t)
		}
		fmt.Fprintf(&b, "Definition model_out := Eval vm_compute in (match cases with [c] => Some (%s.model_obs c) | _ => None end).\n", sp.Corr)
		if hi-lo == 1 {
			b.WriteString("Print model_out.\n")
		}
		if err := os.WriteFile(filepath.Join(out, name+".v"), []byte(b.String()), 0o644); err != nil {
			return err
		}
		m.Shards = append(m.Shards, name)
		m.ShardSizes = append(m.ShardSizes, hi-lo)
	}
	if err := writeJSON(filepath.Join(out, "cases.json"), all); err != nil {
		return err
	}
	return writeJSON(filepath.Join(out, "meta.json"), m)
}

func writeJSON(path string, v interface{}) error {
	b, err := json.MarshalIndent(v, "", " ")
	if err != nil {
		return err
	}
	return os.WriteFile(path, b, 0o644)
}

// ---- deterministic PRNG (splitmix64) ----

type Rng struct{ s uint64 }

func NewRng(seed int64) *Rng { return &Rng{s: uint64(seed)*0x9E3779B97F4A7C15 + 0x1234567} }
func (r *Rng) Next() uint64 {
	r.s += 0x9E3779B97F4A7C15
	z := r.s
	z = (z ^ (z >> 30)) * 0xBF58476D1CE4E5B9
	z = (z ^ (z >> 27)) * 0x94D049BB133111EB
	return z ^ (z >> 31)
}
func (r *Rng) Intn(n int) int {
	if n <= 0 {
		return 0
	}
	return int(r.Next() % uint64(n))
}
func (r *Rng) Bool() bool          { return r.Next()&1 == 1 }
func (r *Rng) Chance(pct int) bool { return r.Intn(100) < pct }
func (r *Rng) Fork() *Rng          { return &Rng{s: r.Next()} }

// ---- Coq printing helpers ----

func CoqList[T any](xs []T, f func(T) string) string {
	parts := make([]string, len(xs))
	for i, x := range xs {
		parts[i] = f(x)
	}
	return "[" + strings.Join(parts, "; ") + "]"
}
func CoqN(n int) string   { return fmt.Sprintf("%d", n) }
func CoqZ(n int64) string { return fmt.Sprintf("(%d)%%Z", n) }
func CoqBool(b bool) string {
	if b {
		return "true"
	}
	return "false"
}
func CoqBytes(s string) string {
	parts := make([]string, len(s))
	for i := 0; i < len(s); i++ {
		parts[i] = fmt.Sprintf("%d", s[i])
	}
	return "[" + strings.Join(parts, "; ") + "]"
}
func CoqOpt(present bool, s string) string {
	if !present {
		return "None"
	}
	return "(Some " + s + ")"
}

func SortedKeys(m map[string]int) []string {
	ks := make([]string, 0, len(m))
	for k := range m {
		ks = append(ks, k)
	}
	sort.Strings(ks)
	return ks
}

// LoadReplay reads the "case" member of a replay file.
func LoadReplay(path string, into interface{}) error {
	b, err := os.ReadFile(path)
	if err != nil {
		return err
	}
	var r struct {
		Case json.RawMessage `json:"case"`
	}
	if err := json.Unmarshal(b, &r); err != nil {
		return err
	}
	return json.Unmarshal(r.Case, into)
}
