package core

import (
	"bytes"
	"encoding/json"
	"fmt"
	"math/big"
	"sort"
	"strings"
)

// CoqJSON prints a decoded JSON value (map[string]interface{}, []interface{}, string,
// json.Number / float64 / int*, bool, nil) as a term of Verif.Json.json.  Object keys
// are sorted bytewise.  Integral numbers become JNum; anything else JFlt with its text.
func CoqJSON(v interface{}) string {
	var b strings.Builder
	coqJSON(&b, v)
	return b.String()
}

// CoqJSONBytes parses raw JSON (UseNumber) and prints it; ok=false if it does not parse.
func CoqJSONBytes(raw []byte) (string, bool) {
	dec := json.NewDecoder(bytes.NewReader(raw))
	dec.UseNumber()
	var v interface{}
	if err := dec.Decode(&v); err != nil {
		return "", false
	}
	return CoqJSON(v), true
}

func coqNumber(b *strings.Builder, text string) {
	// integral (possibly written 1.0 or 1e3)?
	if r, ok := new(big.Rat).SetString(text); ok && r.IsInt() {
		fmt.Fprintf(b, "(JNum (%s)%%Z)", r.Num().String())
		return
	}
	fmt.Fprintf(b, "(JFlt %s)", CoqBytes(text))
}

func coqJSON(b *strings.Builder, v interface{}) {
	switch x := v.(type) {
	case nil:
		b.WriteString("JNull")
	case bool:
		fmt.Fprintf(b, "(JBool %s)", CoqBool(x))
	case string:
		fmt.Fprintf(b, "(JStr %s)", CoqBytes(x))
	case json.Number:
		coqNumber(b, x.String())
	case float64:
		coqNumber(b, new(big.Rat).SetFloat64(x).FloatString(12))
	case float32:
		coqNumber(b, new(big.Rat).SetFloat64(float64(x)).FloatString(12))
	case int:
		fmt.Fprintf(b, "(JNum (%d)%%Z)", x)
	case int32:
		fmt.Fprintf(b, "(JNum (%d)%%Z)", x)
	case int64:
		fmt.Fprintf(b, "(JNum (%d)%%Z)", x)
	case uint64:
		fmt.Fprintf(b, "(JNum (%d)%%Z)", x)
	case []interface{}:
		b.WriteString("(JArr [")
		for i, e := range x {
			if i > 0 {
				b.WriteString("; ")
			}
			coqJSON(b, e)
		}
		b.WriteString("])")
	case map[string]interface{}:
		keys := make([]string, 0, len(x))
		for k := range x {
			keys = append(keys, k)
		}
		sort.Strings(keys)
		b.WriteString("(JObj [")
		for i, k := range keys {
			if i > 0 {
				b.WriteString("; ")
			}
			fmt.Fprintf(b, "(%s, ", CoqBytes(k))
			coqJSON(b, x[k])
			b.WriteString(")")
		}
		b.WriteString("])")
	default:
		// anything else: round-trip through encoding/json
		raw, err := json.Marshal(x)
		if err != nil {
			fmt.Fprintf(b, "(JStr %s)", CoqBytes(fmt.Sprintf("<unprintable %T>", v)))
			return
		}
		s, ok := CoqJSONBytes(raw)
		if !ok {
			fmt.Fprintf(b, "(JStr %s)", CoqBytes(string(raw)))
			return
		}
		b.WriteString(s)
	}
}
