// Package c03: correspondence driver for C03 (one task at a time per queue, head first,
// routing by the binding's queue, queues independent).  Real operator on a fake cluster,
// hooks are scripted stubs; see internal/opsim.
package c03

import (
	"time"

	"verifharness/internal/core"
	"verifharness/internal/opsim"
)

var profile = opsim.Profile{Name: "c03", MaxHooks: 4, Steps: 28, PFail: 20, PHold: 45, V0: true, PWait: 30}

func init() { opsim.RegisterProfile(profile) }

func Gen(r *core.Rng, tier string) ([]core.In[opsim.Scenario], bool) {
	var ins []core.In[opsim.Scenario]
	for _, sc := range Corpus() {
		ins = append(ins, core.In[opsim.Scenario]{Input: sc, Stream: "corpus"})
	}
	n := 60
	switch tier {
	case "thorough":
		n = 3000
	case "search":
		n = 400
	}
	for i := 0; i < n; i++ {
		sc := opsim.Scenario{Cfg: opsim.GenConfig(r, profile), Seed: int64(r.Next() >> 1), Steps: 10 + r.Intn(profile.Steps), Profile: "c03"}
		ins = append(ins, core.In[opsim.Scenario]{Input: sc, Stream: "random"})
	}
	rl := r.Fork()
	for i := 0; i < n/6; i++ {
		ins = append(ins, core.In[opsim.Scenario]{Input: Limited(rl), Stream: "equal-settings"})
	}
	rm := r.Fork()
	for i := 0; i < 3+n/20; i++ {
		ins = append(ins, core.In[opsim.Scenario]{Input: ManyQueues(rm), Stream: "many-queues"})
	}
	return ins, false
}

// ManyQueues: "any number of named queues" - 9 to 24 hooks, each with one schedule binding in a queue of its own, ALL of
// them inside an execution at the same moment (every queue ticked while none is finished), then further ticks and ends
// in a random order: a queue's execution must start whatever number of other queues are busy.
func ManyQueues(r *core.Rng) opsim.Scenario {
	n := []int{9, 10, 12, 16, 17, 24}[r.Intn(6)]
	var cfg []opsim.Hook
	for i := 1; i <= n; i++ {
		cfg = append(cfg, opsim.Hook{Id: i, Sched: []opsim.SB{{Name: i, Queue: i, Cron: i}}})
	}
	acts := []opsim.Action{{Kind: "Boot"}}
	order := make([]int, n)
	for i := range order {
		order[i] = i + 1
	}
	for i := n - 1; i > 0; i-- {
		j := r.Intn(i + 1)
		order[i], order[j] = order[j], order[i]
	}
	open := map[int]bool{}
	queued := map[int]bool{}
	for _, q := range order {
		acts = append(acts, opsim.Action{Kind: "Tick", C: q})
		open[q] = true
	}
	for steps := 4 + r.Intn(10); steps > 0; steps-- {
		q := 1 + r.Intn(n)
		if open[q] && r.Chance(60) {
			ok := r.Chance(70)
			acts = append(acts, opsim.Action{Kind: "Finish", Q: q, Ok: ok})
			if ok {
				if queued[q] {
					queued[q] = false
				} else {
					open[q] = false
				}
			}
		} else {
			acts = append(acts, opsim.Action{Kind: "Tick", C: q})
			if open[q] {
				queued[q] = true
			} else {
				open[q] = true
			}
		}
	}
	return opsim.Scenario{Cfg: cfg, Acts: acts}
}

// Limited: 2-3 hooks in queues of their own carry value-EQUAL `settings` (executionMinInterval one
// hour, executionBurst B), beside an optional hook without settings that fails and is retried.
// Every limited hook is started at most B times (its own allowance is never used up), so its
// limiter must never make it wait: an execution of one queue must not be delayed by what hooks
// of other queues do, however similar their settings are.  The model has no limiter; under this
// restriction it needs none.
func Limited(r *core.Rng) opsim.Scenario {
	nh := 2 + r.Intn(2)
	burst := 1 + r.Intn(2)
	var cfg []opsim.Hook
	for i := 1; i <= nh; i++ {
		cfg = append(cfg, opsim.Hook{Id: i, IntervalMs: 3600000, Burst: burst, Sched: []opsim.SB{{Name: i, Queue: i, Cron: i}}})
	}
	free := 0
	if r.Chance(60) {
		free = nh + 1
		cfg = append(cfg, opsim.Hook{Id: free, Sched: []opsim.SB{{Name: free, Queue: free, Cron: free}}})
	}
	acts := []opsim.Action{{Kind: "Boot"}}
	left := map[int]int{}
	open := map[int]bool{}
	queued := map[int]int{}
	for i := 1; i <= nh; i++ {
		left[i] = burst
	}
	tick := func(i int) {
		acts = append(acts, opsim.Action{Kind: "Tick", C: i})
		if open[i] {
			queued[i] = 1 // further ticks are combined into one task behind the open execution
		} else {
			open[i] = true
		}
	}
	finish := func(i int, ok bool) {
		acts = append(acts, opsim.Action{Kind: "Finish", Q: i, Ok: ok})
		if !ok {
			return // retried at once: still open
		}
		if queued[i] > 0 {
			queued[i] = 0
		} else {
			open[i] = false
		}
	}
	for steps := 6 + r.Intn(10); steps > 0; steps-- {
		i := 1 + r.Intn(len(cfg))
		switch {
		case i == free:
			if open[i] && r.Chance(55) {
				finish(i, r.Chance(40))
			} else {
				tick(i)
			}
		case open[i] && (left[i] == 0 || r.Chance(40)):
			// a limited hook: every start counts against its own allowance, so a combined task
			// behind an open execution needs allowance, too
			if queued[i] > 0 && left[i] == 0 {
				continue
			}
			finish(i, true)
		case left[i] > 0 && !(open[i] && left[i] < 2):
			left[i]--
			if open[i] {
				left[i]-- // the queued task will start an execution of its own
			}
			tick(i)
		}
	}
	return opsim.Scenario{Cfg: cfg, Acts: acts}
}

func Corpus() []opsim.Scenario {
	one := 1
	return []opsim.Scenario{
		{Cfg: []opsim.Hook{
			{Id: 1, Startup: &one, Kube: []opsim.KB{{Name: 1, Queue: 0, ExecSync: true}, {Name: 2, Queue: 2, Group: 1, ExecSync: true}}, Sched: []opsim.SB{{Name: 3, Queue: 3, Cron: 1}}},
			{Id: 2, Sched: []opsim.SB{{Name: 4, Queue: 3, Cron: 1}}},
		},
			Acts: []opsim.Action{{Kind: "Boot"}, {Kind: "Finish", Q: 0, Ok: false}, {Kind: "Finish", Q: 0, Ok: true}, {Kind: "Finish", Q: 0, Ok: true}, {Kind: "Finish", Q: 0, Ok: true},
				{Kind: "Tick", C: 1}, {Kind: "KubeEv", Mon: 2, Obj: 7}, {Kind: "KubeEv", Mon: 2, Obj: 8}, {Kind: "Tick", C: 1}, {Kind: "Finish", Q: 3, Ok: true}, {Kind: "Finish", Q: 2, Ok: true}, {Kind: "Finish", Q: 3, Ok: false}, {Kind: "Finish", Q: 3, Ok: true}}},
	}
}

var Driver = core.Driver[opsim.Scenario, opsim.Trace]{
	Spec: core.Spec{Property: "C03", Imports: []string{"Op_Model", "Op_Corr", "C03_Spec", "C03_Corr"}, Corr: "C03_Corr", ShrinkKey: "acts",
		Rule: "generated hook sets (1-4 hooks, kubernetes/schedule bindings over 4 queues, groups, v0) run by the real operator on a fake cluster with scripted hook stubs; actions (Boot, Tick, KubeEv on the managers' channels, Finish ok/fail of an open execution) chosen from the observable state with executions held open at random; after every action the queues' content, open executions, hook-visible contexts and unlocked monitors are compared with the model; stream equal-settings: 2-3 hooks in queues of their own with value-equal `settings` (interval one hour, burst 1-2), each started no more often than its own burst allows, beside a hook without settings that fails and is retried: no execution may wait for a limiter; stream many-queues: 9-24 hooks with one schedule binding each in a queue of its own, every queue ticked while none is finished (all of them inside an execution at the same moment), then ticks and ends in a random order; non-trivial = >=4 actions of >=2 kinds with >=2 executions; distinct = distinct (config, action list)"},
	Gen:      Gen,
	Run:      opsim.RunScenario,
	Render:   func(in opsim.Scenario, obs *opsim.Trace, crash string) core.Case { return opsim.Render(in, obs, crash) },
	Explicit: opsim.ExplicitInput,
	PerShard: 40, Workers: 8, CaseTimout: 30 * time.Second,
}
