// Package c12: correspondence driver for C12 (hook execution contract).  One hook with
// two schedule bindings in two queues is run by the real operator (internal/opsim); the
// scripted hook reports what it was given (cwd, environment, files) and ends with a chosen
// exit code and chosen contents of the four output files.
package c12

import (
	"context"
	"encoding/json"
	"fmt"
	"os"
	"path/filepath"
	"sort"
	"strings"
	"time"

	metav1 "k8s.io/apimachinery/pkg/apis/meta/v1"
	"k8s.io/apimachinery/pkg/runtime/schema"

	metricstorage "github.com/flant/shell-operator/pkg/metric_storage"

	"verifharness/internal/core"
	"verifharness/internal/opsim"
)

type Input struct {
	Exit       int    `json:"exit"`
	Metrics    string `json:"metrics"` // empty valid truncated wrongtype
	Patch      string `json:"patch"`
	Admission  string `json:"admission"`
	Conversion string `json:"conversion"`
	Concurrent bool   `json:"concurrent"`
	NameLen    int    `json:"name_len"` // 0: default hook name; else length of the sanitized hook name
	// literal content of ONE of the JSON output files (its kind above is "text"): the
	// concatenation of Parts (documents, separators, stray bytes; delta debugging drops parts)
	TextFile string   `json:"text_file,omitempty"` // metrics admission conversion
	Parts    []string `json:"parts,omitempty"`
	Mut      string   `json:"mut,omitempty"` // mutation kind that produced the text (tag only)
}

func (in Input) text() string { return strings.Join(in.Parts, "") }

type Obs struct {
	Started        bool   `json:"started"`
	CwdIsHookDir   bool   `json:"cwd_is_hook_dir"`
	EnvOK          bool   `json:"env_ok"`
	ContextMatches bool   `json:"context_matches"`
	FilesEmpty     bool   `json:"files_empty"`
	PathsDistinct  bool   `json:"paths_distinct"`
	TmpDuring      int    `json:"tmp_during"`
	Status         string `json:"status"` // success fail none
	TmpAfter       int    `json:"tmp_after"`
	MetricApplied  bool   `json:"metric_applied"`
	PatchApplied   bool   `json:"patch_applied"`
	Note           string `json:"note,omitempty"`
}

var kinds = []string{"empty", "valid", "truncated", "wrongtype"}

func (in Input) content(file, kind string) string {
	if kind == "text" {
		if in.TextFile == file {
			return in.text()
		}
		return ""
	}
	return content(file, kind)
}

func content(file, kind string) string {
	switch file + ":" + kind {
	case "metrics:valid":
		return `{"name":"verif_c12_metric","set":1,"labels":{"l":"v"}}` + "\n"
	case "metrics:truncated":
		return `{"name":"verif_c12_metric","se`
	case "metrics:wrongtype":
		return `{"name":"verif_c12_metric","set":"not-a-number"}` + "\n"
	case "patch:valid":
		return `{"operation":"CreateOrUpdate","object":{"apiVersion":"v1","kind":"ConfigMap","metadata":{"name":"c12","namespace":"default"},"data":{"k":"v"}}}` + "\n"
	case "patch:truncated":
		return `{"operation":"CreateOrUpdate","object":{"apiVer`
	case "patch:wrongtype":
		return `{"operation":"NoSuchOperation","kind":5}` + "\n"
	case "admission:valid":
		return `{"allowed":true}`
	case "admission:truncated":
		return `{"allowed":tr`
	case "admission:wrongtype":
		return `{"allowed":"yes"}`
	case "conversion:valid":
		return `{"convertedObjects":[]}`
	case "conversion:truncated":
		return `{"convertedObj`
	case "conversion:wrongtype":
		return `{"convertedObjects":"none"}`
	}
	return ""
}

func hookPath(nameLen int) string {
	if nameLen == 0 {
		return ""
	}
	// <dir>/<h001xxx>: the sanitized name replaces "/" by "-", so its length is that of the path
	base := "h001"
	dirLen := nameLen - len(base) - 1
	if dirLen > 120 {
		pad := dirLen - 120
		dirLen = 120
		base += strings.Repeat("x", pad)
	}
	if dirLen < 1 {
		return base + strings.Repeat("x", nameLen-len(base))
	}
	return strings.Repeat("d", dirLen) + "/" + base
}

func Run(in Input) Obs {
	var o Obs
	h := opsim.Hook{Id: 1, Sched: []opsim.SB{{Name: 1, Queue: 1, Cron: 1}, {Name: 2, Queue: 2, Cron: 2}}, Path: hookPath(in.NameLen)}
	s, err := opsim.NewSim(opsim.Input{Cfg: []opsim.Hook{h}})
	if s != nil {
		defer s.Close()
	}
	if err != nil {
		o.Note = "init: " + err.Error()
		return o
	}
	s.Do(opsim.Action{Kind: "Boot"})
	st := s.Do(opsim.Action{Kind: "Tick", C: 1})
	if in.Concurrent {
		st = s.Do(opsim.Action{Kind: "Tick", C: 2})
	}
	c1 := s.OpenCall(1)
	if c1 == nil {
		// the execution did not start (e.g. temp files could not be created): what is left?
		o.Status = statusOf(st, 1, 0)
		// the task is retried without pause: stop the queues before looking at the temp directory
		s.Do(opsim.Action{Kind: "Stop"})
		time.Sleep(5 * time.Millisecond)
		o.TmpAfter = countFiles(s.TmpDir())
		return o
	}
	o.Started = true
	calls := []*opsim.Call{c1}
	if in.Concurrent {
		if c2 := s.OpenCall(2); c2 != nil {
			calls = append(calls, c2)
		} else {
			o.Note = "second execution did not start"
		}
	}
	hookFile := filepath.Join(s.HooksDir(), "h001")
	if h.Path != "" {
		hookFile = filepath.Join(s.HooksDir(), h.Path)
	}
	o.CwdIsHookDir = c1.Hello.Cwd == filepath.Dir(hookFile)
	vars := []string{"BINDING_CONTEXT_PATH", "METRICS_PATH", "KUBERNETES_PATCH_PATH", "ADMISSION_RESPONSE_PATH", "VALIDATING_RESPONSE_PATH", "CONVERSION_RESPONSE_PATH"}
	o.EnvOK, o.FilesEmpty, o.PathsDistinct = true, true, true
	seen := map[string]bool{}
	for _, c := range calls {
		for _, v := range vars {
			p := c.Hello.Env[v]
			if p == "" || filepath.Dir(p) != s.TmpDir() {
				o.EnvOK = false
			}
			if v != "VALIDATING_RESPONSE_PATH" { // documented alias of ADMISSION_RESPONSE_PATH
				if seen[p] {
					o.PathsDistinct = false
				}
				seen[p] = true
			}
		}
		if c.Hello.Env["VALIDATING_RESPONSE_PATH"] != c.Hello.Env["ADMISSION_RESPONSE_PATH"] {
			o.EnvOK = false
		}
		for _, v := range []string{"METRICS_PATH", "KUBERNETES_PATCH_PATH", "ADMISSION_RESPONSE_PATH", "CONVERSION_RESPONSE_PATH"} {
			if c.Hello.Files[v] != "" {
				o.FilesEmpty = false
			}
		}
	}
	// the context file holds exactly the contexts of the task
	var ctxs []map[string]interface{}
	if json.Unmarshal([]byte(c1.Hello.Context), &ctxs) == nil && len(ctxs) == 1 && ctxs[0]["binding"] == "b1" && ctxs[0]["type"] == "Schedule" && len(ctxs[0]) == 2 {
		o.ContextMatches = true
	}
	o.TmpDuring = countFiles(s.TmpDir())
	fail0 := 0
	files := map[string]string{
		"METRICS_PATH":             in.content("metrics", in.Metrics),
		"KUBERNETES_PATCH_PATH":    in.content("patch", in.Patch),
		"ADMISSION_RESPONSE_PATH":  in.content("admission", in.Admission),
		"CONVERSION_RESPONSE_PATH": in.content("conversion", in.Conversion),
	}
	if in.Concurrent && len(calls) == 2 {
		s.Do(opsim.Action{Kind: "Finish", Q: 2, Ok: true})
	}
	st = s.Do(opsim.Action{Kind: "Finish", Q: 1, Ok: in.Exit == 0, Exit: in.Exit, Files: files})
	o.Status = statusOf(st, 1, fail0)
	// a failed task is retried at once: end the retry successfully so that nothing stays open
	if s.OpenCall(1) != nil {
		s.Do(opsim.Action{Kind: "Finish", Q: 1, Ok: true})
	}
	time.Sleep(2 * time.Millisecond)
	o.TmpAfter = countFiles(s.TmpDir())
	// effects
	gvr := schema.GroupVersionResource{Group: "", Version: "v1", Resource: "configmaps"}
	if _, err := s.Op.KubeClient.Dynamic().Resource(gvr).Namespace("default").Get(context.Background(), "c12", metav1.GetOptions{}); err == nil {
		o.PatchApplied = true
	}
	o.MetricApplied = metricPresent(s)
	return o
}

// a metric family named exactly verif_c12_metric is in the hook metric registry
func metricPresent(s *opsim.Sim) bool {
	ms, ok := s.Op.HookMetricStorage.(*metricstorage.MetricStorage)
	if !ok || ms == nil {
		return false
	}
	fams, err := ms.Gatherer.Gather()
	if err != nil {
		return false
	}
	for _, f := range fams {
		if f.GetName() == probe {
			return true
		}
	}
	return false
}

func statusOf(st opsim.StepObs, q int, failBefore int) string {
	for _, qo := range st.Queues {
		if qo.Name != q {
			continue
		}
		if len(qo.Items) == 0 {
			return "success"
		}
		if qo.Items[0].Fail > failBefore {
			return "fail"
		}
		return "success" // the head is another (later) task
	}
	return "none"
}

func countFiles(dir string) int {
	ents, err := os.ReadDir(dir)
	if err != nil {
		return -1
	}
	return len(ents)
}

func (in Input) kindCode(file, k string) string {
	if k == "text" {
		if in.TextFile == file {
			return "(FText " + core.CoqBytes(in.text()) + ")"
		}
		return "(FText [])"
	}
	return kindCode(k)
}

func kindCode(k string) string {
	switch k {
	case "valid":
		return "FValid"
	case "truncated":
		return "FTruncated"
	case "wrongtype":
		return "FWrongType"
	}
	return "FEmpty"
}

func Render(in Input, obs *Obs, crash string) core.Case {
	var o Obs
	if obs != nil {
		o = *obs
	}
	c := core.Case{}
	st := map[string]int{"success": 0, "fail": 1, "none": 2, "": 2}[o.Status]
	c.Coq = fmt.Sprintf("(mkIn %s %s %s %s %s %s %d, mkOb %s %s %s %s %s %s %d %d %d %s %s %s)",
		core.CoqZ(int64(in.Exit)), in.kindCode("metrics", in.Metrics), in.kindCode("patch", in.Patch), in.kindCode("admission", in.Admission), in.kindCode("conversion", in.Conversion),
		core.CoqBool(in.Concurrent), in.NameLen,
		core.CoqBool(o.Started), core.CoqBool(o.CwdIsHookDir), core.CoqBool(o.EnvOK), core.CoqBool(o.ContextMatches),
		core.CoqBool(o.FilesEmpty), core.CoqBool(o.PathsDistinct), o.TmpDuring, st, max0(o.TmpAfter),
		core.CoqBool(o.MetricApplied), core.CoqBool(o.PatchApplied), core.CoqBool(crash != "" || o.Note != ""))
	c.JSON = map[string]any{"obs": o, "crash": crash}
	c.Key = fmt.Sprintf("%d/%s/%s/%s/%s/%v/%d", in.Exit, in.Metrics, in.Patch, in.Admission, in.Conversion, in.Concurrent, in.NameLen)
	if in.TextFile != "" {
		c.JSON = map[string]any{"obs": o, "crash": crash, in.TextFile + "_text": in.text()}
		c.Key += "/" + in.TextFile + "/" + in.text()
	}
	c.Nontrivial = true
	c.Tags = []string{fmt.Sprintf("exit:%d", in.Exit), "metrics:" + in.Metrics, "patch:" + in.Patch, "admission:" + in.Admission, "conversion:" + in.Conversion, fmt.Sprintf("concurrent:%v", in.Concurrent)}
	if in.NameLen != 0 {
		c.Tags = append(c.Tags, "longname")
	}
	if in.TextFile != "" {
		c.Tags = append(c.Tags, "text:"+in.TextFile, "mut:"+in.Mut, "mut:"+in.TextFile+":"+in.Mut)
	}
	return c
}

func max0(n int) int {
	if n < 0 {
		return 0
	}
	return n
}

func Gen(r *core.Rng, tier string) ([]core.In[Input], bool) {
	var ins []core.In[Input]
	add := func(in Input, stream string) { ins = append(ins, core.In[Input]{Input: in, Stream: stream}) }
	// corpus
	add(Input{Exit: 0, Metrics: "valid", Patch: "valid", Admission: "empty", Conversion: "empty"}, "corpus")
	add(Input{Exit: 1, Metrics: "valid", Patch: "valid", Admission: "empty", Conversion: "empty"}, "corpus")
	add(Input{Exit: 0, Metrics: "empty", Patch: "empty", Admission: "empty", Conversion: "empty", Concurrent: true}, "corpus")
	// long hook names: temp-file names around the 255-byte limit of a file name
	for _, n := range []int{150, 188, 189, 190, 191, 192, 193, 200} {
		add(Input{Exit: 0, Metrics: "empty", Patch: "empty", Admission: "empty", Conversion: "empty", NameLen: n}, "longname")
	}
	// literal texts: one per mutation kind and file
	for _, in := range textCorpus() {
		add(in, "text-corpus")
	}
	exits := []int{0, 1, 2, 137}
	if tier == "quick" {
		genTexts(r.Fork(), "metrics", 126, add)
		genTexts(r.Fork(), "admission", 30, add)
		genTexts(r.Fork(), "conversion", 24, add)
		// every exit code x each single file in every state (others empty), plus seeded random combinations
		for _, e := range exits {
			for f := 0; f < 4; f++ {
				for _, k := range kinds {
					in := Input{Exit: e, Metrics: "empty", Patch: "empty", Admission: "empty", Conversion: "empty"}
					switch f {
					case 0:
						in.Metrics = k
					case 1:
						in.Patch = k
					case 2:
						in.Admission = k
					case 3:
						in.Conversion = k
					}
					add(in, "single-file")
				}
			}
		}
		for i := 0; i < 60; i++ {
			add(Input{Exit: exits[r.Intn(4)], Metrics: kinds[r.Intn(4)], Patch: kinds[r.Intn(4)], Admission: kinds[r.Intn(4)], Conversion: kinds[r.Intn(4)], Concurrent: r.Chance(30)}, "random")
		}
		return ins, false
	}
	if tier == "thorough" {
		genTexts(r.Fork(), "metrics", 4200, add)
		genTexts(r.Fork(), "admission", 840, add)
		genTexts(r.Fork(), "conversion", 630, add)
	} else { // search
		genTexts(r.Fork(), "metrics", 1260, add)
		genTexts(r.Fork(), "admission", 210, add)
		genTexts(r.Fork(), "conversion", 210, add)
	}
	// thorough / search: the full product exit x 4^4 file states (x concurrent for exit 0 and 1)
	for _, e := range exits {
		for _, m := range kinds {
			for _, p := range kinds {
				for _, a := range kinds {
					for _, cv := range kinds {
						add(Input{Exit: e, Metrics: m, Patch: p, Admission: a, Conversion: cv}, "exhaustive")
						if tier == "thorough" && e <= 1 && (m == "valid" || p == "valid") {
							add(Input{Exit: e, Metrics: m, Patch: p, Admission: a, Conversion: cv, Concurrent: true}, "exhaustive-concurrent")
						}
					}
				}
			}
		}
	}
	return ins, false
}

var _ = sort.Ints

var Driver = core.Driver[Input, Obs]{
	Spec: core.Spec{Property: "C12", Imports: []string{"C12_Model", "C12_Spec", "C12_Corr"}, Corr: "C12_Corr", ShrinkKey: "parts",
		Rule: "one hook with two schedule bindings in two queues run by the real operator; the scripted hook reports cwd, environment, context file, initial content of the output files and the temp-dir listing, then ends with exit code in {0,1,2,137} and each of the four output files in {empty, valid, truncated, wrong type}; observed: task status, temp dir afterwards, whether the metric / the patch took effect, path uniqueness across two concurrent executions; quick = every exit code x every single-file state + 60 random combinations + corpus; thorough = the full product (exhaustive); the longname stream uses hook names whose temp-file names straddle the 255-byte file-name limit; every case is non-trivial and distinct by its parameters; TEXT cases: one of the metrics / admission-response / conversion-response files holds a literal text (the model reads it byte by byte): valid texts (1-4 metric operations in the documented forms, one response object; varied whitespace, key order, escapes, UTF-8, number forms) and texts broken by a mutation grammar (tags mut:<kind>): trunc, del/ins/dup of one structural byte, stray closer/opener/separator at a value boundary, value of another JSON type, garbage after valid, whitespace only, only a closer, control byte in a string, bad escape, bad number, case-changed keys, unknown keys, null values, duplicate keys, violated metric rules, non-object documents; a fixed corpus holds texts of every kind; quick = corpus + 180 generated texts, thorough = corpus + 5670, search = corpus + 1680; distinct = distinct by parameters and text"},
	Gen: Gen, Run: Run, Render: Render, PerShard: 60, Workers: 14, CaseTimout: 40 * time.Second,
}
