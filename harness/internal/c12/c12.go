// Package c12: correspondence driver for C12 (hook execution contract).  One hook with
// two schedule bindings in two queues is run by the real operator (internal/opsim); the
// scripted hook reports what it was given (cwd, environment, files) and ends with a chosen
// exit code and chosen contents of the four output files.
package c12

import (
	"context"
	"encoding/json"
	"fmt"
	"os"
	"path/filepath"
	"sort"
	"strings"
	"time"

	metav1 "k8s.io/apimachinery/pkg/apis/meta/v1"
	"k8s.io/apimachinery/pkg/runtime/schema"

	metricstorage "github.com/flant/shell-operator/pkg/metric_storage"

	"verifharness/internal/core"
	"verifharness/internal/opsim"
)

type Input struct {
	Exit       int    `json:"exit"`
	Metrics    string `json:"metrics"` // empty valid truncated wrongtype
	Patch      string `json:"patch"`
	Admission  string `json:"admission"`
	Conversion string `json:"conversion"`
	Concurrent bool   `json:"concurrent"`
	NameLen    int    `json:"name_len"` // 0: default hook name; else length of the sanitized hook name
	// literal content of ONE of the JSON output files (its kind above is "text"): the
	// concatenation of Parts (documents, separators, stray bytes; delta debugging drops parts)
	TextFile string   `json:"text_file,omitempty"` // metrics admission conversion
	Parts    []string `json:"parts,omitempty"`
	Mut      string   `json:"mut,omitempty"` // mutation kind that produced the text (tag only)
	// the operator's OWN environment while it loads and runs the hook (set with os.Setenv before
	// the operator is assembled, restored afterwards), in this order
	Env []EnvVar `json:"env,omitempty"`
	// case class CONC (conc.go): many executions of Hook.Run at the same time; the tasks are Parts
	Conc *ConcCfg `json:"conc,omitempty"`
	// case class WAYS (ways.go): HOW the hook writes each output file (nil: in place, at once - class RUN)
	Ways *Ways `json:"ways,omitempty"`
	// case class PLACE (place.go): HOW the hook file is present in the hooks tree; the tree is Parts
	Place *PlaceCfg `json:"place,omitempty"`
	// case class BOUND (bound.go): one output file holds  first document ++ tail, the first document of a chosen length
	Bound *BoundCfg `json:"bound,omitempty"`
}

// EnvVar is one variable of the operator's own environment.  Var 0..5 are the six contract
// variables (the model's numbering, see contractVars), Var >= 6 an unrelated variable.  For a
// contract variable the value is a path in a directory that is NOT the operator's temp directory:
// Val%3 == 0 no such file, 1 an existing empty file, 2 an existing file with content (for
// BINDING_CONTEXT_PATH: a context list that is not the task's).
type EnvVar struct {
	Var int `json:"var"`
	Val int `json:"val"`
}

// index = the model's variable number (C12_Model.var_*)
var contractVars = []string{"BINDING_CONTEXT_PATH", "METRICS_PATH", "CONVERSION_RESPONSE_PATH", "VALIDATING_RESPONSE_PATH", "ADMISSION_RESPONSE_PATH", "KUBERNETES_PATCH_PATH"}

// infix of the temp-file name each variable must point to, and the model's file number (creation order)
var ownInfix = []string{"-binding-context-", "-metrics-", "-admission-response-", "-conversion-response-", "-object-patch-"}

func varName(k int) string {
	if k < len(contractVars) {
		return contractVars[k]
	}
	// the scripted hook reports the variables whose names end in _PATH
	return fmt.Sprintf("VERIF_C12_U%d_PATH", k)
}

func (e EnvVar) value(foreignDir string) string {
	if e.Var < len(contractVars) {
		return filepath.Join(foreignDir, fmt.Sprintf("v%d-%d", e.Var, e.Val))
	}
	return fmt.Sprintf("/verif-c12/u%d/%d", e.Var, e.Val)
}

const foreignContext = `[{"binding":"b1","type":"Schedule","foreign":true}]`

// EnvVal is what the hook process finds under one variable, in the model's vocabulary.
type EnvVal struct {
	Var  int    `json:"var"`
	Kind string `json:"kind"` // absent own foreign unknown
	N    int    `json:"n"`    // own: file number; foreign: the value number
	Raw  string `json:"raw,omitempty"`
}

// setOperatorEnv puts in.Env into the environment of this process (the operator runs in-process)
// and removes the contract variables the case does not mention; the returned function restores
// the previous state and removes the foreign directory.
func setOperatorEnv(in Input) (foreignDir string, paths []string, restore func(), err error) {
	type saved struct {
		name string
		val  string
		had  bool
	}
	var olds []saved
	seen := map[string]bool{}
	save := func(name string) {
		if seen[name] {
			return
		}
		seen[name] = true
		v, had := os.LookupEnv(name)
		olds = append(olds, saved{name, v, had})
	}
	for _, n := range contractVars {
		save(n)
		os.Unsetenv(n)
	}
	restore = func() {
		for _, o := range olds {
			if o.had {
				os.Setenv(o.name, o.val)
			} else {
				os.Unsetenv(o.name)
			}
		}
		if foreignDir != "" {
			os.RemoveAll(foreignDir)
		}
	}
	if len(in.Env) == 0 {
		return "", nil, restore, nil
	}
	foreignDir, err = os.MkdirTemp("", "c12foreign")
	if err != nil {
		return "", nil, restore, err
	}
	for _, e := range in.Env {
		name, val := varName(e.Var), e.value(foreignDir)
		save(name)
		if e.Var < len(contractVars) {
			paths = append(paths, val)
			switch e.Val % 3 {
			case 1:
				os.WriteFile(val, nil, 0o644)
			case 2:
				c := "foreign\n"
				if e.Var == 0 {
					c = foreignContext
				}
				os.WriteFile(val, []byte(c), 0o644)
			}
		}
		os.Setenv(name, val)
	}
	return foreignDir, paths, restore, nil
}

func fileState(p string) string {
	b, err := os.ReadFile(p)
	if err != nil {
		return "<absent>"
	}
	return "content:" + string(b)
}

// queryVars: the six contract variables, then the variables of the case's environment
func (in Input) queryVars() []int {
	ks := []int{0, 1, 2, 3, 4, 5}
	seen := map[int]bool{0: true, 1: true, 2: true, 3: true, 4: true, 5: true}
	for _, e := range in.Env {
		if !seen[e.Var] {
			seen[e.Var] = true
			ks = append(ks, e.Var)
		}
	}
	return ks
}

// classify what the hook found under the queried variables
func envView(in Input, c *opsim.Call, tmpDir, foreignDir string) []EnvVal {
	var out []EnvVal
	for _, k := range in.queryVars() {
		raw, present := c.Hello.Env[varName(k)]
		ev := EnvVal{Var: k, Kind: "unknown", Raw: raw}
		switch {
		case !present:
			ev.Kind, ev.Raw = "absent", ""
		default:
			for _, e := range in.Env {
				if e.Var == k && e.value(foreignDir) == raw {
					ev.Kind, ev.N, ev.Raw = "foreign", e.Val, ""
				}
			}
			if ev.Kind == "unknown" && filepath.Dir(raw) == tmpDir {
				if _, err := os.Stat(raw); err == nil {
					for f, infix := range ownInfix {
						if strings.Contains(filepath.Base(raw), infix) {
							ev.Kind, ev.N, ev.Raw = "own", f, ""
						}
					}
				}
			}
		}
		out = append(out, ev)
	}
	return out
}

func (in Input) text() string {
	if in.Bound != nil {
		return in.Bound.text()
	}
	return strings.Join(in.Parts, "")
}

type Obs struct {
	Started        bool       `json:"started"`
	CwdIsHookDir   bool       `json:"cwd_is_hook_dir"`
	EnvOK          bool       `json:"env_ok"`
	ContextMatches bool       `json:"context_matches"`
	FilesEmpty     bool       `json:"files_empty"`
	PathsDistinct  bool       `json:"paths_distinct"`
	Envs           [][]EnvVal `json:"envs,omitempty"`  // per execution: what the hook found under the queried variables
	ForeignTouched bool       `json:"foreign_touched"` // a file named by the operator's own environment was created or changed
	TmpDuring      int        `json:"tmp_during"`
	Status         string     `json:"status"` // success fail none
	TmpAfter       int        `json:"tmp_after"`
	MetricApplied  bool       `json:"metric_applied"`
	PatchApplied   bool       `json:"patch_applied"`
	Note           string     `json:"note,omitempty"`
	Conc           *ConcObs   `json:"conc,omitempty"`  // case class CONC: one observation per execution
	Place          *PlaceObs  `json:"place,omitempty"` // case class PLACE: the scanned tree, one observation per hook found
}

var kinds = []string{"empty", "valid", "truncated", "wrongtype"}

func (in Input) content(file, kind string) string {
	if kind == "text" {
		if in.TextFile == file {
			return in.text()
		}
		return ""
	}
	return content(file, kind)
}

func content(file, kind string) string {
	switch file + ":" + kind {
	case "metrics:valid":
		return `{"name":"verif_c12_metric","set":1,"labels":{"l":"v"}}` + "\n"
	case "metrics:truncated":
		return `{"name":"verif_c12_metric","se`
	case "metrics:wrongtype":
		return `{"name":"verif_c12_metric","set":"not-a-number"}` + "\n"
	case "patch:valid":
		return `{"operation":"CreateOrUpdate","object":{"apiVersion":"v1","kind":"ConfigMap","metadata":{"name":"c12","namespace":"default"},"data":{"k":"v"}}}` + "\n"
	case "patch:truncated":
		return `{"operation":"CreateOrUpdate","object":{"apiVer`
	case "patch:wrongtype":
		return `{"operation":"NoSuchOperation","kind":5}` + "\n"
	case "admission:valid":
		return `{"allowed":true}`
	case "admission:truncated":
		return `{"allowed":tr`
	case "admission:wrongtype":
		return `{"allowed":"yes"}`
	case "conversion:valid":
		return `{"convertedObjects":[]}`
	case "conversion:truncated":
		return `{"convertedObj`
	case "conversion:wrongtype":
		return `{"convertedObjects":"none"}`
	}
	return ""
}

func hookPath(nameLen int) string {
	if nameLen == 0 {
		return ""
	}
	// <dir>/<h001xxx>: the sanitized name replaces "/" by "-", so its length is that of the path
	base := "h001"
	dirLen := nameLen - len(base) - 1
	if dirLen > 120 {
		pad := dirLen - 120
		dirLen = 120
		base += strings.Repeat("x", pad)
	}
	if dirLen < 1 {
		return base + strings.Repeat("x", nameLen-len(base))
	}
	return strings.Repeat("d", dirLen) + "/" + base
}

func Run(in Input) Obs {
	var o Obs
	if in.Conc != nil {
		return Obs{Conc: runConc(in)}
	}
	if in.Place != nil {
		return Obs{Place: runPlace(in)}
	}
	foreignDir, foreignPaths, restore, eerr := setOperatorEnv(in)
	defer restore()
	if eerr != nil {
		o.Note = "environment: " + eerr.Error()
		return o
	}
	before := map[string]string{}
	for _, p := range foreignPaths {
		before[p] = fileState(p)
	}
	touched := func() bool {
		for _, p := range foreignPaths {
			if fileState(p) != before[p] {
				return true
			}
		}
		return false
	}
	h := opsim.Hook{Id: 1, Sched: []opsim.SB{{Name: 1, Queue: 1, Cron: 1}, {Name: 2, Queue: 2, Cron: 2}}, Path: hookPath(in.NameLen)}
	s, err := opsim.NewSim(opsim.Input{Cfg: []opsim.Hook{h}})
	if s != nil {
		defer s.Close()
	}
	if err != nil {
		o.Note = "init: " + err.Error()
		return o
	}
	s.Do(opsim.Action{Kind: "Boot"})
	st := s.Do(opsim.Action{Kind: "Tick", C: 1})
	if in.Concurrent {
		st = s.Do(opsim.Action{Kind: "Tick", C: 2})
	}
	// (if the hook read a context that is not its task's, opsim cannot tell the queue: key -1)
	q1 := 1
	c1 := s.OpenCall(q1)
	if c1 == nil {
		if c := s.OpenCall(-1); c != nil {
			q1, c1 = -1, c
		}
	}
	if c1 == nil {
		// the execution did not start (e.g. temp files could not be created): what is left?
		o.Status = statusOf(st, 1, 0)
		// the task is retried without pause: stop the queues before looking at the temp directory
		s.Do(opsim.Action{Kind: "Stop"})
		time.Sleep(5 * time.Millisecond)
		o.TmpAfter = countFiles(s.TmpDir())
		o.ForeignTouched = touched()
		return o
	}
	o.Started = true
	calls := []*opsim.Call{c1}
	if in.Concurrent {
		if c2 := s.OpenCall(2); c2 != nil {
			calls = append(calls, c2)
		} else {
			o.Note = "second execution did not start"
		}
	}
	hookFile := filepath.Join(s.HooksDir(), "h001")
	if h.Path != "" {
		hookFile = filepath.Join(s.HooksDir(), h.Path)
	}
	o.CwdIsHookDir = c1.Hello.Cwd == filepath.Dir(hookFile)
	vars := []string{"BINDING_CONTEXT_PATH", "METRICS_PATH", "KUBERNETES_PATCH_PATH", "ADMISSION_RESPONSE_PATH", "VALIDATING_RESPONSE_PATH", "CONVERSION_RESPONSE_PATH"}
	o.EnvOK, o.FilesEmpty, o.PathsDistinct = true, true, true
	seen := map[string]bool{}
	for _, c := range calls {
		o.Envs = append(o.Envs, envView(in, c, s.TmpDir(), foreignDir))
		for _, v := range vars {
			p := c.Hello.Env[v]
			if p == "" || filepath.Dir(p) != s.TmpDir() {
				o.EnvOK = false
			}
			if v != "VALIDATING_RESPONSE_PATH" { // documented alias of ADMISSION_RESPONSE_PATH
				if seen[p] {
					o.PathsDistinct = false
				}
				seen[p] = true
			}
		}
		if c.Hello.Env["VALIDATING_RESPONSE_PATH"] != c.Hello.Env["ADMISSION_RESPONSE_PATH"] {
			o.EnvOK = false
		}
		for _, v := range []string{"METRICS_PATH", "KUBERNETES_PATCH_PATH", "ADMISSION_RESPONSE_PATH", "CONVERSION_RESPONSE_PATH"} {
			if c.Hello.Files[v] != "" {
				o.FilesEmpty = false
			}
		}
	}
	// the context file holds exactly the contexts of the task
	var ctxs []map[string]interface{}
	if json.Unmarshal([]byte(c1.Hello.Context), &ctxs) == nil && len(ctxs) == 1 && ctxs[0]["binding"] == "b1" && ctxs[0]["type"] == "Schedule" && len(ctxs[0]) == 2 {
		o.ContextMatches = true
	}
	o.TmpDuring = countFiles(s.TmpDir())
	fail0 := 0
	files := map[string]string{
		"METRICS_PATH":             in.content("metrics", in.Metrics),
		"KUBERNETES_PATCH_PATH":    in.content("patch", in.Patch),
		"ADMISSION_RESPONSE_PATH":  in.content("admission", in.Admission),
		"CONVERSION_RESPONSE_PATH": in.content("conversion", in.Conversion),
	}
	if in.Ways != nil {
		in.addWays(files)
	}
	if in.Concurrent && len(calls) == 2 {
		s.Do(opsim.Action{Kind: "Finish", Q: 2, Ok: true})
	}
	st = s.Do(opsim.Action{Kind: "Finish", Q: q1, Ok: in.Exit == 0, Exit: in.Exit, Files: files})
	o.Status = statusOf(st, 1, fail0)
	o.ForeignTouched = touched()
	// a failed task is retried at once: end the retry successfully so that nothing stays open
	for _, q := range []int{1, -1} {
		if s.OpenCall(q) != nil {
			s.Do(opsim.Action{Kind: "Finish", Q: q, Ok: true})
		}
	}
	time.Sleep(2 * time.Millisecond)
	o.TmpAfter = countFiles(s.TmpDir())
	// effects
	gvr := schema.GroupVersionResource{Group: "", Version: "v1", Resource: "configmaps"}
	if _, err := s.Op.KubeClient.Dynamic().Resource(gvr).Namespace("default").Get(context.Background(), "c12", metav1.GetOptions{}); err == nil {
		o.PatchApplied = true
	}
	o.MetricApplied = metricPresent(s)
	return o
}

// a metric family named exactly verif_c12_metric is in the hook metric registry
func metricPresent(s *opsim.Sim) bool {
	ms, ok := s.Op.HookMetricStorage.(*metricstorage.MetricStorage)
	if !ok || ms == nil {
		return false
	}
	fams, err := ms.Gatherer.Gather()
	if err != nil {
		return false
	}
	for _, f := range fams {
		if f.GetName() == probe {
			return true
		}
	}
	return false
}

func statusOf(st opsim.StepObs, q int, failBefore int) string {
	for _, qo := range st.Queues {
		if qo.Name != q {
			continue
		}
		if len(qo.Items) == 0 {
			return "success"
		}
		if qo.Items[0].Fail > failBefore {
			return "fail"
		}
		return "success" // the head is another (later) task
	}
	return "none"
}

func countFiles(dir string) int {
	ents, err := os.ReadDir(dir)
	if err != nil {
		return -1
	}
	return len(ents)
}

func (in Input) kindCode(file, k string) string {
	if k == "text" {
		if in.TextFile == file {
			return "(FText " + core.CoqBytes(in.text()) + ")"
		}
		return "(FText [])"
	}
	return kindCode(k)
}

func kindCode(k string) string {
	switch k {
	case "valid":
		return "FValid"
	case "truncated":
		return "FTruncated"
	case "wrongtype":
		return "FWrongType"
	}
	return "FEmpty"
}

func Render(in Input, obs *Obs, crash string) core.Case {
	if in.Conc != nil {
		return renderConc(in, obs, crash)
	}
	if in.Place != nil {
		return renderPlace(in, obs, crash)
	}
	var o Obs
	if obs != nil {
		o = *obs
	}
	c := core.Case{}
	st := map[string]int{"success": 0, "fail": 1, "none": 2, "": 2}[o.Status]
	coqEnv := core.CoqList(in.Env, func(e EnvVar) string { return fmt.Sprintf("(%d, %d)", e.Var, e.Val) })
	coqIn := fmt.Sprintf("CRun (mkIn %s %s %s %s %s %s %d %s,",
		core.CoqZ(int64(in.Exit)), in.kindCode("metrics", in.Metrics), in.kindCode("patch", in.Patch), in.kindCode("admission", in.Admission), in.kindCode("conversion", in.Conversion),
		core.CoqBool(in.Concurrent), in.NameLen, coqEnv)
	if in.Ways != nil {
		coqIn = fmt.Sprintf("CWays (mkWI %s %s %d %s %s) (", core.CoqZ(int64(in.Exit)), core.CoqBool(in.Concurrent), in.NameLen, coqEnv, in.coqJobs())
	}
	if in.Bound != nil {
		coqIn = in.coqBound()
	}
	c.Coq = fmt.Sprintf("%s mkOb %s %s %s %s %s %s %d %d %d %s %s %s %s %s)", coqIn,
		core.CoqBool(o.Started), core.CoqBool(o.CwdIsHookDir), core.CoqBool(o.EnvOK), core.CoqBool(o.ContextMatches),
		core.CoqBool(o.FilesEmpty), core.CoqBool(o.PathsDistinct), o.TmpDuring, st, max0(o.TmpAfter),
		core.CoqBool(o.MetricApplied), core.CoqBool(o.PatchApplied), core.CoqBool(crash != "" || o.Note != ""),
		core.CoqList(o.Envs, func(v []EnvVal) string { return core.CoqList(v, coqEnvVal) }), core.CoqBool(o.ForeignTouched))
	c.JSON = map[string]any{"obs": o, "crash": crash}
	c.Key = fmt.Sprintf("%d/%s/%s/%s/%s/%v/%d", in.Exit, in.Metrics, in.Patch, in.Admission, in.Conversion, in.Concurrent, in.NameLen)
	if in.Bound != nil {
		c.Key += in.boundKey()
	} else if in.TextFile != "" {
		c.JSON = map[string]any{"obs": o, "crash": crash, in.TextFile + "_text": in.text()}
		c.Key += "/" + in.TextFile + "/" + in.text()
	}
	if len(in.Env) != 0 {
		c.Key += "/env"
		for _, e := range in.Env {
			c.Key += fmt.Sprintf(":%d=%d", e.Var, e.Val)
		}
	}
	c.Nontrivial = true
	c.Tags = []string{fmt.Sprintf("exit:%d", in.Exit), "metrics:" + in.Metrics, "patch:" + in.Patch, "admission:" + in.Admission, "conversion:" + in.Conversion, fmt.Sprintf("concurrent:%v", in.Concurrent)}
	if in.NameLen != 0 {
		c.Tags = append(c.Tags, "longname")
	}
	if in.Bound != nil {
		c.Tags = append(c.Tags, in.boundTags()...)
	} else if in.TextFile != "" {
		c.Tags = append(c.Tags, "text:"+in.TextFile, "mut:"+in.Mut, "mut:"+in.TextFile+":"+in.Mut)
	}
	c.Tags = append(c.Tags, in.envTags()...)
	if in.Ways != nil {
		c.Key += "/ways" + in.waysKey()
		c.Tags = append(c.Tags, in.waysTags()...)
	}
	return c
}

func coqEnvVal(v EnvVal) string {
	switch v.Kind {
	case "absent":
		return fmt.Sprintf("(%d, None)", v.Var)
	case "own":
		return fmt.Sprintf("(%d, Some (Own %d))", v.Var, v.N)
	case "foreign":
		return fmt.Sprintf("(%d, Some (Foreign %d))", v.Var, v.N)
	}
	return fmt.Sprintf("(%d, Some Unknown)", v.Var)
}

// tags of the operator-environment class: env:none / contract / unrelated / both, one tag per
// contract variable present, envdup when a variable occurs twice
func (in Input) envTags() []string {
	if len(in.Env) == 0 {
		return []string{"env:none"}
	}
	var tags []string
	contract, unrelated, dup := false, false, false
	seen := map[int]bool{}
	for _, e := range in.Env {
		if seen[e.Var] {
			dup = true
			continue
		}
		seen[e.Var] = true
		if e.Var < len(contractVars) {
			contract = true
			tags = append(tags, "envvar:"+contractVars[e.Var], fmt.Sprintf("envfile:%s", []string{"absent", "empty", "content"}[e.Val%3]))
		} else {
			unrelated = true
		}
	}
	switch {
	case contract && unrelated:
		tags = append(tags, "env:both")
	case contract:
		tags = append(tags, "env:contract")
	default:
		tags = append(tags, "env:unrelated")
	}
	if dup {
		tags = append(tags, "envdup")
	}
	sort.Strings(tags)
	// envfile tags may repeat
	out := tags[:0]
	for i, t := range tags {
		if i == 0 || t != tags[i-1] {
			out = append(out, t)
		}
	}
	return out
}

// one case of the operator-environment class
func genEnvCase(r *core.Rng) Input {
	exits := []int{0, 0, 0, 1, 2, 137, -9, -15}
	in := Input{Exit: exits[r.Intn(len(exits))], Metrics: "empty", Patch: "empty", Admission: "empty", Conversion: "empty", Concurrent: r.Chance(25)}
	// outputs: mostly something to lose
	for f := 0; f < 4; f++ {
		k := "empty"
		switch x := r.Intn(10); {
		case x < 5:
			k = "valid"
		case x < 6:
			k = "truncated"
		case x < 7:
			k = "wrongtype"
		}
		switch f {
		case 0:
			in.Metrics = k
		case 1:
			in.Patch = k
		case 2:
			in.Admission = k
		case 3:
			in.Conversion = k
		}
	}
	n := 1 + r.Intn(4)
	for j := 0; j < n; j++ {
		if r.Chance(65) {
			in.Env = append(in.Env, EnvVar{Var: r.Intn(6), Val: r.Intn(6)})
		} else {
			in.Env = append(in.Env, EnvVar{Var: 6 + r.Intn(4), Val: r.Intn(6)})
		}
	}
	return in
}

// fixed cases of the operator-environment class, smallest first
func envCorpus() []Input {
	e := func(exit int, m, p, a, cv string, conc bool, env ...EnvVar) Input {
		return Input{Exit: exit, Metrics: m, Patch: p, Admission: a, Conversion: cv, Concurrent: conc, Env: env}
	}
	ins := []Input{
		e(0, "empty", "empty", "empty", "empty", false, EnvVar{1, 1}),
		e(0, "valid", "valid", "empty", "empty", false, EnvVar{1, 1}),
		e(0, "empty", "empty", "empty", "empty", false, EnvVar{0, 2}),
		e(0, "empty", "empty", "empty", "valid", false, EnvVar{2, 1}),
		e(0, "empty", "empty", "valid", "empty", false, EnvVar{3, 1}),
		e(0, "empty", "empty", "valid", "empty", false, EnvVar{4, 1}),
		e(0, "empty", "valid", "empty", "empty", false, EnvVar{5, 1}),
		e(0, "valid", "empty", "empty", "empty", false, EnvVar{1, 0}),
		e(0, "valid", "empty", "empty", "empty", false, EnvVar{1, 2}),
		e(1, "valid", "valid", "empty", "empty", false, EnvVar{1, 1}),
		e(0, "empty", "empty", "empty", "empty", false, EnvVar{6, 0}, EnvVar{7, 1}),
		e(0, "valid", "valid", "valid", "valid", false, EnvVar{0, 2}, EnvVar{1, 2}, EnvVar{2, 2}, EnvVar{3, 2}, EnvVar{4, 2}, EnvVar{5, 2}),
		e(0, "valid", "valid", "empty", "empty", true, EnvVar{7, 1}, EnvVar{1, 0}, EnvVar{0, 1}),
		e(0, "valid", "empty", "empty", "empty", false, EnvVar{1, 1}, EnvVar{6, 0}, EnvVar{1, 2}, EnvVar{6, 3}),
		e(0, "truncated", "empty", "empty", "empty", false, EnvVar{1, 1}),
	}
	long := e(0, "empty", "empty", "empty", "empty", false, EnvVar{1, 1}, EnvVar{8, 0})
	long.NameLen = 190
	return append(ins, long)
}

func max0(n int) int {
	if n < 0 {
		return 0
	}
	return n
}

func Gen(r *core.Rng, tier string) ([]core.In[Input], bool) {
	var ins, concs []core.In[Input]
	add := func(in Input, stream string) {
		if in.Conc != nil {
			concs = append(concs, core.In[Input]{Input: in, Stream: stream})
			return
		}
		ins = append(ins, core.In[Input]{Input: in, Stream: stream})
	}
	// corpus
	add(Input{Exit: 0, Metrics: "valid", Patch: "valid", Admission: "empty", Conversion: "empty"}, "corpus")
	add(Input{Exit: 1, Metrics: "valid", Patch: "valid", Admission: "empty", Conversion: "empty"}, "corpus")
	add(Input{Exit: 0, Metrics: "empty", Patch: "empty", Admission: "empty", Conversion: "empty", Concurrent: true}, "corpus")
	// long hook names: temp-file names around the 255-byte limit of a file name
	for _, n := range []int{150, 188, 189, 190, 191, 192, 193, 200} {
		add(Input{Exit: 0, Metrics: "empty", Patch: "empty", Admission: "empty", Conversion: "empty", NameLen: n}, "longname")
	}
	// ways of writing: a patch moved onto $KUBERNETES_PATCH_PATH (valid, truncated)
	for _, in := range waysWitnesses() {
		add(in, "corpus")
	}
	// literal texts: one per mutation kind and file
	for _, in := range textCorpus() {
		add(in, "text-corpus")
	}
	// the operator's own environment holds contract variables / unrelated variables
	for _, in := range envCorpus() {
		add(in, "env-corpus")
	}
	// many executions at the same time, judged one by one for the content of their context file
	for _, in := range concCorpus() {
		add(in, "conc-corpus")
	}
	// how the hook file is present in the hooks tree: every layout, plain root / root through a link, relative / absolute targets
	for _, in := range placeSystematic() {
		add(in, "place-systematic")
	}
	for i, in := range placeExhaustive() {
		if tier != "quick" || i%6 == 3 {
			add(in, "place-exhaustive")
		}
	}
	{
		pr := r.Fork()
		nPlace := map[string]int{"quick": 70, "thorough": 6000}[tier]
		if nPlace == 0 {
			nPlace = 1200
		}
		for i := 0; i < nPlace; i++ {
			add(genPlaceCase(pr), "place-random")
		}
	}
	// first document ++ tail, the first document of every length around the read boundaries of the JSON decoder
	genBound(r.Fork(), tier, add)
	exits := []int{0, 1, 2, 137, -9, -15, -11}
	if tier == "quick" {
		genTexts(r.Fork(), "metrics", 126, add)
		genTexts(r.Fork(), "admission", 30, add)
		genTexts(r.Fork(), "conversion", 24, add)
		// every exit code x each single file in every state (others empty), plus seeded random combinations
		for _, e := range exits {
			for f := 0; f < 4; f++ {
				for _, k := range kinds {
					in := Input{Exit: e, Metrics: "empty", Patch: "empty", Admission: "empty", Conversion: "empty"}
					switch f {
					case 0:
						in.Metrics = k
					case 1:
						in.Patch = k
					case 2:
						in.Admission = k
					case 3:
						in.Conversion = k
					}
					add(in, "single-file")
				}
			}
		}
		for i := 0; i < 60; i++ {
			add(Input{Exit: exits[r.Intn(len(exits))], Metrics: kinds[r.Intn(4)], Patch: kinds[r.Intn(4)], Admission: kinds[r.Intn(4)], Conversion: kinds[r.Intn(4)], Concurrent: r.Chance(30)}, "random")
		}
		er := r.Fork()
		for i := 0; i < 56; i++ {
			add(genEnvCase(er), "env")
		}
		genConcStream(r.Fork(), 36, add)
		// ways of writing: every file x outcome class x way, every corpus text in a way (rotation), random combinations
		for _, in := range waysSystematic(false) {
			add(in, "ways-systematic")
		}
		wr := r.Fork()
		for _, in := range waysTexts(wr, false) {
			add(in, "ways-text")
		}
		for i := 0; i < 60; i++ {
			add(genWaysCase(wr), "ways-random")
		}
		return spread(ins, concs), false
	}
	nEnv := 300
	nConc := 150
	if tier == "thorough" {
		nEnv = 1500
		nConc = 600
		// small scope, exhaustive: every single contract variable x kind of foreign file x exit 0/1 x nothing / everything written
		for v := 0; v < 6; v++ {
			for val := 0; val < 3; val++ {
				for _, ex := range []int{0, 1} {
					for _, k := range []string{"empty", "valid"} {
						add(Input{Exit: ex, Metrics: k, Patch: k, Admission: k, Conversion: k, Env: []EnvVar{{Var: v, Val: val}}}, "env-exhaustive")
					}
				}
			}
		}
	}
	{
		er := r.Fork()
		for i := 0; i < nEnv; i++ {
			add(genEnvCase(er), "env")
		}
	}
	if tier == "thorough" {
		genTexts(r.Fork(), "metrics", 4200, add)
		genTexts(r.Fork(), "admission", 840, add)
		genTexts(r.Fork(), "conversion", 630, add)
	} else { // search
		genTexts(r.Fork(), "metrics", 1260, add)
		genTexts(r.Fork(), "admission", 210, add)
		genTexts(r.Fork(), "conversion", 210, add)
	}
	// thorough / search: the full product exit x 4^4 file states (x concurrent for exit 0 and 1)
	for _, e := range exits {
		for _, m := range kinds {
			for _, p := range kinds {
				for _, a := range kinds {
					for _, cv := range kinds {
						add(Input{Exit: e, Metrics: m, Patch: p, Admission: a, Conversion: cv}, "exhaustive")
						if tier == "thorough" && e <= 1 && (m == "valid" || p == "valid") {
							add(Input{Exit: e, Metrics: m, Patch: p, Admission: a, Conversion: cv, Concurrent: true}, "exhaustive-concurrent")
						}
					}
				}
			}
		}
	}
	genConcStream(r.Fork(), nConc, add)
	{
		wr := r.Fork()
		nWays := 600
		for _, in := range waysSystematic(tier == "thorough") {
			add(in, "ways-systematic")
		}
		for _, in := range waysTexts(wr, tier == "thorough") {
			add(in, "ways-text")
		}
		if tier == "thorough" {
			nWays = 3000
			for _, in := range waysProduct() {
				add(in, "ways-product")
			}
		}
		for i := 0; i < nWays; i++ {
			add(genWaysCase(wr), "ways-random")
		}
	}
	return spread(ins, concs), false
}

// spread puts the cases of the concurrent class at even distances among the others: they cost more
// than the others (in the harness and as Coq terms), so every worker and every shard gets its share
func spread(ins, concs []core.In[Input]) []core.In[Input] {
	if len(concs) == 0 {
		return ins
	}
	out := make([]core.In[Input], 0, len(ins)+len(concs))
	k := 0
	for i, in := range ins {
		out = append(out, in)
		for k < len(concs) && (k+1)*len(ins) <= (i+1)*len(concs) {
			out = append(out, concs[k])
			k++
		}
	}
	return append(out, concs[k:]...)
}

var _ = sort.Ints

var Driver = core.Driver[Input, Obs]{
	Spec: core.Spec{Property: "C12", Imports: []string{"C12_Model", "C12_Spec", "C12_ConcModel", "C12_ConcSpec", "C12_FsModel", "C12_FsSpec", "C12_PlaceModel", "C12_PlaceSpec", "C12_BoundModel", "C12_BoundSpec", "C12_Corr"}, Corr: "C12_Corr", ShrinkKey: "parts",
		Rule: "one hook with two schedule bindings in two queues run by the real operator; the scripted hook reports cwd, environment, context file, initial content of the output files and the temp-dir listing, then ends with exit code in {0,1,2,137} and each of the four output files in {empty, valid, truncated, wrong type}; observed: task status, temp dir afterwards, whether the metric / the patch took effect, path uniqueness across two concurrent executions; quick = every exit code x every single-file state + 60 random combinations + corpus; thorough = the full product (exhaustive); the longname stream uses hook names whose temp-file names straddle the 255-byte file-name limit; every case is non-trivial and distinct by its parameters; TEXT cases: one of the metrics / admission-response / conversion-response files holds a literal text (the model reads it byte by byte): valid texts (1-4 metric operations in the documented forms, one response object; varied whitespace, key order, escapes, UTF-8, number forms) and texts broken by a mutation grammar (tags mut:<kind>): trunc, del/ins/dup of one structural byte, stray closer/opener/separator at a value boundary, value of another JSON type, garbage after valid, whitespace only, only a closer, control byte in a string, bad escape, bad number, case-changed keys, unknown keys, null values, duplicate keys, violated metric rules, non-object documents; a fixed corpus holds texts of every kind; quick = corpus + 180 generated texts, thorough = corpus + 5670, search = corpus + 1680; distinct = distinct by parameters and text; ENV cases (tags env:contract / env:unrelated / env:both, envvar:<NAME>, envfile:<absent|empty|content>, envdup): the operator's OWN environment is set (os.Setenv in the operator's process before it loads the hook, restored afterwards; contract variables the case does not mention are removed) to 1-4 variables: the six contract variables with foreign values (a path outside the temp directory: no such file / an empty file / a file with content) and unrelated variables; the scripted hook reports what it finds under the six variables and under every variable of the case, classified as this execution's own file of kind f / the operator's value / absent / other, compared with the model's child environment; after the run the foreign files are checked for changes; quick = 16 fixed + 56 generated, thorough = 16 + 72 exhaustive single-variable cases + 1500, search = 16 + 300; CONC cases (tags class:conc, conc-queues:<n>, conc-procs:<GOMAXPROCS>, conc-hold, conc-biggest:<size class>, conc-same-hook, conc-failing-hook): the real Hook.Run called from one goroutine per queue (2-12 queues, 2-6 tasks each, the same hook in several queues and different hooks, one hook always exiting non-zero), free running or in lockstep rounds with every hook process of a round held open, GOMAXPROCS 1 / 2 / 4 / unchanged, a scenario of n executions run up to max(1, 48/n) times (the first run with an execution that is not as expected is handed on, else the last); a task's contexts are segments of schedule / onStartup / group contexts, documents from 2 bytes to about 400 KiB; which hook-process report belongs to which call is established through the object-patch file / the exit status, never through the context file; every execution is judged by itself (what ITS hook process read, byte for byte, against ITS task; own directory, own empty output files, names unique over all executions of the case, outputs read back, temp directory empty at the end and holding five files per open execution in a lockstep round); delta debugging drops tasks; quick = 5 fixed + 36 generated, thorough = 5 + 600, search = 5 + 150; WAYS cases (tags class:ways, way:<how>, way:<file>:<how>, way:<how>:<outcome class>, way-steps:<1|2|3+>): HOW the hook writes each output file - in place, append only (never truncates), a scratch file beside it renamed onto the path, removed and created again, through a second hard link, a symbolic link put at the path (target outside the temp directory), removed for good - and cut offsets that split the content into chunks written one open/write/close each; the scripted hook performs exactly these system calls (cmd/hookstub WaySpec, handed over in the files map under WAY:<VAR>), the model runs the same operations on a file system of names, inodes and links and reads the four paths back (C12_FsModel), the predicate is C12_Spec.P for what is at the paths at exit (C12_FsSpec); the temp directory must end empty for every way; streams: ways-systematic = every output file x {valid, truncated, wrong type, empty} x every way (with 0-3 cuts) + removal per file with exit 0 and 1, ways-text = every text of the fixed corpus (every mutation kind of every JSON file) written in a way (the six ways in rotation; thorough: every text in every way), ways-random = all four files at once with random outcome classes / generated texts, ways and cuts, now and then a non-zero exit, a concurrent execution, contract variables in the operator's environment, a removed file; quick = 2 witnesses + 104 systematic + 94 texts + 60 random, thorough = 2 + 280 + 564 + 1296 (product of the ways over four valid files) + 3000, search = 2 + 104 + 94 + 600; PLACE cases (tags class:place, place-layout:<layout>, place-root:<plain|through-link>, place-entry:<regular|link-rel|link-abs>, place-links:<n>, place-hooks:<n>, place-started / place-not-started, place-settings:<seen|none>): HOW the hook file is present in the hooks tree - a tree of directories, script files and symbolic links below a sandbox (the parts of the case, applied with plain system calls, then SCANNED without following links: the scan is what the model gets), the hooks found by the real utils_file.RecursiveGetExecutablePaths, a hook.Hook made of every path found as Manager.loadHook does, the real Hook.Run for each; every script reports (into $VERIF_C12_REPORT) its content number, $0, its physical working directory and what ./settings holds; the working directory is mapped to a scanned directory by device and inode; the model (C12_PlaceModel: namei over entries, links absolute / relative with .., launch = chdir(dir part), execve(path)) is compared on started / failed / argv0 / program / working directory / settings / temp files, the predicate (C12_PlaceSpec) demands the directory the hook was found in (descent through real directories) and its settings file; place-systematic = layouts regular, same-dir, configmap (..data double link, with linked and with own settings), dangling, loop, dir-link-in-tree, outside, outside-no-own-settings, inside, lib, shared (one script linked into three hook directories), chain (three links over four directories), via-dir-link, not-executable, to-directory x relative / absolute targets x hooks root plain / reached through a link = 50, + root-is-link (the hooks root itself a link: nothing is found, nothing runs; trivial); place-exhaustive = hooks root plain / through a link x hook directory the root itself / one / two levels down x entry regular / link to the same directory / a sibling hook directory / lib / outside / outside through a link to a directory / a chain of two / a chain of three x relative / absolute x own ./settings none / regular / a link x settings beside the target none / regular = 540 (quick: every sixth = 90); place-random = random trees (1-4 hook directories also nested, 1-3 scripts inside / outside / in lib / in a hidden directory, entries regular or linked, chains, settings regular / linked / absent, failing entries): quick 70, thorough 6000, search 1200; BOUND cases (tags class:bound, bound-file:<file>, bound-style:<ws|string|members>, bound-tail:<tail>, bound-len:<class>, bound:<file>:<tail>): WHERE a malformation sits relative to how the parsers read - ONE of the four output files (metrics, admission / validating response, conversion response, object patch) holds  first document ++ tail: a well-formed first document of an exactly chosen length (brought to the length by white space inside the object, by one long string - message / failedMessage / label value / data value - or by many small members), lengths 480..544, 1000..1060, 1500..1570, 2040..2056, 3576..3592, 4090..4100 (encoding/json's Decoder has read 512, 1536, 3584 bytes after its first reads), and a tail: nothing, a newline, white space, a second document (a second verdict appended) directly / after a newline / after 1100 newlines, a lone closing brace directly / on a line of its own / after 600 blanks, a word directly / on a line of its own; the scripted hook writes the raw bytes; the text goes to Coq in segments (chunk, repetitions); the model reads the file as one byte string (JsonText; the patch file through C12_BoundModel.patch_text_kind, JSON path only - every generated patch tail that is not a JSON stream is also refused by the YAML fallback), the predicate is C12_Spec.P and C12_BoundSpec.P_bound (response files: success iff the tail is white space only; metrics / patch: iff the tail is itself a well-formed sequence); streams: bound-corpus 6, bound-systematic = lengths one byte around 512 / 1536 / 3584 x 4 files x {nl-doc2, doc2, closer, ws} = 160 (thorough instead: every length x file x tail = 10648), bound-tails = every tail after a first document of 512 bytes x 4 files + after 1536 bytes in the patch file = 55, bound-lengths = every length 480..544 and every third of the others, file / style / non-white tail by a fixed scramble of the index (search: every length), bound-random = random length (one in five anywhere in 40..4240) x file x style x tail, one in sixteen with a non-zero exit: quick 60, thorough 6000, search 1200"},
	Gen: Gen, Run: Run, Render: Render, PerShard: 60, Workers: 14, CaseTimout: 40 * time.Second,
}
