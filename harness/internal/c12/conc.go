package c12

// Case class CONC: many executions of Hook.Run at the same time ("executions running
// concurrently in different queues"), judged one by one for the CONTENT of their
// per-execution input: "a binding-context file holding exactly the contexts of the task".
//
// The real pkg/hook.Hook.Run is called from one goroutine per queue; every queue runs its
// tasks one after the other (as a queue worker does), the queues run freely beside each
// other (or, with Hold, in lockstep rounds in which every hook process of a round is kept
// open until all of the round have reported).  A task is (queue, hook, list of contexts); the
// contexts of a task are written down as segments (kind, tag, from, count) standing for
// count contexts named t<tag>-<from> ... of one kind, so that documents of a few bytes and of
// hundreds of KiB have equally small descriptions.  The scripted hook (cmd/hookstub) reports
// byte-for-byte what it found under $BINDING_CONTEXT_PATH, its other per-execution paths,
// the initial content of the four output files and its working directory.
//
// Which report belongs to which Run call is established WITHOUT looking at the context file:
// the server numbers the reports; a hook that is to succeed writes its number into
// $KUBERNETES_PATCH_PATH, which Hook.Run hands back in Result.KubernetesPatchBytes; a hook
// that is to fail (hook 3 always fails) exits with its number as exit status, which
// Hook.Run hands back in the error text ("exit status N").
//
// Nothing that is compared depends on the interleaving: every execution is judged by what
// ITS hook process saw against ITS task.

import (
	"bytes"
	"encoding/json"
	"fmt"
	"net"
	"os"
	"path/filepath"
	"regexp"
	"runtime"
	"strconv"
	"strings"
	"sync"
	"time"

	"github.com/deckhouse/deckhouse/pkg/log"

	"github.com/flant/shell-operator/pkg/hook"
	bctx "github.com/flant/shell-operator/pkg/hook/binding_context"
	"github.com/flant/shell-operator/pkg/hook/config"
	"github.com/flant/shell-operator/pkg/hook/controller"
	htypes "github.com/flant/shell-operator/pkg/hook/types"

	"verifharness/internal/core"
)

// ConcCfg marks a case of the class; the tasks are Input.Parts (one string per task, see
// parseTask), so that delta debugging can drop tasks.
type ConcCfg struct {
	Procs int  `json:"procs"` // GOMAXPROCS while the case runs (0: unchanged)
	Hold  bool `json:"hold"`  // lockstep rounds, hooks of a round held open until all have reported
	// Reps: the whole scenario is run up to Reps times; the observation handed on is that of the first
	// run in which some execution is not as expected, else that of the last run.  0 = as many runs as
	// make about 48 executions (repsFor): an interleaving that shows a defect is a matter of chance,
	// small scenarios get more runs.
	Reps int `json:"reps,omitempty"`
}

// Seg stands for Count contexts of one kind named t<Tag>-<From> ... t<Tag>-<From+Count-1>.
// Kind 0: schedule ({"binding","type":"Schedule"}), 1: onStartup ({"binding"}),
// 2: a group ({"binding","groupName":"g<Tag>","type":"Group"}).
type Seg struct {
	Kind  int `json:"kind"`
	Tag   int `json:"tag"`
	From  int `json:"from"`
	Count int `json:"count"`
}

type ConcTask struct {
	Queue int
	Hook  int // 1, 2: succeed; 3: always exits with a non-zero status
	Segs  []Seg
}

const failingHook = 3

// "q<queue> h<hook> <k><tag>:<from>+<count> ..."   with k one of s (schedule), o (onStartup), g (group)
func (t ConcTask) String() string {
	var b strings.Builder
	fmt.Fprintf(&b, "q%d h%d", t.Queue, t.Hook)
	for _, s := range t.Segs {
		fmt.Fprintf(&b, " %c%d:%d+%d", "sog"[s.Kind], s.Tag, s.From, s.Count)
	}
	return b.String()
}

var segRe = regexp.MustCompile(`^([sog])(\d+):(\d+)\+(\d+)$`)

func parseTask(s string) (ConcTask, error) {
	var t ConcTask
	fs := strings.Fields(s)
	if len(fs) < 2 || !strings.HasPrefix(fs[0], "q") || !strings.HasPrefix(fs[1], "h") {
		return t, fmt.Errorf("bad task %q", s)
	}
	var err error
	if t.Queue, err = strconv.Atoi(fs[0][1:]); err != nil {
		return t, fmt.Errorf("bad task %q", s)
	}
	if t.Hook, err = strconv.Atoi(fs[1][1:]); err != nil || t.Hook < 1 || t.Hook > 3 {
		return t, fmt.Errorf("bad task %q", s)
	}
	for _, f := range fs[2:] {
		m := segRe.FindStringSubmatch(f)
		if m == nil {
			return t, fmt.Errorf("bad segment %q", f)
		}
		sg := Seg{Kind: strings.Index("sog", m[1])}
		sg.Tag, _ = strconv.Atoi(m[2])
		sg.From, _ = strconv.Atoi(m[3])
		sg.Count, _ = strconv.Atoi(m[4])
		if sg.Count > 0 {
			t.Segs = append(t.Segs, sg)
		}
	}
	return t, nil
}

func ctxName(tag, i int) string { return fmt.Sprintf("t%d-%d", tag, i) }

func (t ConcTask) contexts() []bctx.BindingContext {
	res := make([]bctx.BindingContext, 0)
	for _, s := range t.Segs {
		for i := s.From; i < s.From+s.Count; i++ {
			var bc bctx.BindingContext
			bc.Binding = ctxName(s.Tag, i)
			switch s.Kind {
			case 0:
				bc.Metadata.BindingType = htypes.Schedule
			case 1:
				bc.Metadata.BindingType = htypes.OnStartup
			case 2:
				bc.Metadata.BindingType = htypes.Schedule
				bc.Metadata.Group = fmt.Sprintf("g%d", s.Tag)
			}
			res = append(res, bc)
		}
	}
	return res
}

func (t ConcTask) count() int {
	n := 0
	for _, s := range t.Segs {
		n += s.Count
	}
	return n
}

// renderSegs is the harness's own rendering of the document of a context list (written from
// the format the hooks are documented to receive: a JSON array, two-space indentation, keys in
// lexical order); the model's [render_doc] is the same function in Coq and is compared with the
// raw bytes on small documents.
func renderSegs(segs []Seg) []byte {
	var b bytes.Buffer
	b.WriteString("[")
	first := true
	for _, s := range segs {
		for i := s.From; i < s.From+s.Count; i++ {
			if first {
				b.WriteString("\n")
				first = false
			} else {
				b.WriteString(",\n")
			}
			b.WriteString("  {\n    \"binding\": \"")
			b.WriteString(ctxName(s.Tag, i))
			switch s.Kind {
			case 0:
				b.WriteString("\",\n    \"type\": \"Schedule\"\n  }")
			case 1:
				b.WriteString("\"\n  }")
			case 2:
				fmt.Fprintf(&b, "\",\n    \"groupName\": \"g%d\",\n    \"type\": \"Group\"\n  }", s.Tag)
			}
		}
	}
	if !first {
		b.WriteString("\n")
	}
	b.WriteString("]")
	return b.Bytes()
}

// Seen is what a hook process found in its binding-context file.
type Seen struct {
	// JSON: the file is one JSON document, an array of objects each of which is a context of one of the
	// three kinds (with exactly the keys of that kind); Segs are these contexts, in order (maximal runs)
	JSON bool  `json:"json"`
	Segs []Seg `json:"segs,omitempty"`
	// Own: the bytes are exactly the rendering of the contexts of the execution's own task (for the reader;
	// Coq decides this from Segs and Canonical)
	Own bool `json:"own"`
	// Canonical: the bytes are exactly renderSegs(Segs)
	Canonical bool `json:"canonical"`
	Len       int  `json:"len"`
	// Raw: the bytes themselves, for the first rawPerCase executions of a case whose file has at most rawLimit
	// bytes (compared with the model's rendering of the task's document)
	Raw  *string `json:"raw,omitempty"`
	Head string  `json:"head,omitempty"` // for the reader of a replay file: the first bytes of a file that is not as expected
}

const (
	rawLimit   = 200
	rawPerCase = 4
)

var nameRe = regexp.MustCompile(`^t(\d+)-(\d+)$`)

func appendCtx(segs []Seg, kind, tag, i int) []Seg {
	if n := len(segs); n > 0 {
		l := &segs[n-1]
		if l.Kind == kind && l.Tag == tag && l.From+l.Count == i {
			l.Count++
			return segs
		}
	}
	return append(segs, Seg{Kind: kind, Tag: tag, From: i, Count: 1})
}

// classify what was seen; own is the task's own context list (fast path: byte equality with its rendering)
func classifySeen(data []byte, own []Seg, withRaw bool) Seen {
	s := Seen{Len: len(data)}
	if withRaw {
		r := string(data)
		s.Raw = &r
	}
	if bytes.Equal(data, renderSegs(own)) {
		s.JSON, s.Canonical, s.Own = true, true, true
		for _, sg := range own {
			for i := sg.From; i < sg.From+sg.Count; i++ {
				s.Segs = appendCtx(s.Segs, sg.Kind, sg.Tag, i)
			}
		}
		return s
	}
	head := data
	if len(head) > 160 {
		head = head[:160]
	}
	s.Head = string(head)
	var arr []map[string]interface{}
	dec := json.NewDecoder(bytes.NewReader(data))
	if err := dec.Decode(&arr); err != nil || arr == nil {
		return s
	}
	if _, err := dec.Token(); err == nil || err.Error() != "EOF" {
		return s // something follows the document
	}
	var segs []Seg
	for _, m := range arr {
		name, _ := m["binding"].(string)
		nm := nameRe.FindStringSubmatch(name)
		if nm == nil {
			return s
		}
		tag, _ := strconv.Atoi(nm[1])
		i, _ := strconv.Atoi(nm[2])
		if ctxName(tag, i) != name {
			return s
		}
		ty, hasTy := m["type"].(string)
		gn, hasGn := m["groupName"].(string)
		switch {
		case len(m) == 2 && hasTy && ty == "Schedule":
			segs = appendCtx(segs, 0, tag, i)
		case len(m) == 1:
			segs = appendCtx(segs, 1, tag, i)
		case len(m) == 3 && hasTy && ty == "Group" && hasGn && gn == fmt.Sprintf("g%d", tag):
			segs = appendCtx(segs, 2, tag, i)
		default:
			return s
		}
	}
	s.JSON, s.Segs = true, segs
	s.Canonical = bytes.Equal(data, renderSegs(segs))
	return s
}

// ExecObs: one execution (one call of Hook.Run), judged by itself.
type ExecObs struct {
	Task       int    `json:"task"`
	Identified bool   `json:"identified"` // exactly one report of a hook process could be attributed to this call
	CwdOK      bool   `json:"cwd_ok"`     // the process ran in the directory of its hook
	HookOK     bool   `json:"hook_ok"`    // the process was the executable of the task's hook
	EnvOK      bool   `json:"env_ok"`     // the six variables are set, name files in the temp directory that exist, VALIDATING = ADMISSION
	Paths      []int  `json:"paths"`      // context, metrics, admission, conversion, patch: 5*task+k when new, else the number it already has
	FilesEmpty bool   `json:"files_empty"`
	Seen       Seen   `json:"seen"`
	Status     string `json:"status"` // success fail
	PatchBack  bool   `json:"patch_back"`
	Note       string `json:"note,omitempty"`
}

type ConcObs struct {
	Execs     []ExecObs `json:"execs"`
	TmpAfter  int       `json:"tmp_after"`
	HeldSizes []int     `json:"held_sizes,omitempty"` // Hold: temp files present while all hooks of a round were open / 5
	Note      string    `json:"note,omitempty"`
	Run       int       `json:"run"` // which run of a repeated scenario this is
}

// ---- the hook-stub server of this class ----

type stubHello struct {
	Argv0   string            `json:"argv0"`
	Args    []string          `json:"args"`
	Cwd     string            `json:"cwd"`
	Env     map[string]string `json:"env"`
	Context string            `json:"context"`
	Files   map[string]string `json:"files"`
}
type stubReply struct {
	Stdout string            `json:"stdout"`
	Exit   int               `json:"exit"`
	Files  map[string]string `json:"files"`
}
type report struct {
	seq   int
	hello stubHello
	// facts established when the report arrived (the files are gone afterwards)
	exist bool
}

type concServer struct {
	ln      net.Listener
	mu      sync.Mutex
	reports []*report
	// Hold mode
	hold    bool
	expect  int
	waiting []net.Conn
	waitSeq []int
	waitEx  []int
	full    chan struct{}
	wg      sync.WaitGroup
}

func nonceText(seq int) string { return fmt.Sprintf("c12-report-%d\n", seq) }

// the exit status of the failing report number k (k counts the failing reports only)
func failStatus(k int) int { return 2 + k%250 }

func (s *concServer) replyTo(conn net.Conn, seq int, exit int) {
	r := stubReply{Exit: exit}
	if exit == 0 {
		r.Files = map[string]string{"KUBERNETES_PATCH_PATH": nonceText(seq)}
	}
	json.NewEncoder(conn).Encode(r)
	conn.Close()
}

func (s *concServer) serve(conn net.Conn) {
	defer s.wg.Done()
	var h stubHello
	if err := json.NewDecoder(conn).Decode(&h); err != nil {
		conn.Close()
		return
	}
	exist := true
	for _, v := range []string{"BINDING_CONTEXT_PATH", "METRICS_PATH", "ADMISSION_RESPONSE_PATH", "CONVERSION_RESPONSE_PATH", "KUBERNETES_PATCH_PATH"} {
		if _, err := os.Stat(h.Env[v]); err != nil {
			exist = false
		}
	}
	s.mu.Lock()
	seq := len(s.reports)
	s.reports = append(s.reports, &report{seq: seq, hello: h, exist: exist})
	exit := 0
	if hookNumOf(h.Argv0) == failingHook {
		exit = failStatus(seq)
	}
	if !s.hold {
		s.mu.Unlock()
		s.replyTo(conn, seq, exit)
		return
	}
	s.waiting = append(s.waiting, conn)
	s.waitSeq = append(s.waitSeq, seq)
	s.waitEx = append(s.waitEx, exit)
	if len(s.waiting) == s.expect {
		close(s.full)
	}
	s.mu.Unlock()
}

func (s *concServer) loop() {
	for {
		conn, err := s.ln.Accept()
		if err != nil {
			return
		}
		s.wg.Add(1)
		go s.serve(conn)
	}
}

// release answers every held hook
func (s *concServer) release() {
	s.mu.Lock()
	conns, seqs, exits := s.waiting, s.waitSeq, s.waitEx
	s.waiting, s.waitSeq, s.waitEx = nil, nil, nil
	s.mu.Unlock()
	for i, c := range conns {
		s.replyTo(c, seqs[i], exits[i])
	}
}

var hookNumRe = regexp.MustCompile(`h(\d+)$`)

func hookNumOf(argv0 string) int {
	m := hookNumRe.FindStringSubmatch(filepath.Base(argv0))
	if m == nil {
		return -1
	}
	n, _ := strconv.Atoi(m[1])
	return n
}

func stubBinary() string {
	if p := os.Getenv("VERIF_HOOKSTUB"); p != "" {
		return p
	}
	self, _ := os.Executable()
	return filepath.Join(filepath.Dir(self), "hookstub")
}

func copyStub(dst string) error {
	src := stubBinary()
	if err := os.Link(src, dst); err == nil {
		return os.Chmod(dst, 0o755)
	}
	b, err := os.ReadFile(src)
	if err != nil {
		return err
	}
	return os.WriteFile(dst, b, 0o755)
}

var exitStatusRe = regexp.MustCompile(`exit status (\d+)`)

type callResult struct {
	task    int
	err     error
	patch   []byte
	noPatch bool
}

// as the predicate demands it (used only to choose which run of a repeated scenario is handed on)
func (o *ConcObs) asExpected(tasks int) bool {
	if o.Note != "" || o.TmpAfter != 0 || len(o.Execs) != tasks {
		return false
	}
	for _, e := range o.Execs {
		if !(e.Identified && e.HookOK && e.CwdOK && e.EnvOK && e.FilesEmpty && e.Seen.Own && e.Note == "" && (e.Status == "fail" || e.PatchBack)) {
			return false
		}
	}
	return true
}

func runConc(in Input) *ConcObs {
	reps := in.Conc.Reps
	if reps < 1 {
		reps = repsFor(len(in.Parts))
	}
	for rep := 0; ; rep++ {
		o := runConcOnce(in)
		if rep == reps-1 || !o.asExpected(len(in.Parts)) {
			o.Run = rep
			return o
		}
	}
}

func runConcOnce(in Input) *ConcObs {
	o := &ConcObs{}
	var tasks []ConcTask
	for _, p := range in.Parts {
		t, err := parseTask(p)
		if err != nil {
			o.Note = err.Error()
			return o
		}
		tasks = append(tasks, t)
	}
	if in.Conc.Procs > 0 {
		defer runtime.GOMAXPROCS(runtime.GOMAXPROCS(in.Conc.Procs))
	}
	dir, err := os.MkdirTemp("", "c12conc")
	if err != nil {
		o.Note = err.Error()
		return o
	}
	defer os.RemoveAll(dir)
	tmpDir := filepath.Join(dir, "tmp")
	os.MkdirAll(tmpDir, 0o755)
	hooks := map[int]*hook.Hook{}
	hookDir := map[int]string{}
	for _, t := range tasks {
		if hooks[t.Hook] != nil {
			continue
		}
		d := filepath.Join(dir, "hooks", fmt.Sprintf("d%d", t.Hook))
		os.MkdirAll(d, 0o755)
		p := filepath.Join(d, fmt.Sprintf("h%d", t.Hook))
		if err := copyStub(p); err != nil {
			o.Note = "stub: " + err.Error()
			return o
		}
		h := hook.NewHook(fmt.Sprintf("d%d/h%d", t.Hook, t.Hook), p, false, false, "", log.NewNop())
		h.Config = &config.HookConfig{Version: "v1"}
		h.WithHookController(controller.NewHookController())
		h.WithTmpDir(tmpDir)
		hooks[t.Hook] = h
		hookDir[t.Hook] = d
	}
	sock := filepath.Join(dir, "s.sock")
	ln, err := net.Listen("unix", sock)
	if err != nil {
		o.Note = err.Error()
		return o
	}
	srv := &concServer{ln: ln, hold: in.Conc.Hold}
	go srv.loop()
	defer ln.Close()
	oldSock, hadSock := os.LookupEnv("VERIF_SOCK")
	os.Setenv("VERIF_SOCK", sock)
	defer func() {
		if hadSock {
			os.Setenv("VERIF_SOCK", oldSock)
		} else {
			os.Unsetenv("VERIF_SOCK")
		}
	}()
	for _, v := range contractVars {
		os.Unsetenv(v)
	}

	// queues: task indices in order
	queues := map[int][]int{}
	var qOrder []int
	for i, t := range tasks {
		if _, ok := queues[t.Queue]; !ok {
			qOrder = append(qOrder, t.Queue)
		}
		queues[t.Queue] = append(queues[t.Queue], i)
	}
	results := make([]callResult, len(tasks))
	call := func(i int) {
		t := tasks[i]
		res, err := hooks[t.Hook].Run(htypes.Schedule, t.contexts(), map[string]string{})
		r := callResult{task: i, err: err}
		if res != nil {
			r.patch = res.KubernetesPatchBytes
		} else {
			r.noPatch = true
		}
		results[i] = r
	}
	if !in.Conc.Hold {
		start := make(chan struct{})
		var wg sync.WaitGroup
		for _, q := range qOrder {
			wg.Add(1)
			go func(ix []int) {
				defer wg.Done()
				<-start
				for _, i := range ix {
					call(i)
				}
			}(queues[q])
		}
		close(start)
		wg.Wait()
	} else {
		for round := 0; ; round++ {
			var ix []int
			for _, q := range qOrder {
				if round < len(queues[q]) {
					ix = append(ix, queues[q][round])
				}
			}
			if len(ix) == 0 {
				break
			}
			srv.mu.Lock()
			srv.expect = len(ix)
			srv.full = make(chan struct{})
			full := srv.full
			srv.mu.Unlock()
			var wg sync.WaitGroup
			for _, i := range ix {
				wg.Add(1)
				go func(i int) { defer wg.Done(); call(i) }(i)
			}
			done := make(chan struct{})
			go func() { wg.Wait(); close(done) }()
			select {
			case <-full:
				// every hook of the round is open: the temp directory holds the files of all of them
				o.HeldSizes = append(o.HeldSizes, countFiles(tmpDir))
			case <-done:
				// some execution did not reach its hook (cannot happen with creatable files)
				o.HeldSizes = append(o.HeldSizes, -1)
			case <-time.After(20 * time.Second):
				o.HeldSizes = append(o.HeldSizes, -2)
			}
			srv.release()
			<-done
		}
	}
	srv.wg.Wait()
	o.TmpAfter = countFiles(tmpDir)

	// attribute the reports to the calls: by the number handed back through the patch file / the exit status
	srv.mu.Lock()
	reports := srv.reports
	srv.mu.Unlock()
	byNonce := map[string][]*report{}
	byStatus := map[int][]*report{}
	for _, r := range reports {
		if hookNumOf(r.hello.Argv0) == failingHook {
			byStatus[failStatus(r.seq)] = append(byStatus[failStatus(r.seq)], r)
		} else {
			byNonce[nonceText(r.seq)] = append(byNonce[nonceText(r.seq)], r)
		}
	}
	used := map[int]int{}
	pathNum := map[string]int{}
	raws := 0
	for i, t := range tasks {
		e := ExecObs{Task: i, Status: "success"}
		r := results[i]
		var cands []*report
		if r.err != nil {
			e.Status = "fail"
			if m := exitStatusRe.FindStringSubmatch(r.err.Error()); m != nil {
				n, _ := strconv.Atoi(m[1])
				cands = byStatus[n]
			} else {
				e.Note = "error: " + r.err.Error()
			}
		} else {
			cands = byNonce[string(r.patch)]
			e.PatchBack = len(cands) == 1
		}
		if len(cands) == 1 && used[cands[0].seq] == 0 {
			used[cands[0].seq]++
			e.Identified = true
			h := cands[0].hello
			e.HookOK = hookNumOf(h.Argv0) == t.Hook
			e.CwdOK = h.Cwd == hookDir[t.Hook]
			e.EnvOK = cands[0].exist && h.Env["VALIDATING_RESPONSE_PATH"] == h.Env["ADMISSION_RESPONSE_PATH"]
			e.FilesEmpty = true
			for k, v := range []string{"BINDING_CONTEXT_PATH", "METRICS_PATH", "ADMISSION_RESPONSE_PATH", "CONVERSION_RESPONSE_PATH", "KUBERNETES_PATCH_PATH"} {
				p := h.Env[v]
				if p == "" || filepath.Dir(p) != tmpDir || !strings.Contains(filepath.Base(p), ownInfix[k]) {
					e.EnvOK = false
				}
				if _, ok := pathNum[p]; !ok {
					pathNum[p] = 5*i + k
				}
				e.Paths = append(e.Paths, pathNum[p])
				if k > 0 && h.Files[v] != "" {
					e.FilesEmpty = false
				}
			}
			withRaw := len(h.Context) <= rawLimit && raws < rawPerCase
			if withRaw {
				raws++
			}
			e.Seen = classifySeen([]byte(h.Context), t.Segs, withRaw)
		}
		o.Execs = append(o.Execs, e)
	}
	if len(reports) != len(tasks) {
		o.Note = fmt.Sprintf("%d hook processes reported for %d executions", len(reports), len(tasks))
	}
	return o
}

// ---- rendering ----

func coqSeg(s Seg) string { return fmt.Sprintf("(%d, %d, %d, %d)", s.Kind, s.Tag, s.From, s.Count) }

func renderConc(in Input, obs *Obs, crash string) core.Case {
	c := core.Case{}
	var tasks []ConcTask
	for _, p := range in.Parts {
		t, _ := parseTask(p)
		tasks = append(tasks, t)
	}
	var co ConcObs
	if obs != nil && obs.Conc != nil {
		co = *obs.Conc
	}
	bad := crash != "" || co.Note != "" || obs == nil || obs.Conc == nil
	coqTask := func(t ConcTask) string {
		return fmt.Sprintf("mkCT %d %d %s %s", t.Queue, t.Hook, core.CoqBool(t.Hook == failingHook), core.CoqList(t.Segs, coqSeg))
	}
	coqExec := func(e ExecObs) string {
		raw := "None"
		if e.Seen.Raw != nil {
			raw = "(Some " + core.CoqBytes(*e.Seen.Raw) + ")"
		}
		st := 1
		if e.Status == "success" {
			st = 0
		}
		return fmt.Sprintf("mkCE %s %s %s %s %s %s (mkSeen %s %s %s %s) %d %s",
			core.CoqBool(e.Identified), core.CoqBool(e.HookOK), core.CoqBool(e.CwdOK), core.CoqBool(e.EnvOK),
			core.CoqList(e.Paths, core.CoqN), core.CoqBool(e.FilesEmpty),
			core.CoqBool(e.Seen.JSON), core.CoqList(e.Seen.Segs, coqSeg), core.CoqBool(e.Seen.Canonical), raw,
			st, core.CoqBool(e.PatchBack))
	}
	held := make([]int, len(co.HeldSizes))
	for i, h := range co.HeldSizes {
		held[i] = max0(h)
		if h < 0 {
			bad = true
		}
	}
	c.Coq = fmt.Sprintf("CConc (mkCI %s %s) (mkCO %s %d %s %s)",
		core.CoqBool(in.Conc.Hold), core.CoqList(tasks, coqTask),
		core.CoqList(co.Execs, coqExec), max0(co.TmpAfter), core.CoqList(held, core.CoqN), core.CoqBool(bad))
	c.JSON = map[string]any{"obs": co, "crash": crash}
	c.Key = fmt.Sprintf("conc/%d/%v/%d/%s", in.Conc.Procs, in.Conc.Hold, in.Conc.Reps, strings.Join(in.Parts, "|"))
	queues := map[int]bool{}
	hooksUsed := map[int]bool{}
	sameHook := false
	perQ := map[int]int{}
	total, biggest := 0, 0
	first := map[int]int{}
	for _, t := range tasks {
		queues[t.Queue] = true
		hooksUsed[t.Hook] = true
		perQ[t.Queue]++
		n := len(renderSegs(t.Segs))
		total += n
		if n > biggest {
			biggest = n
		}
		if perQ[t.Queue] == 1 {
			first[t.Hook]++
			if first[t.Hook] > 1 {
				sameHook = true
			}
		}
	}
	c.Nontrivial = len(queues) >= 2
	c.Tags = []string{"class:conc", fmt.Sprintf("conc-queues:%d", len(queues)), fmt.Sprintf("conc-procs:%d", in.Conc.Procs),
		fmt.Sprintf("conc-hold:%v", in.Conc.Hold), "conc-biggest:" + sizeClass(biggest), fmt.Sprintf("conc-hooks:%d", len(hooksUsed))}
	if sameHook {
		c.Tags = append(c.Tags, "conc-same-hook")
	}
	if hooksUsed[failingHook] {
		c.Tags = append(c.Tags, "conc-failing-hook")
	}
	return c
}

func sizeClass(n int) string {
	switch {
	case n < 100:
		return "<100B"
	case n < 4096:
		return "<4KiB"
	case n < 65536:
		return "<64KiB"
	case n < 262144:
		return "<256KiB"
	}
	return ">=256KiB"
}

// ---- generation ----

// sizes (number of contexts) of very different magnitude: a 1-context schedule document has 62 bytes,
// 5000 contexts about 330 KiB
func genCount(r *core.Rng) int {
	switch x := r.Intn(100); {
	case x < 4:
		return 0
	case x < 40:
		return 1 + r.Intn(3)
	case x < 60:
		return 4 + r.Intn(60)
	case x < 80:
		return 100 + r.Intn(900)
	case x < 93:
		return 1000 + r.Intn(2000)
	}
	return 3000 + r.Intn(3000)
}

func genConc(r *core.Rng, nQueues, rounds int) Input {
	in := Input{Metrics: "empty", Patch: "empty", Admission: "empty", Conversion: "empty",
		Conc: &ConcCfg{Procs: []int{0, 1, 1, 1, 2, 2, 2, 2, 4, 4}[r.Intn(10)], Hold: r.Chance(20)}}
	tag := 1
	// the hook of a queue: the same hook in several queues and different hooks
	qHook := make([]int, nQueues)
	for q := range qHook {
		switch x := r.Intn(10); {
		case x < 5:
			qHook[q] = 1
		case x < 9:
			qHook[q] = 2
		default:
			qHook[q] = failingHook
		}
	}
	for round := 0; round < rounds; round++ {
		for q := 0; q < nQueues; q++ {
			if round > 0 && r.Chance(10) {
				continue // queues of different lengths
			}
			t := ConcTask{Queue: q, Hook: qHook[q]}
			if r.Chance(15) {
				t.Hook = 1 + r.Intn(3)
			}
			nseg := 1
			if r.Chance(25) {
				nseg = 2 + r.Intn(2)
			}
			for k := 0; k < nseg; k++ {
				cnt := genCount(r)
				if nseg > 1 && cnt > 1500 {
					cnt = 1 + cnt%50
				}
				kind := 0
				if r.Chance(25) {
					kind = 1 + r.Intn(2)
				}
				from := 0
				if r.Chance(30) {
					from = r.Intn(1000)
				}
				if cnt > 0 {
					t.Segs = append(t.Segs, Seg{Kind: kind, Tag: tag, From: from, Count: cnt})
				}
				tag++
			}
			in.Parts = append(in.Parts, t.String())
		}
	}
	return in
}

// about 48 executions per case
func repsFor(tasks int) int {
	if tasks < 1 {
		return 1
	}
	n := 48 / tasks
	if n < 1 {
		n = 1
	}
	if n > 24 {
		n = 24
	}
	return n
}

func concCorpus() []Input {
	mk := func(procs int, hold bool, ts ...string) Input {
		return Input{Metrics: "empty", Patch: "empty", Admission: "empty", Conversion: "empty", Conc: &ConcCfg{Procs: procs, Hold: hold}, Parts: ts}
	}
	var ins []Input
	// two queues, one hook, one context each
	ins = append(ins, mk(0, false, "q0 h1 s1:0+1", "q1 h1 s2:0+1"))
	ins = append(ins, mk(0, true, "q0 h1 s1:0+1", "q1 h2 o2:0+1", "q2 h3 g3:0+2"))
	// an empty context list, every kind, a failing hook beside succeeding ones
	ins = append(ins, mk(2, false, "q0 h1", "q1 h2 s2:5+3 o3:0+1 g4:7+2", "q2 h3 s5:0+1", "q0 h1 g6:0+1", "q1 h3"))
	// a large document beside many small ones, the same hook in eight queues (the shape of a burst)
	big := []string{"q0 h1 s1:0+5000", "q0 h1 s2:0+5000"}
	tag := 10
	for round := 0; round < 6; round++ {
		for q := 1; q <= 8; q++ {
			big = append(big, fmt.Sprintf("q%d h2 s%d:0+1", q, tag))
			tag++
		}
	}
	ins = append(ins, mk(0, false, big...), mk(2, false, big...))
	return ins
}

func genConcStream(r *core.Rng, n int, add func(Input, string)) {
	for i := 0; i < n; i++ {
		nq := 2 + r.Intn(11)
		rounds := 2 + r.Intn(5)
		add(genConc(r, nq, rounds), "conc")
	}
}
