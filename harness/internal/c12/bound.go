package c12

// Case class BOUND: WHERE in an output file a malformation sits relative to how the parsers read.
//
// All four output files are read with encoding/json's Decoder, which reads its input in pieces (512 bytes,
// then it doubles its buffer: 512, 1536, 3584 ... bytes read so far).  A file of the class is
//
//	first document ++ tail
//
// with a well-formed first document of a CHOSEN LENGTH (every length around the read boundaries) and a tail:
// nothing, white space, a second document (a second verdict appended with >>), a lone closer, a word - directly
// after the document, after a newline, after 600 blanks.  The scripted hook writes the raw bytes; the run's
// outcome, the effects (metric, patch) and the temp directory are compared with the model (C12_BoundModel: the
// file is ONE byte string there) and judged by C12_BoundSpec.P_bound.  A text is handed to Coq in segments
// (chunk, repetitions), so a 4 KiB document is a small term.

import (
	"fmt"
	"strings"

	"verifharness/internal/core"
)

type BSeg struct {
	S string `json:"s"`
	N int    `json:"n"`
}

type BoundCfg struct {
	File  string `json:"file"`  // metrics admission conversion patch
	Style string `json:"style"` // how the first document is brought to its length: ws string members
	Len   int    `json:"len"`   // length of the first document in bytes
	Tail  string `json:"tail"`  // name of the tail (tag only)
	First []BSeg  `json:"first"`
	Rest  []BSeg  `json:"rest"`
}

func expandSegs(l []BSeg) string {
	var b strings.Builder
	for _, s := range l {
		for i := 0; i < s.N; i++ {
			b.WriteString(s.S)
		}
	}
	return b.String()
}

func (b *BoundCfg) text() string { return expandSegs(b.First) + expandSegs(b.Rest) }

var boundFiles = []string{"metrics", "admission", "conversion", "patch"}
var boundStyles = []string{"ws", "string", "members"}
var boundTails = []string{"none", "nl", "ws", "doc2", "nl-doc2", "closer", "nl-closer", "word", "nl-word", "far-closer", "far-doc2"}

// the model's file numbers (C12_Model.file_*)
var boundFileNo = map[string]int{"metrics": 1, "admission": 2, "conversion": 3, "patch": 4}

// head: the document up to where the padding goes; for each style (open, chunk, close): the document is
// head + open + chunk x k + blanks + close.  Every chunk is one byte (ws, string) or a small member.
type boundShape struct {
	head   string
	styles map[string][3]string
	doc2   string
}

var boundShapes = map[string]boundShape{
	"metrics": {
		head: `{"name":"verif_c12_metric","set":1`,
		styles: map[string][3]string{
			"ws":      {"", " ", "}"},
			"string":  {`,"labels":{"l":"`, "v", `"}}`},
			"members": {"", `,"x":0`, "}"},
		},
		doc2: `{"name":"verif_c12_metric","add":1}`,
	},
	"admission": {
		head: `{"allowed":true`,
		styles: map[string][3]string{
			"ws":      {"", " ", "}"},
			"string":  {`,"message":"`, "m", `"}`},
			"members": {"", `,"x":0`, "}"},
		},
		doc2: `{"allowed":false,"message":"denied"}`,
	},
	"conversion": {
		head: `{"convertedObjects":[]`,
		styles: map[string][3]string{
			"ws":      {"", " ", "}"},
			"string":  {`,"failedMessage":"`, "m", `"}`},
			"members": {"", `,"x":0`, "}"},
		},
		doc2: `{"failedMessage":"no"}`,
	},
	"patch": {
		head: `{"operation":"CreateOrUpdate","object":{"apiVersion":"v1","kind":"ConfigMap","metadata":{"name":"c12","namespace":"default"},"data":{"k":"`,
		styles: map[string][3]string{
			"ws":      {`v"}}`, " ", "}"},
			"string":  {"", "v", `"}}}`},
			"members": {`v"`, `,"x":"v"`, "}}}"},
		},
		doc2: `{"operation":"CreateOrUpdate","object":{"apiVersion":"v1","kind":"ConfigMap","metadata":{"name":"c12","namespace":"default"},"data":{"k":"v"}}}`,
	},
}

// boundFirst builds the first document of exactly n bytes (nil if n is too small for the shape).
func boundFirst(file, style string, n int) []BSeg {
	sh := boundShapes[file]
	st := sh.styles[style]
	fixed := len(sh.head) + len(st[0]) + len(st[2])
	if n < fixed {
		return nil
	}
	k := (n - fixed) / len(st[1])
	blanks := (n - fixed) % len(st[1]) // before the last closer: white space inside the object
	segs := []BSeg{{sh.head + st[0], 1}}
	if k > 0 {
		segs = append(segs, BSeg{st[1], k})
	}
	cl := st[2]
	if blanks > 0 {
		// the blanks go before the LAST byte of the closing part (always a closing brace)
		segs = append(segs, BSeg{cl[:len(cl)-1], 1}, BSeg{" ", blanks}, BSeg{cl[len(cl)-1:], 1})
	} else {
		segs = append(segs, BSeg{cl, 1})
	}
	out := segs[:0]
	for _, s := range segs {
		if s.S != "" && s.N > 0 {
			out = append(out, s)
		}
	}
	return out
}

func boundTail(file, tail string) []BSeg {
	d2 := boundShapes[file].doc2
	switch tail {
	case "nl":
		return []BSeg{{"\n", 1}}
	case "ws":
		return []BSeg{{" \r\n\t", 3}, {"\n", 1}}
	case "doc2":
		return []BSeg{{d2, 1}}
	case "nl-doc2":
		return []BSeg{{"\n" + d2 + "\n", 1}}
	case "closer":
		return []BSeg{{"}", 1}}
	case "nl-closer":
		return []BSeg{{"\n}\n", 1}}
	case "word":
		return []BSeg{{"garbage", 1}}
	case "nl-word":
		return []BSeg{{"\ngarbage\n", 1}}
	case "far-closer":
		return []BSeg{{" ", 600}, {"}", 1}}
	case "far-doc2":
		return []BSeg{{"\n", 1100}, {d2, 1}}
	}
	return nil
}

func boundInput(file, style string, n int, tail string) (Input, bool) {
	first := boundFirst(file, style, n)
	if first == nil {
		return Input{}, false
	}
	in := Input{Exit: 0, Metrics: "empty", Patch: "empty", Admission: "empty", Conversion: "empty", TextFile: file,
		Bound: &BoundCfg{File: file, Style: style, Len: n, Tail: tail, First: first, Rest: boundTail(file, tail)}}
	switch file {
	case "metrics":
		in.Metrics = "text"
	case "admission":
		in.Admission = "text"
	case "conversion":
		in.Conversion = "text"
	case "patch":
		in.Patch = "text"
	}
	return in, true
}

// the lengths of the first document: around what the Decoder has read after its 1st, 2nd, 3rd read (512, 1536,
// 3584) and around the powers of two
func boundLengths() []int {
	var ls []int
	for _, r := range [][2]int{{480, 544}, {1000, 1060}, {1500, 1570}, {2040, 2056}, {3576, 3592}, {4090, 4100}} {
		for n := r[0]; n <= r[1]; n++ {
			ls = append(ls, n)
		}
	}
	return ls
}

// the lengths one byte around a read boundary
var boundCritical = []int{510, 511, 512, 513, 1535, 1536, 1537, 3583, 3584, 3585}

func genBound(r *core.Rng, tier string, add func(Input, string)) {
	put := func(file, style string, n int, tail, stream string) {
		if in, ok := boundInput(file, style, n, tail); ok {
			add(in, stream)
		}
	}
	// fixed corpus: a second verdict appended to a response of exactly one read
	put("admission", "ws", 512, "nl-doc2", "bound-corpus")
	put("admission", "string", 511, "nl-doc2", "bound-corpus")
	put("conversion", "ws", 1536, "doc2", "bound-corpus")
	put("metrics", "members", 512, "closer", "bound-corpus")
	put("patch", "string", 1536, "nl-closer", "bound-corpus")
	put("admission", "ws", 512, "ws", "bound-corpus")
	lengths := boundLengths()
	k := 0
	if tier == "thorough" {
		// every length x file x tail, the styles in rotation
		for _, n := range lengths {
			for _, f := range boundFiles {
				for _, t := range boundTails {
					put(f, boundStyles[k%3], n, t, "bound-systematic")
					k++
				}
			}
		}
	} else {
		// one byte around every read boundary: every file x the tails that matter most, styles in rotation
		for _, n := range boundCritical {
			for _, f := range boundFiles {
				for _, t := range []string{"nl-doc2", "doc2", "closer", "ws"} {
					put(f, boundStyles[k%3], n, t, "bound-systematic")
					k++
				}
			}
		}
		// every tail of the class directly after the first read, for every file (the patch file also after the second)
		for _, t := range boundTails {
			for _, f := range boundFiles {
				put(f, boundStyles[k%3], 512, t, "bound-tails")
				k++
			}
			put("patch", boundStyles[k%3], 1536, t, "bound-tails")
		}
		// every length of the first range (quick: every third of the others), file / style / non-white tail
		// picked by a fixed scramble of the index
		nw := []string{"doc2", "nl-doc2", "closer", "nl-closer", "word", "nl-word", "far-closer", "far-doc2"}
		for i, n := range lengths {
			if tier == "quick" && n > 544 && i%3 != 0 {
				continue
			}
			h := uint32(i+1) * 2654435761
			put(boundFiles[(h>>5)%4], boundStyles[(h>>11)%3], n, nw[(h>>17)%uint32(len(nw))], "bound-lengths")
		}
	}
	nRandom := map[string]int{"quick": 60, "thorough": 6000}[tier]
	if nRandom == 0 {
		nRandom = 1200
	}
	for i := 0; i < nRandom; i++ {
		n := lengths[r.Intn(len(lengths))]
		if r.Chance(20) {
			n = 40 + r.Intn(4200) // any length, also far from a boundary (too short for the shape: the shortest)
		}
		f := boundFiles[r.Intn(4)]
		st := boundStyles[r.Intn(3)]
		in, ok := boundInput(f, st, n, boundTails[r.Intn(len(boundTails))])
		if !ok {
			in, _ = boundInput(f, st, 200, boundTails[r.Intn(len(boundTails))])
		}
		switch r.Intn(16) {
		case 0:
			in.Exit = []int{1, 2, 137}[r.Intn(3)]
		}
		add(in, "bound-random")
	}
}

func coqSegs(l []BSeg) string {
	return core.CoqList(l, func(s BSeg) string { return fmt.Sprintf("(%s, %d)", core.CoqBytes(s.S), s.N) })
}

func (in Input) coqBound() string {
	b := in.Bound
	return fmt.Sprintf("CBound (mkBI %d %s %s %s) (", boundFileNo[b.File], coqSegs(b.First), coqSegs(b.Rest), core.CoqZ(int64(in.Exit)))
}

func boundLenClass(n int) string {
	for _, b := range []int{512, 1536, 3584} {
		switch {
		case n == b:
			return fmt.Sprintf("at-%d", b)
		case n == b-1:
			return fmt.Sprintf("at-%d-minus-1", b)
		case n == b+1:
			return fmt.Sprintf("at-%d-plus-1", b)
		case n > b-40 && n < b+40:
			return fmt.Sprintf("near-%d", b)
		}
	}
	switch {
	case n < 512:
		return "below-512"
	case n < 1536:
		return "512-1536"
	case n < 3584:
		return "1536-3584"
	}
	return "above-3584"
}

func (in Input) boundTags() []string {
	b := in.Bound
	return []string{"class:bound", "bound-file:" + b.File, "bound-style:" + b.Style, "bound-tail:" + b.Tail,
		"bound-len:" + boundLenClass(b.Len), "bound:" + b.File + ":" + b.Tail}
}

func (in Input) boundKey() string {
	b := in.Bound
	return fmt.Sprintf("/bound/%s/%s/%d/%s/%d", b.File, b.Style, b.Len, b.Tail, len(b.text()))
}
