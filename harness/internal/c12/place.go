package c12

// Case class PLACE: "a hook is started IN ITS OWN DIRECTORY" - over HOW the hook file is present in the
// hooks tree.  A case is a small tree of directories, script files and symbolic links below a sandbox
// directory (Input.Parts, one entry per part, applied in order with plain system calls) and the hooks root
// (PlaceCfg.Root, maybe reached through a link).  The hooks are FOUND by the real discovery
// (utils_file.RecursiveGetExecutablePaths, what hook.Manager.Init uses), a hook.Hook is made of every path
// found exactly as Manager.loadHook does (name = path relative to the root, path = the path found) and the
// real Hook.Run is called for each, one after the other.  Every script reports into the file named by
// $VERIF_C12_REPORT: its identity, $0, its physical working directory and what it finds in ./settings.
//
// Canonicalisation: after the parts have been applied the sandbox is SCANNED (Lstat / Readlink, no link is
// followed): directories are numbered in scan order, names densely; that description - not the parts - is
// what goes to the model, so dropping parts (delta debugging) can never make model and disk disagree.  The
// reported working directory is mapped to a directory number by os.SameFile against the scanned directories
// (device and inode, so the spelling of the path - through a link or not - does not matter), $0 to names
// below the sandbox.

import (
	"fmt"
	"os"
	"path/filepath"
	"sort"
	"strconv"
	"strings"
	"time"

	"github.com/deckhouse/deckhouse/pkg/log"

	"github.com/flant/shell-operator/pkg/hook"
	bctx "github.com/flant/shell-operator/pkg/hook/binding_context"
	"github.com/flant/shell-operator/pkg/hook/config"
	"github.com/flant/shell-operator/pkg/hook/controller"
	htypes "github.com/flant/shell-operator/pkg/hook/types"
	utils_file "github.com/flant/shell-operator/pkg/utils/file"

	"verifharness/internal/core"
)

// PlaceCfg marks a case of the class.  The tree is Input.Parts:
//
//	d <path>               a directory (parents are made as needed)
//	f <path> <id> <x|->    a script file with content number id, executable or not (parents made as needed)
//	l <path> <target>      a symbolic link; a target starting with "/" is absolute below the sandbox
//
// paths are relative to the sandbox, "/"-separated.
type PlaceCfg struct {
	Root   string `json:"root"`             // the hooks root, relative to the sandbox (WorkingDir = sandbox/Root, not resolved)
	Layout string `json:"layout,omitempty"` // tag only
}

// PNode: one entry of a scanned directory
type PNode struct {
	Dir    int    `json:"dir"`
	Name   string `json:"name"`
	Kind   string `json:"kind"` // file dir link
	Exec   bool   `json:"exec,omitempty"`
	Id     int    `json:"id,omitempty"`     // file: content number (0: not a file of the case)
	Sub    int    `json:"sub,omitempty"`    // dir: its number
	Target string `json:"target,omitempty"` // link: as read by readlink, the sandbox prefix of an absolute target replaced by "/"
}

type PlaceHook struct {
	Rel      string `json:"rel"` // hook name = path relative to the hooks root
	Started  bool   `json:"started"`
	Argv0    string `json:"argv0,omitempty"` // $0, the sandbox prefix removed ("" with ArgvOut: not below the sandbox)
	ArgvOut  bool   `json:"argv_out,omitempty"`
	Program  int    `json:"program,omitempty"`
	Cwd      int    `json:"cwd"`                // directory number, 999: none of the scanned directories
	CwdPath  string `json:"cwd_path,omitempty"` // as reported, the sandbox prefix removed (for the reader; not compared)
	Settings int    `json:"settings"`           // -1: no ./settings
	Failed   bool   `json:"failed"`
	Err      string `json:"err,omitempty"`
	TmpAfter int    `json:"tmp_after"`
	EntryDir int    `json:"entry_dir"` // number of the directory holding the entry (os.Stat of the directory part; for the tags only)
}

type PlaceObs struct {
	Nodes   []PNode     `json:"nodes"`
	Parents [][2]int    `json:"parents"` // directory -> parent
	Hooks   []PlaceHook `json:"hooks"`
	Via     string      `json:"via,omitempty"`      // manager: hook.Manager.Init loaded the hooks; direct: see runPlace
	InitErr string      `json:"init_err,omitempty"` // why Manager.Init gave up (for the reader; not compared)
	Note    string      `json:"note,omitempty"`
}

const settingsName = "settings"

func scriptText(id int) string {
	return "#!/bin/sh\n# id=" + strconv.Itoa(id) + "\n" +
		"if [ \"$1\" = \"--config\" ]; then echo '{\"configVersion\":\"v1\",\"onStartup\":1}'; exit 0; fi\n" +
		"s=-\n" +
		"if [ -f ./settings ]; then { read -r l1; read -r l2; } < ./settings; s=${l2#\"# id=\"}; fi\n" +
		"printf 'id=%s\\nargv0=%s\\ncwd=%s\\nsettings=%s\\n' " + strconv.Itoa(id) + " \"$0\" \"$(pwd -P)\" \"$s\" > \"$VERIF_C12_REPORT\"\n"
}

var idLine = "# id="

func fileID(p string) int {
	b, err := os.ReadFile(p)
	if err != nil {
		return 0
	}
	ls := strings.SplitN(string(b), "\n", 3)
	if len(ls) < 2 || !strings.HasPrefix(ls[1], idLine) {
		return 0
	}
	n, _ := strconv.Atoi(strings.TrimPrefix(ls[1], idLine))
	return n
}

// applyParts builds the tree; errors are ignored (a part may refer to what a dropped part would have made)
func applyParts(sandbox string, parts []string) {
	for _, p := range parts {
		f := strings.Fields(p)
		if len(f) < 2 {
			continue
		}
		path := filepath.Join(sandbox, filepath.FromSlash(f[1]))
		if !strings.HasPrefix(path, sandbox+string(filepath.Separator)) {
			continue
		}
		switch f[0] {
		case "d":
			os.MkdirAll(path, 0o755)
		case "f":
			if len(f) < 4 {
				continue
			}
			id, _ := strconv.Atoi(f[2])
			os.MkdirAll(filepath.Dir(path), 0o755)
			mode := os.FileMode(0o644)
			if f[3] == "x" {
				mode = 0o755
			}
			if _, err := os.Lstat(path); err == nil {
				continue // never write through an existing link
			}
			os.WriteFile(path, []byte(scriptText(id)), mode)
		case "l":
			if len(f) < 3 {
				continue
			}
			os.MkdirAll(filepath.Dir(path), 0o755)
			t := f[2]
			if strings.HasPrefix(t, "/") {
				t = sandbox + t
			}
			os.Symlink(t, path)
		}
	}
}

type scanned struct {
	nodes   []PNode
	parents [][2]int
	dirs    []string // number -> physical path
	infos   []os.FileInfo
	note    string
}

func scan(sandbox string) *scanned {
	sc := &scanned{}
	fi, err := os.Lstat(sandbox)
	if err != nil {
		sc.note = err.Error()
		return sc
	}
	sc.dirs, sc.infos = []string{sandbox}, []os.FileInfo{fi}
	sc.parents = append(sc.parents, [2]int{0, 0})
	for d := 0; d < len(sc.dirs); d++ {
		ents, err := os.ReadDir(sc.dirs[d])
		if err != nil {
			sc.note = err.Error()
			return sc
		}
		for _, e := range ents {
			p := filepath.Join(sc.dirs[d], e.Name())
			info, err := os.Lstat(p)
			if err != nil {
				sc.note = err.Error()
				return sc
			}
			n := PNode{Dir: d, Name: e.Name()}
			switch {
			case info.Mode()&os.ModeSymlink != 0:
				t, _ := os.Readlink(p)
				if strings.HasPrefix(t, sandbox+"/") || t == sandbox {
					t = "/" + strings.TrimPrefix(strings.TrimPrefix(t, sandbox), "/")
				} else if strings.HasPrefix(t, "/") {
					sc.note = "a link out of the sandbox: " + t
				}
				n.Kind, n.Target = "link", t
			case info.IsDir():
				n.Kind, n.Sub = "dir", len(sc.dirs)
				sc.parents = append(sc.parents, [2]int{len(sc.dirs), d})
				sc.dirs = append(sc.dirs, p)
				sc.infos = append(sc.infos, info)
			default:
				n.Kind, n.Exec, n.Id = "file", info.Mode()&0o111 != 0, fileID(p)
			}
			sc.nodes = append(sc.nodes, n)
		}
	}
	return sc
}

func (sc *scanned) dirNumber(p string) int {
	fi, err := os.Stat(p)
	if err != nil {
		return 999
	}
	for d, info := range sc.infos {
		if os.SameFile(fi, info) {
			return d
		}
	}
	return 999
}

func parseReport(b []byte) map[string]string {
	m := map[string]string{}
	for _, l := range strings.Split(string(b), "\n") {
		if i := strings.IndexByte(l, '='); i > 0 {
			m[l[:i]] = l[i+1:]
		}
	}
	return m
}

func runPlace(in Input) *PlaceObs {
	o := &PlaceObs{}
	base, err := os.MkdirTemp("", "c12place")
	if err != nil {
		o.Note = err.Error()
		return o
	}
	defer os.RemoveAll(base)
	if b, err := filepath.EvalSymlinks(base); err == nil {
		base = b
	}
	sandbox, tmpDir, repDir := filepath.Join(base, "sb"), filepath.Join(base, "tmp"), filepath.Join(base, "rep")
	for _, d := range []string{sandbox, tmpDir, repDir} {
		os.Mkdir(d, 0o755)
	}
	applyParts(sandbox, in.Parts)
	sc := scan(sandbox)
	o.Nodes, o.Parents, o.Note = sc.nodes, sc.parents, sc.note
	if o.Note != "" {
		return o
	}
	for _, v := range contractVars {
		os.Unsetenv(v)
	}
	defer os.Unsetenv("VERIF_C12_REPORT")

	// the hook manager's WorkingDir: an absolute, cleaned path (utils.RequireExistingDirectory), not resolved
	root := filepath.Join(sandbox, filepath.FromSlash(in.Place.Root))
	// the real hook manager finds and loads the hooks (every script answers --config); when that fails - Init
	// gives up at the first entry it cannot run: a dangling link, a link to a directory - the hooks are found by
	// the discovery function Init uses and made as Manager.loadHook makes them
	var hooks []*hook.Hook
	hm := hook.NewHookManager(&hook.ManagerConfig{WorkingDir: root, TempDir: tmpDir, Logger: log.NewNop()})
	if err := hm.Init(); err == nil {
		o.Via = "manager"
		for _, n := range hm.GetHookNames() {
			hooks = append(hooks, hm.GetHook(n))
		}
	} else {
		o.Via = "direct"
		o.InitErr = strings.ReplaceAll(err.Error(), base, "")
		paths, err := utils_file.RecursiveGetExecutablePaths(root)
		if err != nil {
			return o // no hooks root: nothing is run
		}
		sort.Strings(paths)
		for _, p := range paths {
			name, err := filepath.Rel(root, p)
			if err != nil || name == "." || strings.HasPrefix(name, "..") {
				continue // the root itself is not a directory
			}
			h := hook.NewHook(name, p, false, false, "", log.NewNop())
			h.Config = &config.HookConfig{Version: "v1"}
			h.WithHookController(controller.NewHookController())
			h.WithTmpDir(tmpDir)
			hooks = append(hooks, h)
		}
	}
	for k, h := range hooks {
		name, p := h.Name, h.Path
		rep := filepath.Join(repDir, fmt.Sprintf("r%d", k))
		os.Setenv("VERIF_C12_REPORT", rep)
		_, rerr := h.Run(htypes.OnStartup, []bctx.BindingContext{}, map[string]string{})
		// ETXTBSY: some other goroutine of this process forked while a script of the case was open for writing
		// (the well-known fork/exec race of multi-threaded programs); that is not an answer, ask again
		for try := 0; try < 5 && rerr != nil && strings.Contains(rerr.Error(), "text file busy"); try++ {
			time.Sleep(time.Millisecond)
			_, rerr = h.Run(htypes.OnStartup, []bctx.BindingContext{}, map[string]string{})
		}
		ph := PlaceHook{Rel: filepath.ToSlash(name), Settings: -1, Cwd: 999, Failed: rerr != nil, TmpAfter: countFiles(tmpDir), EntryDir: sc.dirNumber(filepath.Dir(p))}
		if rerr != nil {
			ph.Err = strings.ReplaceAll(rerr.Error(), base, "")
		}
		if b, err := os.ReadFile(rep); err == nil {
			m := parseReport(b)
			ph.Started = true
			ph.Program, _ = strconv.Atoi(m["id"])
			if a := m["argv0"]; strings.HasPrefix(a, sandbox+"/") {
				ph.Argv0 = strings.TrimPrefix(a, sandbox+"/")
			} else {
				ph.ArgvOut = true
			}
			ph.Cwd = sc.dirNumber(m["cwd"])
			ph.CwdPath = strings.TrimPrefix(m["cwd"], sandbox)
			if s := m["settings"]; s != "-" && s != "" {
				if n, err := strconv.Atoi(s); err == nil {
					ph.Settings = n
				} else {
					ph.Settings = 0
				}
			}
		}
		o.Hooks = append(o.Hooks, ph)
	}
	return o
}

// ---- rendering ----

type nameTable struct {
	ids map[string]int
}

func (t *nameTable) id(n string) int {
	if v, ok := t.ids[n]; ok {
		return v
	}
	v := len(t.ids)
	t.ids[n] = v
	return v
}

func (t *nameTable) path(p string) string {
	var ns []string
	for _, c := range strings.Split(p, "/") {
		if c == "" || c == "." {
			continue
		}
		ns = append(ns, strconv.Itoa(t.id(c)))
	}
	return "[" + strings.Join(ns, "; ") + "]"
}

func (t *nameTable) comps(target string) string {
	var cs []string
	for _, c := range strings.Split(target, "/") {
		switch c {
		case "", ".":
		case "..":
			cs = append(cs, "CUp")
		default:
			cs = append(cs, fmt.Sprintf("CName %d", t.id(c)))
		}
	}
	return "[" + strings.Join(cs, "; ") + "]"
}

func renderPlace(in Input, obs *Obs, crash string) core.Case {
	c := core.Case{}
	var po PlaceObs
	if obs != nil && obs.Place != nil {
		po = *obs.Place
	}
	bad := crash != "" || po.Note != "" || obs == nil || obs.Place == nil
	t := &nameTable{ids: map[string]int{}}
	settings := t.id(settingsName)
	var ents []string
	for _, n := range po.Nodes {
		var node string
		switch n.Kind {
		case "dir":
			node = fmt.Sprintf("TDir %d", n.Sub)
		case "link":
			node = fmt.Sprintf("TLink %s %s", core.CoqBool(strings.HasPrefix(n.Target, "/")), t.comps(n.Target))
		default:
			node = fmt.Sprintf("TFile %s %d", core.CoqBool(n.Exec), n.Id)
		}
		ents = append(ents, fmt.Sprintf("(%d, %d, %s)", n.Dir, t.id(n.Name), node))
	}
	var pars []string
	for _, p := range po.Parents {
		pars = append(pars, fmt.Sprintf("(%d, %d)", p[0], p[1]))
	}
	coqHook := func(h PlaceHook) string {
		st := "None"
		if h.Settings >= 0 {
			st = fmt.Sprintf("(Some %d)", h.Settings)
		}
		argv := "[]"
		if !h.ArgvOut && h.Started {
			argv = t.path(h.Argv0)
		}
		return fmt.Sprintf("mkPO %s %s %s %d %d %s %s %d", t.path(h.Rel), core.CoqBool(h.Started), argv, h.Program, h.Cwd, st,
			core.CoqBool(h.Failed), max0(h.TmpAfter))
	}
	c.Coq = fmt.Sprintf("CPlace (mkPI (mkT [%s] [%s]) %s %d) %s %s", strings.Join(ents, "; "), strings.Join(pars, "; "),
		t.path(in.Place.Root), settings, core.CoqList(po.Hooks, coqHook), core.CoqBool(bad))
	c.JSON = map[string]any{"obs": po, "crash": crash}
	c.Key = "place/" + in.Place.Root + "/" + strings.Join(in.Parts, "|")
	c.Nontrivial = len(po.Hooks) > 0
	c.Tags = placeTags(in, po)
	return c
}

// tags from what was scanned and found: how each hook is present in the tree
func placeTags(in Input, po PlaceObs) []string {
	tags := []string{"class:place", fmt.Sprintf("place-hooks:%d", min(len(po.Hooks), 4)), "place-via:" + po.Via}
	if in.Place.Layout != "" {
		tags = append(tags, "place-layout:"+in.Place.Layout)
	}
	if strings.Contains(in.Place.Root, "/") {
		tags = append(tags, "place-root:through-link")
	} else {
		tags = append(tags, "place-root:plain")
	}
	seen := map[string]bool{}
	add := func(t string) {
		if !seen[t] {
			seen[t] = true
			tags = append(tags, t)
		}
	}
	links := 0
	for _, n := range po.Nodes {
		if n.Kind == "link" {
			links++
		}
	}
	add(fmt.Sprintf("place-links:%d", min(links, 5)))
	for _, h := range po.Hooks {
		if h.Started {
			add("place-started")
			if h.Settings >= 0 {
				add("place-settings:seen")
			} else {
				add("place-settings:none")
			}
		} else {
			add("place-not-started")
		}
		// the entry of the hook: the scanned node whose name is the last name of the hook
		base := h.Rel[strings.LastIndexByte(h.Rel, '/')+1:]
		for _, n := range po.Nodes {
			if n.Name != base || n.Dir != h.EntryDir {
				continue
			}
			switch {
			case n.Kind == "file":
				add("place-entry:regular")
			case n.Kind == "link" && strings.HasPrefix(n.Target, "/"):
				add("place-entry:link-abs")
			case n.Kind == "link":
				add("place-entry:link-rel")
			}
		}
	}
	return tags
}

// ---------------------------------------------------------------- generators

type treeB struct {
	parts []string
	phys  string // physical directory (relative to the sandbox) holding "hooks": "" or "real"
	root  string // the hooks root as the hook manager gets it: "hooks" or "mnt/hooks"
	next  int
}

// through: the hooks root is reached through a link (mnt -> real, root = mnt/hooks, physically real/hooks)
func newTree(through bool) *treeB {
	b := &treeB{root: "hooks", next: 1}
	if through {
		b.phys, b.root = "real", "mnt/hooks"
		b.parts = append(b.parts, "d real/hooks", "l mnt real")
	} else {
		b.parts = append(b.parts, "d hooks")
	}
	return b
}

// physical path (relative to the sandbox) of a path given relative to the directory that holds "hooks"
func (b *treeB) p(rel string) string {
	if b.phys == "" {
		return rel
	}
	return b.phys + "/" + rel
}

func (b *treeB) id() int { b.next++; return b.next - 1 }

func (b *treeB) dir(rel string) { b.parts = append(b.parts, "d "+b.p(rel)) }
func (b *treeB) file(rel string, exec bool) int {
	id := b.id()
	x := "-"
	if exec {
		x = "x"
	}
	b.parts = append(b.parts, fmt.Sprintf("f %s %d %s", b.p(rel), id, x))
	return id
}
func (b *treeB) settings(dir string) { b.file(dir+"/settings", false) }

// link at rel to target (both relative to the directory holding "hooks"); abs: an absolute target
func (b *treeB) link(rel, target string, abs bool) {
	if abs {
		b.parts = append(b.parts, fmt.Sprintf("l %s /%s", b.p(rel), b.p(target)))
		return
	}
	t, err := filepath.Rel(filepath.Dir("/"+b.p(rel)), "/"+b.p(target))
	if err != nil {
		t = target
	}
	b.parts = append(b.parts, fmt.Sprintf("l %s %s", b.p(rel), filepath.ToSlash(t)))
}
func (b *treeB) rawLink(rel, text string) {
	b.parts = append(b.parts, fmt.Sprintf("l %s %s", b.p(rel), text))
}

func (b *treeB) input(layout string) Input {
	in := emptyInput()
	in.Parts = b.parts
	in.Place = &PlaceCfg{Root: b.root, Layout: layout}
	return in
}

// the layouts, each for a plain hooks root and one reached through a link, link targets relative and absolute
func placeSystematic() []Input {
	var ins []Input
	for _, through := range []bool{false, true} {
		for _, abs := range []bool{false, true} {
			mk := func(layout string, f func(b *treeB)) {
				b := newTree(through)
				f(b)
				ins = append(ins, b.input(layout))
			}
			if !abs {
				mk("regular", func(b *treeB) {
					b.file("hooks/010-a/hook.sh", true)
					b.settings("hooks/010-a")
					b.file("hooks/020-b/sub/run", true)
					b.settings("hooks/020-b")
					b.file("hooks/top.sh", true)
				})
				mk("same-dir", func(b *treeB) {
					b.file("hooks/010-a/.impl", true)
					b.rawLink("hooks/010-a/hook.sh", ".impl")
					b.settings("hooks/010-a")
				})
				mk("configmap", func(b *treeB) { // a ConfigMap volume: every visible name is a link through ..data
					b.file("hooks/040-cm/..2026_10_01/hook.sh", true)
					b.file("hooks/040-cm/..2026_10_01/settings", false)
					b.rawLink("hooks/040-cm/..data", "..2026_10_01")
					b.rawLink("hooks/040-cm/hook.sh", "..data/hook.sh")
					b.rawLink("hooks/040-cm/settings", "..data/settings")
				})
				mk("configmap-own-settings", func(b *treeB) {
					b.file("hooks/040-cm/..2026_10_01/hook.sh", true)
					b.file("hooks/040-cm/..2026_10_01/settings", false)
					b.rawLink("hooks/040-cm/..data", "..2026_10_01")
					b.rawLink("hooks/040-cm/hook.sh", "..data/hook.sh")
					b.settings("hooks/040-cm")
				})
				mk("dangling", func(b *treeB) {
					b.rawLink("hooks/010-a/hook.sh", "../../shared/gone.sh")
					b.file("hooks/020-b/hook.sh", true)
				})
				mk("loop", func(b *treeB) {
					b.rawLink("hooks/010-a/hook.sh", "other")
					b.rawLink("hooks/010-a/other", "hook.sh")
				})
				if !through {
					// the hooks root itself a link to a directory: filepath.Walk does not descend, no hook is found
					// (hook loading, not the execution contract: recorded so that the evidence shows it, nothing is run)
					ins = append(ins, Input{Metrics: "empty", Patch: "empty", Admission: "empty", Conversion: "empty",
						Parts: []string{"f real-hooks/010-a/hook.sh 1 x", "l hooks real-hooks"}, Place: &PlaceCfg{Root: "hooks", Layout: "root-is-link"}})
				}
				mk("dir-link-in-tree", func(b *treeB) { // filepath.Walk takes a link to a directory for a file
					b.file("shared/hooks-x/hook.sh", true)
					b.link("hooks/050-d", "shared/hooks-x", false)
					b.file("hooks/010-a/hook.sh", true)
				})
			}
			mk("outside", func(b *treeB) {
				b.file("shared/report.sh", true)
				b.settings("shared")
				b.link("hooks/010-a/hook.sh", "shared/report.sh", abs)
				b.settings("hooks/010-a")
			})
			mk("outside-no-own-settings", func(b *treeB) {
				b.file("shared/report.sh", true)
				b.settings("shared")
				b.link("hooks/010-a/hook.sh", "shared/report.sh", abs)
			})
			mk("inside", func(b *treeB) {
				b.file("hooks/020-b/impl.sh", true)
				b.settings("hooks/020-b")
				b.link("hooks/010-a/hook.sh", "hooks/020-b/impl.sh", abs)
				b.settings("hooks/010-a")
			})
			mk("lib", func(b *treeB) {
				b.file("hooks/lib/common.sh", true)
				b.settings("hooks/lib")
				b.link("hooks/010-a/hook.sh", "hooks/lib/common.sh", abs)
				b.settings("hooks/010-a")
			})
			mk("shared", func(b *treeB) { // the seeded change's demonstration, and a third hook deeper in the tree
				b.file("shared/report.sh", true)
				b.link("hooks/010-first/hook.sh", "shared/report.sh", abs)
				b.settings("hooks/010-first")
				b.link("hooks/020-second/hook.sh", "shared/report.sh", !abs)
				b.settings("hooks/020-second")
				b.link("hooks/030-third/sub/hook.sh", "shared/report.sh", abs)
				b.settings("hooks/030-third/sub")
				b.settings("hooks/030-third")
			})
			mk("chain", func(b *treeB) {
				b.file("opt/scripts/real.sh", true)
				b.settings("opt/scripts")
				b.link("shared/step2", "opt/scripts/real.sh", !abs)
				b.settings("shared")
				b.link("hooks/020-b/step1", "shared/step2", abs)
				b.settings("hooks/020-b")
				b.link("hooks/010-a/hook.sh", "hooks/020-b/step1", abs)
				b.settings("hooks/010-a")
			})
			mk("via-dir-link", func(b *treeB) { // the target's path goes through a link to a directory
				b.file("opt/scripts/real.sh", true)
				b.settings("opt/scripts")
				b.link("current", "opt/scripts", false)
				b.link("hooks/010-a/hook.sh", "current/real.sh", abs)
				b.settings("hooks/010-a")
			})
			mk("not-executable", func(b *treeB) {
				b.file("shared/report.sh", false)
				b.link("hooks/010-a/hook.sh", "shared/report.sh", abs)
				b.file("hooks/020-b/hook.sh", true)
			})
			mk("to-directory", func(b *treeB) {
				b.dir("shared/d")
				b.link("hooks/010-a/hook.sh", "shared/d", abs)
			})
		}
	}
	return ins
}

// a random tree: some hook directories (also nested), some directories outside the tree, scripts anywhere,
// entries that are regular files or links (relative / absolute) to scripts or to earlier links, settings
// files here and there, now and then something that cannot be started
func genPlaceCase(r *core.Rng) Input {
	b := newTree(r.Chance(35))
	hookDirs := []string{"hooks/010-a", "hooks/020-b", "hooks/030-c/sub", "hooks/030-c", "hooks", "hooks/040-d/x/y"}
	outDirs := []string{"shared", "opt/scripts", "hooks/lib", "hooks/.hidden"}
	for i := len(hookDirs) - 1; i > 0; i-- {
		j := r.Intn(i + 1)
		hookDirs[i], hookDirs[j] = hookDirs[j], hookDirs[i]
	}
	nHook := 1 + r.Intn(4)
	var targets []string // what a link may point to: scripts, then links
	nScripts := 1 + r.Intn(3)
	for i := 0; i < nScripts; i++ {
		d := outDirs[r.Intn(len(outDirs))]
		if r.Chance(25) {
			d = hookDirs[r.Intn(len(hookDirs))]
		}
		p := fmt.Sprintf("%s/s%d.sh", d, i)
		b.file(p, !r.Chance(6))
		targets = append(targets, p)
		if r.Chance(60) {
			b.settings(d)
		}
	}
	if r.Chance(25) { // a link to a directory of scripts
		b.link("current", filepath.Dir(targets[0]), r.Chance(50))
		targets = append(targets, "current/"+filepath.Base(targets[0]))
	}
	names := []string{"hook.sh", "run", "010-hook", "h.py"}
	for i := 0; i < nHook; i++ {
		d := hookDirs[i]
		n := names[r.Intn(len(names))]
		switch x := r.Intn(20); {
		case x < 4:
			b.file(d+"/"+n, true)
		case x == 4:
			b.rawLink(d+"/"+n, "../nowhere/x.sh")
		case x == 5:
			b.link(d+"/"+n, "shared", r.Chance(50))
			b.dir("shared")
		default:
			b.link(d+"/"+n, targets[r.Intn(len(targets))], r.Chance(45))
			if r.Chance(40) { // later links may point to this one: chains
				targets = append(targets, d+"/"+n)
			}
		}
		if r.Chance(70) {
			b.settings(d)
		} else if r.Chance(30) {
			b.link(d+"/settings", targets[0], r.Chance(50)) // ./settings itself a link to a file with another content
		}
	}
	return b.input("random")
}

// small scope, exhaustive: hooks root plain / through a link x depth of the hook directory (the root itself,
// one, two levels) x what the entry is (regular, link to: the same directory, a sibling hook directory, lib,
// outside, outside through a link to a directory, a chain of two, a chain of three) x relative / absolute
// target x ./settings of the own directory (none, regular, a link to another file) x settings beside the
// target (none, regular)
func placeExhaustive() []Input {
	var ins []Input
	hookDirs := []string{"hooks", "hooks/010-a", "hooks/030-c/sub"}
	entries := []string{"regular", "same-dir", "sibling", "lib", "outside", "via-dir-link", "chain2", "chain3"}
	for _, through := range []bool{false, true} {
		for _, hd := range hookDirs {
			for _, e := range entries {
				for _, abs := range []bool{false, true} {
					if e == "regular" && abs {
						continue
					}
					for own := 0; own < 3; own++ {
						for tset := 0; tset < 2; tset++ {
							b := newTree(through)
							b.file("misc/other-settings", false)
							td := map[string]string{"regular": hd, "same-dir": hd, "sibling": "hooks/020-b", "lib": "hooks/lib",
								"outside": "shared", "via-dir-link": "opt/scripts", "chain2": "opt/scripts", "chain3": "opt/scripts"}[e]
							switch e {
							case "regular":
								b.file(hd+"/hook.sh", true)
							case "same-dir":
								b.file(hd+"/.impl.sh", true)
								b.link(hd+"/hook.sh", hd+"/.impl.sh", abs)
							case "via-dir-link":
								b.file(td+"/real.sh", true)
								b.link("current", td, !abs)
								b.link(hd+"/hook.sh", "current/real.sh", abs)
							case "chain2", "chain3":
								b.file(td+"/real.sh", true)
								b.link("shared/step", td+"/real.sh", !abs)
								b.settings("shared")
								if e == "chain3" {
									b.link("hooks/lib/step0", "shared/step", abs)
									b.link(hd+"/hook.sh", "hooks/lib/step0", abs)
								} else {
									b.link(hd+"/hook.sh", "shared/step", abs)
								}
							default:
								b.file(td+"/impl.sh", true)
								b.link(hd+"/hook.sh", td+"/impl.sh", abs)
							}
							if tset == 1 && td != hd {
								b.settings(td)
							}
							switch own {
							case 1:
								b.settings(hd)
							case 2:
								b.link(hd+"/settings", "misc/other-settings", abs)
							}
							ins = append(ins, b.input("x-"+e))
						}
					}
				}
			}
		}
	}
	return ins
}
