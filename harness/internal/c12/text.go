package c12

// Text generator for the three JSON output files of a hook (metrics, admission response,
// conversion response): documents are built as member lists, rendered with varied
// whitespace, and then broken by a mutation grammar.  The text of a case is kept as a
// list of parts (documents, separators, stray bytes) so that delta debugging can drop
// parts.  Only valid UTF-8 is produced (file contents travel through JSON to the hook
// stub); numbers stay within exponent-free or two-digit-exponent literals.

import (
	"strings"

	"verifharness/internal/core"
)

type member struct {
	K string // key as it stands between the quotes (already escaped)
	V string // value text
}
type doc []member

const probe = "verif_c12_metric"

var (
	metricNames = []string{probe, probe, "verif_c12_other", "verif_c12_b"}
	groups      = []string{"g1", "g2"}
	labelKeys   = []string{"l", "kind", "a_b", "L9"}
	// string bodies (escaped JSON): plain, UTF-8, escapes, \u escapes, a surrogate pair
	strBodies = []string{"v", "value1", "é", `a\"b`, `\u00e9`, `x\\y`, `t\tb`, "😀", `\ud83d\ude00`, `\ud83d`, `sl\/ash`, "", `\u0041`, "日本", `\b\f\n\r`}
	numsAny   = []string{"0", "1", "33", "-1", "2.5", "1e2", "1E+2", "0.5e-1", "-0", "42", "100", "1.25E-10", "7e10"}
	numsPos   = []string{"0", "1", "33", "2.5", "1e2", "1E+2", "0.5e-1", "42"}
	wsChoices = []string{"", "", "", " ", "\n", "\t", "  ", "\r\n"}
	seps      = []string{"\n", "\n", " ", "", "\n\n", "\r\n", "\t"}
)

func pick(r *core.Rng, xs []string) string { return xs[r.Intn(len(xs))] }

func q(body string) string { return `"` + body + `"` }

func genLabels(r *core.Rng) string {
	n := r.Intn(3)
	var ms doc
	used := map[string]bool{}
	for i := 0; i < n; i++ {
		k := pick(r, labelKeys)
		if used[k] {
			continue
		}
		used[k] = true
		ms = append(ms, member{k, q(pick(r, strBodies))})
	}
	return renderDoc(r, ms, r.Chance(30))
}

func shuffle(r *core.Rng, d doc) doc {
	for i := len(d) - 1; i > 0; i-- {
		j := r.Intn(i + 1)
		d[i], d[j] = d[j], d[i]
	}
	return d
}

// one valid metric operation (a documented form)
func genMetricDoc(r *core.Rng) doc {
	var d doc
	name := pick(r, metricNames)
	switch r.Intn(10) {
	case 0, 1, 2: // shortcut
		if r.Bool() {
			d = doc{{"name", q(name)}, {"set", pick(r, numsAny)}}
		} else {
			d = doc{{"name", q(name)}, {"add", pick(r, numsPos)}}
		}
	case 3, 4, 5: // explicit
		if r.Bool() {
			d = doc{{"name", q(name)}, {"action", q("set")}, {"value", pick(r, numsAny)}}
		} else {
			d = doc{{"name", q(name)}, {"action", q("add")}, {"value", pick(r, numsPos)}}
		}
	case 6: // histogram (for the probe name the model answers TMaybe: what prometheus makes of the buckets is not modelled)
		d = doc{{"name", q(name)}, {"action", q("observe")}, {"value", pick(r, numsPos)}, {"buckets", pick(r, []string{"[1,2,5,10]", "[]", "[0.5, 1e1]", "[ 1 ,2 ]"})}}
	case 7, 8: // grouped
		d = doc{{"group", q(pick(r, groups))}, {"name", q(name)}, {"action", q(pick(r, []string{"add", "set"}))}, {"value", pick(r, numsPos)}}
	case 9:
		d = doc{{"group", q(pick(r, groups))}, {"action", q("expire")}}
		if r.Chance(30) {
			d = append(d, member{"name", q(name)})
		}
	}
	if r.Chance(55) && d[len(d)-1].V != q("expire") {
		d = append(d, member{"labels", genLabels(r)})
	}
	if r.Chance(12) {
		d = append(d, member{pick(r, []string{"extra", "x", "comment", "names", "sett"}), pick(r, []string{`{"a":[1,2,{"b":null}]}`, "true", `"s"`, "[]", "null", "1.5"})})
	}
	if r.Chance(50) {
		d = shuffle(r, d)
	}
	return d
}

func genAdmissionDoc(r *core.Rng) doc {
	d := doc{{"allowed", pick(r, []string{"true", "false"})}}
	if r.Chance(50) {
		d = append(d, member{"message", q(pick(r, strBodies))})
	}
	if r.Chance(40) {
		d = append(d, member{"warnings", pick(r, []string{`[]`, `["w1"]`, `["w1", "é\n"]`, `[ "a" ,"b","c" ]`})})
	}
	if r.Chance(10) {
		d = append(d, member{"extra", pick(r, []string{"1", `{"a":null}`, `"s"`})})
	}
	if r.Chance(40) {
		d = shuffle(r, d)
	}
	return d
}

func genConversionDoc(r *core.Rng) doc {
	var d doc
	if r.Chance(35) {
		d = append(d, member{"failedMessage", q(pick(r, strBodies))})
	}
	if r.Chance(75) {
		d = append(d, member{"convertedObjects", pick(r, []string{`[]`, `[{"apiVersion":"v2","kind":"K","metadata":{"name":"n"}}]`, `[{"a":1}, {"b":[true,null]}]`, `[1,"a",null,{}]`})})
	}
	if r.Chance(10) {
		d = append(d, member{"extra", "1"})
	}
	return d
}

// rendering with whitespace variation
func renderDoc(r *core.Rng, d doc, spaced bool) string {
	w := func() string {
		if spaced {
			return pick(r, wsChoices)
		}
		return ""
	}
	var b strings.Builder
	b.WriteString("{" + w())
	for i, m := range d {
		if i > 0 {
			b.WriteString(w() + "," + w())
		}
		b.WriteString(q(m.K) + w() + ":" + w() + m.V)
	}
	b.WriteString(w() + "}")
	return b.String()
}

// ---------------------------------------------------------------- mutations

// MutKinds lists every mutation kind (the fixed corpus holds one text per kind and file).
var MutKinds = []string{
	"valid", "trunc", "del-struct", "ins-struct", "dup-struct", "stray-closer", "stray-opener", "stray-sep",
	"swap-type", "garbage-after", "ws-only", "only-closer", "ctrl-in-string", "bad-escape", "bad-number",
	"case-keys", "unknown-keys", "null-values", "dup-keys", "bad-rules", "non-object",
}

const structural = "{}[],:\""

func structPositions(s string) []int {
	var ps []int
	for i := 0; i < len(s); i++ {
		if strings.IndexByte(structural, s[i]) >= 0 {
			ps = append(ps, i)
		}
	}
	return ps
}

// a string value position inside a document text: index just after an opening quote of a VALUE
func valueStringPositions(s string) []int {
	var ps []int
	for i := 0; i+1 < len(s); i++ {
		if s[i] == ':' {
			j := i + 1
			for j < len(s) && (s[j] == ' ' || s[j] == '\n' || s[j] == '\t' || s[j] == '\r') {
				j++
			}
			if j < len(s) && s[j] == '"' {
				ps = append(ps, j+1)
			}
		}
	}
	return ps
}

type textGen struct {
	file string // metrics admission conversion
}

func (g textGen) genDoc(r *core.Rng) doc {
	switch g.file {
	case "admission":
		return genAdmissionDoc(r)
	case "conversion":
		return genConversionDoc(r)
	}
	return genMetricDoc(r)
}

// keys of the schema, with a value of the right type and a list of values of wrong types
type fieldInfo struct{ key, right string; wrong []string }

func (g textGen) fields() []fieldInfo {
	switch g.file {
	case "admission":
		return []fieldInfo{
			{"allowed", "true", []string{`"yes"`, "1", "[]", "{}"}},
			{"message", `"m"`, []string{"1", "true", "[]", `{"a":"b"}`}},
			{"warnings", `["w"]`, []string{`"w"`, "1", `{"a":"b"}`, `["w",1]`, `[["w"]]`, "true"}},
			{"patch", "null", []string{"1", "true", "{}"}},
		}
	case "conversion":
		return []fieldInfo{
			{"failedMessage", `"m"`, []string{"1", "false", "[]", "{}"}},
			{"convertedObjects", `[{}]`, []string{`"none"`, "1", "{}", "true"}},
		}
	}
	return []fieldInfo{
		{"name", q(probe), []string{"5", "true", `["m"]`, `{"m":1}`}},
		{"set", "1", []string{`"1"`, "true", "[1]", `{"v":1}`, `"not-a-number"`}},
		{"add", "1", []string{`"1"`, "false", "[1]"}},
		{"value", "1", []string{`"1"`, "true", "[]", "{}"}},
		{"buckets", "[1,2]", []string{"1", `"1,2"`, `{"a":1}`, `[1,"x"]`, `[[1]]`, "true"}},
		{"labels", `{"l":"v"}`, []string{`"l=v"`, "1", `["l","v"]`, `{"l":1}`, `{"l":{"a":"b"}}`, `{"l":true}`, `{"l":["v"]}`}},
		{"group", `"g1"`, []string{"1", "true", "[]"}},
		{"action", `"set"`, []string{"1", "true", `["set"]`, "{}"}},
	}
}

var caseVariants = map[string][]string{
	"name": {"NAME", "Name", "nAmE"}, "set": {"SET", "Set", "ſet", `\u017fet`, "sEt"}, "add": {"ADD", "Add"},
	"value": {"VALUE", "Value"}, "buckets": {"BUCKETS", "bucKets", "Buckets"}, "labels": {"LABELS", "Labels", "labelſ"},
	"group": {"GROUP", "Group"}, "action": {"ACTION", "Action"},
	"allowed": {"ALLOWED", "Allowed"}, "message": {"MESSAGE", "Meſsage"}, "warnings": {"WARNINGS", "Warnings"}, "patch": {"PATCH"},
	"failedMessage": {"failedmessage", "FAILEDMESSAGE", "FailedMessage"}, "convertedObjects": {"convertedobjects", "CONVERTEDOBJECTS"},
}

// Text builds the parts of one text of the given mutation kind.
func (g textGen) Text(r *core.Rng, kind string) []string {
	nDocs := 1 + r.Intn(4)
	if g.file != "metrics" {
		nDocs = 1
	}
	var docs []doc
	for i := 0; i < nDocs; i++ {
		docs = append(docs, g.genDoc(r))
	}
	victim := r.Intn(nDocs)
	spaced := r.Chance(50)
	// document-level mutations first
	switch kind {
	case "swap-type":
		fs := g.fields()
		f := fs[r.Intn(len(fs))]
		docs[victim] = setMember(docs[victim], f.key, pick(r, f.wrong))
	case "case-keys":
		d := docs[victim]
		i := r.Intn(len(d) + 1)
		if i == len(d) || caseVariants[d[i%len(d)].K] == nil {
			// add a case-changed documented key
			fs := g.fields()
			f := fs[r.Intn(len(fs))]
			d = append(d, member{pick(r, caseVariants[f.key]), pick(r, append([]string{f.right, f.right}, f.wrong...))})
		} else {
			d[i].K = pick(r, caseVariants[d[i].K])
		}
		docs[victim] = d
	case "unknown-keys":
		docs[victim] = append(docs[victim], member{pick(r, []string{"names", "sett", "", "na me", "valu", "labelz", "é", "allowd", "x"}), pick(r, []string{"1", `"s"`, "null", `{"deep":[{"a":[]}]}`, "[1,2,3]", "true"})})
		if r.Bool() {
			docs[victim] = shuffle(r, docs[victim])
		}
	case "null-values":
		if r.Chance(12) {
			docs[victim] = nil // the document itself is null
		} else {
			fs := g.fields()
			f := fs[r.Intn(len(fs))]
			switch r.Intn(4) {
			case 0, 1:
				docs[victim] = setMember(docs[victim], f.key, "null")
			case 2:
				docs[victim] = append(docs[victim], member{f.key, "null"})
			case 3:
				inner := map[string]string{"labels": `{"l":null}`, "buckets": `[1,null]`, "warnings": `["a",null]`, "convertedObjects": `[null]`}
				k := pick(r, []string{"labels", "buckets", "warnings", "convertedObjects"})
				docs[victim] = setMember(docs[victim], k, inner[k])
			}
		}
	case "dup-keys":
		d := docs[victim]
		fs := g.fields()
		if len(d) > 0 && r.Chance(60) {
			m := d[r.Intn(len(d))]
			var f *fieldInfo
			for i := range fs {
				if fs[i].key == m.K {
					f = &fs[i]
				}
			}
			nv := m.V
			if f != nil {
				nv = pick(r, append([]string{f.right, "null", m.V}, f.wrong...))
			}
			dup := member{m.K, nv}
			if r.Chance(25) && caseVariants[m.K] != nil {
				dup.K = pick(r, caseVariants[m.K])
			}
			if r.Bool() {
				d = append(d, dup)
			} else {
				d = append(doc{dup}, d...)
			}
		} else {
			f := fs[r.Intn(len(fs))]
			d = append(d, member{f.key, f.right}, member{f.key, pick(r, append([]string{f.right, "null"}, f.wrong...))})
		}
		docs[victim] = d
	case "bad-rules":
		if g.file == "metrics" {
			bad := []doc{
				{{"set", "1"}},                                  // no name
				{{"name", q(probe)}},                            // no action
				{{"name", q(probe)}, {"action", q("set")}},      // no value
				{{"name", q(probe)}, {"action", q("bump")}, {"value", "1"}},
				{{"name", q(probe)}, {"action", q("observe")}, {"value", "1"}},
				{{"name", q(probe)}, {"action", q("expire")}},
				{{"group", q("g1")}, {"name", q(probe)}, {"action", q("observe")}, {"value", "1"}, {"buckets", "[1]"}},
				{{"group", q("g1")}, {"action", q("set")}, {"value", "1"}},
				{{"name", q(probe)}, {"set", "1"}, {"add", "1"}},
				{{"name", q("")}, {"set", "1"}},
				{{"name", q(probe)}, {"action", q("")}, {"value", "1"}},
				{{"name", q(probe)}, {"action", q("SET")}, {"value", "1"}},
				{{"name", q(probe)}, {"action", q("expire")}, {"set", "1"}},
				{{"name", q(probe)}, {"action", q("add")}, {"value", "5"}, {"set", "1"}},
				{{"group", q("")}, {"action", q("expire")}},
				{},
			}
			docs[victim] = bad[r.Intn(len(bad))]
		} else {
			docs[victim] = doc{}
		}
	}
	// render
	var parts []string
	if r.Chance(20) {
		parts = append(parts, pick(r, []string{" ", "\n", "\t\n"}))
	}
	victimPart := -1
	for i, d := range docs {
		if i > 0 {
			if sp := pick(r, seps); sp != "" {
				parts = append(parts, sp)
			}
		}
		if i == victim {
			victimPart = len(parts)
		}
		if d == nil && kind == "null-values" {
			parts = append(parts, "null")
		} else {
			parts = append(parts, renderDoc(r, d, spaced))
		}
	}
	if r.Chance(70) {
		parts = append(parts, pick(r, []string{"\n", "\n", " ", "\n\n"}))
	}
	docIdx := func() []int { // indices of parts that are documents
		var ix []int
		for i, p := range parts {
			if strings.TrimSpace(p) != "" {
				ix = append(ix, i)
			}
		}
		return ix
	}
	insertAt := func(i int, s ...string) {
		parts = append(parts[:i], append(append([]string{}, s...), parts[i:]...)...)
	}
	boundary := func() int { // a position between parts that is a value boundary
		ix := docIdx()
		k := r.Intn(len(ix) + 1)
		if k == len(ix) {
			return len(parts)
		}
		return ix[k]
	}
	// text-level mutations
	switch kind {
	case "trunc":
		p := parts[victimPart]
		if len(p) > 1 {
			parts = append(parts[:victimPart], p[:1+r.Intn(len(p)-1)])
		}
	case "del-struct", "dup-struct":
		p := parts[victimPart]
		ps := structPositions(p)
		i := ps[r.Intn(len(ps))]
		if kind == "del-struct" {
			parts[victimPart] = p[:i] + p[i+1:]
		} else {
			parts[victimPart] = p[:i+1] + p[i:]
		}
	case "ins-struct":
		p := parts[victimPart]
		i := r.Intn(len(p) + 1)
		parts[victimPart] = p[:i] + string(structural[r.Intn(len(structural))]) + p[i:]
	case "stray-closer", "stray-opener", "stray-sep":
		b := map[string][]string{"stray-closer": {"}", "]"}, "stray-opener": {"{", "["}, "stray-sep": {",", ":"}}[kind]
		at := boundary()
		ins := []string{pick(r, b)}
		if r.Chance(40) {
			ins = append([]string{pick(r, []string{" ", "\n"})}, ins...)
		}
		if r.Chance(40) {
			ins = append(ins, pick(r, []string{" ", "\n"}))
		}
		insertAt(at, ins...)
	case "garbage-after":
		parts = append(parts, pick(r, []string{"oops", "x", "#", "nul", "tru", "\"", "'", "1", "\"s\"", "[]", "true", "null"}))
		if r.Bool() {
			parts = append(parts, "\n")
		}
	case "ws-only":
		parts = []string{pick(r, []string{" ", "\n", "\t", "\r\n", " \n\t\r ", "\n\n\n"})}
	case "only-closer":
		parts = []string{pick(r, []string{"}", "]", "}\n", " ]", "}}", "\n}\n"})}
	case "ctrl-in-string", "bad-escape":
		p := parts[victimPart]
		ps := valueStringPositions(p)
		if len(ps) == 0 {
			p = strings.Replace(p, "{", `{"s":"v",`, 1)
			if strings.HasSuffix(strings.TrimSpace(p), ",}") {
				p = strings.Replace(p, ",}", "}", 1)
			}
			ps = valueStringPositions(p)
		}
		if len(ps) > 0 {
			i := ps[r.Intn(len(ps))]
			var ins string
			if kind == "ctrl-in-string" {
				ins = pick(r, []string{"\x00", "\x01", "\n", "\t", "\x1f", "\r", "\x08"})
			} else {
				ins = pick(r, []string{`\x`, `\u12`, `\uZZZZ`, `\u12G4`, `\'`, `\0`, `\a`, `\U0041`, `\ `})
			}
			p = p[:i] + ins + p[i:]
		}
		parts[victimPart] = p
	case "bad-number":
		bad := pick(r, []string{"01", "-", "1.", ".5", "+1", "1e", "1e+", "0x10", "1.e1", "--1", "00", "-01", "1.5.5", "1e1.5", "Infinity", "NaN", "1_000", "-.5", "1E", "0.", "- 1"})
		key := map[string]string{"metrics": "set", "admission": "extra", "conversion": "extra"}[g.file]
		d := setMember(docs[victim], key, bad)
		parts[victimPart] = renderDoc(r, d, spaced)
	case "non-object":
		parts[victimPart] = pick(r, []string{"[]", `"str"`, "42", "true", "false", `[{"name":"verif_c12_metric","set":1}]`, "-1.5e3", `""`})
	}
	return parts
}

func setMember(d doc, key, val string) doc {
	for i := range d {
		if d[i].K == key {
			nd := append(doc{}, d...)
			nd[i].V = val
			return nd
		}
	}
	return append(append(doc{}, d...), member{key, val})
}

// fixed corpus: one text per mutation kind and file (parts)
func textCorpus() []Input {
	m := func(mut string, parts ...string) Input { return textInput("metrics", mut, parts) }
	a := func(mut string, parts ...string) Input { return textInput("admission", mut, parts) }
	c := func(mut string, parts ...string) Input { return textInput("conversion", mut, parts) }
	one := `{"name":"verif_c12_metric","set":1}`
	two := `{"name":"verif_c12_other","action":"add","value":2,"labels":{"l":"v"}}`
	return []Input{
		m("valid", one, "\n", two, "\n"),
		m("valid", `{ "name" : "verif_c12_metric" , "action":"set","value":33 ,"labels":{"kind":"é\"\\é"}}`, "\n", `{"group":"g1","action":"expire"}`),
		m("valid", one, two),
		m("trunc", one, "\n", `{"name":"verif_c12_other","se`),
		m("trunc", `{"name":"verif_c12_metric","set":1`),
		m("del-struct", `{"name":"verif_c12_metric","set"1}`),
		m("del-struct", `{"name":"verif_c12_metric,"set":1}`),
		m("ins-struct", `{"name":"verif_c12_metric",,"set":1}`),
		m("ins-struct", `{"name":"verif_c12_[metric","set":1}`),
		m("dup-struct", `{"name":"verif_c12_metric","set":1}}`),
		m("dup-struct", `{{"name":"verif_c12_metric","set":1}`),
		m("stray-closer", one, "\n", "]", "\n", two, "\n"),
		m("stray-closer", one, "}", "\n", two, "\n"),
		m("stray-closer", "}", one, "\n"),
		m("stray-closer", one, "\n", "]"),
		m("stray-opener", one, "\n", "{"),
		m("stray-opener", "[", one),
		m("stray-sep", one, ",", two),
		m("stray-sep", one, "\n", ":"),
		m("swap-type", `{"name":"verif_c12_metric","set":"not-a-number"}`),
		m("swap-type", `{"name":"verif_c12_metric","set":1,"labels":{"l":1}}`),
		m("swap-type", `{"name":5,"set":1}`),
		m("garbage-after", one, " oops"),
		m("garbage-after", one, "\n", "1"),
		m("ws-only", " \n\t\r "),
		m("only-closer", "}"),
		m("only-closer", "]", "\n"),
		m("ctrl-in-string", "{\"name\":\"verif_c12_metric\",\"set\":1,\"labels\":{\"l\":\"a\x00b\"}}"),
		m("ctrl-in-string", "{\"name\":\"verif_c12_metric\",\"set\":1,\"labels\":{\"l\":\"a\nb\"}}"),
		m("bad-escape", `{"name":"verif_c12_metric","set":1,"labels":{"l":"a\xb"}}`),
		m("bad-escape", `{"name":"verif_c12_metric","set":1,"labels":{"l":"\u12"}}`),
		m("bad-number", `{"name":"verif_c12_metric","set":01}`),
		m("bad-number", `{"name":"verif_c12_metric","set":-}`),
		m("bad-number", `{"name":"verif_c12_metric","set":1.}`),
		m("bad-number", `{"name":"verif_c12_metric","set":.5}`),
		m("case-keys", `{"NAME":"verif_c12_metric","Set":1}`),
		m("case-keys", "{\"name\":\"verif_c12_metric\",\"ſet\":1}"),
		m("case-keys", `{"name":"verif_c12_metric","ſet":1,"buc`+"K"+`ets":[1]}`),
		m("unknown-keys", `{"name":"verif_c12_metric","set":1,"names":"x","":{"deep":[1,{"a":null}]}}`),
		m("null-values", `{"name":"verif_c12_metric","set":1,"labels":null}`),
		m("null-values", `{"name":"verif_c12_metric","set":null}`),
		m("null-values", `{"name":"verif_c12_metric","set":1,"labels":{"l":null},"buckets":[1,null]}`),
		m("null-values", "null"),
		m("dup-keys", `{"name":"verif_c12_other","name":"verif_c12_metric","set":1}`),
		m("dup-keys", `{"name":"verif_c12_metric","set":1,"set":null}`),
		m("dup-keys", `{"name":"verif_c12_metric","set":1,"labels":{"a":"1"},"labels":{"b":"2"}}`),
		m("dup-keys", `{"name":"verif_c12_metric","set":1,"SET":"x"}`),
		m("bad-rules", `{"name":"verif_c12_metric","action":"set"}`),
		m("bad-rules", `{"name":"verif_c12_metric","set":1,"add":1}`),
		m("bad-rules", `{"name":"verif_c12_metric","action":"expire","set":1}`),
		m("bad-rules", `{"set":1}`),
		m("non-object", `[{"name":"verif_c12_metric","set":1}]`),
		m("non-object", "42"),
		m("non-object", one, "\n", `"str"`),
		// admission response
		a("valid", `{"allowed":true}`),
		a("valid", ` { "allowed" : false , "message":"no", "warnings":["a","b"] }`, "\n"),
		a("trunc", `{"allowed":tr`),
		a("dup-struct", `{"allowed":true}}`),
		a("stray-closer", `{"allowed":true}`, "\n", "]"),
		a("stray-closer", "}", `{"allowed":true}`),
		a("garbage-after", `{"allowed":true}`, `{"allowed":false}`),
		a("garbage-after", `{"allowed":true}`, " x"),
		a("swap-type", `{"allowed":"yes"}`),
		a("swap-type", `{"allowed":true,"warnings":["a",1]}`),
		a("ws-only", " \n"),
		a("only-closer", "}"),
		a("null-values", `{"allowed":null,"warnings":["a",null],"patch":null}`),
		a("null-values", "null"),
		a("case-keys", `{"ALLOWED":true}`),
		a("dup-keys", `{"allowed":true,"allowed":false}`),
		a("unknown-keys", `{"allowed":true,"allowd":1}`),
		a("non-object", "[]"),
		a("bad-number", `{"allowed":true,"extra":01}`),
		a("ctrl-in-string", "{\"allowed\":true,\"message\":\"a\tb\"}"),
		a("bad-escape", `{"allowed":true,"message":"\x"}`),
		// conversion response
		c("valid", `{"convertedObjects":[]}`),
		c("valid", `{"failedMessage":"cannot"}`, "\n"),
		c("trunc", `{"convertedObj`),
		c("swap-type", `{"convertedObjects":"none"}`),
		c("swap-type", `{"failedMessage":1}`),
		c("stray-closer", "}", `{"convertedObjects":[]}`),
		c("stray-closer", `{"convertedObjects":[]}`, "\n", "]"),
		c("dup-struct", `{"failedMessage":"no"}}`),
		c("garbage-after", `{"convertedObjects":[]}`, " garbage"),                  // was accepted before fix 1bbc0df
		c("garbage-after", `{"convertedObjects":[]}`, `{"failedMessage":"second"}`), // a second object
		c("garbage-after", `{"failedMessage":"no"}`, "\n", "1"),
		c("ws-only", "\n"),
		c("only-closer", "]"),
		c("null-values", `{"convertedObjects":null,"failedMessage":null}`),
		c("null-values", "null", "\n"),
		c("case-keys", `{"FAILEDMESSAGE":"x"}`),
		c("non-object", "[]"),
		c("ins-struct", `{"convertedObjects":[,]}`),
		c("bad-escape", `{"failedMessage":"\uZZZZ"}`),
	}
}

func textInput(file, mut string, parts []string) Input {
	in := Input{Exit: 0, Metrics: "empty", Patch: "empty", Admission: "empty", Conversion: "empty", TextFile: file, Parts: parts, Mut: mut}
	switch file {
	case "metrics":
		in.Metrics = "text"
	case "admission":
		in.Admission = "text"
	case "conversion":
		in.Conversion = "text"
	}
	return in
}

// genTexts appends n random text cases for the file, mutation kinds in rotation with a bias to "valid".
func genTexts(r *core.Rng, file string, n int, add func(Input, string)) {
	g := textGen{file: file}
	for i := 0; i < n; i++ {
		kind := MutKinds[i%len(MutKinds)]
		if file != "metrics" && kind == "bad-rules" {
			kind = "valid"
		}
		parts := g.Text(r, kind)
		in := textInput(file, kind, parts)
		// now and then together with a non-zero exit, a patch or a concurrent execution
		switch r.Intn(12) {
		case 0:
			in.Exit = []int{1, 2, 137}[r.Intn(3)]
		case 1, 2:
			in.Patch = "valid"
		case 3:
			in.Concurrent = true
		case 4:
			in.Patch = kinds[r.Intn(4)]
		}
		add(in, "text-"+file)
	}
}
