package c12

// Case class WAYS: HOW the hook writes its output files.  The contract hands the hook paths; what counts is
// what is at $METRICS_PATH / $KUBERNETES_PATCH_PATH / $ADMISSION_RESPONSE_PATH / $CONVERSION_RESPONSE_PATH
// when the hook exits.  Per output file the case names a way (in place, append only, a scratch file renamed
// onto the path, removed and created again, through a second hard link, a symbolic link put at the path, or
// removed for good) and cut offsets that split the content into chunks written one open/write/close each.
// The scripted hook (cmd/hookstub, WaySpec) does exactly that; the model (C12_FsModel) runs the same
// operations on a small file system and reads the paths back.

import (
	"encoding/json"
	"fmt"
	"sort"
	"strings"
	"unicode/utf8"

	"verifharness/internal/core"
)

// FileWay: how one output file is written.  How "" = "inplace".
type FileWay struct {
	How  string `json:"how,omitempty"`
	Cuts []int  `json:"cuts,omitempty"` // byte offsets (clamped to the content, moved down to a rune start)
}

type Ways struct {
	Metrics    FileWay `json:"metrics"`
	Patch      FileWay `json:"patch"`
	Admission  FileWay `json:"admission"`
	Conversion FileWay `json:"conversion"`
}

// WayKinds: the ways with their constructors in C12_FsModel.way
var WayKinds = []string{"inplace", "append", "rename", "recreate", "hardlink", "symlink", "remove"}
var wayCoq = map[string]string{"": "WInPlace", "inplace": "WInPlace", "append": "WAppend", "rename": "WRename", "recreate": "WRecreate",
	"hardlink": "WHardLink", "symlink": "WSymlink", "remove": "WRemove"}

// the ways that leave a content at the path
var writingWays = WayKinds[:6]

func (w FileWay) how() string {
	if w.How == "" {
		return "inplace"
	}
	return w.How
}

// chunks of the content at the cut offsets: len(cuts)+1 pieces (some may be empty).  A cut inside a UTF-8
// sequence moves down to its start: the pieces travel to the scripted hook as JSON strings.
func (w FileWay) chunks(content string) []string {
	cuts := append([]int{}, w.Cuts...)
	for i, c := range cuts {
		if c < 0 {
			c = 0
		}
		if c > len(content) {
			c = len(content)
		}
		for c > 0 && c < len(content) && !utf8.RuneStart(content[c]) {
			c--
		}
		cuts[i] = c
	}
	sort.Ints(cuts)
	out := make([]string, 0, len(cuts)+1)
	prev := 0
	for _, c := range cuts {
		out = append(out, content[prev:c])
		prev = c
	}
	return append(out, content[prev:])
}

type wayFile struct {
	file string // metrics patch admission conversion
	env  string // the variable the scripted hook writes through
	v    int    // the model's variable number
}

// the order of the jobs in the rendered case (the scripted hook's own order is Go's map order: the model
// does not depend on it, C12_ways_content_at_paths)
var wayFiles = []wayFile{
	{"metrics", "METRICS_PATH", 1}, {"patch", "KUBERNETES_PATCH_PATH", 5},
	{"admission", "ADMISSION_RESPONSE_PATH", 4}, {"conversion", "CONVERSION_RESPONSE_PATH", 2},
}

func (in Input) wayOf(file string) FileWay {
	switch file {
	case "metrics":
		return in.Ways.Metrics
	case "patch":
		return in.Ways.Patch
	case "admission":
		return in.Ways.Admission
	}
	return in.Ways.Conversion
}

func (ws *Ways) set(file string, w FileWay) {
	switch file {
	case "metrics":
		ws.Metrics = w
	case "patch":
		ws.Patch = w
	case "admission":
		ws.Admission = w
	default:
		ws.Conversion = w
	}
}

func (in Input) kindOf(file string) string {
	switch file {
	case "metrics":
		return in.Metrics
	case "patch":
		return in.Patch
	case "admission":
		return in.Admission
	}
	return in.Conversion
}

// addWays puts the way of every output file into the reply's files map (key "WAY:<VAR>", the JSON of the
// scripted hook's WaySpec): internal/opsim hands the files map on unchanged
func (in Input) addWays(files map[string]string) {
	for _, f := range wayFiles {
		w := in.wayOf(f.file)
		spec := struct {
			How    string   `json:"how"`
			Chunks []string `json:"chunks"`
		}{w.how(), w.chunks(files[f.env])}
		b, _ := json.Marshal(spec)
		files["WAY:"+f.env] = string(b)
	}
}

// the jobs of the case as a Coq list of C12_FsModel.vjob
func (in Input) coqJobs() string {
	var js []string
	for _, f := range wayFiles {
		w := in.wayOf(f.file)
		content := in.content(f.file, in.kindOf(f.file))
		js = append(js, fmt.Sprintf("(%s, %d, %s)", wayCoq[w.how()], f.v, core.CoqList(w.chunks(content), core.CoqBytes)))
	}
	return "[" + strings.Join(js, "; ") + "]"
}

func (in Input) waysKey() string {
	var b strings.Builder
	for _, f := range wayFiles {
		w := in.wayOf(f.file)
		fmt.Fprintf(&b, "/%s@%v", w.how(), w.chunksLens(in.content(f.file, in.kindOf(f.file))))
	}
	return b.String()
}

func (w FileWay) chunksLens(content string) []int {
	var ls []int
	for _, c := range w.chunks(content) {
		ls = append(ls, len(c))
	}
	return ls
}

func (in Input) waysTags() []string {
	tags := []string{"class:ways"}
	seen := map[string]bool{}
	for _, f := range wayFiles {
		w := in.wayOf(f.file)
		kind := in.kindOf(f.file)
		content := in.content(f.file, kind)
		if w.how() == "inplace" && len(w.Cuts) == 0 {
			continue
		}
		n := len(w.chunks(content))
		steps := "1"
		if n == 2 {
			steps = "2"
		} else if n > 2 {
			steps = "3+"
		}
		class := kind
		if kind == "text" {
			class = "text-" + in.Mut
		}
		for _, t := range []string{"way:" + w.how(), "way:" + f.file + ":" + w.how(), "way:" + w.how() + ":" + class, "way-steps:" + steps} {
			if !seen[t] {
				seen[t] = true
				tags = append(tags, t)
			}
		}
	}
	return tags
}

// ---------------------------------------------------------------- generators

func randCuts(r *core.Rng, n int, max int) []int {
	var cs []int
	for i := 0; i < n; i++ {
		cs = append(cs, r.Intn(max+1))
	}
	return cs
}

func randWay(r *core.Rng, contentLen int) FileWay {
	w := FileWay{How: writingWays[r.Intn(len(writingWays))]}
	switch r.Intn(4) {
	case 1:
		w.Cuts = randCuts(r, 1, contentLen)
	case 2:
		w.Cuts = randCuts(r, 2, contentLen)
	case 3:
		w.Cuts = randCuts(r, 1+r.Intn(4), contentLen)
	}
	return w
}

func emptyInput() Input {
	return Input{Metrics: "empty", Patch: "empty", Admission: "empty", Conversion: "empty"}
}

func (in *Input) setKind(file, kind string) {
	switch file {
	case "metrics":
		in.Metrics = kind
	case "patch":
		in.Patch = kind
	case "admission":
		in.Admission = kind
	default:
		in.Conversion = kind
	}
}

// the witnesses that run first: a valid and a truncated patch moved onto $KUBERNETES_PATCH_PATH
func waysWitnesses() []Input {
	a := emptyInput()
	a.Patch = "valid"
	a.Ways = &Ways{Patch: FileWay{How: "rename"}}
	b := emptyInput()
	b.Patch = "truncated"
	b.Ways = &Ways{Patch: FileWay{How: "rename"}}
	return []Input{a, b}
}

// systematic: every output file x every enum outcome class (valid, truncated, wrong type, empty) x every
// way, the other files empty and written in place; the cuts vary with the position in the enumeration
// (none / one / two); plus "removed for good" per file
func waysSystematic(allCuts bool) []Input {
	var ins []Input
	n := 0
	for _, f := range wayFiles {
		for _, k := range kinds {
			for _, how := range writingWays {
				variants := [][]int{nil}
				l := len(content(f.file, k))
				switch {
				case allCuts:
					variants = [][]int{nil, {l / 2}, {l / 3, l / 3, l - 1}}
				case how == "append" || how == "inplace" || n%3 == 1:
					variants = [][]int{{l / 3, 2 * l / 3}}
				case n%3 == 2:
					variants = [][]int{{l / 2}}
				}
				for _, cuts := range variants {
					if how == "inplace" && cuts == nil {
						continue // that is the class CRun
					}
					in := emptyInput()
					in.setKind(f.file, k)
					in.Ways = &Ways{}
					in.Ways.set(f.file, FileWay{How: how, Cuts: cuts})
					ins = append(ins, in)
				}
				n++
			}
		}
		in := emptyInput()
		in.Ways = &Ways{}
		in.Ways.set(f.file, FileWay{How: "remove"})
		ins = append(ins, in)
		in2 := in
		in2.Exit = 1
		in2.Ways = &Ways{}
		in2.Ways.set(f.file, FileWay{How: "remove"})
		ins = append(ins, in2)
	}
	return ins
}

// every text of the fixed corpus (every mutation kind of every JSON output file), each written in a way:
// the six ways in rotation (all = every text in every way), cuts from the generator
func waysTexts(r *core.Rng, all bool) []Input {
	var ins []Input
	for i, t := range textCorpus() {
		hows := []string{writingWays[i%len(writingWays)]}
		if all {
			hows = writingWays
		}
		for _, how := range hows {
			in := t
			in.Parts = append([]string{}, t.Parts...)
			w := FileWay{How: how}
			if how == "append" || how == "inplace" || r.Chance(40) {
				w.Cuts = randCuts(r, 1+r.Intn(3), len(in.text()))
			}
			in.Ways = &Ways{}
			in.Ways.set(in.TextFile, w)
			ins = append(ins, in)
		}
	}
	return ins
}

// random: all four files at once, each with a random outcome class, way and cuts; one of the JSON files
// may hold a generated text; now and then a non-zero exit, a concurrent execution, an environment of the
// operator that names the contract variables, a removed file
func genWaysCase(r *core.Rng) Input {
	in := emptyInput()
	if r.Chance(45) {
		file := []string{"metrics", "metrics", "admission", "conversion"}[r.Intn(4)]
		kind := MutKinds[r.Intn(len(MutKinds))]
		if r.Chance(40) || (file != "metrics" && kind == "bad-rules") {
			kind = "valid"
		}
		in = textInput(file, kind, textGen{file: file}.Text(r, kind))
	}
	weighted := []string{"valid", "valid", "valid", "empty", "truncated", "wrongtype"}
	for _, f := range wayFiles {
		if in.kindOf(f.file) != "text" {
			in.setKind(f.file, weighted[r.Intn(len(weighted))])
		}
	}
	in.Ways = &Ways{}
	for _, f := range wayFiles {
		w := randWay(r, len(in.content(f.file, in.kindOf(f.file))))
		if r.Chance(4) {
			w = FileWay{How: "remove"}
		}
		in.Ways.set(f.file, w)
	}
	switch r.Intn(12) {
	case 0:
		in.Exit = []int{1, 2, 137, -9}[r.Intn(4)]
	case 1:
		in.Concurrent = true
	case 2:
		in.Env = []EnvVar{{Var: []int{1, 2, 4, 5}[r.Intn(4)], Val: r.Intn(6)}}
	case 3:
		in.Env = []EnvVar{{Var: 6 + r.Intn(3), Val: r.Intn(3)}, {Var: 5, Val: 1 + r.Intn(2)}}
	}
	return in
}

// the product of the ways over the four files, every file valid (thorough tier)
func waysProduct() []Input {
	var ins []Input
	for _, a := range writingWays {
		for _, b := range writingWays {
			for _, c := range writingWays {
				for _, d := range writingWays {
					in := Input{Metrics: "valid", Patch: "valid", Admission: "valid", Conversion: "valid"}
					in.Ways = &Ways{Metrics: FileWay{How: a}, Patch: FileWay{How: b}, Admission: FileWay{How: c}, Conversion: FileWay{How: d}}
					ins = append(ins, in)
				}
			}
		}
	}
	return ins
}
