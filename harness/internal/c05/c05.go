// Package c05: correspondence driver for C05 (TaskQueue is a faithful list).
// Drives the real pkg/task/queue.TaskQueue through its public API and through a
// started worker whose handler is scripted by the harness.
package c05

import (
	"context"
	"fmt"
	"os"
	"regexp"
	"runtime"
	"strconv"
	"strings"
	"sync"
	"time"

	"github.com/flant/shell-operator/pkg/task"
	"github.com/flant/shell-operator/pkg/task/queue"

	"verifharness/internal/core"
)

type Task struct {
	Id   int `json:"id"`
	Uniq int `json:"uniq"`
}

type Op struct {
	Kind  string `json:"kind"` // AddFirst AddLast AddAfter AddBefore Remove RemoveFirst RemoveLast Filter Start Return
	Id    int    `json:"id,omitempty"`
	T     *Task  `json:"t,omitempty"`
	Keep  []int  `json:"keep,omitempty"`
	St    string `json:"st,omitempty"`
	Head  []Task `json:"head,omitempty"`
	After []Task `json:"after,omitempty"`
	Tail  []Task `json:"tail,omitempty"`
	// FilterDuring: the operation another goroutine issues while the Filter callback runs
	C *Op `json:"c,omitempty"`
	// Return: how the handler lays its three result slices out in memory (their VALUES are Head /
	// After / Tail in every case; the queue has to copy what it keeps): 0 three exact slices,
	// 1 consecutive cuts of one backing array (each cut's capacity extends over the next ones),
	// 2 each slice with spare capacity, 3 a buffer the handler owns and reuses for every call.
	// After the result has been applied the handler overwrites everything it owns with a poison task.
	Share int `json:"share,omitempty"`
	// IterateDuring: an observer (Via 0: Iterate with a callback, 1: String(), which walks the queue
	// through Iterate and calls every task's GetDescription) is held up at element number Pos (0-based;
	// beyond the end = not held up at all) while another goroutine issues the operations of Chain one
	// after the other; the observer goes on when that goroutine has finished or is seen not to make
	// progress (it waits for the queue's lock).
	Pos   int  `json:"pos,omitempty"`
	Via   int  `json:"via,omitempty"`
	Chain []Op `json:"chain,omitempty"`
}

type Input struct {
	Ops []Op `json:"ops"`
	// EmptyId > 0: the task id with this number is spelt "" (the empty string) in this case - an id like any other to an
	// ordinary list; every other id n is spelt as the decimal text of n.  The model compares ids only for equality
	EmptyId int `json:"empty_id,omitempty"`
}

// emptyId: the id number spelt "" in the case being run (-1: none); cases of a child process run one after the other
var emptyId = -1

func idText(n int) string {
	if n == emptyId {
		return ""
	}
	return strconv.Itoa(n)
}

func idNum(s string) int {
	if s == "" && emptyId >= 0 {
		return emptyId
	}
	n, _ := strconv.Atoi(s)
	return n
}

type Obs struct {
	Items   []*Task `json:"items"`
	Len     int     `json:"len"`
	First   *Task   `json:"first"`
	Last    *Task   `json:"last"`
	Gets    []*Task `json:"gets"`
	Running *Task   `json:"running"`
	Ret     *Task   `json:"ret"`
	Crash   string  `json:"crash,omitempty"`
	// IterateDuring: the tasks the overlapping observer reported, in its order, and what the
	// overlapping operations returned
	Walk []*Task `json:"walk,omitempty"`
	Rets []*Task `json:"rets,omitempty"`
}

type Observation struct {
	Steps []Obs `json:"steps"`
}

var probeIds = []int{1, 2, 3, 4, 5, 6}

func mk(t Task) task.Task {
	bt := task.NewTask("T")
	bt.Id = idText(t.Id)
	bt.SetProp("uniq", t.Uniq)
	bt.Metadata = meta{uniq: t.Uniq}
	return bt
}

// meta makes a task's description carry its uniq tag (String() prints description and id), and lets
// the harness hold String()'s walk up at a chosen task: BaseTask.GetDescription calls it.
type meta struct{ uniq int }

var (
	descHookMu sync.Mutex
	descHook   func()
)

func setDescHook(f func()) { descHookMu.Lock(); descHook = f; descHookMu.Unlock() }

func (m meta) GetDescription() string {
	descHookMu.Lock()
	h := descHook
	descHookMu.Unlock()
	if h != nil {
		h()
	}
	return "u" + strconv.Itoa(m.uniq)
}

// goid: number of the calling goroutine (the worker goroutine calls String() too, for its debug lines)
func goid() string {
	var buf [64]byte
	f := strings.Fields(string(buf[:runtime.Stack(buf[:], false)]))
	if len(f) > 1 {
		return f[1]
	}
	return ""
}

var stringElem = regexp.MustCompile(`\[T:[^\]]*?:u(\d+)[^\]]*?,id=\s*(\d*)\]`)

// parseString: the tasks of a String() dump "[T::u<uniq>...,id=<id>], [..."
func parseString(s string) []*Task {
	var r []*Task
	for _, m := range stringElem.FindAllStringSubmatch(s, -1) {
		u, _ := strconv.Atoi(m[1])
		id := idNum(m[2])
		r = append(r, &Task{Id: id, Uniq: u})
	}
	return r
}

// how long a held-up observer waits for the other goroutine before it concludes that it is blocked
const holdTime = 2 * time.Millisecond

func un(t task.Task) (res *Task) {
	if t == nil {
		return nil
	}
	defer func() {
		if recover() != nil {
			res = nil
		}
	}()
	id := idNum(t.GetId())
	u, _ := t.GetProp("uniq").(int)
	return &Task{Id: id, Uniq: u}
}

const poisonId = 99

// layout builds the handler's result slices as op.Share says; owned = everything the handler
// may write to afterwards.
func layout(op Op, reuse *[]task.Task) (head, after, tail []task.Task, owned [][]task.Task) {
	switch op.Share {
	case 1:
		all := append(append(mkAll(op.Head), mkAll(op.After)...), mkAll(op.Tail)...)
		all = append(make([]task.Task, 0, len(all)+4), all...)
		h, a := len(op.Head), len(op.After)
		head, after, tail = all[:h], all[h:h+a], all[h+a:]
		owned = [][]task.Task{all}
	case 2:
		spare := func(ts []task.Task) []task.Task { return append(make([]task.Task, 0, len(ts)+16), ts...) }
		head, after, tail = spare(mkAll(op.Head)), spare(mkAll(op.After)), spare(mkAll(op.Tail))
		owned = [][]task.Task{head, after, tail}
	case 3:
		if *reuse == nil {
			*reuse = make([]task.Task, 0, 64)
		}
		head = append((*reuse)[:0], mkAll(op.Head)...)
		after, tail = mkAll(op.After), mkAll(op.Tail)
		owned = [][]task.Task{*reuse}
	default:
		head, after, tail = mkAll(op.Head), mkAll(op.After), mkAll(op.Tail)
	}
	if len(head) == 0 && op.Share != 1 && op.Share != 3 {
		head = nil
	}
	return
}

func mkAll(ts []Task) []task.Task {
	var r []task.Task
	for _, t := range ts {
		r = append(r, mk(t))
	}
	return r
}

// Run executes one op sequence on a fresh TaskQueue.
func Run(in Input) Observation {
	emptyId = -1
	if in.EmptyId > 0 {
		emptyId = in.EmptyId
	}
	os.Setenv("QUEUE_ACTIONS_METRICS", "no")
	q := queue.NewTasksQueue().WithName("q")
	ctx, cancel := context.WithCancel(context.Background())
	defer cancel()
	q.WithContext(ctx)
	q.WaitLoopCheckInterval = 200 * time.Microsecond
	q.DelayOnQueueIsEmpty = 200 * time.Microsecond
	q.DelayOnRepeat = 0
	q.ExponentialBackoffFn = func(int) time.Duration { return 0 }
	picked := make(chan task.Task)
	results := make(chan queue.TaskResult)
	applied := make(chan struct{}, 1)
	q.WithHandler(func(t task.Task) queue.TaskResult {
		picked <- t
		return <-results
	})
	started := false
	var running task.Task
	inHandler := false
	var reuse []task.Task
	var out Observation
	crashed := ""

	observe := func(ret task.Task) Obs {
		o := Obs{Ret: un(ret)}
		func() {
			defer func() {
				if r := recover(); r != nil {
					o.Crash = fmt.Sprint("panic while observing: ", r)
				}
			}()
			q.Iterate(func(t task.Task) { o.Items = append(o.Items, un(t)) })
			o.Len = q.Length()
			o.First = un(q.GetFirst())
			o.Last = un(q.GetLast())
			for _, id := range probeIds {
				o.Gets = append(o.Gets, un(q.Get(idText(id))))
			}
		}()
		if inHandler {
			o.Running = un(running)
		}
		if crashed != "" {
			o.Crash = crashed
		}
		return o
	}
	quiesce := func() {
		if !started || inHandler || crashed != "" {
			return
		}
		if q.Length() == 0 {
			return
		}
		select {
		case t := <-picked:
			running = t
			inHandler = true
			if t == nil {
				crashed = "handler called with nil task"
			}
		case <-time.After(3 * time.Second):
			crashed = "worker did not pick a task from a non-empty queue within 3s"
		}
	}

	var walk, rets []*Task
	var execOp func(op Op) (ret task.Task)
	execOp = func(op Op) (ret task.Task) {
		{
			defer func() {
				if r := recover(); r != nil {
					crashed = fmt.Sprint("panic: ", r)
				}
			}()
			switch op.Kind {
			case "AddFirst":
				q.AddFirst(mk(*op.T))
			case "AddLast":
				q.AddLast(mk(*op.T))
			case "AddAfter":
				q.AddAfter(idText(op.Id), mk(*op.T))
			case "AddBefore":
				q.AddBefore(idText(op.Id), mk(*op.T))
			case "Remove":
				ret = q.Remove(idText(op.Id))
			case "RemoveFirst":
				ret = q.RemoveFirst()
			case "RemoveLast":
				ret = q.RemoveLast()
			case "Filter":
				keep := map[string]bool{}
				for _, k := range op.Keep {
					keep[idText(k)] = true
				}
				q.Filter(func(t task.Task) bool { return keep[t.GetId()] })
			case "FilterDuring":
				keep := map[string]bool{}
				for _, k := range op.Keep {
					keep[idText(k)] = true
				}
				done := make(chan task.Task, 1)
				launched := false
				launch := func() {
					launched = true
					go func() {
						defer func() {
							if r := recover(); r != nil {
								done <- nil
							}
						}()
						var r task.Task
						c := op.C
						switch c.Kind {
						case "AddFirst":
							q.AddFirst(mk(*c.T))
						case "AddLast":
							q.AddLast(mk(*c.T))
						case "AddAfter":
							q.AddAfter(idText(c.Id), mk(*c.T))
						case "AddBefore":
							q.AddBefore(idText(c.Id), mk(*c.T))
						case "Remove":
							r = q.Remove(idText(c.Id))
						case "RemoveFirst":
							r = q.RemoveFirst()
						case "RemoveLast":
							r = q.RemoveLast()
						}
						done <- r
					}()
				}
				q.Filter(func(t task.Task) bool {
					if !launched {
						launch()
						time.Sleep(2 * time.Millisecond) // let the other goroutine reach the queue's lock
					}
					return keep[t.GetId()]
				})
				if !launched { // empty queue: the callback did not run
					launch()
				}
				select {
				case ret = <-done:
				case <-time.After(3 * time.Second):
					crashed = "the operation issued during Filter did not return within 3s"
				}
			case "Start":
				if !started {
					q.Start()
					started = true
				}
			case "Return":
				if inHandler {
					head, after, tail, owned := layout(op, &reuse)
					res := queue.TaskResult{Status: queue.TaskStatus(op.St), HeadTasks: head,
						AfterTasks: after, TailTasks: tail,
						AfterHandle: func() { applied <- struct{}{} }}
					results <- res
					inHandler = false
					running = nil
					select {
					case <-applied:
						// the handler's memory is the handler's: it goes on using it
						for _, o := range owned {
							o = o[:cap(o)]
							for i := range o {
								o[i] = mk(Task{Id: poisonId, Uniq: poisonId})
							}
						}
					case <-time.After(3 * time.Second):
						crashed = "result not applied within 3s (worker died?)"
					}
				}
			case "IterateDuring":
				done := make(chan struct{})
				entered := make(chan struct{})
				launched := false
				launch := func() {
					launched = true
					go func() {
						defer close(done)
						close(entered)
						for _, c := range op.Chain {
							if c.Kind == "IterateDuring" {
								rets = append(rets, nil)
								continue
							}
							r := execOp(c)
							rets = append(rets, un(r))
							if crashed != "" {
								return
							}
							quiesce()
						}
					}()
				}
				idx := 0
				visit := func() {
					if idx == op.Pos && !launched {
						launch()
						<-entered
						select {
						case <-done:
						case <-time.After(holdTime):
						}
					}
					idx++
				}
				walk = []*Task{}
				if op.Via == 1 {
					me := goid()
					setDescHook(func() {
						if goid() == me {
							visit()
						}
					})
					func() {
						defer setDescHook(nil)
						walk = append(walk, parseString(q.String())...)
					}()
				} else {
					q.Iterate(func(t task.Task) {
						visit()
						walk = append(walk, un(t))
					})
				}
				if !launched {
					launch()
				}
				select {
				case <-done:
				case <-time.After(5 * time.Second):
					crashed = "the operations issued during the observer did not return within 5s"
				}
			}
		}
		return
	}

	for _, op := range in.Ops {
		walk, rets = nil, nil
		ret := execOp(op)
		if crashed != "" {
			// do not touch the queue again: a panic inside withLock leaves it locked
			out.Steps = append(out.Steps, Obs{Crash: crashed})
			break
		}
		quiesce()
		o := observe(ret)
		o.Walk, o.Rets = walk, rets
		out.Steps = append(out.Steps, o)
		if crashed != "" || o.Crash != "" {
			break
		}
	}
	return out
}

// ---- rendering ----

func coqTask(t Task) string { return fmt.Sprintf("(%d,%d)", t.Id, t.Uniq) }
func coqOTask(t *Task) string {
	if t == nil {
		return "None"
	}
	return "(Some " + coqTask(*t) + ")"
}
func coqTasks(ts []Task) string { return core.CoqList(ts, coqTask) }

func coqOp(o Op) string {
	switch o.Kind {
	case "AddFirst", "AddLast":
		return fmt.Sprintf("%s %s", o.Kind, coqTask(*o.T))
	case "AddAfter", "AddBefore":
		return fmt.Sprintf("%s %d %s", o.Kind, o.Id, coqTask(*o.T))
	case "Remove":
		return fmt.Sprintf("Remove %d", o.Id)
	case "Filter":
		return "Filter " + core.CoqList(o.Keep, core.CoqN)
	case "FilterDuring":
		return "FilterDuring " + core.CoqList(o.Keep, core.CoqN) + " (C" + coqOp(*o.C) + ")"
	case "Return":
		return fmt.Sprintf("Return %s %s %s %s", o.St, coqTasks(o.Head), coqTasks(o.After), coqTasks(o.Tail))
	}
	return o.Kind
}

// top level: an operation, or an observer overlapping the operations of another goroutine
func coqXOp(o Op) string {
	if o.Kind == "IterateDuring" {
		return fmt.Sprintf("IterateDuring %d %s", o.Pos, core.CoqList(o.Chain, coqOp))
	}
	return "Plain (" + coqOp(o) + ")"
}

func coqObs(o Obs) string {
	return fmt.Sprintf("mkXObs (mkObs %s %d %s %s %s %s %s %s) %s %s",
		core.CoqList(o.Items, coqOTask), o.Len, coqOTask(o.First), coqOTask(o.Last),
		core.CoqList(o.Gets, coqOTask), coqOTask(o.Running), coqOTask(o.Ret), core.CoqBool(o.Crash != ""),
		core.CoqList(o.Walk, coqOTask), core.CoqList(o.Rets, coqOTask))
}

func Render(in Input, obs *Observation, crash string) core.Case {
	var steps []Obs
	if obs != nil {
		steps = obs.Steps
	}
	if crash != "" {
		steps = append(steps, Obs{Crash: crash})
	}
	c := core.Case{}
	c.Coq = fmt.Sprintf("(%s,\n  %s)", core.CoqList(in.Ops, coqXOp), core.CoqList(steps, coqObs))
	c.JSON = map[string]any{"steps": steps}
	var kb strings.Builder
	kinds := map[string]bool{}
	qlen := 0
	for i, o := range in.Ops {
		kb.WriteString(coqXOp(o))
		kb.WriteString(";")
		kinds[o.Kind] = true
		c.Tags = append(c.Tags, "op:"+o.Kind)
		if o.Kind == "Return" {
			c.Tags = append(c.Tags, "ret:"+o.St)
		}
		if o.Kind == "IterateDuring" {
			kb.WriteString(fmt.Sprintf("via%d;", o.Via))
			c.Tags = append(c.Tags, []string{"observer:Iterate", "observer:String"}[o.Via&1], fmt.Sprintf("overlap:%d-ops", len(o.Chain)))
			for _, cc := range o.Chain {
				kinds[cc.Kind] = true
				c.Tags = append(c.Tags, "overlap:"+cc.Kind)
			}
			// where the observer is held up, relative to the queue it walks
			switch {
			case qlen == 0:
				c.Tags = append(c.Tags, "held:empty-queue")
			case o.Pos >= qlen:
				c.Tags = append(c.Tags, "held:not-at-all")
			case o.Pos == 0:
				c.Tags = append(c.Tags, "held:at-first")
			case o.Pos == qlen-1:
				c.Tags = append(c.Tags, "held:at-last")
			default:
				c.Tags = append(c.Tags, "held:in-the-middle")
			}
			if i < len(steps) && len(o.Chain) > 0 {
				w, after := steps[i].Walk, steps[i].Items
				same := len(w) == len(after)
				for j := 0; same && j < len(w); j++ {
					same = w[j] != nil && after[j] != nil && *w[j] == *after[j]
				}
				if !same {
					c.Tags = append(c.Tags, "walk:differs-from-list-after")
				}
			}
		}
		if i < len(steps) {
			qlen = steps[i].Len
		}
	}
	c.Key = kb.String()
	if in.EmptyId > 0 {
		c.Key += fmt.Sprintf("|empty-id:%d", in.EmptyId)
		c.Tags = append(c.Tags, "an-id-is-the-empty-string")
	}
	c.Tags = append(c.Tags, fmt.Sprintf("len:%02d", len(in.Ops)/4*4))
	// non-trivial: at least 3 operations of at least 2 kinds and a non-empty queue at some point
	nonEmpty := false
	for _, s := range steps {
		if s.Len > 0 {
			nonEmpty = true
		}
	}
	c.Nontrivial = len(in.Ops) >= 3 && len(kinds) >= 2 && nonEmpty
	return c
}

// ---- generation ----

type gen struct {
	r    *core.Rng
	uniq int
}

func (g *gen) fresh(id int) Task { g.uniq++; return Task{Id: id, Uniq: g.uniq} }

func (g *gen) pickId(present []int, absentPct int) int {
	if len(present) == 0 || g.r.Chance(absentPct) {
		return 1 + g.r.Intn(6)
	}
	return present[g.r.Intn(len(present))]
}

// burst: many tasks with distinct ids (100+), removed by id in a random order.
func (g *gen) burst() Input {
	var ops []Op
	n := 64 + g.r.Intn(67)
	started := g.r.Chance(50)
	if started {
		ops = append(ops, Op{Kind: "Start"})
	}
	ids := make([]int, 0, n)
	for i := 0; i < n; i++ {
		t := Task{Id: 100 + i, Uniq: 1000 + i}
		ids = append(ids, t.Id)
		if g.r.Chance(85) {
			ops = append(ops, Op{Kind: "AddLast", T: &t})
		} else {
			ops = append(ops, Op{Kind: "AddFirst", T: &t})
		}
	}
	// shuffle
	for i := len(ids) - 1; i > 0; i-- {
		j := g.r.Intn(i + 1)
		ids[i], ids[j] = ids[j], ids[i]
	}
	keep := 1 + g.r.Intn(6)
	for _, id := range ids[:len(ids)-keep] {
		if started && g.r.Chance(15) {
			ops = append(ops, Op{Kind: "Return", St: "Success"})
		}
		ops = append(ops, Op{Kind: "Remove", Id: id})
	}
	t := Task{Id: 1, Uniq: 5000}
	ops = append(ops, Op{Kind: "AddLast", T: &t}, Op{Kind: "RemoveLast"}, Op{Kind: "Filter", Keep: []int{ids[len(ids)-1]}})
	return Input{Ops: ops}
}

func (g *gen) tasks(n int, nextId *int, dupPct int, present []int) []Task {
	var ts []Task
	for i := 0; i < n; i++ {
		ts = append(ts, g.newTask(nextId, dupPct, present))
	}
	return ts
}

func (g *gen) newTask(nextId *int, dupPct int, present []int) Task {
	if len(present) > 0 && g.r.Chance(dupPct) {
		return g.fresh(present[g.r.Intn(len(present))])
	}
	id := *nextId
	*nextId = *nextId%6 + 1
	return g.fresh(id)
}

// random sequence; dupPct = chance that a new task reuses an id that may be queued;
// absentPct = chance that a by-id operation names an arbitrary id.
func (g *gen) sequence(n, dupPct, absentPct int) Input {
	var ops []Op
	var present []int
	nextId := 1 + g.r.Intn(6)
	g.uniq = 0
	startAt := g.r.Intn(3)
	for len(ops) < n {
		if len(ops) == startAt {
			ops = append(ops, Op{Kind: "Start"})
			continue
		}
		k := g.r.Intn(100)
		switch {
		case k < 14:
			t := g.newTask(&nextId, dupPct, present)
			present = append(present, t.Id)
			ops = append(ops, Op{Kind: "AddLast", T: &t})
		case k < 22:
			t := g.newTask(&nextId, dupPct, present)
			present = append(present, t.Id)
			ops = append(ops, Op{Kind: "AddFirst", T: &t})
		case k < 32:
			t := g.newTask(&nextId, dupPct, present)
			ops = append(ops, Op{Kind: "AddAfter", Id: g.pickId(present, absentPct), T: &t})
			present = append(present, t.Id)
		case k < 42:
			t := g.newTask(&nextId, dupPct, present)
			ops = append(ops, Op{Kind: "AddBefore", Id: g.pickId(present, absentPct), T: &t})
			present = append(present, t.Id)
		case k < 50:
			ops = append(ops, Op{Kind: "Remove", Id: g.pickId(present, absentPct)})
		case k < 54:
			ops = append(ops, Op{Kind: "RemoveFirst"})
		case k < 58:
			ops = append(ops, Op{Kind: "RemoveLast"})
		case k < 62:
			var keep []int
			for id := 1; id <= 6; id++ {
				if g.r.Chance(70) {
					keep = append(keep, id)
				}
			}
			if g.r.Chance(40) {
				// another goroutine issues an operation while the Filter callback runs
				var c Op
				switch g.r.Intn(7) {
				case 0:
					t := g.newTask(&nextId, dupPct, present)
					present = append(present, t.Id)
					c = Op{Kind: "AddFirst", T: &t}
				case 1, 2:
					t := g.newTask(&nextId, dupPct, present)
					present = append(present, t.Id)
					c = Op{Kind: "AddLast", T: &t}
				case 3:
					t := g.newTask(&nextId, dupPct, present)
					c = Op{Kind: "AddAfter", Id: g.pickId(present, absentPct), T: &t}
					present = append(present, t.Id)
				case 4:
					c = Op{Kind: "Remove", Id: g.pickId(present, absentPct)}
				case 5:
					c = Op{Kind: "RemoveFirst"}
				default:
					c = Op{Kind: "RemoveLast"}
				}
				ops = append(ops, Op{Kind: "FilterDuring", Keep: keep, C: &c})
				continue
			}
			ops = append(ops, Op{Kind: "Filter", Keep: keep})
		case k < 70:
			// an observer (Iterate / String) held up at some element while another goroutine issues one operation
			c := g.overlapOp(&nextId, dupPct, absentPct, &present, true)
			ops = append(ops, Op{Kind: "IterateDuring", Pos: g.r.Intn(4), Via: g.r.Intn(2), Chain: []Op{c}})
		default:
			ops = append(ops, g.ret(&nextId, dupPct, &present))
		}
	}
	return Input{Ops: ops}
}

func (g *gen) ret(nextId *int, dupPct int, present *[]int) Op {
	st := []string{"Success", "Success", "Success", "Keep", "Fail", "Repeat"}[g.r.Intn(6)]
	o := Op{Kind: "Return", St: st}
	o.Head = g.tasks(g.r.Intn(3)*g.r.Intn(2), nextId, dupPct, *present)
	o.After = g.tasks(g.r.Intn(3)*g.r.Intn(2), nextId, dupPct, *present)
	o.Tail = g.tasks(g.r.Intn(3)*g.r.Intn(2), nextId, dupPct, *present)
	if len(o.Head)+len(o.After)+len(o.Tail) > 0 && g.r.Chance(50) {
		o.Share = 1 + g.r.Intn(3)
	}
	for _, t := range append(append(append([]Task{}, o.Head...), o.After...), o.Tail...) {
		*present = append(*present, t.Id)
	}
	return o
}

// overlapOp: one operation for the goroutine that runs while an observer is in progress
func (g *gen) overlapOp(nextId *int, dupPct, absentPct int, present *[]int, allowReturn bool) Op {
	n := 11
	if allowReturn {
		n = 14
	}
	switch k := g.r.Intn(n); k {
	case 0:
		t := g.newTask(nextId, dupPct, *present)
		*present = append(*present, t.Id)
		return Op{Kind: "AddFirst", T: &t}
	case 1:
		t := g.newTask(nextId, dupPct, *present)
		*present = append(*present, t.Id)
		return Op{Kind: "AddLast", T: &t}
	case 2:
		t := g.newTask(nextId, dupPct, *present)
		o := Op{Kind: "AddAfter", Id: g.pickId(*present, absentPct), T: &t}
		*present = append(*present, t.Id)
		return o
	case 3:
		t := g.newTask(nextId, dupPct, *present)
		o := Op{Kind: "AddBefore", Id: g.pickId(*present, absentPct), T: &t}
		*present = append(*present, t.Id)
		return o
	case 4, 5, 6, 7:
		return Op{Kind: "Remove", Id: g.pickId(*present, absentPct)}
	case 8:
		return Op{Kind: "RemoveFirst"}
	case 9:
		return Op{Kind: "RemoveLast"}
	case 10:
		var keep []int
		for id := 1; id <= 6; id++ {
			if g.r.Chance(70) {
				keep = append(keep, id)
			}
		}
		return Op{Kind: "Filter", Keep: keep}
	default:
		return g.ret(nextId, dupPct, present)
	}
}

// observed: a queue of 1-7 tasks (worker started or not), then an observer held up at a random element
// while another goroutine issues 1-5 operations (the last one may be the return of the handler in
// progress), then sometimes a second observer overlapping one operation.
func (g *gen) observed() Input {
	var ops []Op
	var present []int
	g.uniq = 0
	nextId := 1 + g.r.Intn(6)
	started := g.r.Chance(50)
	if started {
		ops = append(ops, Op{Kind: "Start"})
	}
	n := 1 + g.r.Intn(7)
	for i := 0; i < n; i++ {
		t := g.newTask(&nextId, 0, present)
		present = append(present, t.Id)
		if g.r.Chance(80) {
			ops = append(ops, Op{Kind: "AddLast", T: &t})
		} else {
			ops = append(ops, Op{Kind: "AddFirst", T: &t})
		}
	}
	k := 1 + g.r.Intn(3)*g.r.Intn(3)
	var chain []Op
	for i := 0; i < k; i++ {
		chain = append(chain, g.overlapOp(&nextId, 0, 10, &present, false))
	}
	if started && g.r.Chance(35) {
		chain = append(chain, g.ret(&nextId, 0, &present))
	}
	pos := g.r.Intn(n)
	if g.r.Chance(5) {
		pos = n + g.r.Intn(2)
	}
	ops = append(ops, Op{Kind: "IterateDuring", Pos: pos, Via: g.r.Intn(2), Chain: chain})
	if g.r.Chance(50) {
		c := g.overlapOp(&nextId, 0, 10, &present, true)
		ops = append(ops, Op{Kind: "IterateDuring", Pos: g.r.Intn(n + 1), Via: g.r.Intn(2), Chain: []Op{c}})
	}
	return Input{Ops: ops}
}

// observedEnum: queue [1..n] x worker started or not x the element the observer is held up at x the
// overlapping operation (remove by id: each element and an absent id; RemoveFirst/RemoveLast; AddFirst/
// AddLast; AddBefore/AddAfter each element and an absent anchor; Filter dropping each element / all;
// the handler's Success with head and tail tasks, with after tasks, Keep, Fail).
func observedEnum(ns []int, vias []int) []Input {
	var ins []Input
	for _, n := range ns {
		for _, started := range []bool{false, true} {
			var chainOps []Op
			nt := func() *Task { return tp(7, 100) }
			for id := 1; id <= n; id++ {
				chainOps = append(chainOps, Op{Kind: "Remove", Id: id})
			}
			chainOps = append(chainOps, Op{Kind: "Remove", Id: 9}, Op{Kind: "RemoveFirst"}, Op{Kind: "RemoveLast"},
				Op{Kind: "AddFirst", T: nt()}, Op{Kind: "AddLast", T: nt()})
			for _, a := range []int{1, (n + 2) / 2, n, 9} {
				chainOps = append(chainOps, Op{Kind: "AddBefore", Id: a, T: nt()}, Op{Kind: "AddAfter", Id: a, T: nt()})
			}
			for drop := 0; drop <= n; drop++ { // drop == 0: keep nothing
				var keep []int
				for id := 1; id <= n; id++ {
					if drop != 0 && id != drop {
						keep = append(keep, id)
					}
				}
				chainOps = append(chainOps, Op{Kind: "Filter", Keep: keep})
			}
			if started {
				chainOps = append(chainOps,
					Op{Kind: "Return", St: "Success", Head: []Task{{7, 100}}, Tail: []Task{{8, 101}}},
					Op{Kind: "Return", St: "Success", After: []Task{{7, 100}, {8, 101}}},
					Op{Kind: "Return", St: "Success", Head: []Task{{7, 100}}, After: []Task{{8, 101}}, Tail: []Task{{7, 102}}, Share: 1},
					Op{Kind: "Return", St: "Keep", Head: []Task{{7, 100}}, After: []Task{{8, 101}}},
					Op{Kind: "Return", St: "Fail"})
			}
			for ci, c := range chainOps {
				for pos := 0; pos < n; pos++ {
					for _, via := range vias {
						if via == 2 { // alternate between the two observers
							via = (ci + pos) % 2
						}
						var ops []Op
						if started {
							ops = append(ops, Op{Kind: "Start"})
						}
						for id := 1; id <= n; id++ {
							ops = append(ops, Op{Kind: "AddLast", T: tp(id, id)})
						}
						ops = append(ops, Op{Kind: "IterateDuring", Pos: pos, Via: via, Chain: []Op{c}})
						ins = append(ins, Input{Ops: ops})
					}
				}
			}
		}
	}
	return ins
}

func tp(id, u int) *Task { return &Task{Id: id, Uniq: u} }

// Corpus: minimised past failures and witnesses; runs first.
func Corpus() []Input {
	return []Input{
		// F1 (fixed): AddAfter with an absent anchor used to leave an empty slot
		{Ops: []Op{{Kind: "AddLast", T: tp(1, 1)}, {Kind: "AddAfter", Id: 9, T: tp(2, 2)}}},
		{Ops: []Op{{Kind: "AddLast", T: tp(1, 1)}, {Kind: "AddBefore", Id: 9, T: tp(2, 2)}, {Kind: "Remove", Id: 2}}},
		// after-tasks of a task that was removed while it was being handled
		{Ops: []Op{{Kind: "Start"}, {Kind: "AddLast", T: tp(1, 1)}, {Kind: "AddLast", T: tp(2, 2)}, {Kind: "Remove", Id: 1},
			{Kind: "Return", St: "Success", After: []Task{{3, 3}, {4, 4}}, Head: []Task{{5, 5}}, Tail: []Task{{6, 6}}}}},
		// the handler's result slices share memory with each other / are reused by the handler: the queue copies
		{Ops: []Op{{Kind: "Start"}, {Kind: "AddLast", T: tp(1, 1)}, {Kind: "AddLast", T: tp(2, 2)},
			{Kind: "Return", St: "Success", Head: []Task{{3, 3}}, Tail: []Task{{4, 4}}, Share: 1}, {Kind: "Return", St: "Success"}}},
		{Ops: []Op{{Kind: "Start"}, {Kind: "AddLast", T: tp(1, 1)}, {Kind: "AddLast", T: tp(2, 2)}, {Kind: "AddLast", T: tp(3, 3)},
			{Kind: "Return", St: "Success", Head: []Task{{4, 4}}, Share: 3}, {Kind: "Return", St: "Keep", Head: []Task{{5, 5}}, Share: 3},
			{Kind: "Return", St: "Success", Head: []Task{{6, 6}, {7, 7}}, After: []Task{{8, 8}}, Share: 2}}},
		// atomicity: an operation issued by another goroutine while a Filter callback runs takes effect after the Filter
		{Ops: []Op{{Kind: "AddLast", T: tp(1, 1)}, {Kind: "AddLast", T: tp(2, 2)}, {Kind: "AddLast", T: tp(3, 3)},
			{Kind: "FilterDuring", Keep: []int{1, 3}, C: &Op{Kind: "AddLast", T: tp(4, 4)}}}},
		{Ops: []Op{{Kind: "AddLast", T: tp(1, 1)}, {Kind: "AddLast", T: tp(2, 2)}, {Kind: "AddLast", T: tp(3, 3)},
			{Kind: "FilterDuring", Keep: []int{1, 2}, C: &Op{Kind: "Remove", Id: 1}}}},
		// observers overlapping another goroutine's operations: the walk is a list the queue really held
		{Ops: []Op{{Kind: "AddLast", T: tp(1, 1)}, {Kind: "AddLast", T: tp(2, 2)}, {Kind: "AddLast", T: tp(3, 3)}, {Kind: "AddLast", T: tp(4, 4)},
			{Kind: "IterateDuring", Pos: 0, Chain: []Op{{Kind: "Remove", Id: 2}}}}},
		{Ops: []Op{{Kind: "AddLast", T: tp(1, 1)}, {Kind: "AddLast", T: tp(2, 2)}, {Kind: "AddLast", T: tp(3, 3)}, {Kind: "AddLast", T: tp(4, 4)},
			{Kind: "IterateDuring", Pos: 1, Via: 1, Chain: []Op{{Kind: "Remove", Id: 1}, {Kind: "AddFirst", T: tp(5, 5)}, {Kind: "RemoveLast"}}}}},
		{Ops: []Op{{Kind: "Start"}, {Kind: "AddLast", T: tp(1, 1)}, {Kind: "AddLast", T: tp(2, 2)}, {Kind: "AddLast", T: tp(3, 3)},
			{Kind: "IterateDuring", Pos: 1, Chain: []Op{{Kind: "AddAfter", Id: 2, T: tp(4, 4)},
				{Kind: "Return", St: "Success", Head: []Task{{5, 5}}, After: []Task{{6, 6}}, Tail: []Task{{7, 7}}}}},
			{Kind: "IterateDuring", Pos: 9, Via: 1, Chain: []Op{{Kind: "Filter", Keep: []int{5, 6, 7}}}}}},
		// plain result application
		{Ops: []Op{{Kind: "Start"}, {Kind: "AddLast", T: tp(1, 1)}, {Kind: "AddLast", T: tp(2, 2)},
			{Kind: "Return", St: "Success", After: []Task{{3, 3}, {4, 4}}, Head: []Task{{5, 5}, {6, 6}}, Tail: []Task{{1, 7}}}}},
		{Ops: []Op{{Kind: "Start"}, {Kind: "AddLast", T: tp(1, 1)}, {Kind: "AddLast", T: tp(2, 2)},
			{Kind: "Return", St: "Keep", After: []Task{{3, 3}, {4, 4}}, Head: []Task{{5, 5}}}, {Kind: "Return", St: "Fail"}, {Kind: "Return", St: "Repeat"}}},
	}
}

// TriggerCorpus: witnesses of the known finding F14 (namesake ahead of the handled task).
func TriggerCorpus() []Input {
	return []Input{
		{Ops: []Op{{Kind: "Start"}, {Kind: "AddLast", T: tp(1, 1)}, {Kind: "AddFirst", T: tp(1, 2)}, {Kind: "Return", St: "Success"}}},
	}
}

func exhaustiveAlphabet() []Op {
	var a []Op
	a = append(a, Op{Kind: "RemoveFirst"}, Op{Kind: "RemoveLast"}, Op{Kind: "Filter", Keep: []int{1}})
	for _, id := range []int{1, 2} {
		a = append(a, Op{Kind: "AddFirst", T: tp(id, 0)}, Op{Kind: "AddLast", T: tp(id, 0)}, Op{Kind: "Remove", Id: id})
	}
	for _, anchor := range []int{1, 2, 9} {
		a = append(a, Op{Kind: "AddAfter", Id: anchor, T: tp(3, 0)}, Op{Kind: "AddBefore", Id: anchor, T: tp(3, 0)})
	}
	a = append(a,
		Op{Kind: "Return", St: "Success"},
		Op{Kind: "Return", St: "Success", Head: []Task{{4, 0}}, After: []Task{{5, 0}, {6, 0}}, Tail: []Task{{2, 0}}},
		Op{Kind: "Return", St: "Keep", After: []Task{{5, 0}, {6, 0}}},
		Op{Kind: "Return", St: "Fail", After: []Task{{5, 0}}},
		Op{Kind: "Return", St: "Repeat"},
	)
	return a
}

// number uniq tags in order of appearance
func renumber(ops []Op) []Op {
	u := 0
	cp := func(ts []Task) []Task {
		var r []Task
		for _, t := range ts {
			u++
			r = append(r, Task{t.Id, u})
		}
		return r
	}
	var out []Op
	for _, o := range ops {
		n := o
		if o.T != nil {
			u++
			n.T = &Task{o.T.Id, u}
		}
		n.Head, n.After, n.Tail = cp(o.Head), cp(o.After), cp(o.Tail)
		out = append(out, n)
	}
	return out
}

func Gen(r *core.Rng, tier string) ([]core.In[Input], bool) {
	var ins []core.In[Input]
	for _, c := range Corpus() {
		ins = append(ins, core.In[Input]{Input: c, Stream: "corpus"})
	}
	for _, c := range TriggerCorpus() {
		ins = append(ins, core.In[Input]{Input: c, Stream: "trigger"})
	}
	g := &gen{r: r}
	nRandom, maxLen := 400, 12
	if tier == "thorough" {
		nRandom, maxLen = 20000, 30
	}
	if tier == "search" {
		nRandom, maxLen = 3000, 16
	}
	for i := 0; i < nRandom; i++ {
		n := 2 + g.r.Intn(maxLen-1)
		if i%10 == 9 {
			// trigger stream: many duplicate ids (exercises the known finding F14)
			ins = append(ins, core.In[Input]{Input: g.sequence(n, 40, 25), Stream: "trigger"})
		} else {
			ins = append(ins, core.In[Input]{Input: g.sequence(n, 0, 12), Stream: "random"})
		}
		if i%6 == 5 {
			// one of the ids in use is the empty string
			ins[len(ins)-1].Input.EmptyId = 1 + g.r.Intn(4)
		}
	}
	// bursts: the queue grows to 64-130 tasks (the backing array is reallocated several times),
	// then drains by id in random order, with the worker handling tasks on the way: sizes no
	// short sequence reaches
	nBurst := 4
	if tier == "thorough" {
		nBurst = 60
	}
	if tier == "search" {
		nBurst = 20
	}
	for i := 0; i < nBurst; i++ {
		ins = append(ins, core.In[Input]{Input: g.burst(), Stream: "burst"})
	}
	// observers: systematic (queue size x worker x held-up element x overlapping operation) and random
	// (several overlapping operations)
	enumNs, enumVias, nObserved := []int{2, 3, 4}, []int{2}, 150
	if tier == "thorough" {
		enumNs, enumVias, nObserved = []int{1, 2, 3, 4, 5}, []int{0, 1}, 6000
	}
	if tier == "search" {
		nObserved = 1000
	}
	for _, c := range observedEnum(enumNs, enumVias) {
		ins = append(ins, core.In[Input]{Input: c, Stream: "observed-enum"})
	}
	for i := 0; i < nObserved; i++ {
		ins = append(ins, core.In[Input]{Input: g.observed(), Stream: "observed"})
	}
	exhaustive := false
	if tier == "thorough" || tier == "search" {
		// exhaustive: Start followed by every sequence of 1..3 operations of the alphabet
		alpha := exhaustiveAlphabet()
		depth := 3
		var rec func(prefix []Op, d int)
		rec = func(prefix []Op, d int) {
			if len(prefix) > 1 {
				ins = append(ins, core.In[Input]{Input: Input{Ops: renumber(prefix)}, Stream: "exhaustive"})
			}
			if d == 0 {
				return
			}
			for _, o := range alpha {
				rec(append(append([]Op{}, prefix...), o), d-1)
			}
		}
		rec([]Op{{Kind: "Start"}}, depth)
		exhaustive = false // the random stream is sampled; the exhaustive stream is complete for its alphabet (see extra)
	}
	return ins, exhaustive
}

var Driver = core.Driver[Input, Observation]{
	Spec: core.Spec{Property: "C05", Imports: []string{"C05_Model", "C05_Spec", "C05_Corr"}, Corr: "C05_Corr", Triggers: []string{"F14"}, ShrinkKey: "ops",
		Rule: "op sequences on a fresh TaskQueue (public API + started worker with a scripted handler); streams: corpus, burst (64-130 tasks queued, then removed by id in random order), random (fresh ids, 12% arbitrary anchors), trigger (40% reused ids), exhaustive (thorough: Start + all sequences of <=3 ops over a 19-op alphabet); 40% of the Filter operations have another goroutine issue an add/remove while the callback runs (FilterDuring: atomicity of the operations); IterateDuring = an observer (Iterate with a callback, or String()) held up at a chosen element while another goroutine issues operations (the walk must be one of the lists the queue passes through): streams observed-enum (queue [1..n], n=2..4 (thorough 1..5) x worker started or not x every element to be held up at x every overlapping operation: Remove of each element / an absent id, RemoveFirst, RemoveLast, AddFirst, AddLast, AddBefore/AddAfter at the first, a middle, the last element and an absent anchor, Filter dropping each element / everything, the handler's Success with head+tail / after / all three, Keep, Fail), observed (1-7 tasks, 1-5 overlapping operations, the last possibly the handler's return, sometimes a second observer) and 8% of the operations of the random and trigger streams; non-trivial = >=3 ops of >=2 kinds with a non-empty queue at some point; distinct = distinct op sequence text"},
	Gen: Gen, Run: Run, Render: Render, PerShard: 1000, Workers: 8, CaseTimout: 8 * time.Second,
}
