// Package c18: correspondence driver for C18 (the execution rate limit from `settings`).
//
// Kinds of cases.  Operator level (op.go): the real operator with settings in the
// hooks' configurations, scripted executions that succeed or FAIL, and a count of what
// starts; timed operator level (timed.go: short intervals, sleepers wake up; held.go: a queue
// shared by several hooks is held while events keep arriving).  Limiter level (this file): a case writes a v1 hook configuration with a `settings:` block, loads it with the real
// Hook.LoadConfig (HookConfig.LoadAndValidate + CreateRateLimiter), and then drives the
// real *rate.Limiter the hook got with ReserveN(t, 1) on a SYNTHETIC clock (time.Time
// values chosen by the generator).  A second hook instance loaded from the same text is
// probed through Hook.RateLimitWait with a short context deadline on the wall clock:
// no call ever sleeps longer than the deadline.
package c18

import (
	"context"
	"encoding/json"
	"fmt"
	"sort"
	"strings"
	"time"

	"github.com/deckhouse/deckhouse/pkg/log"
	"golang.org/x/time/rate"

	"github.com/flant/shell-operator/pkg/hook"

	"verifharness/internal/core"
	"verifharness/internal/opsim"
)

type Input struct {
	Config      string  `json:"config"`       // the text given to Hook.LoadConfig
	HasSettings bool    `json:"has_settings"` // a settings block is present
	IntervalNs  *int64  `json:"interval_ns"`  // nil = key absent; the value the generator wrote, in ns
	IntervalStr string  `json:"interval_str"`
	Burst       *int64  `json:"burst"` // nil = key absent
	Arrivals    []int64 `json:"arrivals"`
	ProbeN      int     `json:"probe_n"`
	BudgetNs    int64   `json:"budget_ns"`
	Pattern     string  `json:"pattern"`
	// concurrent waiters: that many goroutines call Hook.RateLimitWait at once (0 = no such probe)
	ConcN int `json:"conc_n,omitempty"`
	// operator-level case (op.go); nil = limiter-level case
	Op *OpIn `json:"op,omitempty"`
	// timed operator-level case (timed.go)
	Timed *TimedIn `json:"timed,omitempty"`
	// timed operator-level case with a shared queue that is held (held.go)
	Held *HeldIn `json:"held,omitempty"`
	// timed operator-level case with hooks of every shape: start-up, idle periods, single events (shape.go)
	Shape *ShapeIn `json:"shape,omitempty"`
	// Seq is the list delta debugging may shorten (Spec.ShrinkKey): a mirror of Arrivals
	// (limiter level), of Op.Acts (operator level), of Timed.Plan or of Held.Plan, written by Explicit into every recorded
	// input; when present it wins over the list it mirrors.
	Seq []json.RawMessage `json:"seq,omitempty"`
}

// MarshalJSON keeps operator-level inputs free of the limiter-level members.
func (in Input) MarshalJSON() ([]byte, error) {
	if in.Shape != nil {
		return json.Marshal(struct {
			Shape *ShapeIn          `json:"shape"`
			Seq   []json.RawMessage `json:"seq,omitempty"`
		}{in.Shape, in.Seq})
	}
	if in.Held != nil {
		return json.Marshal(struct {
			Held *HeldIn           `json:"held"`
			Seq  []json.RawMessage `json:"seq,omitempty"`
		}{in.Held, in.Seq})
	}
	if in.Timed != nil {
		return json.Marshal(struct {
			Timed *TimedIn          `json:"timed"`
			Seq   []json.RawMessage `json:"seq,omitempty"`
		}{in.Timed, in.Seq})
	}
	if in.Op != nil {
		return json.Marshal(struct {
			Op  *OpIn             `json:"op"`
			Seq []json.RawMessage `json:"seq,omitempty"`
		}{in.Op, in.Seq})
	}
	type plain Input
	return json.Marshal(plain(in))
}

// normalize applies Seq (see Input).
func normalize(in Input) Input {
	if in.Seq == nil {
		return in
	}
	if in.Shape != nil {
		t := *in.Shape
		t.Plan = nil
		for _, raw := range in.Seq {
			var a SStep
			if json.Unmarshal(raw, &a) == nil {
				t.Plan = append(t.Plan, a)
			}
		}
		in.Shape = &t
		in.Seq = nil
		return in
	}
	if in.Held != nil {
		t := *in.Held
		t.Plan = nil
		for _, raw := range in.Seq {
			var a HStep
			if json.Unmarshal(raw, &a) == nil {
				t.Plan = append(t.Plan, a)
			}
		}
		in.Held = &t
		in.Seq = nil
		return in
	}
	if in.Timed != nil {
		t := *in.Timed
		t.Plan = nil
		for _, raw := range in.Seq {
			var a TTick
			if json.Unmarshal(raw, &a) == nil {
				t.Plan = append(t.Plan, a)
			}
		}
		in.Timed = &t
		in.Seq = nil
		return in
	}
	if in.Op != nil {
		op := *in.Op
		op.Acts = nil
		for _, raw := range in.Seq {
			var a opsim.Action
			if json.Unmarshal(raw, &a) == nil {
				op.Acts = append(op.Acts, a)
			}
		}
		op.Seed, op.Steps = 0, 0
		if len(op.Acts) == 0 {
			op.Acts = []opsim.Action{{Kind: "Boot"}}
		}
		in.Op = &op
	} else {
		in.Arrivals = nil
		for _, raw := range in.Seq {
			var a int64
			if json.Unmarshal(raw, &a) == nil {
				in.Arrivals = append(in.Arrivals, a)
			}
		}
	}
	in.Seq = nil
	return in
}

// Explicit is what replay files and the shrinker see: the script that was really executed
// instead of a seed, and Seq.
func Explicit(in Input, obs *Obs) Input {
	in = normalize(in)
	if in.Shape != nil {
		for _, a := range in.Shape.Plan {
			b, _ := json.Marshal(a)
			in.Seq = append(in.Seq, b)
		}
		return in
	}
	if in.Held != nil {
		for _, a := range in.Held.Plan {
			b, _ := json.Marshal(a)
			in.Seq = append(in.Seq, b)
		}
		return in
	}
	if in.Timed != nil {
		for _, a := range in.Timed.Plan {
			b, _ := json.Marshal(a)
			in.Seq = append(in.Seq, b)
		}
		return in
	}
	if in.Op != nil {
		op := *in.Op
		if obs != nil && obs.Op != nil && len(obs.Op.Acts) > 0 {
			op.Acts, op.Seed, op.Steps = obs.Op.Acts, 0, 0
		}
		in.Op = &op
		for _, a := range op.Acts {
			b, _ := json.Marshal(a)
			in.Seq = append(in.Seq, b)
		}
		return in
	}
	for _, a := range in.Arrivals {
		b, _ := json.Marshal(a)
		in.Seq = append(in.Seq, b)
	}
	return in
}

type Obs struct {
	Loaded  bool     `json:"loaded"`
	LoadErr string   `json:"load_err,omitempty"`
	Inf     bool     `json:"inf"`
	Burst   int64    `json:"burst"`
	Acts    []*int64 `json:"acts"` // nil entry = reservation not OK
	Probe   []bool   `json:"probe"`
	WallNs  int64    `json:"wall_ns"`
	// concurrent waiters: instants (ns after the anchor taken before the goroutines were
	// launched) at which RateLimitWait returned nil, in the order they were observed; ConcErr
	// counts the calls that returned an error
	Conc    []int64   `json:"conc,omitempty"`
	ConcErr int       `json:"conc_err,omitempty"`
	Op      *OpObs    `json:"op,omitempty"`
	Timed   *TimedObs `json:"timed,omitempty"`
	Held    *HeldObs  `json:"held,omitempty"`
	Shape   *ShapeObs `json:"shape,omitempty"`
}

var base = time.Unix(1_700_000_000, 0)

func load(cfg string) (*hook.Hook, error) {
	h := hook.NewHook("c18-hook", "/nonexistent/c18-hook", false, false, "", log.NewNop())
	_, err := h.LoadConfig([]byte(cfg))
	return h, err
}

func Run(in Input) Obs {
	var o Obs
	in = normalize(in)
	if in.Shape != nil {
		o.Shape = runShape(*in.Shape)
		return o
	}
	if in.Held != nil {
		o.Held = runHeld(*in.Held)
		return o
	}
	if in.Timed != nil {
		o.Timed = runTimed(*in.Timed)
		return o
	}
	if in.Op != nil {
		o.Op = runOp(*in.Op)
		return o
	}
	h, err := load(in.Config)
	if err != nil {
		msg := err.Error()
		if i := strings.Index(msg, "\nhook --config output"); i >= 0 {
			msg = msg[:i]
		}
		o.LoadErr = msg
		return o
	}
	o.Loaded = true
	lim := h.RateLimiter
	o.Inf = lim.Limit() == rate.Inf
	o.Burst = int64(lim.Burst())
	for _, a := range in.Arrivals {
		t := base.Add(time.Duration(a))
		r := lim.ReserveN(t, 1)
		if !r.OK() {
			o.Acts = append(o.Acts, nil)
			continue
		}
		// saturate instead of overflowing (a mutant can make the delay absurdly long);
		// 2^63-1 is reserved for "refused"
		d := int64(r.DelayFrom(t))
		act := int64(1<<63 - 2)
		if d >= 0 && a >= 0 && d < act-a {
			act = a + d
		}
		o.Acts = append(o.Acts, &act)
	}
	if in.ProbeN > 0 {
		h2, err := load(in.Config)
		if err == nil {
			t0 := time.Now()
			for k := 0; k < in.ProbeN; k++ {
				ctx, cancel := context.WithTimeout(context.Background(), time.Duration(in.BudgetNs))
				err := h2.RateLimitWait(ctx)
				cancel()
				o.Probe = append(o.Probe, err == nil)
			}
			o.WallNs = int64(time.Since(t0))
		}
	}
	if in.ConcN > 0 {
		// several workers (one per queue that carries tasks of the hook) enter RateLimitWait of
		// ONE hook at the same time.  The returns are observed by this goroutine, one clock.
		h3, err := load(in.Config)
		if err == nil {
			type ret struct{ ok bool }
			done := make(chan ret, in.ConcN)
			anchor := time.Now()
			for k := 0; k < in.ConcN; k++ {
				go func() {
					err := h3.RateLimitWait(context.Background())
					done <- ret{err == nil}
				}()
			}
			for k := 0; k < in.ConcN; k++ {
				r := <-done
				at := int64(time.Since(anchor))
				if r.ok {
					o.Conc = append(o.Conc, at)
				} else {
					o.ConcErr++
				}
			}
		}
	}
	return o
}

// ---- rendering ----

// Instants are printed as primitive 63-bit integers and converted to Z inside Coq
// (C18_Corr.zp / zn / zl / ol): a 14-digit Z literal costs ~1 ms to elaborate.
func coqZ(n int64) string {
	if n < 0 {
		return fmt.Sprintf("(zn %d)", -n)
	}
	return fmt.Sprintf("(zp %d)", n)
}

func coqOZ(p *int64) string {
	if p == nil {
		return "None"
	}
	return "(Some " + coqZ(*p) + ")"
}

func coqInts(xs []int64) string {
	return "(zl " + core.CoqList(xs, func(x int64) string { return fmt.Sprintf("%d", x) }) + "%uint63)"
}

// granted instants; 2^63-1 (C18_Corr.refused) stands for "reservation not OK"
func coqActs(xs []*int64) string {
	return "(ol " + core.CoqList(xs, func(x *int64) string {
		if x == nil {
			return "9223372036854775807"
		}
		return fmt.Sprintf("%d", *x)
	}) + "%uint63)"
}

func Render(in Input, obs *Obs, crash string) core.Case {
	in = normalize(in)
	if in.Shape != nil {
		var so *ShapeObs
		if obs != nil {
			so = obs.Shape
		}
		return renderShape(*in.Shape, so, crash)
	}
	if in.Held != nil {
		var ho *HeldObs
		if obs != nil {
			ho = obs.Held
		}
		return renderHeld(*in.Held, ho, crash)
	}
	if in.Timed != nil {
		var to *TimedObs
		if obs != nil {
			to = obs.Timed
		}
		return renderTimed(*in.Timed, to, crash)
	}
	if in.Op != nil {
		var oo *OpObs
		if obs != nil {
			oo = obs.Op
		}
		return renderOp(*in.Op, oo, crash)
	}
	var o Obs
	if obs != nil {
		o = *obs
	}
	raw := "None"
	if in.HasSettings {
		raw = fmt.Sprintf("(Some (mkRaw %s %s))", coqOZ(in.IntervalNs), coqOZ(in.Burst))
	}
	c := core.Case{}
	coqObs := fmt.Sprintf("(mkObs %s %s %s %s %s %s %s)", core.CoqBool(o.Loaded), core.CoqBool(o.Inf), coqZ(o.Burst),
		coqActs(o.Acts), core.CoqList(o.Probe, core.CoqBool), coqZ(o.WallNs), coqInts(o.Conc))
	if crash != "" {
		// a crash is reported as a direct finding by the driver; make the case a mismatch as well
		coqObs = "(mkObs true true (zn 7) [] [] (zp 0) [])"
	}
	c.Coq = fmt.Sprintf("(CLim (mkCase %s %s %d %s %d\n  %s))", raw, coqInts(in.Arrivals), in.ProbeN, coqZ(in.BudgetNs), in.ConcN, coqObs)
	c.JSON = o
	b, _ := json.Marshal(in.Arrivals)
	c.Key = fmt.Sprintf("%v|%s|%s|%s|%d|%d", in.HasSettings, coqOZ(in.IntervalNs), coqOZ(in.Burst), b, in.ProbeN, in.ConcN)

	// tags
	c.Tags = append(c.Tags, "class:limiter")
	switch {
	case !in.HasSettings:
		c.Tags = append(c.Tags, "cfg:no-settings")
	case in.IntervalNs == nil || in.Burst == nil:
		c.Tags = append(c.Tags, "cfg:key-absent")
	case *in.IntervalNs <= 0:
		c.Tags = append(c.Tags, "cfg:interval<=0")
	default:
		c.Tags = append(c.Tags, "cfg:limited")
	}
	if in.Burst != nil {
		switch b := *in.Burst; {
		case b < 0:
			c.Tags = append(c.Tags, "B:negative")
		case b == 0:
			c.Tags = append(c.Tags, "B:0")
		case b == 1:
			c.Tags = append(c.Tags, "B:1")
		case b <= 3:
			c.Tags = append(c.Tags, "B:2-3")
		case b <= 12:
			c.Tags = append(c.Tags, "B:4-12")
		default:
			c.Tags = append(c.Tags, "B:large")
		}
	}
	if in.IntervalNs != nil && *in.IntervalNs > 0 {
		switch i := *in.IntervalNs; {
		case i < int64(time.Millisecond):
			c.Tags = append(c.Tags, "I:<1ms")
		case i < int64(time.Second):
			c.Tags = append(c.Tags, "I:<1s")
		case i < int64(time.Minute):
			c.Tags = append(c.Tags, "I:<1m")
		default:
			c.Tags = append(c.Tags, "I:>=1m")
		}
	}
	c.Tags = append(c.Tags, "pattern:"+in.Pattern, fmt.Sprintf("arrivals:%02d+", len(in.Arrivals)/10*10))
	if !o.Loaded {
		c.Tags = append(c.Tags, "load:rejected")
	}
	delayed, refused := 0, 0
	for i, a := range o.Acts {
		if a == nil {
			refused++
		} else if i < len(in.Arrivals) && *a > in.Arrivals[i] {
			delayed++
		}
	}
	if delayed > 0 {
		c.Tags = append(c.Tags, "some-request-delayed")
	}
	if refused > 0 {
		c.Tags = append(c.Tags, "some-request-refused")
	}
	if in.ProbeN > 0 {
		c.Tags = append(c.Tags, "wait-probe")
	}
	concDelayed := 0
	for _, at := range o.Conc {
		if in.IntervalNs != nil && *in.IntervalNs > 0 && at >= *in.IntervalNs {
			concDelayed++
		}
	}
	if in.ConcN > 0 {
		c.Tags = append(c.Tags, "concurrent-waiters", fmt.Sprintf("concurrent-waiters:%d", in.ConcN))
		if concDelayed >= 2 {
			c.Tags = append(c.Tags, "concurrent-waiters:stacked-reservations")
		}
	}
	// non-trivial: accepted configuration, at least 3 requests, and a limited hook really delays one
	c.Nontrivial = o.Loaded && len(in.Arrivals) >= 3 && (o.Inf || delayed > 0)
	if in.ConcN > 0 {
		// concurrent waiters: at least two of them had to sleep (their reservations stack)
		c.Nontrivial = o.Loaded && concDelayed >= 2
	}
	return c
}

// ---- generation ----

type dur struct {
	s  string
	ns int64
}

var fixedDurations = []dur{
	{"1us", 1000}, {"100us", 100_000}, {"1ms", 1_000_000}, {"7ms", 7_000_000}, {"250ms", 250_000_000},
	{"1s", 1e9}, {"1.5s", 15e8}, {"3s", 3e9}, {"5s", 5e9}, {"10s", 10e9}, {"20s", 20e9}, {"30s", 30e9},
	{"1m", 60e9}, {"1m30s", 90e9}, {"10m", 600e9}, {"1h", 3600e9}, {"1h0m0.5s", 3600e9 + 5e8}, {"0.1s", 1e8},
	{"2m0.000000001s", 120e9 + 1}, {"333ms", 333_000_000},
}

func genDuration(r *core.Rng) dur {
	switch k := r.Intn(100); {
	case k < 55:
		return fixedDurations[r.Intn(len(fixedDurations))]
	case k < 70:
		ms := int64(1 + r.Intn(100000))
		return dur{fmt.Sprintf("%dms", ms), ms * 1e6}
	case k < 80:
		ns := int64(1000 + r.Intn(2_000_000_000))
		return dur{fmt.Sprintf("%dns", ns), ns}
	case k < 88:
		s, ms := int64(r.Intn(120)), int64(r.Intn(1000))
		return dur{fmt.Sprintf("%d.%03ds", s, ms), s*1e9 + ms*1e6}
	case k < 94:
		return []dur{{"0s", 0}, {"0", 0}, {"0ms", 0}}[r.Intn(3)]
	default:
		return []dur{{"-5s", -5e9}, {"-1ns", -1}}[r.Intn(2)]
	}
}

func genBurst(r *core.Rng) int64 {
	switch k := r.Intn(100); {
	case k < 12:
		return 0
	case k < 35:
		return 1
	case k < 55:
		return 2
	case k < 70:
		return 3
	case k < 90:
		return int64(4 + r.Intn(9))
	case k < 94:
		return 1_000_000
	case k < 97:
		return -1 - int64(r.Intn(3))
	default:
		return []int64{2147483647, 2147483648, -2147483648, -2147483649}[r.Intn(4)]
	}
}

var bindings = []struct{ yaml, json string }{
	{"onStartup: 1\n", `"onStartup":1`},
	{"schedule:\n- crontab: \"* * * * *\"\n", `"schedule":[{"crontab":"* * * * *"}]`},
	{"kubernetes:\n- apiVersion: v1\n  kind: Pod\n  executeHookOnEvent: [\"Added\"]\n", `"kubernetes":[{"apiVersion":"v1","kind":"Pod"}]`},
	{"onStartup: 5\nschedule:\n- name: s\n  crontab: \"*/5 * * * *\"\n  queue: q1\n", `"onStartup":5,"schedule":[{"name":"s","crontab":"*/5 * * * *","queue":"q1"}]`},
}

func configText(r *core.Rng, has bool, iv *dur, burst *int64) string {
	b := bindings[r.Intn(len(bindings))]
	if r.Chance(25) {
		// JSON rendering
		parts := []string{`"configVersion":"v1"`}
		if has {
			var s []string
			if iv != nil {
				s = append(s, fmt.Sprintf(`"executionMinInterval":%q`, iv.s))
			}
			if burst != nil {
				s = append(s, fmt.Sprintf(`"executionBurst":%d`, *burst))
			}
			parts = append(parts, `"settings":{`+strings.Join(s, ",")+`}`)
		}
		parts = append(parts, b.json)
		return "{" + strings.Join(parts, ",") + "}"
	}
	var sb strings.Builder
	sb.WriteString("configVersion: v1\n")
	settings := ""
	if has {
		settings = "settings:\n"
		if iv == nil && burst == nil {
			settings = "settings: {}\n"
		}
		if iv != nil {
			if iv.s == "0" || r.Chance(40) {
				settings += fmt.Sprintf("  executionMinInterval: %q\n", iv.s)
			} else {
				settings += fmt.Sprintf("  executionMinInterval: %s\n", iv.s)
			}
		}
		if burst != nil {
			settings += fmt.Sprintf("  executionBurst: %d\n", *burst)
		}
	}
	if r.Bool() {
		sb.WriteString(settings)
		sb.WriteString(b.yaml)
	} else {
		sb.WriteString(b.yaml)
		sb.WriteString(settings)
	}
	return sb.String()
}

// arrival patterns, scaled by the interval (or 1 s when there is none)
func genArrivals(r *core.Rng, I int64, maxN int) ([]int64, string) {
	if I <= 0 {
		I = 1e9
	}
	n := 1 + r.Intn(maxN)
	t := int64(r.Intn(3)) * int64(r.Intn(1_000_000_000))
	var a []int64
	pat := []string{"burst", "steady", "bursts+pauses", "random", "long-pause", "jitter", "steady", "random", "bursts+pauses", "unsorted"}[r.Intn(10)]
	if pat == "unsorted" && !r.Chance(30) {
		pat = "random"
	}
	switch pat {
	case "burst":
		for i := 0; i < n; i++ {
			a = append(a, t)
		}
	case "steady":
		p := []int64{I / 4, I / 2, I - 1, I, I + 1, 2 * I, 3*I/2 + 7, I / 3, 1, int64(r.Intn(int(min64(2*I, 1<<40)) + 1))}[r.Intn(10)]
		for i := 0; i < n; i++ {
			a = append(a, t)
			t += p
		}
	case "bursts+pauses":
		for len(a) < n {
			k := 1 + r.Intn(6)
			for i := 0; i < k && len(a) < n; i++ {
				a = append(a, t)
			}
			t += int64(r.Intn(8)) * I / 2
			if r.Chance(30) {
				t += int64(r.Intn(1000))
			}
		}
	case "random", "unsorted":
		for i := 0; i < n; i++ {
			a = append(a, t)
			if !r.Chance(30) {
				t += int64(r.Next() % uint64(2*I+1))
			}
		}
	case "long-pause":
		k := r.Intn(n + 1)
		for i := 0; i < n; i++ {
			if i == k {
				t += int64(20+r.Intn(200)) * I
			}
			a = append(a, t)
			if r.Chance(40) {
				t += int64(r.Next() % uint64(I+1))
			}
		}
	case "jitter":
		for i := 0; i < n; i++ {
			j := int64(r.Intn(2001)) - 1000
			x := t + int64(i)*I + j
			if x < 0 {
				x = 0
			}
			a = append(a, x)
		}
		sort.Slice(a, func(i, j int) bool { return a[i] < a[j] })
	}
	if pat == "unsorted" {
		for i := len(a) - 1; i > 0; i-- {
			j := r.Intn(i + 1)
			a[i], a[j] = a[j], a[i]
		}
	}
	return a, pat
}

func min64(a, b int64) int64 {
	if a < b {
		return a
	}
	return b
}

const budget = int64(50 * time.Millisecond)

func finish(r *core.Rng, in Input, iv *dur, allowProbe bool) Input {
	// the wall-clock probe is only meaningful when real-time jitter cannot matter:
	// unlimited hooks, or I >= 10 s (the deadline is 50 ms)
	if allowProbe {
		switch {
		case !in.HasSettings:
			in.ProbeN = 3
		case iv != nil && in.Burst != nil && *in.Burst >= -2147483648 && *in.Burst <= 2147483647:
			b := *in.Burst
			if b == 0 {
				b = 1
			}
			if iv.ns <= 0 {
				in.ProbeN = 3
			} else if iv.ns >= 10e9 && b <= 12 {
				if b < 0 {
					b = 0
				}
				in.ProbeN = int(b) + 2
			}
		}
		if in.ProbeN > 0 {
			in.BudgetNs = budget
		}
	}
	return in
}

func genCase(r *core.Rng, maxN int) Input {
	in := Input{}
	var iv *dur
	k := r.Intn(100)
	switch {
	case k < 12:
		// no settings
	case k < 16:
		// a key is absent (the configuration is rejected by the code as it is)
		in.HasSettings = true
		switch r.Intn(3) {
		case 0:
			d := genDuration(r)
			iv = &d
		case 1:
			b := genBurst(r)
			in.Burst = &b
		}
	default:
		in.HasSettings = true
		d := genDuration(r)
		iv = &d
		b := genBurst(r)
		in.Burst = &b
	}
	var I int64
	if iv != nil {
		in.IntervalNs = &iv.ns
		in.IntervalStr = iv.s
		I = iv.ns
	}
	in.Config = configText(r, in.HasSettings, iv, in.Burst)
	in.Arrivals, in.Pattern = genArrivals(r, I, maxN)
	return finish(r, in, iv, r.Chance(50))
}

func fixedCase(ivs string, ns int64, burst *int64, has bool, arr []int64, pat string) Input {
	in := Input{HasSettings: has, Burst: burst, Arrivals: arr, Pattern: pat}
	var iv *dur
	if ivs != "" {
		iv = &dur{ivs, ns}
		in.IntervalNs = &iv.ns
		in.IntervalStr = ivs
	}
	cfg := "configVersion: v1\nonStartup: 1\n"
	if has {
		cfg += "settings:\n"
		if iv != nil {
			cfg += "  executionMinInterval: " + ivs + "\n"
		}
		if burst != nil {
			cfg += fmt.Sprintf("  executionBurst: %d\n", *burst)
		}
	}
	in.Config = cfg
	return finish(nil, in, iv, true)
}

func i64(x int64) *int64 { return &x }

// concurrent waiters: short intervals, B 1..3, B+2..B+4 goroutines in RateLimitWait at once
// (the last of them returns (n-B)*I after the launch: at most ~0.5 s)
var concDurations = []dur{{"20ms", 20e6}, {"30ms", 30e6}, {"50ms", 50e6}, {"0.08s", 80e6}, {"100ms", 100e6}, {"120ms", 120e6}}

func genConc(r *core.Rng) Input {
	in := Input{Pattern: "concurrent", Arrivals: []int64{0, 0, 0}}
	var iv *dur
	switch k := r.Intn(100); {
	case k < 8:
		// no settings: nobody waits
		in.ConcN = 3 + r.Intn(3)
	case k < 14:
		in.HasSettings = true
		d := dur{"0s", 0}
		iv = &d
		in.Burst = i64(int64(1 + r.Intn(3)))
		in.ConcN = 3 + r.Intn(3)
	default:
		in.HasSettings = true
		d := concDurations[r.Intn(len(concDurations))]
		iv = &d
		b := []int64{1, 1, 1, 2, 2, 3}[r.Intn(6)]
		in.Burst = &b
		in.ConcN = int(b) + 2 + r.Intn(3)
	}
	if iv != nil {
		in.IntervalNs = &iv.ns
		in.IntervalStr = iv.s
	}
	in.Config = configText(r, in.HasSettings, iv, in.Burst)
	return in
}

func concCase(ivs string, ns int64, burst int64, n int) Input {
	in := fixedCase(ivs, ns, i64(burst), true, []int64{0, 0, 0}, "corpus")
	in.ProbeN, in.BudgetNs = 0, 0
	in.ConcN = n
	return in
}

// Corpus: the documented examples, the boundary configurations and past failures; runs first.
func Corpus() []Input {
	s := int64(1e9)
	return []Input{
		// docs/src/HOOKS.md: 3s / 1 ; examples/220-execution-rate: 5s / 2
		fixedCase("3s", 3*s, i64(1), true, []int64{0, 0, 0, s, 2 * s, 10 * s, 10 * s}, "corpus"),
		fixedCase("5s", 5*s, i64(2), true, []int64{0, 0, 0, 0, s, 2 * s, 60 * s}, "corpus"),
		// the design's placement scenario: 1h / 2, six events
		fixedCase("1h", 3600*s, i64(2), true, []int64{0, s, 2 * s, 3 * s, 4 * s, 5 * s}, "corpus"),
		// burst 0 is read as 1
		fixedCase("20s", 20*s, i64(0), true, []int64{0, 0, 0, 30 * s}, "corpus"),
		// no settings; zero interval; negative interval
		fixedCase("", 0, nil, false, []int64{0, 0, 0, 1, 2, 3}, "corpus"),
		fixedCase("0s", 0, i64(3), true, []int64{0, 0, 0, 0, 0}, "corpus"),
		fixedCase("-5s", -5*s, i64(1), true, []int64{0, 0, 0}, "corpus"),
		// keys absent: rejected
		fixedCase("30s", 30*s, nil, true, []int64{0, 0}, "corpus"),
		fixedCase("", 0, i64(3), true, []int64{0, 0}, "corpus"),
		// negative burst: every reservation is refused (the hook would never run)
		fixedCase("10s", 10*s, i64(-1), true, []int64{0, 0, 100 * s}, "corpus"),
		// awkward float arithmetic
		fixedCase("333ms", 333_000_000, i64(3), true, []int64{0, 1, 2, 3, 4, 5, 6, 7, 333_000_001, 999_999_999}, "corpus"),
		// concurrent waiters of one hook: reservations stack (I, 2I, 3I after the burst)
		concCase("100ms", 100_000_000, 1, 4),
		concCase("50ms", 50_000_000, 2, 6),
	}
}

func Gen(r *core.Rng, tier string) ([]core.In[Input], bool) {
	var ins []core.In[Input]
	// the timed operator-level scenarios first: a violation is then reported at the level the
	// property speaks about (executions of a hook that started)
	shapeCorpus := ShapeCorpus()
	for _, sc := range shapeCorpus[:1] {
		sc := sc
		ins = append(ins, core.In[Input]{Input: Input{Shape: &sc}, Stream: "corpus"})
	}
	for _, hc := range HeldCorpus() {
		hc := hc
		ins = append(ins, core.In[Input]{Input: Input{Held: &hc}, Stream: "corpus"})
	}
	for _, tc := range TimedCorpus() {
		tc := tc
		ins = append(ins, core.In[Input]{Input: Input{Timed: &tc}, Stream: "corpus"})
	}
	for _, c := range Corpus() {
		ins = append(ins, core.In[Input]{Input: c, Stream: "corpus"})
	}
	for _, op := range OpCorpus() {
		op := op
		ins = append(ins, core.In[Input]{Input: Input{Op: &op}, Stream: "corpus"})
	}
	// operator-level scenarios (their own PRNG stream, so that the limiter-level stream is the
	// one it always was)
	n, maxN, nOp, maxSteps := 400, 40, 90, 16
	nConc, nTimed, nHeld, nShape := 24, 30, 18, 22
	switch tier {
	case "thorough":
		n, maxN, nOp, maxSteps = 20000, 60, 1500, 24
		nConc, nTimed, nHeld, nShape = 400, 400, 400, 300
	case "search":
		n, maxN, nOp, maxSteps = 3000, 40, 300, 20
		nConc, nTimed, nHeld, nShape = 80, 100, 100, 100
	}
	var lim, ops []core.In[Input]
	for i := 0; i < n; i++ {
		in := genCase(r, maxN)
		stream := "random"
		if !in.HasSettings {
			stream = "no-settings"
		} else if in.IntervalNs == nil || in.Burst == nil || *in.Burst < 0 || *in.Burst > 2147483647 {
			stream = "malformed"
		} else if in.Pattern == "unsorted" {
			stream = "unsorted-clock"
		}
		lim = append(lim, core.In[Input]{Input: in, Stream: stream})
	}
	ro := r.Fork()
	for i := 0; i < nOp; i++ {
		op := genOp(ro, maxSteps)
		ops = append(ops, core.In[Input]{Input: Input{Op: &op}, Stream: "operator"})
	}
	// concurrent waiters and timed operator scenarios (short intervals, real waiting: 0.1-2 s
	// each), again on their own PRNG stream; they are spread among the operator scenarios
	rt := ro.Fork()
	var slow []core.In[Input]
	// shared queues that are held: their own PRNG stream again (the older streams stay what they were)
	rh := ro.Fork()
	// hooks of every shape: their own PRNG stream again
	rs := ro.Fork()
	if tier == "thorough" {
		for _, hc := range HeldGrid() {
			hc := hc
			slow = append(slow, core.In[Input]{Input: Input{Held: &hc}, Stream: "held-grid"})
		}
		for _, sc := range ShapeGrid() {
			sc := sc
			slow = append(slow, core.In[Input]{Input: Input{Shape: &sc}, Stream: "shape-grid"})
		}
	}
	// the rest of the shape corpus is spread among the other slow cases (the driver hands contiguous
	// chunks to its workers: the head of the list is the longest pole)
	for _, sc := range shapeCorpus[1:] {
		sc := sc
		slow = append(slow, core.In[Input]{Input: Input{Shape: &sc}, Stream: "corpus"})
	}
	// (the shape cases begin a little later in the list: the corpus at its head is slow already)
	const shapeShift = 4
	for i := 0; i < nTimed || i < nConc || i < nHeld || i < nShape+shapeShift; i++ {
		if i >= shapeShift && i < nShape+shapeShift {
			sc := genShape(rs)
			slow = append(slow, core.In[Input]{Input: Input{Shape: &sc}, Stream: "shape"})
		}
		if i < nHeld {
			hc := genHeld(rh)
			slow = append(slow, core.In[Input]{Input: Input{Held: &hc}, Stream: "held-shared-queue"})
		}
		if i < nTimed {
			tc := genTimed(rt)
			slow = append(slow, core.In[Input]{Input: Input{Timed: &tc}, Stream: "timed"})
		}
		if i < nConc {
			slow = append(slow, core.In[Input]{Input: genConc(rt), Stream: "concurrent-waiters"})
		}
	}
	{
		var mixed []core.In[Input]
		k := 0
		for i, c := range ops {
			mixed = append(mixed, c)
			for k < len(slow) && k*len(ops) < (i+1)*len(slow) {
				mixed = append(mixed, slow[k])
				k++
			}
		}
		ops = append(mixed, slow[k:]...)
		nOp = len(ops)
	}
	// interleave (the driver hands contiguous chunks to its workers; an operator scenario
	// costs ~100 ms, a limiter case well under 1 ms)
	every := 1
	if nOp > 0 && n/nOp > 1 {
		every = n / nOp
	}
	k := 0
	for i, c := range lim {
		ins = append(ins, c)
		if (i+1)%every == 0 && k < len(ops) {
			ins = append(ins, ops[k])
			k++
		}
	}
	ins = append(ins, ops[k:]...)
	return ins, false
}

var Driver = core.Driver[Input, Obs]{
	Spec: core.Spec{Property: "C18", Imports: []string{"C18_Model", "C18_Spec", "C18_Corr"}, Corr: "C18_Corr", Triggers: nil, ShrinkKey: "seq",
		Rule: "HOOKS OF EVERY SHAPE (tag class:shape): the real operator started through its real Start() with SHORT intervals (I 100-300 ms, B 1-3): a limited hook with 1-6 kubernetes bindings (grouped / ungrouped, executeHookOnSynchronization on / off, events in main or named queues), 0-2 schedule bindings, sometimes onStartup; a second hook (no settings, or a limit of its own, up to 3 kubernetes bindings) beside it in 45%; phase 1 = the start-up: one Synchronization task per binding passes the limiter and is executed / combined with its group mates / skipped, executions end as soon as they are seen; phase 2 = 1-2 idle periods of N intervals (N = bindings+1, B+1, bindings or 7) each followed by B+1..B+3 SINGLE events (kubernetes event of one monitor or tick of one crontab, each issued only when every queue was found empty); thorough tier: also the grid B 1-3 x 1-6 bindings x {ungrouped, a group of two, one exempt} (stream shape-grid); recorded: the instant before Start(), every event with the instant before it was issued, every execution start with the instant it was SEEN, anchors (instant first, then every queue found empty), Limit()==Inf and Burst() of every loaded hook's limiter; P = the window bound with the CONFIGURED (I, B) for the window that begins before Start() and for every window that begins at an anchor, ending at a seen start - no tolerance; compared with the model C18_Model.run_shape (limiters from the settings alone) run on the observed instants: same number of executions per hook, no start seen earlier than the model's, same limiter; non-trivial = limited hook with >= 2 kubernetes bindings whose start-up asks the limiter more than B times, an idle period longer than B intervals followed by more than B single events of the hook, >= 4 executions of it; distinct = distinct (hook configurations, plan).  SHARED QUEUE HELD (tag class:held): the real operator with SHORT intervals (I 100-200 ms, B 1-3): a hook with settings shares ONE queue (main or named) with an interleaving hook on the same crontab (their tasks alternate, nothing is combined) and with a holder whose executions the driver keeps open - optionally after a first run that fails, so that the queue sits in a 60-180 ms back-off too - for 1.2-2.5 intervals and more while 2-5 ticks for the limited hook arrive (steady at / faster than / slower than the permitted rate, burst, random); then the execution is released and the piled-up tasks are served; 1-2 such phases; thorough tier: also the grid B 1-3 x 5 arrival patterns x 2/4 events x main/named queue x back-off 0/120 ms (stream held-grid); variants: the interleaver or the limited hook itself is the slow one, the other hooks have limits of their own, the limited hook has a second binding in another queue; recorded per execution: queue, hook, the REAL task.GetQueuedAt(), the instant the start was SEEN, the instant (taken before the reply) the driver let it end; P = the window bound for every window that begins at an anchor valid for the hook (instant taken first, then every queue of the hook found empty or blocked inside an execution the driver holds open; in particular the instant just before each release) and ends at a seen start - no tolerance; cases with all bindings in one queue are also compared with the queue-level model C18_Model.serve run on the observed executions with the real queued-at and release instants: no start seen earlier than the model starts it; non-trivial = limited hook shares the queue, queue held longer than I, >= 2 tasks of one limited hook waiting at a release, an anchor taken at a release, >= 4 executions; distinct = distinct (hooks, settings, slow set, back-off, plan).  TIMED OPERATOR LEVEL (tag class:timed): the real operator with SHORT intervals (I 100-200 ms, B 1-3): a limited hook with schedule bindings in 2-3 DIFFERENT queues fed by one crontab or by crontabs fired a few ms apart (a second hook, with or without settings, may share crontabs and queues), 6-20 ticks, some with a pause that refills the bucket; executions end as soon as they are seen; several queue workers sleep in the limiter of ONE hook at once and wake up during the scenario; start instants are those at which the driver SEES the start (late, never early); P is the window bound for every window that begins at an anchor (an instant at which no execution was under way) and ends at an observed start - no tolerance; three modes: exact (~50%: a tick is issued only when the queues it feeds are empty, no crontab feeds two queues of one limited hook, and the next tick waits until the limiters have registered the requests - Limiter.TokensAt - so the workers ask in the order of the ticks) is also compared with the model run on the observed tick instants: same number of starts per hook, k-th start never earlier than the model's; wait (~20%: one crontab may feed two queues of a hook at once) and pile (~30%: ticks pile up behind the sleepers and are combined) are judged by P only; non-trivial = limited hook in >= 2 queues, >= 4 executions, >= 2 workers seen asleep in one hook's limiter at once; distinct = distinct (hooks, settings, plan).  CONCURRENT WAITERS (tag concurrent-waiters): limiter level with I 20-120 ms, B 1-3: B+2..B+4 goroutines call Hook.RateLimitWait(context.Background()) of one freshly loaded hook at once; the instants of their returns are judged by the same anchored bound and must not be earlier than the model's stacked grants (0 x B, I, 2I, ...); non-trivial = at least two waiters slept.  OPERATOR LEVEL (tag class:operator): the real operator in-process on a fake cluster with 1-3 v1 hooks, each with settings (I >= 30 s, B 1..4) or without, onStartup / schedule / kubernetes bindings in main or named queues shared between hooks or not; a script of Boot / Tick / KubeEv / Finish ok / Finish FAIL (30-75% of the finishes; allowFailure on some bindings) chosen from the observable state; the queues' back-off is 0-3 ms (TaskQueue.ExponentialBackoffFn); after every action queues, open executions, unlocked monitors and the queues waiting in Hook.RateLimitWait (positively observed through Limiter.Tokens()) are compared with the model, every execution start is recorded with its measured instant and P (window bound per hook with settings; no waiting for hooks without) is evaluated on them; non-trivial = a limited hook, >= 4 actions of >= 2 kinds, >= 2 executions and a worker seen waiting in the limiter; distinct = distinct (hooks, settings, script).  LIMITER LEVEL (tag class:limiter): a v1 hook configuration with a generated settings block (I as a Go duration string, B an integer; keys absent / 0 / negative / out of int32 at a low rate; YAML and JSON renderings; with onStartup, schedule or kubernetes bindings) is loaded by the real Hook.LoadConfig; the *rate.Limiter it builds is driven with ReserveN(t,1) on a synthetic clock (patterns: burst, steady, bursts+pauses, random, long-pause, jitter, unsorted) and, for unlimited hooks and I >= 10s, Hook.RateLimitWait is probed B+2 times with a 50 ms deadline on the wall clock; non-trivial = accepted configuration, >= 3 requests and (limited => at least one request delayed); distinct = distinct (settings, arrivals, probe size)"},
	Gen: Gen, Run: Run, Render: Render, Explicit: Explicit, PerShard: 130, Workers: 8, CaseTimout: 20 * time.Second,
}
