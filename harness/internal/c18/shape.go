// Timed operator-level cases of C18 for hooks of every SHAPE: the REAL operator, started through
// its real Start(), with SHORT intervals (100-300 ms, B 1-3).  The limited hook declares 1..6
// kubernetes bindings (grouped / ungrouped, executeHookOnSynchronization on / off, events in main
// or in named queues), 0-2 schedule bindings, perhaps onStartup; a second hook (without settings,
// or with a limit of its own, with bindings of its own) may be loaded beside it.
//
// Phase 1, start-up: Start(); EnableKubernetesBindings puts one Synchronization task per
// kubernetes binding at the head of "main"; each of them passes the limiter call of
// taskHandleHookRun and is then executed, combined with its group mates, or skipped
// (executeHookOnSynchronization: false).  Every execution ends successfully as soon as the driver
// sees it, so the runs follow one another as fast as the limiter lets them.
// Phase 2: idle periods - nothing happens for N intervals, long enough to refill a bucket of any
// size up to N - followed by SINGLE events (a kubernetes event of one monitor, a tick of one
// crontab), each issued only when the operator was found idle (every queue empty): every event is
// one task, executed on its own.
//
// What is measured: the instant at which the driver SEES an execution start (late, never early).
// Judgements (in Coq, no tolerance, both immune to late observation):
//   - P (C18_Spec.P_shape): the anchored window bound with the CONFIGURED (I, B) - the numbers the
//     driver wrote into the hook's settings - for the window that begins at the instant taken
//     before Start() and for every window that begins at an instant, taken first, at which the
//     operator was then found idle;
//   - the model (C18_Model.run_shape, limiters made from the settings alone) runs Boot and the
//     events at the observed instants with hooks that end the moment they start: the same number
//     of executions per hook, no start seen EARLIER than the model starts it, and the limiter
//     every loaded hook carries (Limit() == Inf, Burst()) is the one the model loads.
package c18

import (
	"fmt"
	"strconv"
	"strings"
	"time"

	"golang.org/x/time/rate"
	"k8s.io/apimachinery/pkg/apis/meta/v1/unstructured"

	kubeeventsmanager "github.com/flant/shell-operator/pkg/kube_events_manager"
	kemtypes "github.com/flant/shell-operator/pkg/kube_events_manager/types"

	"verifharness/internal/core"
	"verifharness/internal/opsim"
)

type SStep struct {
	IdleMs int `json:"idle_ms,omitempty"` // the operator is left idle that long before the event is issued
	C      int `json:"c,omitempty"`       // crontab that fires (0 = none)
	Mon    int `json:"mon,omitempty"`     // monitor (= binding number) that emits an event (0 = none)
}

type ShapeIn struct {
	Cfg  []opsim.Hook `json:"cfg"`
	Plan []SStep      `json:"plan,omitempty"`
}

type SEvObs struct {
	AtNs int64 `json:"at_ns"`
	C    int   `json:"c,omitempty"`
	Mon  int   `json:"mon,omitempty"`
	Obj  int   `json:"obj,omitempty"`
	Sent bool  `json:"sent"` // false: the monitor was still locked, nothing was injected
}

type SLim struct {
	Hook  int  `json:"hook"`
	Inf   bool `json:"inf"`
	Burst int  `json:"burst"`
}

type ShapeObs struct {
	BootNs      int64    `json:"boot_ns"`
	StartupNs   int64    `json:"startup_ns"` // the instant at which the start-up was seen to be over (all queues empty)
	Events      []SEvObs `json:"events"`
	EndNs       int64    `json:"end_ns"`
	Starts      []OStart `json:"starts"`
	Kinds       []string `json:"kinds"` // kind of the first context each execution was shown
	Anchors     []int64  `json:"anchors"`
	Lims        []SLim   `json:"lims"`
	MaxSleepers int      `json:"max_sleepers"`
	Bad         string   `json:"bad,omitempty"`
	InitErr     string   `json:"init_err,omitempty"`
	WallNs      int64    `json:"wall_ns"`
}

type sdrv struct {
	d   *drv
	in  ShapeIn
	out *ShapeObs
}

func (t *sdrv) now() int64 { return int64(time.Since(t.d.t0)) }

// one started execution: record it, let it end successfully at once
func (t *sdrv) started(c *opsim.Call) {
	var step OStep
	t.d.place(c, &step)
	if step.Bad != "" && t.out.Bad == "" {
		t.out.Bad = step.Bad
	}
	kind := "?"
	if n := len(step.Started); n > 0 && len(step.Started[n-1].Ctxs) > 0 {
		kind = step.Started[n-1].Ctxs[0].Kind
	}
	t.out.Kinds = append(t.out.Kinds, kind)
	for q, oc := range t.d.open {
		if oc == c {
			delete(t.d.open, q)
		}
	}
	t.sample()
	c.Reply(opsim.Reply{})
}

func (t *sdrv) sample() {
	for _, h := range t.in.Cfg {
		if n := t.d.sleepers(h.Id); n > t.out.MaxSleepers {
			t.out.MaxSleepers = n
		}
	}
}

func (t *sdrv) pump(until time.Time) {
	for {
		wait := time.Until(until)
		if wait <= 0 {
			select {
			case c := <-t.d.s.Srv.Execs:
				t.started(c)
				continue
			default:
				return
			}
		}
		select {
		case c := <-t.d.s.Srv.Execs:
			t.started(c)
		case <-time.After(wait):
		}
	}
}

// idle: no task in any queue (an execution that has started keeps its task at the head of its
// queue until it has ended; a worker that sleeps in the limiter keeps it there too) and no start
// waiting to be seen
func (t *sdrv) idle() bool {
	if len(t.d.open) > 0 || len(t.d.s.Srv.Execs) > 0 {
		return false
	}
	for _, n := range t.d.queueNames() {
		items, _ := t.d.snapshotQueue(n)
		if len(items) > 0 {
			return false
		}
	}
	return len(t.d.s.Srv.Execs) == 0
}

func (t *sdrv) waitUntil(cond func() bool, limit time.Duration) bool {
	deadline := time.Now().Add(limit)
	for {
		t.pump(time.Now())
		if cond() {
			return true
		}
		if time.Now().After(deadline) {
			return false
		}
		t.pump(time.Now().Add(300 * time.Microsecond))
	}
}

func (d *drv) monitorUnlocked(id string) bool {
	m := d.s.Op.KubeEventsManager.GetMonitor(id)
	if m == nil {
		return false
	}
	en, flags := kubeeventsmanager.VerifEventsEnabled(m)
	for _, f := range flags {
		en = en && f
	}
	return en
}

// injectKube: an UNLOCKED monitor emits an event (as drv.do does it, without waiting for
// quiescence); false = the monitor is locked (or unknown), nothing was injected
func (d *drv) injectKube(mon, objNum int) bool {
	id := d.monitorIdOf(mon)
	if id == "" || !d.monitorUnlocked(id) {
		return false
	}
	obj := &unstructured.Unstructured{Object: map[string]interface{}{
		"apiVersion": "v1", "kind": "ConfigMap",
		"metadata": map[string]interface{}{"name": "o" + strconv.Itoa(objNum), "namespace": "ns" + strconv.Itoa(mon)},
	}}
	ev := kemtypes.KubeEvent{MonitorId: id, Type: kemtypes.TypeEvent,
		WatchEvents: []kemtypes.WatchEventType{kemtypes.WatchEventAdded},
		Objects:     []kemtypes.ObjectAndFilterResult{{Object: obj}}}
	ev.Objects[0].Metadata.ResourceId = "ns" + strconv.Itoa(mon) + "/ConfigMap/o" + strconv.Itoa(objNum)
	ch := d.s.Op.KubeEventsManager.Ch()
	ch <- ev
	// three sentinels: when they are accepted the event has been turned into tasks
	sent := kemtypes.KubeEvent{MonitorId: "VERIF_SENTINEL", Type: kemtypes.TypeEvent}
	ch <- sent
	ch <- sent
	ch <- sent
	return true
}

func runShape(in ShapeIn) *ShapeObs {
	out := &ShapeObs{}
	s, err := opsim.NewSim(opsim.Input{Cfg: in.Cfg})
	if err != nil {
		out.InitErr = err.Error()
		if s != nil {
			s.Close()
		}
		return out
	}
	d := newDrv(s, OpIn{Cfg: in.Cfg})
	defer d.close()
	// the limiter every loaded hook carries
	for _, h := range in.Cfg {
		if hk := s.Op.VerifHookManager().GetHook(opsim.HookName(h.Id)); hk != nil && hk.RateLimiter != nil {
			out.Lims = append(out.Lims, SLim{Hook: h.Id, Inf: hk.RateLimiter.Limit() == rate.Inf, Burst: hk.RateLimiter.Burst()})
		}
	}
	d.t0 = time.Now()
	t := &sdrv{d: d, in: in, out: out}
	limit := 12 * time.Second

	// phase 1: the start-up, through the operator's real Start().  The instant is taken first:
	// nothing runs before it.
	out.BootNs = t.now()
	s.Op.VerifStartReal()
	d.booted = true
	if !t.waitUntil(t.idle, limit) {
		out.Bad = "the start-up did not come to an end"
	}
	out.StartupNs = t.now()

	// phase 2: idle periods and single events
	obj := 0
	for _, sp := range in.Plan {
		if out.Bad != "" {
			break
		}
		if !t.waitUntil(t.idle, limit) {
			out.Bad = "the queues did not become empty"
			break
		}
		if sp.IdleMs > 0 {
			t.pump(time.Now().Add(time.Duration(sp.IdleMs) * time.Millisecond))
			if !t.waitUntil(t.idle, limit) {
				out.Bad = "the queues did not stay empty during an idle period"
				break
			}
		}
		// an anchor: the instant is taken first, then every queue is found empty
		a := t.now()
		if t.idle() {
			out.Anchors = append(out.Anchors, a)
		}
		at := t.now()
		switch {
		case sp.C > 0:
			d.do2Tick(sp.C)
			out.Events = append(out.Events, SEvObs{AtNs: at, C: sp.C, Sent: true})
		case sp.Mon > 0:
			obj++
			sent := d.injectKube(sp.Mon, obj)
			out.Events = append(out.Events, SEvObs{AtNs: at, Mon: sp.Mon, Obj: obj, Sent: sent})
		}
		t.sample()
	}
	if out.Bad == "" && !t.waitUntil(t.idle, limit) {
		out.Bad = "the queues did not become empty"
	}
	out.EndNs = t.now()
	out.Starts = d.starts
	out.WallNs = out.EndNs
	return out
}

// ---- rendering ----

func coqHookConfig(h opsim.Hook) string {
	st := "None"
	if hasSettings(h) {
		st = fmt.Sprintf("(Some (mkSettings (zp %d) (zp %d)))", int64(h.IntervalMs)*1_000_000, h.Burst)
	}
	return fmt.Sprintf("mkHC (%s) %s", coqHook(h), st)
}

// syncRuns: the number of Synchronization EXECUTIONS the start-up of the hook needs (as
// C18_Model.sync_runs: ungrouped bindings one each, a grouped one takes everything of the hook that
// follows it along up to an exempt binding, exempt bindings none); tokens: limiter calls
func syncRuns(h opsim.Hook) (runs, tokens int) {
	if h.V0 {
		return 0, len(h.Kube)
	}
	tokens = len(h.Kube)
	i := 0
	for i < len(h.Kube) {
		b := h.Kube[i]
		if !b.ExecSync {
			i++
			continue
		}
		runs++
		i++
		if b.Group != 0 {
			for i < len(h.Kube) && h.Kube[i].ExecSync {
				i++
				tokens--
			}
		}
	}
	return runs, tokens
}

func renderShape(in ShapeIn, obs *ShapeObs, crash string) core.Case {
	var o ShapeObs
	if obs != nil {
		o = *obs
	}
	bad := crash != "" || o.InitErr != "" || o.Bad != "" || obs == nil
	c := core.Case{}
	c.Coq = fmt.Sprintf("(CShape (mkSCase %s\n (zp %d) %s (zp %d)\n %s\n (zl %s%%uint63) %s %s))",
		core.CoqList(in.Cfg, coqHookConfig),
		o.BootNs, core.CoqList(o.Events, func(e SEvObs) string {
			if e.C > 0 {
				return fmt.Sprintf("(zp %d, Tick %d)", e.AtNs, e.C)
			}
			return fmt.Sprintf("(zp %d, KubeEv %d %d)", e.AtNs, e.Mon, e.Obj)
		}), o.EndNs,
		core.CoqList(o.Starts, func(s OStart) string { return fmt.Sprintf("(%d, zp %d)", nn(s.Hook), s.AtNs) }),
		core.CoqList(o.Anchors, func(x int64) string { return fmt.Sprintf("%d", x) }),
		core.CoqList(o.Lims, func(l SLim) string {
			return fmt.Sprintf("(%d, %s, %s)", l.Hook, core.CoqBool(l.Inf), coqZ(int64(l.Burst)))
		}),
		core.CoqBool(bad))
	if crash != "" {
		c.JSON = map[string]any{"shape": o, "crash": crash}
	} else {
		c.JSON = map[string]any{"shape": o}
	}
	var kb strings.Builder
	for _, h := range in.Cfg {
		kb.WriteString(coqHookConfig(h))
	}
	for _, sp := range in.Plan {
		kb.WriteString(fmt.Sprintf("|%d,%d,%d", sp.IdleMs, sp.C, sp.Mon))
	}
	c.Key = "shape|" + kb.String()

	c.Tags = append(c.Tags, "class:shape")
	c.Tags = append(c.Tags, fmt.Sprintf("shape:hooks:%d", len(in.Cfg)))
	nontrivial := false
	perHook := map[int]int{}
	for _, s := range o.Starts {
		perHook[s.Hook]++
	}
	for _, h := range in.Cfg {
		runs, tokens := syncRuns(h)
		if h.Startup != nil {
			tokens++
		}
		grouped, exempt, named := 0, 0, 0
		for _, b := range h.Kube {
			if b.Group != 0 {
				grouped++
			}
			if !b.ExecSync {
				exempt++
			}
			if b.Queue != 0 {
				named++
			}
		}
		if !hasSettings(h) {
			c.Tags = append(c.Tags, "shape:some-hook-without-settings", fmt.Sprintf("shape:unlimited-hook:kube-bindings:%d", len(h.Kube)))
			continue
		}
		I, B := h.IntervalMs, h.Burst
		c.Tags = append(c.Tags, fmt.Sprintf("shape:I=%dms", I), fmt.Sprintf("shape:B=%d", B),
			fmt.Sprintf("shape:kube-bindings:%d", len(h.Kube)), fmt.Sprintf("shape:sync-runs:%d", runs),
			fmt.Sprintf("shape:schedule-bindings:%d", len(h.Sched)))
		if grouped > 0 {
			c.Tags = append(c.Tags, "shape:grouped-kube-bindings")
		}
		if exempt > 0 {
			c.Tags = append(c.Tags, "shape:executeHookOnSynchronization-false")
		}
		if named > 0 {
			c.Tags = append(c.Tags, "shape:kube-events-in-named-queue")
		}
		if h.Startup != nil {
			c.Tags = append(c.Tags, "shape:onStartup")
		}
		switch {
		case runs >= B+2:
			c.Tags = append(c.Tags, "shape:startup:sync-runs>=B+2")
		case runs == B+1:
			c.Tags = append(c.Tags, "shape:startup:sync-runs=B+1")
		default:
			c.Tags = append(c.Tags, "shape:startup:sync-runs<=B")
		}
		if tokens > B {
			c.Tags = append(c.Tags, "shape:startup:limiter-calls>B")
		}
		// idle periods followed by single events of this hook
		mine := func(sp SStep) bool {
			for _, b := range h.Kube {
				if sp.Mon == b.Name {
					return true
				}
			}
			for _, b := range h.Sched {
				if sp.C == b.Cron {
					return true
				}
			}
			return false
		}
		bestN, bestK := 0, 0
		for i, sp := range in.Plan {
			if sp.IdleMs < I || !mine(sp) {
				continue
			}
			k := 1
			for j := i + 1; j < len(in.Plan) && in.Plan[j].IdleMs == 0; j++ {
				if mine(in.Plan[j]) {
					k++
				}
			}
			if n := sp.IdleMs / I; n > bestN || (n == bestN && k > bestK) {
				bestN, bestK = n, k
			}
		}
		if bestN > 0 {
			c.Tags = append(c.Tags, fmt.Sprintf("shape:idle-intervals:%d", bestN), fmt.Sprintf("shape:single-events-after-idle:%d", bestK))
			if bestN >= len(h.Kube) && bestN > B {
				c.Tags = append(c.Tags, "shape:idle>=kube-bindings*I")
			}
			if bestK >= B+2 {
				c.Tags = append(c.Tags, "shape:single-events-after-idle>=B+2")
			}
		}
		// non-trivial: a limited hook with at least two kubernetes bindings whose start-up asks the
		// limiter more often than B, an idle period longer than B intervals followed by more than B
		// single events of the hook, and at least 4 executions of the hook
		if len(h.Kube) >= 2 && tokens > B && bestN > B && bestK > B && perHook[h.Id] >= 4 {
			nontrivial = true
		}
	}
	syncs := 0
	for _, k := range o.Kinds {
		if k == "Sync" || k == "Group" {
			syncs++
		}
	}
	c.Tags = append(c.Tags, fmt.Sprintf("shape:synchronization-executions-seen:%d", syncs),
		fmt.Sprintf("shape:starts:%02d+", len(o.Starts)/4*4), fmt.Sprintf("shape:events:%02d+", len(in.Plan)/4*4),
		fmt.Sprintf("shape:anchors:%02d+", len(o.Anchors)/4*4))
	if o.MaxSleepers > 0 {
		c.Tags = append(c.Tags, "shape:a-worker-slept-in-the-limiter")
	}
	if bad {
		c.Tags = append(c.Tags, "shape:bad")
	}
	c.Nontrivial = !bad && nontrivial
	return c
}

// ---- generation ----

// genShapeHook: the bindings of one hook.  No two schedule bindings of one hook have the same
// crontab (one tick must not hand two workers a task of one hook at the same moment: which of them
// gets the earlier reservation would be a race).
func genShapeKube(r *core.Rng, binding *int, nk int) []opsim.KB {
	var ks []opsim.KB
	for k := 0; k < nk; k++ {
		*binding++
		b := opsim.KB{Name: *binding, ExecSync: !r.Chance(18), Allow: r.Chance(10)}
		if r.Chance(45) {
			b.Queue = 1 + r.Intn(2)
		}
		if r.Chance(30) {
			b.Group = 1 + r.Intn(2)
		}
		ks = append(ks, b)
	}
	return ks
}

func genShape(r *core.Rng) ShapeIn {
	in := ShapeIn{}
	binding := 0
	nk := []int{1, 2, 3, 3, 4, 4, 5, 6}[r.Intn(8)]
	B := []int{1, 1, 1, 2, 2, 3}[r.Intn(6)]
	// an execution is SEEN some 5-50 ms after it started (the hook process has to come up): with few
	// bindings the longer intervals keep B+2 runs back to back inside one interval
	ivs := []int{150, 200, 200, 300, 300}
	if nk >= 4 {
		ivs = []int{100, 120, 150, 200, 200}
	}
	I := ivs[r.Intn(len(ivs))]
	lim := opsim.Hook{IntervalMs: I, Burst: B}
	lim.Kube = genShapeKube(r, &binding, nk)
	if r.Chance(30) {
		// all bindings ungrouped and executed on Synchronization: one run each
		for i := range lim.Kube {
			lim.Kube[i].Group, lim.Kube[i].ExecSync = 0, true
		}
	}
	ns := r.Intn(3)
	off := r.Intn(3)
	for k := 0; k < ns; k++ {
		binding++
		lim.Sched = append(lim.Sched, opsim.SB{Name: binding, Cron: 1 + (off+k)%3, Queue: r.Intn(3)})
	}
	if r.Chance(20) {
		o := r.Intn(3)
		lim.Startup = &o
	}
	var other *opsim.Hook
	if r.Chance(45) {
		h2 := opsim.Hook{}
		if r.Chance(35) {
			h2.IntervalMs = []int{100, 120, 150}[r.Intn(3)]
			h2.Burst = 1 + r.Intn(2)
		}
		n2 := r.Intn(4)
		if hasSettings(h2) && n2 > 2 {
			n2 = 2
		}
		h2.Kube = genShapeKube(r, &binding, n2)
		if r.Chance(50) || n2 == 0 {
			binding++
			h2.Sched = append(h2.Sched, opsim.SB{Name: binding, Cron: 1 + r.Intn(3), Queue: r.Intn(3)})
		}
		other = &h2
	}
	// path order = id order: the limited hook first or second
	switch {
	case other == nil:
		lim.Id = 1
		in.Cfg = []opsim.Hook{lim}
	case r.Chance(65):
		lim.Id, other.Id = 1, 2
		in.Cfg = []opsim.Hook{lim, *other}
	default:
		other.Id, lim.Id = 1, 2
		in.Cfg = []opsim.Hook{*other, lim}
	}
	// single events of the limited hook: its monitors and its crontabs
	type src struct{ c, mon int }
	var mine, theirs []src
	for _, b := range lim.Kube {
		mine = append(mine, src{mon: b.Name})
	}
	for _, b := range lim.Sched {
		mine = append(mine, src{c: b.Cron})
	}
	if other != nil {
		for _, b := range other.Kube {
			theirs = append(theirs, src{mon: b.Name})
		}
		for _, b := range other.Sched {
			theirs = append(theirs, src{c: b.Cron})
		}
	}
	phases := 1
	if r.Chance(30) {
		phases = 2
	}
	budget := 1200 // ms of idling per case
	for ph := 0; ph < phases; ph++ {
		// long enough to refill a bucket of nk tokens (or B+1, or 7)
		n := []int{nk + 1, nk + 1, B + 1, nk, 7}[r.Intn(5)]
		if n <= B {
			n = B + 1
		}
		if n*I > budget {
			n = budget / I
		}
		if n < 1 {
			break
		}
		budget -= n * I
		k := B + 1 + r.Intn(2)
		if r.Chance(25) && nk > k {
			k = nk
		}
		if k > B+3 {
			k = B + 3
		}
		for j := 0; j < k; j++ {
			e := mine[r.Intn(len(mine))]
			if r.Chance(60) {
				e = mine[j%len(mine)]
			}
			sp := SStep{C: e.c, Mon: e.mon}
			if j == 0 {
				sp.IdleMs = n*I + 15
			}
			in.Plan = append(in.Plan, sp)
			if len(theirs) > 0 && r.Chance(20) {
				o := theirs[r.Intn(len(theirs))]
				in.Plan = append(in.Plan, SStep{C: o.c, Mon: o.mon})
			}
		}
	}
	return in
}

func kbs(n, from int, group func(i int) int, exec func(i int) bool) []opsim.KB {
	var ks []opsim.KB
	for i := 0; i < n; i++ {
		ks = append(ks, opsim.KB{Name: from + i, Group: group(i), ExecSync: exec(i)})
	}
	return ks
}

func noGroup(int) int  { return 0 }
func allExec(int) bool { return true }
func splan(xs ...int) []SStep {
	// triples: idle_ms, crontab, monitor
	var p []SStep
	for i := 0; i+2 < len(xs); i += 3 {
		p = append(p, SStep{IdleMs: xs[i], C: xs[i+1], Mon: xs[i+2]})
	}
	return p
}

// ShapeCorpus: small hooks of several shapes - ungrouped bindings, a group and an exempt binding,
// a hook without settings beside a limited one, many bindings with a larger burst.
func ShapeCorpus() []ShapeIn {
	return []ShapeIn{
		// I = 300 ms, B = 1, three kubernetes bindings: three Synchronization runs at start-up, then
		// four idle intervals and three single events
		{Cfg: []opsim.Hook{{Id: 1, IntervalMs: 300, Burst: 1, Kube: kbs(3, 1, noGroup, allExec)}},
			Plan: splan(1215, 0, 1, 0, 0, 2, 0, 0, 3)},
		// B = 2, six bindings: 1, 2 and 6 ungrouped, 3 and 4 in one group, 5 exempt; a schedule binding
		{Cfg: []opsim.Hook{{Id: 1, IntervalMs: 200, Burst: 2,
			Kube:  kbs(6, 1, func(i int) int { return map[int]int{2: 1, 3: 1}[i] }, func(i int) bool { return i != 4 }),
			Sched: []opsim.SB{{Name: 7, Queue: 1, Cron: 1}}}},
			Plan: splan(1015, 1, 0, 0, 0, 1, 0, 0, 5, 0, 1, 0)},
		// a hook without settings and four bindings beside a limited hook with one
		{Cfg: []opsim.Hook{{Id: 1, Kube: kbs(4, 1, noGroup, allExec)},
			{Id: 2, IntervalMs: 150, Burst: 1, Kube: kbs(1, 5, noGroup, allExec), Sched: []opsim.SB{{Name: 6, Queue: 0, Cron: 2}}}},
			Plan: splan(465, 0, 5, 0, 2, 0, 0, 0, 1, 0, 0, 5)},
		// six bindings, burst 3
		{Cfg: []opsim.Hook{{Id: 1, IntervalMs: 150, Burst: 3, Kube: kbs(6, 1, noGroup, allExec)}},
			Plan: splan(1065, 0, 1, 0, 0, 2, 0, 0, 3, 0, 0, 4, 0, 0, 5)},
	}
}

// ShapeGrid (thorough tier): B 1-3 x 1..6 kubernetes bindings x {ungrouped, two of them in a
// group, one exempt}, I = 200 ms; an idle period of (bindings + 1) intervals, then B + 2 single events.
func ShapeGrid() []ShapeIn {
	var out []ShapeIn
	for B := 1; B <= 3; B++ {
		for nk := 1; nk <= 6; nk++ {
			for v := 0; v < 3; v++ {
				if v > 0 && nk < 2 {
					continue
				}
				group, exec := noGroup, allExec
				switch v {
				case 1:
					group = func(i int) int {
						if i < 2 {
							return 1
						}
						return 0
					}
				case 2:
					exec = func(i int) bool { return i != 0 }
				}
				in := ShapeIn{Cfg: []opsim.Hook{{Id: 1, IntervalMs: 200, Burst: B, Kube: kbs(nk, 1, group, exec)}}}
				for j := 0; j < B+2; j++ {
					sp := SStep{Mon: 1 + j%nk}
					if j == 0 {
						sp.IdleMs = (nk+1)*200 + 15
					}
					in.Plan = append(in.Plan, sp)
				}
				out = append(out, in)
			}
		}
	}
	return out
}
