// Timed operator-level cases of C18: the REAL operator (as in op.go) with SHORT intervals
// (100-300 ms), so that the workers that have to wait in Hook.RateLimitWait wake up during
// the scenario.  The hooks have schedule bindings only; a limited hook has bindings in two
// or three DIFFERENT queues, fed by one crontab or by crontabs that fire within a few
// milliseconds, so that several queue workers sleep in the limiter of ONE hook at once and
// their reservations stack.  Every execution ends successfully as soon as the driver sees it.
//
// What is measured: the instant at which the driver SEES an execution start (the stub hook
// process connects) - some time after RateLimitWait returned, never before.  Nothing is
// compared with a tolerance.  Two judgements are made in Coq, both immune to that delay:
//   - P, anchored form: for every anchor a (an instant taken by the driver after which all
//     queues were found empty: no execution was under way at a) the k-th start seen at or
//     after a, seen at m, must satisfy k <= B + ceil((m-a)/I);
//   - mode "exact": a Tick is issued only when every queue it feeds is empty (so every task
//     runs on its own whatever the timing), no crontab feeds two queues of one limited hook,
//     and the next Tick is issued only after the limiter of every limited hook the Tick fed
//     has REGISTERED the request (positively observed: Limiter.TokensAt(instant before the
//     tick) changes exactly when a reservation is made after that instant) - so the workers
//     ask the limiter in the order of the ticks, as in the model.  Then: as many starts as the
//     model, and the k-th start of a hook never EARLIER than the model's k-th start (the
//     model's hooks end the moment they start, its requests come at the earliest instants).
// The other modes are judged by P only: "wait" (ticks wait for empty queues, but one crontab
// may feed two queues of one hook at once: which worker gets the earlier reservation is a
// race) and "pile" (ticks are issued at their planned instants and pile up behind the
// sleepers; they are combined when the sleeper wakes up).
package c18

import (
	"fmt"
	"strings"
	"time"

	"golang.org/x/time/rate"

	"verifharness/internal/core"
	"verifharness/internal/opsim"
)

type TTick struct {
	AfterMs int `json:"after_ms"` // pause after the previous tick was issued (after Boot for the first)
	C       int `json:"c"`        // crontab
}

type TimedIn struct {
	Cfg  []opsim.Hook `json:"cfg"`
	Plan []TTick      `json:"plan,omitempty"`
	Mode string       `json:"mode"` // "exact" | "wait" | "pile" (see the package comment)
}

type TTickObs struct {
	AtNs int64 `json:"at_ns"`
	C    int   `json:"c"`
}

type TimedObs struct {
	BootNs      int64      `json:"boot_ns"`
	Ticks       []TTickObs `json:"ticks"`
	EndNs       int64      `json:"end_ns"`
	Starts      []OStart   `json:"starts"`
	Anchors     []int64    `json:"anchors"`
	MaxSleepers int        `json:"max_sleepers"` // most workers seen asleep in the limiter of one hook at once
	Bad         string     `json:"bad,omitempty"`
	InitErr     string     `json:"init_err,omitempty"`
	WallNs      int64      `json:"wall_ns"`
}

type tdrv struct {
	d   *drv
	in  TimedIn
	out *TimedObs
}

func (t *tdrv) now() int64 { return int64(time.Since(t.d.t0)) }

// handle one started execution: record it, let it end successfully at once
func (t *tdrv) started(c *opsim.Call) {
	var step OStep
	t.d.place(c, &step)
	if step.Bad != "" && t.out.Bad == "" {
		t.out.Bad = step.Bad
	}
	for q, oc := range t.d.open {
		if oc == c {
			delete(t.d.open, q)
		}
	}
	t.sample()
	c.Reply(opsim.Reply{})
}

func (t *tdrv) sample() {
	for _, h := range t.in.Cfg {
		if n := t.d.sleepers(h.Id); n > t.out.MaxSleepers {
			t.out.MaxSleepers = n
		}
	}
}

// pump handles starts until [until]
func (t *tdrv) pump(until time.Time) {
	for {
		wait := time.Until(until)
		if wait <= 0 {
			// whatever has arrived already
			select {
			case c := <-t.d.s.Srv.Execs:
				t.started(c)
				continue
			default:
				return
			}
		}
		select {
		case c := <-t.d.s.Srv.Execs:
			t.started(c)
		case <-time.After(wait):
		}
	}
}

func (t *tdrv) queueEmpty(q int) bool {
	items, _ := t.d.snapshotQueue(opsim.QueueName(q))
	return len(items) == 0
}

// idle: no task in any queue (an execution that has started keeps its task at the head of its
// queue until it has ended) and no start waiting to be seen
func (t *tdrv) idle() bool {
	if len(t.d.open) > 0 || len(t.d.s.Srv.Execs) > 0 {
		return false
	}
	for _, n := range t.d.queueNames() {
		items, _ := t.d.snapshotQueue(n)
		if len(items) > 0 {
			return false
		}
	}
	return len(t.d.s.Srv.Execs) == 0
}

// limited hooks that crontab c feeds (exact mode: one task each)
func (t *tdrv) limitersFedBy(c int) []*rate.Limiter {
	var ls []*rate.Limiter
	for _, h := range t.in.Cfg {
		if !hasSettings(h) || h.IntervalMs == 0 {
			continue
		}
		fed := false
		for _, b := range h.Sched {
			fed = fed || b.Cron == c
		}
		if !fed {
			continue
		}
		if hk := t.d.s.Op.VerifHookManager().GetHook(opsim.HookName(h.Id)); hk != nil && hk.RateLimiter != nil {
			ls = append(ls, hk.RateLimiter)
		}
	}
	return ls
}

func (t *tdrv) fedBy(c int) []int {
	var qs []int
	for _, h := range t.in.Cfg {
		for _, b := range h.Sched {
			if b.Cron == c {
				qs = append(qs, b.Queue)
			}
		}
	}
	return qs
}

// waitUntil pumps until cond holds; false after the deadline
func (t *tdrv) waitUntil(cond func() bool, limit time.Duration) bool {
	deadline := time.Now().Add(limit)
	for {
		t.pump(time.Now())
		if cond() {
			return true
		}
		if time.Now().After(deadline) {
			return false
		}
		t.pump(time.Now().Add(300 * time.Microsecond))
	}
}

func runTimed(in TimedIn) *TimedObs {
	out := &TimedObs{}
	s, err := opsim.NewSim(opsim.Input{Cfg: in.Cfg})
	if err != nil {
		out.InitErr = err.Error()
		if s != nil {
			s.Close()
		}
		return out
	}
	d := newDrv(s, OpIn{Cfg: in.Cfg})
	defer d.close()
	d.t0 = time.Now()
	t := &tdrv{d: d, in: in, out: out}

	out.BootNs = t.now()
	st := d.do(opsim.Action{Kind: "Boot"})
	if st.Bad != "" || st.Note != "" {
		out.Bad = "boot: " + st.Bad + st.Note
	}
	limit := 8 * time.Second
	last := time.Now()
	for _, tk := range in.Plan {
		if out.Bad != "" {
			break
		}
		t.pump(last.Add(time.Duration(tk.AfterMs) * time.Millisecond))
		if in.Mode != "pile" {
			qs := t.fedBy(tk.C)
			ok := t.waitUntil(func() bool {
				for _, q := range qs {
					if !t.queueEmpty(q) {
						return false
					}
				}
				return true
			}, limit)
			if !ok {
				out.Bad = "a queue did not become empty"
				break
			}
		}
		// an anchor: the instant is taken first, then every queue is found empty
		a := t.now()
		if t.idle() {
			out.Anchors = append(out.Anchors, a)
		}
		t.sample()
		var lims []*rate.Limiter
		var v0 []float64
		at := t.now()
		last = time.Now()
		if in.Mode == "exact" {
			lims = t.limitersFedBy(tk.C)
			for _, l := range lims {
				v0 = append(v0, l.TokensAt(last))
			}
		}
		d.do2Tick(tk.C)
		out.Ticks = append(out.Ticks, TTickObs{AtNs: at, C: tk.C})
		if len(lims) > 0 {
			// TokensAt(an instant before the tick) keeps its value until a reservation is made
			// after that instant, and changes then
			probe := last
			ok := t.waitUntil(func() bool {
				for i, l := range lims {
					if l.TokensAt(probe) == v0[i] {
						return false
					}
				}
				return true
			}, limit)
			if !ok {
				out.Bad = "a limiter did not register the request of a fed queue"
				break
			}
		}
		t.sample()
	}
	if out.Bad == "" && !t.waitUntil(t.idle, limit) {
		out.Bad = "the queues did not become empty"
	}
	out.EndNs = t.now()
	out.Starts = d.starts
	out.WallNs = out.EndNs
	return out
}

// do2Tick: a crontab fires (as drv.do does it, without waiting for quiescence)
func (d *drv) do2Tick(c int) {
	ch := d.s.Op.ScheduleManager.Ch()
	ch <- opsim.CronName(c)
	// three sentinels: when they are accepted the tick has been turned into tasks
	ch <- "VERIF_SENTINEL"
	ch <- "VERIF_SENTINEL"
	ch <- "VERIF_SENTINEL"
}

// ---- rendering ----

func renderTimed(in TimedIn, obs *TimedObs, crash string) core.Case {
	var o TimedObs
	if obs != nil {
		o = *obs
	}
	bad := crash != "" || o.InitErr != "" || o.Bad != "" || obs == nil
	c := core.Case{}
	c.Coq = fmt.Sprintf("(CTimed (mkTCase %s\n %s\n (zp %d) %s (zp %d)\n %s\n (zl %s%%uint63) %s %s))",
		core.CoqList(in.Cfg, coqHook), core.CoqList(in.Cfg, coqSettings),
		o.BootNs, core.CoqList(o.Ticks, func(t TTickObs) string { return fmt.Sprintf("(zp %d, %d)", t.AtNs, t.C) }), o.EndNs,
		core.CoqList(o.Starts, func(s OStart) string { return fmt.Sprintf("(%d, zp %d)", nn(s.Hook), s.AtNs) }),
		core.CoqList(o.Anchors, func(x int64) string { return fmt.Sprintf("%d", x) }),
		core.CoqBool(in.Mode == "exact"), core.CoqBool(bad))
	if crash != "" {
		c.JSON = map[string]any{"timed": o, "crash": crash}
	} else {
		c.JSON = map[string]any{"timed": o}
	}
	var kb strings.Builder
	for _, h := range in.Cfg {
		kb.WriteString(coqHook(h))
		kb.WriteString(coqSettings(h))
	}
	for _, t := range in.Plan {
		kb.WriteString(fmt.Sprintf("|%d,%d", t.AfterMs, t.C))
	}
	c.Key = fmt.Sprintf("timed|%s|%s", in.Mode, kb.String())

	c.Tags = append(c.Tags, "class:timed")
	switch in.Mode {
	case "exact":
		c.Tags = append(c.Tags, "timed:exact(compared-with-model)")
	case "pile":
		c.Tags = append(c.Tags, "timed:ticks-pile-up(P-only)")
	default:
		c.Tags = append(c.Tags, "timed:wait(P-only)")
	}
	fanout := false
	for _, h := range in.Cfg {
		seen := map[int]bool{}
		for _, b := range h.Sched {
			if seen[b.Cron] && hasSettings(h) {
				fanout = true
			}
			seen[b.Cron] = true
		}
	}
	if fanout {
		c.Tags = append(c.Tags, "timed:one-tick-feeds-two-queues-of-a-hook")
	}
	maxQueues := 0
	for _, h := range in.Cfg {
		if !hasSettings(h) {
			c.Tags = append(c.Tags, "timed:some-hook-without-settings")
			continue
		}
		qs := map[int]bool{}
		for _, b := range h.Sched {
			qs[b.Queue] = true
		}
		if len(qs) > maxQueues {
			maxQueues = len(qs)
		}
		c.Tags = append(c.Tags, fmt.Sprintf("timed:I=%dms", h.IntervalMs), fmt.Sprintf("timed:B=%d", h.Burst))
	}
	c.Tags = append(c.Tags, fmt.Sprintf("timed:queues-of-a-limited-hook:%d", maxQueues), fmt.Sprintf("timed:hooks:%d", len(in.Cfg)),
		fmt.Sprintf("timed:sleepers-of-one-hook-at-once:%d", o.MaxSleepers), fmt.Sprintf("timed:ticks:%02d+", len(in.Plan)/4*4),
		fmt.Sprintf("timed:starts:%02d+", len(o.Starts)/4*4))
	if len(o.Anchors) > 1 {
		c.Tags = append(c.Tags, "timed:more-than-one-anchor")
	}
	if bad {
		c.Tags = append(c.Tags, "timed:bad")
	}
	// non-trivial: a limited hook in at least two queues, at least 4 executions, and at least two
	// workers seen asleep in the limiter of one hook at the same time (stacked reservations)
	c.Nontrivial = maxQueues >= 2 && len(o.Starts) >= 4 && o.MaxSleepers >= 2
	return c
}

// ---- generation ----

// genTimed: hook 1 is limited (I 100-200 ms, B 1-3) and has 2-3 schedule bindings in
// different queues; a second hook (without settings, or with its own limit) may share
// crontabs and queues with it.  No two bindings of one hook have the same crontab AND the
// same queue (their tasks would be combined or not depending on a race in the events handler).
func genTimed(r *core.Rng) TimedIn {
	in := TimedIn{Mode: []string{"exact", "exact", "exact", "exact", "exact", "wait", "wait", "pile", "pile", "pile"}[r.Intn(10)]}
	pile := in.Mode == "pile"
	ivs := []int{100, 100, 120, 150, 200}
	binding := 0
	h1 := opsim.Hook{Id: 1, IntervalMs: ivs[r.Intn(len(ivs))], Burst: []int{1, 1, 1, 2, 2, 3}[r.Intn(6)]}
	nq := 2
	if r.Chance(35) {
		nq = 3
	}
	queues := [][]int{{1, 2, 3}, {0, 1, 2}, {0, 2, 3}, {1, 3, 2}}[r.Intn(4)]
	// one crontab feeds two queues of the hook at once (not in exact mode: which of the two
	// workers gets the earlier reservation is a race)
	sameCron := in.Mode != "exact" && r.Chance(60)
	for k := 0; k < nq; k++ {
		binding++
		b := opsim.SB{Name: binding, Queue: queues[k], Cron: 1 + k}
		if sameCron && k < 2 {
			b.Cron = 1
		}
		h1.Sched = append(h1.Sched, b)
	}
	in.Cfg = append(in.Cfg, h1)
	if r.Chance(40) {
		h2 := opsim.Hook{Id: 2}
		if r.Chance(40) {
			h2.IntervalMs = ivs[r.Intn(len(ivs))]
			h2.Burst = 1 + r.Intn(2)
		}
		binding++
		c1 := 1 + r.Intn(nq)
		h2.Sched = append(h2.Sched, opsim.SB{Name: binding, Queue: queues[r.Intn(nq)], Cron: c1})
		if r.Chance(40) {
			binding++
			h2.Sched = append(h2.Sched, opsim.SB{Name: binding, Queue: 3 - queues[0]%2, Cron: 1 + c1%3})
		}
		in.Cfg = append(in.Cfg, h2)
	}
	crons := map[int]bool{}
	perCron := map[int]int{} // tasks of hook 1 one tick makes
	for _, b := range h1.Sched {
		crons[b.Cron] = true
		perCron[b.Cron]++
	}
	var cs []int
	for c := 1; c <= 3; c++ {
		if crons[c] {
			cs = append(cs, c)
		}
	}
	// the limiter lets hook 1 start B + (elapsed/I) times: keep a scenario under ~2 s
	budget := 7 + r.Intn(4)
	if pile {
		budget = 14 + r.Intn(8)
	}
	pauseAt := -1
	if r.Chance(35) {
		pauseAt = 3 + r.Intn(4)
	}
	tasks := 0
	for k := 0; tasks < budget && k < 24; k++ {
		c := cs[k%len(cs)]
		if r.Chance(25) {
			c = cs[r.Intn(len(cs))]
		}
		after := []int{0, 2, 5, 5, 10, 20, 30, 45}[r.Intn(8)]
		if pile {
			after = []int{5, 10, 15, 20, 30, 40, 60}[r.Intn(7)]
		}
		if k == pauseAt {
			// long enough for the queues to drain and the bucket to refill
			after = h1.IntervalMs*(h1.Burst+1) + 20
			if pile {
				after = h1.IntervalMs * (3 + r.Intn(2))
			}
		}
		in.Plan = append(in.Plan, TTick{AfterMs: after, C: c})
		tasks += perCron[c]
	}
	return in
}

func tplan(ts ...int) []TTick {
	var p []TTick
	for i := 0; i+1 < len(ts); i += 2 {
		p = append(p, TTick{AfterMs: ts[i], C: ts[i+1]})
	}
	return p
}

// TimedCorpus: one hook in two queues, fed at once and fed alternately; burst 2; a pause.
func TimedCorpus() []TimedIn {
	two := func(ms, burst, c1, c2 int) []opsim.Hook {
		return []opsim.Hook{schedHook(1, ms, burst, opsim.SB{Name: 1, Queue: 1, Cron: c1}, opsim.SB{Name: 2, Queue: 2, Cron: c2})}
	}
	return []TimedIn{
		// one crontab feeds both queues at once, again and again: two sleepers at any time
		{Cfg: two(100, 1, 1, 1), Mode: "wait", Plan: tplan(0, 1, 5, 1, 5, 1, 5, 1)},
		// two crontabs a few ms apart, alternately
		{Cfg: two(100, 1, 1, 2), Mode: "exact", Plan: tplan(0, 1, 5, 2, 5, 1, 5, 2, 5, 1, 5, 2, 5, 1)},
		// burst 2, a pause long enough to refill the bucket, then again
		{Cfg: two(120, 2, 1, 2), Mode: "exact", Plan: tplan(0, 1, 2, 2, 2, 1, 2, 2, 2, 1, 400, 2, 2, 1, 2, 2, 2, 1)},
		// ticks every 10-20 ms pile up behind the sleepers of both queues
		{Cfg: two(100, 1, 1, 2), Mode: "pile", Plan: tplan(0, 1, 10, 2, 10, 1, 10, 2, 20, 1, 20, 2, 10, 1, 10, 2, 20, 1, 20, 2, 10, 1, 10, 2, 20, 1, 20, 2)},
		// main and a named queue; a hook without settings shares the named queue
		{Cfg: []opsim.Hook{schedHook(1, 150, 1, opsim.SB{Name: 1, Queue: 0, Cron: 1}, opsim.SB{Name: 2, Queue: 1, Cron: 1}),
			schedHook(2, 0, 0, opsim.SB{Name: 3, Queue: 1, Cron: 2})},
			Mode: "wait", Plan: tplan(0, 1, 3, 2, 3, 1, 3, 2, 3, 1, 3, 2)},
		// a hook without settings shares a queue with the limited hook, exact
		{Cfg: []opsim.Hook{schedHook(1, 150, 1, opsim.SB{Name: 1, Queue: 0, Cron: 1}, opsim.SB{Name: 2, Queue: 1, Cron: 2}),
			schedHook(2, 0, 0, opsim.SB{Name: 3, Queue: 1, Cron: 1})},
			Mode: "exact", Plan: tplan(0, 1, 3, 2, 3, 1, 3, 2, 3, 1, 3, 2)},
	}
}
