// Timed operator-level cases of C18 with a SHARED queue that is HELD: the REAL operator (as in
// op.go / timed.go) with short intervals (100-200 ms).  A hook with settings shares a queue with
// other hooks: an "interleaver" on the same crontab (one tick queues a task of each, so the
// tasks of the limited hook are never adjacent and are not combined) and a "holder" whose
// executions the driver keeps open (the scripted hook does not exit until the driver says so)
// for longer than executionMinInterval - optionally after a first run that fails, so that the
// queue sits in a back-off as well - while ticks for the limited hook keep arriving (steady
// streams at, below and above the permitted rate, bursts, random).  Then the driver lets the
// held execution end ("release") and the piled-up tasks are served.
//
// What is recorded for every execution the driver sees, in order: queue, hook, the REAL
// task.GetQueuedAt() of the task at the head of the queue, the instant at which the start was
// SEEN (after it happened, never before) and the instant - taken BEFORE the reply is sent - at
// which the driver let it end.
//
// Judgements (in Coq, no tolerance, both immune to late observation):
//   - P, anchored form with anchors that are valid per hook: an instant a, taken first, at
//     which every queue carrying a binding of the hook was then found empty or blocked inside an
//     execution the driver had seen and not released: every start of the hook seen at or after a
//     happened after a; the k-th of them, seen at m, must satisfy k <= B + ceil((m-a)/I).  The
//     instant just before a release is such an anchor: the windows that begin when the queue is
//     given back.
//   - configurations with all bindings in ONE queue: the queue-level model (C18_Model.serve) run
//     on the observed sequence of executions with the real queued-at instants and the release
//     instants; no start may be seen EARLIER than the model starts it.  What was combined or
//     retried is read off the observation; no exactness of the tick timing is needed.
package c18

import (
	"fmt"
	"sort"
	"strings"
	"time"

	"github.com/flant/shell-operator/pkg/task/queue"

	"verifharness/internal/core"
	"verifharness/internal/opsim"
)

type HStep struct {
	AfterMs int  `json:"after_ms"`      // pause after the previous step was carried out
	C       int  `json:"c,omitempty"`   // crontab that fires (0 = none)
	Rel     bool `json:"rel,omitempty"` // release: every held execution is allowed to end
}

type HeldIn struct {
	Cfg       []opsim.Hook `json:"cfg"`
	Slow      []int        `json:"slow"`                 // hooks whose executions are held open until the next release
	BackoffMs int          `json:"backoff_ms,omitempty"` // > 0: the first run of a slow hook's task FAILS at once, the queue's back-off lasts that long, the retry is held
	Plan      []HStep      `json:"plan,omitempty"`
	Pattern   string       `json:"pattern,omitempty"` // how the generator spaced the ticks (tag only)
}

type HRun struct {
	Queue     int   `json:"queue"`
	Hook      int   `json:"hook"`
	QueuedNs  int64 `json:"queued_ns"`
	SeenNs    int64 `json:"seen_ns"`
	RepliedNs int64 `json:"replied_ns"`
	Held      bool  `json:"held,omitempty"`
	Failed    bool  `json:"failed,omitempty"`
}

type HAnchor struct {
	AtNs  int64 `json:"at_ns"`
	Hooks []int `json:"hooks"`
	Rel   bool  `json:"rel,omitempty"` // taken just before a release
}

type HeldObs struct {
	Runs       []HRun     `json:"runs"`
	Anchors    []HAnchor  `json:"anchors"`
	Ticks      []TTickObs `json:"ticks"`
	Releases   []int64    `json:"releases"`
	MaxPending int        `json:"max_pending"` // most tasks of ONE limited hook waiting in a held queue at a release
	MaxHoldNs  int64      `json:"max_hold_ns"` // longest time an execution was held (a back-off before it included)
	Bad        string     `json:"bad,omitempty"`
	InitErr    string     `json:"init_err,omitempty"`
	WallNs     int64      `json:"wall_ns"`
}

type hdrv struct {
	d      *drv
	in     HeldIn
	out    *HeldObs
	slow   map[int]bool
	heldAt map[int]int   // queue -> index in out.Runs of the execution held there
	since  map[int]int64 // queue -> instant since which the queue has been held (first failed run included)
}

func (t *hdrv) now() int64 { return int64(time.Since(t.d.t0)) }

func (t *hdrv) bad(s string) {
	if t.out.Bad == "" {
		t.out.Bad = s
	}
}

// started: one execution has been seen.  Slow hooks are held (or, with a back-off configured,
// fail their first run at once); everything else ends successfully right away.
func (t *hdrv) started(c *opsim.Call) {
	var step OStep
	before := len(t.d.starts)
	t.d.place(c, &step)
	if step.Bad != "" {
		t.bad(step.Bad)
	}
	if len(t.d.starts) != before+1 {
		t.bad("start not recorded")
		c.Reply(opsim.Reply{})
		return
	}
	st := t.d.starts[before]
	run := HRun{Queue: st.Queue, Hook: st.Hook, SeenNs: st.AtNs, QueuedNs: -1}
	fails := 0
	if st.Queue >= 0 {
		items, _ := t.d.snapshotQueue(opsim.QueueName(st.Queue))
		if len(items) > 0 {
			run.QueuedNs = int64(items[0].GetQueuedAt().Sub(t.d.t0))
			fails = items[0].GetFailureCount()
		} else {
			t.bad("an execution was seen in a queue that is empty")
		}
	} else {
		t.bad("an execution could not be placed in a queue")
	}
	if t.d.open[st.Queue] != c {
		// a second execution in a queue that has one open: recorded as bad by place
		run.RepliedNs = t.now()
		t.out.Runs = append(t.out.Runs, run)
		c.Reply(opsim.Reply{})
		return
	}
	switch {
	case t.slow[c.Hook] && t.in.BackoffMs > 0 && fails == 0:
		// the first run fails at once: the queue sits in the back-off, then the task is handled again
		if _, ok := t.since[st.Queue]; !ok {
			t.since[st.Queue] = st.AtNs
		}
		run.Failed = true
		run.RepliedNs = t.now()
		t.out.Runs = append(t.out.Runs, run)
		delete(t.d.open, st.Queue)
		c.Reply(opsim.Reply{Exit: 1})
	case t.slow[c.Hook]:
		if _, ok := t.since[st.Queue]; !ok {
			t.since[st.Queue] = st.AtNs
		}
		run.Held = true
		t.out.Runs = append(t.out.Runs, run)
		t.heldAt[st.Queue] = len(t.out.Runs) - 1
	default:
		run.RepliedNs = t.now()
		t.out.Runs = append(t.out.Runs, run)
		delete(t.d.open, st.Queue)
		c.Reply(opsim.Reply{})
	}
}

func (t *hdrv) pump(until time.Time) {
	for {
		wait := time.Until(until)
		if wait <= 0 {
			select {
			case c := <-t.d.s.Srv.Execs:
				t.started(c)
				continue
			default:
				return
			}
		}
		select {
		case c := <-t.d.s.Srv.Execs:
			t.started(c)
		case <-time.After(wait):
		}
	}
}

func (t *hdrv) waitUntil(cond func() bool, limit time.Duration) bool {
	deadline := time.Now().Add(limit)
	for {
		t.pump(time.Now())
		if cond() {
			return true
		}
		if time.Now().After(deadline) {
			return false
		}
		t.pump(time.Now().Add(300 * time.Microsecond))
	}
}

// queueQuiet: the queue is empty, or its worker is blocked inside an execution the driver has
// seen and holds open
func (t *hdrv) queueQuiet(q int) bool {
	if _, held := t.heldAt[q]; held {
		return t.d.open[q] != nil
	}
	if _, open := t.d.open[q]; open {
		return false
	}
	items, _ := t.d.snapshotQueue(opsim.QueueName(q))
	return len(items) == 0
}

func hookQueues(h opsim.Hook) []int {
	seen := map[int]bool{}
	var qs []int
	add := func(q int) {
		if !seen[q] {
			seen[q] = true
			qs = append(qs, q)
		}
	}
	if h.Startup != nil || len(h.Kube) > 0 {
		add(0)
	}
	for _, b := range h.Kube {
		add(b.Queue)
	}
	for _, b := range h.Sched {
		add(b.Queue)
	}
	return qs
}

// anchor: the instant [a] has been taken by the caller BEFORE this look at the queues.  The hooks
// for which it is valid: every queue with a binding of the hook is quiet, and no start is
// waiting to be seen.
func (t *hdrv) anchor(a int64, rel bool) {
	if len(t.d.s.Srv.Execs) > 0 {
		return
	}
	quiet := map[int]bool{}
	for _, n := range t.d.queueNames() {
		q := queueNum(n)
		quiet[q] = t.queueQuiet(q)
	}
	var hooks []int
	for _, h := range t.in.Cfg {
		ok := true
		for _, q := range hookQueues(h) {
			if v, known := quiet[q]; known && !v {
				ok = false
			}
		}
		if ok {
			hooks = append(hooks, h.Id)
		}
	}
	if len(t.d.s.Srv.Execs) > 0 || len(hooks) == 0 {
		return
	}
	t.out.Anchors = append(t.out.Anchors, HAnchor{AtNs: a, Hooks: hooks, Rel: rel})
}

// pending: tasks of limited hooks waiting in queue q behind the held execution
func (t *hdrv) pending(q int) int {
	items, _ := t.d.snapshotQueue(opsim.QueueName(q))
	per := map[int]int{}
	for i, it := range items {
		if i == 0 {
			continue
		}
		o := t.d.taskObs(it)
		per[o.Hook]++
	}
	best := 0
	for _, h := range t.in.Cfg {
		if hasSettings(h) && h.IntervalMs > 0 && per[h.Id] > best {
			best = per[h.Id]
		}
	}
	return best
}

// release: every held execution is allowed to end.  The anchor is taken first.
func (t *hdrv) release() {
	t.pump(time.Now())
	if len(t.heldAt) == 0 {
		return
	}
	a := t.now()
	t.anchor(a, true)
	t.out.Releases = append(t.out.Releases, a)
	var qs []int
	for q := range t.heldAt {
		qs = append(qs, q)
	}
	sort.Ints(qs)
	for _, q := range qs {
		idx := t.heldAt[q]
		c := t.d.open[q]
		if n := t.pending(q); n > t.out.MaxPending {
			t.out.MaxPending = n
		}
		at := t.now() // before the reply: the handler cannot have returned earlier
		t.out.Runs[idx].RepliedNs = at
		if hold := at - t.since[q]; hold > t.out.MaxHoldNs {
			t.out.MaxHoldNs = hold
		}
		delete(t.heldAt, q)
		delete(t.since, q)
		delete(t.d.open, q)
		if c != nil {
			c.Reply(opsim.Reply{})
		}
	}
}

func (t *hdrv) idle() bool {
	if len(t.d.open) > 0 || len(t.heldAt) > 0 || len(t.d.s.Srv.Execs) > 0 {
		return false
	}
	for _, n := range t.d.queueNames() {
		items, _ := t.d.snapshotQueue(n)
		if len(items) > 0 {
			return false
		}
	}
	return len(t.d.s.Srv.Execs) == 0
}

// slowFedInto: queues into which crontab c puts a task of a slow hook
func (t *hdrv) slowFedInto(c int) []int {
	var qs []int
	for _, h := range t.in.Cfg {
		if !t.slow[h.Id] {
			continue
		}
		for _, b := range h.Sched {
			if b.Cron == c {
				qs = append(qs, b.Queue)
			}
		}
	}
	return qs
}

func runHeld(in HeldIn) *HeldObs {
	out := &HeldObs{}
	s, err := opsim.NewSim(opsim.Input{Cfg: in.Cfg})
	if err != nil {
		out.InitErr = err.Error()
		if s != nil {
			s.Close()
		}
		return out
	}
	d := newDrv(s, OpIn{Cfg: in.Cfg})
	defer d.close()
	d.t0 = time.Now()
	t := &hdrv{d: d, in: in, out: out, slow: map[int]bool{}, heldAt: map[int]int{}, since: map[int]int64{}}
	for _, h := range in.Slow {
		t.slow[h] = true
	}
	st := d.do(opsim.Action{Kind: "Boot"})
	if st.Bad != "" || st.Note != "" {
		out.Bad = "boot: " + st.Bad + st.Note
	}
	if in.BackoffMs > 0 {
		delay := time.Duration(in.BackoffMs) * time.Millisecond
		d.s.Op.TaskQueues.DoWithLock(func(tqs *queue.TaskQueueSet) {
			for _, q := range tqs.Queues {
				q.ExponentialBackoffFn = func(int) time.Duration { return delay }
			}
		})
	}
	last := time.Now()
	for _, sp := range in.Plan {
		if out.Bad != "" {
			break
		}
		t.pump(last.Add(time.Duration(sp.AfterMs) * time.Millisecond))
		switch {
		case sp.Rel:
			t.release()
		case sp.C > 0:
			a := t.now()
			t.anchor(a, false)
			at := t.now()
			d.do2Tick(sp.C)
			out.Ticks = append(out.Ticks, TTickObs{AtNs: at, C: sp.C})
			// a tick that starts a holder: wait (coverage, not soundness) until the execution that is
			// going to hold the queue has been seen, so that the following ticks pile up behind it
			if qs := t.slowFedInto(sp.C); len(qs) > 0 {
				t.waitUntil(func() bool {
					for _, q := range qs {
						if _, held := t.heldAt[q]; !held {
							return false
						}
					}
					return true
				}, time.Duration(400+in.BackoffMs)*time.Millisecond)
			}
		}
		last = time.Now()
	}
	// the end: release whatever is held, again and again, until nothing is left
	deadline := time.Now().Add(10 * time.Second)
	for out.Bad == "" {
		t.pump(time.Now())
		if t.idle() {
			break
		}
		if len(t.heldAt) > 0 {
			t.release()
		}
		if time.Now().After(deadline) {
			out.Bad = "the queues did not become empty"
			break
		}
		t.pump(time.Now().Add(500 * time.Microsecond))
	}
	if out.Bad == "" {
		a := t.now()
		t.anchor(a, false)
	}
	out.WallNs = t.now()
	return out
}

// ---- rendering ----

func clampNs(x int64) int64 {
	const lim = int64(1) << 62
	if x > lim {
		return lim
	}
	if x < -lim {
		return -lim
	}
	return x
}

func renderHeld(in HeldIn, obs *HeldObs, crash string) core.Case {
	var o HeldObs
	if obs != nil {
		o = *obs
	}
	bad := crash != "" || o.InitErr != "" || o.Bad != "" || obs == nil
	c := core.Case{}
	c.Coq = fmt.Sprintf("(CHeld (mkHCase %s\n %s\n %s\n %s %s))",
		core.CoqList(in.Cfg, coqHook), core.CoqList(in.Cfg, coqSettings),
		core.CoqList(o.Runs, func(r HRun) string {
			return fmt.Sprintf("mkHR %d %d %s %s %s", nn(r.Queue), nn(r.Hook), coqZ(clampNs(r.QueuedNs)), coqZ(clampNs(r.SeenNs)), coqZ(clampNs(r.RepliedNs)))
		}),
		core.CoqList(o.Anchors, func(a HAnchor) string {
			return fmt.Sprintf("(%s, %s)", coqZ(a.AtNs), core.CoqList(a.Hooks, func(h int) string { return core.CoqN(nn(h)) }))
		}),
		core.CoqBool(bad))
	if crash != "" {
		c.JSON = map[string]any{"held": o, "crash": crash}
	} else {
		c.JSON = map[string]any{"held": o}
	}
	var kb strings.Builder
	for _, h := range in.Cfg {
		kb.WriteString(coqHook(h))
		kb.WriteString(coqSettings(h))
	}
	kb.WriteString(fmt.Sprintf("|slow%v|bo%d", in.Slow, in.BackoffMs))
	for _, sp := range in.Plan {
		kb.WriteString(fmt.Sprintf("|%d,%d,%v", sp.AfterMs, sp.C, sp.Rel))
	}
	c.Key = "held|" + kb.String()

	c.Tags = append(c.Tags, "class:held")
	// queues and who shares them
	queues := map[int]map[int]bool{}
	limitedShares := false
	for _, h := range in.Cfg {
		for _, q := range hookQueues(h) {
			if queues[q] == nil {
				queues[q] = map[int]bool{}
			}
			queues[q][h.Id] = true
		}
	}
	slow := map[int]bool{}
	for _, h := range in.Slow {
		slow[h] = true
	}
	holderLimited, holderOther := false, false
	for _, h := range in.Cfg {
		lim := hasSettings(h) && h.IntervalMs > 0
		if lim {
			c.Tags = append(c.Tags, fmt.Sprintf("held:I=%dms", h.IntervalMs), fmt.Sprintf("held:B=%d", h.Burst))
			for _, q := range hookQueues(h) {
				if len(queues[q]) > 1 {
					limitedShares = true
				}
			}
		}
		if slow[h.Id] {
			if lim {
				holderLimited = true
			} else {
				holderOther = true
			}
		}
	}
	if len(queues) == 1 {
		c.Tags = append(c.Tags, "held:all-bindings-in-one-queue(compared-with-model)")
	} else {
		c.Tags = append(c.Tags, "held:several-queues(P-only)")
	}
	for q := range queues {
		if q == 0 {
			c.Tags = append(c.Tags, "held:queue-main")
		} else {
			c.Tags = append(c.Tags, "held:queue-named")
		}
	}
	if limitedShares {
		c.Tags = append(c.Tags, "held:limited-hook-shares-a-queue")
	}
	if holderOther {
		c.Tags = append(c.Tags, "held:holder-without-limit")
	}
	if holderLimited {
		c.Tags = append(c.Tags, "held:holder-is-a-limited-hook")
	}
	if in.BackoffMs > 0 {
		c.Tags = append(c.Tags, "held:failed-run-and-back-off-before-the-hold")
	}
	if in.Pattern != "" {
		c.Tags = append(c.Tags, "held:arrivals:"+in.Pattern)
	}
	maxI := 0
	for _, h := range in.Cfg {
		if hasSettings(h) && h.IntervalMs > maxI {
			maxI = h.IntervalMs
		}
	}
	longHold := maxI > 0 && o.MaxHoldNs > int64(maxI)*int64(time.Millisecond)
	if longHold {
		c.Tags = append(c.Tags, "held:queue-held-longer-than-I")
	}
	relAnchors := 0
	for _, a := range o.Anchors {
		if a.Rel {
			relAnchors++
		}
	}
	c.Tags = append(c.Tags, fmt.Sprintf("held:pending-tasks-of-a-limited-hook-at-release:%d", o.MaxPending),
		fmt.Sprintf("held:releases:%d", len(o.Releases)), fmt.Sprintf("held:anchors-at-a-release:%d", relAnchors),
		fmt.Sprintf("held:starts:%02d+", len(o.Runs)/4*4), fmt.Sprintf("held:ticks:%02d+", len(o.Ticks)/4*4))
	if bad {
		c.Tags = append(c.Tags, "held:bad")
	}
	// non-trivial: a limited hook shares a queue with another hook, the queue was held for longer
	// than the interval, at least two tasks of one limited hook were waiting behind the holder
	// when it was released, an anchor was taken at a release, and at least 4 executions were seen
	c.Nontrivial = !bad && limitedShares && longHold && o.MaxPending >= 2 && relAnchors >= 1 && len(o.Runs) >= 4
	return c
}

// ---- generation ----

func sb(name, q, cron int) opsim.SB { return opsim.SB{Name: name, Queue: q, Cron: cron} }

// genHeld: see the package comment.  Roles: L (limited), O (interleaver: same crontab and queue
// as L), X (holder, own crontab 2).  Variants: X holds (most), O holds, L itself holds, L has a
// second binding in another queue (P only).
func genHeld(r *core.Rng) HeldIn {
	ivs := []int{100, 100, 120, 150, 200}
	I := ivs[r.Intn(len(ivs))]
	B := []int{1, 1, 1, 2, 2, 3}[r.Intn(6)]
	q := r.Intn(3)
	ids := [][]int{{1, 2, 3}, {2, 1, 3}, {1, 3, 2}, {3, 1, 2}, {2, 3, 1}, {3, 2, 1}}[r.Intn(6)]
	L, O, X := ids[0], ids[1], ids[2]
	variant := []string{"X", "X", "X", "X", "X", "X", "O", "O", "L", "multi", "multi"}[r.Intn(11)]
	hooks := map[int]*opsim.Hook{}
	binding := 0
	mk := func(id int) *opsim.Hook {
		if hooks[id] == nil {
			hooks[id] = &opsim.Hook{Id: id}
		}
		return hooks[id]
	}
	bind := func(id, queue, cron int) {
		binding++
		h := mk(id)
		h.Sched = append(h.Sched, sb(binding, queue, cron))
	}
	mk(L).IntervalMs, mk(L).Burst = I, B
	bind(L, q, 1)
	bind(O, q, 1)
	if r.Chance(30) {
		mk(O).IntervalMs, mk(O).Burst = ivs[r.Intn(len(ivs))], 1+r.Intn(2)
	}
	in := HeldIn{}
	holderCron := 2
	switch variant {
	case "X", "multi":
		bind(X, q, 2)
		if r.Chance(15) {
			mk(X).IntervalMs, mk(X).Burst = ivs[r.Intn(len(ivs))], 1+r.Intn(2)
		}
		in.Slow = []int{X}
		if variant == "multi" {
			bind(L, (q+1)%3, 3)
		}
	case "O":
		in.Slow = []int{O}
		holderCron = 1
	case "L":
		in.Slow = []int{L}
		holderCron = 1
	}
	for id := 1; id <= 3; id++ {
		if h := hooks[id]; h != nil {
			in.Cfg = append(in.Cfg, *h)
		}
	}
	if r.Chance(25) {
		in.BackoffMs = []int{60, 120, 180}[r.Intn(3)]
	}
	in.Pattern = []string{"steady-at-rate", "steady-faster", "steady-slower", "burst", "random"}[r.Intn(5)]
	phases := 1
	if r.Chance(35) {
		phases = 2
	}
	tasks := 0
	for ph := 0; ph < phases && tasks < 7; ph++ {
		first := 0
		if ph > 0 {
			// the next hold begins while the queue is still being drained, or after it has drained
			first = []int{0, 20, I, 2 * I, (B + 2) * I}[r.Intn(5)]
		}
		in.Plan = append(in.Plan, HStep{AfterMs: first, C: holderCron})
		n := 2 + r.Intn(4)
		if holderCron == 1 {
			tasks++
		}
		elapsed := 0
		for k := 0; k < n && tasks < 8; k++ {
			var gap int
			switch in.Pattern {
			case "steady-at-rate":
				gap = I
			case "steady-faster":
				gap = []int{I / 4, I / 2, I / 3}[r.Intn(3)]
			case "steady-slower":
				gap = I + I/4
			case "burst":
				gap = r.Intn(4)
			default:
				gap = 5 + r.Intn(I)
			}
			if k == 0 {
				gap = 5 + r.Intn(30)
			}
			c := 1
			if variant == "multi" && r.Chance(35) {
				c = 3
			}
			in.Plan = append(in.Plan, HStep{AfterMs: gap, C: c})
			elapsed += gap
			tasks++
		}
		// hold the queue for 1.2 .. 2.5 intervals at least
		target := I*12/10 + r.Intn(I*13/10)
		pad := target - elapsed - in.BackoffMs
		if pad < 5 {
			pad = 5 + r.Intn(20)
		}
		in.Plan = append(in.Plan, HStep{AfterMs: pad, Rel: true})
	}
	return in
}

func hplan(xs ...int) []HStep {
	// triples: after_ms, crontab (0 = none), release (1/0)
	var p []HStep
	for i := 0; i+2 < len(xs); i += 3 {
		p = append(p, HStep{AfterMs: xs[i], C: xs[i+1], Rel: xs[i+2] == 1})
	}
	return p
}

// HeldCorpus: the limited hook behind a slow hook in a named queue and in main, a steady stream
// at exactly the permitted rate, burst 2, a failing holder (back-off), the limited hook in two queues.
func HeldCorpus() []HeldIn {
	three := func(ms, burst, q int) []opsim.Hook {
		return []opsim.Hook{schedHook(1, ms, burst, sb(1, q, 1)), schedHook(2, 0, 0, sb(2, q, 1)), schedHook(3, 0, 0, sb(3, q, 2))}
	}
	return []HeldIn{
		// four events, two per interval, while hook 3 holds queue 1 for three intervals
		{Cfg: three(100, 1, 1), Slow: []int{3}, Pattern: "steady-faster",
			Plan: hplan(0, 2, 0, 20, 1, 0, 50, 1, 0, 50, 1, 0, 50, 1, 0, 130, 0, 1)},
		// a steady stream at exactly the permitted rate (one event per interval) for four intervals, main queue
		{Cfg: three(100, 1, 0), Slow: []int{3}, Pattern: "steady-at-rate",
			Plan: hplan(0, 2, 0, 10, 1, 0, 100, 1, 0, 100, 1, 0, 100, 1, 0, 60, 0, 1)},
		// burst 2, a burst of five events
		{Cfg: three(120, 2, 2), Slow: []int{3}, Pattern: "burst",
			Plan: hplan(0, 2, 0, 20, 1, 0, 2, 1, 0, 2, 1, 0, 2, 1, 0, 2, 1, 0, 180, 0, 1)},
		// the holder fails first: back-off, then the retry is held
		{Cfg: three(100, 1, 1), Slow: []int{3}, BackoffMs: 120, Pattern: "steady-faster",
			Plan: hplan(0, 2, 0, 20, 1, 0, 40, 1, 0, 40, 1, 0, 60, 0, 1)},
		// the interleaving hook itself is slow: every release lets one of its executions through
		{Cfg: []opsim.Hook{schedHook(1, 100, 1, sb(1, 1, 1)), schedHook(2, 0, 0, sb(2, 1, 1))}, Slow: []int{2}, Pattern: "steady-faster",
			Plan: hplan(0, 1, 0, 40, 1, 0, 40, 1, 0, 80, 0, 1, 150, 0, 1)},
		// the limited hook has a second binding in another queue (judged by P only)
		{Cfg: []opsim.Hook{schedHook(1, 100, 1, sb(1, 1, 1), sb(4, 2, 3)), schedHook(2, 0, 0, sb(2, 1, 1)), schedHook(3, 0, 0, sb(3, 1, 2))},
			Slow: []int{3}, Pattern: "random",
			Plan: hplan(0, 2, 0, 20, 1, 0, 30, 3, 0, 30, 1, 0, 30, 1, 0, 100, 0, 1)},
	}
}

// HeldGrid (thorough tier): the basic configuration (limited hook 1, interleaver 2, holder 3, one
// queue) over every combination of burst, arrival pattern, number of events, queue and back-off.
func HeldGrid() []HeldIn {
	var out []HeldIn
	const I = 100
	for _, B := range []int{1, 2, 3} {
		for _, pat := range []string{"steady-at-rate", "steady-faster", "steady-slower", "burst", "random"} {
			for _, n := range []int{2, 4} {
				for _, q := range []int{0, 1} {
					for _, bo := range []int{0, 120} {
						in := HeldIn{Slow: []int{3}, BackoffMs: bo, Pattern: pat,
							Cfg: []opsim.Hook{schedHook(1, I, B, sb(1, q, 1)), schedHook(2, 0, 0, sb(2, q, 1)), schedHook(3, 0, 0, sb(3, q, 2))}}
						in.Plan = append(in.Plan, HStep{C: 2})
						elapsed := 0
						for k := 0; k < n; k++ {
							gap := map[string]int{"steady-at-rate": I, "steady-faster": I / 3, "steady-slower": I + I/4, "burst": 1, "random": 17 + 29*k}[pat]
							if k == 0 {
								gap = 15
							}
							in.Plan = append(in.Plan, HStep{AfterMs: gap, C: 1})
							elapsed += gap
						}
						pad := I*3/2 - elapsed - bo
						if pad < 10 {
							pad = 10
						}
						in.Plan = append(in.Plan, HStep{AfterMs: pad, Rel: true})
						out = append(out, in)
					}
				}
			}
		}
	}
	return out
}
