// Operator-level cases of C18: the REAL operator (assembled in-process on a fake cluster by
// internal/opsim, hooks = scripted stubs) with `settings:` in the hooks' configurations.
// A scenario issues actions (Boot, Tick, KubeEv, Finish ok|fail) and records, at the
// quiescent point after each of them, the queues, the open executions, the unlocked
// monitors, the queues whose worker sleeps in Hook.RateLimitWait, and every execution
// start with the measured instant.  Intervals are far longer than a scenario (>= 30 s
// against well under 10 s), so a worker that has to wait stays waiting till the end of the
// scenario; the retry back-off of the queues is shortened through the exported field
// TaskQueue.ExponentialBackoffFn.
//
// The driver has its own quiescence detection (opsim's would wait for its deadline on a
// queue that waits in the limiter): a non-empty queue without an open execution is at rest
// only if its status is "run first task" and the limiter of the head task's hook holds as
// many reservations for the future (negative Tokens()) as there are such queues for the
// hook - a positive observation, not a timeout.
package c18

import (
	"fmt"
	"math"
	"sort"
	"strconv"
	"strings"
	"sync"
	"time"

	"k8s.io/apimachinery/pkg/apis/meta/v1/unstructured"

	"github.com/flant/shell-operator/pkg/hook/task_metadata"
	kubeeventsmanager "github.com/flant/shell-operator/pkg/kube_events_manager"
	kemtypes "github.com/flant/shell-operator/pkg/kube_events_manager/types"
	"github.com/flant/shell-operator/pkg/task"
	"github.com/flant/shell-operator/pkg/task/queue"

	"verifharness/internal/core"
	"verifharness/internal/opsim"
)

// ---- input ----

type OpIn struct {
	Cfg       []opsim.Hook   `json:"cfg"`
	Acts      []opsim.Action `json:"acts,omitempty"`  // explicit script; empty = chosen on the fly from Seed
	Seed      int64          `json:"seed,omitempty"`  // PRNG seed of the on-the-fly script
	Steps     int            `json:"steps,omitempty"` // its length
	PFail     int            `json:"pfail,omitempty"` // % of Finish actions that fail
	BackoffUs int            `json:"backoff_us"`      // delay the queues' back-off function returns (microseconds)
}

// ---- observation ----

type OTask struct {
	Type     string         `json:"type"`
	Hook     int            `json:"hook"`
	BType    string         `json:"btype"`
	Ctxs     []opsim.CtxObs `json:"ctxs"`
	Allow    bool           `json:"allow"`
	Group    int            `json:"group"`
	Mids     []int          `json:"mids"`
	ExecSync bool           `json:"execsync"`
	Queue    int            `json:"queue"`
	Fail     int            `json:"fail"`
}
type OQueue struct {
	Name    int     `json:"name"`
	Items   []OTask `json:"items"`
	Running bool    `json:"running"`
}
type OExec struct {
	Queue int            `json:"queue"`
	Hook  int            `json:"hook"`
	Ctxs  []opsim.CtxObs `json:"ctxs"`
}
type OStep struct {
	Queues   []OQueue `json:"queues"`
	Execs    []OExec  `json:"execs"`
	Unlocked []int    `json:"unlocked"`
	Waiting  []int    `json:"waiting"`           // queues whose worker sleeps in RateLimitWait
	Started  []OExec  `json:"started,omitempty"` // executions that started during this step
	Note     string   `json:"note,omitempty"`
	Bad      string   `json:"bad,omitempty"`
}
type OStart struct {
	Hook  int   `json:"hook"`
	Queue int   `json:"queue"`
	AtNs  int64 `json:"at_ns"`
}
type OpObs struct {
	Acts    []opsim.Action `json:"acts"`
	At      []int64        `json:"at"` // instant (ns since the start of the scenario) each action was issued
	Steps   []OStep        `json:"steps"`
	Starts  []OStart       `json:"starts"`
	InitErr string         `json:"init_err,omitempty"`
	Backoff []int          `json:"backoff,omitempty"` // failure counts handed to the queues' back-off function
	WallNs  int64          `json:"wall_ns"`
}

// ---- names (opsim's conventions) ----

func parseNum(prefix, s string) int {
	if !strings.HasPrefix(s, prefix) {
		return -1
	}
	digits := s[len(prefix):]
	end := 0
	for end < len(digits) && digits[end] >= '0' && digits[end] <= '9' {
		end++
	}
	if end == 0 || (prefix != "h" && end != len(digits)) {
		return -1
	}
	n, err := strconv.Atoi(digits[:end])
	if err != nil {
		return -1
	}
	return n
}
func bindingNum(s string) int {
	if s == "onStartup" {
		return 0
	}
	return parseNum("b", s)
}
func queueNum(s string) int {
	if s == "main" {
		return 0
	}
	return parseNum("q", s)
}
func groupNum(s string) int {
	if s == "" {
		return 0
	}
	return parseNum("g", s)
}

// ---- the driver ----

type drv struct {
	s        *opsim.Sim
	in       OpIn
	open     map[int]*opsim.Call
	monNum   map[string]int
	hookV0   map[int]bool
	bindingQ map[int]int
	booted   bool
	t0       time.Time
	starts   []OStart
	mu       sync.Mutex
	backoffs []int
}

func newDrv(s *opsim.Sim, in OpIn) *drv {
	d := &drv{s: s, in: in, open: map[int]*opsim.Call{}, monNum: map[string]int{}, hookV0: map[int]bool{}, bindingQ: map[int]int{}}
	for _, h := range in.Cfg {
		d.hookV0[h.Id] = h.V0
		for _, b := range h.Kube {
			d.bindingQ[b.Name] = b.Queue
			if h.V0 {
				d.bindingQ[b.Name] = 0
			}
		}
		for _, b := range h.Sched {
			d.bindingQ[b.Name] = b.Queue
			if h.V0 {
				d.bindingQ[b.Name] = 0
			}
		}
		hk := s.Op.VerifHookManager().GetHook(opsim.HookName(h.Id))
		if hk == nil {
			continue
		}
		for _, kc := range hk.GetConfig().OnKubernetesEvents {
			d.monNum[kc.Monitor.Metadata.MonitorId] = bindingNum(kc.BindingName)
		}
	}
	return d
}

func (d *drv) close() {
	if d.booted {
		d.s.Op.Shutdown() // cancels the queues' contexts: a handler that returns is not followed by another
	}
	for _, c := range d.open {
		c.Reply(opsim.Reply{Exit: 1})
	}
	d.s.Close()
}

func (d *drv) queueNames() []string {
	var names []string
	d.s.Op.TaskQueues.DoWithLock(func(tqs *queue.TaskQueueSet) {
		for n := range tqs.Queues {
			names = append(names, n)
		}
	})
	sort.Slice(names, func(i, j int) bool { return queueNum(names[i]) < queueNum(names[j]) })
	return names
}

func (d *drv) snapshotQueue(name string) (items []task.Task, status string) {
	q := d.s.Op.TaskQueues.GetByName(name)
	if q == nil {
		return nil, ""
	}
	q.Iterate(func(t task.Task) { items = append(items, t) })
	return items, q.GetStatus()
}

func (d *drv) taskObs(t task.Task) OTask {
	o := OTask{Type: string(t.GetType()), Queue: queueNum(t.GetQueueName()), Fail: t.GetFailureCount()}
	hm := task_metadata.HookMetadataAccessor(t)
	o.Hook = parseNum("h", hm.HookName)
	switch string(hm.BindingType) {
	case "onStartup":
		o.BType = "BOnStartup"
	case "kubernetes":
		o.BType = "BKube"
	case "schedule":
		o.BType = "BSchedule"
	default:
		o.BType = "B?" + string(hm.BindingType)
	}
	if t.GetType() == task_metadata.EnableKubernetesBindings {
		o.BType = "BKube"
	}
	if t.GetType() == task_metadata.EnableScheduleBindings {
		o.BType = "BSchedule"
	}
	o.Allow = hm.AllowFailure
	o.Group = groupNum(hm.Group)
	o.ExecSync = hm.ExecuteOnSynchronization
	for _, m := range hm.MonitorIDs {
		o.Mids = append(o.Mids, d.monNum[m])
	}
	for _, bc := range hm.BindingContext {
		c := opsim.CtxObs{Binding: bindingNum(bc.Binding), Group: groupNum(bc.Metadata.Group)}
		switch {
		case string(bc.Metadata.BindingType) == "onStartup":
			c.Kind = "Startup"
		case string(bc.Metadata.BindingType) == "schedule":
			c.Kind = "Schedule"
		case bc.Type == kemtypes.TypeSynchronization:
			c.Kind = "Sync"
		case bc.Type == kemtypes.TypeEvent:
			c.Kind = "Event"
			if len(bc.Objects) > 0 && bc.Objects[0].Object != nil {
				c.Obj = parseNum("o", bc.Objects[0].Object.GetName())
			}
		default:
			c.Kind = "?"
		}
		o.Ctxs = append(o.Ctxs, c)
	}
	return o
}

// sleepers: how many reservations for the future the hook's limiter holds right now.
// Limiter.Tokens() is negative exactly when somebody was granted a token that does not
// exist yet and sleeps until it does; with intervals far longer than the scenario each
// such sleeper accounts for one (minus the little that has been refilled since).
func (d *drv) sleepers(hookNum int) int {
	hk := d.s.Op.VerifHookManager().GetHook(opsim.HookName(hookNum))
	if hk == nil || hk.RateLimiter == nil {
		return 0
	}
	tok := hk.RateLimiter.Tokens()
	if !(tok < 0) {
		return 0
	}
	return int(math.Ceil(-tok))
}

// place registers a started execution (queue found as opsim does: Synchronization and
// onStartup run in main, everything else in its binding's queue).
func (d *drv) place(c *opsim.Call, step *OStep) {
	at := int64(time.Since(d.t0))
	ctxs := opsim.ParseContexts(c.Hello.Context, d.hookV0[c.Hook])
	cand := -1
	if len(ctxs) > 0 {
		first := ctxs[0]
		switch {
		case first.Kind == "Startup" || first.Kind == "Sync" || first.Binding == 0:
			cand = 0
		default:
			if q, ok := d.bindingQ[first.Binding]; ok {
				cand = q
			}
		}
		if first.Kind == "Group" {
			items, _ := d.snapshotQueue("main")
			if len(items) > 0 {
				h := d.taskObs(items[0])
				if h.Hook == c.Hook && len(h.Ctxs) > 0 && h.Ctxs[0].Kind == "Sync" {
					if _, busy := d.open[0]; !busy {
						cand = 0
					}
				}
			}
		}
	}
	e := OExec{Queue: cand, Hook: c.Hook, Ctxs: ctxs}
	step.Started = append(step.Started, e)
	d.starts = append(d.starts, OStart{Hook: c.Hook, Queue: cand, AtNs: at})
	if _, busy := d.open[cand]; busy {
		step.Bad = fmt.Sprintf("second execution started in queue %d while one is open", cand)
		d.open[-1000-c.Seq] = c
		return
	}
	d.open[cand] = c
}

func (d *drv) collect(step *OStep) {
	for {
		select {
		case c := <-d.s.Srv.Execs:
			d.place(c, step)
		default:
			return
		}
	}
}

// settle waits until every queue is empty, or has an open execution, or its worker
// provably sleeps in the limiter.
func (d *drv) settle(step *OStep) {
	deadline := time.Now().Add(3 * time.Second)
	for {
		d.collect(step)
		if !d.booted {
			return
		}
		quiet := true
		cand := map[int][]int{} // hook -> queues inside the HookRun handler without an open execution
		for _, n := range d.queueNames() {
			qn := queueNum(n)
			if _, isOpen := d.open[qn]; isOpen {
				continue
			}
			items, status := d.snapshotQueue(n)
			if len(items) == 0 {
				continue
			}
			if status == "run first task" && items[0].GetType() == task_metadata.HookRun {
				h := parseNum("h", task_metadata.HookMetadataAccessor(items[0]).HookName)
				cand[h] = append(cand[h], qn)
			} else {
				quiet = false
			}
		}
		var waiting []int
		for h, qs := range cand {
			if d.sleepers(h) != len(qs) {
				quiet = false
			}
			waiting = append(waiting, qs...)
		}
		if quiet {
			// a short grace period: nothing else may start
			select {
			case c := <-d.s.Srv.Execs:
				d.place(c, step)
				continue
			case <-time.After(300 * time.Microsecond):
			}
			sort.Ints(waiting)
			step.Waiting = waiting
			return
		}
		if time.Now().After(deadline) {
			step.Note = "not quiescent after 3s"
			return
		}
		select {
		case c := <-d.s.Srv.Execs:
			d.place(c, step)
		case <-time.After(200 * time.Microsecond):
		}
	}
}

func (d *drv) observe(step *OStep) {
	if !d.booted {
		return
	}
	for _, n := range d.queueNames() {
		qn := queueNum(n)
		items, _ := d.snapshotQueue(n)
		qo := OQueue{Name: qn}
		for _, t := range items {
			qo.Items = append(qo.Items, d.taskObs(t))
		}
		_, qo.Running = d.open[qn]
		step.Queues = append(step.Queues, qo)
	}
	var keys []int
	for q := range d.open {
		keys = append(keys, q)
	}
	sort.Ints(keys)
	for _, q := range keys {
		c := d.open[q]
		step.Execs = append(step.Execs, OExec{Queue: q, Hook: c.Hook, Ctxs: opsim.ParseContexts(c.Hello.Context, d.hookV0[c.Hook])})
	}
	for _, h := range d.in.Cfg {
		hk := d.s.Op.VerifHookManager().GetHook(opsim.HookName(h.Id))
		if hk == nil {
			continue
		}
		for _, kc := range hk.GetConfig().OnKubernetesEvents {
			m := d.s.Op.KubeEventsManager.GetMonitor(kc.Monitor.Metadata.MonitorId)
			if m == nil {
				continue
			}
			en, flags := kubeeventsmanager.VerifEventsEnabled(m)
			all := en
			for _, f := range flags {
				all = all && f
			}
			if all {
				step.Unlocked = append(step.Unlocked, bindingNum(kc.BindingName))
			}
		}
	}
	sort.Ints(step.Unlocked)
}

func (d *drv) monitorIdOf(binding int) string {
	for id, n := range d.monNum {
		if n == binding {
			return id
		}
	}
	return ""
}

func (d *drv) do(a opsim.Action) OStep {
	var step OStep
	switch a.Kind {
	case "Boot":
		if !d.booted {
			d.s.Op.VerifStart()
			d.booted = true
			delay := time.Duration(d.in.BackoffUs) * time.Microsecond
			d.s.Op.TaskQueues.DoWithLock(func(tqs *queue.TaskQueueSet) {
				for _, q := range tqs.Queues {
					q.ExponentialBackoffFn = func(failureCount int) time.Duration {
						d.mu.Lock()
						d.backoffs = append(d.backoffs, failureCount)
						d.mu.Unlock()
						return delay
					}
				}
			})
		}
	case "Tick":
		if d.booted {
			ch := d.s.Op.ScheduleManager.Ch()
			ch <- opsim.CronName(a.C)
			// three sentinels: when they are accepted the tick has been turned into tasks
			ch <- "VERIF_SENTINEL"
			ch <- "VERIF_SENTINEL"
			ch <- "VERIF_SENTINEL"
		}
	case "KubeEv":
		if d.booted {
			if id := d.monitorIdOf(a.Mon); id != "" {
				obj := &unstructured.Unstructured{Object: map[string]interface{}{
					"apiVersion": "v1", "kind": "ConfigMap",
					"metadata": map[string]interface{}{"name": "o" + strconv.Itoa(a.Obj), "namespace": "ns" + strconv.Itoa(a.Mon)},
				}}
				ev := kemtypes.KubeEvent{MonitorId: id, Type: kemtypes.TypeEvent,
					WatchEvents: []kemtypes.WatchEventType{kemtypes.WatchEventAdded},
					Objects:     []kemtypes.ObjectAndFilterResult{{Object: obj}}}
				ev.Objects[0].Metadata.ResourceId = "ns" + strconv.Itoa(a.Mon) + "/ConfigMap/o" + strconv.Itoa(a.Obj)
				ch := d.s.Op.KubeEventsManager.Ch()
				ch <- ev
				sent := kemtypes.KubeEvent{MonitorId: "VERIF_SENTINEL", Type: kemtypes.TypeEvent}
				ch <- sent
				ch <- sent
				ch <- sent
			}
		}
	case "Finish":
		if c, ok := d.open[a.Q]; ok {
			r := opsim.Reply{}
			if !a.Ok {
				r.Exit = 1
			}
			delete(d.open, a.Q)
			c.Reply(r)
		}
	}
	d.settle(&step)
	d.observe(&step)
	return step
}

// nextAct chooses an action that makes sense in the observable state.
func nextAct(r *core.Rng, op OpIn, last *OStep, booted *bool, obj *int) opsim.Action {
	if !*booted {
		*booted = true
		return opsim.Action{Kind: "Boot"}
	}
	var open []int
	mainBusy := false
	if last != nil {
		for _, e := range last.Execs {
			if e.Queue >= 0 {
				open = append(open, e.Queue)
			}
		}
		for _, q := range last.Queues {
			if q.Name == 0 && len(q.Items) > 0 {
				mainBusy = true
			}
		}
	}
	wFinish := 55
	if mainBusy {
		wFinish = 80
	}
	if len(open) > 0 && r.Chance(wFinish) {
		return opsim.Action{Kind: "Finish", Q: open[r.Intn(len(open))], Ok: !r.Chance(op.PFail)}
	}
	if last != nil && len(last.Unlocked) > 0 && r.Chance(35) {
		*obj++
		return opsim.Action{Kind: "KubeEv", Mon: last.Unlocked[r.Intn(len(last.Unlocked))], Obj: *obj}
	}
	return opsim.Action{Kind: "Tick", C: 1 + r.Intn(3)}
}

func runOp(op OpIn) *OpObs {
	out := &OpObs{}
	s, err := opsim.NewSim(opsim.Input{Cfg: op.Cfg})
	if err != nil {
		out.InitErr = err.Error()
		if s != nil {
			s.Close()
		}
		return out
	}
	d := newDrv(s, op)
	defer d.close()
	d.t0 = time.Now()
	step := func(a opsim.Action) bool {
		out.At = append(out.At, int64(time.Since(d.t0)))
		st := d.do(a)
		out.Acts = append(out.Acts, a)
		out.Steps = append(out.Steps, st)
		return st.Note == "" && st.Bad == ""
	}
	if len(op.Acts) > 0 {
		for _, a := range op.Acts {
			if !step(a) {
				break
			}
		}
	} else {
		r := core.NewRng(op.Seed)
		booted, obj := false, 0
		var last *OStep
		for i := 0; i < op.Steps; i++ {
			if !step(nextAct(r, op, last, &booted, &obj)) {
				break
			}
			last = &out.Steps[len(out.Steps)-1]
		}
	}
	out.Starts = d.starts
	out.WallNs = int64(time.Since(d.t0))
	d.mu.Lock()
	out.Backoff = append(out.Backoff, d.backoffs...)
	d.mu.Unlock()
	return out
}

// ---- rendering (vocabulary of C18_Corr: the task-flow model's terms) ----

func coqKind(k string) string {
	switch k {
	case "Sync":
		return "KSync"
	case "Event":
		return "KEvent"
	case "Schedule":
		return "KSchedule"
	}
	return "KStartup"
}

func hookKindCode(k string) int {
	switch k {
	case "Startup":
		return 0
	case "Sync":
		return 1
	case "Event":
		return 2
	case "Schedule":
		return 3
	case "Group":
		return 4
	case "V0":
		return 5
	}
	return 99
}

func coqTask(t OTask) string {
	ty := map[string]string{"HookRun": "HookRun", "EnableKubernetesBindings": "EnableKube", "EnableScheduleBindings": "EnableSched"}[t.Type]
	if ty == "" {
		ty = "HookRun"
	}
	bt := t.BType
	if !strings.HasPrefix(bt, "B") || strings.HasPrefix(bt, "B?") {
		bt = "BOnStartup"
	}
	q := t.Queue
	if q < 0 {
		q = 1000 // "" (no queue name)
	}
	ctxs := core.CoqList(t.Ctxs, func(c opsim.CtxObs) string {
		return fmt.Sprintf("mkCtx %d %s %d %d", nn(c.Binding), coqKind(c.Kind), nn(c.Group), nn(c.Obj))
	})
	return fmt.Sprintf("mkTask %s %d %s %s %s %d %s %s %d %d", ty, nn(t.Hook), bt, ctxs, core.CoqBool(t.Allow), nn(t.Group),
		core.CoqList(t.Mids, func(m int) string { return core.CoqN(nn(m)) }), core.CoqBool(t.ExecSync), q, t.Fail)
}

// nn maps the "unparsable" marker -1 to a number no model value has
func nn(n int) int {
	if n < 0 {
		return 3000
	}
	return n
}

func coqExec(e OExec) string {
	q := e.Queue
	if q < 0 {
		q = 2000
	}
	return fmt.Sprintf("mkEO %d %d %s", q, nn(e.Hook), core.CoqList(e.Ctxs, func(c opsim.CtxObs) string {
		return fmt.Sprintf("(%d,%d,%d,%d)", nn(c.Binding), hookKindCode(c.Kind), nn(c.Group), nn(c.Obj))
	}))
}

func coqStep(s OStep) string {
	qs := core.CoqList(s.Queues, func(q OQueue) string {
		return fmt.Sprintf("mkQO %d %s %s false", q.Name, core.CoqList(q.Items, coqTask), core.CoqBool(q.Running))
	})
	return fmt.Sprintf("mkSO %s %s %s %s %s", qs, core.CoqList(s.Execs, coqExec), core.CoqList(s.Unlocked, core.CoqN),
		core.CoqList(s.Started, coqExec), core.CoqBool(s.Bad != "" || s.Note != ""))
}

func coqAction(a opsim.Action) string {
	switch a.Kind {
	case "Boot":
		return "Boot"
	case "Tick":
		return fmt.Sprintf("Tick %d", a.C)
	case "KubeEv":
		return fmt.Sprintf("KubeEv %d %d", a.Mon, a.Obj)
	case "Finish":
		return fmt.Sprintf("Finish %d %s", a.Q, core.CoqBool(a.Ok))
	}
	return "Stop"
}

func coqHook(h opsim.Hook) string {
	st := "None"
	if h.Startup != nil {
		st = fmt.Sprintf("(Some (%d)%%Z)", *h.Startup)
	}
	ks := core.CoqList(h.Kube, func(b opsim.KB) string {
		q, g := b.Queue, b.Group
		if h.V0 {
			q, g = 0, 0
		}
		return fmt.Sprintf("mkKb %d %d %d %s %s %d", b.Name, q, g, core.CoqBool(b.Allow), core.CoqBool(b.ExecSync), b.Name)
	})
	ss := core.CoqList(h.Sched, func(b opsim.SB) string {
		q, g := b.Queue, b.Group
		if h.V0 {
			q, g = 0, 0
		}
		return fmt.Sprintf("mkSb %d %d %d %s %d", b.Name, q, g, core.CoqBool(b.Allow), b.Cron)
	})
	return fmt.Sprintf("mkHook %d %s %s %s %s", h.Id, core.CoqBool(h.V0), st, ks, ss)
}

// the settings the hook's configuration carries (opsim.HookConfigJSON writes the block when
// either value is non-zero; operator-level inputs always set both or none)
func coqSettings(h opsim.Hook) string {
	if h.IntervalMs == 0 && h.Burst == 0 {
		return fmt.Sprintf("(%d, None)", h.Id)
	}
	return fmt.Sprintf("(%d, Some (mkSettings (zp %d) (zp %d)))", h.Id, int64(h.IntervalMs)*1_000_000, h.Burst)
}

func hasSettings(h opsim.Hook) bool { return h.IntervalMs != 0 || h.Burst != 0 }

func renderOp(op OpIn, obs *OpObs, crash string) core.Case {
	var o OpObs
	if obs != nil {
		o = *obs
	}
	steps := core.CoqList(o.Steps, coqStep)
	waiting := core.CoqList(o.Steps, func(s OStep) string { return core.CoqList(s.Waiting, core.CoqN) })
	if crash != "" || o.InitErr != "" {
		// one more (impossible) observation: model and implementation differ, P fails
		steps = "(" + steps + " ++ [mkSO [] [] [] [] true])"
		waiting = "(" + waiting + " ++ [[]])"
	}
	c := core.Case{}
	c.Coq = fmt.Sprintf("(COp (mkOpCase %s\n %s\n (zl %s%%uint63) %s\n %s\n %s\n %s))",
		core.CoqList(op.Cfg, coqHook), core.CoqList(op.Cfg, coqSettings),
		core.CoqList(o.At, func(x int64) string { return fmt.Sprintf("%d", x) }), core.CoqList(o.Acts, coqAction),
		steps, waiting,
		core.CoqList(o.Starts, func(s OStart) string { return fmt.Sprintf("(%d, zp %d)", nn(s.Hook), s.AtNs) }))
	if crash != "" {
		c.JSON = map[string]any{"op": o, "crash": crash}
	} else {
		c.JSON = map[string]any{"op": o}
	}
	var kb strings.Builder
	for _, h := range op.Cfg {
		kb.WriteString(coqHook(h))
		kb.WriteString(coqSettings(h))
	}
	for _, a := range o.Acts {
		kb.WriteString(coqAction(a))
	}
	c.Key = "op|" + kb.String()

	// tags
	c.Tags = append(c.Tags, "class:operator")
	limited, unlimited := 0, 0
	queuesOf := map[int]map[int]bool{} // queue -> hooks with a binding in it
	for _, h := range op.Cfg {
		if hasSettings(h) {
			limited++
			c.Tags = append(c.Tags, fmt.Sprintf("op:B=%d", h.Burst))
		} else {
			unlimited++
		}
		add := func(q int) {
			if queuesOf[q] == nil {
				queuesOf[q] = map[int]bool{}
			}
			queuesOf[q][h.Id] = true
		}
		if h.Startup != nil {
			add(0)
			c.Tags = append(c.Tags, "op:binding:onStartup")
		}
		for _, b := range h.Kube {
			add(0) // Synchronization runs in main
			add(b.Queue)
			c.Tags = append(c.Tags, "op:binding:kubernetes")
		}
		for _, b := range h.Sched {
			add(b.Queue)
			c.Tags = append(c.Tags, "op:binding:schedule")
		}
	}
	c.Tags = append(c.Tags, fmt.Sprintf("op:hooks:%d", len(op.Cfg)))
	if limited > 0 {
		c.Tags = append(c.Tags, "op:some-hook-limited")
	}
	if unlimited > 0 {
		c.Tags = append(c.Tags, "op:some-hook-without-settings")
	}
	for _, hs := range queuesOf {
		if len(hs) > 1 {
			c.Tags = append(c.Tags, "op:hooks-share-a-queue")
			break
		}
	}
	fails, waits, retryRuns, retryWaits, allowFails := 0, 0, 0, 0, 0
	kinds := map[string]int{}
	for i, a := range o.Acts {
		kinds[a.Kind]++
		if i >= len(o.Steps) {
			continue
		}
		st := o.Steps[i]
		if len(st.Waiting) > 0 {
			waits++
		}
		if a.Kind == "Finish" && !a.Ok && i > 0 {
			// what became of the task that failed: still at the head with a failure count => retried
			retried := false
			for _, q := range st.Queues {
				if q.Name == a.Q && len(q.Items) > 0 && q.Items[0].Fail > 0 {
					retried = true
					if q.Running {
						retryRuns++
					}
					for _, w := range st.Waiting {
						if w == a.Q {
							retryWaits++
						}
					}
				}
			}
			if retried {
				fails++
			} else {
				allowFails++
			}
		}
	}
	for k := range kinds {
		c.Tags = append(c.Tags, "op:act:"+k)
	}
	if fails > 0 {
		c.Tags = append(c.Tags, "op:failed-run-retried")
	}
	if retryRuns > 0 {
		c.Tags = append(c.Tags, "op:retry-started-at-once")
	}
	if retryWaits > 0 {
		c.Tags = append(c.Tags, "op:retry-waits-in-limiter")
	}
	if allowFails > 0 {
		c.Tags = append(c.Tags, "op:failure-allowed")
	}
	if waits > 0 {
		c.Tags = append(c.Tags, "op:some-queue-waits-in-limiter")
	}
	c.Tags = append(c.Tags, fmt.Sprintf("op:starts:%02d+", len(o.Starts)/4*4), fmt.Sprintf("op:steps:%02d+", len(o.Acts)/5*5))
	// non-trivial: a limited hook, at least 4 actions of 2 kinds, 2 executions, and the limiter really made a worker wait
	c.Nontrivial = limited > 0 && len(o.Acts) >= 4 && len(kinds) >= 2 && len(o.Starts) >= 2 && waits > 0
	return c
}

// ---- generation ----

var opIntervalsMs = []int{30_000, 60_000, 60_000, 90_000, 600_000, 3_600_000}

// genOpCfg: 1-3 v1 hooks; each with settings (I >= 30 s, B 1..4) or without; onStartup,
// schedule and kubernetes bindings in main or named queues (shared between hooks or not).
// The schedule bindings of one hook carry distinct crontabs: one tick never hands two
// workers a task of the same hook at the same moment (which of them gets the last token
// would be a race the model does not decide).
func genOpCfg(r *core.Rng) []opsim.Hook {
	n := 1 + r.Intn(3)
	var cfg []opsim.Hook
	binding := 0
	for i := 1; i <= n; i++ {
		h := opsim.Hook{Id: i}
		if r.Chance(70) || (i == 1 && r.Chance(70)) {
			h.IntervalMs = opIntervalsMs[r.Intn(len(opIntervalsMs))]
			h.Burst = []int{1, 1, 1, 2, 2, 3, 4}[r.Intn(7)]
		}
		if r.Chance(35) {
			o := r.Intn(3)
			h.Startup = &o
		}
		nk := 0
		if r.Chance(35) {
			nk = 1 + r.Intn(2)
		}
		for k := 0; k < nk; k++ {
			binding++
			b := opsim.KB{Name: binding, ExecSync: !r.Chance(25), Allow: r.Chance(25)}
			if r.Chance(50) {
				b.Queue = r.Intn(3)
			}
			if r.Chance(35) {
				b.Group = 1 + r.Intn(2)
			}
			h.Kube = append(h.Kube, b)
		}
		ns := 1 + r.Intn(2)
		if r.Chance(15) {
			ns = 0
		}
		crons := []int{1, 2, 3}
		off := r.Intn(3)
		for k := 0; k < ns; k++ {
			binding++
			b := opsim.SB{Name: binding, Cron: crons[(off+k)%3], Allow: r.Chance(20)}
			if r.Chance(70) {
				b.Queue = r.Intn(3)
			}
			if r.Chance(30) {
				b.Group = 1 + r.Intn(2)
			}
			h.Sched = append(h.Sched, b)
		}
		if h.Startup == nil && len(h.Kube) == 0 && len(h.Sched) == 0 {
			o := 1
			h.Startup = &o
		}
		cfg = append(cfg, h)
	}
	return cfg
}

func genOp(r *core.Rng, maxSteps int) OpIn {
	return OpIn{Cfg: genOpCfg(r), Seed: int64(r.Next() >> 1), Steps: 6 + r.Intn(maxSteps-5),
		PFail: []int{30, 50, 60, 75}[r.Intn(4)], BackoffUs: []int{0, 0, 200, 1000, 3000}[r.Intn(5)]}
}

func acts(s ...opsim.Action) []opsim.Action { return s }

var (
	aBoot = opsim.Action{Kind: "Boot"}
)

func aTick(c int) opsim.Action         { return opsim.Action{Kind: "Tick", C: c} }
func aFin(q int, ok bool) opsim.Action { return opsim.Action{Kind: "Finish", Q: q, Ok: ok} }
func aKube(mon, obj int) opsim.Action  { return opsim.Action{Kind: "KubeEv", Mon: mon, Obj: obj} }
func intp(x int) *int                  { return &x }
func schedHook(id, ms, burst int, bs ...opsim.SB) opsim.Hook {
	return opsim.Hook{Id: id, IntervalMs: ms, Burst: burst, Sched: bs}
}

// OpCorpus: small scripted scenarios, one per kind of task that reaches the handler:
// first attempts and retries, allowFailure, every binding type, shared and separate queues.
func OpCorpus() []OpIn {
	return []OpIn{
		// docs example 1m/1..: a burst of ticks handled by a succeeding hook
		{Cfg: []opsim.Hook{schedHook(1, 60_000, 2, opsim.SB{Name: 1, Queue: 1, Cron: 1})},
			Acts: acts(aBoot, aTick(1), aTick(1), aFin(1, true), aTick(1), aFin(1, true), aTick(1))},
		// a run that fails and is retried: the retry is a queued execution like any other
		{Cfg: []opsim.Hook{schedHook(1, 60_000, 1, opsim.SB{Name: 1, Queue: 1, Cron: 1})}, BackoffUs: 500,
			Acts: acts(aBoot, aTick(1), aFin(1, false), aFin(1, false), aFin(1, false))},
		{Cfg: []opsim.Hook{schedHook(1, 600_000, 3, opsim.SB{Name: 1, Queue: 0, Cron: 2})},
			Acts: acts(aBoot, aTick(2), aFin(0, false), aFin(0, false), aFin(0, false), aFin(0, false), aFin(0, true))},
		// allowFailure: the failed task is dropped, the next one needs a token all the same
		{Cfg: []opsim.Hook{schedHook(1, 60_000, 2, opsim.SB{Name: 1, Queue: 1, Cron: 1, Allow: true})},
			Acts: acts(aBoot, aTick(1), aTick(1), aFin(1, false), aTick(1), aFin(1, false), aFin(1, false))},
		// two hooks in one queue, one without settings: it is never made to wait by a limiter, only behind the other's task
		{Cfg: []opsim.Hook{schedHook(1, 60_000, 1, opsim.SB{Name: 1, Queue: 1, Cron: 1}), schedHook(2, 0, 0, opsim.SB{Name: 2, Queue: 1, Cron: 2})},
			Acts: acts(aBoot, aTick(2), aFin(1, false), aFin(1, false), aFin(1, true), aTick(1), aTick(2), aFin(1, false), aTick(2))},
		// one hook, two queues: the limiter is the hook's, not the queue's
		{Cfg: []opsim.Hook{schedHook(1, 90_000, 2, opsim.SB{Name: 1, Queue: 1, Cron: 1}, opsim.SB{Name: 2, Queue: 2, Cron: 2})},
			Acts: acts(aBoot, aTick(1), aTick(2), aFin(1, false), aFin(2, true), aTick(2))},
		// onStartup and Synchronization executions take tokens too; a failing Synchronization is retried
		{Cfg: []opsim.Hook{{Id: 1, IntervalMs: 60_000, Burst: 2, Startup: intp(1), Kube: []opsim.KB{{Name: 1, ExecSync: true}}}},
			Acts: acts(aBoot, aFin(0, true), aFin(0, false), aFin(0, false))},
		// a Synchronization that is not executed still passes the limiter; kubernetes events afterwards
		{Cfg: []opsim.Hook{{Id: 1, IntervalMs: 60_000, Burst: 2, Kube: []opsim.KB{{Name: 1, Queue: 1, ExecSync: false}}}},
			Acts: acts(aBoot, aKube(1, 1), aFin(1, false), aFin(1, true), aKube(1, 2))},
	}
}
