// multi.go - SEVERAL CRDs served by one operator (C15_MultiModel / C15_MultiSpec).
//
// kind "multi":   real hooks whose conversion bindings name different CRDs (crdNames) with COINCIDING version names
//                 (v1alpha1, v1beta1, v1, v2) and DIFFERENT rule graphs, one real hook.Manager (one ChainStorage, the
//                 links per CRD in the hooks' controllers), one router; ConversionReviews posted to /<crd name>,
//                 alternating between the CRDs; per request what a session records.
// kind "msearch": the ChainStorage alone, filled as UpdateConversionChains fills it (Get(crd).Put(rule)), and a
//                 sequence of FindConversionChain(crd, pair) calls on it.
package c15

import (
	"fmt"
	"sort"
	"strings"

	"github.com/flant/shell-operator/pkg/webhook/conversion"

	"verifharness/internal/core"
)

// ---------------------------------------------------------------- Run

func runMulti(in Input) (o Obs) {
	rg, err := newRigM(in.Decls, in.NHooks, nil, nil)
	if err != nil {
		o.Err = err.Error()
		return
	}
	defer rg.close()
	for _, q := range in.Requests {
		rg.cur = q.Crd
		o.Reqs = append(o.Reqs, rg.serve(q.Src, q.Desired, q.NReq, q.Plan))
	}
	o.Err = rg.leftovers()
	return
}

func runMSearch(in Input) Obs {
	var o Obs
	cs := conversion.NewChainStorage()
	for _, d := range declOrder(in) {
		cs.Get(crdNameOf(d.Crd)).Put(toGoRule(d.R))
	}
	for _, q := range in.MQueries {
		p := cs.FindConversionChain(crdNameOf(q.Crd), toGoRule(q.Q))
		var chain []Rule
		for _, r := range p {
			chain = append(chain, fromGoRule(r))
		}
		o.Answers = append(o.Answers, chain)
		o.Found = append(o.Found, len(p) > 0)
	}
	return o
}

// declOrder: the declarations in the order the hook manager meets them (hooks in order, bindings, rules)
func declOrder(in Input) []Decl {
	var out []Decl
	for _, cbs := range layoutM(in.Decls, hookCount(in)) {
		for _, cb := range cbs {
			for _, r := range cb.Rules {
				out = append(out, Decl{cb.Crd, r})
			}
		}
	}
	return out
}

func rulesOf(decls []Decl, crd int) []Rule {
	var out []Rule
	for _, d := range decls {
		if d.Crd == crd {
			out = append(out, d.R)
		}
	}
	return out
}

func crdsOf(decls []Decl) []int {
	seen := map[int]bool{}
	var out []int
	for _, d := range decls {
		if !seen[d.Crd] {
			seen[d.Crd] = true
			out = append(out, d.Crd)
		}
	}
	sort.Ints(out)
	return out
}

// ---------------------------------------------------------------- Render

func coqDecls(ds []Decl) string {
	return core.CoqList(ds, func(d Decl) string { return fmt.Sprintf("(%d, %s)", d.Crd, coqRule(d.R)) })
}

func declsText(in Input) []string {
	var out []string
	for h, cbs := range layoutM(in.Decls, hookCount(in)) {
		for _, cb := range cbs {
			out = append(out, fmt.Sprintf("hook h%02d.sh binding %s crdName %s conversions %s", h, cb.Name, crdNameOf(cb.Crd), rulesText(cb.Rules)))
		}
	}
	return out
}

// what differs between the CRDs for the pairs that were asked (tags; generator-independent, from the observations)
func pairTags(crds []int, pairs []Rule, found []bool, chains [][]Rule) (tags []string, contrast bool) {
	type k struct{ a, b int }
	byPair := map[k]map[int]string{}
	switches := 0
	for i := range pairs {
		kk := k{pairs[i].From.S, pairs[i].To.S}
		if byPair[kk] == nil {
			byPair[kk] = map[int]string{}
		}
		txt := "none"
		if found[i] {
			txt = rulesText(chains[i])
		}
		byPair[kk][crds[i]] = txt
		if i > 0 && crds[i] != crds[i-1] {
			switches++
		}
	}
	shared, diffChain, foundAndNot := 0, 0, 0
	for _, m := range byPair {
		if len(m) < 2 {
			continue
		}
		shared++
		texts := map[string]bool{}
		none := false
		for _, t := range m {
			texts[t] = true
			if t == "none" {
				none = true
			}
		}
		if len(texts) > 1 {
			if none {
				foundAndNot++
			} else {
				diffChain++
			}
		}
	}
	cl := func(n int) string {
		if n >= 3 {
			return "3+"
		}
		return fmt.Sprint(n)
	}
	sw := "0"
	switch {
	case switches >= 6:
		sw = "6+"
	case switches >= 3:
		sw = "3-5"
	case switches >= 1:
		sw = "1-2"
	}
	tags = append(tags, "pairs-asked-for-several-crds:"+cl(shared), "same-pair-other-route:"+cl(diffChain),
		"same-pair-chain-for-one-none-for-other:"+cl(foundAndNot), "crd-switches:"+sw)
	return tags, diffChain+foundAndNot > 0
}

func renderMulti(in Input, obs *Obs, c core.Case) core.Case {
	if len(obs.Reqs) != len(in.Requests) {
		c.Coq = "CCrash"
		c.JSON = map[string]any{"crash": "not every request was served", "obs": obs}
		c.Key = fmt.Sprintf("crash %v", in)
		c.Tags = append(c.Tags, "crash")
		return c
	}
	decls := declOrder(in)
	var qs []string
	var crds []int
	var pairs []Rule
	var found []bool
	var chains [][]Rule
	runs := 0
	keyReq := ""
	rd := append([]string{}, declsText(in)...)
	for i, q := range in.Requests {
		qo := obs.Reqs[i]
		rules := rulesOf(decls, q.Crd)
		chain := "[]"
		if qo.ChainFound {
			chain = coqChain(rules, qo.Chain)
		}
		qs = append(qs, fmt.Sprintf("(%d, SQ %s %s %s %s\n   %s %s\n   %s (%s))", q.Crd,
			coqVer(q.Src), coqVer(q.Desired), core.CoqBytes(q.Desired.String()), chain,
			coqObjs(mkObjs(1, q.NReq, q.Src)), core.CoqList(qo.Outs, coqOutcome),
			core.CoqList(qo.Trace, func(i Inv) string { return fmt.Sprintf("(%d,%s)", ruleIndex(rules, i.Rule), coqObjs(i.Objs)) }),
			coqAnswer(qo.Ans)))
		keyReq += fmt.Sprintf(" | %d %s %s %d %q", q.Crd, coqVer(q.Src), coqVer(q.Desired), q.NReq, planText(q.Plan))
		runs += len(qo.Trace)
		crds = append(crds, q.Crd)
		pairs = append(pairs, Rule{q.Src, q.Desired})
		found = append(found, qo.ChainFound)
		chains = append(chains, qo.Chain)
		c.Tags = append(c.Tags, fmt.Sprintf("chainlen:%d", len(qo.Chain)))
		for k, st := range q.Plan {
			if k < len(qo.Trace) {
				c.Tags = append(c.Tags, "step:"+st.Kind)
			}
		}
		switch {
		case qo.Ans != nil && qo.Ans.Success:
			c.Tags = append(c.Tags, "answer:Success")
		case qo.Ans != nil:
			c.Tags = append(c.Tags, "answer:Failed/"+qo.Ans.Msg)
		}
		for _, l := range readableReq(q.Src, q.Desired, q.NReq, q.Plan, &qo) {
			rd = append(rd, fmt.Sprintf("[request %d for %s] %s", i+1, crdNameOf(q.Crd), l))
		}
	}
	c.Coq = fmt.Sprintf("CM %s\n  [%s]", coqDecls(decls), strings.Join(qs, ";\n   "))
	c.JSON = map[string]any{"obs": obs, "readable": rd}
	c.Key = fmt.Sprintf("M %s %d%s", coqDecls(in.Decls), hookCount(in), keyReq)
	pt, contrast := pairTags(crds, pairs, found, chains)
	c.Nontrivial = contrast && runs >= 2
	c.Tags = append(c.Tags, pt...)
	c.Tags = append(c.Tags, fmt.Sprintf("crds:%d", len(crdsOf(in.Decls))), fmt.Sprintf("requests:%d", len(in.Requests)),
		fmt.Sprintf("hooks:%d", hookCount(in)), fmt.Sprintf("session-runs:%02d", runs))
	// hooks that declare rules for several CRDs / a rule declared for several CRDs by different hooks
	sameRuleOtherHook := 0
	owner := map[Rule]map[int]bool{}
	for h, cbs := range layoutM(in.Decls, hookCount(in)) {
		for _, cb := range cbs {
			for _, r := range cb.Rules {
				if owner[r] == nil {
					owner[r] = map[int]bool{}
				}
				owner[r][h] = true
			}
		}
	}
	for _, m := range owner {
		if len(m) > 1 {
			sameRuleOtherHook++
		}
	}
	if sameRuleOtherHook > 0 {
		c.Tags = append(c.Tags, "same-rule-declared-by-different-hooks")
	}
	return c
}

func renderMSearch(in Input, obs *Obs, c core.Case) core.Case {
	decls := declOrder(in)
	answers := make([]string, len(obs.Answers))
	var crds []int
	var pairs []Rule
	rd := append([]string{}, declsText(in)...)
	longest := 0
	for i, a := range obs.Answers {
		q := in.MQueries[i]
		crds = append(crds, q.Crd)
		pairs = append(pairs, q.Q)
		if obs.Found[i] {
			answers[i] = coqChain(rulesOf(decls, q.Crd), a)
			if len(a) > longest {
				longest = len(a)
			}
			rd = append(rd, fmt.Sprintf("%s %s => %s", crdNameOf(q.Crd), q.Q, rulesText(a)))
		} else {
			answers[i] = "[]"
			rd = append(rd, fmt.Sprintf("%s %s => nil", crdNameOf(q.Crd), q.Q))
		}
	}
	qs := core.CoqList(in.MQueries, func(q Query) string { return fmt.Sprintf("(%d, %s)", q.Crd, coqRule(q.Q)) })
	c.Coq = fmt.Sprintf("CMS %s\n  %s\n  [%s]", coqDecls(decls), qs, strings.Join(answers, "; "))
	c.JSON = map[string]any{"obs": obs, "readable": rd}
	c.Key = fmt.Sprintf("MS %s %s", coqDecls(in.Decls), qs)
	pt, contrast := pairTags(crds, pairs, obs.Found, obs.Answers)
	c.Nontrivial = contrast && longest >= 2
	c.Tags = append(c.Tags, pt...)
	c.Tags = append(c.Tags, fmt.Sprintf("crds:%d", len(crdsOf(in.Decls))), fmt.Sprintf("longest:%d", longest), fmt.Sprintf("queries:%02d", len(in.MQueries)/8*8))
	return c
}

// ---------------------------------------------------------------- generation

// the version names every CRD uses: v1alpha1, v1beta1, v1, v2, v3 (positions in shortNames)
var commonVersions = []int{4, 2, 0, 3, 5}

// graph templates over the versions a = v1alpha1, b = v1beta1, c = v1, d = v2 (as positions 0..3 of commonVersions)
var crdTemplates = []struct {
	name  string
	edges [][2]int
}{
	{"line", [][2]int{{0, 1}, {1, 2}}},
	{"direct", [][2]int{{0, 2}}},
	{"line+direct", [][2]int{{0, 1}, {1, 2}, {0, 2}}},
	{"reverse-only", [][2]int{{2, 0}}},
	{"other-route", [][2]int{{0, 3}, {3, 2}}},
	{"first-step-only", [][2]int{{0, 1}}},
	{"both-ways", [][2]int{{0, 1}, {1, 0}, {1, 2}, {2, 1}}},
	{"long-way", [][2]int{{0, 1}, {1, 3}, {3, 2}}},
	{"diamond", [][2]int{{0, 1}, {0, 3}, {1, 2}, {3, 2}}},
}

// one CRD's rules from a template (or random edges), spelt short / full / mixed
func (g *gen) crdGraph(t int, spell string) []Rule {
	var edges [][2]int
	if t >= 0 {
		edges = crdTemplates[t].edges
	} else {
		n := 3 + g.r.Intn(3)
		for a := 0; a < n; a++ {
			for b := 0; b < n; b++ {
				if a != b && g.r.Chance(28) {
					edges = append(edges, [2]int{a, b})
				}
			}
		}
		if len(edges) == 0 {
			edges = append(edges, [2]int{0, 1 + g.r.Intn(n-1)})
		}
	}
	var rules []Rule
	for _, e := range edges {
		rules = append(rules, Rule{g.spell(commonVersions[e[0]], spell, 1), g.spell(commonVersions[e[1]], spell, 1)})
	}
	for i := len(rules) - 1; i > 0; i-- {
		j := g.r.Intn(i + 1)
		rules[i], rules[j] = rules[j], rules[i]
	}
	return dedupe(rules)
}

// nc CRDs with different graphs; the declarations of the CRDs interleaved (declaration order is irrelevant to maps)
func (g *gen) multiDecls(nc int, randomShare int, uniform bool) (decls []Decl, shape string) {
	used := map[int]bool{}
	var names []string
	var per [][]Rule
	for c := 0; c < nc; c++ {
		t := -1
		if !g.r.Chance(randomShare) {
			for {
				t = g.r.Intn(len(crdTemplates))
				if !used[t] {
					break
				}
			}
			used[t] = true
			names = append(names, crdTemplates[t].name)
		} else {
			names = append(names, "random")
		}
		sp := spells[g.r.Intn(len(spells))]
		if uniform && sp != "short" && sp != "full" {
			// a CRD's rules in ONE spelling where hooks are run: with mixed spellings two routes for a pair are cached
			// under keys that differ in spelling only, SearchPathForRule then answers a request by whichever the map
			// yields first - the chain asked for beforehand need not be the one the handler gets (both are valid)
			sp = []string{"short", "full"}[g.r.Intn(2)]
		}
		per = append(per, g.crdGraph(t, sp))
	}
	// CRD numbers: not always 0,1,2
	ids := []int{0, 1, 2, 3}
	for i := len(ids) - 1; i > 0; i-- {
		j := g.r.Intn(i + 1)
		ids[i], ids[j] = ids[j], ids[i]
	}
	for k := 0; ; k++ {
		any := false
		for c := 0; c < nc; c++ {
			if k < len(per[c]) {
				decls = append(decls, Decl{ids[c], per[c][k]})
				any = true
			}
		}
		if !any {
			break
		}
	}
	return decls, strings.Join(names, "|")
}

// the order in which the CRDs are asked: ABAB, ABBA, AABB, ABC.., random
func (g *gen) crdOrder(crds []int, n int) []int {
	out := make([]int, n)
	switch g.r.Intn(5) {
	case 0: // round robin
		for i := range out {
			out[i] = crds[i%len(crds)]
		}
	case 1: // there and back
		for i := range out {
			k := i % (2 * len(crds))
			if k >= len(crds) {
				k = 2*len(crds) - 1 - k
			}
			out[i] = crds[k]
		}
	case 2: // each twice
		for i := range out {
			out[i] = crds[(i/2)%len(crds)]
		}
	default:
		for i := range out {
			out[i] = crds[g.r.Intn(len(crds))]
		}
	}
	return out
}

func (g *gen) multiCase() Input {
	nc := 2
	if g.r.Chance(35) {
		nc = 3
	}
	decls, shape := g.multiDecls(nc, 20, true)
	// one hook for all CRDs (a quarter), or the bindings spread over two or three hooks
	in := Input{Kind: "multi", Shape: shape, Spell: "per-crd", Decls: decls, NHooks: []int{1, 2, 2, 3}[g.r.Intn(4)]}
	crds := crdsOf(decls)
	nq := 3 + g.r.Intn(4)
	order := g.crdOrder(crds, nq)
	// the hot pair (v1alpha1 -> v1 mostly) is asked for every CRD; other pairs in between
	hotA, hotB := 0, 2
	if g.r.Chance(25) {
		hotA, hotB = g.r.Intn(4), g.r.Intn(4)
		if hotA == hotB {
			hotB = (hotA + 1) % 4
		}
	}
	reqSpell := map[int]string{}
	for i := 0; i < nq; i++ {
		a, b := hotA, hotB
		if g.r.Chance(25) {
			a, b = g.r.Intn(4), g.r.Intn(4)
			if a == b {
				b = (a + 2) % 4
			}
		}
		// one spelling of the requests per CRD and case: the chain cache is searched by MATCHING versions (short and full
		// spelling of a version match), so a pair asked in two spellings leaves two cached paths that both answer a later
		// request - in a graph with two routes the operator may then serve the same request by either (map order), and the
		// chain the harness asks for beforehand need not be the one the handler gets.  Both are valid chains; the
		// comparison needs ONE.  The declared rules stay spelt short / full / mixed
		if reqSpell[order[i]] == "" {
			reqSpell[order[i]] = []string{"short", "full"}[g.r.Intn(2)]
		}
		sp := reqSpell[order[i]]
		q := Req{Crd: order[i], Src: g.spell(commonVersions[a], sp, 1), Desired: g.spell(commonVersions[b], sp, 1), NReq: 1 + g.r.Intn(2), Plan: oks(4)}
		if g.r.Chance(20) {
			q.Plan[g.r.Intn(2)] = g.fault()
		}
		in.Requests = append(in.Requests, q)
	}
	return in
}

func (g *gen) msearchCase() Input {
	nc := 2 + g.r.Intn(3)
	decls, shape := g.multiDecls(nc, 45, false)
	in := Input{Kind: "msearch", Shape: shape, Spell: "per-crd", Decls: decls, NHooks: 1 + g.r.Intn(3)}
	crds := crdsOf(decls)
	if g.r.Chance(30) {
		crds = append(crds, 3) // possibly a CRD the storage does not know
	}
	nv := 4 + g.r.Intn(2)
	// every pair for every CRD, the CRDs alternating pair by pair (or shuffled), some repeated
	var qs []Query
	for a := 0; a < nv; a++ {
		for b := 0; b < nv; b++ {
			if a == b && !g.r.Chance(10) {
				continue
			}
			if !g.r.Chance(60) {
				continue
			}
			cs := append([]int{}, crds...)
			for i := len(cs) - 1; i > 0; i-- {
				j := g.r.Intn(i + 1)
				cs[i], cs[j] = cs[j], cs[i]
			}
			for _, c := range cs {
				qs = append(qs, Query{c, Rule{g.spell(commonVersions[a], "mixed", 1), g.spell(commonVersions[b], "mixed", 1)}})
			}
			if g.r.Chance(30) {
				qs = append(qs, Query{cs[0], Rule{g.spell(commonVersions[a], "mixed", 1), g.spell(commonVersions[b], "mixed", 1)}})
			}
		}
	}
	if g.r.Chance(40) { // groups of pairs shuffled among each other
		for i := len(qs) - 1; i > 0; i-- {
			j := g.r.Intn(i + 1)
			qs[i], qs[j] = qs[j], qs[i]
		}
	}
	if len(qs) > 48 {
		qs = qs[:48]
	}
	in.MQueries = qs
	return in
}

// every ordered pair of different templates as CRD A and CRD B: the hot pair A,B,A,B, then every pair for B and A
func (g *gen) msearchSystematic(emit func(Input)) {
	for ta := range crdTemplates {
		for tb := range crdTemplates {
			if ta == tb {
				continue
			}
			sp := []string{"short", "full", "mixed"}[(ta+tb)%3]
			var decls []Decl
			for _, r := range g.crdGraph(ta, sp) {
				decls = append(decls, Decl{0, r})
			}
			for _, r := range g.crdGraph(tb, sp) {
				decls = append(decls, Decl{1, r})
			}
			hot := Rule{g.spell(4, "mixed", 1), g.spell(0, "mixed", 1)}
			qs := []Query{{0, hot}, {1, hot}, {0, hot}, {1, hot}}
			for a := 0; a < 4; a++ {
				for b := 0; b < 4; b++ {
					if a != b {
						p := Rule{v(commonVersions[a]), v(commonVersions[b])}
						qs = append(qs, Query{1, p}, Query{0, p})
					}
				}
			}
			emit(Input{Kind: "msearch", Shape: crdTemplates[ta].name + "|" + crdTemplates[tb].name, Spell: sp, Decls: decls, NHooks: 1 + (ta+tb)%2, MQueries: qs})
		}
	}
}

func corpusMulti() []Input {
	f := func(s int) Ver { return Ver{1, s} }
	a, b, c := 4, 2, 0 // v1alpha1, v1beta1, v1
	three := []Decl{{0, Rule{f(a), f(b)}}, {0, Rule{f(b), f(c)}}, {1, Rule{f(a), f(c)}}, {2, Rule{f(c), f(a)}}}
	req := func(crd int, x, y Ver) Req { return Req{Crd: crd, Src: x, Desired: y, NReq: 1, Plan: oks(4)} }
	return []Input{
		// crontabs v1alpha1 -> v1beta1 -> v1, backups v1alpha1 -> v1 directly, reports only v1 -> v1alpha1: the same
		// request for each (one hook for all three CRDs)
		{Kind: "multi", Shape: "corpus-three-crds", Spell: "full", Decls: three, NHooks: 1,
			Requests: []Req{req(0, f(a), f(c)), req(1, f(a), f(c)), req(2, f(a), f(c))}},
		// the other way round, by two hooks, back and forth
		{Kind: "multi", Shape: "corpus-three-crds", Spell: "full", Decls: three, NHooks: 2,
			Requests: []Req{req(1, f(a), f(c)), req(0, f(a), f(c)), req(1, v(a), v(c)), req(0, v(a), f(c)), req(2, f(c), f(a))}},
		{Kind: "msearch", Shape: "corpus-three-crds", Spell: "full", Decls: three, NHooks: 1,
			MQueries: []Query{{0, Rule{f(a), f(c)}}, {1, Rule{f(a), f(c)}}, {2, Rule{f(a), f(c)}}, {3, Rule{f(a), f(c)}}, {2, Rule{f(c), f(a)}}, {0, Rule{f(c), f(a)}}}},
		// short spellings, the same rule v1alpha1->v1beta1 declared for two CRDs by different hooks; the second CRD ends there
		{Kind: "multi", Shape: "corpus-same-rule-two-hooks", Spell: "short", NHooks: 2,
			Decls:    []Decl{{0, rl(a, b)}, {1, rl(a, b)}, {0, rl(b, c)}},
			Requests: []Req{req(0, v(a), v(c)), req(1, v(a), v(c)), req(1, v(a), v(b)), req(0, v(a), v(b))}},
	}
}
