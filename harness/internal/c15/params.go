package c15

// kind "params": conversion bindings that carry the further documented binding parameters (`group`,
// `includeSnapshotsFrom`), hooks that have `kubernetes` / `schedule` bindings beside them.  The observation is
// what every executed hook READ in $BINDING_CONTEXT_PATH, field by field (Rendered), and the answer; Coq compares
// it with C15_BindModel.serve_params and judges it by C15_BindSpec.P_params.

import (
	"fmt"
	"strconv"
	"strings"

	"verifharness/internal/core"
)

// ---------------------------------------------------------------- rendering for Coq

func coqGB(b GB) string { return fmt.Sprintf("GB %d %d", b.Name, b.Group) }

// the hooks as C15_BindModel.hookcfg, hooks in the hook manager's order (h00.sh, h01.sh, ...)
func coqHooks(in Input) string {
	nh := hookCount(in)
	lay := layout(in.Rules, nh)
	hooks := make([]string, nh)
	for h := 0; h < nh; h++ {
		var cbs []string
		for _, cb := range lay[h] {
			p := in.bp(h, cb.Idx)
			cbs = append(cbs, fmt.Sprintf("CB %d %d %s %s", convBindingNumber(cb.Name), p.Group,
				core.CoqList(p.Include, strconv.Itoa), coqRules(cb.Rules)))
		}
		hooks[h] = fmt.Sprintf("HK %s %s [%s]", core.CoqList(in.kube(h), coqGB), core.CoqList(in.sched(h), coqGB), strings.Join(cbs, "; "))
	}
	return "[" + strings.Join(hooks, ";\n    ") + "]"
}

func typeCode(t string) int {
	switch t {
	case "":
		return 0
	case "Validating":
		return 1
	case "Mutating":
		return 2
	case "Conversion":
		return 3
	case "Group":
		return 4
	case "Schedule":
		return 5
	}
	return 6
}

// one execution: RC hook binding type snapshots groupName versions review
func coqDelivery(i Inv) string {
	rc := i.Ctx
	if rc == nil || rc.N != 1 {
		return fmt.Sprintf("RC %d 9999 0 None 0 None None", i.Hook)
	}
	snaps := "None"
	if rc.HasSnaps {
		snaps = "(Some " + core.CoqList(rc.Snapshots, func(k string) string { return strconv.Itoa(numAfter("k", k)) }) + ")"
	}
	g := 0
	if rc.GroupName != nil {
		g = numAfter("g", *rc.GroupName)
		if g == 0 {
			g = 9999
		}
	}
	vers := "None"
	if rc.From != nil && rc.To != nil {
		vers = "(Some (" + coqRule(Rule{parseVer(*rc.From), parseVer(*rc.To)}) + "))"
	}
	review := "None"
	if rc.HasReview {
		review = "(Some " + coqObjs(rc.Objects) + ")"
	}
	return fmt.Sprintf("RC %d %d %d %s %d %s %s", i.Hook, convBindingNumber(rc.Binding), typeCode(rc.Type), snaps, g, vers, review)
}

// ---------------------------------------------------------------- human-readable

func bpText(p BP) string {
	var parts []string
	if p.Group > 0 {
		parts = append(parts, "group: "+groupName(p.Group))
	}
	if len(p.Include) > 0 {
		var ks []string
		for _, k := range p.Include {
			ks = append(ks, kubeName(k))
		}
		parts = append(parts, "includeSnapshotsFrom: ["+strings.Join(ks, ", ")+"]")
	}
	if len(parts) == 0 {
		return "no further parameters"
	}
	return strings.Join(parts, ", ")
}

func gbText(kind string, bs []GB, name func(int) string) string {
	var parts []string
	for _, b := range bs {
		t := name(b.Name)
		if b.Group > 0 {
			t += " (group " + groupName(b.Group) + ")"
		}
		parts = append(parts, t)
	}
	if len(parts) == 0 {
		return ""
	}
	return "; " + kind + " bindings " + strings.Join(parts, ", ")
}

func ctxText(rc *Rendered) string {
	if rc == nil {
		return "(nothing observed)"
	}
	if rc.N != 1 {
		return fmt.Sprintf("(%d binding contexts)", rc.N)
	}
	parts := []string{fmt.Sprintf("binding: %q", rc.Binding)}
	if rc.Type != "" {
		parts = append(parts, fmt.Sprintf("type: %q", rc.Type))
	} else {
		parts = append(parts, "no type")
	}
	if rc.GroupName != nil {
		parts = append(parts, fmt.Sprintf("groupName: %q", *rc.GroupName))
	}
	if rc.HasSnaps {
		parts = append(parts, "snapshots: {"+strings.Join(rc.Snapshots, ", ")+"}")
	}
	if rc.From != nil {
		parts = append(parts, fmt.Sprintf("fromVersion: %q", *rc.From))
	}
	if rc.To != nil {
		parts = append(parts, fmt.Sprintf("toVersion: %q", *rc.To))
	}
	if rc.HasReview {
		parts = append(parts, "review.request.objects: "+objsText(rc.Objects))
	} else {
		parts = append(parts, "NO review")
	}
	return "{" + strings.Join(parts, ", ") + "}"
}

func readableParams(in Input, obs *Obs) []string {
	out := []string{"rules " + rulesText(in.Rules)}
	nh := hookCount(in)
	for h, cbs := range layout(in.Rules, nh) {
		line := fmt.Sprintf("hook h%02d.sh", h)
		line += gbText("kubernetes", in.kube(h), kubeName) + gbText("schedule", in.sched(h), schedName)
		out = append(out, line)
		for _, cb := range cbs {
			out = append(out, fmt.Sprintf("  conversion binding %s: %s; %s", cb.Name, rulesText(cb.Rules), bpText(in.bp(h, cb.Idx))))
		}
	}
	out = append(out, fmt.Sprintf("request: %d object(s) at %s, desired %s; plan %s", in.NReq, in.Src, in.Desired, planText(in.Plan)))
	if obs.ChainFound {
		out = append(out, "chain "+rulesText(obs.Chain))
	} else {
		out = append(out, "chain: none")
	}
	for k, t := range obs.Trace {
		o := "?"
		if k < len(obs.Outs) {
			o = fmt.Sprintf("%s failedMessage=%q %s", obs.Outs[k].Kind, obs.Outs[k].Msg, objsText(obs.Outs[k].Objs))
		}
		step := "?"
		if k < len(obs.Chain) {
			step = obs.Chain[k].String()
		}
		out = append(out, fmt.Sprintf("run %d (step %s): %s read %s; it produced %s", k, step, strings.SplitN(t.Who, " ", 2)[0], ctxText(t.Ctx), o))
	}
	if len(obs.Trace) == 0 {
		out = append(out, "no hook was executed")
	}
	if obs.Ans != nil {
		if obs.Ans.Success {
			out = append(out, "answer: Success "+objsText(obs.Ans.Objs))
		} else {
			out = append(out, fmt.Sprintf("answer: Failure, message %q", obs.Ans.Raw))
		}
	}
	return out
}

// ---------------------------------------------------------------- Render

// the parameters of the binding that serves rule r
func (in *Input) paramsOf(r Rule) (p BP, ok bool) {
	for h, cbs := range layout(in.Rules, hookCount(*in)) {
		for _, cb := range cbs {
			for _, x := range cb.Rules {
				if x == r { // a rule declared twice is served by the later hook / binding
					p, ok = in.bp(h, cb.Idx), true
				}
			}
		}
	}
	return
}

func renderParams(in Input, obs *Obs, c core.Case) core.Case {
	chain := "[]"
	if obs.ChainFound {
		chain = coqChain(in.Rules, obs.Chain)
	}
	c.Coq = fmt.Sprintf("CP %s\n   %s\n  %s %s %s %s\n  %s %s\n  %s (%s)",
		coqRules(in.Rules), coqHooks(in), coqVer(in.Src), coqVer(in.Desired), core.CoqBytes(in.Desired.String()), chain,
		coqObjs(mkObjs(1, in.NReq, in.Src)), core.CoqList(obs.Outs, coqOutcome),
		core.CoqList(obs.Trace, coqDelivery), coqAnswer(obs.Ans))
	c.JSON = map[string]any{"obs": obs, "readable": readableParams(in, obs)}
	c.Key = fmt.Sprintf("P %s %s %s %s %d %q", coqRules(in.Rules), coqHooks(in), coqVer(in.Src), coqVer(in.Desired), in.NReq, planText(in.Plan))
	c.Tags = append(c.Tags, fmt.Sprintf("chainlen:%d", len(obs.Chain)), fmt.Sprintf("runs:%d", len(obs.Trace)), fmt.Sprintf("hooks:%d", hookCount(in)))
	// which executed steps were served by a binding with further parameters, and where in the chain
	withParams := 0
	for k := range obs.Trace {
		if k >= len(obs.Chain) {
			break
		}
		p, _ := in.paramsOf(obs.Chain[k])
		pos := "middle"
		switch {
		case len(obs.Chain) == 1:
			pos = "only"
		case k == 0:
			pos = "first"
		case k == len(obs.Chain)-1:
			pos = "last"
		}
		if p.Group > 0 {
			c.Tags = append(c.Tags, "step-with-group:"+pos)
		}
		if len(p.Include) > 0 {
			c.Tags = append(c.Tags, "step-with-includeSnapshotsFrom:"+pos)
		}
		if p.Group > 0 || len(p.Include) > 0 {
			withParams++
		} else {
			c.Tags = append(c.Tags, "step-without-params:"+pos)
		}
		if t := obs.Trace[k].Ctx; t != nil {
			c.Tags = append(c.Tags, "ctx-type:"+t.Type)
			if t.HasSnaps {
				c.Tags = append(c.Tags, fmt.Sprintf("ctx-snapshots:%d", len(t.Snapshots)))
			} else {
				c.Tags = append(c.Tags, "ctx-snapshots:absent")
			}
		}
	}
	c.Tags = append(c.Tags, fmt.Sprintf("executed-steps-with-params:%d", withParams))
	if len(dedupe(in.Rules)) < len(in.Rules) {
		c.Tags = append(c.Tags, "rule-declared-twice")
	}
	for k, st := range in.Plan {
		if k < len(obs.Trace) {
			c.Tags = append(c.Tags, "step:"+st.Kind)
		}
	}
	switch {
	case obs.Ans != nil && obs.Ans.Success:
		c.Tags = append(c.Tags, "answer:Success")
	case obs.Ans != nil:
		c.Tags = append(c.Tags, "answer:Failed/"+obs.Ans.Msg)
	}
	c.Nontrivial = obs.ChainFound && withParams > 0
	return c
}

// ---------------------------------------------------------------- generation

// other bindings for hook h: nk kubernetes bindings k0..k<nk-1> and ns schedule bindings, groups drawn from 0..2
func (g *gen) otherBindings(nk, ns int) (kube, sched []GB) {
	for k := 0; k < nk; k++ {
		kube = append(kube, GB{Name: k, Group: g.r.Intn(3)})
	}
	for k := 0; k < ns; k++ {
		sched = append(sched, GB{Name: k, Group: g.r.Intn(3)})
	}
	return
}

// a non-empty subset of 0..nk-1, in random order
func (g *gen) someOf(nk int) []int {
	var out []int
	for k := 0; k < nk; k++ {
		if g.r.Bool() {
			out = append(out, k)
		}
	}
	if len(out) == 0 {
		out = []int{g.r.Intn(nk)}
	}
	if len(out) > 1 && g.r.Bool() {
		out[0], out[len(out)-1] = out[len(out)-1], out[0]
	}
	return out
}

// random binding parameters for every binding of the layout
func (g *gen) fillParams(in *Input, pGroup, pInclude int) {
	nh := hookCount(*in)
	lay := layout(in.Rules, nh)
	in.Kube, in.Sched, in.BParams = make([][]GB, nh), make([][]GB, nh), make([][]BP, nh)
	for h := 0; h < nh; h++ {
		nk, ns := 0, 0
		if g.r.Chance(65) {
			nk = 1 + g.r.Intn(3)
		}
		if g.r.Chance(30) {
			ns = 1
		}
		in.Kube[h], in.Sched[h] = g.otherBindings(nk, ns)
		for range lay[h] {
			var p BP
			if g.r.Chance(pGroup) {
				p.Group = 1 + g.r.Intn(2)
			}
			if nk > 0 && g.r.Chance(pInclude) {
				p.Include = g.someOf(nk)
			}
			in.BParams[h] = append(in.BParams[h], p)
		}
	}
}

// a random rule graph and request as in handlerCase, the bindings with random further parameters
func (g *gen) paramsCase() Input {
	in := g.handlerCase()
	in.Kind = "params"
	// sometimes a rule is declared twice, by two bindings (of one hook or of two) with their own parameters:
	// the link of the later hook / binding serves it
	if len(in.Rules) > 0 && g.r.Chance(15) {
		in.Rules = append(in.Rules, in.Rules[g.r.Intn(len(in.Rules))])
	}
	g.fillParams(&in, 55, 35)
	return in
}

// a line of L steps served by nh hooks, the bindings selected by mask carry parameters of the given variant:
//
//	group     `group` only, no kubernetes binding in the hook (the group names nothing)
//	members   `group`, and kubernetes (and schedule) bindings of that group in the hook
//	include   `includeSnapshotsFrom` only
//	both      `group` with members and `includeSnapshotsFrom`
func (g *gen) positionsCase(steps, nh int, mask uint, variant string) Input {
	spell := []string{"short", "full"}[g.r.Intn(2)]
	nodes := g.names(steps + 1)
	var rules []Rule
	for i := 0; i < steps; i++ {
		rules = append(rules, Rule{g.spell(nodes[i], spell, 1), g.spell(nodes[i+1], spell, 1)})
	}
	in := Input{Kind: "params", Shape: fmt.Sprintf("line%d/%s", steps, variant), Spell: spell, Rules: rules, NHooks: nh,
		Src: g.spell(nodes[0], "mixed", 1), Desired: g.spell(nodes[steps], "mixed", 1), NReq: 1 + g.r.Intn(2), Plan: oks(steps + 1)}
	lay := layout(rules, nh)
	in.Kube, in.Sched, in.BParams = make([][]GB, nh), make([][]GB, nh), make([][]BP, nh)
	bit := uint(0)
	for h := 0; h < nh; h++ {
		needKube := false
		for range lay[h] {
			var p BP
			if mask&(1<<bit) != 0 {
				switch variant {
				case "group":
					p.Group = 1
				case "members":
					p.Group, needKube = 1, true
				case "include":
					p.Include, needKube = []int{0}, true
				default:
					p.Group, p.Include, needKube = 1, []int{1}, true
				}
			}
			bit++
			in.BParams[h] = append(in.BParams[h], p)
		}
		if needKube {
			in.Kube[h] = []GB{{Name: 0, Group: 1}, {Name: 1, Group: 2}}
			if g.r.Bool() {
				in.Sched[h] = []GB{{Name: 0, Group: 1}}
			}
		} else if variant != "group" && g.r.Chance(30) {
			in.Kube[h] = []GB{{Name: 0, Group: 1}} // a grouped kubernetes binding beside plain conversion bindings
		}
	}
	if g.r.Chance(25) { // a failing step somewhere: the parameters must not change how a failure is answered
		in.Plan[g.r.Intn(steps)] = g.fault()
	}
	return in
}

var paramVariants = []string{"group", "members", "include", "both"}

// every way of giving parameters to the bindings that serve a line of 1-4 steps (one hook per step, or one hook
// for all steps); per combination `variants` of the four variants
func (g *gen) positionsStream(add func(Input), variants int) {
	n := 0
	for steps := 1; steps <= 4; steps++ {
		for k, nh := range []int{1, steps} {
			if k == 1 && steps == 1 {
				continue // one step: "one hook per step" is "one hook for all steps"
			}
			nb := 0
			for _, cbs := range layout(make([]Rule, steps), nh) {
				nb += len(cbs)
			}
			for mask := uint(1); mask < 1<<uint(nb); mask++ {
				for k := 0; k < variants; k++ {
					add(g.positionsCase(steps, nh, mask, paramVariants[(n+k)%len(paramVariants)]))
				}
				n++
			}
		}
	}
}

// corpus of kind params
func corpusParams() []Input {
	full := func(s int) Ver { return Ver{1, s} }
	with := func(p []Step, k int, st Step) []Step {
		q := append([]Step{}, p...)
		q[k] = st
		return q
	}
	lin := []Rule{rl(0, 3), rl(3, 5), rl(5, 8)}
	return []Input{
		// two hooks, stable.example.com/v1 -> v2 and stable.example.com/v2 -> stable.example.com/v3 (mixed spellings);
		// only the binding of the SECOND step has a group: the step in the middle of the request must still read
		// the conversion review with the first step's output
		{Kind: "params", Shape: "corpus-group", Spell: "mixed", Rules: []Rule{{full(0), v(3)}, {full(3), full(5)}}, NHooks: 2,
			BParams: [][]BP{{{}}, {{Group: 1}}}, Src: full(0), Desired: full(5), NReq: 2, Plan: oks(3)},
		// one step, the binding has a group that has members, and includes a further snapshot by name
		{Kind: "params", Shape: "corpus-group", Spell: "short", Rules: lin[:1], NHooks: 1,
			Kube: [][]GB{{{Name: 0, Group: 1}, {Name: 1}, {Name: 2, Group: 1}}}, Sched: [][]GB{{{Name: 0, Group: 1}}},
			BParams: [][]BP{{{Group: 1, Include: []int{1}}}}, Src: v(0), Desired: v(3), NReq: 1, Plan: oks(2)},
		// three steps, one hook, both of its bindings grouped (steps 1 and 2 share a binding)
		{Kind: "params", Shape: "corpus-group", Spell: "short", Rules: lin, NHooks: 1,
			Kube: [][]GB{{{Name: 0, Group: 2}}}, BParams: [][]BP{{{Group: 2}, {Group: 1}}}, Src: v(0), Desired: v(8), NReq: 2, Plan: oks(4)},
		// includeSnapshotsFrom only, first step; the last step's hook fails with its own message
		{Kind: "params", Shape: "corpus-group", Spell: "short", Rules: lin, NHooks: 3,
			Kube: [][]GB{{{Name: 0}}, nil, {{Name: 0, Group: 1}}}, BParams: [][]BP{{{Include: []int{0}}}, {{Group: 1}}, {{Group: 1}}},
			Src: v(0), Desired: full(8), NReq: 1, Plan: with(oks(4), 2, Step{Kind: "failmsg", Class: "percent", Text: "grouped, and 100% broken: %s"})},
	}
}
