// Package c15: correspondence driver for C15 (conversion chains).
//
// search cases drive the real conversion.ChainStorage (Put / FindConversionChain) on
// generated rule graphs, every query on a fresh storage or all on a shared one.
// handler cases build real hooks (bash stubs scripted by the harness) around the real
// hook.Manager, the real ShellOperator.conversionEventHandler (verif export) and the real
// conversion.WebhookHandler router (httptest), and post one ConversionReview.
// params cases (params.go): the same stack with conversion bindings that carry `group` /
// `includeSnapshotsFrom`; what every executed hook read is observed field by field.
package c15

import (
	"bytes"
	"context"
	"encoding/json"
	"fmt"
	"net/http"
	"net/http/httptest"
	"os"
	"path/filepath"
	"regexp"
	"sort"
	"strconv"
	"strings"
	"time"

	"github.com/deckhouse/deckhouse/pkg/log"
	apixv1 "k8s.io/apiextensions-apiserver/pkg/apis/apiextensions/v1"

	"github.com/flant/shell-operator/pkg/hook"
	htypes "github.com/flant/shell-operator/pkg/hook/types"
	metricstorage "github.com/flant/shell-operator/pkg/metric_storage"
	shell_operator "github.com/flant/shell-operator/pkg/shell-operator"
	"github.com/flant/shell-operator/pkg/webhook/conversion"

	"verifharness/internal/core"
)

// ---------------------------------------------------------------- data

type Ver struct {
	G int `json:"g"` // 0 = written without group
	S int `json:"s"`
}
type Rule struct {
	From Ver `json:"from"`
	To   Ver `json:"to"`
}
type Step struct {
	Kind  string `json:"kind"`
	Msg   int    `json:"msg,omitempty"`   // old replays: the message "hookmsg-<n>"
	Text  string `json:"text,omitempty"`  // the failedMessage the hook gives (valid UTF-8, any bytes otherwise)
	Class string `json:"class,omitempty"` // generator's class of Text (tag only)
	Spell string `json:"spell,omitempty"` // how the response file spells Text as a JSON string: std | raw | uall | mixed
	Objs  []Obj  `json:"objs,omitempty"`  // kind "enc": the elements of convertedObjects, each with its encoding (enc.go)
}

// the message of a step
func (st Step) message() string {
	if st.Text != "" || st.Msg <= 0 {
		return st.Text
	}
	return fmt.Sprintf("hookmsg-%d", st.Msg)
}

// HookSettings is the `settings:` block of a hook's configuration
type HookSettings struct {
	IntervalMs int `json:"interval_ms"` // executionMinInterval, written "<n>ms" (0 and negative: no limit)
	Burst      int `json:"burst"`       // executionBurst (0 = default 1; negative with a positive interval: never runnable)
}

// GB is a `kubernetes` or `schedule` binding of a hook as far as grouping goes: name "k<Name>" / "s<Name>",
// group "g<Group>" (0 = no group)
type GB struct {
	Name  int `json:"name"`
	Group int `json:"group,omitempty"`
}

// BP: the further parameters of a kubernetesCustomResourceConversion binding: group "g<Group>" (0 = none),
// includeSnapshotsFrom = the kubernetes bindings "k<i>" of the same hook
type BP struct {
	Group   int   `json:"group,omitempty"`
	Include []int `json:"include,omitempty"`
}

// Req is one ConversionReview of a session
type Req struct {
	Crd     int    `json:"crd,omitempty"` // kind "multi": the CRD the review is posted for
	Src     Ver    `json:"src"`
	Desired Ver    `json:"desired"`
	NReq    int    `json:"nreq"`
	Plan    []Step `json:"plan"`
}

type Input struct {
	Kind    string `json:"kind"` // "search" | "handler" | "session"
	Shape   string `json:"shape,omitempty"`
	Spell   string `json:"spell,omitempty"`
	Rules   []Rule `json:"rules"`
	Shared  bool   `json:"shared,omitempty"`
	Queries []Rule `json:"queries,omitempty"`
	Src     Ver    `json:"src"`
	Desired Ver    `json:"desired"`
	NReq    int    `json:"nreq,omitempty"`
	Plan    []Step `json:"plan,omitempty"`
	NHooks  int    `json:"nhooks,omitempty"`
	// session: per hook its settings (nil = no settings block) and the requests, posted back to back
	Settings []*HookSettings `json:"settings,omitempty"`
	Requests []Req           `json:"requests,omitempty"`
	// params (kind "params"): per hook its kubernetes / schedule bindings, and per hook and conversion binding
	// (in the order of layout()) the binding's further parameters; missing entries = none
	Kube    [][]GB `json:"kube,omitempty"`
	Sched   [][]GB `json:"sched,omitempty"`
	BParams [][]BP `json:"bparams,omitempty"`
	// multi (kind "multi" / "msearch", multi.go): every declared rule with its CRD; Requests carry their CRD
	Decls    []Decl  `json:"decls,omitempty"`
	MQueries []Query `json:"mqueries,omitempty"`
}

// Decl: one rule of a conversion binding whose crdName is crdNames[Crd]
type Decl struct {
	Crd int  `json:"crd"`
	R   Rule `json:"r"`
}

// Query: one FindConversionChain(crdNames[Crd], Q) of a kind "msearch" case
type Query struct {
	Crd int  `json:"crd"`
	Q   Rule `json:"q"`
}

type Obj struct {
	Id int `json:"id"`
	V  Ver `json:"v"`
	// how the element is encoded (enc.go): "" = an object whose apiVersion is the string V
	Enc string `json:"enc,omitempty"`
	K   int    `json:"k,omitempty"`
}
type Outcome struct {
	Kind string `json:"kind"`          // exitfail | badresponse | noresponse | resp
	Msg  string `json:"msg,omitempty"` // resp: the failedMessage the response file denotes ("" = none)
	Objs []Obj  `json:"objs,omitempty"`
}
type Inv struct {
	Rule Rule   `json:"rule"`
	Objs []Obj  `json:"objs"`
	Who  string `json:"who,omitempty"`
	// what the hook read in $BINDING_CONTEXT_PATH, field by field (kind "params" gives it to Coq)
	Hook int       `json:"hook"`
	Ctx  *Rendered `json:"ctx,omitempty"`
}

// Rendered: the binding context a hook read.  Names are kept as strings here and numbered for Coq.
type Rendered struct {
	N         int      `json:"n"` // number of binding contexts in the file (1 expected)
	Binding   string   `json:"binding"`
	Type      string   `json:"type"`                // "" = no such field
	Snapshots []string `json:"snapshots,omitempty"` // keys, sorted
	HasSnaps  bool     `json:"has_snapshots,omitempty"`
	GroupName *string  `json:"groupName,omitempty"`
	From      *string  `json:"fromVersion,omitempty"`
	To        *string  `json:"toVersion,omitempty"`
	HasReview bool     `json:"has_review,omitempty"` // "review" with a request
	Objects   []Obj    `json:"objects,omitempty"`    // review.request.objects
}
type Answer struct {
	Success bool   `json:"success"`
	Objs    []Obj  `json:"objs,omitempty"`
	Raw     string `json:"raw"`           // Failure: result.message, every byte of it (this is what Coq gets)
	Msg     string `json:"msg,omitempty"` // tag only: what the text looks like (hook | hookfailed | properror | notsuccessful | count | other)
}
// ReqObs: what was observed for one request of a session
type ReqObs struct {
	ChainFound bool      `json:"chain_found,omitempty"`
	Chain      []Rule    `json:"chain,omitempty"`
	Outs       []Outcome `json:"outs,omitempty"`
	Trace      []Inv     `json:"trace,omitempty"`
	Ans        *Answer   `json:"ans,omitempty"`
	// tag only: hook runs of this request that found their hook's token bucket empty (estimated from
	// the hooks' own start/end timestamps; never given to Coq)
	Throttled int `json:"throttled,omitempty"`
}

type Obs struct {
	Reqs       []ReqObs  `json:"reqs,omitempty"`    // session
	Answers    [][]Rule  `json:"answers,omitempty"` // search: chain per query (nil = not found)
	Found      []bool    `json:"found,omitempty"`
	ChainFound bool      `json:"chain_found,omitempty"`
	Chain      []Rule    `json:"chain,omitempty"`
	Outs       []Outcome `json:"outs,omitempty"`
	Trace      []Inv     `json:"trace,omitempty"`
	Ans        *Answer   `json:"ans,omitempty"`
	Err        string    `json:"err,omitempty"`
}

// ---------------------------------------------------------------- version names

// near-miss names on purpose: "v1" is a substring of "v10", "v1beta1", "v1alpha1"; "v2" of "v2beta1", "v20"
var shortNames = []string{"v1", "v10", "v1beta1", "v2", "v1alpha1", "v3", "v2beta1", "v20", "v4", "v5", "v6", "v7"}
var groupNames = []string{"", "stable.example.com", "unstable.example.com"}

const bogusShort = 9999

func shortName(s int) string {
	if s >= 0 && s < len(shortNames) {
		return shortNames[s]
	}
	return "w" + strconv.Itoa(s)
}
func (v Ver) String() string {
	if v.G == 0 {
		return shortName(v.S)
	}
	if v.G < len(groupNames) {
		return groupNames[v.G] + "/" + shortName(v.S)
	}
	return "g" + strconv.Itoa(v.G) + ".io/" + shortName(v.S)
}
func parseVer(s string) Ver {
	g := 0
	if i := strings.IndexByte(s, '/'); i >= 0 {
		gs := s[:i]
		s = s[i+1:]
		g = -1
		for k, n := range groupNames {
			if k > 0 && n == gs {
				g = k
			}
		}
		if g < 0 {
			if strings.HasPrefix(gs, "g") && strings.HasSuffix(gs, ".io") {
				g, _ = strconv.Atoi(gs[1 : len(gs)-3])
			} else {
				g = 99
			}
		}
	}
	for k, n := range shortNames {
		if n == s {
			return Ver{g, k}
		}
	}
	if strings.HasPrefix(s, "w") {
		if n, err := strconv.Atoi(s[1:]); err == nil {
			return Ver{g, n}
		}
	}
	return Ver{g, bogusShort}
}
func toGoRule(r Rule) conversion.Rule {
	return conversion.Rule{FromVersion: r.From.String(), ToVersion: r.To.String()}
}
func fromGoRule(r conversion.Rule) Rule {
	return Rule{parseVer(r.FromVersion), parseVer(r.ToVersion)}
}

const crdName = "crontabs.stable.example.com"

// the CRDs of the multi-CRD cases (C15_Corr.crd_text); one group, coinciding version names
var crdNames = []string{crdName, "backups.stable.example.com", "reports.stable.example.com", "widgets.stable.example.com"}

func crdNameOf(c int) string {
	if c >= 0 && c < len(crdNames) {
		return crdNames[c]
	}
	return crdNames[len(crdNames)-1]
}

// ---------------------------------------------------------------- Run: search

func runSearch(in Input) Obs {
	var o Obs
	mk := func() *conversion.ChainStorage {
		cs := conversion.NewChainStorage()
		for _, r := range in.Rules {
			cs.Get(crdName).Put(toGoRule(r))
		}
		return cs
	}
	cs := mk()
	for _, q := range in.Queries {
		if !in.Shared {
			cs = mk()
		}
		p := cs.FindConversionChain(crdName, toGoRule(q))
		var chain []Rule
		for _, r := range p {
			chain = append(chain, fromGoRule(r))
		}
		o.Answers = append(o.Answers, chain)
		o.Found = append(o.Found, len(p) > 0)
	}
	return o
}

// ---------------------------------------------------------------- Run: handler

const hookScript = `#!/bin/bash
S='%s'
H='%s'
if [ "$1" = "--config" ]; then cat "$S/$H.config"; exit 0; fi
k=0
[ -f "$S/count" ] && read k < "$S/count"
echo $((k+1)) > "$S/count"
echo "$EPOCHREALTIME" > "$S/t0.$k"
cp "$BINDING_CONTEXT_PATH" "$S/ctx.$k"
echo "$H" > "$S/who.$k"
[ -f "$S/resp.$k" ] && cp "$S/resp.$k" "$CONVERSION_RESPONSE_PATH"
e=1
[ -f "$S/exit.$k" ] && read e < "$S/exit.$k"
echo "$EPOCHREALTIME" > "$S/t1.$k"
exit $e
`

type registrar struct{ hook, binding string }

func objJSON(o Obj) string {
	if o.Enc != "" {
		return encJSON(o)
	}
	return fmt.Sprintf(`{"apiVersion":%q,"kind":"CronTab","metadata":{"name":"o%d"}}`, o.V.String(), o.Id)
}
func objsJSON(os []Obj) string {
	parts := make([]string, len(os))
	for i, o := range os {
		parts[i] = objJSON(o)
	}
	return "[" + strings.Join(parts, ",") + "]"
}
func parseObjs(raws [][]byte) []Obj {
	var res []Obj
	for _, raw := range raws {
		res = append(res, classify(raw))
	}
	return res
}

func mkObjs(base, n int, v Ver) []Obj {
	var r []Obj
	for i := 0; i < n; i++ {
		r = append(r, Obj{Id: base + i, V: v})
	}
	return r
}

// ---------------------------------------------------------------- JSON spellings of a message

func u16esc(b *strings.Builder, r rune) {
	if r >= 0x10000 {
		r -= 0x10000
		fmt.Fprintf(b, `\u%04x\u%04X`, 0xd800+(r>>10), 0xdc00+(r&0x3ff))
		return
	}
	fmt.Fprintf(b, `\u%04x`, r)
}

// jsonString spells the (valid UTF-8) text as a JSON string literal in one of four ways; all
// four denote the same string.
//
//	std:   encoding/json's own spelling (escapes < > & U+2028 U+2029)
//	raw:   only what JSON requires is escaped (quote, backslash, control characters)
//	uall:  every character as \uXXXX (surrogate pairs above U+FFFF)
//	mixed: raw and \uXXXX alternate, '/' is written \/
func jsonString(text, mode string) string {
	if mode == "" || mode == "std" {
		b, _ := json.Marshal(text)
		return string(b)
	}
	var b strings.Builder
	b.WriteByte('"')
	for i, r := range []rune(text) {
		esc := mode == "uall" || (mode == "mixed" && i%2 == 1)
		switch {
		case esc:
			u16esc(&b, r)
		case mode == "mixed" && r == '/':
			b.WriteString(`\/`)
		case r == '"':
			b.WriteString(`\"`)
		case r == '\\':
			b.WriteString(`\\`)
		case r == '\n':
			b.WriteString(`\n`)
		case r == '\t':
			b.WriteString(`\t`)
		case r == '\r':
			b.WriteString(`\r`)
		case r < 0x20:
			u16esc(&b, r)
		default:
			b.WriteRune(r)
		}
	}
	b.WriteByte('"')
	return b.String()
}

// concrete outcome of the k-th hook run, for the rule the chain has at that position
func concretise(st Step, k int, r Rule, desired Ver, n int) (out Outcome, resp string, exit int) {
	outV := r.To
	if outV.S == desired.S {
		outV = desired // a well-behaved hook writes the requested spelling of the final version
	}
	base := 100 * (k + 1)
	msgLit := jsonString(st.message(), st.Spell)
	respOf := func(msgField string, objs []Obj) string {
		m := ""
		if msgField != "" {
			m = `"failedMessage":` + msgField + `,`
		}
		return fmt.Sprintf(`{%s"convertedObjects":%s}`, m, objsJSON(objs))
	}
	switch st.Kind {
	case "ok":
		objs := mkObjs(base, n, outV)
		return Outcome{Kind: "resp", Objs: objs}, respOf("", objs), 0
	case "fewer":
		m := n - 1
		if m < 0 {
			m = 0
		}
		objs := mkObjs(base, m, outV)
		return Outcome{Kind: "resp", Objs: objs}, respOf("", objs), 0
	case "more":
		objs := mkObjs(base, n+1, outV)
		return Outcome{Kind: "resp", Objs: objs}, respOf("", objs), 0
	case "wrongver":
		objs := mkObjs(base, n, Ver{0, 77})
		return Outcome{Kind: "resp", Objs: objs}, respOf("", objs), 0
	case "mixedver":
		objs := append(mkObjs(base, 1, desired), mkObjs(base+1, n, Ver{0, 77})...)
		return Outcome{Kind: "resp", Objs: objs}, respOf("", objs), 0
	case "jump":
		objs := mkObjs(base, n, desired)
		return Outcome{Kind: "resp", Objs: objs}, respOf("", objs), 0
	case "noobjs":
		return Outcome{Kind: "resp"}, `{}`, 0
	case "enc": // the elements as scripted, each in its own encoding
		return Outcome{Kind: "resp", Objs: st.Objs}, respOf("", st.Objs), 0
	case "failmsg":
		return Outcome{Kind: "resp", Msg: st.message()}, `{"failedMessage":` + msgLit + `}`, 0
	case "failmsgobjs":
		objs := mkObjs(base, n, outV)
		return Outcome{Kind: "resp", Msg: st.message(), Objs: objs}, respOf(msgLit, objs), 0
	case "emptymsg": // "failedMessage": "" is no message
		objs := mkObjs(base, n, outV)
		return Outcome{Kind: "resp", Objs: objs}, respOf(`""`, objs), 0
	case "nullmsg": // so is null
		objs := mkObjs(base, n, outV)
		return Outcome{Kind: "resp", Objs: objs}, respOf(`null`, objs), 0
	case "msgnotstring": // a failedMessage that is not a string: the response cannot be decoded
		objs := mkObjs(base, n, outV)
		return Outcome{Kind: "badresponse"}, respOf(`42`, objs), 0
	case "exit1msg": // a message, but the hook itself failed: the run is a failed run
		return Outcome{Kind: "exitfail"}, `{"failedMessage":` + msgLit + `}`, 1
	case "exit1resp":
		objs := mkObjs(base, n, outV)
		return Outcome{Kind: "exitfail"}, respOf("", objs), 1
	case "badjson":
		return Outcome{Kind: "badresponse"}, `{"convertedObjects": [tru`, 0
	case "empty":
		return Outcome{Kind: "noresponse"}, "", 0
	}
	return Outcome{Kind: "exitfail"}, "", 1 // "exit1" and anything unknown
}

var reCount = regexp.MustCompile(`^hook returned (\d+) objects instead of (\d+)$`)

// what a Failure's text looks like: for tags and the readable rendering only, never for Coq
func looksLike(msg string) string {
	switch {
	case strings.HasPrefix(msg, "Hook failed to convert to "):
		return "hookfailed"
	case msg == "hook task prop error":
		return "properror"
	case strings.HasPrefix(msg, "Conversion to ") && strings.HasSuffix(msg, " was not successuful"):
		return "notsuccessful"
	case reCount.MatchString(msg):
		return "count"
	}
	return "other"
}

// rig: real hooks (bash stubs) + the real hook.Manager + the real conversionEventHandler + the real
// conversion.WebhookHandler router, assembled once and asked any number of ConversionReviews
type rig struct {
	op      *shell_operator.ShellOperator
	handler *conversion.WebhookHandler
	state   string
	tmp     string
	reg     map[regKey]registrar
	cur     int            // the CRD (index into crdNames) the next review is posted for
	hookOf  map[string]int // hook file name -> hook number
	runs    int            // hook executions so far (the stubs number their runs globally)
	lastEnd float64        // when the latest hook execution ended (unix seconds), 0 = none yet
	buckets []*simBucket   // tag only: token buckets re-played from the stubs' timestamps
	close   func()
}

// simBucket re-plays a hook's token bucket from observed instants (tags only)
type simBucket struct {
	interval float64 // seconds
	burst    float64
	tokens   float64
	last     float64
	started  bool
}

// take: a Wait called at instant t; true = the bucket was empty (the execution has to be delayed)
func (b *simBucket) take(t float64) bool {
	if b == nil {
		return false
	}
	if !b.started {
		b.started, b.tokens = true, b.burst
	} else if t > b.last {
		b.tokens += (t - b.last) / b.interval
		if b.tokens > b.burst {
			b.tokens = b.burst
		}
	}
	if t > b.last {
		b.last = t
	}
	b.tokens--
	return b.tokens < 0
}

func readStamp(path string) float64 {
	b, err := os.ReadFile(path)
	if err != nil {
		return 0
	}
	f, _ := strconv.ParseFloat(strings.Replace(strings.TrimSpace(string(b)), ",", ".", 1), 64)
	return f
}

// convBinding: one kubernetesCustomResourceConversion binding of the generated configuration
type regKey struct {
	crd int
	r   Rule
}

type convBinding struct {
	Crd       int
	Hook, Idx int
	Name      string
	Rules     []Rule
}

// layout: rule j is registered by hook j%nh, in bindings of up to two rules each
func layout(rules []Rule, nh int) [][]convBinding {
	decls := make([]Decl, len(rules))
	for j, r := range rules {
		decls[j] = Decl{0, r}
	}
	return layoutM(decls, nh)
}

// layoutM: the j-th rule declared for CRD c is registered by hook (j+c)%nh, in bindings (one crdName each) of up
// to two rules; with one CRD this is layout()
func layoutM(decls []Decl, nh int) [][]convBinding {
	if nh < 1 {
		nh = 1
	}
	per := make([][]convBinding, nh)
	within := map[int]int{}
	for _, d := range decls {
		h := (within[d.Crd] + d.Crd) % nh
		within[d.Crd]++
		bs := per[h]
		if len(bs) == 0 || len(bs[len(bs)-1].Rules) >= 2 || bs[len(bs)-1].Crd != d.Crd {
			bs = append(bs, convBinding{Crd: d.Crd, Hook: h, Idx: len(bs), Name: fmt.Sprintf("b%d-%d", h, len(bs))})
		}
		bs[len(bs)-1].Rules = append(bs[len(bs)-1].Rules, d.R)
		per[h] = bs
	}
	return per
}

// the further parameters of conversion binding i of hook h; the other bindings of hook h
func (in *Input) bp(h, i int) BP {
	if in == nil || h >= len(in.BParams) || i >= len(in.BParams[h]) {
		return BP{}
	}
	return in.BParams[h][i]
}
func (in *Input) kube(h int) []GB {
	if in == nil || h >= len(in.Kube) {
		return nil
	}
	return in.Kube[h]
}
func (in *Input) sched(h int) []GB {
	if in == nil || h >= len(in.Sched) {
		return nil
	}
	return in.Sched[h]
}

func groupName(g int) string { return fmt.Sprintf("g%d", g) }
func kubeName(k int) string  { return fmt.Sprintf("k%d", k) }
func schedName(k int) string { return fmt.Sprintf("s%d", k) }

// numbers of the names, for Coq (9999 = a name the harness did not give)
func numAfter(prefix, s string) int {
	if strings.HasPrefix(s, prefix) {
		if n, err := strconv.Atoi(s[len(prefix):]); err == nil && n >= 0 {
			return n
		}
	}
	return 9999
}
func convBindingNumber(name string) int { // "b<h>-<i>" -> 100*h + i
	var h, i int
	if n, err := fmt.Sscanf(name, "b%d-%d", &h, &i); err == nil && n == 2 && fmt.Sprintf("b%d-%d", h, i) == name {
		return 100*h + i
	}
	return 9999
}

// extra: the params of an Input of kind "params" (nil otherwise): other bindings of the hooks and the further
// parameters of the conversion bindings
func newRig(rules []Rule, nh int, settings []*HookSettings, extra *Input) (rg *rig, err error) {
	decls := make([]Decl, len(rules))
	for j, r := range rules {
		decls[j] = Decl{0, r}
	}
	return newRigM(decls, nh, settings, extra)
}

// newRigM: the same for rules declared for several CRDs (bindings with different crdName in one hook or several)
func newRigM(decls []Decl, nh int, settings []*HookSettings, extra *Input) (rg *rig, err error) {
	root, err := os.MkdirTemp("", "c15-")
	if err != nil {
		return nil, err
	}
	var closers []func()
	closers = append(closers, func() { os.RemoveAll(root) })
	closeAll := func() {
		for k := len(closers) - 1; k >= 0; k-- {
			closers[k]()
		}
	}
	defer func() {
		if err != nil {
			closeAll()
		}
	}()
	hooksDir, state, tmp := filepath.Join(root, "hooks"), filepath.Join(root, "state"), filepath.Join(root, "tmp")
	for _, d := range []string{hooksDir, state, tmp} {
		if err := os.Mkdir(d, 0o755); err != nil {
			return nil, err
		}
	}
	if nh < 1 {
		nh = 1
	}
	rg = &rig{state: state, tmp: tmp, reg: map[regKey]registrar{}, hookOf: map[string]int{}, buckets: make([]*simBucket, nh)}
	type binding struct {
		Name                 string            `json:"name"`
		Group                string            `json:"group,omitempty"`
		IncludeSnapshotsFrom []string          `json:"includeSnapshotsFrom,omitempty"`
		CrdName              string            `json:"crdName"`
		Conversions          []conversion.Rule `json:"conversions"`
	}
	perHook := make([][]binding, nh)
	for h, cbs := range layoutM(decls, nh) {
		for _, cb := range cbs {
			b := binding{Name: cb.Name, CrdName: crdNameOf(cb.Crd)}
			p := extra.bp(h, cb.Idx)
			if p.Group > 0 {
				b.Group = groupName(p.Group)
			}
			for _, k := range p.Include {
				b.IncludeSnapshotsFrom = append(b.IncludeSnapshotsFrom, kubeName(k))
			}
			for _, r := range cb.Rules {
				b.Conversions = append(b.Conversions, toGoRule(r))
				rg.reg[regKey{cb.Crd, r}] = registrar{fmt.Sprintf("h%02d.sh", h), cb.Name}
			}
			perHook[h] = append(perHook[h], b)
		}
	}
	for h := 0; h < nh; h++ {
		name := fmt.Sprintf("h%02d.sh", h)
		rg.hookOf[name] = h
		cfg := map[string]any{"configVersion": "v1"}
		if len(perHook[h]) > 0 {
			cfg["kubernetesCustomResourceConversion"] = perHook[h]
		} else {
			cfg["onStartup"] = 1
		}
		// other bindings of the hook: they never fire here (no cluster; a crontab for the 30th of February);
		// they exist so that a conversion binding can include their snapshots by name or by group
		var kube, sched []map[string]any
		for _, kb := range extra.kube(h) {
			m := map[string]any{"name": kubeName(kb.Name), "apiVersion": "v1", "kind": "ConfigMap"}
			if kb.Group > 0 {
				m["group"] = groupName(kb.Group)
			}
			kube = append(kube, m)
		}
		for _, sb := range extra.sched(h) {
			m := map[string]any{"name": schedName(sb.Name), "crontab": "0 0 30 2 *"}
			if sb.Group > 0 {
				m["group"] = groupName(sb.Group)
			}
			sched = append(sched, m)
		}
		if len(kube) > 0 {
			cfg["kubernetes"] = kube
		}
		if len(sched) > 0 {
			cfg["schedule"] = sched
		}
		if h < len(settings) && settings[h] != nil {
			st := settings[h]
			cfg["settings"] = map[string]any{"executionMinInterval": fmt.Sprintf("%dms", st.IntervalMs), "executionBurst": st.Burst}
			if st.IntervalMs > 0 {
				b := st.Burst
				if b == 0 {
					b = 1
				}
				if b > 0 {
					rg.buckets[h] = &simBucket{interval: float64(st.IntervalMs) / 1000, burst: float64(b)}
				}
			}
		}
		b, _ := json.Marshal(cfg)
		if err := os.WriteFile(filepath.Join(state, name+".config"), b, 0o644); err != nil {
			return nil, err
		}
		if err := os.WriteFile(filepath.Join(hooksDir, name), []byte(fmt.Sprintf(hookScript, state, name)), 0o755); err != nil {
			return nil, err
		}
	}

	// the operator, assembled from its exported parts as assembleShellOperator does, minus
	// listeners, kube client and certificates
	ctx, cancel := context.WithCancel(context.Background())
	closers = append(closers, cancel)
	op := shell_operator.NewShellOperator(ctx, shell_operator.WithLogger(log.NewNop()))
	closers = append(closers, op.Stop)
	op.MetricStorage = metricstorage.NewMetricStorage(ctx, "verif_", true, log.NewNop())
	op.HookMetricStorage = metricstorage.NewMetricStorage(ctx, "verif_hook_", true, log.NewNop())
	op.SetupEventManagers()
	op.ConversionWebhookManager = conversion.NewWebhookManager()
	op.ConversionWebhookManager.Settings = &conversion.WebhookSettings{}
	op.HookManager = hook.NewHookManager(&hook.ManagerConfig{
		WorkingDir: hooksDir, TempDir: tmp,
		Kmgr: op.KubeEventsManager, Smgr: op.ScheduleManager,
		Wmgr: nil, Cmgr: op.ConversionWebhookManager, Logger: log.NewNop(),
	})
	if err := op.HookManager.Init(); err != nil {
		return nil, fmt.Errorf("hook manager init: %w", err)
	}
	// initConversionWebhookManager, without Init()/Start() of the TLS server
	op.ConversionWebhookManager.EventHandlerFn = op.VerifConversionEventHandler
	names, _ := op.HookManager.GetHooksInOrder(htypes.KubernetesConversion)
	for _, n := range names {
		op.HookManager.GetHook(n).HookController.EnableConversionBindings()
	}
	rg.op = op
	rg.handler = conversion.NewWebhookHandler()
	rg.handler.Manager = op.ConversionWebhookManager
	rg.close = closeAll
	return rg, nil
}

// serve posts one ConversionReview and reports what the hooks saw and what was answered
func (rg *rig) serve(src, desired Ver, nreq int, plan []Step) (o ReqObs) {
	// the chain the hook manager answers for this request (also fills its cache, so that the
	// handler's own call is answered from the cache)
	crdName := crdNameOf(rg.cur)
	chain := rg.op.HookManager.FindConversionChain(crdName, conversion.Rule{FromVersion: src.String(), ToVersion: desired.String()})
	o.ChainFound = len(chain) > 0
	for _, r := range chain {
		o.Chain = append(o.Chain, fromGoRule(r))
	}
	base := rg.runs
	for k, st := range plan {
		if k >= len(o.Chain) {
			break
		}
		out, resp, exit := concretise(st, k, o.Chain[k], desired, nreq)
		o.Outs = append(o.Outs, out)
		// a run number may have been prepared for a step of an earlier request that was never
		// executed (its chain ended early): nothing of that may be left for this run
		_ = os.Remove(filepath.Join(rg.state, fmt.Sprintf("resp.%d", base+k)))
		if resp != "" {
			_ = os.WriteFile(filepath.Join(rg.state, fmt.Sprintf("resp.%d", base+k)), []byte(resp), 0o644)
		}
		_ = os.WriteFile(filepath.Join(rg.state, fmt.Sprintf("exit.%d", base+k)), []byte(strconv.Itoa(exit)+"\n"), 0o644)
	}

	req := mkObjs(1, nreq, src)
	body := fmt.Sprintf(`{"apiVersion":"apiextensions.k8s.io/v1","kind":"ConversionReview","request":{"uid":"uid-1","desiredAPIVersion":%q,"objects":%s}}`,
		desired.String(), objsJSON(req))
	rq := httptest.NewRequest(http.MethodPost, "/"+crdName, bytes.NewReader([]byte(body)))
	rq.Header.Set("Content-Type", "application/json")
	rec := httptest.NewRecorder()
	posted := float64(time.Now().UnixNano()) / 1e9
	rg.handler.Router.ServeHTTP(rec, rq)

	ans := Answer{}
	if rec.Code != http.StatusOK {
		ans = Answer{Msg: "nohttp200", Raw: fmt.Sprintf("(harness) HTTP %d %s", rec.Code, rec.Body.String())}
	} else {
		var review apixv1.ConversionReview
		if err := json.Unmarshal(rec.Body.Bytes(), &review); err != nil || review.Response == nil {
			ans = Answer{Msg: "undecodable", Raw: "(harness) undecodable answer: " + rec.Body.String()}
		} else if review.Response.Result.Status == "Success" {
			var raws [][]byte
			for _, co := range review.Response.ConvertedObjects {
				raws = append(raws, co.Raw)
			}
			ans = Answer{Success: true, Objs: parseObjs(raws)}
			if string(review.Response.UID) != "uid-1" {
				ans = Answer{Msg: "wronguid", Raw: "(harness) Success with a wrong UID " + string(review.Response.UID)}
			}
		} else {
			// result.message as the API server would read it; no interpretation here
			ans = Answer{Raw: review.Response.Result.Message, Msg: looksLike(review.Response.Result.Message)}
		}
	}
	o.Ans = &ans

	// what the hooks saw
	n := base
	if b, err := os.ReadFile(filepath.Join(rg.state, "count")); err == nil {
		n, _ = strconv.Atoi(strings.TrimSpace(string(b)))
	}
	for k := base; k < n; k++ {
		var ctxs []struct {
			Binding     string `json:"binding"`
			Type        string `json:"type"`
			FromVersion string `json:"fromVersion"`
			ToVersion   string `json:"toVersion"`
			Review      struct {
				Request struct {
					Objects []json.RawMessage `json:"objects"`
				} `json:"request"`
			} `json:"review"`
		}
		b, _ := os.ReadFile(filepath.Join(rg.state, fmt.Sprintf("ctx.%d", k)))
		who, _ := os.ReadFile(filepath.Join(rg.state, fmt.Sprintf("who.%d", k)))
		inv := Inv{Who: strings.TrimSpace(string(who)), Hook: 9999, Ctx: parseCtx(b)}
		if h, ok := rg.hookOf[inv.Who]; ok {
			inv.Hook = h
		}
		// tag only: was this hook's bucket empty when its Wait was called (just after the previous
		// execution ended, or when the request was posted)?
		called := posted
		if rg.lastEnd > called {
			called = rg.lastEnd
		}
		if h, ok := rg.hookOf[inv.Who]; ok && rg.buckets[h].take(called) {
			o.Throttled++
		}
		if t1 := readStamp(filepath.Join(rg.state, fmt.Sprintf("t1.%d", k))); t1 > 0 {
			rg.lastEnd = t1
		}
		if err := json.Unmarshal(b, &ctxs); err != nil || len(ctxs) != 1 || ctxs[0].Type != "Conversion" {
			inv.Rule = Rule{Ver{0, bogusShort}, Ver{0, bogusShort}}
			inv.Who += " (unexpected binding context: " + string(b) + ")"
		} else {
			inv.Rule = Rule{parseVer(ctxs[0].FromVersion), parseVer(ctxs[0].ToVersion)}
			var raws [][]byte
			for _, r := range ctxs[0].Review.Request.Objects {
				raws = append(raws, r)
			}
			inv.Objs = parseObjs(raws)
			// "a request is handed to the hook and binding that registered that rule"
			if want, ok := rg.reg[regKey{rg.cur, inv.Rule}]; !ok || want.hook != inv.Who || want.binding != ctxs[0].Binding {
				inv.Who += fmt.Sprintf(" (ran as %s/%s, registrar is %s/%s)", inv.Who, ctxs[0].Binding, want.hook, want.binding)
				inv.Rule = Rule{Ver{0, bogusShort}, inv.Rule.To}
			}
		}
		o.Trace = append(o.Trace, inv)
	}
	rg.runs = n
	return
}

// parseCtx reads a binding-context file field by field (no expectation about its type)
func parseCtx(b []byte) *Rendered {
	rc := &Rendered{}
	var ctxs []map[string]json.RawMessage
	if err := json.Unmarshal(b, &ctxs); err != nil {
		rc.N = -1
		return rc
	}
	rc.N = len(ctxs)
	if len(ctxs) == 0 {
		return rc
	}
	c := ctxs[0]
	str := func(k string) *string {
		raw, ok := c[k]
		if !ok {
			return nil
		}
		var s string
		if json.Unmarshal(raw, &s) != nil {
			s = "(not a string: " + string(raw) + ")"
		}
		return &s
	}
	if p := str("binding"); p != nil {
		rc.Binding = *p
	}
	if p := str("type"); p != nil {
		rc.Type = *p
	}
	rc.GroupName, rc.From, rc.To = str("groupName"), str("fromVersion"), str("toVersion")
	if raw, ok := c["snapshots"]; ok {
		rc.HasSnaps = true
		var m map[string]json.RawMessage
		_ = json.Unmarshal(raw, &m)
		for k := range m {
			rc.Snapshots = append(rc.Snapshots, k)
		}
		sort.Strings(rc.Snapshots)
	}
	if raw, ok := c["review"]; ok {
		var rv struct {
			Request *struct {
				Objects []json.RawMessage `json:"objects"`
			} `json:"request"`
		}
		if json.Unmarshal(raw, &rv) == nil && rv.Request != nil {
			rc.HasReview = true
			var raws [][]byte
			for _, r := range rv.Request.Objects {
				raws = append(raws, r)
			}
			rc.Objects = parseObjs(raws)
		}
	}
	return rc
}

// temp files of the executions must be gone
func (rg *rig) leftovers() string {
	if left, _ := os.ReadDir(rg.tmp); len(left) > 0 {
		return fmt.Sprintf("%d temporary files left behind", len(left))
	}
	return ""
}

func runHandler(in Input) (o Obs) {
	rg, err := newRig(in.Rules, in.NHooks, nil, nil)
	if err != nil {
		o.Err = err.Error()
		return
	}
	defer rg.close()
	r := rg.serve(in.Src, in.Desired, in.NReq, in.Plan)
	o.ChainFound, o.Chain, o.Outs, o.Trace, o.Ans = r.ChainFound, r.Chain, r.Outs, r.Trace, r.Ans
	o.Err = rg.leftovers()
	return
}

// params: hooks whose conversion bindings carry group / includeSnapshotsFrom (and that have other bindings)
func runParams(in Input) (o Obs) {
	rg, err := newRig(in.Rules, in.NHooks, nil, &in)
	if err != nil {
		o.Err = err.Error()
		return
	}
	defer rg.close()
	r := rg.serve(in.Src, in.Desired, in.NReq, in.Plan)
	o.ChainFound, o.Chain, o.Outs, o.Trace, o.Ans = r.ChainFound, r.Chain, r.Outs, r.Trace, r.Ans
	o.Err = rg.leftovers()
	return
}

// a session: hooks with or without settings, several requests posted back to back
func runSession(in Input) (o Obs) {
	rg, err := newRig(in.Rules, in.NHooks, in.Settings, nil)
	if err != nil {
		o.Err = err.Error()
		return
	}
	defer rg.close()
	for _, q := range in.Requests {
		o.Reqs = append(o.Reqs, rg.serve(q.Src, q.Desired, q.NReq, q.Plan))
	}
	o.Err = rg.leftovers()
	return
}

func Run(in Input) Obs {
	switch in.Kind {
	case "handler", "enc":
		return runHandler(in)
	case "session":
		return runSession(in)
	case "params":
		return runParams(in)
	case "multi":
		return runMulti(in)
	case "msearch":
		return runMSearch(in)
	}
	return runSearch(in)
}

// human-readable rendering for replay files and evidence samples
func (r Rule) String() string { return r.From.String() + "->" + r.To.String() }
func rulesText(rs []Rule) string {
	parts := make([]string, len(rs))
	for i, r := range rs {
		parts[i] = r.String()
	}
	return "[" + strings.Join(parts, ", ") + "]"
}
func objsText(os []Obj) string {
	parts := make([]string, len(os))
	for i, o := range os {
		parts[i] = objText(o)
	}
	return "[" + strings.Join(parts, " ") + "]"
}
func planText(p []Step) string {
	var parts []string
	for _, st := range p {
		if st.Kind == "enc" {
			parts = append(parts, "enc"+objsText(st.Objs))
		} else if m := st.message(); m != "" {
			parts = append(parts, fmt.Sprintf("%s(%q as %s)", st.Kind, m, orStd(st.Spell)))
		} else {
			parts = append(parts, st.Kind)
		}
	}
	return strings.Join(parts, " ")
}
func orStd(s string) string {
	if s == "" {
		return "std"
	}
	return s
}

// the failedMessage of the last hook run, if that run gave one
func lastHookMessage(obs *Obs) (string, bool) {
	k := len(obs.Trace) - 1
	if k < 0 || k >= len(obs.Outs) || obs.Outs[k].Kind != "resp" || obs.Outs[k].Msg == "" {
		return "", false
	}
	return obs.Outs[k].Msg, true
}

func settingsText(st *HookSettings) string {
	if st == nil {
		return "no settings"
	}
	return fmt.Sprintf("settings{executionMinInterval: %dms, executionBurst: %d}", st.IntervalMs, st.Burst)
}

func hookCount(in Input) int {
	if in.NHooks < 1 {
		return 1
	}
	return in.NHooks
}

func settingOf(in Input, h int) *HookSettings {
	if h < len(in.Settings) {
		return in.Settings[h]
	}
	return nil
}

// can the hook be executed at all (C15_Spec.runnable)
func runnable(st *HookSettings) bool { return st == nil || st.IntervalMs <= 0 || st.Burst >= 0 }

func readableReq(src, desired Ver, nreq int, plan []Step, q *ReqObs) []string {
	out := []string{fmt.Sprintf("request: %d object(s) at %s, desired %s; plan %s", nreq, src, desired, planText(plan))}
	if q == nil {
		return out
	}
	if q.ChainFound {
		out = append(out, "chain "+rulesText(q.Chain))
	} else {
		out = append(out, "chain: none")
	}
	for k, t := range q.Trace {
		o := "?"
		if k < len(q.Outs) {
			o = fmt.Sprintf("%s failedMessage=%q %s", q.Outs[k].Kind, q.Outs[k].Msg, objsText(q.Outs[k].Objs))
		}
		out = append(out, fmt.Sprintf("run %d: %s for %s received %s; it produced %s", k, t.Who, t.Rule, objsText(t.Objs), o))
	}
	if len(q.Trace) == 0 {
		out = append(out, "no hook was executed")
	}
	if n := len(q.Trace); n > 0 && n < len(q.Chain) && n <= len(q.Outs) {
		if last := q.Outs[n-1]; last.Kind == "resp" && last.Msg == "" && (q.Ans == nil || !q.Ans.Success) {
			out = append(out, fmt.Sprintf("step %d (%s) was NOT executed although no executed step failed", n+1, q.Chain[n]))
		}
	}
	if q.Ans != nil {
		if q.Ans.Success {
			out = append(out, "answer: Success "+objsText(q.Ans.Objs))
		} else {
			out = append(out, fmt.Sprintf("answer: Failure, message %q", q.Ans.Raw))
		}
	}
	return out
}

func readable(in Input, obs *Obs) []string {
	out := []string{"rules " + rulesText(in.Rules)}
	if in.Kind == "session" {
		nh := hookCount(in)
		for h := 0; h < nh; h++ {
			var own []Rule
			for j, r := range in.Rules {
				if j%nh == h {
					own = append(own, r)
				}
			}
			out = append(out, fmt.Sprintf("hook h%02d.sh: %s, registers %s", h, settingsText(settingOf(in, h)), rulesText(own)))
		}
		for i, q := range in.Requests {
			var qo *ReqObs
			if i < len(obs.Reqs) {
				qo = &obs.Reqs[i]
			}
			for _, l := range readableReq(q.Src, q.Desired, q.NReq, q.Plan, qo) {
				out = append(out, fmt.Sprintf("[request %d] %s", i+1, l))
			}
		}
		return out
	}
	if in.Kind == "handler" || in.Kind == "enc" {
		out = append(out, fmt.Sprintf("request: %d object(s) at %s, desired %s; plan %s", in.NReq, in.Src, in.Desired, planText(in.Plan)))
		if obs.ChainFound {
			out = append(out, "chain "+rulesText(obs.Chain))
		} else {
			out = append(out, "chain: none")
		}
		for k, t := range obs.Trace {
			o := "?"
			if k < len(obs.Outs) {
				o = fmt.Sprintf("%s failedMessage=%q %s", obs.Outs[k].Kind, obs.Outs[k].Msg, objsText(obs.Outs[k].Objs))
			}
			out = append(out, fmt.Sprintf("run %d: %s for %s received %s; it produced %s", k, t.Who, t.Rule, objsText(t.Objs), o))
		}
		if obs.Ans != nil {
			if obs.Ans.Success {
				out = append(out, "answer: Success "+objsText(obs.Ans.Objs))
			} else {
				out = append(out, fmt.Sprintf("answer: Failure, message %q", obs.Ans.Raw))
				if hm, ok := lastHookMessage(obs); ok && hm != obs.Ans.Raw {
					out = append(out, fmt.Sprintf("the failing hook's own message was %q", hm))
				}
			}
		}
		return out
	}
	mode := "fresh storage per query"
	if in.Shared {
		mode = "one shared storage"
	}
	out = append(out, mode)
	for i, q := range in.Queries {
		if i < len(obs.Answers) {
			if obs.Found[i] {
				out = append(out, q.String()+" => "+rulesText(obs.Answers[i]))
			} else {
				out = append(out, q.String()+" => nil")
			}
		}
	}
	return out
}

// ---------------------------------------------------------------- Render

// compact Coq notation of C15_Corr: a version is 4*short+group, a rule is `r a b`, a chain
// is the list of positions of its rules in the declared list
func coqVer(v Ver) string {
	g := v.G
	if g > 3 || g < 0 {
		g = 3
	}
	return strconv.Itoa(4*v.S + g)
}
func coqRule(r Rule) string     { return "r " + coqVer(r.From) + " " + coqVer(r.To) }
func coqRules(rs []Rule) string { return core.CoqList(rs, coqRule) }
func coqObj(o Obj) string       { return fmt.Sprintf("o %d %s", o.Id, coqVer(o.V)) }
func coqObjs(os []Obj) string   { return core.CoqList(os, coqObj) }
func ruleIndex(rules []Rule, r Rule) int {
	for i, x := range rules {
		if x == r {
			return i
		}
	}
	return len(rules) + 1000 // not a declared rule
}
func coqChain(rules []Rule, chain []Rule) string {
	return core.CoqList(chain, func(r Rule) string { return strconv.Itoa(ruleIndex(rules, r)) })
}
func coqOutcome(o Outcome) string {
	switch o.Kind {
	case "resp":
		return "OResp " + core.CoqBytes(o.Msg) + " " + coqObjs(o.Objs)
	case "badresponse":
		return "OBadResponse"
	case "noresponse":
		return "ONoResponse"
	}
	return "OExitFail"
}
func coqAnswer(a *Answer) string {
	if a == nil {
		return "RFailure []"
	}
	if a.Success {
		return "RSuccess " + coqObjs(a.Objs)
	}
	return "RFailure " + core.CoqBytes(a.Raw)
}

func Render(in Input, obs *Obs, crash string) core.Case {
	c := core.Case{}
	c.Tags = append(c.Tags, "kind:"+in.Kind, "shape:"+in.Shape, "spell:"+in.Spell, fmt.Sprintf("rules:%02d", len(in.Rules)))
	if crash != "" || obs == nil || obs.Err != "" {
		c.Coq = "CCrash"
		c.JSON = map[string]any{"crash": crash, "obs": obs}
		c.Key = fmt.Sprintf("crash %v", in)
		c.Tags = append(c.Tags, "crash")
		return c
	}
	if in.Kind == "session" {
		return renderSession(in, obs, c)
	}
	if in.Kind == "params" {
		return renderParams(in, obs, c)
	}
	if in.Kind == "multi" {
		return renderMulti(in, obs, c)
	}
	if in.Kind == "msearch" {
		return renderMSearch(in, obs, c)
	}
	if in.Kind == "enc" {
		return renderEnc(in, obs, c)
	}
	if in.Kind == "handler" {
		chain := "[]"
		if obs.ChainFound {
			chain = coqChain(in.Rules, obs.Chain)
		}
		c.Coq = fmt.Sprintf("CH %s %s %s %s %s\n  %s %s\n  %s (%s)",
			coqRules(in.Rules), coqVer(in.Src), coqVer(in.Desired), core.CoqBytes(in.Desired.String()), chain,
			coqObjs(mkObjs(1, in.NReq, in.Src)), core.CoqList(obs.Outs, coqOutcome),
			core.CoqList(obs.Trace, func(i Inv) string { return fmt.Sprintf("(%d,%s)", ruleIndex(in.Rules, i.Rule), coqObjs(i.Objs)) }),
			coqAnswer(obs.Ans))
		c.JSON = map[string]any{"obs": obs, "readable": readable(in, obs)}
		c.Key = fmt.Sprintf("H %s %s %s %d %q", coqRules(in.Rules), coqVer(in.Src), coqVer(in.Desired), in.NReq, planText(in.Plan))
		c.Nontrivial = obs.ChainFound && len(obs.Trace) > 0
		c.Tags = append(c.Tags, fmt.Sprintf("chainlen:%d", len(obs.Chain)), fmt.Sprintf("runs:%d", len(obs.Trace)))
		for k, st := range in.Plan {
			if k < len(obs.Trace) {
				c.Tags = append(c.Tags, "step:"+st.Kind)
				// a message the hook reported (exit 0) in a run that took place
				if st.message() != "" && (st.Kind == "failmsg" || st.Kind == "failmsgobjs") {
					class := st.Class
					if class == "" {
						class = "plain"
					}
					c.Tags = append(c.Tags, "msg:"+class, "msgspell:"+orStd(st.Spell))
					for _, f := range msgFeatures(st.message()) {
						c.Tags = append(c.Tags, "msghas:"+f)
					}
				}
			}
		}
		if obs.Ans != nil && obs.Ans.Success {
			c.Tags = append(c.Tags, "answer:Success")
		} else if obs.Ans != nil {
			if hm, ok := lastHookMessage(obs); ok {
				if hm == obs.Ans.Raw {
					c.Tags = append(c.Tags, "answer:Failed/hook-message-verbatim")
				} else {
					c.Tags = append(c.Tags, "answer:Failed/hook-message-ALTERED")
				}
			} else {
				c.Tags = append(c.Tags, "answer:Failed/"+obs.Ans.Msg)
			}
		}
		return c
	}
	mode := "fresh"
	if in.Shared {
		mode = "shared"
	}
	c.Tags = append(c.Tags, "storage:"+mode)
	answers := make([]string, len(obs.Answers))
	longest, found := 0, 0
	for i, a := range obs.Answers {
		if obs.Found[i] {
			answers[i] = coqChain(in.Rules, a)
			found++
			if len(a) > longest {
				longest = len(a)
			}
		} else {
			answers[i] = "[]"
		}
	}
	c.Coq = fmt.Sprintf("CS %s %s\n  %s\n  [%s]", coqRules(in.Rules), core.CoqBool(in.Shared), coqRules(in.Queries), strings.Join(answers, "; "))
	c.JSON = map[string]any{"obs": obs, "readable": readable(in, obs)}
	c.Key = fmt.Sprintf("S %s %v %s", coqRules(in.Rules), in.Shared, coqRules(in.Queries))
	c.Nontrivial = len(in.Rules) >= 2 && longest >= 2
	c.Tags = append(c.Tags, fmt.Sprintf("longest:%d", longest), fmt.Sprintf("queries:%02d", len(in.Queries)/8*8))
	if found == 0 {
		c.Tags = append(c.Tags, "nothing-found")
	}
	return c
}

func coqSettings(st *HookSettings) string {
	switch {
	case st == nil:
		return "HS0"
	case st.IntervalMs < 0: // a negative interval is no limit, like 0 (rate.Every); the notation has no sign
		return fmt.Sprintf("HS 0 %d", max(st.Burst, 0))
	case st.Burst < 0:
		return fmt.Sprintf("HSn %d %d", st.IntervalMs, -st.Burst)
	}
	return fmt.Sprintf("HS %d %d", st.IntervalMs, st.Burst)
}

func intervalClass(ms int) string {
	switch {
	case ms <= 0:
		return "none(<=0)"
	case ms < 10:
		return "001-009ms"
	case ms < 50:
		return "010-049ms"
	case ms < 500:
		return "050-499ms"
	}
	return "500ms+"
}

func renderSession(in Input, obs *Obs, c core.Case) core.Case {
	nh := hookCount(in)
	if len(obs.Reqs) != len(in.Requests) {
		c.Coq = "CCrash"
		c.JSON = map[string]any{"crash": "not every request was served", "obs": obs}
		c.Key = fmt.Sprintf("crash %v", in)
		c.Tags = append(c.Tags, "crash")
		return c
	}
	owners := make([]string, len(in.Rules))
	for j := range in.Rules {
		owners[j] = strconv.Itoa(j % nh)
	}
	hsets := make([]string, nh)
	inDomain, limited := true, 0
	for h := 0; h < nh; h++ {
		st := settingOf(in, h)
		hsets[h] = coqSettings(st)
		if !runnable(st) {
			inDomain = false
		}
		if st == nil {
			c.Tags = append(c.Tags, "hook:no-settings")
			continue
		}
		c.Tags = append(c.Tags, "hook:settings", "interval:"+intervalClass(st.IntervalMs), fmt.Sprintf("burst:%+d", st.Burst))
		if st.IntervalMs > 0 {
			limited++
		}
	}
	var qs []string
	runs, throttled, found, sameHookSteps := 0, 0, 0, 0
	keyReq := ""
	for i, q := range in.Requests {
		qo := obs.Reqs[i]
		chain := "[]"
		if qo.ChainFound {
			chain = coqChain(in.Rules, qo.Chain)
			found++
		}
		qs = append(qs, fmt.Sprintf("SQ %s %s %s %s\n   %s %s\n   %s (%s)",
			coqVer(q.Src), coqVer(q.Desired), core.CoqBytes(q.Desired.String()), chain,
			coqObjs(mkObjs(1, q.NReq, q.Src)), core.CoqList(qo.Outs, coqOutcome),
			core.CoqList(qo.Trace, func(i Inv) string { return fmt.Sprintf("(%d,%s)", ruleIndex(in.Rules, i.Rule), coqObjs(i.Objs)) }),
			coqAnswer(qo.Ans)))
		keyReq += fmt.Sprintf(" | %s %s %d %q", coqVer(q.Src), coqVer(q.Desired), q.NReq, planText(q.Plan))
		runs += len(qo.Trace)
		throttled += qo.Throttled
		// steps of this chain served by a hook that already served an earlier step of it
		seen := map[int]bool{}
		for _, r := range qo.Chain {
			h := ruleIndex(in.Rules, r) % nh
			if seen[h] {
				sameHookSteps++
			}
			seen[h] = true
		}
		c.Tags = append(c.Tags, fmt.Sprintf("chainlen:%d", len(qo.Chain)))
		for k, st := range q.Plan {
			if k < len(qo.Trace) {
				c.Tags = append(c.Tags, "step:"+st.Kind)
			}
		}
		switch {
		case qo.Ans != nil && qo.Ans.Success:
			c.Tags = append(c.Tags, "answer:Success")
		case qo.Ans != nil:
			c.Tags = append(c.Tags, "answer:Failed/"+qo.Ans.Msg)
		}
	}
	c.Coq = fmt.Sprintf("CSS %s %s [%s]\n  [%s]", coqRules(in.Rules), "["+strings.Join(owners, "; ")+"]", strings.Join(hsets, "; "), strings.Join(qs, ";\n   "))
	c.JSON = map[string]any{"obs": obs, "readable": readable(in, obs)}
	c.Key = fmt.Sprintf("Q %s %d [%s]%s", coqRules(in.Rules), nh, strings.Join(hsets, "; "), keyReq)
	c.Nontrivial = found == len(in.Requests) && runs >= 2
	c.Tags = append(c.Tags, fmt.Sprintf("requests:%d", len(in.Requests)), fmt.Sprintf("hooks:%d", nh), fmt.Sprintf("limited-hooks:%d", limited),
		fmt.Sprintf("session-runs:%02d", runs), fmt.Sprintf("steps-by-a-hook-that-already-served-the-chain:%d", sameHookSteps))
	switch {
	case throttled == 0:
		c.Tags = append(c.Tags, "throttled-runs:0")
	case throttled <= 2:
		c.Tags = append(c.Tags, fmt.Sprintf("throttled-runs:%d", throttled))
	default:
		c.Tags = append(c.Tags, "throttled-runs:3+")
	}
	if !inDomain {
		c.Tags = append(c.Tags, "settings:never-runnable(informational)")
	}
	return c
}

// ---------------------------------------------------------------- generation

type gen struct{ r *core.Rng }

// spelling of one occurrence of version s
func (g *gen) spell(s int, mode string, group int) Ver {
	switch mode {
	case "short":
		return Ver{0, s}
	case "full":
		return Ver{group, s}
	}
	if g.r.Bool() {
		return Ver{group, s}
	}
	return Ver{0, s}
}

// a graph over abstract nodes 0..n-1 as edge list
func (g *gen) shape(kind string) (n int, edges [][2]int) {
	add := func(a, b int) { edges = append(edges, [2]int{a, b}) }
	switch kind {
	case "chain":
		n = 2 + g.r.Intn(6)
		for i := 0; i+1 < n; i++ {
			add(i, i+1)
		}
		if g.r.Chance(40) { // and back
			for i := n - 1; i > 0; i-- {
				add(i, i-1)
			}
		}
	case "fork":
		k := 1 + g.r.Intn(4) // fork after k steps
		for i := 0; i < k; i++ {
			add(i, i+1)
		}
		n = k + 1
		br := 2 + g.r.Intn(2)
		for b := 0; b < br; b++ {
			prev := k
			for l := 0; l < 1+g.r.Intn(2); l++ {
				add(prev, n)
				prev = n
				n++
			}
		}
	case "diamond":
		// 0 -> {1,2} -> 3 (-> 4)
		add(0, 1)
		add(0, 2)
		add(1, 3)
		add(2, 3)
		n = 4
		if g.r.Bool() {
			add(3, 4)
			n = 5
		}
		if g.r.Chance(30) {
			add(1, 2)
		}
	case "cycle":
		k := 2 + g.r.Intn(4)
		for i := 0; i < k; i++ {
			add(i, (i+1)%k)
		}
		n = k
		if g.r.Bool() { // an exit and an entry
			add(g.r.Intn(k), n)
			n++
		}
		if g.r.Bool() {
			add(n, g.r.Intn(k))
			n++
		}
	default: // random
		n = 2 + g.r.Intn(6)
		m := 1 + g.r.Intn(2*n)
		for i := 0; i < m; i++ {
			add(g.r.Intn(n), g.r.Intn(n))
		}
	}
	return
}

var shapes = []string{"chain", "fork", "fork", "diamond", "cycle", "random", "random"}
var spells = []string{"short", "full", "mixed", "mixed"}

// names: a random injection of nodes into the short-name pool (near-miss names included)
func (g *gen) names(n int) []int {
	perm := make([]int, len(shortNames))
	for i := range perm {
		perm[i] = i
	}
	for i := len(perm) - 1; i > 0; i-- {
		j := g.r.Intn(i + 1)
		perm[i], perm[j] = perm[j], perm[i]
	}
	for len(perm) < n {
		perm = append(perm, 100+len(perm))
	}
	return perm[:n]
}

func (g *gen) graph(shape, spell string, twoGroups bool) (rules []Rule, nodes []int) {
	n, edges := g.shape(shape)
	nodes = g.names(n)
	for _, e := range edges {
		grp := 1
		if twoGroups && g.r.Chance(30) {
			grp = 2
		}
		rules = append(rules, Rule{g.spell(nodes[e[0]], spell, grp), g.spell(nodes[e[1]], spell, grp)})
	}
	// declaration order is irrelevant to a map: shuffle
	for i := len(rules) - 1; i > 0; i-- {
		j := g.r.Intn(i + 1)
		rules[i], rules[j] = rules[j], rules[i]
	}
	return
}

func (g *gen) allPairs(nodes []int, spell string, twoGroups bool) []Rule {
	var qs []Rule
	vs := append([]int{}, nodes...)
	if g.r.Chance(50) {
		vs = append(vs, 11) // a version no rule mentions ("v7")
	}
	for _, a := range vs {
		for _, b := range vs {
			qm := spell
			if g.r.Chance(30) {
				qm = "mixed"
			}
			grp := 1
			if twoGroups && g.r.Chance(30) {
				grp = 2
			}
			qs = append(qs, Rule{g.spell(a, qm, grp), g.spell(b, qm, grp)})
		}
	}
	for i := len(qs) - 1; i > 0; i-- {
		j := g.r.Intn(i + 1)
		qs[i], qs[j] = qs[j], qs[i]
	}
	return qs
}

func dedupe(rules []Rule) []Rule {
	seen := map[Rule]bool{}
	var out []Rule
	for _, r := range rules {
		if !seen[r] {
			seen[r] = true
			out = append(out, r)
		}
	}
	return out
}

var faultKinds = []string{"exit1", "exit1resp", "badjson", "empty", "failmsg", "failmsgobjs", "fewer", "more", "wrongver", "mixedver", "jump", "noobjs"}

// faults around the failedMessage field (weights by repetition)
var msgKinds = []string{"failmsg", "failmsg", "failmsg", "failmsgobjs", "failmsgobjs", "exit1msg", "emptymsg", "nullmsg", "msgnotstring"}
var msgSpells = []string{"std", "raw", "uall", "mixed"}

// Message classes.  A failedMessage is free text for a human: it may contain anything.  Each
// class lists fragments; a message is one fragment or a few of them joined.
var msgClasses = []struct {
	name  string
	frags []string
}{
	{"plain", []string{"spec.cron is not a valid crontab", "conversion of o1 failed", "cannot convert", "x", "object o1: unknown field spec.schedule"}},
	{"percent", []string{"disk is 93% full", "cpu 7%, mem 12%", "rate %d/s on %s", "a%20b%3Fc", "%", "100%", "%%", "%v", "%d", "%s",
		"%!d(MISSING)", "%[1]d", "%+v %#v %T", "%!(NOVERB)", "%w", "% d", "%.2f", "%*d", "%q", "%x%X%o%b%c%U%e%g%p%t", "%%%", "50 %", "%!", "%(", "%-5s|", "%[2]*[1]d", "%\n", "%é"}},
	{"quote", []string{`he said "no"`, `it's`, `back\slash`, "`tick`", `"`, `\`, `\"`, `\\n`, `\u0041`, `'%s'`, `{"failedMessage":"inner"}`}},
	{"newline", []string{"line1\nline2", "tab\there", "cr\r\nlf", "ends with newline\n", "\n", "\nstarts with newline", "bell\a nul\x00 esc\x1b del\x7f us\x1f"}},
	{"unicode", []string{"преобразование не удалось", "変換に失敗しました", "emoji \U0001F6AB no", "é", "nbsp\u00a0here", "ls\u2028ps\u2029", "\ufeffbom", "replacement \ufffd char", "astral \U00010348\U0010FFFF", "ﬁ ligature İ ı ß"}},
	{"space", []string{" leading space", "trailing space ", "  both  ", " ", "\t", "two  spaces", " \n "}},
	{"html", []string{"<b>&amp;</b>", "a < b && c > d", "<script>alert(1)</script>", "&", "<", ">"}},
	{"long", []string{strings.Repeat("0123456789 ", 14), strings.Repeat("abc%def ", 25), strings.Repeat("всё ", 40), strings.Repeat("100% ", 60),
		"error: " + strings.Repeat("x", 120) + " (at 100%)"}},
	{"lookalike", []string{"hook task prop error", "Hook failed to convert to v1", "hook returned 1 objects instead of 2", "Conversion to v1 was not successuful",
		"Success", "Failure", "hookmsg-3", "null", "0", "false", "true", "{}", "[]", "<nil>", "%!s(<nil>)", "EOF", "error: "}},
}

func (g *gen) message() (text, class string) {
	if g.r.Chance(6) { // long
		var b strings.Builder
		unit := []string{"0123456789 ", "abc%def ", "всё ", "100% "}[g.r.Intn(4)]
		for b.Len() < 150+g.r.Intn(150) {
			b.WriteString(unit)
		}
		return b.String(), "long"
	}
	c := msgClasses[g.r.Intn(len(msgClasses))]
	if c.name == "plain" && g.r.Chance(50) { // plain text is what everybody tests; keep its share low
		c = msgClasses[1]
	}
	text = c.frags[g.r.Intn(len(c.frags))]
	// sometimes embed in, or join with, other fragments (of any class)
	for n := 0; n < 3 && g.r.Chance(40); n++ {
		o := msgClasses[g.r.Intn(len(msgClasses))]
		f := o.frags[g.r.Intn(len(o.frags))]
		sep := []string{" ", "", ": ", "\n"}[g.r.Intn(4)]
		if g.r.Bool() {
			text = text + sep + f
		} else {
			text = f + sep + text
		}
	}
	return text, c.name
}

// what a message contains (tags)
func msgFeatures(m string) []string {
	var f []string
	add := func(ok bool, name string) {
		if ok {
			f = append(f, name)
		}
	}
	add(strings.Contains(m, "%"), "percent")
	add(strings.HasSuffix(m, "%"), "trailing-percent")
	add(strings.ContainsAny(m, "\"'`"), "quote")
	add(strings.Contains(m, `\`), "backslash")
	add(strings.ContainsAny(m, "\n\r"), "newline")
	ctl, nonascii := false, false
	for _, r := range m {
		if r < 0x20 && r != '\n' && r != '\r' || r == 0x7f {
			ctl = true
		}
		if r >= 0x80 {
			nonascii = true
		}
	}
	add(ctl, "control")
	add(nonascii, "non-ascii")
	add(strings.ContainsAny(m, "<>&"), "html")
	add(m != strings.TrimSpace(m), "outer-space")
	add(len(m) > 100, "over-100-bytes")
	add(looksLike(m) != "other", "reads-like-operator-text")
	return f
}

func (g *gen) msgStep() Step {
	text, class := g.message()
	return Step{Kind: msgKinds[g.r.Intn(len(msgKinds))], Text: text, Class: class, Spell: msgSpells[g.r.Intn(len(msgSpells))]}
}

// a fault for the plan: half of them concern the failedMessage
func (g *gen) fault() Step {
	if g.r.Chance(50) {
		return g.msgStep()
	}
	st := Step{Kind: faultKinds[g.r.Intn(len(faultKinds))]}
	if strings.Contains(st.Kind, "msg") {
		st.Text, st.Class = g.message()
		st.Spell = msgSpells[g.r.Intn(len(msgSpells))]
	}
	return st
}

func (g *gen) handlerCase() Input {
	shape := shapes[g.r.Intn(len(shapes))]
	spell := []string{"short", "full"}[g.r.Intn(2)] // uniform spelling of the rules: the chain is then a function of the cache
	rules, nodes := g.graph(shape, spell, false)
	rules = dedupe(rules)
	in := Input{Kind: "handler", Shape: shape, Spell: spell, Rules: rules, NReq: 1 + g.r.Intn(3), NHooks: 1 + g.r.Intn(3)}
	if g.r.Chance(3) {
		in.NReq = 0
	}
	// mostly ask for something reachable (the generator's own breadth-first distances are used
	// only to place the request and the faults, never to judge)
	a := nodes[g.r.Intn(len(nodes))]
	if g.r.Chance(60) {
		a = nodes[0]
	}
	dist := map[int]int{a: 0}
	for changed := true; changed; {
		changed = false
		for _, r := range rules {
			if d, ok := dist[r.From.S]; ok {
				if _, seen := dist[r.To.S]; !seen {
					dist[r.To.S] = d + 1
					changed = true
				}
			}
		}
	}
	var reach []int
	for _, n := range nodes {
		if n != a && dist[n] > 0 {
			reach = append(reach, n)
		}
	}
	b := nodes[g.r.Intn(len(nodes))]
	if len(reach) > 0 && g.r.Chance(88) {
		b = reach[g.r.Intn(len(reach))]
		for try := 0; try < 2; try++ { // prefer far targets
			if c := reach[g.r.Intn(len(reach))]; dist[c] > dist[b] {
				b = c
			}
		}
	}
	in.Src, in.Desired = g.spell(a, "mixed", 1), g.spell(b, "mixed", 1)
	steps := dist[b]
	if steps < 1 {
		steps = 1
	}
	// plan: ok everywhere, with one fault (65%) at a position the chain probably reaches,
	// sometimes a second one anywhere
	for k := 0; k < 8; k++ {
		in.Plan = append(in.Plan, Step{Kind: "ok"})
	}
	if g.r.Chance(65) {
		pos := g.r.Intn(steps)
		in.Plan[pos] = g.fault()
		if g.r.Chance(25) {
			p2 := g.r.Intn(steps + 1)
			in.Plan[p2] = g.fault()
		}
	}
	return in
}

// ---- sessions: hooks with `settings`, several requests back to back
//
// Timing.  Neither the model nor the comparison knows about time: a rate-limited hook is delayed,
// its runs and the answer are those of a hook without settings.  Time matters only for what a case
// EXERCISES: a run is throttled when it follows the previous run of the same hook (beyond the burst)
// within executionMinInterval.  One stub execution takes a few milliseconds, so intervals of 20 ms and
// more are practically always hit by the next step of a chain or the next request; 5-10 ms intervals
// are hit sometimes (tag throttled-runs:<n>, estimated from the stubs' own timestamps).  A case lasts
// about as long as the waits its settings impose: the generator keeps that under waitBudgetMs.
const waitBudgetMs = 320

var sessionIntervals = []int{5, 10, 20, 20, 30, 40, 40, 60}

// expected waiting of a session if every run beyond the burst waits a full interval (upper estimate)
func expectedWaitMs(in Input, chainHooks [][]int) int {
	nh := hookCount(in)
	runs := make([]int, nh)
	for _, hs := range chainHooks {
		for _, h := range hs {
			runs[h]++
		}
	}
	total := 0
	for h := 0; h < nh; h++ {
		st := settingOf(in, h)
		if st == nil || st.IntervalMs <= 0 || st.Burst < 0 {
			continue
		}
		b := st.Burst
		if b == 0 {
			b = 1
		}
		if runs[h] > b {
			total += (runs[h] - b) * st.IntervalMs
		}
	}
	return total
}

func (g *gen) sessionCase(neverRunnable bool) Input {
	spell := []string{"short", "full"}[g.r.Intn(2)]
	// a line of 1-3 steps (the usual layout: v1 -> v2 -> v3 ...), sometimes with the way back or a side branch
	steps := 1 + g.r.Intn(3)
	if g.r.Chance(35) {
		steps = 2
	}
	shape := fmt.Sprintf("line%d", steps)
	nodes := g.names(steps + 2)
	var rules []Rule
	for i := 0; i < steps; i++ {
		rules = append(rules, Rule{g.spell(nodes[i], spell, 1), g.spell(nodes[i+1], spell, 1)})
	}
	back := false
	switch {
	case g.r.Chance(25):
		back = true
		shape += "+back"
		for i := steps; i > 0; i-- {
			rules = append(rules, Rule{g.spell(nodes[i], spell, 1), g.spell(nodes[i-1], spell, 1)})
		}
	case g.r.Chance(20):
		shape += "+branch"
		rules = append(rules, Rule{g.spell(nodes[g.r.Intn(steps)], spell, 1), g.spell(nodes[steps+1], spell, 1)})
	}
	in := Input{Kind: "session", Shape: shape, Spell: spell, Rules: rules}
	// hooks: one hook per CRD is the usual layout; with two hooks over three steps hook 0 serves steps 1 and 3
	switch x := g.r.Intn(100); {
	case x < 55:
		in.NHooks = 1
	case x < 90:
		in.NHooks = 2
	default:
		in.NHooks = 3
	}
	in.Settings = make([]*HookSettings, in.NHooks)
	for h := range in.Settings {
		if h > 0 && g.r.Chance(30) {
			continue // no settings block
		}
		st := &HookSettings{IntervalMs: sessionIntervals[g.r.Intn(len(sessionIntervals))], Burst: 1}
		switch x := g.r.Intn(100); {
		case x < 20:
			st.Burst = 0 // the default
		case x < 65:
			st.Burst = 1
		case x < 88:
			st.Burst = 2
		default:
			st.Burst = 3
		}
		switch x := g.r.Intn(100); {
		case x < 5:
			st.IntervalMs = 0 // settings without a limit
		case x < 8:
			st.IntervalMs = -20
		}
		in.Settings[h] = st
	}
	if neverRunnable {
		in.Settings[g.r.Intn(in.NHooks)] = &HookSettings{IntervalMs: sessionIntervals[g.r.Intn(len(sessionIntervals))], Burst: -1 - g.r.Intn(3)}
	}
	// requests: the whole line mostly, a part of it or the way back otherwise
	nq := 1 + g.r.Intn(3)
	var chainHooks [][]int
	for i := 0; i < nq; i++ {
		a, b := 0, steps
		if g.r.Chance(30) {
			a = g.r.Intn(steps)
			b = a + 1 + g.r.Intn(steps-a)
		}
		var hs []int
		for k := a; k < b; k++ {
			hs = append(hs, k%in.NHooks)
		}
		if back && g.r.Chance(30) {
			a, b = b, a
			hs = nil
			for k := a; k > b; k-- {
				hs = append(hs, (steps+(steps-k))%in.NHooks)
			}
		}
		q := Req{Src: g.spell(nodes[a], "mixed", 1), Desired: g.spell(nodes[b], "mixed", 1), NReq: 1 + g.r.Intn(2), Plan: oks(4)}
		if g.r.Chance(30) {
			q.Plan[g.r.Intn(len(hs))] = g.fault()
		}
		in.Requests = append(in.Requests, q)
		chainHooks = append(chainHooks, hs)
	}
	for len(in.Requests) > 1 && expectedWaitMs(in, chainHooks) > waitBudgetMs {
		in.Requests = in.Requests[:len(in.Requests)-1]
		chainHooks = chainHooks[:len(chainHooks)-1]
	}
	for expectedWaitMs(in, chainHooks) > waitBudgetMs {
		for _, st := range in.Settings {
			if st != nil && st.IntervalMs > 5 {
				st.IntervalMs /= 2
			}
		}
	}
	return in
}

// the documented style: one hook for the CRD, executionMinInterval in SECONDS, two steps: one long wait
func (g *gen) slowSessionCase() Input {
	nodes := g.names(3)
	return Input{Kind: "session", Shape: "line2", Spell: "short", NHooks: 1,
		Rules:    []Rule{rl(nodes[0], nodes[1]), rl(nodes[1], nodes[2])},
		Settings: []*HookSettings{{IntervalMs: 1000 + 250*g.r.Intn(5), Burst: 1}},
		Requests: []Req{{Src: g.spell(nodes[0], "mixed", 1), Desired: g.spell(nodes[2], "mixed", 1), NReq: 1 + g.r.Intn(2), Plan: oks(4)}}}
}

func v(s int) Ver      { return Ver{0, s} }
func rl(a, b int) Rule { return Rule{v(a), v(b)} }
func oks(n int) []Step {
	var p []Step
	for i := 0; i < n; i++ {
		p = append(p, Step{Kind: "ok"})
	}
	return p
}

// Corpus: witnesses of the repaired defects F4a-F4d and past failures; runs first.
func Corpus() []Input {
	return append(append(append(corpusBase(), corpusParams()...), corpusEnc()...), corpusMulti()...)
}

func corpusBase() []Input {
	lin := []Rule{rl(0, 3), rl(3, 5), rl(5, 8)} // v1 -> v2 -> v3 -> v4
	with := func(p []Step, k int, st Step) []Step {
		q := append([]Step{}, p...)
		q[k] = st
		return q
	}
	return []Input{
		// F4a: fork after three steps; on one shared storage the two continuations of the cached
		// 3-step path shared a backing array, so one of the two answers ended in the other's rule
		{Kind: "search", Shape: "corpus-F4a", Spell: "short", Shared: true,
			Rules:   []Rule{rl(0, 3), rl(3, 5), rl(5, 8), rl(8, 9), rl(8, 10), rl(8, 11)},
			Queries: []Rule{rl(0, 9), rl(0, 10), rl(0, 11)}},
		{Kind: "search", Shape: "corpus-F4a", Spell: "short", Shared: false,
			Rules:   []Rule{rl(0, 3), rl(3, 5), rl(5, 8), rl(8, 9), rl(8, 10), rl(8, 11)},
			Queries: []Rule{rl(0, 9), rl(0, 10), rl(0, 11), rl(0, 9), rl(0, 10), rl(0, 11)}},
		// F4b: "v1" is a substring of "v10": v2->v1 was continued by v10->v3
		{Kind: "search", Shape: "corpus-F4b", Spell: "short", Shared: false,
			Rules: []Rule{rl(3, 0), rl(1, 5)}, Queries: []Rule{rl(3, 5)}},
		{Kind: "search", Shape: "corpus-F4b", Spell: "mixed", Shared: true,
			Rules:   []Rule{{Ver{1, 3}, v(0)}, {Ver{1, 2}, Ver{1, 5}}, {v(4), v(8)}},
			Queries: []Rule{{v(3), Ver{1, 5}}, {v(3), v(8)}, {Ver{1, 3}, v(0)}}},
		// F4c: the second hook answers failedMessage (with / without objects): the chain must stop
		// there and the message must be the answer's
		{Kind: "handler", Shape: "corpus-F4c", Spell: "short", Rules: lin, Src: v(0), Desired: v(8), NReq: 2, NHooks: 2,
			Plan: with(oks(4), 1, Step{Kind: "failmsg", Msg: 3})},
		{Kind: "handler", Shape: "corpus-F4c", Spell: "short", Rules: lin, Src: v(0), Desired: Ver{1, 8}, NReq: 2, NHooks: 1,
			Plan: with(oks(4), 2, Step{Kind: "failmsgobjs", Msg: 4})},
		// F4d: the last hook returns fewer (more) objects than requested
		{Kind: "handler", Shape: "corpus-F4d", Spell: "short", Rules: lin, Src: v(0), Desired: v(8), NReq: 2, NHooks: 3,
			Plan: with(oks(4), 2, Step{Kind: "fewer"})},
		{Kind: "handler", Shape: "corpus-F4d", Spell: "short", Rules: lin[:1], Src: Ver{1, 0}, Desired: Ver{1, 3}, NReq: 1, NHooks: 1,
			Plan: with(oks(4), 0, Step{Kind: "more"})},
		// plain success over three hooks, early stop, unreachable target, hook crash
		{Kind: "handler", Shape: "corpus", Spell: "short", Rules: lin, Src: v(0), Desired: v(8), NReq: 3, NHooks: 2, Plan: oks(4)},
		{Kind: "handler", Shape: "corpus", Spell: "short", Rules: lin, Src: v(0), Desired: v(8), NReq: 1, NHooks: 2,
			Plan: with(oks(4), 0, Step{Kind: "jump"})},
		{Kind: "handler", Shape: "corpus", Spell: "short", Rules: lin, Src: v(8), Desired: v(0), NReq: 1, NHooks: 1, Plan: oks(4)},
		{Kind: "handler", Shape: "corpus", Spell: "short", Rules: lin, Src: v(0), Desired: v(8), NReq: 1, NHooks: 1,
			Plan: with(oks(4), 1, Step{Kind: "exit1"})},
		// the failing hook's own message is free text: whatever it contains, it is the answer's message.
		// Texts a formatter, a trimmer, a quoter or a classifier would rewrite; on the first, second, last step
		{Kind: "handler", Shape: "corpus-msg", Spell: "short", Rules: lin[:1], Src: v(0), Desired: v(3), NReq: 1, NHooks: 1,
			Plan: with(oks(4), 0, Step{Kind: "failmsg", Class: "percent", Text: "volume is 93% full"})},
		{Kind: "handler", Shape: "corpus-msg", Spell: "short", Rules: lin, Src: v(0), Desired: v(8), NReq: 2, NHooks: 2,
			Plan: with(oks(4), 1, Step{Kind: "failmsgobjs", Class: "percent", Spell: "raw", Text: "bad name pattern 'cron-%d-%s' in ns%2Fname: %v %% 100%"})},
		{Kind: "handler", Shape: "corpus-msg", Spell: "short", Rules: lin, Src: v(0), Desired: Ver{1, 8}, NReq: 1, NHooks: 3,
			Plan: with(oks(4), 2, Step{Kind: "failmsg", Class: "quote", Spell: "mixed", Text: "he said \"no\",\n\tit's a back\\slash; не удалось \U0001F6AB <b>&</b>"})},
		{Kind: "handler", Shape: "corpus-msg", Spell: "short", Rules: lin[:2], Src: v(0), Desired: v(5), NReq: 1, NHooks: 1,
			Plan: with(oks(4), 1, Step{Kind: "failmsg", Class: "space", Spell: "uall", Text: "  two leading spaces, one trailing newline\n"})},
		{Kind: "handler", Shape: "corpus-msg", Spell: "short", Rules: lin[:1], Src: v(0), Desired: v(3), NReq: 1, NHooks: 1,
			Plan: with(oks(4), 0, Step{Kind: "failmsg", Class: "space", Text: " "})},
		{Kind: "handler", Shape: "corpus-msg", Spell: "short", Rules: lin[:1], Src: v(0), Desired: v(3), NReq: 2, NHooks: 1,
			Plan: with(oks(4), 0, Step{Kind: "failmsg", Class: "lookalike", Text: "hook returned 1 objects instead of 2"})},
		{Kind: "handler", Shape: "corpus-msg", Spell: "short", Rules: lin[:1], Src: v(0), Desired: v(3), NReq: 1, NHooks: 1,
			Plan: with(oks(4), 0, Step{Kind: "failmsg", Class: "lookalike", Text: "hook task prop error"})},
		// no message after all: "" and null; a message that is not a string; a message of a hook that exits 1
		{Kind: "handler", Shape: "corpus-msg", Spell: "short", Rules: lin[:2], Src: v(0), Desired: v(5), NReq: 1, NHooks: 1,
			Plan: with(with(oks(4), 0, Step{Kind: "emptymsg"}), 1, Step{Kind: "nullmsg"})},
		{Kind: "handler", Shape: "corpus-msg", Spell: "short", Rules: lin[:1], Src: v(0), Desired: v(3), NReq: 1, NHooks: 1,
			Plan: with(oks(4), 0, Step{Kind: "msgnotstring"})},
		{Kind: "handler", Shape: "corpus-msg", Spell: "short", Rules: lin[:1], Src: v(0), Desired: Ver{1, 3}, NReq: 1, NHooks: 1,
			Plan: with(oks(4), 0, Step{Kind: "exit1msg", Class: "percent", Text: "100% broken"})},
		// hooks with execution-rate settings are delayed, never skipped.
		// one hook for the CRD serves both steps of v1 -> v2 -> v3 (the second step follows within the interval)
		{Kind: "session", Shape: "corpus-settings", Spell: "short", Rules: lin[:2], NHooks: 1,
			Settings: []*HookSettings{{IntervalMs: 40, Burst: 1}},
			Requests: []Req{{Src: v(0), Desired: v(5), NReq: 2, Plan: oks(4)}}},
		// a single step, three requests back to back
		{Kind: "session", Shape: "corpus-settings", Spell: "short", Rules: lin[:1], NHooks: 1,
			Settings: []*HookSettings{{IntervalMs: 30, Burst: 1}},
			Requests: []Req{{Src: v(0), Desired: v(3), NReq: 1, Plan: oks(4)}, {Src: v(0), Desired: Ver{1, 3}, NReq: 2, Plan: oks(4)},
				{Src: Ver{1, 0}, Desired: v(3), NReq: 1, Plan: oks(4)}}},
		// two hooks alternate over three steps (hook 0: steps 1 and 3), burst 2 / the default burst; two requests
		{Kind: "session", Shape: "corpus-settings", Spell: "short", Rules: lin, NHooks: 2,
			Settings: []*HookSettings{{IntervalMs: 20, Burst: 2}, {IntervalMs: 20, Burst: 0}},
			Requests: []Req{{Src: v(0), Desired: v(8), NReq: 1, Plan: oks(4)}, {Src: v(0), Desired: v(8), NReq: 2, Plan: oks(4)}}},
		// a throttled step that then fails with its own message: still the failing hook's message, still no later step
		{Kind: "session", Shape: "corpus-settings", Spell: "short", Rules: lin, NHooks: 1,
			Settings: []*HookSettings{{IntervalMs: 25, Burst: 1}},
			Requests: []Req{{Src: v(0), Desired: v(8), NReq: 1, Plan: with(oks(4), 1, Step{Kind: "failmsg", Class: "percent", Text: "throttled but 100% sure: %d"})},
				{Src: v(0), Desired: v(8), NReq: 1, Plan: oks(4)}}},
		// the documented style, an interval in seconds
		{Kind: "session", Shape: "corpus-settings", Spell: "short", Rules: lin[:2], NHooks: 1,
			Settings: []*HookSettings{{IntervalMs: 1000, Burst: 1}},
			Requests: []Req{{Src: Ver{1, 0}, Desired: Ver{1, 5}, NReq: 1, Plan: oks(4)}}},
		// settings without a limit (interval 0), and a hook without settings next to a limited one
		{Kind: "session", Shape: "corpus-settings", Spell: "short", Rules: lin[:2], NHooks: 2,
			Settings: []*HookSettings{{IntervalMs: 0, Burst: 1}, nil},
			Requests: []Req{{Src: v(0), Desired: v(5), NReq: 1, Plan: oks(4)}, {Src: v(0), Desired: v(5), NReq: 1, Plan: oks(4)}}},
		// outside the domain (informational): a negative burst with a positive interval allows no execution at all
		{Kind: "session", Shape: "corpus-never-runnable", Spell: "short", Rules: lin[:2], NHooks: 1,
			Settings: []*HookSettings{{IntervalMs: 40, Burst: -1}},
			Requests: []Req{{Src: v(0), Desired: v(5), NReq: 1, Plan: oks(4)}}},
	}
}

// one message step on a short linear chain v1 -> v2 -> v3: the stream that exercises the
// message classes systematically (every class in every JSON spelling)
func (g *gen) messageCase(class int, spell string) Input {
	lin := []Rule{rl(0, 3), rl(3, 5), rl(5, 8)}
	n := 1 + g.r.Intn(3)
	c := msgClasses[class]
	text := c.frags[g.r.Intn(len(c.frags))]
	if g.r.Chance(35) {
		o := msgClasses[g.r.Intn(len(msgClasses))]
		text += []string{" ", "", ": "}[g.r.Intn(3)] + o.frags[g.r.Intn(len(o.frags))]
	}
	kind := "failmsg"
	if g.r.Chance(30) {
		kind = "failmsgobjs"
	}
	in := Input{Kind: "handler", Shape: "messages", Spell: "short", Rules: lin[:n], Src: v(0), Desired: g.spell(lin[n-1].To.S, "mixed", 1),
		NReq: 1 + g.r.Intn(2), NHooks: 1 + g.r.Intn(2), Plan: oks(4)}
	in.Plan[g.r.Intn(n)] = Step{Kind: kind, Text: text, Class: c.name, Spell: spell}
	return in
}

// all rule sets with at most maxRules rules over nv versions (self-rules included)
func exhaustiveGraphs(nv, maxRules int) [][]Rule {
	var all []Rule
	for a := 0; a < nv; a++ {
		for b := 0; b < nv; b++ {
			all = append(all, rl(a, b))
		}
	}
	var out [][]Rule
	var rec func(start int, cur []Rule)
	rec = func(start int, cur []Rule) {
		if len(cur) > 0 {
			out = append(out, append([]Rule{}, cur...))
		}
		if len(cur) == maxRules {
			return
		}
		for i := start; i < len(all); i++ {
			rec(i+1, append(cur, all[i]))
		}
	}
	rec(0, nil)
	return out
}

func Gen(r *core.Rng, tier string) ([]core.In[Input], bool) {
	var ins []core.In[Input]
	add := func(in Input, stream string) { ins = append(ins, core.In[Input]{Input: in, Stream: stream}) }
	for _, c := range Corpus() {
		add(c, "corpus")
	}
	g := &gen{r: r}
	nGraphs, nHandler, nMsgRounds := 200, 160, 2
	nSession, nSlow := 96, 2
	nParams, nParamVariants := 60, 1
	switch tier {
	case "thorough":
		nGraphs, nHandler, nMsgRounds = 10000, 1500, 40
		nSession, nSlow = 1200, 12
		nParams, nParamVariants = 1500, 4
	case "search":
		nGraphs, nHandler, nMsgRounds = 1500, 300, 6
		nSession, nSlow = 240, 2
		nParams, nParamVariants = 300, 2
	}
	for i := 0; i < nGraphs; i++ {
		shape := shapes[g.r.Intn(len(shapes))]
		spell := spells[g.r.Intn(len(spells))]
		two := i%20 == 19 // informational stream: two groups on one CRD (outside the statement's domain)
		rules, nodes := g.graph(shape, spell, two)
		qs := g.allPairs(nodes, spell, two)
		stream := "random"
		if two {
			stream = "two-groups(informational)"
		}
		add(Input{Kind: "search", Shape: shape, Spell: spell, Rules: rules, Queries: qs, Shared: false}, stream)
		add(Input{Kind: "search", Shape: shape, Spell: spell, Rules: rules, Queries: qs, Shared: true}, stream)
	}
	for i := 0; i < nHandler; i++ {
		add(g.handlerCase(), "handler")
	}
	for round := 0; round < nMsgRounds; round++ {
		for c := range msgClasses {
			for _, sp := range msgSpells {
				add(g.messageCase(c, sp), "messages")
			}
		}
	}
	// sessions (hooks with settings, requests back to back).  They are generated last (the other streams
	// keep their inputs) and spread evenly over the list: the driver gives every worker a contiguous
	// slice, and a session lasts as long as its waits.
	var sess []core.In[Input]
	for i := 0; i < nSession; i++ {
		if i%24 == 23 {
			sess = append(sess, core.In[Input]{Input: g.sessionCase(true), Stream: "session-never-runnable(informational)"})
		} else {
			sess = append(sess, core.In[Input]{Input: g.sessionCase(false), Stream: "session"})
		}
	}
	for i := 0; i < nSlow; i++ {
		sess = append(sess, core.In[Input]{Input: g.slowSessionCase(), Stream: "session"})
	}
	{
		nc := len(Corpus())
		rest := ins[nc:]
		mixed := append([]core.In[Input]{}, ins[:nc]...)
		every := len(rest)/len(sess) + 1
		k := 0
		for i, x := range rest {
			if i%every == 0 && k < len(sess) {
				mixed = append(mixed, sess[k])
				k++
			}
			mixed = append(mixed, x)
		}
		mixed = append(mixed, sess[k:]...)
		ins = mixed
	}
	if tier == "thorough" || tier == "search" {
		nv, mr := 4, 5
		if tier == "search" {
			nv, mr = 3, 4
		}
		// versions 0..3 are v1, v10, v1beta1, v2: every rule set, every (from,to) pair
		var pairs []Rule
		for a := 0; a < nv; a++ {
			for b := 0; b < nv; b++ {
				pairs = append(pairs, rl(a, b))
			}
		}
		for _, rules := range exhaustiveGraphs(nv, mr) {
			add(Input{Kind: "search", Shape: "exhaustive", Spell: "short", Rules: rules, Queries: pairs, Shared: false}, "exhaustive")
			add(Input{Kind: "search", Shape: "exhaustive", Spell: "short", Rules: rules, Queries: pairs, Shared: true}, "exhaustive")
			// the same graph with group spellings sprinkled over rules and queries
			mrules := make([]Rule, len(rules))
			for i, x := range rules {
				mrules[i] = Rule{g.spell(x.From.S, "mixed", 1), g.spell(x.To.S, "mixed", 1)}
			}
			mq := make([]Rule, len(pairs))
			for i, x := range pairs {
				mq[i] = Rule{g.spell(x.From.S, "mixed", 1), g.spell(x.To.S, "mixed", 1)}
			}
			add(Input{Kind: "search", Shape: "exhaustive", Spell: "mixed", Rules: mrules, Queries: mq, Shared: g.r.Bool()}, "exhaustive-respelled")
		}
	}
	// binding parameters: every way of giving group / includeSnapshotsFrom to the bindings along a line of 1-4
	// steps, then random graphs with random parameters.  Generated last: the other streams keep their inputs.
	g.positionsStream(func(in Input) { add(in, "params-positions") }, nParamVariants)
	for i := 0; i < nParams; i++ {
		add(g.paramsCase(), "params")
	}
	// hook outputs as encoded (enc.go).  Generated last: the other streams keep their inputs.
	g.encPositions(func(in Input) { add(in, "enc-positions") }, tier)
	nEnc := 60
	if tier == "thorough" {
		nEnc = 3000
	} else if tier == "search" {
		nEnc = 400
	}
	for i := 0; i < nEnc; i++ {
		add(g.encCase(), "enc")
	}
	// several CRDs served by one operator (multi.go).  Generated last: the other streams keep their inputs.
	g.msearchSystematic(func(in Input) { add(in, "msearch-systematic") })
	nMSearch, nMulti := 150, 48
	if tier == "thorough" {
		nMSearch, nMulti = 6000, 900
	} else if tier == "search" {
		nMSearch, nMulti = 800, 160
	}
	for i := 0; i < nMSearch; i++ {
		add(g.msearchCase(), "msearch")
	}
	for i := 0; i < nMulti; i++ {
		add(g.multiCase(), "multi")
	}
	return ins, false
}

var Driver = core.Driver[Input, Obs]{
	Spec: core.Spec{Property: "C15", Imports: []string{"C15_Model", "C15_Spec", "C15_EncModel", "C15_Corr"}, Corr: "C15_Corr", Triggers: nil, ShrinkKey: "rules",
		Rule: "search cases: a generated rule graph (chains, forks after k steps, diamonds, cycles, random; near-miss names v1/v10/v1beta1/v1alpha1/v2/v2beta1/v20; spelt short, with group, or mixed) and all (from,to) pairs queried through the real ChainStorage.FindConversionChain on a fresh storage per query and on a shared one; every returned chain is judged by Coq (valid_chain), every nil by reachable, found/not-found is compared with the model. handler cases: real hooks (bash stubs) + real hook.Manager + real conversionEventHandler + real conversion.WebhookHandler router, one ConversionReview, scripted outcome per hook run (ok, exit 1, bad JSON, empty, failedMessage with/without objects, failedMessage \"\"/null/not a string, failedMessage of a hook that exits 1, fewer/more objects, wrong/mixed versions, early jump, no objects); hook runs (registrar, rule, objects received) and the answer compared with the model: result.status, the converted objects, and result.message BYTE FOR BYTE (no text is classified by the harness; the model C15_Model.serve produces the text of every message, the Spec demands that a failing hook's failedMessage is the answer's message). failedMessage texts are free text by class (tags msg:<class>, msghas:<feature>, msgspell:<JSON spelling in the response file: std|raw|uall|mixed>): plain, percent (%d %s %v %w %% %[1]d, trailing %, %2F ...), quote (quotes, backslashes, text that reads like an escape), newline (newlines, tabs, control bytes incl. NUL), unicode (Cyrillic, CJK, astral, U+2028, BOM, U+FFFD), space (leading/trailing blanks, a lone blank), html (< > &), lookalike (texts that read like the operator's own messages, null, {}), long (150-300 bytes). Streams: corpus (witnesses of F4a-F4d, message witnesses, sessions with settings), random, two-groups (informational, outside the domain), handler (half of the faults concern the failedMessage), messages (every message class in every JSON spelling on a 1-3 step chain), exhaustive (thorough: every rule set of <=5 rules over the 4 versions v1,v10,v1beta1,v2 incl. self-rules, all 16 pairs, fresh and shared, plus one re-spelling). session cases (kind:session): the same real stack, but hooks with `settings` (executionMinInterval 5-60 ms, a few of 1-2 s; executionBurst default/1/2/3; also interval 0 / negative = no limit, and hooks without settings beside limited ones), rules on a line of 1-3 steps (+ way back / side branch) registered by 1-3 hooks so that one hook serves several steps of a chain, and 1-3 ConversionReviews posted back to back to ONE operator (shared limiters and chain cache); per request the chain, the hook runs and the answer are compared with C15_Model.serve_session (every step through the hook-run task and RateLimitWait) and judged by P_search / P_handler: a rate-limited hook is delayed, never skipped. No clock reading enters the comparison (C15_session_state_irrelevant), so there is no timing tolerance; timing only decides what a case exercises: tag throttled-runs:<n> = hook runs that found their bucket empty (estimated from the stubs' timestamps), steps-by-a-hook-that-already-served-the-chain:<n>, interval:<class>, burst:<b>. A case lasts as long as its waits (generator budget 320 ms, slow cases 1-2 s); sessions are spread evenly over the workers. Informational stream session-never-runnable: a negative burst with a positive interval allows no execution of the hook at all (outside C15_Spec.settings_in_domain: compared with the model, not judged by P_handler). params cases (kind:params): the same real stack, one ConversionReview, but the conversion bindings carry the further documented binding parameters - `group` (a group that names nothing, or one that has `kubernetes` / `schedule` bindings of the hook as members) and `includeSnapshotsFrom` - and the hooks have `kubernetes` / `schedule` bindings beside them (which never fire: no cluster, a crontab for 30 February); observed per hook execution: WHICH hook ran and WHAT IT READ in $BINDING_CONTEXT_PATH field by field (binding, type, keys of snapshots, groupName, fromVersion, toVersion, review.request.objects; the harness expects nothing about the type), and the answer; compared with C15_BindModel.serve_params (configuration loading with the group merge, links, HandleEvent, UpdateSnapshots, MapV1 statement by statement; snapshot keys as a set) and judged by C15_BindSpec.P_params: every executed hook read the conversion request of its step (type Conversion, the step's rule, the previous output) and is a hook that declared the rule. Streams: params-positions = every non-empty choice of bindings with parameters along a line of 1-4 steps served by one hook per step or by one hook for all steps (33 choices; variants group / group with members / includeSnapshotsFrom / both, quick: one variant per choice, thorough: all four), a fault in a quarter of them; params = random rule graphs and requests as in the handler stream with random parameters per binding (group 55%, includeSnapshotsFrom 35%) and 0-3 kubernetes / 0-1 schedule bindings per hook; corpus: a two-hook chain with mixed spellings whose second binding has a group, a grouped binding with members and an include, one hook with two grouped bindings over three steps, a grouped step that fails with its own message. Tags step-with-group:<only|first|middle|last>, step-with-includeSnapshotsFrom:<pos>, step-without-params:<pos>, ctx-type:<type read>, ctx-snapshots:<n keys|absent>, executed-steps-with-params:<n>. enc cases (kind:enc): the handler stack again, one ConversionReview, but one or two steps of the chain answer a list of elements each in its own ENCODING (the stubs write raw JSON): an object whose apiVersion is the desired / the source / the step's own / another version, the empty string, a malformed text (trailing or leading '/', leading or trailing blank, upper case), missing, null, not a string (number, bool, object, array), the element null, an element that is no object (number, string, array, bool) - in every position (first, after an element at the desired version, middle, last), mixed with elements at the desired or at an intermediate version, with the right or a wrong count; what the next hook received and the answer's convertedObjects are classified by the harness from the raw JSON the same way; compared with C15_EncModel.serve_e (ExtractAPIVersions: one fresh decoding per element) and judged by C15_EncSpec.P_enc: an element without apiVersion is not at the desired version - such a list neither ends the chain early nor is answered Success. Streams: enc-positions = every encoding x position x (chain length, step) systematically (quick: 1-2 step chains, the first step, lists of 2-3; thorough: 1-3 steps, every step, lists of 1-3, the rest at the desired or at the step's own version); enc = random graphs and requests as in the handler stream with 1-2 encoded steps. Tags enc:<encoding>, encpos:<first|after-desired|after-other|last...>, enc-rest:<desired|other|mixed>. non-trivial = enc: chain found and an executed step answered an element that is not a well-formed object; search: >=2 rules and a returned chain of >=2 steps; handler: chain found and at least one hook ran; session: every chain found and at least two hook runs; params: chain found and at least one executed step served by a binding with group or includeSnapshotsFrom.  multi cases (kind:multi): SEVERAL CRDs served by one operator - 2-3 CRDs (crontabs/backups/reports/widgets.stable.example.com) whose conversion bindings (in one hook or spread over 2-3 hooks; a hook may hold bindings for several CRDs, the same rule may be declared for two CRDs by different hooks) use the SAME version names (v1alpha1, v1beta1, v1, v2, v3; short / with group / mixed per CRD) and declare DIFFERENT rule graphs (templates line, direct, line+direct, reverse-only, other-route, first-step-only, both-ways, long-way, diamond, or random edges): real hooks, the real hook.Manager with its one ChainStorage and the per-CRD links of the hooks' controllers, the real handler; 3-6 ConversionReviews posted to /<crd name> alternating between the CRDs (A B A B, A B B A, A A B B, random), mostly the same (from,to) pair for every CRD, other pairs in between, faults in a fifth of the requests; per request the chain FindConversionChain(crd, pair) answered, the hook runs (recorded under the rule only if hook and binding are the ones that declared it for THAT CRD) and the answer; compared with C15_MultiModel (find_session on the storage built from the declarations, serve_multi with the request's own CRD's links) and judged per request by C15_MultiSpec.P_request: P_search against the rules declared for the request's CRD and P_handler. msearch cases (kind:msearch): the real ChainStorage alone filled per CRD as UpdateConversionChains does, 2-4 CRDs (and queries for a CRD it does not know), up to 48 FindConversionChain(crd, pair) calls alternating between the CRDs; streams msearch-systematic (every ordered pair of different templates as CRD A and B: the pair v1alpha1->v1 asked A,B,A,B, then every pair for B and A) and msearch (random); judged by all_P_multi, found/not found compared. Tags pairs-asked-for-several-crds, same-pair-other-route, same-pair-chain-for-one-none-for-other (from the observed answers), crd-switches, crds, same-rule-declared-by-different-hooks. non-trivial = multi: some pair was asked for two CRDs with different outcomes (another chain, or a chain for one and none for the other) and at least two hooks ran; msearch: the same with a chain of >= 2 steps. distinct = distinct input text"},
	Gen: Gen, Run: Run, Render: Render, PerShard: 1000, Workers: 8, CaseTimout: 30 * time.Second,
}
