// enc.go: hook outputs AS ENCODED.  An element of `convertedObjects` is any JSON value; the handler decodes every
// element on its own (conversion.ExtractAPIVersions) to decide whether the chain is finished.  Here: the encodings
// an element can have (how a stub writes them, how the harness classifies raw JSON it reads back from the next
// hook's binding context and from the answer), the Coq rendering (C15_Corr.CEnc) and the generators.
package c15

import (
	"bytes"
	"encoding/json"
	"fmt"
	"strconv"
	"strings"

	"verifharness/internal/core"
)

// Obj.Enc:
//
//	""         {"apiVersion":"<V>", ...}                 a well-formed version
//	"empty"    {"apiVersion":"", ...}
//	"bad"      {"apiVersion":"<mangle(K, V)>", ...}      a text that is no version
//	"missing"  {...} without the member
//	"null"     {"apiVersion":null, ...}
//	"nonstr"   {"apiVersion":<K: 0 number, 1 bool, 2 object, 3 array>, ...}
//	"elnull"   null
//	"elnonobj" <K: 0 number, 1 string, 2 array, 3 bool>
var encKinds = []Obj{
	{Enc: "empty"}, {Enc: "bad", K: 0}, {Enc: "bad", K: 1}, {Enc: "bad", K: 2}, {Enc: "bad", K: 3}, {Enc: "bad", K: 4},
	{Enc: "missing"}, {Enc: "null"},
	{Enc: "nonstr", K: 0}, {Enc: "nonstr", K: 1}, {Enc: "nonstr", K: 2}, {Enc: "nonstr", K: 3},
	{Enc: "elnull"},
	{Enc: "elnonobj", K: 0}, {Enc: "elnonobj", K: 1}, {Enc: "elnonobj", K: 2}, {Enc: "elnonobj", K: 3},
}

const nMangle = 5

// texts that are no version: pairwise different for different (k, text), and different from every version text
func mangle(k int, text string) string {
	switch k {
	case 0:
		return text + "/"
	case 1:
		return " " + text
	case 2:
		return text + " "
	case 3:
		return strings.ToUpper(text)
	}
	return "/" + text
}

func isVersionText(s string) bool {
	return s != "" && parseVer(s).S != bogusShort && parseVer(s).String() == s
}

func unmangle(s string) (k int, v Ver, ok bool) {
	cands := []string{strings.TrimSuffix(s, "/"), strings.TrimPrefix(s, " "), strings.TrimSuffix(s, " "), strings.ToLower(s), strings.TrimPrefix(s, "/")}
	for k, t := range cands {
		if isVersionText(t) && mangle(k, t) == s {
			return k, parseVer(t), true
		}
	}
	return 0, Ver{}, false
}

func encJSON(o Obj) string {
	rest := fmt.Sprintf(`"kind":"CronTab","metadata":{"name":"o%d"}`, o.Id)
	switch o.Enc {
	case "empty":
		return `{"apiVersion":"",` + rest + `}`
	case "bad":
		return fmt.Sprintf(`{"apiVersion":%q,%s}`, mangle(o.K, o.V.String()), rest)
	case "missing":
		return `{` + rest + `}`
	case "null":
		return `{"apiVersion":null,` + rest + `}`
	case "nonstr":
		val := []string{`1`, `true`, fmt.Sprintf(`{"apiVersion":%q}`, o.V.String()), fmt.Sprintf(`[%q]`, o.V.String())}[o.K%4]
		return `{"apiVersion":` + val + `,` + rest + `}`
	case "elnull":
		return `null`
	case "elnonobj":
		return []string{`7`, fmt.Sprintf(`%q`, o.V.String()), fmt.Sprintf(`[{"apiVersion":%q,%s}]`, o.V.String(), rest), `true`}[o.K%4]
	}
	return fmt.Sprintf(`{"apiVersion":%q,%s}`, o.V.String(), rest)
}

// classify: what a raw element says about its apiVersion.  Independent of the code under test: the JSON is taken
// apart member by member.
func classify(raw []byte) Obj {
	raw = bytes.TrimSpace(raw)
	if len(raw) == 0 || string(raw) == "null" {
		return Obj{Enc: "elnull"}
	}
	if raw[0] != '{' {
		switch {
		case raw[0] == '"':
			return Obj{Enc: "elnonobj", K: 1}
		case raw[0] == '[':
			return Obj{Enc: "elnonobj", K: 2}
		case raw[0] == 't' || raw[0] == 'f':
			return Obj{Enc: "elnonobj", K: 3}
		}
		return Obj{Enc: "elnonobj", K: 0}
	}
	var members map[string]json.RawMessage
	if err := json.Unmarshal(raw, &members); err != nil {
		return Obj{Enc: "elnonobj", K: 9}
	}
	o := Obj{Id: 99999}
	var meta struct {
		Name string `json:"name"`
	}
	if m, ok := members["metadata"]; ok {
		_ = json.Unmarshal(m, &meta)
		if id, err := strconv.Atoi(strings.TrimPrefix(meta.Name, "o")); err == nil {
			o.Id = id
		}
	}
	av, ok := members["apiVersion"]
	av = bytes.TrimSpace(av)
	switch {
	case !ok:
		o.Enc = "missing"
	case string(av) == "null":
		o.Enc = "null"
	case len(av) > 0 && av[0] == '"':
		var s string
		_ = json.Unmarshal(av, &s)
		switch {
		case s == "":
			o.Enc = "empty"
		case isVersionText(s):
			o.V = parseVer(s)
		default:
			if k, v, ok := unmangle(s); ok {
				o.Enc, o.K, o.V = "bad", k, v
			} else {
				o.Enc, o.K, o.V = "bad", 9, parseVer(s) // a text the harness never writes
			}
		}
	case len(av) > 0 && (av[0] == 't' || av[0] == 'f'):
		o.Enc, o.K = "nonstr", 1
	case len(av) > 0 && av[0] == '{':
		o.Enc, o.K = "nonstr", 2
	case len(av) > 0 && av[0] == '[':
		o.Enc, o.K = "nonstr", 3
	default:
		o.Enc, o.K = "nonstr", 0
	}
	return o
}

func encName(o Obj) string {
	switch o.Enc {
	case "":
		return "version"
	case "bad", "nonstr", "elnonobj":
		return fmt.Sprintf("%s%d", o.Enc, o.K)
	}
	return o.Enc
}

func objText(o Obj) string {
	switch o.Enc {
	case "":
		return fmt.Sprintf("o%d@%s", o.Id, o.V)
	case "bad":
		return fmt.Sprintf("o%d@%q", o.Id, mangle(o.K, o.V.String()))
	case "elnull":
		return "null"
	case "elnonobj":
		return "<" + encJSON(o) + ">"
	}
	return fmt.Sprintf("o%d@<apiVersion %s>", o.Id, encName(o))
}

// ---------------------------------------------------------------- Coq

func coqEObj(o Obj) string {
	switch o.Enc {
	case "empty":
		return fmt.Sprintf("oE %d", o.Id)
	case "bad":
		return fmt.Sprintf("oB %d %d %s", o.Id, o.K, coqVer(o.V))
	case "missing":
		return fmt.Sprintf("oM %d", o.Id)
	case "null":
		return fmt.Sprintf("oN %d", o.Id)
	case "nonstr":
		return fmt.Sprintf("oX %d %d", o.Id, o.K)
	case "elnull":
		return "ENull"
	case "elnonobj":
		return fmt.Sprintf("ENonObj %d", o.K)
	}
	return fmt.Sprintf("oW %d %s", o.Id, coqVer(o.V))
}
func coqEObjs(os []Obj) string { return core.CoqList(os, coqEObj) }
func coqEOutcome(o Outcome) string {
	switch o.Kind {
	case "resp":
		return "EResp " + core.CoqBytes(o.Msg) + " " + coqEObjs(o.Objs)
	case "badresponse":
		return "EBadResponse"
	case "noresponse":
		return "ENoResponse"
	}
	return "EExitFail"
}
func coqEAnswer(a *Answer) string {
	if a == nil {
		return "ERFailure []"
	}
	if a.Success {
		return "ERSuccess " + coqEObjs(a.Objs)
	}
	return "ERFailure " + core.CoqBytes(a.Raw)
}

func sameVer(a, b Ver) bool { return a == b }

func renderEnc(in Input, obs *Obs, c core.Case) core.Case {
	chain := "[]"
	if obs.ChainFound {
		chain = coqChain(in.Rules, obs.Chain)
	}
	c.Coq = fmt.Sprintf("CE %s %s %s %s %s\n  %s %s\n  %s (%s)",
		coqRules(in.Rules), coqVer(in.Src), coqVer(in.Desired), core.CoqBytes(in.Desired.String()), chain,
		coqObjs(mkObjs(1, in.NReq, in.Src)), core.CoqList(obs.Outs, coqEOutcome),
		core.CoqList(obs.Trace, func(i Inv) string { return fmt.Sprintf("(%d,%s)", ruleIndex(in.Rules, i.Rule), coqEObjs(i.Objs)) }),
		coqEAnswer(obs.Ans))
	c.JSON = map[string]any{"obs": obs, "readable": readable(in, obs)}
	c.Key = fmt.Sprintf("E %s %s %s %d %q", coqRules(in.Rules), coqVer(in.Src), coqVer(in.Desired), in.NReq, planText(in.Plan))
	c.Tags = append(c.Tags, fmt.Sprintf("chainlen:%d", len(obs.Chain)), fmt.Sprintf("runs:%d", len(obs.Trace)))
	odd := false
	for k, st := range in.Plan {
		if k >= len(obs.Trace) {
			break
		}
		c.Tags = append(c.Tags, "step:"+st.Kind)
		if st.Kind != "enc" {
			continue
		}
		nDesired, nOther := 0, 0
		for i, o := range st.Objs {
			if o.Enc == "" {
				if sameVer(o.V, in.Desired) {
					nDesired++
				} else {
					nOther++
				}
				continue
			}
			odd = true
			pos := "middle"
			switch {
			case len(st.Objs) == 1:
				pos = "only"
			case i == 0:
				pos = "first"
			case i == len(st.Objs)-1:
				pos = "last"
			}
			c.Tags = append(c.Tags, "enc:"+encName(o), "encpos:"+pos)
			if i > 0 && st.Objs[i-1].Enc == "" && sameVer(st.Objs[i-1].V, in.Desired) {
				c.Tags = append(c.Tags, "encpos:after-desired")
			} else if i > 0 {
				c.Tags = append(c.Tags, "encpos:after-other")
			}
		}
		switch {
		case nDesired > 0 && nOther > 0:
			c.Tags = append(c.Tags, "enc-rest:mixed")
		case nDesired > 0:
			c.Tags = append(c.Tags, "enc-rest:desired")
		case nOther > 0:
			c.Tags = append(c.Tags, "enc-rest:other")
		}
		if k+1 == len(obs.Chain) {
			c.Tags = append(c.Tags, "enc-step:last-of-chain")
		} else {
			c.Tags = append(c.Tags, "enc-step:not-last")
		}
	}
	c.Nontrivial = obs.ChainFound && len(obs.Trace) > 0 && odd
	if obs.Ans != nil && obs.Ans.Success {
		c.Tags = append(c.Tags, "answer:Success")
	} else if obs.Ans != nil {
		c.Tags = append(c.Tags, "answer:Failed/"+obs.Ans.Msg)
	}
	return c
}

// ---------------------------------------------------------------- generators

func encObj(id int, kind Obj, v Ver) Obj { return Obj{Id: id, V: v, Enc: kind.Enc, K: kind.K} }

// a line v_0 -> v_1 -> ... -> v_L of short versions; the request asks v_0 -> v_L
func lineInput(L, nreq int) Input {
	names := []int{0, 3, 5, 8}
	in := Input{Kind: "enc", Shape: "line", Spell: "short", NReq: nreq, NHooks: 1 + L%2}
	for i := 0; i < L; i++ {
		in.Rules = append(in.Rules, rl(names[i], names[i+1]))
	}
	in.Src, in.Desired = v(names[0]), Ver{1, names[L]}
	for k := 0; k < 4; k++ {
		in.Plan = append(in.Plan, Step{Kind: "ok"})
	}
	return in
}

// step p of an L-step line answers n elements: element i in encoding [kind], the others at the desired version
// (fill "desired") or at the step's own target version (fill "own")
func positionCase(L, p, n, i int, kind Obj, fill string) Input {
	in := lineInput(L, n)
	own := in.Rules[p].To
	if p == L-1 {
		own = in.Desired
	}
	var objs []Obj
	for j := 0; j < n; j++ {
		id := 100*(p+1) + j
		switch {
		case j == i:
			objs = append(objs, encObj(id, kind, in.Desired))
		case fill == "desired":
			objs = append(objs, Obj{Id: id, V: in.Desired})
		default:
			objs = append(objs, Obj{Id: id, V: own})
		}
	}
	in.Plan[p] = Step{Kind: "enc", Objs: objs}
	return in
}

func (g *gen) encPositions(add func(Input), tier string) {
	if tier == "thorough" {
		for L := 1; L <= 3; L++ {
			for p := 0; p < L; p++ {
				for n := 1; n <= 3; n++ {
					for i := 0; i < n; i++ {
						for _, kind := range encKinds {
							add(positionCase(L, p, n, i, kind, "desired"))
							add(positionCase(L, p, n, i, kind, "own"))
						}
					}
				}
			}
		}
		return
	}
	// quick / search: the first step of a 1- or 2-step chain, lists of 2 and 3
	for _, kind := range encKinds {
		for L := 1; L <= 2; L++ {
			add(positionCase(L, 0, 2, 0, kind, "desired"))
			add(positionCase(L, 0, 2, 1, kind, "desired"))
			add(positionCase(L, 0, 3, 1, kind, "desired"))
		}
		if tier == "search" {
			add(positionCase(3, 1, 3, 2, kind, "desired"))
			add(positionCase(2, 0, 2, 1, kind, "own"))
		}
	}
	// the rest at the step's own version; one per encoding, positions rotating
	for k, kind := range encKinds {
		add(positionCase(2+k%2, k%2, 2+k%2, k%(2+k%2), kind, "own"))
	}
}

// a random element of a step's output
func (g *gen) encElement(id int, in Input, own Ver) Obj {
	switch x := g.r.Intn(100); {
	case x < 50:
		return Obj{Id: id, V: in.Desired}
	case x < 60:
		return Obj{Id: id, V: own}
	case x < 65:
		return Obj{Id: id, V: in.Src}
	case x < 70: // the desired version in its other spelling: another string
		o := in.Desired
		if o.G == 0 {
			o.G = 1
		} else {
			o.G = 0
		}
		return Obj{Id: id, V: o}
	}
	kind := encKinds[g.r.Intn(len(encKinds))]
	ver := in.Desired
	if g.r.Chance(20) {
		ver = own
	}
	return encObj(id, kind, ver)
}

// the handler stream's graphs and requests; one or two steps answer encoded elements
func (g *gen) encCase() Input {
	in := g.handlerCase()
	in.Kind = "enc"
	for k := range in.Plan {
		in.Plan[k] = Step{Kind: "ok"}
	}
	if in.NReq == 0 {
		in.NReq = 2
	}
	// the chain is not known before the run: the step's own version is guessed from the rules (tag only matters)
	nsteps := 1 + g.r.Intn(2)
	for s := 0; s < nsteps; s++ {
		p := g.r.Intn(3)
		if s == 0 && g.r.Chance(60) {
			p = 0
		}
		own := in.Rules[g.r.Intn(len(in.Rules))].To
		n := in.NReq
		if g.r.Chance(10) {
			n += g.r.Intn(3) - 1
		}
		var objs []Obj
		for j := 0; j < n; j++ {
			objs = append(objs, g.encElement(100*(p+1)+j, in, own))
		}
		in.Plan[p] = Step{Kind: "enc", Objs: objs}
	}
	return in
}

func corpusEnc() []Input {
	return []Input{
		// the hypotheses of C15_enc_unversioned_not_cut: an element without apiVersion after one at the desired version
		positionCase(2, 0, 2, 1, Obj{Enc: "missing"}, "desired"),
		positionCase(1, 0, 2, 1, Obj{Enc: "elnull"}, "desired"),
		positionCase(2, 0, 3, 0, Obj{Enc: "nonstr", K: 2}, "desired"),
		positionCase(3, 1, 3, 2, Obj{Enc: "bad", K: 2}, "own"),
	}
}
