// Package c04: correspondence driver for C04 (failed runs are retried until success and
// block the queue unless allowFailure).  Operator-level scenarios with many failing
// executions and mixed allowFailure values; see internal/opsim.
package c04

import (
	"fmt"
	"sort"
	"time"

	"github.com/flant/shell-operator/pkg/utils/exponential_backoff"

	"verifharness/internal/core"
	"verifharness/internal/opsim"
)

// Input is either an operator scenario or a call of CalculateDelayWithMax.
type Input struct {
	Scenario *opsim.Scenario `json:"scenario,omitempty"`
	Delay    *DelayIn        `json:"delay,omitempty"`
	Acts     []opsim.Action  `json:"acts,omitempty"` // shrink key: mirrors Scenario.Acts
}
type DelayIn struct {
	InitialNs int64 `json:"initial_ns"`
	MaxNs     int64 `json:"max_ns"`
	Retry     int   `json:"retry"`
	Calls     int   `json:"calls"`
}
type Obs struct {
	Trace  *opsim.Trace `json:"trace,omitempty"`
	Delays []int64      `json:"delays,omitempty"` // distinct returned values, sorted
}

func Run(in Input) Obs {
	if in.Delay != nil {
		seen := map[int64]bool{}
		for i := 0; i < in.Delay.Calls; i++ {
			d := exponential_backoff.CalculateDelayWithMax(time.Duration(in.Delay.InitialNs), time.Duration(in.Delay.MaxNs), in.Delay.Retry)
			seen[int64(d)] = true
		}
		var ds []int64
		for d := range seen {
			ds = append(ds, d)
		}
		sort.Slice(ds, func(i, j int) bool { return ds[i] < ds[j] })
		return Obs{Delays: ds}
	}
	sc := *in.Scenario
	if len(in.Acts) > 0 {
		sc.Acts = in.Acts
	}
	tr := opsim.RunScenario(sc)
	return Obs{Trace: &tr}
}

func Render(in Input, obs *Obs, crash string) core.Case {
	if in.Delay != nil {
		var ds []int64
		if obs != nil {
			ds = obs.Delays
		}
		if crash != "" {
			ds = []int64{-1}
		}
		c := core.Case{}
		c.Coq = fmt.Sprintf("CDelay %s %s %s %s", core.CoqZ(in.Delay.InitialNs), core.CoqZ(in.Delay.MaxNs), core.CoqZ(int64(in.Delay.Retry)), core.CoqList(ds, core.CoqZ))
		c.JSON = map[string]any{"delays": ds, "crash": crash}
		c.Key = c.Coq
		c.Nontrivial = len(ds) >= 1 && in.Delay.Retry >= 1
		c.Tags = []string{"delay", fmt.Sprintf("retry:%d", in.Delay.Retry)}
		return c
	}
	sc := *in.Scenario
	var tr *opsim.Trace
	if obs != nil {
		tr = obs.Trace
	}
	c := opsim.Render(sc, tr, crash)
	c.Coq = "COp " + c.Coq
	return c
}

func Explicit(in Input, obs *Obs) Input {
	if in.Delay != nil || obs == nil || obs.Trace == nil {
		return in
	}
	sc := opsim.ExplicitInput(*in.Scenario, obs.Trace)
	acts := sc.Acts
	sc.Acts = nil
	return Input{Scenario: &sc, Acts: acts}
}

var profile = opsim.Profile{Name: "c04", MaxHooks: 3, Steps: 30, PFail: 50, PHold: 25, V0: false, PWait: 40, PShort: 10, PFiles: 35}

func init() { opsim.RegisterProfile(profile) }

func Corpus() []opsim.Scenario {
	return []opsim.Scenario{
		// F6 (fixed): a combined run took allowFailure from the head task only
		{Cfg: []opsim.Hook{{Id: 1, Sched: []opsim.SB{{Name: 1, Queue: 1, Allow: true, Cron: 1}, {Name: 2, Queue: 1, Allow: false, Cron: 2}}}},
			Acts: []opsim.Action{{Kind: "Boot"}, {Kind: "Tick", C: 1}, {Kind: "Tick", C: 1}, {Kind: "Tick", C: 2}, {Kind: "Finish", Q: 1, Ok: true}, {Kind: "Finish", Q: 1, Ok: false}, {Kind: "Finish", Q: 1, Ok: false}, {Kind: "Finish", Q: 1, Ok: true}}},
		// allowFailure=true alone: dropped
		{Cfg: []opsim.Hook{{Id: 1, Sched: []opsim.SB{{Name: 1, Queue: 1, Allow: true, Cron: 1}}}},
			Acts: []opsim.Action{{Kind: "Boot"}, {Kind: "Tick", C: 1}, {Kind: "Tick", C: 1}, {Kind: "Finish", Q: 1, Ok: false}, {Kind: "Finish", Q: 1, Ok: false}}},
		// a positive back-off: the failed task stays the head while ticks arrive and the other queue works on; after the delay it runs again with what was merged
		{Cfg: []opsim.Hook{{Id: 1, Sched: []opsim.SB{{Name: 1, Queue: 1, Cron: 1}, {Name: 2, Queue: 2, Cron: 2}}}},
			Acts: []opsim.Action{{Kind: "Boot"}, {Kind: "Tick", C: 1}, {Kind: "Tick", C: 2}, {Kind: "FinishWait", Q: 1}, {Kind: "Tick", C: 1}, {Kind: "Finish", Q: 2, Ok: true}, {Kind: "Tick", C: 1}, {Kind: "Finish", Q: 1, Ok: true}, {Kind: "Elapse", Q: 1}, {Kind: "FinishWait", Q: 1}, {Kind: "Elapse", Q: 1}, {Kind: "Finish", Q: 1, Ok: true}}},
		// a positive back-off after an allowed failure does not happen: the task is dropped
		{Cfg: []opsim.Hook{{Id: 1, Sched: []opsim.SB{{Name: 1, Queue: 1, Allow: true, Cron: 1}}}},
			Acts: []opsim.Action{{Kind: "Boot"}, {Kind: "Tick", C: 1}, {Kind: "Tick", C: 1}, {Kind: "FinishWait", Q: 1}, {Kind: "Elapse", Q: 1}, {Kind: "Finish", Q: 1, Ok: true}}},
		// a short back-off that ends by itself
		{Cfg: []opsim.Hook{{Id: 1, Sched: []opsim.SB{{Name: 1, Queue: 1, Cron: 1}}}},
			Acts: []opsim.Action{{Kind: "Boot"}, {Kind: "Tick", C: 1}, {Kind: "FinishWait", Q: 1, Short: true}, {Kind: "Elapse", Q: 1}, {Kind: "Finish", Q: 1, Ok: true}}},
		// grouped Synchronization failing, retried with newly merged contexts
		{Cfg: []opsim.Hook{{Id: 1, Kube: []opsim.KB{{Name: 1, Group: 1, ExecSync: true}, {Name: 2, Group: 1, ExecSync: true, Allow: true}}}},
			Acts: []opsim.Action{{Kind: "Boot"}, {Kind: "Finish", Q: 0, Ok: false}, {Kind: "Finish", Q: 0, Ok: false}, {Kind: "Finish", Q: 0, Ok: true}}},
	}
}

// WaysCorpus: every way of failing with exit status 0 - the failure lies in what the hook wrote (metrics, patch) - with and
// without allowFailure, followed by a success that writes valid files; a second task waits behind the failing one.
func WaysCorpus() []opsim.Scenario {
	var out []opsim.Scenario
	for w := range opsim.FailWays {
		for _, allow := range []bool{false, true} {
			cfg := []opsim.Hook{{Id: 1, Sched: []opsim.SB{{Name: 1, Queue: 1, Allow: allow, Cron: 1}, {Name: 2, Queue: 1, Cron: 2}}}}
			out = append(out, opsim.Scenario{Cfg: cfg, Acts: []opsim.Action{{Kind: "Boot"}, {Kind: "Tick", C: 1}, {Kind: "Tick", C: 2},
				{Kind: "Finish", Q: 1, Exit0: true, Files: opsim.OutputFiles(w, 1)}, {Kind: "Finish", Q: 1, Ok: true, Files: opsim.OutputFiles(-1, 2)},
				{Kind: "Finish", Q: 1, Ok: true}}})
		}
	}
	return out
}

func Gen(r *core.Rng, tier string) ([]core.In[Input], bool) {
	var ins []core.In[Input]
	for _, sc := range Corpus() {
		sc := sc
		ins = append(ins, core.In[Input]{Input: Input{Scenario: &sc}, Stream: "corpus"})
	}
	for _, sc := range WaysCorpus() {
		sc := sc
		ins = append(ins, core.In[Input]{Input: Input{Scenario: &sc}, Stream: "ways-of-failing"})
	}
	// CalculateDelayWithMax: every retry count 0..8 for several (initial, max)
	calls := 300
	if tier == "thorough" {
		calls = 5000
	}
	for _, im := range [][2]int64{{5e9, 32e9}, {0, 32e9}, {1e9, 32e9}, {25e8, 10e9}, {32e9, 32e9}, {123456789, 7e9}} {
		for retry := 0; retry <= 8; retry++ {
			ins = append(ins, core.In[Input]{Input: Input{Delay: &DelayIn{InitialNs: im[0], MaxNs: im[1], Retry: retry, Calls: calls}}, Stream: "delay"})
		}
	}
	n := 60
	switch tier {
	case "thorough":
		n = 3000
	case "search":
		n = 400
	}
	for i := 0; i < n; i++ {
		sc := opsim.Scenario{Cfg: opsim.GenConfig(r, profile), Seed: int64(r.Next() >> 1), Steps: 10 + r.Intn(profile.Steps), Profile: "c04"}
		ins = append(ins, core.In[Input]{Input: Input{Scenario: &sc}, Stream: "random"})
	}
	return ins, false
}

var Driver = core.Driver[Input, Obs]{
	Spec: core.Spec{Property: "C04", Imports: []string{"Op_Model", "Op_Corr", "C04_Spec", "C04_Delay", "C04_Corr"}, Corr: "C04_Corr", ShrinkKey: "acts",
		Rule: "operator-level scenarios (see C03) with 50% failing executions, mixed allowFailure, 35% of the executions writing output files - a failing one then exits 0 and fails by what it wrote: unparsable metrics, an invalid metric operation, a patch file broken from the first byte, a JSON / YAML stream with a truncated tail after valid documents, an invalid document among valid ones, an operation that cannot be applied (stream ways-of-failing: each of them with and without allowFailure) -, tasks combined while a queue is busy; non-trivial = >=4 actions of >=2 kinds with >=2 executions; distinct = distinct (config, action list); plus a 'delay' stream: CalculateDelayWithMax called repeatedly for 6 (initial,max) pairs x retry 0..8, every returned value must be one the integer model can produce and >= initial"},
	Gen:      Gen,
	Run:      Run,
	Render:   Render,
	Explicit: Explicit,
	PerShard: 40, Workers: 8, CaseTimout: 30 * time.Second,
}
