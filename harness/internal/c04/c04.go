// Package c04: correspondence driver for C04 (failed runs are retried until success and
// block the queue unless allowFailure).  Operator-level scenarios with many failing
// executions and mixed allowFailure values; see internal/opsim.
package c04

import (
	"time"

	"verifharness/internal/core"
	"verifharness/internal/opsim"
)

var profile = opsim.Profile{Name: "c04", MaxHooks: 3, Steps: 30, PFail: 50, PHold: 25, V0: false}

func init() { opsim.RegisterProfile(profile) }

func Corpus() []opsim.Scenario {
	return []opsim.Scenario{
		// F6 (fixed): a combined run took allowFailure from the head task only
		{Cfg: []opsim.Hook{{Id: 1, Sched: []opsim.SB{{Name: 1, Queue: 1, Allow: true, Cron: 1}, {Name: 2, Queue: 1, Allow: false, Cron: 2}}}},
			Acts: []opsim.Action{{Kind: "Boot"}, {Kind: "Tick", C: 1}, {Kind: "Tick", C: 1}, {Kind: "Tick", C: 2}, {Kind: "Finish", Q: 1, Ok: true}, {Kind: "Finish", Q: 1, Ok: false}, {Kind: "Finish", Q: 1, Ok: false}, {Kind: "Finish", Q: 1, Ok: true}}},
		// allowFailure=true alone: dropped
		{Cfg: []opsim.Hook{{Id: 1, Sched: []opsim.SB{{Name: 1, Queue: 1, Allow: true, Cron: 1}}}},
			Acts: []opsim.Action{{Kind: "Boot"}, {Kind: "Tick", C: 1}, {Kind: "Tick", C: 1}, {Kind: "Finish", Q: 1, Ok: false}, {Kind: "Finish", Q: 1, Ok: false}}},
		// grouped Synchronization failing, retried with newly merged contexts
		{Cfg: []opsim.Hook{{Id: 1, Kube: []opsim.KB{{Name: 1, Group: 1, ExecSync: true}, {Name: 2, Group: 1, ExecSync: true, Allow: true}}}},
			Acts: []opsim.Action{{Kind: "Boot"}, {Kind: "Finish", Q: 0, Ok: false}, {Kind: "Finish", Q: 0, Ok: false}, {Kind: "Finish", Q: 0, Ok: true}}},
	}
}

func Gen(r *core.Rng, tier string) ([]core.In[opsim.Scenario], bool) {
	var ins []core.In[opsim.Scenario]
	for _, sc := range Corpus() {
		ins = append(ins, core.In[opsim.Scenario]{Input: sc, Stream: "corpus"})
	}
	n := 60
	switch tier {
	case "thorough":
		n = 3000
	case "search":
		n = 400
	}
	for i := 0; i < n; i++ {
		sc := opsim.Scenario{Cfg: opsim.GenConfig(r, profile), Seed: int64(r.Next() >> 1), Steps: 10 + r.Intn(profile.Steps), Profile: "c04"}
		ins = append(ins, core.In[opsim.Scenario]{Input: sc, Stream: "random"})
	}
	return ins, false
}

var Driver = core.Driver[opsim.Scenario, opsim.Trace]{
	Spec: core.Spec{Property: "C04", Imports: []string{"Op_Model", "Op_Corr", "C04_Spec", "C04_Corr"}, Corr: "C04_Corr", ShrinkKey: "acts",
		Rule: "operator-level scenarios (see C03) with 50% failing executions, mixed allowFailure, tasks combined while a queue is busy; non-trivial = >=4 actions of >=2 kinds with >=2 executions; distinct = distinct (config, action list)"},
	Gen:      Gen,
	Run:      opsim.RunScenario,
	Render:   func(in opsim.Scenario, obs *opsim.Trace, crash string) core.Case { return opsim.Render(in, obs, crash) },
	Explicit: opsim.ExplicitInput,
	PerShard: 40, Workers: 8, CaseTimout: 30 * time.Second,
}
