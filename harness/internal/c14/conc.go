// conc.go: admission requests that OVERLAP in time.
//
// Admission hook runs do not go through the task queues: the webhook server handles every request in
// its own goroutine and the event handler calls op.taskHandler directly, so two AdmissionReviews for
// the same hook (same or different bindings) or for different hooks run at the same time.  A case of
// this class posts 2-6 reviews to the real router from goroutines of their own; the scripted hook
// processes are HELD at two points (started: about to write its files; written: about to exit) on a
// pair of FIFOs per request and moved on by the harness in the order the input's schedule gives, so
// that every interleaving of {A starts, A writes, A ends, B starts, ...} is exercised
// deterministically and without sleeps.  Every answer is judged against its own request.
package c14

import (
	"bufio"
	"fmt"
	"net/http/httptest"
	"os"
	"path/filepath"
	"sort"
	"strings"
	"syscall"
	"time"

	"verifharness/internal/core"
)

const concWait = 90 * time.Second // a hold point or an answer that does not come (also on a heavily loaded machine): the case is a hang

type concReq struct {
	q     Req
	dir   string
	ev    *os.File // hook process -> harness ("started <initial>", "written")
	gofd  *os.File // harness -> hook process
	evCh  chan string
	done  chan struct{}
	rec   *httptest.ResponseRecorder
	state int // 0 not sent, 1 hook process started (held), 2 hook process has written (held), 3 answered
}

func (env *runEnv) runConcurrent() {
	o, in := env.o, env.in
	concDir := filepath.Join(env.state, "conc")
	if err := os.Mkdir(concDir, 0o755); err != nil {
		o.Err = err.Error()
		return
	}
	seen := map[int]int{}
	rs := make([]*concReq, len(in.Reqs))
	o.Reqs = make([]ReqObs, len(in.Reqs))
	defer func() {
		// let every process that is still held go, then give up the FIFOs
		for _, r := range rs {
			if r != nil && r.gofd != nil {
				_, _ = r.gofd.WriteString("x\nx\nx\n")
			}
		}
		for _, r := range rs {
			if r != nil && r.state != 0 && r.state != 3 {
				select {
				case <-r.done:
				case <-time.After(3 * time.Second):
				}
			}
		}
		for _, r := range rs {
			if r != nil {
				if r.ev != nil {
					r.ev.Close()
				}
				if r.gofd != nil {
					r.gofd.Close()
				}
			}
		}
	}()
	for i, q := range in.Reqs {
		if _, dup := seen[q.Uid]; dup {
			o.Err = fmt.Sprintf("concurrent case with uid %d twice", q.Uid)
			return
		}
		seen[q.Uid] = i
		r := &concReq{q: q, dir: filepath.Join(concDir, fmt.Sprintf("q%d", q.Uid)), evCh: make(chan string, 4), done: make(chan struct{})}
		rs[i] = r
		if err := os.Mkdir(r.dir, 0o755); err != nil {
			o.Err = err.Error()
			return
		}
		for _, f := range []string{"ev", "go"} {
			if err := syscall.Mkfifo(filepath.Join(r.dir, f), 0o600); err != nil {
				o.Err = "mkfifo: " + err.Error()
				return
			}
		}
		var err error
		// opened for reading AND writing: neither side ever blocks in open()
		if r.ev, err = os.OpenFile(filepath.Join(r.dir, "ev"), os.O_RDWR, 0); err != nil {
			o.Err = err.Error()
			return
		}
		if r.gofd, err = os.OpenFile(filepath.Join(r.dir, "go"), os.O_RDWR, 0); err != nil {
			o.Err = err.Error()
			return
		}
		go func(r *concReq) {
			rd := bufio.NewReader(r.ev)
			for {
				line, err := rd.ReadString('\n')
				if err != nil {
					return
				}
				r.evCh <- strings.TrimSpace(line)
			}
		}(r)
		if !env.scriptHook(r.dir, q, i) {
			return
		}
		o.Reqs[i].Path = env.pathOf(q)
	}

	open, maxOpen := map[int]bool{}, 0
	shared := map[string]bool{}
	noteOpen := func(i int) {
		// the files this process was given; the same path given to another process that is open now?
		if b, err := os.ReadFile(filepath.Join(rs[i].dir, "paths")); err == nil {
			o.Reqs[i].Paths = strings.Fields(string(b))
		}
		for j := range open {
			for _, p := range o.Reqs[i].Paths {
				for _, p2 := range o.Reqs[j].Paths {
					if p == p2 {
						shared[fmt.Sprintf("uid %d and uid %d: %s", in.Reqs[j].Uid, in.Reqs[i].Uid, filepath.Base(p))] = true
					}
				}
			}
		}
		open[i] = true
		if len(open) > maxOpen {
			maxOpen = len(open)
		}
	}
	// move request i on to its next hold point, or to its answer
	move := func(i int) bool {
		r := rs[i]
		hang := func(what string) bool {
			o.Err = fmt.Sprintf("hang: request uid %d: %s", r.q.Uid, what)
			return false
		}
		answered := func() {
			r.state = 3
			delete(open, i)
		}
		switch r.state {
		case 0:
			r.rec = httptest.NewRecorder()
			rq := env.request(r.q, o.Reqs[i].Path)
			go func() {
				defer close(r.done)
				env.router.ServeHTTP(r.rec, rq)
			}()
			select {
			case line := <-r.evCh:
				if !strings.HasPrefix(line, "started ") {
					return hang("unexpected report " + line)
				}
				o.Reqs[i].Initial = strings.TrimPrefix(line, "started ")
				r.state = 1
				noteOpen(i)
			case <-r.done:
				answered()
			case <-time.After(concWait):
				return hang("neither a hook process nor an answer")
			}
		case 1:
			_, _ = r.gofd.WriteString("x\n")
			select {
			case line := <-r.evCh:
				if line != "written" {
					return hang("unexpected report " + line)
				}
				r.state = 2
			case <-r.done:
				answered()
			case <-time.After(concWait):
				return hang("the hook process does not report its writes")
			}
		case 2:
			_, _ = r.gofd.WriteString("x\n")
			select {
			case <-r.done:
				answered()
			case <-time.After(concWait):
				return hang("no answer after the hook process was let go")
			}
		default:
			return true
		}
		o.Moves = append(o.Moves, i)
		return true
	}
	for _, uid := range in.Sched {
		if i, ok := seen[uid]; ok && rs[i].state != 3 {
			if !move(i) {
				return
			}
		}
	}
	// every request is let run to its end
	for i := range rs {
		for rs[i].state != 3 {
			if !move(i) {
				return
			}
		}
	}
	for i, r := range rs {
		ro := &o.Reqs[i]
		parseAnswer(r.rec, ro)
		readRan(r.dir, r.q, ro)
		env.sideEffects(i, ro)
	}
	o.MaxOpen = maxOpen
	for k := range shared {
		o.Shared = append(o.Shared, k)
	}
	sort.Strings(o.Shared)
}

// ---------------------------------------------------------------- Render

func renderConc(in Input, obs *Obs, c core.Case) core.Case {
	hooks := core.CoqList(in.Hooks, func(h HookSpec) string {
		return fmt.Sprintf("mkHook %s %s", core.CoqList(h.Val, core.CoqBytes), core.CoqList(h.Mut, core.CoqBytes))
	})
	reqs := make([]string, len(in.Reqs))
	var readable []string
	for _, r := range obs.Regs {
		readable = append(readable, fmt.Sprintf("h%02d %v %q registered %s", r.Hook, map[bool]string{false: "validating", true: "mutating"}[r.Mut], r.Name, r.Path))
	}
	// the moves, told as a story
	state := make([]int, len(in.Reqs))
	var story []string
	for _, i := range obs.Moves {
		ro := obs.Reqs[i]
		what := ""
		switch {
		case state[i] == 0 && ro.Ran == nil:
			what, state[i] = "is sent and answered (no hook process)", 3
		case state[i] == 0:
			what, state[i] = "is sent, its hook process starts", 1
		case state[i] == 1:
			what, state[i] = "its hook process writes its files", 2
		default:
			what, state[i] = "its hook process ends, the request is answered", 3
		}
		story = append(story, fmt.Sprintf("uid %d: %s", in.Reqs[i].Uid, what))
	}
	readable = append(readable, "concurrent requests; order of events: "+strings.Join(story, "; "))
	if len(obs.Shared) > 0 {
		readable = append(readable, "temp files given to two hook processes that were open at the same time: "+strings.Join(obs.Shared, "; "))
	}
	allowedSeen, ran := false, 0
	hooksUsed, bindingsUsed := map[int]int{}, map[string]int{}
	for i, q := range in.Reqs {
		ro := obs.Reqs[i]
		_, _, _, sideCoq, _, _ := sideFiles(q, i)
		initialEmpty := ro.Initial == "" || ro.Initial == "empty"
		reqs[i] = fmt.Sprintf("((%s, %s, mkRun %s (%s) %s, (%s, %s), (%s, %s)), %s)", core.CoqBytes(ro.Path), coqBody(q),
			core.CoqBool(q.Exit == 0), coqFile(q), sideCoq, coqAnswer(ro), coqRan(ro.Ran), core.CoqBool(ro.KApplied), core.CoqBool(ro.MApplied),
			core.CoqBool(initialEmpty))
		ans := fmt.Sprintf("HTTP %d", ro.Status)
		if ro.Review != nil {
			ans = fmt.Sprintf("allowed=%v code=%d msg=%s(%q) warnings=%v patch=%d patchType=%v uid=%d", ro.Review.Allowed, ro.Review.Code, ro.Review.Msg, ro.Review.Raw, ro.Review.Warn, ro.Review.Patch, ro.Review.PatchType, ro.Review.Uid)
			if ro.Review.Allowed {
				allowedSeen = true
				c.Tags = append(c.Tags, "answer:allowed")
			} else {
				c.Tags = append(c.Tags, fmt.Sprintf("answer:denied/%d/%s", ro.Review.Code, ro.Review.Msg))
			}
		} else {
			c.Tags = append(c.Tags, fmt.Sprintf("answer:http%d", ro.Status))
		}
		who := "no hook ran"
		if ro.Ran != nil {
			ran++
			hooksUsed[ro.Ran.Hook]++
			bindingsUsed[fmt.Sprintf("%d/%v/%s", ro.Ran.Hook, ro.Ran.Mut, ro.Ran.Name)]++
			who = fmt.Sprintf("h%02d ran for %q mutating=%v, found its output files %s", ro.Ran.Hook, ro.Ran.Name, ro.Ran.Mut, ro.Initial)
		}
		side := ""
		if q.KPatch != "" || q.Metrics != "" || q.Conv != "" {
			side = fmt.Sprintf(" kubernetes-patch %s metrics %s conversion-response %s", q.KPatch, q.Metrics, q.Conv)
		}
		readable = append(readable, fmt.Sprintf("POST %s body=%s uid=%d; its hook run: exit %d file %s %q%s => %s; %s; marker object applied=%v marker metric applied=%v %s",
			ro.Path, q.Body, q.Uid, q.Exit, q.File, fileBytes(q), side, ans, who, ro.KApplied, ro.MApplied, ro.Note))
		c.Tags = append(c.Tags, "conc-file:"+q.File, fmt.Sprintf("conc-exit:%d", q.Exit))
		if q.KPatch != "" || q.Metrics != "" || q.Conv != "" {
			c.Tags = append(c.Tags, "conc-req:with-side-files")
		}
	}
	sameHook, sameBinding := false, false
	for _, n := range hooksUsed {
		sameHook = sameHook || n > 1
	}
	for _, n := range bindingsUsed {
		sameBinding = sameBinding || n > 1
	}
	c.Tags = append(c.Tags, "class:concurrent", fmt.Sprintf("conc-requests:%d", len(in.Reqs)), fmt.Sprintf("conc-max-open-hook-processes:%d", obs.MaxOpen))
	switch {
	case sameBinding:
		c.Tags = append(c.Tags, "conc-overlap:same-binding-of-one-hook")
	case sameHook:
		c.Tags = append(c.Tags, "conc-overlap:two-bindings-of-one-hook")
	case len(hooksUsed) > 1:
		c.Tags = append(c.Tags, "conc-overlap:different-hooks-only")
	}
	if len(hooksUsed) > 1 {
		c.Tags = append(c.Tags, "conc-has:different-hooks")
	}
	c.Tags = append(c.Tags, "conc-order:"+orderShape(obs.Moves, obs.Reqs))
	c.Coq = fmt.Sprintf("CConc %s\n  %s\n  [%s]\n  %s", hooks, core.CoqList(obs.Regs, coqReg), strings.Join(reqs, ";\n   "), core.CoqList(obs.Moves, core.CoqN))
	c.JSON = map[string]any{"obs": obs, "readable": readable}
	c.Key = fmt.Sprintf("%v", in)
	// non-trivial: at least two hook processes were open at the same time, and somebody was allowed
	c.Nontrivial = obs.MaxOpen >= 2 && allowedSeen && ran >= 2
	return c
}

// the interleaving of the first two hook runs, as a word over {S,W,E} x {a,b} (other requests left out)
func orderShape(moves []int, reqs []ReqObs) string {
	var two []int
	for i, ro := range reqs {
		if ro.Ran != nil && len(two) < 2 {
			two = append(two, i)
		}
	}
	if len(two) < 2 {
		return "fewer-than-two-hook-runs"
	}
	st := map[int]int{}
	var b strings.Builder
	for _, i := range moves {
		if i != two[0] && i != two[1] {
			continue
		}
		b.WriteByte("SWE"[st[i]%3])
		if i == two[0] {
			b.WriteByte('a')
		} else {
			b.WriteByte('b')
		}
		st[i]++
	}
	return b.String()
}

// ---------------------------------------------------------------- generation

// all interleavings of the three moves of request a with the three moves of request b
func interleavings2(a, b int) [][]int {
	var out [][]int
	var rec func(na, nb int, cur []int)
	rec = func(na, nb int, cur []int) {
		if na == 0 && nb == 0 {
			out = append(out, append([]int(nil), cur...))
			return
		}
		if na > 0 {
			rec(na-1, nb, append(cur, a))
		}
		if nb > 0 {
			rec(na, nb-1, append(cur, b))
		}
	}
	rec(3, 3, nil)
	return out
}

func review(binding, uid int, file string, msg int, warn []int, patch, exit int) Req {
	return Req{PathKind: "reg", Binding: binding, Body: "review", Uid: uid, File: file, Msg: msg, Warn: warn, Patch: patch, Exit: exit}
}

// hooks of the fixed concurrent cases: h00 has a validating and a mutating binding, h01 a validating one
// (registration order: 0 = h00 validating, 1 = h00 mutating, 2 = h01 validating)
var concHooks = []HookSpec{{Val: []string{"policy.example.com"}, Mut: []string{"Mutate.Pods.example.com"}}, {Val: []string{"quota.example.com"}}}

// ConcCorpus: fixed cases that run first.
func ConcCorpus() []Input {
	deny, allow := review(0, 1, "deny", 4, []int{2}, 0, 0), review(0, 2, "allow", 0, nil, 0, 0)
	return []Input{
		// two reviews for the same binding: both hook processes have started, the first writes its denial
		// (with a message and a warning), the second its allow, then the first ends, then the second
		{Hooks: concHooks, Conc: true, Reqs: []Req{deny, allow}, Sched: []int{1, 2, 1, 2, 1, 2}},
		// ... the first run has written and is still busy when the second run starts, allows and ends
		{Hooks: concHooks, Conc: true, Reqs: []Req{deny, allow}, Sched: []int{1, 1, 2, 2, 2, 1}},
		// a validating and a mutating binding of one hook, two patches
		{Hooks: concHooks, Conc: true, Reqs: []Req{review(1, 1, "allow", 0, []int{1}, 3, 0), review(0, 2, "deny", 5, nil, 0, 0), review(1, 3, "allow", 0, nil, 6, 0)},
			Sched: []int{1, 2, 3, 3, 2, 1, 1, 3, 2}},
		// different hooks; exits, an empty and a truncated response, a request nobody serves, side files
		{Hooks: concHooks, Conc: true, Reqs: []Req{
			review(0, 1, "allow", 0, nil, 0, 1), review(2, 2, "allow", 0, nil, 0, 0), review(0, 3, "empty", 0, nil, 0, 0),
			{PathKind: "unknownid", Body: "review", Uid: 4, File: "allow"}, review(2, 5, "truncated", 0, nil, 0, 0),
			{PathKind: "reg", Binding: 1, Body: "review", Uid: 6, File: "allow", Patch: 2, KPatch: "kmark", Metrics: "mmark"}},
			Sched: []int{1, 2, 3, 4, 5, 6, 6, 5, 3, 2, 1, 1, 2, 3, 5, 6}},
	}
}

// every order of {A starts, A writes, A ends, B starts, B writes, B ends} for pairs of runs that differ in
// verdict, message, warnings, patch, exit status, on the same binding / two bindings of one hook / two hooks
func exhaustiveConc(tier string) []Input {
	type pair struct{ a, b Req }
	same := []pair{
		{review(0, 1, "deny", 4, []int{2}, 0, 0), review(0, 2, "allow", 0, nil, 0, 0)},
		{review(0, 1, "allow", 0, []int{7}, 0, 0), review(0, 2, "deny", 0, nil, 0, 0)},
		{review(0, 1, "allow", 0, nil, 0, 1), review(0, 2, "allow", 0, nil, 0, 0)},
		{review(0, 1, "empty", 0, nil, 0, 0), review(0, 2, "allow", 0, nil, 0, 0)},
		{review(1, 1, "allow", 0, []int{1}, 3, 0), review(1, 2, "allow", 0, nil, 6, 0)},
		// the other per-execution files: one run hands back Kubernetes operations and metrics, the other nothing
		{Req{PathKind: "reg", Binding: 0, Body: "review", Uid: 1, File: "allow", KPatch: "kmark", Metrics: "mmark"}, review(0, 2, "deny", 3, nil, 0, 0)},
		{Req{PathKind: "reg", Binding: 0, Body: "review", Uid: 1, File: "allow", KPatch: "krej-merge-missing"}, Req{PathKind: "reg", Binding: 0, Body: "review", Uid: 2, File: "allow", Metrics: "minv-noaction", Conv: "cok-empty-list"}},
	}
	twoBindings := []pair{
		{review(1, 1, "allow", 0, nil, 3, 0), review(0, 2, "deny", 5, nil, 0, 0)},
		{review(0, 1, "deny", 0, []int{3}, 0, 0), review(1, 2, "allow", 0, []int{4}, 5, 0)},
	}
	twoHooks := []pair{
		{review(0, 1, "deny", 4, nil, 0, 0), review(2, 2, "allow", 0, nil, 0, 0)},
		{review(2, 1, "allow", 0, nil, 0, 0), review(1, 2, "allow", 0, nil, 2, -9)},
	}
	var pairs []pair
	if tier == "quick" {
		pairs = append(pairs, same[0], same[4], same[5], twoBindings[0], twoHooks[0])
	} else {
		pairs = append(append(append(pairs, same...), twoBindings...), twoHooks...)
	}
	var ins []Input
	for _, p := range pairs {
		for _, s := range interleavings2(1, 2) {
			ins = append(ins, Input{Hooks: concHooks, Conc: true, Reqs: []Req{p.a, p.b}, Sched: s})
		}
	}
	return ins
}

// a random concurrent case: 1-3 hooks, 2-6 requests (mostly reviews on registered paths; also the other
// paths, bodies, response files, exits and side files of the sequential class), a random interleaving of
// their moves, sometimes cut short (the rest runs one after the other)
func (g *gen) concCase(sameHookBias bool) Input {
	hs := g.hooks(true)
	nb := nBindings(hs)
	n := 2 + g.r.Intn(5)
	if g.r.Chance(50) {
		n = 2 + g.r.Intn(2)
	}
	var reqs []Req
	first := g.r.Intn(nb)
	for k := 0; k < n; k++ {
		q := g.req(nb, k+1)
		if g.r.Chance(80) {
			q.PathKind, q.Body = "reg", "review"
		}
		if g.r.Chance(70) {
			// a clean verdict, so that the runs differ in what they say
			q.File = []string{"allow", "allow", "deny"}[g.r.Intn(3)]
			q.Msg, q.Warn, q.Patch = 0, nil, 0
			if g.r.Chance(60) {
				q.Msg = 1 + g.r.Intn(9)
			}
			if g.r.Chance(40) {
				q.Warn = []int{1 + g.r.Intn(9)}
			}
			if g.r.Chance(40) {
				q.Patch = 1 + g.r.Intn(9)
			}
		}
		if sameHookBias && g.r.Chance(70) {
			q.Binding = first // several requests for one binding
		}
		reqs = append(reqs, q)
	}
	var sched []int
	for k := range reqs {
		sched = append(sched, k+1, k+1, k+1)
	}
	for i := len(sched) - 1; i > 0; i-- {
		j := g.r.Intn(i + 1)
		sched[i], sched[j] = sched[j], sched[i]
	}
	if g.r.Chance(20) {
		sched = sched[:g.r.Intn(len(sched)+1)]
	}
	return Input{Hooks: hs, Conc: true, Reqs: reqs, Sched: sched}
}

func genConc(g *gen, tier string) []core.In[Input] {
	var ins []core.In[Input]
	for _, c := range exhaustiveConc(tier) {
		ins = append(ins, core.In[Input]{Input: c, Stream: "concurrent-exhaustive-pairs"})
	}
	n := 60
	switch tier {
	case "thorough":
		n = 2000
	case "search":
		n = 500
	}
	for i := 0; i < n; i++ {
		ins = append(ins, core.In[Input]{Input: g.concCase(i%3 != 2), Stream: "concurrent-random"})
	}
	return ins
}
