// Class Ctx of C14: admission bindings that carry the further documented binding parameters (`group`,
// `includeSnapshotsFrom`), hooks that also have `kubernetes` bindings, and hook processes that READ the
// binding context they are given before they answer: the scripted verdict is given only by a hook that
// was shown the admission request (type Validating / Mutating, review.request.uid of this request);
// what the process read is observed field by field and compared with C14_CtxModel (HandleEvent,
// UpdateSnapshots, MapV1) and judged by C14_CtxSpec.P_ctx.
package c14

import (
	"encoding/json"
	"fmt"
	"os"
	"path/filepath"
	"sort"
	"strings"

	"verifharness/internal/core"
)

// a `kubernetes` binding of a hook: k<Name>, group g<Group> (0 = none)
type KubeB struct {
	Name  int `json:"name"`
	Group int `json:"group,omitempty"`
}

// the further parameters of an admission binding: group g<Group> (0 = none), includeSnapshotsFrom k<n>...
type Param struct {
	Group   int   `json:"group,omitempty"`
	Include []int `json:"include,omitempty"`
}

func kubeName(n int) string  { return fmt.Sprintf("k%d", n) }
func groupName(n int) string { return fmt.Sprintf("g%d", n) }

func (p Param) into(m map[string]any) {
	if p.Group > 0 {
		m["group"] = groupName(p.Group)
	}
	if len(p.Include) > 0 {
		names := make([]string, len(p.Include))
		for i, n := range p.Include {
			names[i] = kubeName(n)
		}
		m["includeSnapshotsFrom"] = names
	}
}

func kubeConfig(kube []KubeB) []map[string]any {
	var out []map[string]any
	for _, kb := range kube {
		m := map[string]any{"name": kubeName(kb.Name), "apiVersion": "v1", "kind": "ConfigMap"}
		if kb.Group > 0 {
			m["group"] = groupName(kb.Group)
		}
		out = append(out, m)
	}
	return out
}

// Shown: the one binding context the hook process read
type Shown struct {
	Binding   string `json:"binding"`
	Type      string `json:"type"` // "" = no such field
	HasSnaps  bool   `json:"has_snapshots,omitempty"`
	Snapshots []int  `json:"snapshots,omitempty"` // keys k<n>, sorted
	HasGroup  bool   `json:"has_group_name,omitempty"`
	GroupName int    `json:"group_name,omitempty"`
	HasUid    bool   `json:"has_review_uid,omitempty"`
	Uid       int    `json:"review_uid,omitempty"`
	Note      string `json:"note,omitempty"`
}

// readShown parses what the hook process copied from $BINDING_CONTEXT_PATH.  In this class WHO ran is
// told from the context as it is (binding name; mutating iff the type says so): whether type and uid are
// the right ones is for the model and the spec to say, not for the harness.
func readShown(dir string, ro *ReqObs) {
	if ro.Ran == nil {
		return
	}
	b, err := os.ReadFile(filepath.Join(dir, "ctx"))
	if err != nil {
		return
	}
	var ctxs []map[string]json.RawMessage
	sh := &Shown{}
	ro.Shown = sh
	if err := json.Unmarshal(b, &ctxs); err != nil || len(ctxs) != 1 {
		sh.Note = "not an array of one binding context: " + string(b)
		sh.Type = "?"
		return
	}
	c := ctxs[0]
	str := func(k string) (string, bool) {
		raw, ok := c[k]
		if !ok {
			return "", false
		}
		var s string
		if json.Unmarshal(raw, &s) != nil {
			return "(not a string: " + string(raw) + ")", true
		}
		return s, true
	}
	sh.Binding, _ = str("binding")
	sh.Type, _ = str("type")
	if g, ok := str("groupName"); ok {
		sh.HasGroup, sh.GroupName = true, numSuffix(g, "g")
	}
	if raw, ok := c["snapshots"]; ok {
		sh.HasSnaps = true
		var m map[string]json.RawMessage
		_ = json.Unmarshal(raw, &m)
		for k := range m {
			sh.Snapshots = append(sh.Snapshots, numSuffix(k, "k"))
		}
		sort.Ints(sh.Snapshots)
	}
	if raw, ok := c["review"]; ok {
		var rv struct {
			Request *struct {
				UID *string `json:"uid"`
			} `json:"request"`
		}
		if json.Unmarshal(raw, &rv) == nil && rv.Request != nil && rv.Request.UID != nil {
			sh.HasUid, sh.Uid = true, numSuffix(*rv.Request.UID, "uid-")
		}
	}
	ro.Ran.Name, ro.Ran.Mut = sh.Binding, sh.Type == "Mutating"
}

func coqOptN(has bool, n int) string {
	if !has {
		return "None"
	}
	return fmt.Sprintf("(Some %d)", n)
}

func coqShown(ro ReqObs) string {
	sh := ro.Shown
	if sh == nil {
		return "None"
	}
	t := "RtKubernetes"
	switch sh.Type {
	case "":
		t = "RtAbsent"
	case "Validating":
		t = "RtValidating"
	case "Mutating":
		t = "RtMutating"
	case "Conversion":
		t = "RtConversion"
	case "Group":
		t = "RtGroup"
	case "Schedule":
		t = "RtSchedule"
	}
	snaps := "None"
	if sh.HasSnaps {
		snaps = "(Some " + core.CoqList(sh.Snapshots, core.CoqN) + ")"
	}
	return fmt.Sprintf("(Some (mkR %s %s %s %s %s))", core.CoqBytes(sh.Binding), t, snaps, coqOptN(sh.HasGroup, sh.GroupName), coqOptN(sh.HasUid, sh.Uid))
}

func coqParam(name string, ps []Param, i int) string {
	p := Param{}
	if i < len(ps) {
		p = ps[i]
	}
	return fmt.Sprintf("mkPB %s %s %s", core.CoqBytes(name), coqOptN(p.Group > 0, p.Group), core.CoqList(p.Include, core.CoqN))
}

func coqPHook(h HookSpec) string {
	kube := core.CoqList(h.Kube, func(kb KubeB) string { return fmt.Sprintf("(%d, %s)", kb.Name, coqOptN(kb.Group > 0, kb.Group)) })
	pbs := func(names []string, ps []Param) string {
		out := make([]string, len(names))
		for i, n := range names {
			out[i] = coqParam(n, ps, i)
		}
		return "[" + strings.Join(out, "; ") + "]"
	}
	return fmt.Sprintf("mkPHook %s %s %s", kube, pbs(h.Val, h.ValP), pbs(h.Mut, h.MutP))
}

func paramText(ps []Param, i int) string {
	if i >= len(ps) || (ps[i].Group == 0 && len(ps[i].Include) == 0) {
		return ""
	}
	var parts []string
	if ps[i].Group > 0 {
		parts = append(parts, "group: "+groupName(ps[i].Group))
	}
	if len(ps[i].Include) > 0 {
		names := make([]string, len(ps[i].Include))
		for k, n := range ps[i].Include {
			names[k] = kubeName(n)
		}
		parts = append(parts, "includeSnapshotsFrom: ["+strings.Join(names, ", ")+"]")
	}
	return " {" + strings.Join(parts, "; ") + "}"
}

// the parameters of the binding (hook, mut, name) that a request was served by, for the tags
func paramOf(in Input, r *Ran) (Param, bool) {
	if r == nil || r.Hook < 0 || r.Hook >= len(in.Hooks) {
		return Param{}, false
	}
	h := in.Hooks[r.Hook]
	names, ps := h.Val, h.ValP
	if r.Mut {
		names, ps = h.Mut, h.MutP
	}
	for i, n := range names {
		if n == r.Name && i < len(ps) {
			return ps[i], true
		}
	}
	return Param{}, false
}

func renderCtx(in Input, obs *Obs, c core.Case) core.Case {
	c.Tags = append(c.Tags, "class:ctx")
	var readable []string
	for h, hs := range in.Hooks {
		var kube []string
		for _, kb := range hs.Kube {
			s := kubeName(kb.Name)
			if kb.Group > 0 {
				s += " (group " + groupName(kb.Group) + ")"
			}
			kube = append(kube, s)
		}
		line := fmt.Sprintf("h%02d kubernetes bindings: [%s]", h, strings.Join(kube, ", "))
		for i, n := range hs.Val {
			line += fmt.Sprintf("; validating %q%s", n, paramText(hs.ValP, i))
		}
		for i, n := range hs.Mut {
			line += fmt.Sprintf("; mutating %q%s", n, paramText(hs.MutP, i))
		}
		readable = append(readable, line)
	}
	for _, r := range obs.Regs {
		readable = append(readable, fmt.Sprintf("h%02d %v %q registered %s", r.Hook, map[bool]string{false: "validating", true: "mutating"}[r.Mut], r.Name, r.Path))
	}
	reqs := make([]string, len(in.Reqs))
	allowedSeen, paramRun := false, false
	for i, q := range in.Reqs {
		ro := obs.Reqs[i]
		_, _, _, sideCoq, _, _ := sideFiles(q, i)
		reqs[i] = fmt.Sprintf("((%s, %s, mkRun %s (%s) %s, (%s, %s), (%s, %s)), %s)", core.CoqBytes(ro.Path), coqBody(q),
			core.CoqBool(q.Exit == 0), coqFile(q), sideCoq, coqAnswer(ro), coqRan(ro.Ran), core.CoqBool(ro.KApplied), core.CoqBool(ro.MApplied),
			coqShown(ro))
		ans := fmt.Sprintf("HTTP %d", ro.Status)
		if ro.Review != nil {
			ans = fmt.Sprintf("allowed=%v code=%d msg=%s(%q) warnings=%v patch=%d patchType=%v uid=%d", ro.Review.Allowed, ro.Review.Code, ro.Review.Msg, ro.Review.Raw, ro.Review.Warn, ro.Review.Patch, ro.Review.PatchType, ro.Review.Uid)
			if ro.Review.Allowed {
				allowedSeen = true
				c.Tags = append(c.Tags, "answer:allowed")
			} else {
				c.Tags = append(c.Tags, fmt.Sprintf("answer:denied/%d/%s", ro.Review.Code, ro.Review.Msg))
			}
		} else {
			c.Tags = append(c.Tags, fmt.Sprintf("answer:http%d", ro.Status))
		}
		ran, shown := "no hook ran", ""
		if ro.Ran != nil {
			ran = fmt.Sprintf("h%02d ran for %q mutating=%v", ro.Ran.Hook, ro.Ran.Name, ro.Ran.Mut)
			if p, ok := paramOf(in, ro.Ran); ok && (p.Group > 0 || len(p.Include) > 0) {
				paramRun = true
				switch {
				case p.Group > 0 && len(p.Include) > 0:
					c.Tags = append(c.Tags, "served-by:binding-with-group+includeSnapshotsFrom")
				case p.Group > 0:
					c.Tags = append(c.Tags, "served-by:binding-with-group")
				default:
					c.Tags = append(c.Tags, "served-by:binding-with-includeSnapshotsFrom")
				}
			} else {
				c.Tags = append(c.Tags, "served-by:binding-without-params")
			}
		}
		if sh := ro.Shown; sh != nil {
			shown = fmt.Sprintf("; the hook read binding=%q type=%q", sh.Binding, sh.Type)
			if sh.HasUid {
				shown += fmt.Sprintf(" review.request.uid=uid-%d", sh.Uid)
			} else {
				shown += " NO review.request.uid"
			}
			if sh.HasSnaps {
				shown += fmt.Sprintf(" snapshots keys=%v", sh.Snapshots)
				c.Tags = append(c.Tags, fmt.Sprintf("ctx-snapshots:%d", len(sh.Snapshots)))
			} else {
				c.Tags = append(c.Tags, "ctx-snapshots:absent")
			}
			if sh.HasGroup {
				shown += fmt.Sprintf(" groupName=g%d", sh.GroupName)
			}
			shown += " " + sh.Note
			c.Tags = append(c.Tags, "ctx-type:"+sh.Type)
		}
		readable = append(readable, fmt.Sprintf("POST %s body=%s uid=%d; hook (once it has seen the request): exit %d file %s %q => %s; %s%s; %s",
			ro.Path, q.Body, q.Uid, q.Exit, q.File, fileBytes(q), ans, ran, shown, ro.Note))
		bk := q.Body
		if k := strings.IndexByte(bk, ':'); k >= 0 {
			bk = bk[:k]
		}
		c.Tags = append(c.Tags, "path:"+q.PathKind, "body:"+bk, "file:"+q.File, fmt.Sprintf("exit:%d", q.Exit))
	}
	hooks := core.CoqList(in.Hooks, coqPHook)
	c.Coq = fmt.Sprintf("CCtx %s\n  %s\n  [%s]", hooks, core.CoqList(obs.Regs, coqReg), strings.Join(reqs, ";\n   "))
	c.JSON = map[string]any{"obs": obs, "readable": readable}
	c.Key = fmt.Sprintf("%v", in)
	c.Nontrivial = allowedSeen && paramRun
	return c
}

// ---------------------------------------------------------------- generation

// the requests of a systematic case: on the binding under test an allow, a denial with a message, an
// allow with warnings (and a patch on a mutating binding), a failing hook, an empty response; an unknown path
func ctxReqs(binding int, mut bool, uid0 int) []Req {
	patch := 0
	if mut {
		patch = 4
	}
	return []Req{
		{PathKind: "reg", Binding: binding, Body: "review", Uid: uid0 + 1, File: "allow"},
		{PathKind: "reg", Binding: binding, Body: "review", Uid: uid0 + 2, File: "deny", Msg: 3},
		{PathKind: "reg", Binding: binding, Body: "review", Uid: uid0 + 3, File: "allow", Warn: []int{2}, Patch: patch},
		{PathKind: "reg", Binding: binding, Body: "review", Uid: uid0 + 4, File: "allow", Exit: 1},
		{PathKind: "reg", Binding: binding, Body: "review", Uid: uid0 + 5, File: "empty"},
		{PathKind: "unknownid", Binding: binding, Body: "review", Uid: uid0 + 6, File: "allow"},
	}
}

// CtxCorpus: fixed cases that run first
func CtxCorpus() []Input {
	return []Input{
		// a plain and a grouped validating binding of one hook, a mutating one with includeSnapshotsFrom
		{Ctx: true, Hooks: []HookSpec{{Kube: []KubeB{{1, 1}, {2, 0}}, Val: []string{"plain.policy.example.com", "grouped.policy.example.com"}, ValP: []Param{{}, {Group: 1}},
			Mut: []string{"Mutate.Pods.example.com"}, MutP: []Param{{Include: []int{2}}}}},
			Reqs: []Req{
				{PathKind: "reg", Binding: 0, Body: "review", Uid: 1, File: "allow"},
				{PathKind: "reg", Binding: 1, Body: "review", Uid: 2, File: "allow"},
				{PathKind: "reg", Binding: 1, Body: "review", Uid: 3, File: "deny", Msg: 4},
				{PathKind: "reg", Binding: 2, Body: "review", Uid: 4, File: "allow", Patch: 5, Warn: []int{1}},
			}},
		// two bindings of one hook with the same webhook id: the later one owns the link, with ITS parameters
		{Ctx: true, Hooks: []HookSpec{{Kube: []KubeB{{1, 1}, {2, 2}, {3, 0}}, Mut: []string{"my_hook.example.com", "my-hook.example.com"}, MutP: []Param{{Group: 1}, {Group: 2, Include: []int{3}}}}},
			Reqs: []Req{
				{PathKind: "reg", Binding: 0, Body: "review", Uid: 1, File: "allow", Patch: 2},
				{PathKind: "reg", Binding: 1, Body: "review", Uid: 2, File: "allow"},
			}},
	}
}

// every kind of parameters on a validating and on a mutating binding, in a hook with and without
// kubernetes bindings, beside a binding without parameters (of the same hook) and one of another hook
func ctxExhaustive() []Input {
	type variant struct {
		name string
		kube []KubeB
		p    Param
	}
	variants := []variant{
		{"no-params/no-kube", nil, Param{}},
		{"no-params/kube", []KubeB{{1, 1}, {2, 0}}, Param{}},
		{"group-names-nothing/no-kube", nil, Param{Group: 1}},
		{"group-names-nothing/kube", []KubeB{{1, 2}, {2, 0}}, Param{Group: 1}},
		{"group-with-members", []KubeB{{1, 1}, {2, 0}, {3, 1}}, Param{Group: 1}},
		{"include", []KubeB{{1, 1}, {2, 0}}, Param{Include: []int{2}}},
		{"include-two", []KubeB{{1, 1}, {2, 0}}, Param{Include: []int{2, 1}}},
		{"group-with-members+include", []KubeB{{1, 1}, {2, 0}, {3, 1}}, Param{Group: 1, Include: []int{2}}},
		{"group-with-members+include-of-member", []KubeB{{1, 1}, {2, 0}, {3, 1}}, Param{Group: 1, Include: []int{3}}},
		{"group-names-nothing+include", []KubeB{{1, 0}, {2, 0}}, Param{Group: 5, Include: []int{1}}},
	}
	var ins []Input
	for _, v := range variants {
		for _, mut := range []bool{false, true} {
			h0 := HookSpec{Kube: v.kube}
			binding := 1
			if mut {
				// registration order: validating bindings of the hook first
				h0.Val, h0.Mut, h0.MutP = []string{"plain.example.com"}, []string{"Mutate.Pods.example.com"}, []Param{v.p}
			} else {
				h0.Val, h0.ValP = []string{"plain.example.com", "policy.example.com"}, []Param{{}, v.p}
			}
			other := HookSpec{Val: []string{"quota.example.com"}, Kube: []KubeB{{7, 1}}}
			reqs := ctxReqs(binding, mut, 0)
			reqs = append(reqs, Req{PathKind: "reg", Binding: 0, Body: "review", Uid: 7, File: "allow"},
				Req{PathKind: "reg", Binding: 2, Body: "review", Uid: 8, File: "deny", Msg: 1})
			ins = append(ins, Input{Ctx: true, Hooks: []HookSpec{h0, other}, Reqs: reqs})
		}
	}
	return ins
}

func (g *gen) ctxCase() Input {
	hs := g.hooks(!g.r.Chance(15))
	for h := range hs {
		nk := g.r.Intn(4)
		for k := 1; k <= nk; k++ {
			hs[h].Kube = append(hs[h].Kube, KubeB{Name: k, Group: g.r.Intn(3)})
		}
		param := func() Param {
			p := Param{}
			if g.r.Chance(55) {
				p.Group = 1 + g.r.Intn(3) // group 3 never has members
			}
			if nk > 0 && g.r.Chance(35) {
				for k := 1; k <= nk; k++ {
					if g.r.Chance(50) {
						p.Include = append(p.Include, k)
					}
				}
				if g.r.Chance(30) && len(p.Include) == 2 {
					p.Include[0], p.Include[1] = p.Include[1], p.Include[0]
				}
			}
			return p
		}
		for range hs[h].Val {
			hs[h].ValP = append(hs[h].ValP, param())
		}
		for range hs[h].Mut {
			hs[h].MutP = append(hs[h].MutP, param())
		}
	}
	nb := nBindings(hs)
	var reqs []Req
	for k := 2 + g.r.Intn(6); k > 0; k-- {
		q := g.req(nb, len(reqs)+1)
		if g.r.Chance(60) {
			q.PathKind, q.Body = "reg", "review"
		}
		reqs = append(reqs, q)
	}
	return Input{Ctx: true, Hooks: hs, Reqs: reqs}
}

func genCtx(g *gen, tier string) []core.In[Input] {
	var ins []core.In[Input]
	for _, c := range CtxCorpus() {
		ins = append(ins, core.In[Input]{Input: c, Stream: "ctx-corpus"})
	}
	for _, c := range ctxExhaustive() {
		ins = append(ins, core.In[Input]{Input: c, Stream: "ctx-exhaustive"})
	}
	n := 40
	switch tier {
	case "thorough":
		n = 1000
	case "search":
		n = 200
	}
	for i := 0; i < n; i++ {
		ins = append(ins, core.In[Input]{Input: g.ctxCase(), Stream: "ctx-random"})
	}
	return ins
}
