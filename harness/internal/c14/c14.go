// Package c14: correspondence driver for C14 (admission webhooks fail closed and relay
// the hook's verdict).
//
// One case = a set of hooks (bash stubs scripted by the harness) with kubernetesValidating /
// kubernetesMutating bindings, loaded by the real hook.Manager; the real
// ShellOperator.initValidatingWebhookManager (verif export) installs the real event handler
// on the real admission.WebhookManager (its Start() stops at the missing server certificate,
// so no listener is opened); AdmissionReviews are posted to the manager's real chi router
// through net/http/httptest.  The operator's ObjectPatcher works on a fake cluster and the
// hook stub also fills $KUBERNETES_PATCH_PATH, $METRICS_PATH and $CONVERSION_RESPONSE_PATH: every
// step of a HookRun task that follows the exit of the hook process (parse the files, apply the
// Kubernetes operations, send the metrics, save the response) can be made to fail.
package c14

import (
	"bytes"
	"context"
	"encoding/json"
	"fmt"
	"net/http"
	"net/http/httptest"
	"os"
	"path/filepath"
	"strconv"
	"strings"
	"time"

	"github.com/deckhouse/deckhouse/pkg/log"
	admv1 "k8s.io/api/admission/v1"
	metav1 "k8s.io/apimachinery/pkg/apis/meta/v1"
	"k8s.io/apimachinery/pkg/apis/meta/v1/unstructured"
	"k8s.io/client-go/dynamic"

	"github.com/flant/kube-client/fake"
	"github.com/flant/shell-operator/pkg/hook"
	objectpatch "github.com/flant/shell-operator/pkg/kube/object_patch"
	kubeeventsmanager "github.com/flant/shell-operator/pkg/kube_events_manager"
	metricstorage "github.com/flant/shell-operator/pkg/metric_storage"
	shell_operator "github.com/flant/shell-operator/pkg/shell-operator"
	"github.com/flant/shell-operator/pkg/webhook/admission"
	"github.com/flant/shell-operator/pkg/webhook/conversion"

	"verifharness/internal/core"
)

// ---------------------------------------------------------------- data

type HookSpec struct {
	Val []string `json:"val,omitempty"`
	Mut []string `json:"mut,omitempty"`
	// class Ctx (ctx.go): the `kubernetes` bindings of the hook and, parallel to Val / Mut, the further
	// parameters of the admission bindings (shorter lists = no parameters)
	Kube []KubeB `json:"kube,omitempty"`
	ValP []Param `json:"valp,omitempty"`
	MutP []Param `json:"mutp,omitempty"`
}

type Req struct {
	// path: kind + index of the binding (in registration order) it is derived from
	PathKind string `json:"path"` // reg | unknownid | unknownconf | empty | extra | doubleslash | trailing | confonly | rawname
	Binding  int    `json:"binding"`
	Body     string `json:"body"` // review | norequest:<n> | malformed:<n> | wrongct
	Uid      int    `json:"uid"`
	Exit     int    `json:"exit"`
	File     string `json:"file"`
	Msg      int    `json:"msg,omitempty"`
	Warn     []int  `json:"warn,omitempty"`
	Patch    int    `json:"patch,omitempty"`
	// the other files the hook hands back ("" = left empty): names of kVariants / mVariants / cVariants
	KPatch  string `json:"kpatch,omitempty"`
	Metrics string `json:"metrics,omitempty"`
	Conv    string `json:"conv,omitempty"`
	// class Size (size.go): File "sized" = a valid response whose content is described by Size
	Size *SizeSpec `json:"size,omitempty"`
}

type Input struct {
	Hooks []HookSpec `json:"hooks"`
	Reqs  []Req      `json:"reqs"`
	// Conc: the requests of the case are in flight at the same time (conc.go); their uids are distinct.
	// Sched: the order in which the held hook processes are moved on - request UIDS (not positions, so
	// that a case from which requests have been removed is still meaningful; unknown uids are skipped);
	// each occurrence lets that request run to its next hold point (hook process started / has written
	// its files) or to its end.  Afterwards every request is let run to its end, in order.
	Conc  bool  `json:"conc,omitempty"`
	Sched []int `json:"sched,omitempty"`
	// Ctx: the hook processes read their binding context before they answer, and what they read is
	// observed (ctx.go); the bindings may carry `group` / `includeSnapshotsFrom`
	Ctx bool `json:"ctx,omitempty"`
	// Sized: the whole content of every answer is observed (size.go)
	Sized bool `json:"sized,omitempty"`
}

type Reg struct {
	Hook int    `json:"hook"`
	Mut  bool   `json:"mut"`
	Name string `json:"name"`
	Path string `json:"path"`
}
type Ran struct {
	Hook int    `json:"hook"`
	Mut  bool   `json:"mut"`
	Name string `json:"name"`
}
type Review struct {
	Uid       int    `json:"uid"`
	Allowed   bool   `json:"allowed"`
	Code      int    `json:"code"`
	Msg       string `json:"msg"` // none | hook | hookfailed | nohook | properror | other
	M         int    `json:"m,omitempty"`
	Warn      []int  `json:"warn,omitempty"`
	Patch     int    `json:"patch,omitempty"`
	PatchType bool   `json:"patch_type,omitempty"`
	Raw       string `json:"raw,omitempty"`
	// class Size: the whole content of the answer - every warning, the decoded patch bytes, the message
	WarnB  []string `json:"warn_b,omitempty"`
	PatchB []byte   `json:"patch_b,omitempty"`
	MsgB   string   `json:"msg_b,omitempty"`
}
type ReqObs struct {
	Path   string  `json:"path"`
	Status int     `json:"status"`
	Review *Review `json:"review,omitempty"`
	Ran    *Ran    `json:"ran,omitempty"`
	Note   string  `json:"note,omitempty"`
	// side effects seen after the exchange: the marker object of this request exists in the
	// cluster / the marker metric of this request is in the hooks' metric storage
	KApplied bool `json:"k_applied,omitempty"`
	MApplied bool `json:"m_applied,omitempty"`
	// concurrent class: what the hook process found in its four output files when it started
	// ("" no process ran, "empty", "nonempty", "missing") and the files it was given
	Initial string   `json:"initial,omitempty"`
	Paths   []string `json:"paths,omitempty"`
	// class Ctx: what the hook process read in $BINDING_CONTEXT_PATH
	Shown *Shown `json:"shown,omitempty"`
	// class Size: the log step on its own (size.go)
	Dump *DumpObs `json:"dump,omitempty"`
}
type Obs struct {
	Regs []Reg    `json:"regs"`
	Reqs []ReqObs `json:"reqs"`
	// concurrent class: the moves as executed (positions of the requests), the largest number of hook
	// processes open at once, and temp files given to two runs that were open at the same time
	Moves   []int    `json:"moves,omitempty"`
	MaxOpen int      `json:"max_open,omitempty"`
	Shared  []string `json:"shared_paths,omitempty"`
	Err  string   `json:"err,omitempty"`
	// the hooks' configuration was refused by the loader (invalid generated input)
	Rejected string `json:"rejected,omitempty"`
}

// ---------------------------------------------------------------- the scripted hook

const hookScript = `#!/bin/bash
S='%s'
H='%s'
if [ "$1" = "--config" ]; then cat "$S/$H.config"; exit 0; fi
# concurrent class: one state directory per request, found by the uid in the binding context
D="$S"
if [ -d "$S/conc" ]; then
  U=$(grep -o '"uid": *"uid-[0-9]*"' "$BINDING_CONTEXT_PATH" | head -n 1 | grep -o '[0-9]*')
  D="$S/conc/q$U"
fi
cp "$BINDING_CONTEXT_PATH" "$D/ctx"
echo "$H" >> "$D/who"
if [ -f "$S/check" ]; then
  # class Ctx: look before answering.  The scripted answer is given only to the admission request
  # with the expected uid; a hook that is not shown the request denies
  T=$(grep -o '^    "type": *"[A-Za-z]*"' "$D/ctx" | head -n 1 | sed 's/.*: *"//; s/"//')
  U=$(grep -c '"uid": *"uid-'"$(cat "$S/check")"'"' "$D/ctx")
  if [ "$T" != "Validating" ] && [ "$T" != "Mutating" ] || [ "$U" = "0" ]; then
    printf '{"allowed":false,"message":"hookmsg-99"}' > "$VALIDATING_RESPONSE_PATH"
    exit 0
  fi
fi
if [ -p "$D/ev" ]; then
  # hold point 1: started.  Report the files given and what they hold, wait to be moved on
  ini=empty
  for f in "$VALIDATING_RESPONSE_PATH" "$KUBERNETES_PATCH_PATH" "$METRICS_PATH" "$CONVERSION_RESPONSE_PATH"; do
    [ -s "$f" ] && ini=nonempty
    [ -f "$f" ] || ini=missing
  done
  printf '%%s\n' "$BINDING_CONTEXT_PATH" "$METRICS_PATH" "$VALIDATING_RESPONSE_PATH" "$CONVERSION_RESPONSE_PATH" "$KUBERNETES_PATCH_PATH" > "$D/paths"
  echo "started $ini" > "$D/ev"
  read -r x < "$D/go"
fi
[ -f "$D/resp" ] && cp "$D/resp" "$VALIDATING_RESPONSE_PATH"
[ -f "$D/kpatch" ] && cp "$D/kpatch" "$KUBERNETES_PATCH_PATH"
[ -f "$D/metrics" ] && cp "$D/metrics" "$METRICS_PATH"
[ -f "$D/conv" ] && cp "$D/conv" "$CONVERSION_RESPONSE_PATH"
if [ -p "$D/ev" ]; then
  # hold point 2: written
  echo "written" > "$D/ev"
  read -r x < "$D/go"
fi
e=1
[ -f "$D/exit" ] && read e < "$D/exit"
# a negative number: the process dies by that signal (no exit status at all)
if [ "$e" -lt 0 ]; then kill -$((-e)) $$; sleep 5; fi
exit $e
`

func patchBytes(n int) string {
	return fmt.Sprintf(`[{"op":"add","path":"/metadata/labels/p","value":"%d"}]`, n)
}

// bytes the hook writes for a response-file kind
func fileBytes(q Req) string {
	warn := func() string {
		ws := make([]string, len(q.Warn))
		for i, w := range q.Warn {
			ws[i] = fmt.Sprintf("%q", "w-"+strconv.Itoa(w))
		}
		return "[" + strings.Join(ws, ",") + "]"
	}
	full := func(allowed bool) string {
		parts := []string{fmt.Sprintf(`"allowed":%v`, allowed)}
		if q.Msg > 0 {
			parts = append(parts, fmt.Sprintf(`"message":"hookmsg-%d"`, q.Msg))
		}
		if len(q.Warn) > 0 {
			parts = append(parts, `"warnings":`+warn())
		}
		if q.Patch > 0 {
			b, _ := json.Marshal([]byte(patchBytes(q.Patch))) // base64 string
			parts = append(parts, `"patch":`+string(b))
		}
		return "{" + strings.Join(parts, ",") + "}"
	}
	switch q.File {
	case "empty":
		return ""
	case "sized":
		if q.Size == nil {
			return ""
		}
		return q.Size.fileText()
	case "allow":
		return full(true)
	case "deny":
		return full(false)
	case "allowextra": // unknown members are ignored by the decoder
		return `{"allowed":true,"comment":"fine","nested":{"allowed":false}}`
	case "allowemptypatch":
		return `{"allowed":true,"patch":""}`
	case "null":
		return "null"
	case "emptyobj":
		return "{}\n"
	case "truncated":
		s := full(true)
		return s[:len(s)-1]
	case "truncated2":
		return `{"allowed":tr`
	case "wrongtype1":
		return `{"allowed":"true"}`
	case "wrongtype2":
		return `{"allowed":true,"warnings":"w-1"}`
	case "wrongtype3":
		return `{"allowed":true,"patch":123}`
	case "wrongtype4":
		return `{"allowed":1}`
	case "wrongtype5":
		return `{"allowed":true,"patch":"!!! not base64 !!!"}`
	case "wrongtype6":
		return `[{"allowed":true}]`
	case "nonjson":
		return "allowed: true\n"
	case "nonjson2":
		return "yes"
	case "allowtrail": // a complete allow response followed by other data
		return full(true) + `{"allowed":false,"message":"second thoughts"}`
	case "allowtrail2":
		return full(true) + " trailing garbage"
	case "allowtrail3": // a stray closing bracket is "other data" too
		return full(true) + "}"
	case "allowtrail4":
		return full(true) + "\n]"
	case "denytrail":
		return full(false) + ` {"allowed":true}`
	case "allowws": // white space after the object is not data
		return full(true) + "\n\n  \n"
	}
	return ""
}

// the abstract content of the file for Coq: FEmpty | FMalformed | FResp allowed msg warnings patch trailing
func coqFile(q Req) string {
	resp := func(allowed bool, msg int, warn []int, patch int, trailing bool) string {
		return fmt.Sprintf("FResp %s %d %s %d %s", core.CoqBool(allowed), msg, core.CoqList(warn, core.CoqN), patch, core.CoqBool(trailing))
	}
	switch q.File {
	case "empty":
		return "FEmpty"
	case "allow", "allowws":
		return resp(true, q.Msg, q.Warn, q.Patch, false)
	case "deny":
		return resp(false, q.Msg, q.Warn, q.Patch, false)
	case "allowextra", "allowemptypatch":
		return resp(true, 0, nil, 0, false)
	case "null", "emptyobj":
		return resp(false, 0, nil, 0, false)
	case "allowtrail", "allowtrail2", "allowtrail3", "allowtrail4":
		return resp(true, q.Msg, q.Warn, q.Patch, true)
	case "denytrail":
		return resp(false, q.Msg, q.Warn, q.Patch, true)
	}
	return "FMalformed"
}

// ---------------------------------------------------------------- the other files of a hook run

// A variant of one of the files shell-operator processes after the hook process has ended.
// Coq is the abstract content (C14_Model.kfile / mfile / cfile); the text may depend on the
// position i of the request in the case (marker names).
type sideVariant struct {
	Name string
	Text func(i int) string
	Coq  string
	Bad  bool // processing this file fails the run
}

const presentCM = "c14-present" // a ConfigMap that exists in namespace default before the first request

func markerCM(i int) string     { return fmt.Sprintf("c14-k-%d", i) }
func markerMetric(i int) string { return fmt.Sprintf("c14_marker_%d", i) }

func kMarkJSON(i int) string {
	return fmt.Sprintf(`{"operation":"CreateOrUpdate","object":{"apiVersion":"v1","kind":"ConfigMap","metadata":{"name":"%s","namespace":"default"},"data":{"k":"v"}}}`, markerCM(i))
}
func kMarkYAML(i int) string {
	return fmt.Sprintf("operation: CreateIfNotExists\nobject:\n  apiVersion: v1\n  kind: ConfigMap\n  metadata:\n    name: %s\n    namespace: default\n  data:\n    k: v\n", markerCM(i))
}

const kMergePresent = `{"operation":"MergePatch","apiVersion":"v1","kind":"ConfigMap","namespace":"default","name":"c14-present","mergePatch":{"data":{"seen":"yes"}}}`
const kMergeMissing = `{"operation":"MergePatch","apiVersion":"v1","kind":"ConfigMap","namespace":"default","name":"c14-no-such-object","mergePatch":{"data":{"seen":"yes"}}}`
const kMergeMissingYAML = "operation: MergePatch\napiVersion: v1\nkind: ConfigMap\nnamespace: default\nname: c14-no-such-object\nmergePatch:\n  data:\n    seen: \"yes\"\n"

func fixed(s string) func(int) string { return func(int) string { return s } }

var kVariants = []sideVariant{
	// every document valid, the API server accepts all of them
	{"kok-merge", fixed(kMergePresent), "KOps false false", false},
	{"kok-ignoremissing", fixed(`{"operation":"MergePatch","apiVersion":"v1","kind":"ConfigMap","namespace":"default","name":"c14-no-such-object","mergePatch":{"data":{"seen":"yes"}},"ignoreMissingObject":true}`), "KOps false false", false},
	{"kok-createifnotexists", fixed(`{"operation":"CreateIfNotExists","object":{"apiVersion":"v1","kind":"ConfigMap","metadata":{"name":"c14-present","namespace":"default"}}}`), "KOps false false", false},
	{"kok-deletemissing", fixed(`{"operation":"Delete","apiVersion":"v1","kind":"ConfigMap","namespace":"default","name":"c14-no-such-object"}`), "KOps false false", false},
	{"kmark", kMarkJSON, "KOps true false", false},
	{"kmark-yaml", kMarkYAML, "KOps true false", false},
	{"kmark+merge", func(i int) string { return kMarkJSON(i) + "\n" + kMergePresent + "\n" }, "KOps true false", false},
	// every document valid, the API server rejects one (every operation is executed all the same)
	{"krej-merge-missing", fixed(kMergeMissing), "KOps false true", true},
	{"krej-merge-missing-yaml", fixed(kMergeMissingYAML), "KOps false true", true},
	{"krej-create-exists", fixed(`{"operation":"Create","object":{"apiVersion":"v1","kind":"ConfigMap","metadata":{"name":"c14-present","namespace":"default"}}}`), "KOps false true", true},
	{"krej-jsonpatch-missing", fixed(`{"operation":"JSONPatch","apiVersion":"v1","kind":"ConfigMap","namespace":"default","name":"c14-no-such-object","jsonPatch":[{"op":"add","path":"/data/x","value":"1"}]}`), "KOps false true", true},
	{"kmark+rej", func(i int) string { return kMarkJSON(i) + "\n" + kMergeMissing + "\n" }, "KOps true true", true},
	{"krej+mark", func(i int) string { return kMergeMissing + "\n" + kMarkJSON(i) + "\n" }, "KOps true true", true},
	// ParseOperations fails: nothing is applied
	{"kbad-garbage", fixed("}{ ][ this is neither JSON nor YAML: ["), "KUnparsable", true},
	{"kbad-unknown-op", fixed(`{"operation":"Frobnicate","kind":"ConfigMap","name":"x"}`), "KUnparsable", true},
	{"kbad-delete-noname", fixed(`{"operation":"Delete","apiVersion":"v1","kind":"ConfigMap","namespace":"default"}`), "KUnparsable", true},
	{"kbad-merge-nopatch", fixed(`{"operation":"MergePatch","apiVersion":"v1","kind":"ConfigMap","namespace":"default","name":"c14-present"}`), "KUnparsable", true},
	{"kbad-mark+invalid", func(i int) string { return kMarkJSON(i) + "\n" + `{"operation":"Create"}` + "\n" }, "KUnparsable", true},
	{"kbad-truncated", func(i int) string { s := kMarkJSON(i); return s[:len(s)-2] }, "KUnparsable", true},
}

func mMark(i int) string {
	return fmt.Sprintf(`{"name":"%s","action":"add","value":1}`, markerMetric(i))
}

var mVariants = []sideVariant{
	{"mok-gauge", fixed(`{"name":"c14_gauge","set":3}`), "MOps false false", false},
	{"mok-two", fixed(`{"name":"c14_counter","add":1,"labels":{"kind":"a"}}` + "\n" + `{"name":"c14_gauge","action":"set","value":2}` + "\n"), "MOps false false", false},
	{"mok-expire", fixed(`{"group":"c14-group","action":"expire"}`), "MOps false false", false},
	{"mok-grouped", fixed(`{"group":"c14-group","name":"c14_grouped","action":"set","value":1}`), "MOps false false", false},
	{"mmark", mMark, "MOps true false", false},
	{"mmark+ok", func(i int) string { return mMark(i) + "\n" + `{"name":"c14_gauge","set":5}` + "\n" }, "MOps true false", false},
	// SendBatch validates the whole batch first
	{"minv-noaction", fixed(`{"name":"c14_x","value":1}`), "MOps false true", true},
	{"minv-badaction", fixed(`{"name":"c14_x","action":"increment","value":1}`), "MOps false true", true},
	{"minv-noname", fixed(`{"add":1}`), "MOps false true", true},
	{"minv-novalue", fixed(`{"name":"c14_x","action":"set"}`), "MOps false true", true},
	{"minv-observe-nobuckets", fixed(`{"name":"c14_h","action":"observe","value":1}`), "MOps false true", true},
	{"minv-setandadd", fixed(`{"name":"c14_x","set":1,"add":2}`), "MOps false true", true},
	{"minv-emptyobj", fixed(`{}`), "MOps false true", true},
	{"mmark+invalid", func(i int) string { return mMark(i) + "\n" + `{"name":"c14_x"}` + "\n" }, "MOps true true", true},
	{"minv+mark", func(i int) string { return `{"name":"c14_x","action":"expire"}` + "\n" + mMark(i) + "\n" }, "MOps true true", true},
	// MetricOperationsFromFile fails inside Hook.Run
	{"mbad-text", fixed("c14_gauge 3\n"), "MUnparsable", true},
	{"mbad-truncated", fixed(`{"name":"c14_gauge","set":`), "MUnparsable", true},
	{"mbad-array", fixed(`[{"name":"c14_gauge","set":3}]`), "MUnparsable", true},
	{"mbad-type", fixed(`{"name":"c14_gauge","set":"three"}`), "MUnparsable", true},
	{"mbad-mark+garbage", func(i int) string { return mMark(i) + " and then garbage" }, "MUnparsable", true},
}

var cVariants = []sideVariant{
	{"cok-empty-list", fixed(`{"convertedObjects":[]}`), "COk", false},
	{"cok-failed-message", fixed(`{"failedMessage":"not a conversion"}`), "COk", false},
	{"cbad-text", fixed("converted: none\n"), "CMalformed", true},
	{"cbad-type", fixed(`{"failedMessage":5}`), "CMalformed", true},
	{"cbad-truncated", fixed(`{"convertedObjects":[`), "CMalformed", true},
	{"cbad-array", fixed(`[]`), "CMalformed", true},
}

func findVariant(vs []sideVariant, name string) *sideVariant {
	for k := range vs {
		if vs[k].Name == name {
			return &vs[k]
		}
	}
	return nil
}

// text and abstract content of the three side files of request i
func sideFiles(q Req, i int) (k, m, c string, coq string, bad bool, unknown string) {
	kc, mc, cc := "KEmpty", "MEmpty", "CEmpty"
	pick := func(vs []sideVariant, name string, text *string, abs *string) {
		if name == "" {
			return
		}
		v := findVariant(vs, name)
		if v == nil {
			unknown = name
			return
		}
		*text, *abs = v.Text(i), "("+v.Coq+")"
		bad = bad || v.Bad
	}
	pick(kVariants, q.KPatch, &k, &kc)
	pick(mVariants, q.Metrics, &m, &mc)
	pick(cVariants, q.Conv, &c, &cc)
	return k, m, c, mc + " " + cc + " " + kc, bad, unknown
}

var noRequestBodies = []string{
	`{"apiVersion":"admission.k8s.io/v1","kind":"AdmissionReview"}`,
	`{}`,
	`null`,
	`{"request":null}`,
	`{"response":{"uid":"x","allowed":true}}`,
}
var malformedBodies = []string{
	``,
	`{`,
	`not json at all`,
	`[1,2,3]`,
	`{"request":5}`,
	`{"request":"allow"}`,
	`{"request":{"uid":17}}`,
	"\x00\x01\x02\xff\xfe",
	`{"apiVersion":"admission.k8s.io/v1","kind":"AdmissionReview","request":{"uid":"uid-1"`,
	`"allowed"`,
	`true`,
}

func reviewBody(uid int) string {
	return fmt.Sprintf(`{"apiVersion":"admission.k8s.io/v1","kind":"AdmissionReview","request":{"uid":"uid-%d","kind":{"group":"","version":"v1","kind":"Pod"},"resource":{"group":"","version":"v1","resource":"pods"},"name":"p","namespace":"default","operation":"CREATE","object":{"apiVersion":"v1","kind":"Pod","metadata":{"name":"p"}}}}`, uid)
}

func bodyBytes(q Req) (body string, ctype string) {
	ctype = "application/json"
	kind, idx := q.Body, 0
	if i := strings.IndexByte(q.Body, ':'); i >= 0 {
		kind = q.Body[:i]
		idx, _ = strconv.Atoi(q.Body[i+1:])
	}
	switch kind {
	case "review":
		return reviewBody(q.Uid), ctype
	case "norequest":
		return noRequestBodies[idx%len(noRequestBodies)], ctype
	case "malformed":
		return malformedBodies[idx%len(malformedBodies)], ctype
	case "wrongct":
		return reviewBody(q.Uid), "text/plain"
	}
	return "", ctype
}

func coqBody(q Req) string {
	switch {
	case q.Body == "review":
		return fmt.Sprintf("BReview %d", q.Uid)
	case strings.HasPrefix(q.Body, "norequest"):
		return "BNoRequest"
	case q.Body == "wrongct":
		return "BWrongContentType"
	}
	return "BMalformed"
}

func classify(msg string) (string, int) {
	switch {
	case msg == "":
		return "none", 0
	case strings.HasPrefix(msg, "hookmsg-"):
		n, err := strconv.Atoi(strings.TrimPrefix(msg, "hookmsg-"))
		if err == nil {
			return "hook", n
		}
	case msg == "Hook failed":
		return "hookfailed", 0
	case strings.HasPrefix(msg, "no hook found for "):
		return "nohook", 0
	case msg == "hook task prop error":
		return "properror", 0
	}
	return "other", 0
}

func numSuffix(s, prefix string) int {
	if !strings.HasPrefix(s, prefix) {
		return 9999
	}
	n, err := strconv.Atoi(strings.TrimPrefix(s, prefix))
	if err != nil {
		return 9999
	}
	return n
}

// ---------------------------------------------------------------- Run

func Run(in Input) (o Obs) {
	root, err := os.MkdirTemp("", "c14-")
	if err != nil {
		o.Err = err.Error()
		return
	}
	defer os.RemoveAll(root)
	hooksDir, state, tmp := filepath.Join(root, "hooks"), filepath.Join(root, "state"), filepath.Join(root, "tmp")
	for _, d := range []string{hooksDir, state, tmp} {
		if err := os.Mkdir(d, 0o755); err != nil {
			o.Err = err.Error()
			return
		}
	}
	rule := []map[string]any{{"apiGroups": []string{""}, "apiVersions": []string{"v1"}, "operations": []string{"*"}, "resources": []string{"pods"}}}
	for h, hs := range in.Hooks {
		name := fmt.Sprintf("h%02d.sh", h)
		cfg := map[string]any{"configVersion": "v1"}
		mk := func(names []string, params []Param) []map[string]any {
			var bs []map[string]any
			for i, n := range names {
				m := map[string]any{"name": n, "rules": rule}
				if i < len(params) {
					params[i].into(m)
				}
				bs = append(bs, m)
			}
			return bs
		}
		if len(hs.Val) > 0 {
			cfg["kubernetesValidating"] = mk(hs.Val, hs.ValP)
		}
		if len(hs.Mut) > 0 {
			cfg["kubernetesMutating"] = mk(hs.Mut, hs.MutP)
		}
		if kube := kubeConfig(hs.Kube); len(kube) > 0 {
			// they never fire here (no monitor is started): they exist so that an admission binding can
			// include their snapshots by name or by group
			cfg["kubernetes"] = kube
		}
		if len(hs.Val)+len(hs.Mut) == 0 {
			cfg["onStartup"] = 1
		}
		b, _ := json.Marshal(cfg)
		if err := os.WriteFile(filepath.Join(state, name+".config"), b, 0o644); err != nil {
			o.Err = err.Error()
			return
		}
		if err := os.WriteFile(filepath.Join(hooksDir, name), []byte(fmt.Sprintf(hookScript, state, name)), 0o755); err != nil {
			o.Err = err.Error()
			return
		}
	}
	caFile := filepath.Join(root, "ca.pem")
	_ = os.WriteFile(caFile, []byte("not a real CA: the bundle is only copied into the webhook configuration\n"), 0o644)

	// the cluster the hooks' Kubernetes operations go to: namespace default with one ConfigMap
	cluster := fake.NewFakeCluster(fake.ClusterVersionV119)
	cluster.CreateNs("default")
	cmGVR, err := cluster.Client.GroupVersionResource("v1", "ConfigMap")
	if err != nil {
		o.Err = "fake cluster: " + err.Error()
		return
	}
	cms := cluster.Client.Dynamic().Resource(cmGVR).Namespace("default")
	if _, err := cms.Create(context.TODO(), &unstructured.Unstructured{Object: map[string]any{
		"apiVersion": "v1", "kind": "ConfigMap", "metadata": map[string]any{"name": presentCM, "namespace": "default"}, "data": map[string]any{"a": "b"},
	}}, metav1.CreateOptions{}); err != nil {
		o.Err = "fake cluster: " + err.Error()
		return
	}
	kubeeventsmanager.DefaultFactoryStore.Reset()

	ctx, cancel := context.WithCancel(context.Background())
	defer cancel()
	op := shell_operator.NewShellOperator(ctx, shell_operator.WithLogger(log.NewNop()))
	defer op.Stop()
	op.MetricStorage = metricstorage.NewMetricStorage(ctx, "verif_", true, log.NewNop())
	hookMetrics := metricstorage.NewMetricStorage(ctx, "verif_hook_", true, log.NewNop())
	op.HookMetricStorage = hookMetrics
	op.KubeClient = cluster.Client
	op.ObjectPatcher = objectpatch.NewObjectPatcher(cluster.Client, log.NewNop())
	op.SetupEventManagers()
	op.AdmissionWebhookManager = admission.NewWebhookManager(nil)
	op.AdmissionWebhookManager.Settings = &admission.WebhookSettings{CAPath: caFile, ConfigurationName: "verif-c14"}
	op.AdmissionWebhookManager.Settings.ServiceName = "verif-svc"
	op.AdmissionWebhookManager.Namespace = "default"
	op.ConversionWebhookManager = conversion.NewWebhookManager()
	op.ConversionWebhookManager.Settings = &conversion.WebhookSettings{}
	op.HookManager = hook.NewHookManager(&hook.ManagerConfig{
		WorkingDir: hooksDir, TempDir: tmp,
		Kmgr: op.KubeEventsManager, Smgr: op.ScheduleManager,
		Wmgr: op.AdmissionWebhookManager, Cmgr: op.ConversionWebhookManager, Logger: log.NewNop(),
	})
	if err := op.HookManager.Init(); err != nil {
		// the configuration loader refused the hooks: no webhook exists, nothing to observe
		o.Rejected = err.Error()
		return
	}
	// the real initValidatingWebhookManager: Init(), EnableAdmissionBindings, the event handler,
	// then Start(), which stops at the missing server certificate before any listener is opened
	err = op.VerifInitValidatingWebhookManager()
	if err == nil || !strings.Contains(err.Error(), "load TLS certs") {
		o.Err = fmt.Sprintf("initValidatingWebhookManager: unexpected result %v", err)
		return
	}
	if op.AdmissionWebhookManager.Handler == nil || op.AdmissionWebhookManager.Handler.Handler == nil {
		o.Err = "admission event handler was not installed"
		return
	}
	router := op.AdmissionWebhookManager.Handler.Router

	// what was registered (the path Kubernetes would be told to call), per hook: validating, mutating
	for h := range in.Hooks {
		hk := op.HookManager.GetHook(fmt.Sprintf("h%02d.sh", h))
		if hk == nil {
			o.Err = "hook not loaded"
			return
		}
		for _, c := range hk.GetConfig().KubernetesValidating {
			o.Regs = append(o.Regs, Reg{h, false, c.BindingName, admission.VerifWebhookPath(c.Webhook)})
		}
		for _, c := range hk.GetConfig().KubernetesMutating {
			o.Regs = append(o.Regs, Reg{h, true, c.BindingName, admission.VerifWebhookPath(c.Webhook)})
		}
	}

	env := &runEnv{in: in, o: &o, state: state, router: router, cms: cms, hookMetrics: hookMetrics}
	if in.Conc {
		env.runConcurrent()
	} else {
		for qi, q := range in.Reqs {
			ro := ReqObs{Path: env.pathOf(q)}
			for _, f := range []string{"ctx", "who", "resp", "exit", "kpatch", "metrics", "conv", "check"} {
				_ = os.Remove(filepath.Join(state, f))
			}
			if in.Ctx {
				_ = os.WriteFile(filepath.Join(state, "check"), []byte(strconv.Itoa(q.Uid)+"\n"), 0o644)
			}
			if !env.scriptHook(state, q, qi) {
				return
			}
			rec := httptest.NewRecorder()
			router.ServeHTTP(rec, env.request(q, ro.Path))
			parseAnswer(rec, &ro)
			if in.Sized {
				sizedAnswer(rec, &ro)
				if q.File == "sized" && q.Size != nil && len(q.Size.Warn) <= 12 {
					ro.Dump = dumpStep(fileBytes(q))
				}
			}
			readRan(state, q, &ro)
			if in.Ctx {
				readShown(state, &ro)
			}
			env.sideEffects(qi, &ro)
			o.Reqs = append(o.Reqs, ro)
		}
	}
	if o.Err != "" {
		return
	}
	if left, _ := os.ReadDir(tmp); len(left) > 0 {
		o.Err = fmt.Sprintf("%d temporary files left behind", len(left))
	}
	return
}


// ---------------------------------------------------------------- pieces of one exchange

type runEnv struct {
	in          Input
	o           *Obs
	state       string
	router      http.Handler
	cms         dynamic.ResourceInterface
	hookMetrics *metricstorage.MetricStorage
}

// the URL path of a request, derived from the binding it names
func (env *runEnv) pathOf(q Req) string {
	o := env.o
	base := Reg{Path: "/hooks/none", Name: "none"}
	if len(o.Regs) > 0 {
		base = o.Regs[((q.Binding%len(o.Regs))+len(o.Regs))%len(o.Regs)]
	}
	id := strings.TrimPrefix(base.Path, "/hooks/")
	switch q.PathKind {
	case "reg":
		return base.Path
	case "unknownid":
		return "/hooks/no-such-webhook-example-com"
	case "unknownconf":
		return "/other/" + id
	case "empty":
		return "/"
	case "extra":
		return base.Path + "/extra"
	case "doubleslash":
		return "//hooks//" + id
	case "trailing":
		return base.Path + "/"
	case "confonly":
		return "/hooks"
	case "idonly":
		return "/" + id
	}
	// rawname: the binding name as written (not made URL safe)
	return "/hooks/" + base.Name
}

// scriptHook writes into dir what the hook process run for request q (number qi of the case) is to do
func (env *runEnv) scriptHook(dir string, q Req, qi int) bool {
	if fb := fileBytes(q); fb != "" {
		_ = os.WriteFile(filepath.Join(dir, "resp"), []byte(fb), 0o644)
	}
	kText, mText, cText, _, _, unknown := sideFiles(q, qi)
	if unknown != "" {
		env.o.Err = "unknown side file variant " + unknown
		return false
	}
	for name, text := range map[string]string{"kpatch": kText, "metrics": mText, "conv": cText} {
		if text != "" {
			_ = os.WriteFile(filepath.Join(dir, name), []byte(text), 0o644)
		}
	}
	_ = os.WriteFile(filepath.Join(dir, "exit"), []byte(strconv.Itoa(q.Exit)+"\n"), 0o644)
	return true
}

func (env *runEnv) request(q Req, path string) *http.Request {
	body, ctype := bodyBytes(q)
	rq := httptest.NewRequest(http.MethodPost, "http://verif.local"+path, bytes.NewReader([]byte(body)))
	rq.Header.Set("Content-Type", ctype)
	return rq
}

// parseAnswer: the HTTP status and, for a 200, the AdmissionResponse in the vocabulary of the model
func parseAnswer(rec *httptest.ResponseRecorder, ro *ReqObs) {
	ro.Status = rec.Code
	if rec.Code != http.StatusOK {
		return
	}
	var review admv1.AdmissionReview
	if err := json.Unmarshal(rec.Body.Bytes(), &review); err != nil || review.Response == nil {
		ro.Status = 599
		ro.Note = "undecodable answer: " + rec.Body.String()
		return
	}
	r := review.Response
	rv := &Review{Uid: numSuffix(string(r.UID), "uid-"), Allowed: r.Allowed}
	if r.Result != nil {
		rv.Code = int(r.Result.Code)
		rv.Msg, rv.M = classify(r.Result.Message)
		rv.Raw = r.Result.Message
	} else {
		rv.Msg = "none"
	}
	for _, w := range r.Warnings {
		rv.Warn = append(rv.Warn, numSuffix(w, "w-"))
	}
	if len(r.Patch) > 0 {
		rv.Patch = 9999
		for n := 1; n < 50; n++ {
			if string(r.Patch) == patchBytes(n) {
				rv.Patch = n
			}
		}
	}
	if r.PatchType != nil {
		rv.PatchType = true
		if *r.PatchType != admv1.PatchTypeJSONPatch {
			ro.Note = "patchType is " + string(*r.PatchType)
			rv.Patch = 9998
		}
	}
	ro.Review = rv
}

// readRan: which hook process ran, for which binding (from what the process left in dir)
func readRan(dir string, q Req, ro *ReqObs) {
	who, err := os.ReadFile(filepath.Join(dir, "who"))
	if err != nil {
		return
	}
	lines := strings.Fields(string(who))
	ran := &Ran{Hook: 9999}
	if len(lines) == 1 {
		ran.Hook = numSuffix(strings.TrimSuffix(lines[0], ".sh"), "h")
	} else {
		ro.Note += fmt.Sprintf(" %d hook processes ran: %v", len(lines), lines)
	}
	var ctxs []struct {
		Binding string `json:"binding"`
		Type    string `json:"type"`
		Review  struct {
			Request struct {
				UID string `json:"uid"`
			} `json:"request"`
		} `json:"review"`
	}
	b, _ := os.ReadFile(filepath.Join(dir, "ctx"))
	if err := json.Unmarshal(b, &ctxs); err != nil || len(ctxs) != 1 {
		ran.Name = "?"
		ro.Note += " unexpected binding context: " + string(b)
	} else {
		ran.Name = ctxs[0].Binding
		ran.Mut = ctxs[0].Type == "Mutating"
		if ctxs[0].Type != "Mutating" && ctxs[0].Type != "Validating" {
			ran.Name = "?type=" + ctxs[0].Type
		}
		if ctxs[0].Review.Request.UID != fmt.Sprintf("uid-%d", q.Uid) {
			ran.Name = "?uid=" + ctxs[0].Review.Request.UID
		}
	}
	ro.Ran = ran
}

// sideEffects: the marker object of request qi in the cluster, its marker metric in the storage
func (env *runEnv) sideEffects(qi int, ro *ReqObs) {
	if _, err := env.cms.Get(context.TODO(), markerCM(qi), metav1.GetOptions{}); err == nil {
		ro.KApplied = true
	}
	if fams, err := env.hookMetrics.Gatherer.Gather(); err != nil {
		ro.Note += " cannot gather the hooks' metrics: " + err.Error()
	} else {
		for _, f := range fams {
			if f.GetName() == markerMetric(qi) || strings.HasSuffix(f.GetName(), "_"+markerMetric(qi)) {
				ro.MApplied = true
			}
		}
	}
}

// ---------------------------------------------------------------- Render

func coqReg(r Reg) string {
	return fmt.Sprintf("R %d %s %s %s", r.Hook, core.CoqBool(r.Mut), core.CoqBytes(r.Name), core.CoqBytes(r.Path))
}

func coqAnswer(ro ReqObs) string {
	if ro.Review == nil {
		return fmt.Sprintf("AStatus %d", ro.Status)
	}
	rv := ro.Review
	msg := "AMOther"
	switch rv.Msg {
	case "none":
		msg = "AMNone"
	case "hook":
		msg = fmt.Sprintf("(AMHook %d)", rv.M)
	case "hookfailed":
		msg = "AMHookFailed"
	case "nohook":
		msg = "AMNoHook"
	case "properror":
		msg = "AMPropError"
	}
	return fmt.Sprintf("Rv %d %s %d %s %s %d %s", rv.Uid, core.CoqBool(rv.Allowed), rv.Code, msg,
		core.CoqList(rv.Warn, core.CoqN), rv.Patch, core.CoqBool(rv.PatchType))
}

func coqRan(r *Ran) string {
	if r == nil {
		return "None"
	}
	return fmt.Sprintf("W %d %s %s", r.Hook, core.CoqBool(r.Mut), core.CoqBytes(r.Name))
}

func Render(in Input, obs *Obs, crash string) core.Case {
	c := core.Case{}
	nb := 0
	for _, h := range in.Hooks {
		nb += len(h.Val) + len(h.Mut)
	}
	c.Tags = append(c.Tags, fmt.Sprintf("hooks:%d", len(in.Hooks)), fmt.Sprintf("bindings:%d", nb))
	if crash == "" && obs != nil && obs.Rejected != "" {
		c.Coq = "Case [] [] []"
		c.JSON = map[string]any{"obs": obs, "readable": []string{"configuration refused by the loader: " + obs.Rejected}}
		c.Key = fmt.Sprintf("rejected %v", in)
		c.Tags = append(c.Tags, "rejected-config")
		return c
	}
	if crash != "" || obs == nil || obs.Err != "" || len(obs.Reqs) != len(in.Reqs) {
		c.Coq = "CCrash"
		c.JSON = map[string]any{"crash": crash, "obs": obs}
		c.Key = fmt.Sprintf("crash %v", in)
		c.Tags = append(c.Tags, "crash")
		return c
	}
	if in.Conc {
		return renderConc(in, obs, c)
	}
	if in.Ctx {
		return renderCtx(in, obs, c)
	}
	if in.Sized {
		return renderSize(in, obs, c)
	}
	hooks := core.CoqList(in.Hooks, func(h HookSpec) string {
		return fmt.Sprintf("mkHook %s %s", core.CoqList(h.Val, core.CoqBytes), core.CoqList(h.Mut, core.CoqBytes))
	})
	reqs := make([]string, len(in.Reqs))
	var readable []string
	for _, r := range obs.Regs {
		readable = append(readable, fmt.Sprintf("h%02d %v %q registered %s", r.Hook, map[bool]string{false: "validating", true: "mutating"}[r.Mut], r.Name, r.Path))
	}
	allowedSeen, ranSeen, postExitFailAfterAllow := false, false, false
	for i, q := range in.Reqs {
		ro := obs.Reqs[i]
		_, _, _, sideCoq, sideBad, _ := sideFiles(q, i)
		reqs[i] = fmt.Sprintf("(%s, %s, mkRun %s (%s) %s, (%s, %s), (%s, %s))", core.CoqBytes(ro.Path), coqBody(q),
			core.CoqBool(q.Exit == 0), coqFile(q), sideCoq, coqAnswer(ro), coqRan(ro.Ran), core.CoqBool(ro.KApplied), core.CoqBool(ro.MApplied))
		ans := fmt.Sprintf("HTTP %d", ro.Status)
		if ro.Review != nil {
			ans = fmt.Sprintf("allowed=%v code=%d msg=%s(%q) warnings=%v patch=%d patchType=%v uid=%d", ro.Review.Allowed, ro.Review.Code, ro.Review.Msg, ro.Review.Raw, ro.Review.Warn, ro.Review.Patch, ro.Review.PatchType, ro.Review.Uid)
			if ro.Review.Allowed {
				allowedSeen = true
				c.Tags = append(c.Tags, "answer:allowed")
			} else {
				c.Tags = append(c.Tags, fmt.Sprintf("answer:denied/%d/%s", ro.Review.Code, ro.Review.Msg))
			}
		} else {
			c.Tags = append(c.Tags, fmt.Sprintf("answer:http%d", ro.Status))
		}
		ran := "no hook ran"
		if ro.Ran != nil {
			ranSeen = true
			ran = fmt.Sprintf("h%02d ran for %q mutating=%v", ro.Ran.Hook, ro.Ran.Name, ro.Ran.Mut)
		}
		side := ""
		if q.KPatch != "" || q.Metrics != "" || q.Conv != "" {
			kText, mText, cText, _, _, _ := sideFiles(q, i)
			side = fmt.Sprintf(" kubernetes-patch %s %q metrics %s %q conversion-response %s %q", q.KPatch, kText, q.Metrics, mText, q.Conv, cText)
		}
		readable = append(readable, fmt.Sprintf("POST %s body=%s uid=%d; hook: exit %d file %s %q%s => %s; %s; marker object applied=%v marker metric applied=%v %s",
			ro.Path, q.Body, q.Uid, q.Exit, q.File, fileBytes(q), side, ans, ran, ro.KApplied, ro.MApplied, ro.Note))
		bk := q.Body
		if i := strings.IndexByte(bk, ':'); i >= 0 {
			bk = bk[:i]
		}
		c.Tags = append(c.Tags, "path:"+q.PathKind, "body:"+bk, "file:"+q.File, fmt.Sprintf("exit:%d", q.Exit))
		// the files processed after the exit of the hook process, by abstract class
		coqOf := func(vs []sideVariant, name, empty string) string {
			if v := findVariant(vs, name); v != nil {
				return v.Coq
			}
			return empty
		}
		c.Tags = append(c.Tags, "kpatch:"+coqOf(kVariants, q.KPatch, "KEmpty"), "metrics:"+coqOf(mVariants, q.Metrics, "MEmpty"), "conv:"+coqOf(cVariants, q.Conv, "CEmpty"))
		verdict := "other"
		switch coqFile(q) {
		case "FEmpty":
			verdict = "empty"
		case "FMalformed":
			verdict = "malformed"
		default:
			if strings.HasPrefix(coqFile(q), "FResp true") {
				verdict = "allow"
			} else {
				verdict = "deny"
			}
			if strings.HasSuffix(coqFile(q), "true") {
				verdict += "+trailing"
			}
		}
		switch {
		case q.KPatch == "" && q.Metrics == "" && q.Conv == "":
			c.Tags = append(c.Tags, "post-exit:no-side-files")
		case ro.Ran == nil:
			c.Tags = append(c.Tags, "post-exit:side-files-but-no-hook-ran")
		case q.Exit != 0:
			c.Tags = append(c.Tags, "post-exit:side-files-after-nonzero-exit")
		case sideBad:
			c.Tags = append(c.Tags, "post-exit:step-fails-after-exit0/response-"+verdict)
			if verdict == "allow" {
				postExitFailAfterAllow = true
			}
		default:
			c.Tags = append(c.Tags, "post-exit:all-steps-ok/response-"+verdict)
		}
		if ro.KApplied {
			c.Tags = append(c.Tags, "effect:kubernetes-operation-applied")
		}
		if ro.MApplied {
			c.Tags = append(c.Tags, "effect:metric-applied")
		}
	}
	if postExitFailAfterAllow {
		c.Tags = append(c.Tags, "case-has:allow-written-then-post-exit-failure")
	}
	c.Coq = fmt.Sprintf("Case %s\n  %s\n  [%s]", hooks, core.CoqList(obs.Regs, coqReg), strings.Join(reqs, ";\n   "))
	c.JSON = map[string]any{"obs": obs, "readable": readable}
	c.Key = fmt.Sprintf("%v", in)
	c.Nontrivial = allowedSeen && ranSeen && len(in.Reqs) >= 2
	return c
}

// ---------------------------------------------------------------- generation

// binding names: kubernetesValidating names must be lower-case RFC 1123 subdomains (the
// configuration loader rejects others), kubernetesMutating names are not checked, so
// upper-case letters and '_' exercise SafeURLString there; some pairs collide after it
var valPool = []string{
	"policy.example.com", "pod-check.example.com", "pod.check.example.com", "labels.example.io", "quota.example.com",
	"a.b.c", "x1.example.com", "deny-all.example.com", "hooks.example.com", "double--dash.example.com", "double-dash.example.com",
}
var mutPool = append([]string{"podCheck.example.com", "Mutate.Pods.example.com", "my_hook.example.com", "X1.example.com", "my-hook.example.com"}, valPool...)

var fileKinds = []string{"empty", "allow", "deny", "allowextra", "allowemptypatch", "null", "emptyobj", "truncated", "truncated2",
	"wrongtype1", "wrongtype2", "wrongtype3", "wrongtype4", "wrongtype5", "wrongtype6", "nonjson", "nonjson2"}
var trailingFiles = []string{"allowtrail", "allowtrail2", "allowtrail3", "allowtrail4", "denytrail", "allowws"}
var pathKinds = []string{"reg", "reg", "reg", "unknownid", "unknownconf", "empty", "extra", "doubleslash", "trailing", "confonly", "idonly", "rawname"}

type gen struct{ r *core.Rng }

func (g *gen) hooks(distinct bool) []HookSpec {
	nh := 1 + g.r.Intn(3)
	hs := make([]HookSpec, nh)
	used := map[string]bool{}
	pick := func(pool []string) string {
		for try := 0; try < 20; try++ {
			n := pool[g.r.Intn(len(pool))]
			k := strings.ToLower(strings.NewReplacer("-", "", ".", "", "_", "").Replace(n)) // coarse collision key
			if !distinct || !used[k] {
				used[k] = true
				return n
			}
		}
		return fmt.Sprintf("extra%d.example.com", len(used))
	}
	total := 0
	has := func(l []string, n string) bool {
		for _, x := range l {
			if x == n {
				return true
			}
		}
		return false
	}
	for h := range hs {
		// the configuration loader rejects the same name twice in one list
		for i := g.r.Intn(3); i > 0; i-- {
			if n := pick(valPool); !has(hs[h].Val, n) {
				hs[h].Val = append(hs[h].Val, n)
				total++
			}
		}
		for i := g.r.Intn(3); i > 0; i-- {
			if n := pick(mutPool); !has(hs[h].Mut, n) {
				hs[h].Mut = append(hs[h].Mut, n)
				total++
			}
		}
	}
	if total == 0 {
		hs[0].Val = append(hs[0].Val, pick(valPool))
	}
	return hs
}

func (g *gen) req(nb int, uid int) Req {
	q := Req{PathKind: pathKinds[g.r.Intn(len(pathKinds))], Binding: g.r.Intn(nb), Body: "review", Uid: uid, File: "allow"}
	if g.r.Chance(25) {
		q.Exit = []int{1, 2, 137, -9, -15}[g.r.Intn(5)] // negative: killed by that signal
	}
	switch k := g.r.Intn(100); {
	case k < 45:
		q.File = []string{"allow", "allow", "deny"}[g.r.Intn(3)]
		if g.r.Chance(50) {
			q.Msg = 1 + g.r.Intn(9)
		}
		for i := g.r.Intn(3); i > 0 && g.r.Chance(60); i-- {
			q.Warn = append(q.Warn, 1+g.r.Intn(9))
		}
		if g.r.Chance(40) {
			q.Patch = 1 + g.r.Intn(9)
		}
	default:
		q.File = fileKinds[g.r.Intn(len(fileKinds))]
	}
	// the files processed after the exit of the hook process: a third of the requests carry some
	if g.r.Chance(33) {
		g.side(&q, g.r.Chance(50))
	}
	switch k := g.r.Intn(100); {
	case k < 6:
		q.Body = fmt.Sprintf("norequest:%d", g.r.Intn(len(noRequestBodies)))
	case k < 14:
		q.Body = fmt.Sprintf("malformed:%d", g.r.Intn(len(malformedBodies)))
	case k < 17:
		q.Body = "wrongct"
	}
	return q
}

func pickVariant(r *core.Rng, vs []sideVariant, bad bool) string {
	var names []string
	for _, v := range vs {
		if v.Bad == bad {
			names = append(names, v.Name)
		}
	}
	return names[r.Intn(len(names))]
}

// side fills the Kubernetes-operations / metrics / conversion-response files of a request.
// mustFail: at least one of them is one whose processing fails the run.
func (g *gen) side(q *Req, mustFail bool) {
	q.KPatch, q.Metrics, q.Conv = "", "", ""
	if g.r.Chance(60) {
		q.KPatch = pickVariant(g.r, kVariants, false)
	}
	if g.r.Chance(50) {
		q.Metrics = pickVariant(g.r, mVariants, false)
	}
	if g.r.Chance(15) {
		q.Conv = pickVariant(g.r, cVariants, false)
	}
	if !mustFail {
		if q.KPatch == "" && q.Metrics == "" && q.Conv == "" {
			q.KPatch = pickVariant(g.r, kVariants, false)
		}
		return
	}
	switch k := g.r.Intn(100); {
	case k < 50:
		q.KPatch = pickVariant(g.r, kVariants, true)
	case k < 85:
		q.Metrics = pickVariant(g.r, mVariants, true)
	default:
		q.Conv = pickVariant(g.r, cVariants, true)
	}
	if g.r.Chance(15) { // a second failing step
		q.Metrics = pickVariant(g.r, mVariants, true)
	}
}

func nBindings(hs []HookSpec) int {
	n := 0
	for _, h := range hs {
		n += len(h.Val) + len(h.Mut)
	}
	return n
}

// Corpus: fixed cases that run first.
func Corpus() []Input {
	two := []HookSpec{{Val: []string{"policy.example.com"}}, {Mut: []string{"Mutate.Pods.example.com"}, Val: []string{"quota.example.com"}}}
	return []Input{
		{Hooks: two, Reqs: []Req{
			{PathKind: "reg", Binding: 0, Body: "review", Uid: 1, File: "allow"},
			{PathKind: "reg", Binding: 0, Body: "review", Uid: 2, File: "deny", Msg: 4},
			{PathKind: "reg", Binding: 2, Body: "review", Uid: 3, File: "allow", Patch: 5, Warn: []int{1, 2}},
			{PathKind: "reg", Binding: 1, Body: "review", Uid: 4, File: "allow", Exit: 1},
			{PathKind: "reg", Binding: 1, Body: "review", Uid: 5, File: "empty"},
			{PathKind: "reg", Binding: 1, Body: "review", Uid: 6, File: "truncated"},
			{PathKind: "unknownid", Body: "review", Uid: 7, File: "allow"},
			{PathKind: "reg", Binding: 0, Body: "norequest:0", Uid: 8, File: "allow"},
			{PathKind: "reg", Binding: 0, Body: "malformed:1", Uid: 9, File: "allow"},
			// the hook wrote its verdict and was then killed by a signal: no exit status, a failure
			{PathKind: "reg", Binding: 0, Body: "review", Uid: 10, File: "allow", Exit: -9},
			{PathKind: "reg", Binding: 2, Body: "review", Uid: 11, File: "allow", Patch: 3, Exit: -15},
		}},
	}
}

// TrailingCorpus: witnesses of the repaired defect F19 — a complete allow response followed by
// other data used to be answered allowed=true (json.Decoder.Decode reads one value only).
func TrailingCorpus() []Input {
	one := []HookSpec{{Val: []string{"policy.example.com"}}}
	return []Input{
		{Hooks: one, Reqs: []Req{{PathKind: "reg", Binding: 0, Body: "review", Uid: 1, File: "allowtrail"}}},
		{Hooks: one, Reqs: []Req{{PathKind: "reg", Binding: 0, Body: "review", Uid: 1, File: "allowtrail2"},
			{PathKind: "reg", Binding: 0, Body: "review", Uid: 2, File: "denytrail", Msg: 3},
			{PathKind: "reg", Binding: 0, Body: "review", Uid: 3, File: "allowtrail3"},
			{PathKind: "reg", Binding: 0, Body: "review", Uid: 4, File: "allowtrail4", Patch: 2},
			{PathKind: "reg", Binding: 0, Body: "review", Uid: 5, File: "allowws", Warn: []int{3}}}},
	}
}

// PostExitCorpus: a hook that exits 0 and writes a valid response, while a step of the same
// HookRun task that follows the exit of the process fails (or does not): Kubernetes operations
// that cannot be parsed / are rejected by the API server, metrics that cannot be parsed / are
// invalid, an undecodable conversion response.
func PostExitCorpus() []Input {
	one := []HookSpec{{Val: []string{"policy.example.com"}}}
	two := []HookSpec{{Val: []string{"policy.example.com"}}, {Mut: []string{"Mutate.Pods.example.com"}}}
	return []Input{
		// one validating hook; the plainest failing run comes last (what a shrunk witness keeps)
		{Hooks: one, Reqs: []Req{
			{PathKind: "reg", Binding: 0, Body: "review", Uid: 1, File: "allow", KPatch: "kmark", Metrics: "mmark"},
			{PathKind: "reg", Binding: 0, Body: "review", Uid: 2, File: "allow", KPatch: "kmark", Metrics: "minv-noaction"},
			{PathKind: "reg", Binding: 0, Body: "review", Uid: 3, File: "allow", Metrics: "mbad-text"},
			{PathKind: "reg", Binding: 0, Body: "review", Uid: 4, File: "allow", Conv: "cbad-type", KPatch: "kmark"},
			{PathKind: "reg", Binding: 0, Body: "review", Uid: 5, File: "allow", KPatch: "kbad-garbage", Metrics: "mmark"},
			{PathKind: "reg", Binding: 0, Body: "review", Uid: 6, File: "allow", KPatch: "krej-merge-missing-yaml"},
		}},
		{Hooks: two, Reqs: []Req{
			{PathKind: "reg", Binding: 1, Body: "review", Uid: 7, File: "allow", Patch: 3, Warn: []int{4}, KPatch: "kmark+rej", Metrics: "mmark"},
			{PathKind: "reg", Binding: 1, Body: "review", Uid: 8, File: "allow", Patch: 3, KPatch: "kmark+merge", Metrics: "mmark+ok", Conv: "cok-empty-list"},
			{PathKind: "reg", Binding: 1, Body: "review", Uid: 9, File: "deny", Msg: 2, KPatch: "krej-create-exists"},
			{PathKind: "reg", Binding: 1, Body: "review", Uid: 10, File: "deny", Msg: 2, KPatch: "kmark", Metrics: "mmark"},
			{PathKind: "reg", Binding: 0, Body: "review", Uid: 11, File: "empty", KPatch: "krej-merge-missing"},
			{PathKind: "reg", Binding: 0, Body: "review", Uid: 12, File: "allow", Exit: 1, KPatch: "kmark", Metrics: "mmark"},
			{PathKind: "unknownid", Body: "review", Uid: 13, File: "allow", KPatch: "kmark", Metrics: "mmark"},
			{PathKind: "reg", Binding: 0, Body: "review", Uid: 14, File: "allow", Metrics: "minv-badaction"},
		}},
	}
}

// every variant of every side file alone, and the combinations that show the order of the steps,
// on a validating and a mutating binding x exit {0,1} x response {allow, allow+patch+warnings, deny, empty, malformed}
func exhaustivePostExit() []Input {
	hooks := []HookSpec{{Val: []string{"policy.example.com"}}, {Mut: []string{"Mutate.Pods.example.com"}}}
	type combo struct{ k, m, c string }
	var combos []combo
	for _, v := range kVariants {
		combos = append(combos, combo{k: v.Name})
	}
	for _, v := range mVariants {
		combos = append(combos, combo{m: v.Name})
	}
	for _, v := range cVariants {
		combos = append(combos, combo{c: v.Name})
	}
	combos = append(combos,
		combo{k: "kmark", m: "mmark"}, combo{k: "kmark", m: "mmark", c: "cok-empty-list"},
		combo{k: "kmark", m: "mmark+invalid"}, combo{k: "kmark", m: "minv-badaction"}, combo{k: "kmark", m: "mbad-truncated"},
		combo{k: "krej-merge-missing", m: "mmark"}, combo{k: "kmark+rej", m: "mmark"}, combo{k: "krej+mark", m: "minv-noname"},
		combo{k: "kbad-unknown-op", m: "mmark"}, combo{k: "kbad-mark+invalid", m: "mmark+invalid"},
		combo{k: "kmark", m: "mmark", c: "cbad-text"}, combo{k: "krej-create-exists", m: "minv-setandadd", c: "cbad-array"})
	type fk struct {
		file       string
		msg, patch int
		warn       []int
		exit       int
	}
	files := []fk{{file: "allow"}, {file: "allow", msg: 2, warn: []int{7}, patch: 6}, {file: "deny", msg: 3}, {file: "empty"}, {file: "truncated"},
		{file: "allowtrail"}, {file: "allow", exit: 1}, {file: "deny", exit: 1}, {file: "allow", exit: -9}}
	var ins []Input
	uid := 0
	const perCase = 12 // small cases: a failing one shrinks quickly
	for b := 0; b < 2; b++ {
		for fi, f := range files {
			if b == 1 && fi != 1 && fi != 2 {
				continue // the mutating binding: the verdict with patch and warnings, and a denial
			}
			var reqs []Req
			for _, c := range combos {
				uid++
				reqs = append(reqs, Req{PathKind: "reg", Binding: b, Body: "review", Uid: uid, Exit: f.exit, File: f.file, Msg: f.msg, Warn: f.warn, Patch: f.patch,
					KPatch: c.k, Metrics: c.m, Conv: c.c})
				if len(reqs) == perCase {
					ins = append(ins, Input{Hooks: hooks, Reqs: reqs})
					reqs = nil
				}
			}
			if len(reqs) > 0 {
				ins = append(ins, Input{Hooks: hooks, Reqs: reqs})
			}
		}
	}
	return ins
}

// the exhaustive product asked for by the design: paths x exit x response file (+ bodies)
func exhaustive() []Input {
	hooks := []HookSpec{{Val: []string{"policy.example.com"}}, {Mut: []string{"Mutate.Pods.example.com"}}}
	paths := []struct {
		kind string
		b    int
	}{{"reg", 0}, {"reg", 1}, {"unknownid", 0}, {"unknownconf", 0}, {"empty", 0}, {"extra", 0}, {"extra", 1}, {"doubleslash", 1}, {"trailing", 0}, {"confonly", 0}, {"idonly", 0}, {"rawname", 1}}
	type fk struct {
		file       string
		msg, patch int
		warn       []int
	}
	files := []fk{{file: "empty"}, {file: "allow"}, {file: "deny", msg: 3}, {file: "deny"}, {file: "allow", warn: []int{1, 2}}, {file: "allow", patch: 4},
		{file: "allow", msg: 2, warn: []int{7}, patch: 6}, {file: "deny", msg: 5, warn: []int{8}, patch: 9},
		{file: "truncated"}, {file: "truncated2"}, {file: "wrongtype1"}, {file: "wrongtype2"}, {file: "wrongtype3"}, {file: "wrongtype4"}, {file: "wrongtype5"}, {file: "wrongtype6"},
		{file: "nonjson"}, {file: "nonjson2"}, {file: "null"}, {file: "emptyobj"}, {file: "allowextra"}, {file: "allowemptypatch"},
		{file: "allowtrail"}, {file: "allowtrail2"}, {file: "allowtrail3"}, {file: "allowtrail4"}, {file: "denytrail", msg: 1}, {file: "allowws", patch: 3}}
	var ins []Input
	uid := 0
	for _, p := range paths {
		var reqs []Req
		for _, exit := range []int{0, 1, -9} {
			for _, f := range files {
				uid++
				reqs = append(reqs, Req{PathKind: p.kind, Binding: p.b, Body: "review", Uid: uid, Exit: exit, File: f.file, Msg: f.msg, Warn: f.warn, Patch: f.patch})
			}
		}
		ins = append(ins, Input{Hooks: hooks, Reqs: reqs})
	}
	// every malformed / request-less body on a registered path with a hook that would allow
	var reqs []Req
	for i := range noRequestBodies {
		uid++
		reqs = append(reqs, Req{PathKind: "reg", Binding: 0, Body: fmt.Sprintf("norequest:%d", i), Uid: uid, File: "allow"})
	}
	for i := range malformedBodies {
		uid++
		reqs = append(reqs, Req{PathKind: "reg", Binding: 1, Body: fmt.Sprintf("malformed:%d", i), Uid: uid, File: "allow"})
	}
	uid++
	reqs = append(reqs, Req{PathKind: "reg", Binding: 0, Body: "wrongct", Uid: uid, File: "allow"})
	ins = append(ins, Input{Hooks: hooks, Reqs: reqs})
	return ins
}

func Gen(r *core.Rng, tier string) ([]core.In[Input], bool) {
	var ins []core.In[Input]
	for _, c := range Corpus() {
		ins = append(ins, core.In[Input]{Input: c, Stream: "corpus"})
	}
	for _, c := range TrailingCorpus() {
		ins = append(ins, core.In[Input]{Input: c, Stream: "corpus"})
	}
	for _, c := range PostExitCorpus() {
		ins = append(ins, core.In[Input]{Input: c, Stream: "corpus"})
	}
	for _, c := range ConcCorpus() {
		ins = append(ins, core.In[Input]{Input: c, Stream: "corpus"})
	}
	// the product paths x exit x file is small: it runs in every tier
	for _, c := range exhaustive() {
		ins = append(ins, core.In[Input]{Input: c, Stream: "exhaustive"})
	}
	for _, c := range exhaustivePostExit() {
		ins = append(ins, core.In[Input]{Input: c, Stream: "exhaustive-post-exit"})
	}
	g := &gen{r: r}
	n := 120
	switch tier {
	case "thorough":
		n = 3000
	case "search":
		n = 600
	}
	for i := 0; i < n; i++ {
		stream := "random"
		distinct := true
		if i%8 == 7 {
			stream, distinct = "colliding-ids", false // binding names whose webhook ids may coincide
		}
		hs := g.hooks(distinct)
		nb := nBindings(hs)
		var reqs []Req
		for k := 1 + g.r.Intn(10); k > 0; k-- {
			reqs = append(reqs, g.req(nb, len(reqs)+1))
		}
		if i%10 == 9 {
			stream = "trailing-data"
			q := g.req(nb, len(reqs)+1)
			q.PathKind, q.Body, q.Exit = "reg", "review", 0
			q.File = trailingFiles[g.r.Intn(len(trailingFiles))]
			reqs = append(reqs, q)
		}
		if i%4 == 1 {
			// a valid verdict from a hook that exits 0, and a step after the exit that fails
			stream = "post-exit-failure"
			for k := 1 + g.r.Intn(2); k > 0; k-- {
				q := g.req(nb, len(reqs)+1)
				q.PathKind, q.Body, q.Exit = "reg", "review", 0
				q.File = []string{"allow", "allow", "allow", "deny"}[g.r.Intn(4)]
				g.side(&q, true)
				reqs = append(reqs, q)
			}
		}
		ins = append(ins, core.In[Input]{Input: Input{Hooks: hs, Reqs: reqs}, Stream: stream})
	}
	// requests that overlap in time (conc.go); generated last so that the streams above are what they were
	ins = append(ins, genConc(g, tier)...)
	// bindings with group / includeSnapshotsFrom, hooks that read their context (ctx.go)
	ins = append(ins, genCtx(g, tier)...)
	// the size of what the hook answers: many / long warnings, long messages, long patches (size.go)
	ins = append(ins, genSize(g, tier)...)
	return ins, false
}

var Driver = core.Driver[Input, Obs]{
	Spec: core.Spec{Property: "C14", Imports: []string{"C14_Model", "C14_Spec", "C14_CtxModel", "C14_SizeModel", "C14_Corr"}, Corr: "C14_Corr", Triggers: nil, ShrinkKey: "reqs",
		Rule: "one case = 1-3 real hooks (bash stubs) with kubernetesValidating/kubernetesMutating bindings loaded by the real hook.Manager, the real initValidatingWebhookManager event handler on the real admission router (httptest, no listener), and a list of AdmissionReview posts, each with a scripted hook exit status, response file and the other files shell-operator processes after the exit of the hook process ($KUBERNETES_PATCH_PATH on a fake cluster, $METRICS_PATH, $CONVERSION_RESPONSE_PATH: empty / processed without error / failing the run at parse time / failing it when applied); observed: marker Kubernetes object applied, marker metric applied, registered path of every binding, HTTP status / AdmissionResponse (uid, allowed, code, message, warnings, patch, patchType), which hook process ran for which binding. Streams: corpus; exhaustive (every tier): 12 path kinds {registered validating, registered mutating, unknown webhook id, unknown configuration id, empty, extra segment, doubled slashes, trailing slash, configuration only, id only, un-normalised name} x exit {0,1} x 28 response files {empty, allow, deny(+message), allow+warnings, allow+patch, all fields, truncated x2, wrong types x6, non-JSON x2, null, {}, unknown members, empty patch, object followed by other data x5, object followed by white space} + every request-less / malformed body / wrong content type; random (distinct webhook ids); colliding-ids (binding names with equal SafeURLString); trailing-data (a complete response object followed by other data — the repaired defect F19); exhaustive-post-exit (every tier): every variant of the three side files alone (19 Kubernetes-operation files, 20 metric files, 6 conversion responses) + 12 combinations showing the order of the steps x 8 (exit, response file) on a validating binding, x 2 (allow with patch and warnings, deny) on a mutating one; post-exit-failure (every 4th random case: exit 0 + valid verdict + a failing step after the exit); a third of all random requests carry side files. CONCURRENT class (conc.go): 2-6 reviews posted to the router from goroutines of their own, their scripted hook processes held on FIFOs at two points (started / has written its files) and moved on in the order of the case's schedule, every request observed as above plus what its hook process found in its output files at start; streams concurrent-exhaustive-pairs (every tier: all 20 orders of {A starts, A writes, A ends, B starts, B writes, B ends} x pairs of runs differing in verdict, message, warnings, patch, exit status and in the other files they hand back, on one binding / a validating and a mutating binding of one hook / two hooks: 5 pairs quick, 11 thorough) and concurrent-random (1-3 hooks, 2-6 requests of every kind incl. unknown paths, malformed bodies, failing exits, side files; random interleaving, sometimes cut short; two thirds biased to several requests for one binding). CTX class (ctx.go): hooks whose kubernetesValidating / kubernetesMutating bindings carry the further documented parameters `group` (a group that names nothing, or one that has `kubernetes` bindings of the hook as members) and `includeSnapshotsFrom`, with 0-3 `kubernetes` bindings beside them (which never fire: no monitor is started); the hook process READS $BINDING_CONTEXT_PATH before it answers - it gives the scripted verdict only when it is shown an admission request (type Validating / Mutating, review.request.uid of this request), otherwise it denies with message 99; observed per request, beside everything above, WHAT THE HOOK READ field by field (binding, type, keys of snapshots, groupName, review.request.uid; the harness expects nothing about them) - compared with C14_CtxModel.ctx_request (HandleEvent with the parameters of the binding that owns the link, the group merge of the loader, UpdateSnapshots, MapV1 statement by statement; snapshot keys as a set) and judged by C14_CtxSpec.P_ctx = C14_Spec.P + handed (the hook that ran read THE REQUEST under the type and name of its binding, never as a group) + snapshots_sound. Streams ctx-corpus (plain + grouped + including bindings of one hook; two bindings with one webhook id and different parameters), ctx-exhaustive (every tier: 10 kinds of parameters {none, group naming nothing, group with members, includeSnapshotsFrom one / two, both, include of a member, ...} x hook with / without kubernetes bindings x validating / mutating, each with allow, deny+message, allow+warnings(+patch), exit 1, empty response, unknown path, and requests to a binding without parameters of the same hook and of another hook), ctx-random (40 quick / 1000 thorough: random hooks as in the random stream incl. colliding ids, group 55%, includeSnapshotsFrom 35%). Tags class:ctx, served-by:<binding-with-group|...>, ctx-type:<type read>, ctx-snapshots:<n|absent>. SIZE class (size.go): the scripted hooks write raw JSON responses of any size - 0..100+ warnings of 0..64 KiB each (one repeated byte, a 7-byte cycle, characters JSON escapes, two-byte UTF-8), messages of such lengths, JSONPatch documents of 60 bytes..64 KiB (base64 in the file) whose bulk is one string value / one key / many small operations; the WHOLE answer is observed (every warning, the decoded patch bytes, the message text, patchType) and compared in full with C14_SizeModel.size_review (identity on the parsed content; the log step Response.Dump() of handleRunHook is a step of the model), for responses with at most 12 warnings the log step is also run on its own (real ResponseFromBytes on the file, real Dump() on the result) and its text and the Response afterwards are compared with C14_SizeModel.dump_step; judged by C14_SizeSpec.P_size = C14_Spec.P on the content-forgotten observation + relay_full (warnings element for element in order, patch byte for byte on mutating bindings, message of a denial) + nothing_invented. Byte strings travel compactly (chunks (n, pattern)) and are expanded in Coq before comparing. Streams size-exhaustive (every tier: number of warnings {0,1,4,5,6,7,9,20,100} on a validating and a mutating binding; string lengths {0,1,2,254..257,1023..1025,4096} x 4 kinds of content (the two rarer kinds: every other length) for warnings and messages; patch lengths {100,1000,1020..1027,1100,2047..2049,4095..4097} x 3 shapes (many-operations shape: x 2 offsets of the boundaries); 64 KiB patch / key / message / warning; products of {5,6,9 warnings} x {1,256,4096 bytes} x {1024,1025,2048 patch bytes}, the shapes in turn; each with a failing hook, an empty and a malformed file, an unknown path), size-random (40 quick / 400 thorough: random hooks, 1-5 requests, lengths biased to 0-8, 250-261, 1016-1031, powers of two +-2; interleaved with the systematic cases). Tags class:size, warnings:<bucket>, warning-len:/message-len:/patch-len:<bucket>, patch-shape:. non-trivial (size class) = one answer allowed and one response with more than 5 warnings or more than 1024 bytes of patch or message. non-trivial = at least 2 requests, one answered allowed and one hook run (concurrent class: at least two hook processes open at the same time; ctx class: one answered allowed and one run served by a binding with parameters). distinct = distinct input text"},
	Gen: Gen, Run: Run, Render: Render, PerShard: 30, Workers: 8, CaseTimout: 300 * time.Second,
}
