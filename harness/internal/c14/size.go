// Class Size of the C14 driver: the SIZE of what the hook answers.
//
// The scripted hooks write raw JSON responses with any number of warnings of any length, messages of any
// length and JSONPatch documents of any length (one long string value, one long key, many operations);
// the request goes through the same real chain as in the other classes (router -> event handler ->
// HookRun task -> hook process -> response file -> handleRunHook, which logs the response through Dump()
// -> handleReviewRequest), and the WHOLE content of the answer is observed: every warning, the
// base64-decoded patch bytes, the message text.  Coq compares all of it with C14_SizeModel.size_review
// (identity on the parsed content) and judges it with C14_SizeSpec.P_size.
package c14

import (
	"encoding/base64"
	"encoding/json"
	"fmt"
	"net/http/httptest"
	"strings"

	admv1 "k8s.io/api/admission/v1"

	"github.com/flant/shell-operator/pkg/webhook/admission"

	"verifharness/internal/core"
)

// WSpec: a string of Len bytes (a warning or the message); Kind chooses what it is filled with
// (0 one byte repeated, 1 a 7-byte cycle, 2 characters JSON has to escape, 3 two-byte UTF-8 characters)
type WSpec struct {
	Len  int `json:"len"`
	Kind int `json:"kind,omitempty"`
}

// PSpec: a JSONPatch document of Len bytes (once base64-decoded; at least the minimum of its shape).
// Shape value: one operation with a long string value; key: one operation with a long key in its path;
// ops: many small operations (the first value Off bytes longer, so that the boundaries between operations move).
type PSpec struct {
	Shape string `json:"shape"`
	Len   int    `json:"len"`
	Off   int    `json:"off,omitempty"`
}

// SizeSpec: the content of a valid response file
type SizeSpec struct {
	Allowed bool    `json:"allowed"`
	Warn    []WSpec `json:"warn,omitempty"`
	Msg     *WSpec  `json:"msg,omitempty"`   // nil: no "message" member
	Patch   *PSpec  `json:"patch,omitempty"` // nil: no "patch" member
}

var fillPatterns = []string{"x", "abcdefg", "a\"b\\c\n<&\t", "é"}

func fill(prefix string, n, kind int) string {
	if n <= len(prefix) {
		return prefix[:n]
	}
	pat := fillPatterns[((kind%4)+4)%4]
	var b strings.Builder
	b.WriteString(prefix)
	rem := n - len(prefix)
	if len(pat) == 2 && pat[0] >= 0x80 && rem%2 == 1 { // whole two-byte characters only
		b.WriteByte('x')
		rem--
	}
	for rem > 0 {
		k := len(pat)
		if k > rem {
			k = rem
		}
		b.WriteString(pat[:k])
		rem -= k
	}
	return b.String()
}

func (s *SizeSpec) warnings() []string {
	ws := make([]string, len(s.Warn))
	for i, w := range s.Warn {
		ws[i] = fill(fmt.Sprintf("w%d:", i+1), w.Len, w.Kind)
	}
	return ws
}

func (s *SizeSpec) message() string {
	if s.Msg == nil {
		return ""
	}
	return fill("m:", s.Msg.Len, s.Msg.Kind)
}

func (s *SizeSpec) patch() string {
	if s.Patch == nil {
		return ""
	}
	p := s.Patch
	pad := func(pre, post, pat string) string {
		n := p.Len - len(pre) - len(post)
		if n < 0 {
			n = 0
		}
		var b strings.Builder
		b.WriteString(pre)
		for i := 0; i < n; i++ {
			b.WriteByte(pat[i%len(pat)])
		}
		b.WriteString(post)
		return b.String()
	}
	pats := []string{"v", "0123456789abcdefghijklm"}
	switch p.Shape {
	case "key":
		return pad(`[{"op":"add","path":"/metadata/annotations/`, `","value":"v"}]`, []string{"k", "key-0123456789"}[((p.Off%2)+2)%2])
	case "ops":
		var ops []string
		total := 2
		for k := 0; ; k++ {
			v := fmt.Sprintf("%d", k%3) // three operations in turn: the document stays compact for Coq
			if k == 0 && p.Off > 0 {
				v += strings.Repeat("o", p.Off)
			}
			op := fmt.Sprintf(`{"op":"add","path":"/metadata/labels/l%d","value":"%s"}`, k%3, v)
			add := len(op)
			if k > 0 {
				add++
			}
			if k > 0 && total+add > p.Len {
				break
			}
			ops = append(ops, op)
			total += add
			if total >= p.Len {
				break
			}
		}
		if total < p.Len { // the last value grows to the length asked for
			last := ops[len(ops)-1]
			ops[len(ops)-1] = last[:len(last)-2] + strings.Repeat("z", p.Len-total) + `"}`
		}
		return "[" + strings.Join(ops, ",") + "]"
	}
	return pad(`[{"op":"add","path":"/metadata/annotations/a","value":"`, `"}]`, pats[((p.Off%2)+2)%2])
}

func jsonString(s string) string {
	b, _ := json.Marshal(s)
	return string(b)
}

// the raw JSON the hook writes
func (s *SizeSpec) fileText() string {
	parts := []string{fmt.Sprintf(`"allowed":%v`, s.Allowed)}
	if s.Msg != nil {
		parts = append(parts, `"message":`+jsonString(s.message()))
	}
	if len(s.Warn) > 0 {
		ws := s.warnings()
		for i := range ws {
			ws[i] = jsonString(ws[i])
		}
		parts = append(parts, `"warnings":[`+strings.Join(ws, ",")+`]`)
	}
	if s.Patch != nil {
		parts = append(parts, `"patch":"`+base64.StdEncoding.EncodeToString([]byte(s.patch()))+`"`)
	}
	return "{" + strings.Join(parts, ",") + "}"
}

// ---------------------------------------------------------------- observation

// sizedAnswer: the whole content of the answer (in addition to what parseAnswer keeps)
func sizedAnswer(rec *httptest.ResponseRecorder, ro *ReqObs) {
	if ro.Review == nil {
		return
	}
	var review admv1.AdmissionReview
	if err := json.Unmarshal(rec.Body.Bytes(), &review); err != nil || review.Response == nil {
		return
	}
	r := review.Response
	ro.Review.WarnB = append([]string{}, r.Warnings...)
	ro.Review.PatchB = append([]byte{}, r.Patch...)
	ro.Review.PatchType = r.PatchType != nil && *r.PatchType == admv1.PatchTypeJSONPatch
	if r.PatchType != nil && !ro.Review.PatchType {
		ro.Note += " patchType is " + string(*r.PatchType)
	}
	if len(ro.Review.Raw) > 200 { // Raw is the message again: keep it once
		ro.Review.Raw = ro.Review.Raw[:200]
	}
	if r.Result != nil {
		ro.Review.MsgB = r.Result.Message
	}
}

// DumpObs: the log step of handleRunHook on its own - the file parsed by the real ResponseFromBytes, the
// real Dump() called on the result: the text it returned, and whether the Response is afterwards what it was
type DumpObs struct {
	Line      string `json:"line"`
	Unchanged bool   `json:"unchanged"`
}

func dumpStep(text string) *DumpObs {
	r, err := admission.ResponseFromBytes([]byte(text))
	if err != nil || r == nil {
		return nil
	}
	before := admission.Response{Allowed: r.Allowed, Message: r.Message, Warnings: append([]string{}, r.Warnings...), Patch: append([]byte{}, r.Patch...)}
	line := r.Dump()
	same := before.Allowed == r.Allowed && before.Message == r.Message && len(before.Warnings) == len(r.Warnings) && string(before.Patch) == string(r.Patch)
	for i := 0; same && i < len(r.Warnings); i++ {
		same = before.Warnings[i] == r.Warnings[i]
	}
	return &DumpObs{Line: line, Unchanged: same}
}

// ---------------------------------------------------------------- compact byte strings for Coq

type chunk struct {
	n   int
	pat string
}

// compact: s as chunks (n, pat) = the first n bytes of pat pat pat ...  (C14_Corr.cb)
func compact(s string) []chunk {
	var out []chunk
	lit := 0 // start of the pending literal
	i := 0
	flush := func(to int) {
		if to > lit {
			out = append(out, chunk{to - lit, s[lit:to]})
		}
	}
	for i < len(s) {
		bestP, bestL := 0, 0
		for p := 1; p <= 200 && i+p <= len(s); p++ {
			j := i + p
			for j < len(s) && s[j] == s[j-p] {
				j++
			}
			if l := j - i; l > bestL && l >= p+12 && l >= 24 {
				bestP, bestL = p, l
			}
		}
		if bestP == 0 {
			i++
			continue
		}
		flush(i)
		out = append(out, chunk{bestL, s[i : i+bestP]})
		i += bestL
		lit = i
	}
	flush(len(s))
	return out
}

func expandChunks(cs []chunk) string {
	var b strings.Builder
	for _, c := range cs {
		for k := 0; k < c.n; k++ {
			b.WriteByte(c.pat[k%len(c.pat)])
		}
	}
	return b.String()
}

// coqCB renders s as a C14_Corr.cb; ok=false when the compact form does not stand for s (never expected)
func coqCB(s string) (string, bool) {
	cs := compact(s)
	ok := expandChunks(cs) == s
	return core.CoqList(cs, func(c chunk) string { return fmt.Sprintf("(%d, %s)", c.n, core.CoqBytes(c.pat)) }), ok
}

// ---------------------------------------------------------------- Render

func firstDiff(a, b string) int {
	n := len(a)
	if len(b) < n {
		n = len(b)
	}
	for i := 0; i < n; i++ {
		if a[i] != b[i] {
			return i
		}
	}
	if len(a) != len(b) {
		return n
	}
	return -1
}

func excerpt(s string, at int) string {
	lo, hi := at-12, at+12
	if lo < 0 {
		lo = 0
	}
	if hi > len(s) {
		hi = len(s)
	}
	return fmt.Sprintf("%q", s[lo:hi])
}

func short(s string) string {
	if len(s) <= 48 {
		return fmt.Sprintf("%q", s)
	}
	return fmt.Sprintf("%q...(%d bytes)", s[:40], len(s))
}

func sizeBucket(n int) string {
	switch {
	case n == 0:
		return "0"
	case n <= 5:
		return "1-5"
	case n <= 9:
		return "6-9"
	case n <= 30:
		return "10-30"
	}
	return ">30"
}

func lenBucket(n int) string {
	switch {
	case n == 0:
		return "0"
	case n < 255:
		return "1-254"
	case n <= 257:
		return "255-257"
	case n < 1021:
		return "258-1020"
	case n <= 1027:
		return "1021-1027"
	case n < 2048:
		return "1028-2047"
	case n <= 4096:
		return "2048-4096"
	case n < 65536:
		return "4097-65535"
	}
	return ">=64KiB"
}

func renderSize(in Input, obs *Obs, c core.Case) core.Case {
	c.Tags = append(c.Tags, "class:size")
	var readable []string
	for _, r := range obs.Regs {
		readable = append(readable, fmt.Sprintf("h%02d %v %q registered %s", r.Hook, map[bool]string{false: "validating", true: "mutating"}[r.Mut], r.Name, r.Path))
	}
	encOK := true
	cb := func(s string) string {
		t, ok := coqCB(s)
		encOK = encOK && ok
		return t
	}
	reqs := make([]string, len(in.Reqs))
	allowedSeen, bigSeen := false, false
	for i, q := range in.Reqs {
		ro := obs.Reqs[i]
		zfile, hookWrote := "ZMalformed", fmt.Sprintf("file %s %s", q.File, short(fileBytes(q)))
		var ws []string
		var msg, patch string
		switch {
		case q.File == "sized" && q.Size != nil:
			s := q.Size
			ws, msg, patch = s.warnings(), s.message(), s.patch()
			zfile = fmt.Sprintf("ZResp %s %s %s %s", core.CoqBool(s.Allowed), cb(msg), core.CoqList(ws, cb), cb(patch))
			lens := make([]int, len(ws))
			for k, w := range ws {
				lens[k] = len(w)
				c.Tags = append(c.Tags, "warning-len:"+lenBucket(len(w)))
			}
			shape := "none"
			if s.Patch != nil {
				shape = s.Patch.Shape
				c.Tags = append(c.Tags, "patch-len:"+lenBucket(len(patch)), "patch-shape:"+shape)
			} else {
				c.Tags = append(c.Tags, "patch-len:none")
			}
			c.Tags = append(c.Tags, "warnings:"+sizeBucket(len(ws)), "message-len:"+lenBucket(len(msg)))
			if len(ws) > 5 || len(patch) > 1024 || len(msg) > 1024 {
				bigSeen = true
			}
			hookWrote = fmt.Sprintf("response allowed=%v, message of %d bytes, %d warnings of %v bytes, patch (%s) of %d bytes", s.Allowed, len(msg), len(ws), lens, shape, len(patch))
		case q.File == "empty":
			zfile = "ZEmpty"
		}
		zans := fmt.Sprintf("ZStatus %d", ro.Status)
		ans := fmt.Sprintf("HTTP %d", ro.Status)
		if rv := ro.Review; rv != nil {
			zmsg := "ZClass AMNone"
			switch rv.Msg {
			case "none":
			case "hookfailed":
				zmsg = "ZClass AMHookFailed"
			case "nohook":
				zmsg = "ZClass AMNoHook"
			case "properror":
				zmsg = "ZClass AMPropError"
			default:
				zmsg = "ZText " + cb(rv.MsgB)
			}
			zans = fmt.Sprintf("ZRev %d %s %d (%s) %s %s %s", rv.Uid, core.CoqBool(rv.Allowed), rv.Code, zmsg,
				core.CoqList(rv.WarnB, cb), cb(string(rv.PatchB)), core.CoqBool(rv.PatchType))
			lens := make([]int, len(rv.WarnB))
			for k, w := range rv.WarnB {
				lens[k] = len(w)
			}
			ans = fmt.Sprintf("allowed=%v code=%d msg=%s %s, %d warnings of %v bytes, patch of %d bytes patchType=%v uid=%d", rv.Allowed, rv.Code, rv.Msg, short(rv.MsgB), len(rv.WarnB), lens, len(rv.PatchB), rv.PatchType, rv.Uid)
			if rv.Allowed {
				allowedSeen = true
				c.Tags = append(c.Tags, "answer:allowed")
			} else {
				c.Tags = append(c.Tags, fmt.Sprintf("answer:denied/%d/%s", rv.Code, rv.Msg))
			}
			// for the reader only (Coq judges): where a relayed answer departs from what the hook wrote
			if q.File == "sized" && q.Exit == 0 && ro.Ran != nil {
				for k := 0; k < len(ws) || k < len(rv.WarnB); k++ {
					switch {
					case k >= len(ws):
						ans += fmt.Sprintf("; warning #%d %s is not the hook's", k+1, short(rv.WarnB[k]))
					case k >= len(rv.WarnB):
						ans += fmt.Sprintf("; warning #%d of the hook is missing", k+1)
					case ws[k] != rv.WarnB[k]:
						ans += fmt.Sprintf("; warning #%d: hook wrote %s, answer has %s", k+1, short(ws[k]), short(rv.WarnB[k]))
					}
				}
				if d := firstDiff(patch, string(rv.PatchB)); d >= 0 {
					ans += fmt.Sprintf("; patch differs at byte %d: hook wrote %s, answer has %s", d, excerpt(patch, d), excerpt(string(rv.PatchB), d))
				}
			}
		} else {
			c.Tags = append(c.Tags, fmt.Sprintf("answer:http%d", ro.Status))
		}
		ran := "no hook ran"
		if ro.Ran != nil {
			ran = fmt.Sprintf("h%02d ran for %q mutating=%v", ro.Ran.Hook, ro.Ran.Name, ro.Ran.Mut)
			c.Tags = append(c.Tags, fmt.Sprintf("ran-mutating:%v", ro.Ran.Mut))
		}
		dumped := "None"
		if ro.Dump != nil {
			dumped = fmt.Sprintf("(Some (%s, %s))", cb(ro.Dump.Line), core.CoqBool(ro.Dump.Unchanged))
			c.Tags = append(c.Tags, "dump-step:observed")
			if !ro.Dump.Unchanged {
				ans += "; Dump() on the parsed file CHANGED the Response"
			}
		}
		reqs[i] = fmt.Sprintf("(%s, %d, %s, %s, (%s, %s), %s)", core.CoqBytes(ro.Path), q.Uid, core.CoqBool(q.Exit == 0), zfile, zans, coqRan(ro.Ran), dumped)
		readable = append(readable, fmt.Sprintf("POST %s uid=%d; hook: exit %d, %s => %s; %s %s", ro.Path, q.Uid, q.Exit, hookWrote, ans, ran, ro.Note))
		c.Tags = append(c.Tags, "path:"+q.PathKind, "file:"+q.File, fmt.Sprintf("exit:%d", q.Exit))
	}
	hooks := core.CoqList(in.Hooks, func(h HookSpec) string {
		return fmt.Sprintf("mkHook %s %s", core.CoqList(h.Val, core.CoqBytes), core.CoqList(h.Mut, core.CoqBytes))
	})
	if !encOK {
		c.Coq = "CCrash"
		c.JSON = map[string]any{"crash": "the compact form of a byte string does not expand to it", "readable": readable}
		c.Key = fmt.Sprintf("crash %v", in)
		c.Tags = append(c.Tags, "crash")
		return c
	}
	c.Coq = fmt.Sprintf("CSize %s\n  %s\n  [%s]", hooks, core.CoqList(obs.Regs, coqReg), strings.Join(reqs, ";\n   "))
	c.JSON = map[string]any{"regs": obs.Regs, "readable": readable}
	kb, _ := json.Marshal(in)
	c.Key = string(kb)
	c.Nontrivial = allowedSeen && bigSeen
	return c
}

// ---------------------------------------------------------------- generation

var sizeHooks = []HookSpec{{Val: []string{"policy.example.com"}}, {Mut: []string{"Mutate.Pods.example.com"}}}

func sized(binding, uid int, s SizeSpec) Req {
	return Req{PathKind: "reg", Binding: binding, Body: "review", Uid: uid, File: "sized", Size: &s}
}

func nWarn(n, l, kind int) []WSpec {
	ws := make([]WSpec, n)
	for i := range ws {
		ws[i] = WSpec{Len: l, Kind: kind}
	}
	return ws
}

var warnCounts = []int{0, 1, 4, 5, 6, 7, 9, 20, 100}
var strLens = []int{0, 1, 2, 254, 255, 256, 257, 1023, 1024, 1025, 4096}
var patchLens = []int{100, 1000, 1020, 1021, 1022, 1023, 1024, 1025, 1026, 1027, 1100, 2047, 2048, 2049, 4095, 4096, 4097}

// sizeExhaustive: every tier.  One dimension at a time on a validating and a mutating binding (small cases
// first: a failing one is small), then the product of the boundary values.
func sizeExhaustive() []Input {
	var ins []Input
	uid := 0
	next := func() int { uid++; return uid }
	// number of warnings (short ones), one request each
	for b := 0; b < 2; b++ {
		var reqs []Req
		for _, n := range warnCounts {
			reqs = append(reqs, sized(b, next(), SizeSpec{Allowed: true, Warn: nWarn(n, 4, 1)}))
		}
		reqs = append(reqs, sized(b, next(), SizeSpec{Allowed: false, Msg: &WSpec{Len: 9}, Warn: nWarn(7, 4, 0)}))
		ins = append(ins, Input{Sized: true, Hooks: sizeHooks, Reqs: reqs})
	}
	// length of a warning / of the message, every kind of content
	for kind := 0; kind < 4; kind++ {
		var reqs []Req
		for li, l := range strLens {
			if kind >= 2 && li%2 == 1 && l != 256 && l != 1024 { // the rarer kinds of content: every other length
				continue
			}
			reqs = append(reqs, sized(kind%2, next(), SizeSpec{Allowed: true, Warn: []WSpec{{Len: 3, Kind: kind}, {Len: l, Kind: kind}, {Len: l + 1, Kind: (kind + 1) % 4}}}))
			reqs = append(reqs, sized(kind%2, next(), SizeSpec{Allowed: false, Msg: &WSpec{Len: l, Kind: kind}}))
		}
		ins = append(ins, Input{Sized: true, Hooks: sizeHooks, Reqs: reqs})
	}
	// length of the patch x shape, on the mutating binding (and once on the validating one)
	for _, shape := range []string{"value", "key", "ops"} {
		for off := 0; off < 2; off++ {
			if off == 1 && shape != "ops" { // the offset moves the boundaries between operations
				continue
			}
			var reqs []Req
			for _, l := range patchLens {
				reqs = append(reqs, sized(1, next(), SizeSpec{Allowed: true, Patch: &PSpec{Shape: shape, Len: l, Off: off * 7}}))
			}
			ins = append(ins, Input{Sized: true, Hooks: sizeHooks, Reqs: reqs})
		}
		ins = append(ins, Input{Sized: true, Hooks: sizeHooks, Reqs: []Req{
			sized(0, next(), SizeSpec{Allowed: true, Patch: &PSpec{Shape: shape, Len: 1500}}),
			sized(1, next(), SizeSpec{Allowed: false, Msg: &WSpec{Len: 5}, Patch: &PSpec{Shape: shape, Len: 1500}}),
			sized(1, next(), SizeSpec{Allowed: true, Patch: &PSpec{Shape: shape, Len: 1500}}),
		}})
	}
	// 64 KiB: one long value, one long key, a message and a warning of that size
	ins = append(ins, Input{Sized: true, Hooks: sizeHooks, Reqs: []Req{
		sized(1, next(), SizeSpec{Allowed: true, Patch: &PSpec{Shape: "value", Len: 65536, Off: 1}}),
		sized(1, next(), SizeSpec{Allowed: true, Patch: &PSpec{Shape: "key", Len: 65537}}),
		sized(0, next(), SizeSpec{Allowed: false, Msg: &WSpec{Len: 65536, Kind: 1}, Warn: []WSpec{{Len: 65536, Kind: 2}}}),
	}})
	// all combined at the boundary values
	for _, n := range []int{5, 6, 9} {
		var reqs []Req
		for _, wl := range []int{1, 256, 4096} {
			for _, pl := range []int{1024, 1025, 2048} {
				shape := []string{"value", "ops", "key"}[(n+wl+pl)%3]
				reqs = append(reqs, sized(1, next(), SizeSpec{Allowed: true, Msg: &WSpec{Len: wl, Kind: 1}, Warn: nWarn(n, wl, n%4), Patch: &PSpec{Shape: shape, Len: pl}}))
			}
		}
		// and what is not relayed: a failing hook, an empty and a malformed file, an unknown path
		reqs = append(reqs, Req{PathKind: "reg", Binding: 1, Body: "review", Uid: next(), File: "sized", Exit: 1, Size: &SizeSpec{Allowed: true, Warn: nWarn(n, 3, 0), Patch: &PSpec{Shape: "value", Len: 1100}}},
			Req{PathKind: "reg", Binding: 1, Body: "review", Uid: next(), File: "empty"},
			Req{PathKind: "reg", Binding: 0, Body: "review", Uid: next(), File: "truncated2"},
			Req{PathKind: "unknownid", Body: "review", Uid: next(), File: "sized", Size: &SizeSpec{Allowed: true, Warn: nWarn(n, 3, 0)}})
		ins = append(ins, Input{Sized: true, Hooks: sizeHooks, Reqs: reqs})
	}
	return ins
}

func (g *gen) pickLen(max int) int {
	switch g.r.Intn(6) {
	case 0:
		return g.r.Intn(8)
	case 1:
		return 250 + g.r.Intn(12)
	case 2:
		return 1016 + g.r.Intn(16)
	case 3:
		return []int{2048, 4096, 8192, 16384}[g.r.Intn(4)] - 2 + g.r.Intn(5)
	}
	return g.r.Intn(max)
}

func (g *gen) sizeSpec() SizeSpec {
	s := SizeSpec{Allowed: !g.r.Chance(25)}
	if g.r.Chance(70) {
		n := g.r.Intn(13)
		if g.r.Chance(10) {
			n = 20 + g.r.Intn(100)
		}
		for i := 0; i < n; i++ {
			l := g.r.Intn(40)
			if g.r.Chance(20) {
				l = g.pickLen(5000)
			}
			s.Warn = append(s.Warn, WSpec{Len: l, Kind: g.r.Intn(4)})
		}
	}
	if !s.Allowed || g.r.Chance(20) {
		s.Msg = &WSpec{Len: g.pickLen(3000), Kind: g.r.Intn(4)}
	}
	if g.r.Chance(60) {
		shape := []string{"value", "key", "ops"}[g.r.Intn(3)]
		l := 60 + g.pickLen(20000)
		if g.r.Chance(30) {
			l = 990 + g.r.Intn(120)
		}
		if shape == "ops" && l > 6000 {
			l = 2000 + l%4000
		}
		s.Patch = &PSpec{Shape: shape, Len: l, Off: g.r.Intn(60)}
	}
	return s
}

func (g *gen) sizeCase() Input {
	hs := g.hooks(true)
	nb := nBindings(hs)
	var reqs []Req
	for k := 1 + g.r.Intn(5); k > 0; k-- {
		s := g.sizeSpec()
		q := Req{PathKind: "reg", Binding: g.r.Intn(nb + 1), Body: "review", Uid: len(reqs) + 1, File: "sized", Size: &s}
		switch g.r.Intn(12) {
		case 0:
			q.Exit = 1
		case 1:
			q.PathKind = "unknownid"
		case 2:
			q.File, q.Size = []string{"empty", "truncated2", "nonjson"}[g.r.Intn(3)], nil
		}
		reqs = append(reqs, q)
	}
	return Input{Sized: true, Hooks: hs, Reqs: reqs}
}

func genSize(g *gen, tier string) []core.In[Input] {
	var ins, ex, rnd []core.In[Input]
	for _, c := range sizeExhaustive() {
		ex = append(ex, core.In[Input]{Input: c, Stream: "size-exhaustive"})
	}
	n := 40
	switch tier {
	case "thorough":
		n = 400
	case "search":
		n = 300
	}
	for i := 0; i < n; i++ {
		rnd = append(rnd, core.In[Input]{Input: g.sizeCase(), Stream: "size-random"})
	}
	// the systematic cases are the large ones: spread them among the random ones (the shards of cases are
	// evaluated in parallel); the smallest systematic case stays the first
	for len(ex) > 0 || len(rnd) > 0 {
		if len(ex) > 0 {
			ins, ex = append(ins, ex[0]), ex[1:]
		}
		for k := 0; k < 2 && len(rnd) > 0; k++ {
			ins, rnd = append(ins, rnd[0]), rnd[1:]
		}
	}
	return ins
}
