// win.go: the "window" case class of C09 - the time between a binding's start and its unlock.
//
// The real KubeEventsManager + HookController run one kubernetes binding on the fake cluster, exactly as
// in the flow class (flow.go), but the driver does NOT unlock the binding's events before it changes the
// cluster: the monitor is created over the existing objects and started, and then the case's operations
// run in the order the case lists them -
//
//	apply / delete   a cluster operation = one delivery through the client-go handlers into handleWatchEvent
//	                 (while the events are locked a fired KubeEvent is saved in the informer's eventBuf)
//	sync             the Synchronization hook runs: its binding context is rendered now, as Hook.Run does
//	                 (UpdateSnapshots takes the snapshot - which drops what was saved so far)
//	unlock           HookController.UnlockKubernetesEvents (the driver decides when; at the end if not listed)
//
// - and every BindingExecutionInfo the controller hands out is rendered as Hook.Run does: UpdateSnapshots ->
// ConvertBindingContextList(version) -> Json().  The events handed out BY the unlock are collected first
// and rendered when the unlock has returned (the operator's event handler only queues tasks; the hook runs
// later).  For every Event file that shows both `object` and `filterResult`, /usr/bin/jq is asked again:
// JQFILTER on the object SHOWN IN THE FILE; the answer travels with the observation (rejq).
package c09

import (
	"context"
	"encoding/json"
	"fmt"
	"sort"
	"strings"
	"sync/atomic"
	"time"

	"github.com/deckhouse/deckhouse/pkg/log"
	metav1 "k8s.io/apimachinery/pkg/apis/meta/v1"
	"k8s.io/apimachinery/pkg/watch"
	dynamicfake "k8s.io/client-go/dynamic/fake"
	clienttesting "k8s.io/client-go/testing"

	"github.com/flant/kube-client/fake"
	bctx "github.com/flant/shell-operator/pkg/hook/binding_context"
	"github.com/flant/shell-operator/pkg/hook/config"
	"github.com/flant/shell-operator/pkg/hook/controller"
	kem "github.com/flant/shell-operator/pkg/kube_events_manager"
	metricstorage "github.com/flant/shell-operator/pkg/metric_storage"

	"verifharness/internal/core"
)

// WinEv is one element of a window history as the cluster sees it.
type WinEv struct {
	Kind string // "watch" | "sync" | "unlock"
	Type string // watch: Added Modified Deleted
	Item Item   // watch: the object (for Deleted: its last state) with the jq oracle's answer
}

// winEvents replays the operations on a map as watchEvents (flow.go) does; sync and unlock pass through.
func winEvents(f *Flow, ops []Ctx) []WinEv {
	state := map[string]Item{}
	for _, it := range f.Initial {
		state[resourceID(it.Obj)] = it
	}
	var evs []WinEv
	for _, op := range ops {
		switch op.Op {
		case "sync":
			evs = append(evs, WinEv{Kind: "sync"})
			continue
		case "unlock":
			evs = append(evs, WinEv{Kind: "unlock"})
			continue
		}
		if len(op.Objects) != 1 {
			continue
		}
		it := op.Objects[0]
		id := resourceID(it.Obj)
		cur, exists := state[id]
		switch op.Op {
		case "apply":
			if exists {
				a, _ := json.Marshal(cur.Obj)
				b, _ := json.Marshal(it.Obj)
				if string(a) == string(b) {
					continue
				}
				evs = append(evs, WinEv{Kind: "watch", Type: "Modified", Item: it})
			} else {
				evs = append(evs, WinEv{Kind: "watch", Type: "Added", Item: it})
			}
			state[id] = it
		case "delete":
			if exists {
				evs = append(evs, WinEv{Kind: "watch", Type: "Deleted", Item: cur})
				delete(state, id)
			}
		}
	}
	return evs
}

func runWindow(in Input) (obs Obs) {
	f := in.Flow
	log.SetDefaultLevel(log.LevelFatal)
	kem.DefaultSyncTime = time.Millisecond
	kem.DefaultFactoryStore.Reset()
	fc := fake.NewFakeCluster(fake.ClusterVersionV119)
	ctx, cancel := context.WithCancel(context.Background())
	defer cancel()
	var watches atomic.Int64
	if fd, ok := fc.Client.Dynamic().(*dynamicfake.FakeDynamicClient); ok {
		fd.PrependWatchReactor("*", func(action clienttesting.Action) (bool, watch.Interface, error) {
			w, err := fd.Tracker().Watch(action.GetResource(), action.GetNamespace())
			if err != nil {
				return false, nil, err
			}
			watches.Add(1)
			return true, w, nil
		})
	} else {
		watches.Add(1)
	}
	dyn := fc.Client.Dynamic().Resource(flowGVR)
	for _, it := range f.Initial {
		ns, _ := objMeta(it.Obj)
		if _, err := dyn.Namespace(ns).Create(ctx, toUnstructured(it.Obj), metav1.CreateOptions{}); err != nil {
			obs.Err = "initial: " + err.Error()
			return obs
		}
	}
	hc := &config.HookConfig{}
	if err := hc.LoadAndValidate([]byte(f.ConfigText())); err != nil {
		obs.Err = "LoadAndValidate: " + err.Error()
		return obs
	}
	ms := &countingStorage{Storage: metricstorage.NewMetricStorage(ctx, "c09_", true, log.NewNop())}
	mgr := kem.NewKubeEventsManager(ctx, fc.Client, log.NewNop())
	mgr.WithMetricStorage(ms)
	hctl := controller.NewHookController()
	hctl.InitKubernetesBindings(hc.OnKubernetesEvents, mgr, log.NewNop())

	render := func(step int, sync bool, bcs []bctx.BindingContext) {
		fresh := hctl.UpdateSnapshots(bcs)
		data, err := bctx.ConvertBindingContextList(hc.Version, fresh).Json()
		if err != nil {
			obs.Err = "Json: " + err.Error()
			return
		}
		file := FlowFile{Step: step, Sync: sync, Out: string(data), N: len(fresh), Ids: []string{}}
		if len(fresh) > 0 {
			for _, o := range fresh[0].Objects {
				file.Ids = append(file.Ids, o.Metadata.ResourceId)
			}
			for name, items := range fresh[0].Snapshots {
				s := SnapIds{Name: name, Ids: []string{}}
				for _, o := range items {
					s.Ids = append(s.Ids, o.Metadata.ResourceId)
				}
				file.Snaps = append(file.Snaps, s)
			}
			sort.Slice(file.Snaps, func(i, j int) bool { return file.Snaps[i].Name < file.Snaps[j].Name })
		}
		obs.Files = append(obs.Files, file)
	}
	take := func(step int) {
		for {
			select {
			case ev := <-mgr.Ch():
				hctl.HandleKubeEvent(ev, func(info controller.BindingExecutionInfo) { render(step, false, info.BindingContext) })
			default:
				return
			}
		}
	}
	wait := func(step int, target int64) bool {
		deadline := time.Now().Add(4 * time.Second)
		for ms.handled.Load() < target {
			take(step)
			if time.Now().After(deadline) {
				return false
			}
			time.Sleep(100 * time.Microsecond)
		}
		take(step)
		return true
	}

	// the binding is started: monitor over the existing objects, informer running, events locked
	var infos []controller.BindingExecutionInfo
	if err := hctl.HandleEnableKubernetesBindings(func(info controller.BindingExecutionInfo) { infos = append(infos, info) }); err != nil {
		obs.Err = "enable: " + err.Error()
		return obs
	}
	target := int64(len(f.Initial))
	if !wait(0, target) {
		obs.Err = "the informer did not replay the existing objects"
		return obs
	}
	for deadline := time.Now().Add(4 * time.Second); watches.Load() == 0; {
		if time.Now().After(deadline) {
			obs.Err = "the informer did not start its watch"
			return obs
		}
		time.Sleep(100 * time.Microsecond)
	}
	unlocked := false
	unlock := func(step int) bool {
		if unlocked {
			hctl.UnlockKubernetesEvents()
			take(step)
			return true
		}
		unlocked = true
		// enableKubeEventCb sends the saved events on the manager's channel (capacity 1) while it holds the
		// informer's eventBufLock: drain while it runs, render afterwards
		done := make(chan struct{})
		go func() { hctl.UnlockKubernetesEvents(); close(done) }()
		var handed []controller.BindingExecutionInfo
		deadline := time.After(4 * time.Second)
		for running := true; running; {
			select {
			case ev := <-mgr.Ch():
				hctl.HandleKubeEvent(ev, func(info controller.BindingExecutionInfo) { handed = append(handed, info) })
			case <-done:
				running = false
			case <-deadline:
				obs.Err = "the unlock did not return"
				return false
			}
		}
		for {
			select {
			case ev := <-mgr.Ch():
				hctl.HandleKubeEvent(ev, func(info controller.BindingExecutionInfo) { handed = append(handed, info) })
				continue
			default:
			}
			break
		}
		for _, info := range handed {
			render(step, false, info.BindingContext)
		}
		return true
	}

	step := 0
	for k, ev := range winEvents(f, in.Ctxs) {
		switch ev.Kind {
		case "sync":
			for _, info := range infos {
				if info.KubernetesBinding.ExecuteHookOnSynchronization {
					render(step, true, info.BindingContext)
				}
			}
			continue
		case "unlock":
			if !unlock(step) {
				return obs
			}
			continue
		}
		ns, name := objMeta(ev.Item.Obj)
		var err error
		switch ev.Type {
		case "Added":
			_, err = dyn.Namespace(ns).Create(ctx, toUnstructured(ev.Item.Obj), metav1.CreateOptions{})
		case "Modified":
			_, err = dyn.Namespace(ns).Update(ctx, toUnstructured(ev.Item.Obj), metav1.UpdateOptions{})
		case "Deleted":
			err = dyn.Namespace(ns).Delete(ctx, name, metav1.DeleteOptions{})
		}
		if err != nil {
			obs.Err = fmt.Sprintf("operation %d (%s): %v", k+1, ev.Type, err)
			return obs
		}
		target++
		step++
		if !wait(step, target) {
			obs.Err = fmt.Sprintf("operation %d (%s): the informer did not handle the watch event", k+1, ev.Type)
			return obs
		}
	}
	if !unlocked && !unlock(step) {
		return obs
	}
	mgr.PauseHandleEvents()
	if obs.Err != "" {
		return obs
	}
	// jq asked again, about the object each Event file shows
	if f.JqFilter != "" {
		var idx []int
		var objs []any
		for i, ff := range obs.Files {
			if ff.Sync || ff.N != 1 {
				continue
			}
			var arr []map[string]any
			dec := json.NewDecoder(strings.NewReader(ff.Out))
			dec.UseNumber()
			if dec.Decode(&arr) != nil || len(arr) != 1 {
				continue
			}
			o, hasObj := arr[0]["object"]
			_, hasFr := arr[0]["filterResult"]
			if hasObj && hasFr {
				idx = append(idx, i)
				objs = append(objs, o)
			}
		}
		if len(objs) > 0 {
			outs, err := jqBatch(f.JqFilter, objs)
			if err != nil {
				obs.Err = "rejq: " + err.Error()
				return obs
			}
			for k, i := range idx {
				obs.Files[i].Rejq = &Rejq{Outs: outs[k]}
			}
		}
	}
	return obs
}

// ---- rendering to Coq ----

func renderWindow(in Input, obs *Obs, crash string) core.Case {
	f := in.Flow
	c := core.Case{}
	evs := winEvents(f, in.Ctxs)
	binding := fmt.Sprintf("(mkBinding %s %s %s %s %s %s %s)", core.CoqBytes(f.bindingName()), core.CoqBool(f.JqFilter != ""),
		core.CoqBool(f.keep()), core.CoqList(f.events(), coqWev), core.CoqList(f.includes(), core.CoqBytes),
		core.CoqBytes(f.Group), core.CoqBool(f.syncRun()))
	win := fmt.Sprintf("(mkWin %s %s\n    %s\n    %s)", coqVersion(f.version()), binding,
		core.CoqList(f.Initial, func(it Item) string { return "(" + coqWobj(it) + ")" }),
		core.CoqList(evs, func(e WinEv) string {
			switch e.Kind {
			case "sync":
				return "WSync"
			case "unlock":
				return "WUnlock"
			}
			return "(WDeliver " + coqWev(e.Type) + " (" + coqWobj(e.Item) + "))"
		}))
	observed := "None"
	var human any
	switch {
	case crash != "":
		human = map[string]any{"crash": crash}
	case obs.Crash != "":
		human = map[string]any{"crash": obs.Crash}
	case obs.Err != "":
		human = map[string]any{"error": obs.Err}
	default:
		files := core.CoqList(obs.Files, func(ff FlowFile) string {
			out := "None"
			if s, ok := core.CoqJSONBytes([]byte(ff.Out)); ok && ff.N == 1 {
				out = "(Some " + s + ")"
			}
			rejq := "None"
			if ff.Rejq != nil {
				rejq = "(Some " + core.CoqList(ff.Rejq.Outs, func(v any) string { return core.CoqJSON(v) }) + ")"
			}
			return fmt.Sprintf("mkWfile %s %s (mkFobs %d %s %s\n      %s)", core.CoqBool(ff.Sync), rejq, ff.Step, core.CoqList(ff.Ids, core.CoqBytes),
				core.CoqList(ff.Snaps, func(s SnapIds) string {
					return "(" + core.CoqBytes(s.Name) + ", " + core.CoqList(s.Ids, core.CoqBytes) + ")"
				}), out)
		})
		observed = "(Some " + files + ")"
		var hf []any
		for _, ff := range obs.Files {
			m := map[string]any{"written_after_deliveries": ff.Step, "synchronization": ff.Sync, "ids": ff.Ids, "snapshot_ids": ff.Snaps, "file": json.RawMessage(ff.Out)}
			if ff.Rejq != nil {
				m["jq_of_the_object_shown"] = ff.Rejq.Outs
			}
			hf = append(hf, m)
		}
		var hev []string
		n := 0
		for _, e := range evs {
			switch e.Kind {
			case "watch":
				n++
				hev = append(hev, fmt.Sprintf("delivery %d: %s %s", n, e.Type, resourceID(e.Item.Obj)))
			case "sync":
				hev = append(hev, "the Synchronization hook runs")
			case "unlock":
				hev = append(hev, "unlock")
			}
		}
		human = map[string]any{"hook_config": f.ConfigText(), "history (the driver unlocks at the end if no unlock is listed)": hev, "files": hf}
	}
	c.Coq = "CWin " + win + "\n  " + observed
	c.JSON = human
	kb, _ := json.Marshal(in)
	c.Key = string(kb)
	c.Nontrivial = len(evs) > 0
	keep := "unset"
	if f.Keep != nil {
		keep = fmt.Sprint(*f.Keep)
	}
	jq := "unset"
	if f.JqFilter != "" {
		jq = "set"
	}
	c.Tags = append(c.Tags, serverTags(in)...)
	c.Tags = append(c.Tags, "kind:window", "version:"+f.version(), "window:keepFull="+keep, "window:jqFilter:"+jq)
	if f.JqFilter != "" {
		c.Tags = append(c.Tags, "filter:"+f.JqFilter)
	}
	// what happens inside the window: deliveries per object, runs of the same object, interleaving
	locked := true
	inWin, after := 0, 0
	perObj := map[string]int{}
	run, maxRun, last := 0, 0, ""
	interleaved := false
	for _, e := range evs {
		switch e.Kind {
		case "unlock":
			locked = false
		case "sync":
			if locked {
				c.Tags = append(c.Tags, "window:Synchronization-run-inside")
				perObj, run, last = map[string]int{}, 0, ""
			}
		case "watch":
			if !locked {
				after++
				continue
			}
			inWin++
			id := resourceID(e.Item.Obj)
			if perObj[id] > 0 && last != id {
				interleaved = true
			}
			perObj[id]++
			if e.Type == "Modified" && id == last {
				run++
			} else if e.Type == "Modified" {
				run = 1
			} else {
				run = 0
			}
			last = id
			if run > maxRun {
				maxRun = run
			}
			c.Tags = append(c.Tags, "window-watch:"+e.Type)
		}
	}
	c.Tags = append(c.Tags, fmt.Sprintf("window:deliveries-inside=%d", inWin), fmt.Sprintf("window:deliveries-after-unlock=%d", minInt(after, 3)),
		fmt.Sprintf("window:same-object-modified-in-a-row=%d", maxRun))
	if interleaved {
		c.Tags = append(c.Tags, "window:same-object-again-after-another-object")
	}
	if obs != nil {
		nev := 0
		for _, ff := range obs.Files {
			if !ff.Sync {
				nev++
			}
			if ff.Rejq != nil {
				c.Tags = append(c.Tags, "window-file:jq-asked-again")
			}
		}
		c.Tags = append(c.Tags, fmt.Sprintf("window:event-files=%d", minInt(nev, 6)))
	}
	return c
}

func minInt(a, b int) int {
	if a < b {
		return a
	}
	return b
}

// ---- generation ----

// filters for the window class, with the part of a ConfigMap they select
var winFilters = []string{`{data: .data}`, `.data`, `{foo: .data.foo}`, `.spec`, `{labels: .metadata.labels}`,
	`.metadata | {name, namespace}`, `.`, `{d: .data, r: .spec.replicas}`}

// winObj: the k-th state of ConfigMap ns/name: `what` says which part differs from the previous state
func winObj(ns, name string, data, replicas, label int) map[string]any {
	o := cmData(ns, name, fmt.Sprintf("v%d", data))
	o["spec"] = map[string]any{"replicas": replicas}
	o["metadata"].(map[string]any)["labels"] = map[string]any{"rev": fmt.Sprintf("r%d", label)}
	return o
}

// window: a binding with (mostly) a jqFilter; 0-2 objects at start; then a history in which ONE object is
// modified two, three, four times in a row - each time inside or outside the part the filter selects -
// alone or interleaved with events for other objects, with runs of the Synchronization hook in between,
// the unlock somewhere (mostly at the end), sometimes deliveries after it.
func (g *gen) window(triggerPct int) Input {
	f := &Flow{Window: true}
	f.Legacy = g.r.Chance(8)
	f.Name = g.pick([]string{"", "cms", "monitor-cm"})
	switch p := g.r.Intn(100); {
	case p < triggerPct:
		f.JqFilter = g.pick([]string{`.data.foo`, `.spec.replicas`, `.metadata.labels.rev`})
	case p < triggerPct+80:
		f.JqFilter = g.pick(winFilters)
	}
	if !f.Legacy {
		switch k := g.r.Intn(100); {
		case k < 35:
			f.Keep = bptr(false)
		case k < 60:
			f.Keep = bptr(true)
		}
		f.InclSelf = g.r.Chance(40)
		if g.r.Chance(8) {
			f.Group = "g"
		}
		f.NoSync = g.r.Chance(15)
	}
	if g.r.Chance(30) {
		ev := []string{}
		for _, e := range []string{"Added", "Modified", "Deleted"} {
			if g.r.Chance(75) {
				ev = append(ev, e)
			}
		}
		f.Events = &ev
	}
	type st struct{ data, replicas, label int }
	type key struct{ ns, name string }
	keys := []key{{"default", "cm-1"}, {"default", "cm-2"}, {"ks", "cm-1"}}
	state := map[key]*st{}
	mk := func(k key) Item {
		s := state[k]
		return Item{Obj: winObj(k.ns, k.name, s.data, s.replicas, s.label), Filter: f.JqFilter, Keep: f.keep()}
	}
	for _, k := range keys[:2] {
		if g.r.Chance(60) {
			state[k] = &st{}
			f.Initial = append(f.Initial, mk(k))
		}
	}
	in := Input{Version: f.version(), Flow: f}
	apply := func(k key) {
		s, ok := state[k]
		if !ok {
			state[k] = &st{}
		} else {
			// inside / outside the part the filter selects (which part that is depends on the filter)
			switch g.r.Intn(4) {
			case 0, 1:
				s.data++
			case 2:
				s.replicas++
			default:
				s.label++
			}
		}
		in.Ctxs = append(in.Ctxs, Ctx{Kind: "win-op", Op: "apply", Objects: []Item{mk(k)}})
	}
	del := func(k key) {
		if _, ok := state[k]; ok {
			in.Ctxs = append(in.Ctxs, Ctx{Kind: "win-op", Op: "delete", Objects: []Item{{Obj: cmData(k.ns, k.name, ""), Keep: f.keep()}}})
			delete(state, k)
		}
	}
	if g.r.Chance(60) {
		in.Ctxs = append(in.Ctxs, Ctx{Kind: "win-op", Op: "sync"})
	}
	main := keys[g.r.Intn(2)]
	unlocked := false
	for seg := 1 + g.r.Intn(3); seg > 0; seg-- {
		switch p := g.r.Intn(100); {
		case p < 60: // the same object, 2-4 times in a row
			for n := 2 + g.r.Intn(3); n > 0; n-- {
				apply(main)
			}
		case p < 80: // interleaved with another object
			for n := 2 + g.r.Intn(2); n > 0; n-- {
				apply(main)
				apply(keys[g.r.Intn(len(keys))])
			}
		case p < 90:
			del(keys[g.r.Intn(len(keys))])
			apply(main)
		default:
			apply(keys[g.r.Intn(len(keys))])
		}
		if g.r.Chance(15) {
			in.Ctxs = append(in.Ctxs, Ctx{Kind: "win-op", Op: "sync"})
		}
		if !unlocked && seg > 1 && g.r.Chance(25) {
			unlocked = true
			in.Ctxs = append(in.Ctxs, Ctx{Kind: "win-op", Op: "unlock"})
		}
	}
	return in
}

// winHistory: cm-1 exists; the Synchronization hook runs; cm-1 is modified `mods` times in a row (the k-th
// modification changes the part `parts[k]`: "data" | "spec" | "label"), optionally with cm-2 touched after
// the first one; the driver unlocks at the end.
func winHistory(f *Flow, parts []string, other bool) Input {
	f.Window = true
	it := func(o map[string]any) Item { return Item{Obj: o, Filter: f.JqFilter, Keep: f.keep()} }
	d, r, l := 0, 0, 0
	f.Initial = []Item{it(winObj("default", "cm-1", d, r, l))}
	in := Input{Version: f.version(), Flow: f, Ctxs: []Ctx{{Kind: "win-op", Op: "sync"}}}
	for k, p := range parts {
		switch p {
		case "data":
			d++
		case "spec":
			r++
		default:
			l++
		}
		in.Ctxs = append(in.Ctxs, Ctx{Kind: "win-op", Op: "apply", Objects: []Item{it(winObj("default", "cm-1", d, r, l))}})
		if other && k == 0 {
			in.Ctxs = append(in.Ctxs, Ctx{Kind: "win-op", Op: "apply", Objects: []Item{it(winObj("default", "cm-2", 7, 0, 0))}})
		}
	}
	return in
}

func winCorpus() []core.In[Input] {
	var out []core.In[Input]
	add := func(in Input) { out = append(out, core.In[Input]{Input: in, Stream: "corpus"}) }
	all := []string{"Added", "Modified", "Deleted"}
	// one object modified twice / three times / four times in a row inside the window, inside the selected part
	add(winHistory(&Flow{Name: "cms", JqFilter: ".data"}, []string{"data", "data"}, false))
	add(winHistory(&Flow{Name: "cms", JqFilter: "{data: .data}", Keep: bptr(false), Events: &all, InclSelf: true}, []string{"data", "data", "data"}, false))
	add(winHistory(&Flow{Name: "cms", JqFilter: "{data: .data}", Keep: bptr(true), InclSelf: true}, []string{"data", "spec", "data", "label"}, false))
	// ... interleaved with another object; outside the selected part only; no jqFilter; v0
	add(winHistory(&Flow{Name: "cms", JqFilter: ".data"}, []string{"data", "data", "data"}, true))
	add(winHistory(&Flow{Name: "cms", JqFilter: ".data", Keep: bptr(false)}, []string{"spec", "label"}, false))
	add(winHistory(&Flow{Name: "cms"}, []string{"data", "spec"}, false))
	add(winHistory(&Flow{Legacy: true, JqFilter: ".data", Events: &all}, []string{"data", "data"}, false))
	// no run of the Synchronization hook before the unlock
	add(winHistory(&Flow{Name: "cms", JqFilter: ".data", NoSync: true, InclSelf: true}, []string{"data", "data"}, true))
	return out
}

// winExhaustive (thorough, search): every sequence of 2-4 modifications of one object over the parts
// {data, spec, label} x jqFilter {.data, {labels}, none} x keepFullObjectsInMemory {unset, false} x {alone, interleaved}.
func winExhaustive() []core.In[Input] {
	var out []core.In[Input]
	parts := []string{"data", "spec", "label"}
	var seqs [][]string
	var rec func(cur []string)
	rec = func(cur []string) {
		if len(cur) >= 2 {
			seqs = append(seqs, append([]string{}, cur...))
		}
		if len(cur) == 4 {
			return
		}
		for _, p := range parts {
			rec(append(cur, p))
		}
	}
	rec(nil)
	for _, filter := range []string{".data", "{labels: .metadata.labels}", ""} {
		for _, keep := range []*bool{nil, bptr(false)} {
			for _, other := range []bool{false, true} {
				for _, s := range seqs {
					out = append(out, core.In[Input]{Input: winHistory(&Flow{Name: "cms", JqFilter: filter, Keep: keep, InclSelf: len(s)%2 == 0}, s, other), Stream: "window-exhaustive"})
				}
			}
		}
	}
	return out
}
