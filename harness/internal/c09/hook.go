// hook.go: the "hook" case class of C09 — ONE combined array of binding contexts of a hook that
// has several bindings of several types.  A v1 hook configuration with kubernetes bindings
// (each watching the ConfigMaps of its own namespace) and schedule / kubernetesValidating /
// kubernetesMutating / kubernetesCustomResourceConversion bindings is written from the case,
// loaded by the real config loader and wired as hook_manager.loadHook wires it (UpdateIds,
// Init*Bindings of a real HookController over the real KubeEventsManager on a fake cluster, a
// real ScheduleManager and real webhook managers).  Binding names are NOT unique across the
// binding types: the generator makes schedule / validating / mutating / conversion bindings
// share their name with a kubernetes binding (and with each other) while their
// includeSnapshotsFrom lists differ.
//
// The events of the case are played in order: cluster operations go through the real informers
// (KubeEvent -> HandleKubeEvent), crontab ticks through HandleScheduleEvent, reviews through
// HandleAdmissionEvent / HandleConversionEvent, Synchronization contexts are the ones
// EnableKubernetesBindings returned.  All contexts are appended to ONE array (what
// combineBindingContextForHook hands to one execution) and rendered once, exactly as Hook.Run
// does: UpdateSnapshots -> ConvertBindingContextList("v1") -> Json().
package c09

import (
	"context"
	"encoding/json"
	"fmt"
	"sort"
	"strings"
	"sync/atomic"
	"time"

	"github.com/deckhouse/deckhouse/pkg/log"
	admv1 "k8s.io/api/admission/v1"
	apixv1 "k8s.io/apiextensions-apiserver/pkg/apis/apiextensions/v1"
	metav1 "k8s.io/apimachinery/pkg/apis/meta/v1"
	k8stypes "k8s.io/apimachinery/pkg/types"
	"k8s.io/apimachinery/pkg/watch"
	dynamicfake "k8s.io/client-go/dynamic/fake"
	clienttesting "k8s.io/client-go/testing"

	"github.com/flant/kube-client/fake"
	bctx "github.com/flant/shell-operator/pkg/hook/binding_context"
	"github.com/flant/shell-operator/pkg/hook/config"
	"github.com/flant/shell-operator/pkg/hook/controller"
	kem "github.com/flant/shell-operator/pkg/kube_events_manager"
	kemtypes "github.com/flant/shell-operator/pkg/kube_events_manager/types"
	metricstorage "github.com/flant/shell-operator/pkg/metric_storage"
	schedulemanager "github.com/flant/shell-operator/pkg/schedule_manager"
	"github.com/flant/shell-operator/pkg/webhook/admission"
	"github.com/flant/shell-operator/pkg/webhook/conversion"

	"verifharness/internal/core"
)

// HookKube is one kubernetes binding of the hook: it watches the ConfigMaps of namespace Ns.
type HookKube struct {
	Name     string    `json:"name"`
	Ns       string    `json:"ns"`
	JqFilter string    `json:"jq_filter,omitempty"`
	Keep     *bool     `json:"keep,omitempty"`   // keepFullObjectsInMemory (nil = not given: documented default true)
	Events   *[]string `json:"events,omitempty"` // executeHookOnEvent (nil = not given: all three)
	Incl     []string  `json:"incl,omitempty"`   // includeSnapshotsFrom as written in the config
	Group    string    `json:"group,omitempty"`
	Initial  []Item    `json:"initial,omitempty"` // objects that exist when the monitor is created
}

// HookOther is a schedule / kubernetesValidating / kubernetesMutating / kubernetesCustomResourceConversion binding.
type HookOther struct {
	Type  string   `json:"type"`
	Name  string   `json:"name"`
	Incl  []string `json:"incl,omitempty"`
	Group string   `json:"group,omitempty"`
	// conversion bindings: crdName and the `conversions` rules [fromVersion, toVersion] in their order
	// (not given: a CRD of its own and the single rule v1alpha1 -> v1beta1)
	Crd   string      `json:"crd,omitempty"`
	Rules [][2]string `json:"rules,omitempty"`
}

// Hook: the bindings.  The events are the elements of Input.Ctxs (Kind "hook-ev"):
// Op "sync" (K = kubernetes binding), "apply" | "delete" of Objects[0] (K = kubernetes binding),
// "fire" (K = other binding; Review for admission/conversion bindings; for a conversion binding From/To
// name the rule the request was resolved to - the controller is asked with (crdName of K, rule)).
type Hook struct {
	Kube  []HookKube  `json:"kube,omitempty"`
	Other []HookOther `json:"other,omitempty"`
}

// HookItem is what the driver records for one item of the rendered array.
type HookItem struct {
	Ev     int       `json:"ev"`               // index of the (effective) event the context was created for
	Ids    []string  `json:"ids"`              // Metadata.ResourceId of the refreshed context's Objects
	Snaps  []SnapIds `json:"snaps,omitempty"`  // the refreshed context's Snapshots: names sorted, ResourceIds in order
	Review string    `json:"review,omitempty"` // json.Marshal of the review the controller put into the context
}

const (
	hookConvFrom = "v1alpha1"
	hookConvTo   = "v1beta1"
)

// ---- the documented reading of the configuration (never taken from the loaded config) ----

func (k *HookKube) keep() bool { return k.Keep == nil || *k.Keep }

func (k *HookKube) events() []string {
	if k.Events == nil {
		return []string{"Added", "Modified", "Deleted"}
	}
	return *k.Events
}

// "snapshots — ... for each binding name from includeSnapshotsFrom or for each kubernetes binding
// with a similar group"
func (h *Hook) includes(own []string, group string) []string {
	out := append([]string{}, own...)
	if group != "" {
		for _, k := range h.Kube {
			if k.Group == group {
				out = append(out, k.Name)
			}
		}
	}
	return out
}

func otherKey(t string) string {
	switch t {
	case "schedule":
		return "schedule"
	case "kubernetesValidating":
		return "kubernetesValidating"
	case "kubernetesMutating":
		return "kubernetesMutating"
	}
	return "kubernetesCustomResourceConversion"
}

func hookCrontab(k int) string { return fmt.Sprintf("%d * * * *", k%60) }
func hookCrd(k int) string     { return fmt.Sprintf("crd%d.example.com", k) }

func isConv(t string) bool { return otherKey(t) == "kubernetesCustomResourceConversion" }

func (h *Hook) crd(k int) string {
	if h.Other[k].Crd != "" {
		return h.Other[k].Crd
	}
	return hookCrd(k)
}

func (h *Hook) rules(k int) [][2]string {
	if len(h.Other[k].Rules) > 0 {
		return h.Other[k].Rules
	}
	return [][2]string{{hookConvFrom, hookConvTo}}
}

// ConfigText writes the hook configuration (JSON) the case stands for.
func (h *Hook) ConfigText() string {
	cfg := map[string]any{"configVersion": "v1"}
	var kube []any
	for _, k := range h.Kube {
		b := map[string]any{"name": k.Name, "apiVersion": "v1", "kind": flowKind,
			"namespace": map[string]any{"nameSelector": map[string]any{"matchNames": []string{k.Ns}}}}
		if k.JqFilter != "" {
			b["jqFilter"] = k.JqFilter
		}
		if k.Keep != nil {
			b["keepFullObjectsInMemory"] = *k.Keep
		}
		if k.Events != nil {
			b["executeHookOnEvent"] = *k.Events
		}
		if len(k.Incl) > 0 {
			b["includeSnapshotsFrom"] = k.Incl
		}
		if k.Group != "" {
			b["group"] = k.Group
		}
		kube = append(kube, b)
	}
	if len(kube) > 0 {
		cfg["kubernetes"] = kube
	}
	rules := []any{map[string]any{"apiGroups": []string{"stable.example.com"}, "apiVersions": []string{"v1"},
		"operations": []string{"CREATE", "UPDATE"}, "resources": []string{"crontabs"}, "scope": "Namespaced"}}
	lists := map[string][]any{}
	for i, o := range h.Other {
		b := map[string]any{"name": o.Name}
		if len(o.Incl) > 0 {
			b["includeSnapshotsFrom"] = o.Incl
		}
		if o.Group != "" {
			b["group"] = o.Group
		}
		switch otherKey(o.Type) {
		case "schedule":
			b["crontab"] = hookCrontab(i)
		case "kubernetesValidating", "kubernetesMutating":
			b["rules"] = rules
		default:
			b["crdName"] = h.crd(i)
			var convs []any
			for _, r := range h.rules(i) {
				convs = append(convs, map[string]any{"fromVersion": r[0], "toVersion": r[1]})
			}
			b["conversions"] = convs
		}
		lists[otherKey(o.Type)] = append(lists[otherKey(o.Type)], b)
	}
	for k, l := range lists {
		cfg[k] = l
	}
	out, _ := json.Marshal(cfg)
	return string(out)
}

// ---- the events ----

// HookEv is one effective event: what the Coq term lists and what the driver plays.
type HookEv struct {
	Op   string // sync watch fire
	K    int
	Type string  // watch: Added Modified Deleted
	Item Item    // watch: the object (for Deleted: its last state) with the jq oracle's answer
	Rev  *Review // fire
	From string  // fire on a conversion binding: the rule
	To   string
	// watch: the kubernetes bindings the shared informer hands this delivery to (the bindings of one
	// namespace, ascending; the events of one delivery are consecutive) and this binding's place among them
	Group []int
	Pos   int
}

// group: the kubernetes bindings that watch what binding k watches - same kind, namespace and (no)
// selectors, hence an equal FactoryIndex and ONE shared client-go informer - in configuration order.
func (h *Hook) group(k int) []int {
	var g []int
	for j := range h.Kube {
		if h.Kube[j].Ns == h.Kube[k].Ns {
			g = append(g, j)
		}
	}
	return g
}

// shared: some kubernetes bindings of the hook watch the same resource
func (h *Hook) shared() bool {
	for k := range h.Kube {
		if len(h.group(k)) > 1 {
			return true
		}
	}
	return false
}

func sameJSON(a, b any) bool {
	x, _ := json.Marshal(a)
	y, _ := json.Marshal(b)
	return string(x) == string(y)
}

// sharedErr: bindings that watch one resource list the same objects at start (every binding's Initial
// carries them with that binding's own jqFilter / keepFullObjectsInMemory)
func (h *Hook) sharedErr() string {
	for k := range h.Kube {
		g := h.group(k)
		if g[0] != k {
			a, b := h.Kube[g[0]].Initial, h.Kube[k].Initial
			if len(a) != len(b) {
				return "bindings of one namespace with different initial objects"
			}
			for i := range a {
				if !sameJSON(a[i].Obj, b[i].Obj) {
					return "bindings of one namespace with different initial objects"
				}
			}
		}
	}
	return ""
}

// hookEvents replays the cluster operations of every kubernetes binding on a map (an operation on
// nothing, an apply that changes nothing, an event for a binding that does not exist: no event).
func hookEvents(h *Hook, ops []Ctx) []HookEv {
	state := make([]map[string]Item, len(h.Kube))
	for i, k := range h.Kube {
		state[i] = map[string]Item{}
		for _, it := range k.Initial {
			state[i][resourceID(it.Obj)] = it
		}
	}
	var evs []HookEv
	for _, op := range ops {
		switch op.Op {
		case "sync":
			if op.K >= 0 && op.K < len(h.Kube) {
				evs = append(evs, HookEv{Op: "sync", K: op.K})
			}
		case "fire":
			if op.K >= 0 && op.K < len(h.Other) {
				ev := HookEv{Op: "fire", K: op.K, Rev: op.Review}
				if isConv(h.Other[op.K].Type) {
					ev.From, ev.To = op.From, op.To
					if ev.From == "" && ev.To == "" {
						r := h.rules(op.K)[0]
						ev.From, ev.To = r[0], r[1]
					}
				}
				evs = append(evs, ev)
			}
		case "apply", "delete":
			// a change of the cluster in the namespace of binding K: the (shared) informer of that namespace
			// hands it to EVERY binding that watches the namespace; Objects carries the object once per such
			// binding (configuration order), each time with that binding's jqFilter and the oracle's answer
			if op.K < 0 || op.K >= len(h.Kube) {
				continue
			}
			grp := h.group(op.K)
			if len(op.Objects) != len(grp) {
				continue
			}
			it := op.Objects[0]
			if ns, _ := objMeta(it.Obj); ns != h.Kube[op.K].Ns {
				continue
			}
			same := true
			for _, o := range op.Objects[1:] {
				same = same && sameJSON(o.Obj, it.Obj)
			}
			if !same {
				continue
			}
			id := resourceID(it.Obj)
			cur, exists := state[grp[0]][id]
			if op.Op == "delete" {
				if exists {
					for pos, j := range grp {
						evs = append(evs, HookEv{Op: "watch", K: j, Type: "Deleted", Item: state[j][id], Group: grp, Pos: pos})
						delete(state[j], id)
					}
				}
				continue
			}
			typ := "Added"
			if exists {
				if sameJSON(cur.Obj, it.Obj) {
					continue
				}
				typ = "Modified"
			}
			for pos, j := range grp {
				evs = append(evs, HookEv{Op: "watch", K: j, Type: typ, Item: op.Objects[pos], Group: grp, Pos: pos})
				state[j][id] = op.Objects[pos]
			}
		}
	}
	return evs
}

// ---- running ----

func runHook(in Input) (obs Obs) {
	h := in.Hook
	log.SetDefaultLevel(log.LevelFatal)
	kem.DefaultSyncTime = time.Millisecond
	kem.DefaultFactoryStore.Reset()
	fc := fake.NewFakeCluster(fake.ClusterVersionV119)
	ctx, cancel := context.WithCancel(context.Background())
	defer cancel()
	var watches atomic.Int64
	if fd, ok := fc.Client.Dynamic().(*dynamicfake.FakeDynamicClient); ok {
		fd.PrependWatchReactor("*", func(action clienttesting.Action) (bool, watch.Interface, error) {
			w, err := fd.Tracker().Watch(action.GetResource(), action.GetNamespace())
			if err != nil {
				return false, nil, err
			}
			watches.Add(1)
			return true, w, nil
		})
	} else {
		watches.Add(int64(len(h.Kube)))
	}
	dyn := fc.Client.Dynamic().Resource(flowGVR)
	if e := h.sharedErr(); e != "" {
		obs.Err = e
		return obs
	}
	// ninitial: the calls of handleWatchEvent when the informers replay the existing objects - one per
	// object and binding that watches it (bindings of one namespace share the informer, not the handler)
	ninitial := 0
	nwatches := 0
	for i, k := range h.Kube {
		first := h.group(i)[0] == i
		if first {
			nwatches++
		}
		for _, it := range k.Initial {
			ns, _ := objMeta(it.Obj)
			if first {
				if _, err := dyn.Namespace(ns).Create(ctx, toUnstructured(it.Obj), metav1.CreateOptions{}); err != nil {
					obs.Err = "initial: " + err.Error()
					return obs
				}
			}
			ninitial++
		}
	}
	hc := &config.HookConfig{}
	if err := hc.LoadAndValidate([]byte(h.ConfigText())); err != nil {
		obs.Err = "LoadAndValidate: " + err.Error()
		return obs
	}
	if len(hc.OnKubernetesEvents) != len(h.Kube) || len(hc.Schedules)+len(hc.KubernetesValidating)+len(hc.KubernetesMutating)+len(hc.KubernetesConversion) != len(h.Other) {
		obs.Err = "the loaded config has other bindings than the case"
		return obs
	}
	// as hook_manager.loadHook does
	for _, c := range hc.KubernetesValidating {
		c.Webhook.UpdateIds("", c.BindingName)
	}
	for _, c := range hc.KubernetesMutating {
		c.Webhook.UpdateIds("", c.BindingName)
	}
	ms := &countingStorage{Storage: metricstorage.NewMetricStorage(ctx, "c09_", true, log.NewNop())}
	mgr := &lateStart{KubeEventsManager: kem.NewKubeEventsManager(ctx, fc.Client, log.NewNop())}
	mgr.WithMetricStorage(ms)
	admMgr := admission.NewWebhookManager(fc.Client)
	admMgr.Settings = &admission.WebhookSettings{ConfigurationName: "c09"}
	admMgr.DefaultConfigurationId = admission.DefaultConfigurationId
	convMgr := conversion.NewWebhookManager()
	convMgr.Settings = &conversion.WebhookSettings{}
	hctl := controller.NewHookController()
	hctl.InitKubernetesBindings(hc.OnKubernetesEvents, mgr, log.NewNop())
	hctl.InitScheduleBindings(hc.Schedules, schedulemanager.NewScheduleManager(ctx, log.NewNop()))
	hctl.InitConversionBindings(hc.KubernetesConversion, convMgr)
	hctl.InitAdmissionBindings(hc.KubernetesValidating, hc.KubernetesMutating, admMgr)

	// position of every other binding inside the loaded list of its type
	pos := make([]int, len(h.Other))
	count := map[string]int{}
	for i, o := range h.Other {
		pos[i] = count[otherKey(o.Type)]
		count[otherKey(o.Type)]++
	}
	monitorOf := map[string]int{}
	for i, k := range hc.OnKubernetesEvents {
		monitorOf[k.Monitor.Metadata.MonitorId] = i
	}

	var all []bctx.BindingContext
	var evOf []int
	add := func(ev int, bcs []bctx.BindingContext) {
		for _, bc := range bcs {
			all = append(all, bc)
			evOf = append(evOf, ev)
		}
	}
	// KubeEvents delivered by the manager are handled as the operator's events handler does.  The
	// handlers of a shared informer run in goroutines of their own: the KubeEvents of ONE delivery
	// arrive in any order; they are collected until every handler has finished and then handled in
	// the order of the bindings (the order in which the case lists the events of the delivery)
	var buf []kemtypes.KubeEvent
	drain := func() {
		for {
			select {
			case kev := <-mgr.Ch():
				buf = append(buf, kev)
			default:
				return
			}
		}
	}
	wait := func(target int64) bool {
		deadline := time.Now().Add(4 * time.Second)
		for ms.handled.Load() < target {
			drain()
			if time.Now().After(deadline) {
				return false
			}
			time.Sleep(100 * time.Microsecond)
		}
		drain()
		return true
	}
	flush := func(ev int, group []int) {
		sort.SliceStable(buf, func(a, b int) bool { return monitorOf[buf[a].MonitorId] < monitorOf[buf[b].MonitorId] })
		for _, kev := range buf {
			pos := -1
			if k, ok := monitorOf[kev.MonitorId]; ok {
				for p, j := range group {
					if j == k {
						pos = p
					}
				}
			}
			if pos < 0 {
				obs.Err = fmt.Sprintf("event %d: a KubeEvent of another monitor", ev)
				continue
			}
			e := ev + pos
			hctl.HandleKubeEvent(kev, func(info controller.BindingExecutionInfo) { add(e, info.BindingContext) })
		}
		buf = nil
	}

	var infos []controller.BindingExecutionInfo
	if err := hctl.HandleEnableKubernetesBindings(func(info controller.BindingExecutionInfo) { infos = append(infos, info) }); err != nil {
		obs.Err = "enable: " + err.Error()
		return obs
	}
	if len(infos) != len(h.Kube) {
		obs.Err = "EnableKubernetesBindings: one Synchronization per binding expected"
		return obs
	}
	mgr.startAll()
	if !wait(int64(ninitial)) {
		obs.Err = "the informers did not replay the existing objects"
		return obs
	}
	if len(all) > 0 || len(buf) > 0 {
		obs.Err = "a KubeEvent before the events were unlocked"
		return obs
	}
	target := int64(ninitial)
	hctl.UnlockKubernetesEvents()
	hctl.EnableScheduleBindings()
	hctl.EnableAdmissionBindings()
	hctl.EnableConversionBindings()
	for deadline := time.Now().Add(4 * time.Second); watches.Load() < int64(nwatches); {
		if time.Now().After(deadline) {
			obs.Err = "the informers did not start their watches"
			return obs
		}
		time.Sleep(100 * time.Microsecond)
	}

	for e, ev := range hookEvents(h, in.Ctxs) {
		switch ev.Op {
		case "sync":
			add(e, infos[ev.K].BindingContext)
		case "watch":
			if ev.Pos > 0 {
				continue // handled with the first event of its delivery
			}
			ns, name := objMeta(ev.Item.Obj)
			var err error
			switch ev.Type {
			case "Added":
				_, err = dyn.Namespace(ns).Create(ctx, toUnstructured(ev.Item.Obj), metav1.CreateOptions{})
			case "Modified":
				_, err = dyn.Namespace(ns).Update(ctx, toUnstructured(ev.Item.Obj), metav1.UpdateOptions{})
			case "Deleted":
				err = dyn.Namespace(ns).Delete(ctx, name, metav1.DeleteOptions{})
			}
			if err != nil {
				obs.Err = fmt.Sprintf("event %d (%s): %v", e, ev.Type, err)
				return obs
			}
			target += int64(len(ev.Group))
			if !wait(target) {
				obs.Err = fmt.Sprintf("event %d (%s): the informer did not handle the watch event", e, ev.Type)
				return obs
			}
			flush(e, ev.Group)
		case "fire":
			o := h.Other[ev.K]
			rev := ev.Rev
			if rev == nil {
				rev = &Review{UID: "uid-0"}
			}
			cb := func(info controller.BindingExecutionInfo) { add(e, info.BindingContext) }
			switch otherKey(o.Type) {
			case "schedule":
				hctl.HandleScheduleEvent(hc.Schedules[pos[ev.K]].ScheduleEntry.Crontab, cb)
			case "kubernetesValidating", "kubernetesMutating":
				req := &admv1.AdmissionRequest{UID: k8stypes.UID(rev.UID), Name: rev.Name, Namespace: rev.Namespace,
					Operation: admv1.Operation(rev.Operation),
					Kind:      metav1.GroupVersionKind{Group: "stable.example.com", Version: "v1", Kind: "CronTab"},
					Resource:  metav1.GroupVersionResource{Group: "stable.example.com", Version: "v1", Resource: "crontabs"}}
				if len(rev.Objects) > 0 {
					req.Object = rawExt(rev.Objects[0])
				}
				id := ""
				if otherKey(o.Type) == "kubernetesValidating" {
					id = hc.KubernetesValidating[pos[ev.K]].Webhook.Metadata.WebhookId
				} else {
					id = hc.KubernetesMutating[pos[ev.K]].Webhook.Metadata.WebhookId
				}
				hctl.HandleAdmissionEvent(admission.Event{WebhookId: id, ConfigurationId: admission.DefaultConfigurationId, Request: req}, cb)
			default:
				req := &apixv1.ConversionRequest{UID: k8stypes.UID(rev.UID), DesiredAPIVersion: rev.Desired}
				for _, ob := range rev.Objects {
					req.Objects = append(req.Objects, rawExt(ob))
				}
				hctl.HandleConversionEvent(h.crd(ev.K), req, conversion.Rule{FromVersion: ev.From, ToVersion: ev.To}, cb)
			}
		}
		if obs.Err != "" {
			return obs
		}
	}
	mgr.PauseHandleEvents()

	// Hook.Run
	fresh := hctl.UpdateSnapshots(all)
	data, err := bctx.ConvertBindingContextList(hc.Version, fresh).Json()
	if err != nil {
		obs.Err = "Json: " + err.Error()
		return obs
	}
	obs.Out = string(data)
	obs.HookItems = []HookItem{}
	for i, bc := range fresh {
		it := HookItem{Ids: []string{}}
		if i < len(evOf) {
			it.Ev = evOf[i]
		}
		for _, o := range bc.Objects {
			it.Ids = append(it.Ids, o.Metadata.ResourceId)
		}
		for name, items := range bc.Snapshots {
			s := SnapIds{Name: name, Ids: []string{}}
			for _, o := range items {
				s.Ids = append(s.Ids, o.Metadata.ResourceId)
			}
			it.Snaps = append(it.Snaps, s)
		}
		sort.Slice(it.Snaps, func(a, b int) bool { return it.Snaps[a].Name < it.Snaps[b].Name })
		switch {
		case bc.AdmissionReview != nil:
			b, _ := json.Marshal(bc.AdmissionReview)
			it.Review = string(b)
		case bc.ConversionReview != nil:
			b, _ := json.Marshal(bc.ConversionReview)
			it.Review = string(b)
		}
		obs.HookItems = append(obs.HookItems, it)
	}
	return obs
}

var _ = kemtypes.TypeEvent

// ---- rendering to Coq ----

func coqHookBType(t string) string {
	switch otherKey(t) {
	case "schedule":
		return "BSchedule"
	case "kubernetesValidating":
		return "BValidating"
	case "kubernetesMutating":
		return "BMutating"
	}
	return "BConversion"
}

func sameSet(a, b []string) bool {
	sa, sb := map[string]bool{}, map[string]bool{}
	for _, x := range a {
		sa[x] = true
	}
	for _, x := range b {
		sb[x] = true
	}
	if len(sa) != len(sb) {
		return false
	}
	for x := range sa {
		if !sb[x] {
			return false
		}
	}
	return true
}

func renderHook(in Input, obs *Obs, crash string) core.Case {
	h := in.Hook
	c := core.Case{}
	evs := hookEvents(h, in.Ctxs)
	// the review the controller was given for event e (taken from the context it built)
	reviewOf := map[int]string{}
	if obs != nil {
		for _, it := range obs.HookItems {
			if it.Review != "" {
				reviewOf[it.Ev] = it.Review
			}
		}
	}
	kube := core.CoqList(h.Kube, func(k HookKube) string {
		return fmt.Sprintf("(mkBinding %s %s %s %s %s %s true,\n     %s)", core.CoqBytes(k.Name), core.CoqBool(k.JqFilter != ""),
			core.CoqBool(k.keep()), core.CoqList(k.events(), coqWev), core.CoqList(h.includes(k.Incl, k.Group), core.CoqBytes),
			core.CoqBytes(k.Group), core.CoqList(k.Initial, func(it Item) string { return "(" + coqWobj(it) + ")" }))
	})
	oidx := make([]int, len(h.Other))
	for i := range oidx {
		oidx[i] = i
	}
	other := core.CoqList(oidx, func(i int) string {
		o := h.Other[i]
		crd, rules := "", [][2]string{}
		if isConv(o.Type) {
			crd, rules = h.crd(i), h.rules(i)
		}
		return fmt.Sprintf("mkObind %s %s %s %s %s %s", coqHookBType(o.Type), core.CoqBytes(o.Name),
			core.CoqList(h.includes(o.Incl, o.Group), core.CoqBytes), core.CoqBytes(o.Group), core.CoqBytes(crd),
			core.CoqList(rules, func(r [2]string) string { return "(" + core.CoqBytes(r[0]) + ", " + core.CoqBytes(r[1]) + ")" }))
	})
	idx := make([]int, len(evs))
	for i := range idx {
		idx[i] = i
	}
	events := core.CoqList(idx, func(e int) string {
		ev := evs[e]
		switch ev.Op {
		case "sync":
			return "HSync " + core.CoqBytes(h.Kube[ev.K].Name)
		case "watch":
			return fmt.Sprintf("HWatch %s %s\n     (%s)", core.CoqBytes(h.Kube[ev.K].Name), coqWev(ev.Type), coqWobj(ev.Item))
		}
		review := "JNull"
		if s, ok := core.CoqJSONBytes([]byte(reviewOf[e])); ok && reviewOf[e] != "" {
			review = s
		}
		if isConv(h.Other[ev.K].Type) {
			return fmt.Sprintf("HConv %s %s %s %s", core.CoqBytes(h.crd(ev.K)), review, core.CoqBytes(ev.From), core.CoqBytes(ev.To))
		}
		return fmt.Sprintf("HOther %d %s", ev.K, review)
	})
	hcase := fmt.Sprintf("(mkHcase\n    %s\n    %s\n    %s)", kube, other, events)
	observed := "None"
	var human any
	switch {
	case crash != "":
		human = map[string]any{"crash": crash}
	case obs.Crash != "":
		human = map[string]any{"crash": obs.Crash}
	case obs.Err != "":
		human = map[string]any{"error": obs.Err}
	default:
		out := "None"
		if s, ok := core.CoqJSONBytes([]byte(obs.Out)); ok {
			out = "(Some " + s + ")"
		}
		items := core.CoqList(obs.HookItems, func(it HookItem) string {
			return fmt.Sprintf("mkHitem %d %s %s", it.Ev, core.CoqList(it.Ids, core.CoqBytes),
				core.CoqList(it.Snaps, func(s SnapIds) string {
					return "(" + core.CoqBytes(s.Name) + ", " + core.CoqList(s.Ids, core.CoqBytes) + ")"
				}))
		})
		observed = fmt.Sprintf("(Some (mkHobs %s\n    %s))", items, out)
		var hev []string
		for e, ev := range evs {
			switch ev.Op {
			case "sync":
				hev = append(hev, fmt.Sprintf("%d: Synchronization of kubernetes binding %q", e, h.Kube[ev.K].Name))
			case "watch":
				hev = append(hev, fmt.Sprintf("%d: %s %s seen by kubernetes binding %q", e, ev.Type, resourceID(ev.Item.Obj), h.Kube[ev.K].Name))
			default:
				if isConv(h.Other[ev.K].Type) {
					hev = append(hev, fmt.Sprintf("%d: conversion request for CRD %q resolved to the rule %s -> %s (declared by binding %q, binding %d of the other bindings, rules %v)",
						e, h.crd(ev.K), ev.From, ev.To, h.Other[ev.K].Name, ev.K, h.rules(ev.K)))
				} else {
					hev = append(hev, fmt.Sprintf("%d: %s binding %q (binding %d of the other bindings) fires", e, h.Other[ev.K].Type, h.Other[ev.K].Name, ev.K))
				}
			}
		}
		human = map[string]any{"hook_config": h.ConfigText(), "events": hev, "items": obs.HookItems, "file": json.RawMessage(obs.Out)}
	}
	c.Coq = "CHook " + hcase + "\n  " + observed
	c.JSON = human
	kb, _ := json.Marshal(in)
	c.Key = string(kb)
	c.Nontrivial = len(evs) > 0
	c.Tags = append(c.Tags, serverTags(in)...)
	c.Tags = append(c.Tags, "kind:hook", "version:v1", fmt.Sprintf("hook:kubernetes-bindings=%d", len(h.Kube)),
		fmt.Sprintf("hook:other-bindings=%d", len(h.Other)), fmt.Sprintf("hook:events=%d", len(evs)))
	c.Tags = append(c.Tags, sharedTags(h, evs)...)
	// bindings of different types that share a name
	type bref struct {
		typ, name string
		incl      []string
		kube      bool
		k         int
	}
	var refs []bref
	for i, k := range h.Kube {
		refs = append(refs, bref{"kubernetes", k.Name, h.includes(k.Incl, k.Group), true, i})
	}
	for i, o := range h.Other {
		refs = append(refs, bref{otherKey(o.Type), o.Name, h.includes(o.Incl, o.Group), false, i})
	}
	firstEv := func(r bref) int {
		for e, ev := range evs {
			if r.kube && ev.Op != "fire" && ev.K == r.k || !r.kube && ev.Op == "fire" && ev.K == r.k {
				return e
			}
		}
		return -1
	}
	seen := map[string]bool{}
	tag := func(t string) {
		if !seen[t] {
			seen[t] = true
			c.Tags = append(c.Tags, t)
		}
	}
	for i := range refs {
		for j := i + 1; j < len(refs); j++ {
			a, b := refs[i], refs[j]
			if a.name != b.name || a.typ == b.typ {
				continue
			}
			tag("hook:shared-name:" + a.typ + "+" + b.typ)
			if sameSet(a.incl, b.incl) {
				continue
			}
			tag("hook:shared-name:different-includes")
			ea, eb := firstEv(a), firstEv(b)
			if ea >= 0 && eb >= 0 {
				first := a.typ
				if eb < ea {
					first = b.typ
				}
				tag("hook:shared-name:different-includes:both-in-array:" + first + "-first")
			}
		}
	}
	crds := map[string]int{}
	for i, o := range h.Other {
		if isConv(o.Type) {
			c.Tags = append(c.Tags, fmt.Sprintf("hook:conversion-binding:rules=%d", len(h.rules(i))))
			crds[h.crd(i)]++
		}
	}
	for _, n := range crds {
		if n > 1 {
			tag("hook:conversion:several-bindings-on-one-CRD")
		}
	}
	for _, ev := range evs {
		if ev.Op != "fire" {
			continue
		}
		o := h.Other[ev.K]
		if isConv(o.Type) {
			rs := h.rules(ev.K)
			pos := -1
			for i, r := range rs {
				if r[0] == ev.From && r[1] == ev.To {
					pos = i
				}
			}
			switch {
			case pos < 0:
				c.Tags = append(c.Tags, "hook:conversion-request:undeclared-rule")
			case len(rs) == 1:
				c.Tags = append(c.Tags, "hook:conversion-request:the-only-rule")
			case pos == len(rs)-1:
				c.Tags = append(c.Tags, "hook:conversion-request:last-of-several-rules")
			default:
				c.Tags = append(c.Tags, "hook:conversion-request:not-the-last-of-several-rules")
			}
		}
		for j := 0; j < ev.K; j++ {
			if p := h.Other[j]; otherKey(p.Type) == otherKey(o.Type) && p.Name == o.Name {
				if !sameSet(h.includes(p.Incl, p.Group), h.includes(o.Incl, o.Group)) {
					tag("hook:F30:event-of-a-later-binding-of-one-type-and-name")
				}
				break
			}
		}
		if adm(o.Type) {
			last := -1
			for _, t := range []string{"kubernetesValidating", "kubernetesMutating"} {
				for j, p := range h.Other {
					if otherKey(p.Type) == t && p.Name == o.Name {
						last = j
					}
				}
			}
			if last != ev.K {
				tag("hook:F31:admission-event-answered-with-a-namesake's-link")
			}
		}
	}
	if len(h.Kube) >= 4 {
		members := 0
		for _, k := range h.Kube {
			if k.Group == "g" {
				members++
			}
		}
		tag(fmt.Sprintf("hook:wide:group-of-%d-with-extra-includes", members))
	}
	for _, r := range refs {
		if len(r.incl) > 0 {
			tag("hook:includeSnapshotsFrom:" + r.typ)
		}
		if r.kube && h.Kube[r.k].Group != "" || !r.kube && h.Other[r.k].Group != "" {
			tag("hook:group:" + r.typ)
		}
	}
	for _, k := range h.Kube {
		if k.JqFilter != "" {
			c.Tags = append(c.Tags, "filter:"+k.JqFilter)
		}
		c.Tags = append(c.Tags, fmt.Sprintf("hook:kubernetes keepFull=%v", k.keep()))
	}
	if obs != nil && obs.Err == "" && obs.Crash == "" && crash == "" {
		c.Tags = append(c.Tags, fmt.Sprintf("hook:contexts-in-array=%d", len(obs.HookItems)))
		var arr []map[string]any
		_ = json.Unmarshal([]byte(obs.Out), &arr)
		for _, m := range arr {
			t, _ := m["type"].(string)
			if t == "" {
				t = "(none)"
			}
			if w, ok := m["watchEvent"].(string); ok {
				t += "/" + w
			}
			if _, ok := m["snapshots"]; ok {
				t += " with snapshots"
			}
			c.Tags = append(c.Tags, "hook-item:"+t)
		}
	}
	return c
}

// ---- generation ----

var hookNames = []string{"pods.example.com", "cm.example.com", "x.y.z", "settings.example.com"}
var hookNamespaces = []string{"d", "ks", "n3", "n4", "n5", "n6", "n7"}

// further binding names for hooks with many kubernetes bindings (groups of 3, 5, 6 members)
var hookNamesWide = []string{"deployments.apps.example", "secrets.core.example", "services.core.example"}
var hookVersions = []string{"v1alpha1", "v1beta1", "v1", "v2"}
var hookOtherTypes = []string{"schedule", "kubernetesValidating", "kubernetesMutating", "kubernetesCustomResourceConversion"}

func (g *gen) subset(xs []string, pct int) []string {
	var out []string
	for _, x := range xs {
		if g.r.Chance(pct) {
			out = append(out, x)
		}
	}
	return out
}

func (g *gen) hookReview(t string) *Review {
	if otherKey(t) == "schedule" {
		return nil
	}
	rv := &Review{UID: fmt.Sprintf("uid-%d", g.r.Intn(9)), Name: "ct", Namespace: "d", Operation: g.pick([]string{"CREATE", "UPDATE"})}
	if otherKey(t) == "kubernetesCustomResourceConversion" {
		rv = &Review{UID: fmt.Sprintf("uid-%d", g.r.Intn(9)), Desired: "stable.example.com/" + hookConvTo}
	}
	for i := g.r.Intn(2); i > 0; i-- {
		rv.Objects = append(rv.Objects, g.plainObj())
	}
	return rv
}

// hook: a hook whose schedule / validating / mutating / conversion bindings mostly share their name
// with a kubernetes binding (or with each other) and include other snapshots than their namesake;
// the array mixes the namesakes in both orders.
func (g *gen) hook(triggerPct int) Input {
	h := &Hook{}
	nk := 1 + g.r.Intn(3)
	if g.r.Chance(4) {
		nk = 0 // a hook without a kubernetes controller
	}
	// wide: 4-7 kubernetes bindings, 3 / 5 / 6 of them in one group, the others outside it; two or three
	// bindings of the group (kubernetes members, a schedule or validating binding with that group) each
	// add ANOTHER outside binding by includeSnapshotsFrom (group and includeSnapshotsFrom together)
	wide := g.r.Chance(12)
	names := append([]string{}, hookNames...)
	if wide {
		nk = 4 + g.r.Intn(4)
		names = append(names, hookNamesWide...)
	}
	for i := len(names) - 1; i > 0; i-- {
		j := g.r.Intn(i + 1)
		names[i], names[j] = names[j], names[i]
	}
	var kubeNames []string
	for i := 0; i < nk; i++ {
		kubeNames = append(kubeNames, names[i])
	}
	for i := 0; i < nk; i++ {
		o := g.opts(triggerPct, 0)
		k := HookKube{Name: kubeNames[i], Ns: hookNamespaces[i], JqFilter: o.filter}
		switch p := g.r.Intn(100); {
		case p < 40:
			k.Keep = bptr(false)
		case p < 60:
			k.Keep = bptr(true)
		}
		if g.r.Chance(40) {
			ev := g.subset([]string{"Added", "Modified", "Deleted"}, 70)
			if ev == nil {
				ev = []string{}
			}
			k.Events = &ev
		}
		if g.r.Chance(50) {
			k.Incl = g.subset(kubeNames, 50)
		}
		if g.r.Chance(15) {
			k.Group = g.pick([]string{"g", "pods"})
		}
		for n := g.r.Intn(3); n > 0; n-- {
			name := g.pick([]string{"a", "b", "c"})
			dup := false
			for _, it := range k.Initial {
				_, nm := objMeta(it.Obj)
				dup = dup || nm == name
			}
			if !dup {
				k.Initial = append(k.Initial, Item{Obj: flowObj(k.Ns, name, g.obj()), Filter: k.JqFilter, Keep: k.keep()})
			}
		}
		h.Kube = append(h.Kube, k)
	}
	var wideKube []int // members of the group that add an outside binding
	var outside []string
	if wide {
		gsz := 3
		if nk >= 6 && g.r.Bool() {
			gsz = 5
		}
		if nk >= 7 && g.r.Chance(33) {
			gsz = 6
		}
		outside = append(outside, kubeNames[gsz:]...)
		for i := range h.Kube {
			h.Kube[i].Group, h.Kube[i].Incl = "", nil
			if i < gsz {
				h.Kube[i].Group = "g"
			}
		}
		adders := 1 + g.r.Intn(2)
		for a := 0; a < adders; a++ {
			i := g.r.Intn(gsz)
			if len(h.Kube[i].Incl) == 0 {
				h.Kube[i].Incl = []string{outside[(a+i)%len(outside)]}
				wideKube = append(wideKube, i)
			}
		}
	}
	inclOf := func(name string) ([]string, bool) {
		for _, k := range h.Kube {
			if k.Name == name {
				return h.includes(k.Incl, k.Group), true
			}
		}
		for _, o := range h.Other {
			if o.Name == name {
				return h.includes(o.Incl, o.Group), true
			}
		}
		return nil, false
	}
	no := 1 + g.r.Intn(3)
	for i := 0; i < no; i++ {
		o := HookOther{Type: g.pick(hookOtherTypes)}
		if nk > 0 && g.r.Chance(70) {
			o.Name = g.pick(kubeNames)
		} else {
			o.Name = g.pick(names)
		}
		clash := false
		for _, p := range h.Other {
			// one (type, name) per binding; a validating and a mutating binding of one name would share their
			// webhook id (AdmissionLinks), which is a matter of the webhook routing, not of the contexts
			clash = clash || p.Name == o.Name && (p.Type == o.Type || adm(p.Type) && adm(o.Type))
		}
		if clash {
			continue
		}
		if nk > 0 {
			o.Incl = g.subset(kubeNames, 50)
			if g.r.Chance(12) {
				o.Group = g.pick([]string{"g", "pods"})
			}
			// mostly: other snapshots than the namesake includes
			if other, ok := inclOf(o.Name); ok && sameSet(other, h.includes(o.Incl, o.Group)) && g.r.Chance(75) {
				if len(o.Incl) > 0 {
					o.Incl = nil
				} else {
					o.Incl = []string{g.pick(kubeNames)}
				}
			}
		}
		if isConv(o.Type) {
			// 1-4 rules in any order; several bindings may serve one CRD (mostly with other rules)
			o.Crd = g.pick([]string{"crontabs.example.com", "crontabs.example.com", "things.example.com"})
			convRules := func(crd string) [][2]string {
				used := map[[2]string]bool{}
				for _, p := range h.Other {
					if isConv(p.Type) && p.Crd == crd && !g.r.Chance(10) {
						for _, r := range p.Rules {
							used[r] = true
						}
					}
				}
				var free [][2]string
				for _, a := range hookVersions {
					for _, b := range hookVersions {
						if r := [2]string{a, b}; a != b && !used[r] {
							free = append(free, r)
						}
					}
				}
				for i := len(free) - 1; i > 0; i-- {
					j := g.r.Intn(i + 1)
					free[i], free[j] = free[j], free[i]
				}
				n := 1 + g.r.Intn(4)
				if n > len(free) {
					n = len(free)
				}
				return free[:n]
			}
			o.Rules = convRules(o.Crd)
			if len(o.Rules) == 0 {
				continue
			}
			if g.r.Chance(35) {
				// a sibling: another conversion binding of the same CRD, declared after it
				sib := HookOther{Type: o.Type, Name: g.pick(names), Crd: o.Crd}
				dup := sib.Name == o.Name
				for _, p := range h.Other {
					dup = dup || p.Name == sib.Name && p.Type == sib.Type
				}
				if !dup {
					h.Other = append(h.Other, o)
					sib.Rules = convRules(o.Crd)
					if nk > 0 {
						sib.Incl = g.subset(kubeNames, 50)
					}
					if len(sib.Rules) > 0 {
						o = sib
					} else {
						continue
					}
				}
			}
		}
		h.Other = append(h.Other, o)
	}
	var wideOther []int
	if wide {
		for a := 0; a < 1+g.r.Intn(2); a++ {
			o := HookOther{Type: []string{"schedule", "kubernetesValidating"}[a%2], Name: fmt.Sprintf("wide%d.example.com", a), Group: "g",
				Incl: []string{outside[(len(outside)-1-a+len(outside))%len(outside)]}}
			h.Other = append(h.Other, o)
			wideOther = append(wideOther, len(h.Other)-1)
		}
	}
	in := Input{Version: "v1", Hook: h}
	alive := make([][]string, nk)
	for i, k := range h.Kube {
		for _, it := range k.Initial {
			_, nm := objMeta(it.Obj)
			alive[i] = append(alive[i], nm)
		}
	}
	kubeEv := func(k int) Ctx {
		kb := h.Kube[k]
		if g.r.Chance(20) {
			return Ctx{Kind: "hook-ev", Op: "sync", K: k}
		}
		if len(alive[k]) > 0 && g.r.Chance(25) {
			j := g.r.Intn(len(alive[k]))
			name := alive[k][j]
			alive[k] = append(alive[k][:j], alive[k][j+1:]...)
			return Ctx{Kind: "hook-ev", Op: "delete", K: k, Objects: []Item{{Obj: flowObj(kb.Ns, name, nil), Keep: kb.keep()}}}
		}
		name := g.pick([]string{"a", "b", "c", "e"})
		found := false
		for _, n := range alive[k] {
			found = found || n == name
		}
		if !found {
			alive[k] = append(alive[k], name)
		}
		return Ctx{Kind: "hook-ev", Op: "apply", K: k, Objects: []Item{{Obj: flowObj(kb.Ns, name, g.obj()), Filter: kb.JqFilter, Keep: kb.keep()}}}
	}
	otherEv := func(k int) Ctx {
		c := Ctx{Kind: "hook-ev", Op: "fire", K: k, Review: g.hookReview(h.Other[k].Type)}
		if isConv(h.Other[k].Type) {
			r := h.rules(k)[g.r.Intn(len(h.rules(k)))]
			c.From, c.To = r[0], r[1]
		}
		return c
	}
	for n := 1 + g.r.Intn(4); n > 0; n-- {
		if nk > 0 && (len(h.Other) == 0 || g.r.Chance(50)) {
			in.Ctxs = append(in.Ctxs, kubeEv(g.r.Intn(nk)))
		} else if len(h.Other) > 0 {
			in.Ctxs = append(in.Ctxs, otherEv(g.r.Intn(len(h.Other))))
		}
	}
	for _, i := range wideKube {
		in.Ctxs = append(in.Ctxs, kubeEv(i))
	}
	for _, j := range wideOther {
		in.Ctxs = append(in.Ctxs, otherEv(j))
	}
	// a request for every rule of every conversion binding (most of them), in any order
	var convEvs []Ctx
	for k, o := range h.Other {
		if !isConv(o.Type) {
			continue
		}
		for _, r := range h.rules(k) {
			if g.r.Chance(75) {
				convEvs = append(convEvs, Ctx{Kind: "hook-ev", Op: "fire", K: k, Review: g.hookReview(o.Type), From: r[0], To: r[1]})
			}
		}
	}
	for i := len(convEvs) - 1; i > 0; i-- {
		j := g.r.Intn(i + 1)
		convEvs[i], convEvs[j] = convEvs[j], convEvs[i]
	}
	for _, c := range convEvs {
		at := g.r.Intn(len(in.Ctxs) + 1)
		in.Ctxs = append(in.Ctxs[:at], append([]Ctx{c}, in.Ctxs[at:]...)...)
	}
	// namesakes of different types meet in the array, in either order
	for k, kb := range h.Kube {
		for j, o := range h.Other {
			if o.Name == kb.Name && g.r.Chance(80) {
				pair := []Ctx{kubeEv(k), otherEv(j)}
				if g.r.Bool() {
					pair[0], pair[1] = pair[1], pair[0]
				}
				in.Ctxs = append(in.Ctxs, pair...)
			}
		}
	}
	for i, a := range h.Other {
		for j, b := range h.Other {
			if i < j && a.Name == b.Name && g.r.Chance(80) {
				pair := []Ctx{otherEv(i), otherEv(j)}
				if g.r.Bool() {
					pair[0], pair[1] = pair[1], pair[0]
				}
				in.Ctxs = append(in.Ctxs, pair...)
			}
		}
	}
	return in
}

func adm(t string) bool {
	return otherKey(t) == "kubernetesValidating" || otherKey(t) == "kubernetesMutating"
}

// hookBase: one or two kubernetes bindings with a few objects, for the trigger streams.
func (g *gen) hookBase() *Hook {
	h := &Hook{}
	for i := 0; i < 1+g.r.Intn(2); i++ {
		k := HookKube{Name: hookNames[i], Ns: hookNamespaces[i]}
		if g.r.Bool() {
			k.JqFilter, k.Keep = "{data: .data}", bptr(false)
		}
		for n := 0; n < 1+g.r.Intn(2); n++ {
			k.Initial = append(k.Initial, Item{Obj: cmData(k.Ns, fmt.Sprintf("o%d", n), g.pick([]string{"x", "y"})), Filter: k.JqFilter, Keep: k.keep()})
		}
		h.Kube = append(h.Kube, k)
	}
	return h
}

// hookF30 (finding F30): two bindings of ONE type with one name and different includeSnapshotsFrom; the
// later one fires (getIncludeSnapshotsFrom resolves the first of that name).
func (g *gen) hookF30() Input {
	h := g.hookBase()
	t := g.pick([]string{"schedule", "schedule", "kubernetesCustomResourceConversion", "kubernetesMutating"})
	name := g.pick([]string{"tick.example.com", hookNames[0]})
	var kubeNames []string
	for _, k := range h.Kube {
		kubeNames = append(kubeNames, k.Name)
	}
	first := HookOther{Type: t, Name: name, Incl: g.subset(kubeNames, 50)}
	second := HookOther{Type: t, Name: name, Incl: g.subset(kubeNames, 50)}
	if sameSet(first.Incl, second.Incl) {
		if len(second.Incl) > 0 {
			second.Incl = nil
		} else {
			second.Incl = []string{kubeNames[0]}
		}
	}
	h.Other = []HookOther{first, second}
	if g.r.Chance(40) {
		h.Other = append([]HookOther{{Type: "kubernetesValidating", Name: "other.example.com"}}, h.Other...)
	}
	in := Input{Version: "v1", Hook: h}
	fire := func(k int) Ctx { return Ctx{Kind: "hook-ev", Op: "fire", K: k, Review: g.hookReview(h.Other[k].Type)} }
	for i := range h.Other {
		if i == len(h.Other)-1 || g.r.Chance(40) {
			in.Ctxs = append(in.Ctxs, fire(i))
		}
	}
	if g.r.Bool() {
		in.Ctxs = append([]Ctx{{Kind: "hook-ev", Op: "sync", K: 0}}, in.Ctxs...)
	}
	return in
}

// hookF31 (finding F31): a validating and a mutating binding with one name (both get the webhook id
// derived from that name; the mutating link replaces the validating one); the validating one fires.
func (g *gen) hookF31() Input {
	h := g.hookBase()
	name := g.pick([]string{"x.y.z", hookNames[0]})
	var kubeNames []string
	for _, k := range h.Kube {
		kubeNames = append(kubeNames, k.Name)
	}
	v := HookOther{Type: "kubernetesValidating", Name: name, Incl: g.subset(kubeNames, 50)}
	m := HookOther{Type: "kubernetesMutating", Name: name, Incl: v.Incl}
	h.Other = []HookOther{v, m}
	vi := 0
	if g.r.Bool() {
		h.Other, vi = []HookOther{m, v}, 1
	}
	in := Input{Version: "v1", Hook: h}
	fire := func(k int) Ctx { return Ctx{Kind: "hook-ev", Op: "fire", K: k, Review: g.hookReview(h.Other[k].Type)} }
	in.Ctxs = []Ctx{fire(vi)}
	if g.r.Chance(40) {
		in.Ctxs = append(in.Ctxs, fire(1-vi))
	}
	if g.r.Chance(40) {
		in.Ctxs = append([]Ctx{{Kind: "hook-ev", Op: "apply", K: 0, Objects: []Item{{Obj: cmData(h.Kube[0].Ns, "new", "z"), Filter: h.Kube[0].JqFilter, Keep: h.Kube[0].keep()}}}}, in.Ctxs...)
	}
	return in
}

func hookCM(ns, name, v string) Item { return Item{Obj: cmData(ns, name, v), Keep: true} }

// hookPair: a kubernetes binding "pods.example.com" (includes inclK), a kubernetes binding
// "cm.example.com", and a binding of type t that is ALSO called "pods.example.com" (includes inclO);
// the array holds one context of each namesake.
func hookPair(t string, kubeFirst bool, sync bool, inclK, inclO []string) Input {
	all := []string{"Added", "Modified", "Deleted"}
	h := &Hook{
		Kube: []HookKube{
			{Name: "pods.example.com", Ns: "d", Events: &all, Incl: inclK, Initial: []Item{hookCM("d", "pod-0", "x")}},
			{Name: "cm.example.com", Ns: "ks", JqFilter: "{data: .data}", Keep: bptr(false), Initial: []Item{{Obj: cmData("ks", "settings", "bar"), Filter: "{data: .data}"}}},
		},
		Other: []HookOther{{Type: t, Name: "pods.example.com", Incl: inclO}},
	}
	kube := Ctx{Kind: "hook-ev", Op: "apply", K: 0, Objects: []Item{hookCM("d", "pod-1", "y")}}
	if sync {
		kube = Ctx{Kind: "hook-ev", Op: "sync", K: 0}
	}
	fire := Ctx{Kind: "hook-ev", Op: "fire", K: 0}
	switch otherKey(t) {
	case "kubernetesValidating", "kubernetesMutating":
		fire.Review = &Review{UID: "uid-1", Name: "ct", Namespace: "d", Operation: "CREATE", Objects: []any{pod("ct", nil, 1)}}
	case "kubernetesCustomResourceConversion":
		fire.Review = &Review{UID: "uid-2", Desired: "stable.example.com/" + hookConvTo, Objects: []any{pod("ct", nil, 1)}}
	}
	in := Input{Version: "v1", Hook: h, Ctxs: []Ctx{kube, fire}}
	if !kubeFirst {
		in.Ctxs = []Ctx{fire, kube}
	}
	return in
}

// hookCorpus: namesakes of different binding types with different includeSnapshotsFrom in one array.
func hookCorpus() []core.In[Input] {
	var out []core.In[Input]
	add := func(in Input) { out = append(out, core.In[Input]{Input: in, Stream: "corpus"}) }
	cm, pods := []string{"cm.example.com"}, []string{"pods.example.com"}
	// the kubernetes binding includes nothing, its namesake includes the ConfigMaps: both orders
	add(hookPair("schedule", true, false, nil, cm))
	add(hookPair("schedule", false, false, nil, cm))
	// the other way round; two different non-empty lists; a Synchronization as the kubernetes context
	add(hookPair("schedule", true, false, cm, nil))
	add(hookPair("kubernetesValidating", true, false, pods, cm))
	add(hookPair("kubernetesMutating", false, true, cm, []string{"pods.example.com", "cm.example.com"}))
	add(hookPair("kubernetesCustomResourceConversion", true, true, nil, cm))
	// namesakes among the other bindings; a group; a hook without kubernetes bindings
	all := []string{"Added", "Modified", "Deleted"}
	add(Input{Version: "v1", Hook: &Hook{
		Kube: []HookKube{{Name: "cm.example.com", Ns: "d", Events: &all, Group: "g", Initial: []Item{hookCM("d", "settings", "bar")}},
			{Name: "x.y.z", Ns: "ks", Keep: bptr(false), Initial: []Item{{Obj: cmData("ks", "other", "1")}}}},
		Other: []HookOther{{Type: "schedule", Name: "tick.example.com", Incl: []string{"x.y.z"}},
			{Type: "kubernetesValidating", Name: "tick.example.com", Group: "g"},
			{Type: "kubernetesCustomResourceConversion", Name: "tick.example.com"}}},
		Ctxs: []Ctx{{Kind: "hook-ev", Op: "fire", K: 1, Review: &Review{UID: "uid-3", Name: "ct", Namespace: "d", Operation: "UPDATE"}},
			{Kind: "hook-ev", Op: "fire", K: 0}, {Kind: "hook-ev", Op: "fire", K: 2, Review: &Review{UID: "uid-4", Desired: "stable.example.com/" + hookConvTo}},
			{Kind: "hook-ev", Op: "delete", K: 0, Objects: []Item{hookCM("d", "settings", "bar")}}, {Kind: "hook-ev", Op: "sync", K: 0}}})
	add(Input{Version: "v1", Hook: &Hook{Other: []HookOther{{Type: "schedule", Name: "tick.example.com"}, {Type: "kubernetesMutating", Name: "tick.example.com"}}},
		Ctxs: []Ctx{{Kind: "hook-ev", Op: "fire", K: 0}, {Kind: "hook-ev", Op: "fire", K: 1, Review: &Review{UID: "uid-5", Operation: "CREATE"}}}})
	// conversion: one binding with the chain v1alpha1 -> v1beta1 -> v1 (+ back), another binding of the same CRD
	// with v1 -> v2; one request per rule, first rule first and last
	convFire := func(k int, from, to string) Ctx {
		return Ctx{Kind: "hook-ev", Op: "fire", K: k, From: from, To: to,
			Review: &Review{UID: "uid-" + from, Desired: "stable.example.com/" + to, Objects: []any{pod("ct", nil, 1)}}}
	}
	chain := [][2]string{{"v1alpha1", "v1beta1"}, {"v1beta1", "v1"}, {"v1", "v1alpha1"}}
	add(Input{Version: "v1", Hook: &Hook{
		Kube: []HookKube{{Name: "cm.example.com", Ns: "ks", Initial: []Item{hookCM("ks", "settings", "bar")}}},
		Other: []HookOther{{Type: "kubernetesCustomResourceConversion", Name: "up.example.com", Crd: "crontabs.example.com", Rules: chain, Incl: []string{"cm.example.com"}},
			{Type: "kubernetesCustomResourceConversion", Name: "up2.example.com", Crd: "crontabs.example.com", Rules: [][2]string{{"v1", "v2"}}}}},
		Ctxs: []Ctx{convFire(0, "v1alpha1", "v1beta1"), convFire(1, "v1", "v2"), convFire(0, "v1", "v1alpha1"), convFire(0, "v1beta1", "v1"), convFire(0, "v1alpha1", "v1beta1")}})
	add(Input{Version: "v1", Hook: &Hook{
		Other: []HookOther{{Type: "kubernetesCustomResourceConversion", Name: "up.example.com", Crd: "crontabs.example.com", Rules: [][2]string{{"v1", "v2"}, {"v2", "v1"}}}}},
		Ctxs: []Ctx{convFire(0, "v1", "v2")}})
	// a real cluster: objects with managedFields, uid, resourceVersion, ...; one binding's jqFilter lists the field
	// managers and keeps no full objects, the other takes the metadata wholesale and keeps them; a Synchronization,
	// two Events and a Schedule with both snapshots in ONE array
	mgrs, meta := `{m: [.metadata.managedFields[]?.manager]}`, `{meta: .metadata}`
	add(Input{Version: "v1", Hook: &Hook{
		Kube: []HookKube{{Name: "cm.example.com", Ns: "ks", JqFilter: mgrs, Keep: bptr(false), Incl: []string{"cm.example.com"},
			Initial: []Item{{Obj: servedCM("ks", "settings", "bar", 48213, 2), Filter: mgrs}}},
			{Name: "pods.example.com", Ns: "d", JqFilter: meta, Events: &all,
				Initial: []Item{{Obj: servedCM("d", "pod-0", "x", 48214, 1), Filter: meta, Keep: true}}}},
		Other: []HookOther{{Type: "schedule", Name: "pods.example.com", Incl: []string{"cm.example.com", "pods.example.com"}}}},
		Ctxs: []Ctx{{Kind: "hook-ev", Op: "sync", K: 0},
			{Kind: "hook-ev", Op: "apply", K: 1, Objects: []Item{{Obj: servedCM("d", "pod-1", "y", 48230, 3), Filter: meta, Keep: true}}},
			{Kind: "hook-ev", Op: "apply", K: 0, Objects: []Item{{Obj: servedCM("ks", "settings", "baz", 48231, 1), Filter: mgrs}}},
			{Kind: "hook-ev", Op: "fire", K: 0}}})
	// F30: two schedule bindings called tick.example.com, the second one includes the ConfigMaps and fires
	settings := Item{Obj: cmData("ks", "settings", "bar"), Filter: "{data: .data}"}
	out = append(out, core.In[Input]{Stream: "trigger-F30", Input: Input{Version: "v1", Hook: &Hook{
		Kube:  []HookKube{{Name: "cm.example.com", Ns: "ks", JqFilter: "{data: .data}", Keep: bptr(false), Initial: []Item{settings}}},
		Other: []HookOther{{Type: "schedule", Name: "tick.example.com"}, {Type: "schedule", Name: "tick.example.com", Incl: []string{"cm.example.com"}}}},
		Ctxs: []Ctx{{Kind: "hook-ev", Op: "fire", K: 1}}}})
	// F31: a validating and a mutating binding called x.y.z, the validating one is asked
	out = append(out, core.In[Input]{Stream: "trigger-F31", Input: Input{Version: "v1", Hook: &Hook{
		Other: []HookOther{{Type: "kubernetesValidating", Name: "x.y.z"}, {Type: "kubernetesMutating", Name: "x.y.z"}}},
		Ctxs: []Ctx{{Kind: "hook-ev", Op: "fire", K: 0, Review: &Review{UID: "u1", Operation: "CREATE"}}}}})
	return out
}

// hookExhaustive (thorough, search): type of the namesake x order in the array x kind of the kubernetes
// context x includeSnapshotsFrom of either namesake in {none, [cm], [pods], [pods, cm]}.
func hookExhaustive() []core.In[Input] {
	var out []core.In[Input]
	lists := [][]string{nil, {"cm.example.com"}, {"pods.example.com"}, {"pods.example.com", "cm.example.com"}}
	for _, t := range hookOtherTypes {
		for _, kubeFirst := range []bool{true, false} {
			for _, sync := range []bool{false, true} {
				for _, a := range lists {
					for _, b := range lists {
						out = append(out, core.In[Input]{Input: hookPair(t, kubeFirst, sync, a, b), Stream: "exhaustive"})
					}
				}
			}
		}
	}
	return out
}

// hookConvExhaustive (thorough, search): one conversion binding with 1-4 rules in every rotation, a request
// for every rule, with and without a second binding on the same CRD (declared before or after).
func hookConvExhaustive() []core.In[Input] {
	var out []core.In[Input]
	all := [][2]string{{"v1alpha1", "v1beta1"}, {"v1beta1", "v1"}, {"v1", "v1alpha1"}, {"v1alpha1", "v1"}}
	for n := 1; n <= len(all); n++ {
		for rot := 0; rot < n; rot++ {
			rules := append(append([][2]string{}, all[rot:n]...), all[:rot]...)
			for idx := 0; idx < n; idx++ {
				for second := 0; second < 3; second++ {
					first := HookOther{Type: "kubernetesCustomResourceConversion", Name: "up.example.com", Crd: "crontabs.example.com", Rules: rules}
					other := HookOther{Type: "kubernetesCustomResourceConversion", Name: "up2.example.com", Crd: "crontabs.example.com", Rules: [][2]string{{"v2", "v1"}}}
					h := &Hook{Other: []HookOther{first}}
					k := 0
					switch second {
					case 1:
						h.Other = []HookOther{first, other}
					case 2:
						h.Other, k = []HookOther{other, first}, 1
					}
					r := rules[idx]
					out = append(out, core.In[Input]{Stream: "exhaustive", Input: Input{Version: "v1", Hook: h, Ctxs: []Ctx{
						{Kind: "hook-ev", Op: "fire", K: k, From: r[0], To: r[1], Review: &Review{UID: "uid-1", Desired: "stable.example.com/" + r[1]}}}}})
				}
			}
		}
	}
	return out
}

var _ = strings.Join
