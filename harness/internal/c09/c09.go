// Package c09: correspondence driver for C09 (binding context JSON follows the documented
// contract, incl. filterResult).  Run builds real ObjectAndFilterResult values through the
// real applyFilter (+RemoveFullObject), real BindingContext values (kubernetes contexts
// through the real ConvertKubeEventToBindingContext) and renders them with the real
// ConvertBindingContextList(version, contexts).Json().  The expected jq values come from
// /usr/bin/jq (independent oracle; the code under test uses gojq), always asked about the object
// exactly as it is handed to applyFilter / created in the cluster.  In a large share of the cases
// the objects are shaped as an API server returns them (metadata.managedFields, uid,
// resourceVersion, creationTimestamp, generation, last-applied annotation: serverFields) and the
// jqFilter reads those fields directly or wholesale (metaFilters).
package c09

import (
	"bytes"
	"encoding/json"
	"fmt"
	"os/exec"
	"sort"
	"strings"
	"time"

	admv1 "k8s.io/api/admission/v1"
	apixv1 "k8s.io/apiextensions-apiserver/pkg/apis/apiextensions/v1"
	metav1 "k8s.io/apimachinery/pkg/apis/meta/v1"
	"k8s.io/apimachinery/pkg/apis/meta/v1/unstructured"
	"k8s.io/apimachinery/pkg/runtime"
	k8stypes "k8s.io/apimachinery/pkg/types"

	bctx "github.com/flant/shell-operator/pkg/hook/binding_context"
	"github.com/flant/shell-operator/pkg/hook/config"
	"github.com/flant/shell-operator/pkg/hook/controller"
	htypes "github.com/flant/shell-operator/pkg/hook/types"
	kem "github.com/flant/shell-operator/pkg/kube_events_manager"
	kemtypes "github.com/flant/shell-operator/pkg/kube_events_manager/types"

	"verifharness/internal/core"
)

// ---- input ----

// Item is one element of Objects / of a snapshot.
type Item struct {
	Raw    bool   `json:"raw,omitempty"`    // hand-built struct instead of the applyFilter path
	Obj    any    `json:"obj"`              // the kubernetes object (nil only for raw items)
	Filter string `json:"filter,omitempty"` // jqFilter text ("" = none)
	Keep   bool   `json:"keep"`             // keepFullObjectsInMemory of the binding
	JqOut  []any  `json:"jq_out,omitempty"` // output stream of /usr/bin/jq FILTER on Obj (oracle; filled by Gen)
	// raw items only
	RawRemove  bool   `json:"raw_remove,omitempty"`
	Fres       string `json:"fres,omitempty"` // "", "str", "val"
	FresStr    string `json:"fres_str,omitempty"`
	FresVal    any    `json:"fres_val,omitempty"`
	FresParses bool   `json:"fres_parses,omitempty"` // oracle: FresStr is exactly one JSON value
	FresParsed any    `json:"fres_parsed,omitempty"` // oracle: that value (/usr/bin/jq .)
}

type Snap struct {
	Name  string `json:"name"`
	Items []Item `json:"items"`
}

type Review struct {
	UID       string `json:"uid"`
	Name      string `json:"name,omitempty"`
	Namespace string `json:"namespace,omitempty"`
	Operation string `json:"operation,omitempty"`
	Desired   string `json:"desired,omitempty"`
	Objects   []any  `json:"objects,omitempty"`
}

type Ctx struct {
	Kind       string   `json:"kind"`  // generator's label (tags only)
	BType      string   `json:"btype"` // onStartup schedule kubernetes kubernetesValidating kubernetesMutating kubernetesCustomResourceConversion other
	JqFilter   string   `json:"jq_filter,omitempty"`
	Incl       []string `json:"incl,omitempty"`
	InclAll    bool     `json:"incl_all,omitempty"`
	Group      string   `json:"group,omitempty"`
	Binding    string   `json:"binding"`
	Type       string   `json:"type,omitempty"`        // "", Synchronization, Event
	WatchEvent string   `json:"watch_event,omitempty"` // "", Added, Modified, Deleted
	Objects    []Item   `json:"objects,omitempty"`
	Snapshots  []Snap   `json:"snapshots,omitempty"`
	Review     *Review  `json:"review,omitempty"`
	From       string   `json:"from,omitempty"`
	To         string   `json:"to,omitempty"`
	Via        bool     `json:"via,omitempty"` // kubernetes contexts: build through ConvertKubeEventToBindingContext
	Op         string   `json:"op,omitempty"`  // flow cases: "apply" | "delete" of Objects[0] on the cluster (see flow.go); hook cases: "sync" | "apply" | "delete" | "fire" (see hook.go)
	K          int      `json:"k,omitempty"`   // hook cases only: index of the kubernetes binding (sync, apply, delete) / of the other binding (fire)
}

type Input struct {
	Version string `json:"version"`          // "v1", "v0", anything else
	Config  string `json:"config,omitempty"` // when set: a hook config; version, binding name, jqFilter and keepFullObjectsInMemory of the kubernetes contexts come from the REAL loaded config (first kubernetes binding)
	Ctxs    []Ctx  `json:"ctxs"`
	Flow    *Flow  `json:"flow,omitempty"` // when set: the contexts come out of the real informer path; Ctxs are cluster operations (flow.go)
	Hook    *Hook  `json:"hook,omitempty"` // when set: a hook with several bindings; Ctxs are the events whose contexts form ONE combined array (hook.go)
}

// ---- observation ----

type Obs struct {
	Out     string     `json:"out"`               // the JSON text produced by Json()
	Crash   string     `json:"crash,omitempty"`   // panic while building/rendering
	Err     string     `json:"err,omitempty"`     // error returned by applyFilter/Json/LoadAndValidate (the case is then unusable)
	Reviews []string   `json:"reviews,omitempty"` // json.Marshal of the review payload of each context ("" = nil)
	Eff     *Input     `json:"eff,omitempty"`     // effective input when Config was used
	Files   []FlowFile `json:"files,omitempty"`   // flow cases: the rendered files in the order they were produced
	// hook cases: one record per item of the rendered array (Out)
	HookItems []HookItem `json:"hook_items,omitempty"`
}

func deepCopy(v any) any {
	b, _ := json.Marshal(v)
	var out any
	_ = json.Unmarshal(b, &out)
	return out
}

func toUnstructured(obj any) *unstructured.Unstructured {
	if obj == nil {
		return nil
	}
	m, ok := deepCopy(obj).(map[string]any)
	if !ok {
		return nil
	}
	return &unstructured.Unstructured{Object: m}
}

func buildItem(it Item) (kemtypes.ObjectAndFilterResult, error) {
	if it.Raw {
		o := kemtypes.ObjectAndFilterResult{Object: toUnstructured(it.Obj)}
		o.Metadata.JqFilter = it.Filter
		o.Metadata.RemoveObject = it.RawRemove
		switch it.Fres {
		case "str":
			o.FilterResult = it.FresStr
		case "val":
			o.FilterResult = deepCopy(it.FresVal)
		}
		return o, nil
	}
	res, err := kem.VerifC09ApplyFilter(it.Filter, it.Keep, toUnstructured(it.Obj))
	if err != nil {
		return kemtypes.ObjectAndFilterResult{}, err
	}
	return *res, nil
}

func buildItems(items []Item) ([]kemtypes.ObjectAndFilterResult, error) {
	out := make([]kemtypes.ObjectAndFilterResult, 0, len(items))
	for _, it := range items {
		o, err := buildItem(it)
		if err != nil {
			return nil, err
		}
		out = append(out, o)
	}
	return out, nil
}

func bindingType(s string) htypes.BindingType {
	switch s {
	case "onStartup":
		return htypes.OnStartup
	case "schedule":
		return htypes.Schedule
	case "kubernetes":
		return htypes.OnKubernetesEvent
	case "kubernetesValidating":
		return htypes.KubernetesValidating
	case "kubernetesMutating":
		return htypes.KubernetesMutating
	case "kubernetesCustomResourceConversion":
		return htypes.KubernetesConversion
	}
	return htypes.BindingType("beforeHelm") // an addon-operator binding type
}

func rawExt(obj any) runtime.RawExtension {
	b, _ := json.Marshal(obj)
	return runtime.RawExtension{Raw: b}
}

func buildCtx(c Ctx) (bctx.BindingContext, string, error) {
	objs, err := buildItems(c.Objects)
	if err != nil {
		return bctx.BindingContext{}, "", err
	}
	var bc bctx.BindingContext
	bt := bindingType(c.BType)
	if c.Via && bt == htypes.OnKubernetesEvent && (c.Type == "Synchronization" || (c.Type == "Event" && c.WatchEvent != "")) && !c.InclAll {
		link := &controller.KubernetesBindingToMonitorLink{MonitorId: "m", BindingConfig: htypes.OnKubernetesEventConfig{
			CommonBindingConfig:  htypes.CommonBindingConfig{BindingName: c.Binding},
			Monitor:              &kem.MonitorConfig{JqFilter: c.JqFilter},
			IncludeSnapshotsFrom: c.Incl,
			Group:                c.Group,
		}}
		ev := kemtypes.KubeEvent{MonitorId: "m", Type: kemtypes.KubeEventType(c.Type), Objects: objs}
		if c.Type == "Event" {
			ev.WatchEvents = []kemtypes.WatchEventType{kemtypes.WatchEventType(c.WatchEvent)}
		}
		bcs := controller.ConvertKubeEventToBindingContext(ev, link)
		if len(bcs) != 1 {
			return bc, "", fmt.Errorf("ConvertKubeEventToBindingContext returned %d contexts", len(bcs))
		}
		bc = bcs[0]
	} else {
		bc = bctx.BindingContext{Binding: c.Binding, Type: kemtypes.KubeEventType(c.Type),
			WatchEvent: kemtypes.WatchEventType(c.WatchEvent), Objects: objs}
		if len(c.Objects) == 0 {
			bc.Objects = nil
		}
		bc.Metadata.BindingType = bt
		bc.Metadata.JqFilter = c.JqFilter
		bc.Metadata.IncludeSnapshots = c.Incl
		bc.Metadata.IncludeAllSnapshots = c.InclAll
		bc.Metadata.Group = c.Group
	}
	bc.FromVersion, bc.ToVersion = c.From, c.To
	if c.Snapshots != nil {
		bc.Snapshots = map[string][]kemtypes.ObjectAndFilterResult{}
		for _, s := range c.Snapshots {
			items, err := buildItems(s.Items)
			if err != nil {
				return bc, "", err
			}
			bc.Snapshots[s.Name] = items
		}
	}
	review := ""
	if c.Review != nil {
		switch bt {
		case htypes.KubernetesValidating, htypes.KubernetesMutating:
			req := &admv1.AdmissionRequest{UID: k8stypes.UID(c.Review.UID), Name: c.Review.Name, Namespace: c.Review.Namespace,
				Operation: admv1.Operation(c.Review.Operation),
				Kind:      metav1.GroupVersionKind{Group: "stable.example.com", Version: "v1", Kind: "CronTab"},
				Resource:  metav1.GroupVersionResource{Group: "stable.example.com", Version: "v1", Resource: "crontabs"}}
			if len(c.Review.Objects) > 0 {
				req.Object = rawExt(c.Review.Objects[0])
			}
			bc.AdmissionReview = &admv1.AdmissionReview{Request: req}
			b, err := json.Marshal(bc.AdmissionReview)
			if err != nil {
				return bc, "", err
			}
			review = string(b)
		case htypes.KubernetesConversion:
			req := &apixv1.ConversionRequest{UID: k8stypes.UID(c.Review.UID), DesiredAPIVersion: c.Review.Desired}
			for _, o := range c.Review.Objects {
				req.Objects = append(req.Objects, rawExt(o))
			}
			bc.ConversionReview = &apixv1.ConversionReview{Request: req}
			b, err := json.Marshal(bc.ConversionReview)
			if err != nil {
				return bc, "", err
			}
			review = string(b)
		}
	}
	return bc, review, nil
}

// Run renders one list of contexts with the real code.
func Run(in Input) (obs Obs) {
	defer func() {
		if r := recover(); r != nil {
			obs.Crash = fmt.Sprint("panic: ", r)
		}
	}()
	if in.Flow != nil {
		return runFlow(in)
	}
	if in.Hook != nil {
		return runHook(in)
	}
	if in.Config != "" {
		hc := &config.HookConfig{}
		if err := hc.LoadAndValidate([]byte(in.Config)); err != nil {
			obs.Err = "LoadAndValidate: " + err.Error()
			return obs
		}
		if len(hc.OnKubernetesEvents) == 0 {
			obs.Err = "config has no kubernetes binding"
			return obs
		}
		k := hc.OnKubernetesEvents[0]
		eff := Input{Version: hc.Version, Config: in.Config}
		for _, c := range in.Ctxs {
			if c.BType == "kubernetes" {
				c.Binding = k.BindingName
				c.JqFilter = k.Monitor.JqFilter
				c.Group = k.Group
				c.Incl = k.IncludeSnapshotsFrom
				objs := make([]Item, len(c.Objects))
				for i, it := range c.Objects {
					if !it.Raw {
						it.Filter = k.Monitor.JqFilter
						it.Keep = k.Monitor.KeepFullObjectsInMemory
					}
					objs[i] = it
				}
				c.Objects = objs
			}
			eff.Ctxs = append(eff.Ctxs, c)
		}
		in = eff
		obs.Eff = &eff
	}
	var bcs []bctx.BindingContext
	for _, c := range in.Ctxs {
		bc, review, err := buildCtx(c)
		if err != nil {
			obs.Err = err.Error()
			return obs
		}
		bcs = append(bcs, bc)
		obs.Reviews = append(obs.Reviews, review)
	}
	data, err := bctx.ConvertBindingContextList(in.Version, bcs).Json()
	if err != nil {
		obs.Err = "Json: " + err.Error()
		return obs
	}
	obs.Out = string(data)
	return obs
}

// ---- rendering to Coq ----

func coqOptJSON(present bool, v any) string {
	if !present {
		return "None"
	}
	return "(Some " + core.CoqJSON(v) + ")"
}

func coqItem(it Item) string {
	if it.Raw {
		fres := "FRNil"
		switch it.Fres {
		case "str":
			fres = fmt.Sprintf("(FRStr %s %s)", core.CoqBytes(it.FresStr), coqOptJSON(it.FresParses, it.FresParsed))
		case "val":
			fres = fmt.Sprintf("(FRVal %s)", core.CoqJSON(it.FresVal))
		}
		return fmt.Sprintf("Raw (mkOfr %s %s %s %s)", core.CoqBool(it.Filter != ""), core.CoqBool(it.RawRemove),
			coqOptJSON(it.Obj != nil, it.Obj), fres)
	}
	jqf := "None"
	if it.Filter != "" {
		jqf = "(Some " + core.CoqList(it.JqOut, func(v any) string { return core.CoqJSON(v) }) + ")"
	}
	return fmt.Sprintf("Stored %s %s %s", jqf, core.CoqBool(it.Keep), core.CoqJSON(it.Obj))
}

func coqBType(s string) string {
	switch s {
	case "onStartup":
		return "BOnStartup"
	case "schedule":
		return "BSchedule"
	case "kubernetes":
		return "BKube"
	case "kubernetesValidating":
		return "BValidating"
	case "kubernetesMutating":
		return "BMutating"
	case "kubernetesCustomResourceConversion":
		return "BConversion"
	}
	return "BOther"
}

func coqCtx(c Ctx, review string) string {
	kt := map[string]string{"": "KEmpty", "Synchronization": "KSync", "Event": "KEvent"}[c.Type]
	wev := map[string]string{"": "WNone", "Added": "WAdded", "Modified": "WModified", "Deleted": "WDeleted"}[c.WatchEvent]
	snaps := append([]Snap{}, c.Snapshots...)
	sort.SliceStable(snaps, func(i, j int) bool { return snaps[i].Name < snaps[j].Name })
	areview, creview := "None", "None"
	if review != "" {
		s, ok := core.CoqJSONBytes([]byte(review))
		if !ok {
			s = "JNull"
		}
		if c.BType == "kubernetesCustomResourceConversion" {
			creview = "(Some " + s + ")"
		} else {
			areview = "(Some " + s + ")"
		}
	}
	return fmt.Sprintf("mkCtx %s %s %s %s %s %s %s %s\n    %s\n    %s\n    %s %s %s %s",
		coqBType(c.BType), core.CoqBool(c.JqFilter != ""), core.CoqList(c.Incl, core.CoqBytes), core.CoqBool(c.InclAll),
		core.CoqBytes(c.Group), core.CoqBytes(c.Binding), kt, wev,
		core.CoqList(c.Objects, coqItem),
		core.CoqList(snaps, func(s Snap) string {
			return "(" + core.CoqBytes(s.Name) + ", " + core.CoqList(s.Items, coqItem) + ")"
		}),
		areview, creview, core.CoqBytes(c.From), core.CoqBytes(c.To))
}

func coqVersion(v string) string {
	switch v {
	case "v0":
		return "V0"
	case "v1":
		return "V1"
	}
	return "VOther"
}

func Render(in Input, obs *Obs, crash string) core.Case {
	if in.Flow != nil {
		return renderFlow(in, obs, crash)
	}
	if in.Hook != nil {
		return renderHook(in, obs, crash)
	}
	c := core.Case{}
	out := "None"
	var observed any
	if obs != nil && obs.Eff != nil {
		in = *obs.Eff
	}
	switch {
	case crash != "":
		observed = map[string]any{"crash": crash}
	case obs.Crash != "":
		observed = map[string]any{"crash": obs.Crash}
	case obs.Err != "":
		// unusable case (the generator avoids these): reported as a crash so that it is never silently dropped
		observed = map[string]any{"error": obs.Err}
	default:
		s, ok := core.CoqJSONBytes([]byte(obs.Out))
		if ok {
			out = "(Some " + s + ")"
			observed = json.RawMessage(obs.Out)
		} else {
			observed = map[string]any{"unparsable": obs.Out}
		}
	}
	var parts []string
	for i, cx := range in.Ctxs {
		review := ""
		if obs != nil && i < len(obs.Reviews) {
			review = obs.Reviews[i]
		}
		parts = append(parts, coqCtx(cx, review))
	}
	c.Coq = fmt.Sprintf("CList %s\n  [%s]\n  %s", coqVersion(in.Version), strings.Join(parts, ";\n   "), out)
	c.JSON = observed
	kb, _ := json.Marshal(in)
	c.Key = string(kb)
	c.Tags = append(c.Tags, "version:"+in.Version, fmt.Sprintf("contexts:%d", len(in.Ctxs)))
	for _, cx := range in.Ctxs {
		c.Tags = append(c.Tags, "kind:"+cx.Kind)
		if len(cx.Incl) > 0 || cx.InclAll {
			c.Tags = append(c.Tags, fmt.Sprintf("snapshots:%d", len(cx.Snapshots)))
			c.Nontrivial = true
		} else {
			c.Tags = append(c.Tags, "snapshots:none")
		}
		if cx.BType == "kubernetes" && cx.Type != "" {
			if cx.JqFilter != "" {
				c.Tags = append(c.Tags, "jqFilter:set")
			} else {
				c.Tags = append(c.Tags, "jqFilter:unset")
			}
		}
		for _, it := range cx.Objects {
			c.Nontrivial = true
			if it.Raw {
				c.Tags = append(c.Tags, "item:raw")
				continue
			}
			c.Tags = append(c.Tags, fmt.Sprintf("item:keepFull=%v", it.Keep))
			if it.Filter != "" {
				c.Tags = append(c.Tags, "filter:"+it.Filter)
			}
		}
		if cx.Review != nil {
			c.Nontrivial = true
		}
	}
	if in.Config != "" {
		c.Tags = append(c.Tags, "via-real-config")
	}
	c.Tags = append(c.Tags, serverTags(in)...)
	return c
}

// serverTags: how the objects of the case are shaped and whether a jqFilter reads what a server adds.
func serverTags(in Input) []string {
	reads := map[string]bool{}
	for _, f := range metaFilters {
		reads[f] = true
	}
	for _, f := range metaTriggerFilters {
		reads[f] = true
	}
	served, plain, read, maxMgr := 0, 0, false, 0
	visit := func(items []Item) {
		for _, it := range items {
			if it.Raw || it.Obj == nil {
				continue
			}
			if !isServed(it.Obj) {
				plain++
				continue
			}
			served++
			md, _ := it.Obj.(map[string]any)["metadata"].(map[string]any)
			if mf, ok := md["managedFields"].([]any); ok && len(mf) > maxMgr {
				maxMgr = len(mf)
			}
			if reads[it.Filter] {
				read = true
			}
		}
	}
	if in.Flow != nil {
		visit(in.Flow.Initial)
	}
	if in.Hook != nil {
		for _, k := range in.Hook.Kube {
			visit(k.Initial)
		}
	}
	for _, c := range in.Ctxs {
		if c.Op == "delete" {
			continue
		}
		visit(c.Objects)
		for _, sn := range c.Snapshots {
			visit(sn.Items)
		}
	}
	var tags []string
	switch {
	case served > 0 && plain > 0:
		tags = append(tags, "objects:api-server-shaped", "objects:mixed-with-hand-built")
	case served > 0:
		tags = append(tags, "objects:api-server-shaped")
	case plain > 0:
		tags = append(tags, "objects:hand-built")
	}
	if served > 0 {
		tags = append(tags, fmt.Sprintf("objects:managedFields-managers<=%d", maxMgr))
	}
	if read {
		tags = append(tags, "jq-reads:server-fields")
	}
	return tags
}

// ---- the jq oracle (/usr/bin/jq) ----

const jqBin = "/usr/bin/jq"

func parseStream(b []byte) ([]any, error) {
	dec := json.NewDecoder(bytes.NewReader(b))
	dec.UseNumber()
	var out []any
	for dec.More() {
		var v any
		if err := dec.Decode(&v); err != nil {
			return nil, err
		}
		out = append(out, v)
	}
	return out, nil
}

// jqBatch runs `jq -c [FILTER]` over all objects at once: one array of outputs per object.
func jqBatch(filter string, objs []any) ([][]any, error) {
	var in bytes.Buffer
	for _, o := range objs {
		b, _ := json.Marshal(o)
		in.Write(b)
		in.WriteByte('\n')
	}
	cmd := exec.Command(jqBin, "-c", "["+filter+"]")
	cmd.Stdin = &in
	outb, err := cmd.Output()
	if err != nil {
		return nil, fmt.Errorf("jq %q: %v", filter, err)
	}
	vals, err := parseStream(outb)
	if err != nil || len(vals) != len(objs) {
		return nil, fmt.Errorf("jq %q: %d results for %d inputs (%v)", filter, len(vals), len(objs), err)
	}
	res := make([][]any, len(objs))
	for i, v := range vals {
		arr, ok := v.([]any)
		if !ok {
			return nil, fmt.Errorf("jq %q: non-array line", filter)
		}
		if arr == nil {
			arr = []any{}
		}
		res[i] = arr
	}
	return res, nil
}

// jqParse: is text exactly one JSON value (what json.Unmarshal accepts)?  Decided by jq.
func jqParse(text string) (any, bool) {
	if strings.TrimSpace(text) == "" {
		return nil, false
	}
	cmd := exec.Command(jqBin, "-c", ".")
	cmd.Stdin = strings.NewReader(text)
	outb, err := cmd.Output()
	if err != nil {
		return nil, false
	}
	vals, err := parseStream(outb)
	if err != nil || len(vals) != 1 {
		return nil, false
	}
	return vals[0], true
}

// fillOracle computes JqOut / FresParsed for every item of every input.
func fillOracle(ins []core.In[Input]) error {
	type ref struct{ it *Item }
	byFilter := map[string][]ref{}
	visit := func(items []Item) {
		for i := range items {
			it := &items[i]
			if it.Raw {
				if it.Fres == "str" {
					it.FresParsed, it.FresParses = jqParse(it.FresStr)
				}
				continue
			}
			if it.Filter != "" && it.JqOut == nil {
				byFilter[it.Filter] = append(byFilter[it.Filter], ref{it})
			}
		}
	}
	for k := range ins {
		if ins[k].Input.Flow != nil {
			visit(ins[k].Input.Flow.Initial)
		}
		if ins[k].Input.Hook != nil {
			for b := range ins[k].Input.Hook.Kube {
				visit(ins[k].Input.Hook.Kube[b].Initial)
			}
		}
		for c := range ins[k].Input.Ctxs {
			cx := &ins[k].Input.Ctxs[c]
			visit(cx.Objects)
			for s := range cx.Snapshots {
				visit(cx.Snapshots[s].Items)
			}
		}
	}
	filters := make([]string, 0, len(byFilter))
	for f := range byFilter {
		filters = append(filters, f)
	}
	sort.Strings(filters)
	for _, f := range filters {
		refs := byFilter[f]
		objs := make([]any, len(refs))
		for i, r := range refs {
			objs[i] = r.it.Obj
		}
		outs, err := jqBatch(f, objs)
		if err != nil {
			return err
		}
		for i, r := range refs {
			r.it.JqOut = outs[i]
		}
	}
	return nil
}

// ---- generation ----

// filters whose result on every generated object is exactly one JSON object
var objectFilters = []string{
	`{name: .metadata.name, replicas: .spec.replicas}`,
	`.spec`,
	`{labels: .metadata.labels, ns: .metadata.namespace}`,
	`.`,
	`.metadata | {name, namespace}`,
	`{"a": {"b": [.spec.replicas, "x"]}, "n": null}`,
	`.metadata.labels // {}`,
	`.metadata`,
	// what an API server adds to an object, read directly or wholesale (see metaFilters)
	`{m: [.metadata.managedFields[]?.manager]}`,
	`{meta: .metadata}`,
	`{n: (.metadata.managedFields | length)}`,
	`{rv: .metadata.resourceVersion, uid: .metadata.uid, gen: .metadata.generation}`,
	`del(.spec)`,
	`.metadata.annotations // {}`,
	`.metadata.managedFields[0] // {}`,
}

// metaFilters: the object-valued filters whose result depends on the fields an API server adds to
// every object (metadata.managedFields, uid, resourceVersion, creationTimestamp, generation,
// annotations) - because they name them or because they take `.metadata` / the object wholesale.
// On a hand-built object they say nothing; the generator prefers them when the objects of a case are
// shaped as an API server returns them (gen.served).
var metaFilters = []string{
	`.`,
	`.metadata`,
	`{m: [.metadata.managedFields[]?.manager]}`,
	`{meta: .metadata}`,
	`{n: (.metadata.managedFields | length)}`,
	`{rv: .metadata.resourceVersion, uid: .metadata.uid, gen: .metadata.generation}`,
	`del(.spec)`,
	`.metadata.annotations // {}`,
	`.metadata.managedFields[0] // {}`,
}

// the same among the filters whose result is not one object (finding F8)
var metaTriggerFilters = []string{
	`.metadata.managedFields`,
	`.metadata.managedFields | length`,
	`.metadata.managedFields[]?`,
	`.metadata.uid`,
}

// filters whose result is a scalar, an array, null, nothing or several values (finding F8)
var triggerFilters = []string{
	`.spec.replicas`,
	`.metadata.name`,
	`[.metadata.name, .spec.replicas]`,
	`.spec.missing`,
	`empty`,
	`.metadata, .spec`,
	`.metadata.labels.app == "a"`,
	`.spec.containers[]?`,
	`.metadata.labels`,                 // an object when the object has labels, null otherwise
	`.metadata.managedFields`,          // an array on an API-server-shaped object, null otherwise
	`.metadata.managedFields | length`, // a number
	`.metadata.managedFields[]?`,       // one object per manager: nothing, one object (no trigger) or several (merged)
	`.metadata.uid`,
}

// served: the objects of the case under construction are shaped as an API server returns them
// (serve), and filters that read those fields are preferred.
type gen struct {
	r      *core.Rng
	served bool
}

// ---- objects as an API server returns them ----
// Every object read from a real API server carries metadata.uid, resourceVersion, creationTimestamp,
// (generation,) managedFields - one entry per field manager - and, after `kubectl apply`, the
// last-applied-configuration annotation.  The fake cluster adds none of them; the generator does.

var fieldManagers = []string{"kubectl-client-side-apply", "helm", "kube-controller-manager", "deckhouse-controller"}

var fieldSets = []map[string]any{
	{"f:data": map[string]any{".": map[string]any{}, "f:foo": map[string]any{}}},
	{"f:metadata": map[string]any{"f:labels": map[string]any{".": map[string]any{}, "f:app": map[string]any{}}}},
	{"f:spec": map[string]any{"f:replicas": map[string]any{}}},
}

func uidFor(ns, name string) string {
	h := uint32(2166136261)
	for _, c := range []byte(ns + "/" + name) {
		h = (h ^ uint32(c)) * 16777619
	}
	return fmt.Sprintf("%08x-3f0b-4a59-9d53-0e2f5a7c8b11", h)
}

func managedEntry(manager, operation, day string, fields map[string]any) map[string]any {
	return map[string]any{"manager": manager, "operation": operation, "apiVersion": "v1",
		"time": "2024-05-" + day + "T10:00:00Z", "fieldsType": "FieldsV1", "fieldsV1": fields}
}

// serverFields adds what an API server adds to the metadata of o (nmgr field managers).
func serverFields(o map[string]any, nmgr int, rv int, lastApplied bool, pickMgr func(int) int) {
	meta, _ := o["metadata"].(map[string]any)
	if meta == nil {
		meta = map[string]any{}
		o["metadata"] = meta
	}
	ns, _ := meta["namespace"].(string)
	name, _ := meta["name"].(string)
	meta["uid"] = uidFor(ns, name)
	meta["resourceVersion"] = fmt.Sprint(rv)
	meta["creationTimestamp"] = "2024-05-01T10:00:00Z"
	meta["generation"] = 1 + rv%3
	mf := []any{}
	for i := 0; i < nmgr; i++ {
		k := pickMgr(i)
		e := managedEntry(fieldManagers[k%len(fieldManagers)], []string{"Update", "Apply"}[k%2], fmt.Sprintf("%02d", 1+k%9), fieldSets[k%len(fieldSets)])
		if k%5 == 0 {
			e["subresource"] = "status"
		}
		mf = append(mf, e)
	}
	meta["managedFields"] = mf
	if lastApplied {
		ann, _ := meta["annotations"].(map[string]any)
		if ann == nil {
			ann = map[string]any{}
			meta["annotations"] = ann
		}
		ann["kubectl.kubernetes.io/last-applied-configuration"] =
			fmt.Sprintf("{\"apiVersion\":\"v1\",\"kind\":\"ConfigMap\",\"metadata\":{\"annotations\":{},\"name\":%q}}\n", name)
	}
}

// plainObj: a hand-built object whatever the case (review payloads, hand-built structs).
func (g *gen) plainObj() map[string]any {
	was := g.served
	g.served = false
	o := g.obj()
	g.served = was
	return o
}

func (g *gen) serve(o map[string]any) {
	nmgr := []int{1, 1, 1, 2, 2, 3}[g.r.Intn(6)]
	serverFields(o, nmgr, 40000+g.r.Intn(9000), g.r.Chance(30), func(int) int { return g.r.Intn(20) })
}

func isServed(obj any) bool {
	m, _ := obj.(map[string]any)
	md, _ := m["metadata"].(map[string]any)
	_, ok := md["managedFields"]
	return ok
}

func (g *gen) pick(xs []string) string { return xs[g.r.Intn(len(xs))] }

func (g *gen) obj() map[string]any {
	meta := map[string]any{"name": fmt.Sprintf("p%d", g.r.Intn(4))}
	if !g.r.Chance(12) {
		meta["namespace"] = g.pick([]string{"d", "ks"})
	}
	if !g.r.Chance(20) {
		l := map[string]any{"app": g.pick([]string{"a", "b"})}
		if g.r.Chance(30) {
			l["t"] = "x<&>"
		}
		meta["labels"] = l
	}
	spec := map[string]any{"replicas": g.r.Intn(4)}
	if g.r.Chance(30) {
		spec["node"] = "n1"
	}
	if g.r.Chance(25) {
		spec["containers"] = []any{map[string]any{"name": "c1"}, map[string]any{"name": "c2", "ok": true}}
	}
	o := map[string]any{"metadata": meta, "spec": spec}
	if !g.r.Chance(5) {
		o["kind"] = g.pick([]string{"Pod", "ConfigMap"})
	}
	if g.r.Chance(50) {
		o["apiVersion"] = "v1"
	}
	if g.served && !g.r.Chance(12) {
		g.serve(o)
	}
	return o
}

type opts struct {
	filter string
	keep   bool
}

func (g *gen) opts(triggerPct int, keepFalsePct int) opts {
	o := opts{keep: !g.r.Chance(keepFalsePct)}
	k := g.r.Intn(100)
	objPct := 45
	if g.served {
		objPct = 70 // API-server-shaped objects: mostly with a jqFilter, mostly one that reads what the server added
	}
	switch {
	case k < triggerPct:
		o.filter = g.pick(triggerFilters)
		if g.served && g.r.Chance(50) {
			o.filter = g.pick(metaTriggerFilters)
		}
	case k < triggerPct+objPct:
		o.filter = g.pick(objectFilters)
		if g.served && g.r.Chance(70) {
			o.filter = g.pick(metaFilters)
		}
	}
	return o
}

func (g *gen) items(o opts, n int) []Item {
	items := []Item{}
	for i := 0; i < n; i++ {
		items = append(items, Item{Obj: g.obj(), Filter: o.filter, Keep: o.keep})
	}
	return items
}

var bindingNames = []string{"kubernetes", "monitor-pods", "configmap-content", "b", "schedule", "Every 20 minutes"}

func (g *gen) snapshots(c *Ctx, n int, triggerPct int) {
	names := []string{"cm", "monitor-pods", "pods"}
	c.Snapshots = []Snap{}
	for i := 0; i < n; i++ {
		c.Incl = append(c.Incl, names[i])
		c.Snapshots = append(c.Snapshots, Snap{Name: names[i], Items: g.items(g.opts(triggerPct, 35), g.r.Intn(3))})
	}
	// the operator may also hand over an empty map (hook without a kubernetes controller)
	if n > 0 && g.r.Chance(8) {
		c.Snapshots = nil
	}
}

var ctxKinds = []string{"onStartup", "schedule", "sync", "event", "group-schedule", "group-sync", "group-event",
	"validating", "mutating", "conversion"}
var malformedKinds = []string{"other", "kube-notype", "event-0obj", "event-2obj", "sync-wev", "event-nowev", "raw-items",
	"startup-incl", "review-nil", "incl-all"}

// ctx builds one context of the given kind. v0: contexts of a v0 hook (full objects are kept).
func (g *gen) ctx(kind string, v0 bool, triggerPct int, nsnap int) Ctx {
	c := Ctx{Kind: kind, Binding: g.pick(bindingNames)}
	keepFalse := 35
	if v0 {
		keepFalse = 0
	}
	o := g.opts(triggerPct, keepFalse)
	wev := g.pick([]string{"Added", "Modified", "Deleted"})
	kube := func(typ string, nobj int) {
		c.BType, c.Type, c.JqFilter = "kubernetes", typ, o.filter
		c.Objects = g.items(o, nobj)
		c.Via = g.r.Chance(70)
		if typ == "Event" {
			c.WatchEvent = wev
		}
	}
	review := func(conv bool) {
		c.Review = &Review{UID: fmt.Sprintf("uid-%d", g.r.Intn(9)), Name: "ct", Namespace: "d", Operation: g.pick([]string{"CREATE", "UPDATE", "DELETE"})}
		if conv {
			c.Review = &Review{UID: fmt.Sprintf("uid-%d", g.r.Intn(9)), Desired: "stable.example.com/v1"}
			c.From, c.To = "unstable.crontab.io/v1beta1", "stable.example.com/v1"
		}
		for i := g.r.Intn(3); i > 0; i-- {
			c.Review.Objects = append(c.Review.Objects, g.plainObj())
		}
	}
	switch kind {
	case "onStartup":
		c.BType, c.Binding = "onStartup", "onStartup"
		return c
	case "schedule":
		c.BType = "schedule"
	case "sync":
		kube("Synchronization", g.r.Intn(4))
	case "event":
		kube("Event", 1)
	case "group-schedule":
		c.BType, c.Group = "schedule", g.pick([]string{"pods", "g"})
	case "group-sync":
		kube("Synchronization", g.r.Intn(3))
		c.Group = g.pick([]string{"pods", "g"})
	case "group-event":
		kube("Event", 1)
		c.Group = g.pick([]string{"pods", "g"})
	case "validating":
		c.BType = "kubernetesValidating"
		review(false)
		if g.r.Chance(30) {
			c.Group = "pods"
		}
	case "mutating":
		c.BType = "kubernetesMutating"
		review(false)
	case "conversion":
		c.BType = "kubernetesCustomResourceConversion"
		review(true)
	// ---- malformed / undocumented states of the Go struct ----
	case "other":
		c.BType = "other"
		if g.r.Bool() {
			c.Type, c.Objects = "Event", g.items(o, 1)
		}
	case "kube-notype":
		kube("", g.r.Intn(2))
		c.Via = false
	case "event-0obj":
		kube("Event", 0)
	case "event-2obj":
		kube("Event", 2)
	case "sync-wev":
		kube("Synchronization", g.r.Intn(3))
		c.WatchEvent, c.Via = wev, false
	case "event-nowev":
		kube("Event", 1)
		c.WatchEvent = ""
	case "raw-items":
		kube(g.pick([]string{"Synchronization", "Event"}), 0)
		for i := 1 + g.r.Intn(3); i > 0; i-- {
			c.Objects = append(c.Objects, g.rawItem(v0 && len(c.Objects) == 0))
		}
	case "startup-incl":
		c.BType, c.Binding = "onStartup", "onStartup"
	case "review-nil":
		c.BType = g.pick([]string{"kubernetesValidating", "kubernetesCustomResourceConversion"})
	case "incl-all":
		c.BType, c.InclAll = "schedule", true
	}
	if nsnap < 0 {
		nsnap = []int{0, 0, 1, 2, 3}[g.r.Intn(5)]
	}
	g.snapshots(&c, nsnap, triggerPct)
	if kind == "incl-all" && g.r.Bool() {
		c.Incl = nil
	}
	return c
}

var rawStrings = []string{`{"spec":"asd"}`, ``, `null`, `{bad`, `3`, `"s"`, `[1,2]`, ` `, `1 2`, `{"b":1,"a":{"z":null}}`}

// rawItem: a hand-built ObjectAndFilterResult (string filter results as the repo's tests build
// them, FilterFunc-like values, nil objects).  needObj: the object must be present (v0 reads it).
func (g *gen) rawItem(needObj bool) Item {
	it := Item{Raw: true, Obj: g.plainObj(), RawRemove: g.r.Chance(30)}
	if g.r.Chance(60) {
		it.Filter = ".spec"
	}
	if !needObj && g.r.Chance(25) {
		it.Obj = nil
	}
	switch g.r.Intn(3) {
	case 0:
		it.Fres, it.FresStr = "str", g.pick(rawStrings)
	case 1:
		it.Fres = "val"
		it.FresVal = []any{map[string]any{"a": 1}, []any{1, "x"}, 7, true, map[string]any{}}[g.r.Intn(5)]
	}
	return it
}

func (g *gen) input(v0 bool, n int, triggerPct, malformedPct int) (Input, string) {
	in := Input{Version: "v1"}
	if v0 {
		in.Version = "v0"
	}
	stream := "random"
	for i := 0; i < n; i++ {
		kind := g.pick(ctxKinds)
		if g.r.Chance(malformedPct) {
			kind = g.pick(malformedKinds)
			stream = "malformed"
		}
		in.Ctxs = append(in.Ctxs, g.ctx(kind, v0, triggerPct, -1))
	}
	return in, stream
}

func hasTrigger(in Input) bool {
	t := map[string]bool{}
	for _, f := range triggerFilters {
		t[f] = true
	}
	for _, f := range []string{`.data.foo`, `.spec.replicas`, `.metadata.labels.rev`} {
		t[f] = true
	}
	chk := func(items []Item) bool {
		for _, it := range items {
			if !it.Raw && t[it.Filter] {
				return true
			}
		}
		return false
	}
	if in.Flow != nil && chk(in.Flow.Initial) {
		return true
	}
	if in.Hook != nil {
		for _, k := range in.Hook.Kube {
			if chk(k.Initial) {
				return true
			}
		}
	}
	for _, c := range in.Ctxs {
		if chk(c.Objects) {
			return true
		}
		for _, s := range c.Snapshots {
			if chk(s.Items) {
				return true
			}
		}
	}
	return false
}

func pod(name string, labels map[string]any, replicas int) map[string]any {
	meta := map[string]any{"name": name, "namespace": "default"}
	if labels != nil {
		meta["labels"] = labels
	}
	return map[string]any{"apiVersion": "v1", "kind": "Pod", "metadata": meta, "spec": map[string]any{"replicas": replicas}}
}

// servedPod: pod(...) as an API server returns it, with nmgr field managers.
func servedPod(name string, labels map[string]any, replicas, nmgr int) map[string]any {
	o := pod(name, labels, replicas)
	serverFields(o, nmgr, 48213+nmgr, nmgr > 1, func(i int) int { return i })
	return o
}

// Corpus: reproduction witnesses and the documentation's examples; runs first.
func Corpus() []core.In[Input] {
	lbl := map[string]any{"app": "proxy", "pod-template-hash": "cfdbfcbb8"}
	event := func(filter string, keep bool, o map[string]any) Ctx {
		return Ctx{Kind: "event", BType: "kubernetes", Binding: "monitor-pods", JqFilter: filter, Type: "Event", WatchEvent: "Added",
			Objects: []Item{{Obj: o, Filter: filter, Keep: keep}}, Via: true}
	}
	mk := func(stream string, in Input) core.In[Input] { return core.In[Input]{Input: in, Stream: stream} }
	legacy := func(fres string) Item {
		return Item{Raw: true, Obj: pod("pod-qwe", nil, 1), Filter: ".spec", Fres: "str", FresStr: fres}
	}
	legacyNoJq := Item{Raw: true, Obj: pod("pod-qwe", nil, 1), Fres: "str", FresStr: `{"spec":"asd"}`}
	cases := []core.In[Input]{
		// F3 (repaired): real applyFilter result -> ObjectAndFilterResult -> BindingContext -> Json():
		// filterResult was always null because Map() wanted a string and applyFilter stores a map
		mk("corpus", Input{Version: "v1", Ctxs: []Ctx{event(".metadata.labels", true, pod("pod-321d12", lbl, 1))}}),
		mk("corpus", Input{Version: "v1", Ctxs: []Ctx{event("{nodeName: .spec.nodeName, name: .metadata.labels}", false, pod("pod-321d12", lbl, 1))}}),
		mk("corpus", Input{Version: "v1", Ctxs: []Ctx{{Kind: "sync", BType: "kubernetes", Binding: "monitor-pods", JqFilter: ".metadata.labels", Type: "Synchronization",
			Objects: []Item{{Obj: pod("etcd", lbl, 1), Filter: ".metadata.labels", Keep: true}, {Obj: pod("kube-proxy", map[string]any{"label1": "value"}, 2), Filter: ".metadata.labels", Keep: true}},
			Incl:    []string{"configmap-content"}, Snapshots: []Snap{{Name: "configmap-content", Items: []Item{{Obj: pod("settings-for-my-hook", nil, 0), Keep: true}}}}, Via: true}}}),
		// F15 (repaired): the keepFullObjectsInMemory flag comes from the REAL loaded v0 config; before the
		// repair it was false, the informer dropped the full object and MapV0 dereferenced nil
		mk("corpus", Input{Version: "v0", Config: `{"onKubernetesEvent":[{"kind":"Pod","event":["add"]}]}`,
			Ctxs: []Ctx{{Kind: "event", BType: "kubernetes", Binding: "onKubernetesEvent", Type: "Event", WatchEvent: "Added", Objects: []Item{{Obj: pod("p", nil, 1), Keep: true}}, Via: true}}}),
		mk("corpus", Input{Version: "v0", Config: "onKubernetesEvent:\n- name: pods\n  kind: Pod\n  jqFilter: .metadata.labels\n",
			Ctxs: []Ctx{{Kind: "sync", BType: "kubernetes", Binding: "pods", JqFilter: ".metadata.labels", Type: "Synchronization",
				Objects: []Item{{Obj: pod("p", lbl, 1), Filter: ".metadata.labels", Keep: true}}, Via: true}}}),
		// the same through a real v1 config with keepFullObjectsInMemory: false
		mk("corpus", Input{Version: "v1", Config: `{"configVersion":"v1","kubernetes":[{"name":"pods","kind":"Pod","jqFilter":".metadata.labels","keepFullObjectsInMemory":false}]}`,
			Ctxs: []Ctx{{Kind: "event", BType: "kubernetes", Binding: "pods", JqFilter: ".metadata.labels", Type: "Event", WatchEvent: "Modified",
				Objects: []Item{{Obj: pod("p", lbl, 1), Filter: ".metadata.labels", Keep: false}}, Via: true}}}),
		// the string-based behaviour pinned by types_test.go (must survive the F3 repair)
		mk("corpus", Input{Version: "v1", Ctxs: []Ctx{{Kind: "raw-items", BType: "kubernetes", Binding: "b", JqFilter: ".spec", Type: "Synchronization",
			Objects: []Item{legacy(`{"spec":"asd"}`), legacy(``), legacy(`null`), legacyNoJq}}}}),
		// documentation examples
		mk("corpus", Input{Version: "v1", Ctxs: []Ctx{{Kind: "onStartup", BType: "onStartup", Binding: "onStartup"}}}),
		mk("corpus", Input{Version: "v1", Ctxs: []Ctx{{Kind: "schedule", BType: "schedule", Binding: "incremental"}}}),
		mk("corpus", Input{Version: "v1", Ctxs: []Ctx{{Kind: "group-event", BType: "kubernetes", Binding: "monitor-pods", JqFilter: ".metadata.labels", Group: "pods", Type: "Event", WatchEvent: "Added",
			Objects: []Item{{Obj: pod("p", lbl, 1), Filter: ".metadata.labels", Keep: true}}, Incl: []string{"configmap-content", "monitor-pods"},
			Snapshots: []Snap{{Name: "monitor-pods", Items: []Item{{Obj: pod("p", lbl, 1), Filter: ".metadata.labels", Keep: true}}}, {Name: "configmap-content", Items: []Item{}}}, Via: true}}}),
		// objects as an API server returns them, a jqFilter that reads what the server added: the filter result
		// must be jq's answer for the object shown as `object` (applyFilter -> jq.ApplyFilter runs jq on a copy)
		mk("corpus", Input{Version: "v1", Ctxs: []Ctx{event(`{m: [.metadata.managedFields[]?.manager]}`, true, servedPod("pod-321d12", lbl, 1, 2))}}),
		mk("corpus", Input{Version: "v1", Ctxs: []Ctx{event(`{meta: .metadata}`, false, servedPod("pod-321d12", lbl, 1, 1))}}),
		mk("corpus", Input{Version: "v1", Ctxs: []Ctx{{Kind: "sync", BType: "kubernetes", Binding: "monitor-pods", JqFilter: ".", Type: "Synchronization",
			Objects: []Item{{Obj: servedPod("etcd", lbl, 1, 3), Filter: ".", Keep: true}, {Obj: pod("kube-proxy", nil, 2), Filter: ".", Keep: true}},
			Incl:    []string{"cms"}, Snapshots: []Snap{{Name: "cms", Items: []Item{{Obj: servedPod("settings", nil, 0, 1), Filter: ".metadata", Keep: false}}}}, Via: true}}}),
		// F8 (recorded finding of C08): a scalar jq result is stored as {}
		mk("trigger", Input{Version: "v1", Ctxs: []Ctx{event(".spec.replicas", true, pod("p", lbl, 3))}}),
	}
	return append(append(append(append(cases, flowCorpus()...), hookCorpus()...), sharedCorpus()...), winCorpus()...)
}

func Gen(r *core.Rng, tier string) ([]core.In[Input], bool) {
	ins := Corpus()
	g := &gen{r: r}
	n := 400
	switch tier {
	case "thorough":
		n = 8000
	case "search":
		n = 2000
	}
	for i := 0; i < n; i++ {
		v0 := g.r.Chance(15)
		nctx := 1 + g.r.Intn(4)
		// objects as an API server returns them in one input out of five (fewer contexts: they are large)
		g.served = g.r.Chance(20)
		if g.served && nctx > 2 {
			nctx = 2
		}
		switch {
		case i%10 == 9: // trigger stream: jq results that are not a single object (F8)
			in, _ := g.input(false, nctx, 60, 0)
			ins = append(ins, core.In[Input]{Input: in, Stream: "trigger"})
		case i%10 == 8: // undocumented states of the Go struct
			in, _ := g.input(v0, nctx, 0, 60)
			ins = append(ins, core.In[Input]{Input: in, Stream: "malformed"})
		default:
			in, st := g.input(v0, nctx, 0, 0)
			ins = append(ins, core.In[Input]{Input: in, Stream: st})
		}
	}
	g.served = false
	// flow cases: the contexts come out of the real informer path (see flow.go)
	nflow := 110
	switch tier {
	case "thorough":
		nflow = 3000
	case "search":
		nflow = 900
	}
	for i := 0; i < nflow; i++ {
		triggerPct := 0
		if i%10 == 9 {
			triggerPct = 60
		}
		// the cluster of every second case is a real one: its objects carry what an API server adds
		g.served = i%2 == 1
		ins = append(ins, core.In[Input]{Input: g.flow(triggerPct), Stream: "flow"})
	}
	g.served = false
	// hook cases: one combined array of a hook whose bindings of different types share names (see hook.go)
	nhook := 100
	switch tier {
	case "thorough":
		nhook = 2500
	case "search":
		nhook = 800
	}
	for i := 0; i < nhook; i++ {
		triggerPct := 0
		if i%10 == 9 {
			triggerPct = 60
		}
		g.served = i%2 == 1
		ins = append(ins, core.In[Input]{Input: g.hook(triggerPct), Stream: "hook"})
	}
	g.served = false
	// hooks with several kubernetes bindings on ONE resource (one shared informer) and different options (see shared.go)
	nshared := 70
	switch tier {
	case "thorough":
		nshared = 2500
	case "search":
		nshared = 1200
	}
	for i := 0; i < nshared; i++ {
		triggerPct := 0
		if i%12 == 11 {
			triggerPct = 50
		}
		g.served = i%3 == 2
		ins = append(ins, core.In[Input]{Input: g.hookShared(triggerPct), Stream: "hook-shared"})
	}
	g.served = false
	// windows: deliveries while the binding's events are still locked, Synchronization runs, the unlock (see win.go)
	nwin := 80
	switch tier {
	case "thorough":
		nwin = 2000
	case "search":
		nwin = 1500
	}
	for i := 0; i < nwin; i++ {
		triggerPct := 0
		if i%12 == 11 {
			triggerPct = 60
		}
		ins = append(ins, core.In[Input]{Input: g.window(triggerPct), Stream: "window"})
	}
	// low-rate trigger streams of the recorded findings F30 (two bindings of one type share a name) and
	// F31 (a validating and a mutating binding share a name); the ordinary hook stream never produces them
	ndup := 6
	switch tier {
	case "thorough":
		ndup = 150
	case "search":
		ndup = 40
	}
	for i := 0; i < ndup; i++ {
		ins = append(ins, core.In[Input]{Input: g.hookF30(), Stream: "trigger-F30"})
		ins = append(ins, core.In[Input]{Input: g.hookF31(), Stream: "trigger-F31"})
	}
	if tier == "thorough" || tier == "search" {
		ins = append(ins, flowExhaustive()...)
		ins = append(ins, flowServedExhaustive()...)
		ins = append(ins, hookExhaustive()...)
		ins = append(ins, hookConvExhaustive()...)
		ins = append(ins, sharedExhaustive()...)
		ins = append(ins, winExhaustive()...)
	}
	if tier == "thorough" || tier == "search" {
		// every documented kind x jqFilter {unset, object-valued, scalar} x keepFullObjectsInMemory x
		// number of included snapshots {0,1,2} x version, one context each
		for _, kind := range ctxKinds {
			for fi, filter := range []string{"", objectFilters[0], triggerFilters[0]} {
				for _, keep := range []bool{true, false} {
					for nsnap := 0; nsnap <= 2; nsnap++ {
						for _, v0 := range []bool{false, true} {
							if v0 && (!keep || fi == 2) {
								continue
							}
							c := g.ctx(kind, v0, 0, nsnap)
							c.JqFilter = ""
							if c.BType == "kubernetes" {
								c.JqFilter = filter
							}
							for k := range c.Objects {
								c.Objects[k].Filter, c.Objects[k].Keep = filter, keep
							}
							in := Input{Version: "v1", Ctxs: []Ctx{c}}
							if v0 {
								in.Version = "v0"
							}
							ins = append(ins, core.In[Input]{Input: in, Stream: "exhaustive"})
						}
					}
				}
			}
		}
	}
	if err := fillOracle(ins); err != nil {
		panic("jq oracle: " + err.Error())
	}
	for i := range ins {
		if (ins[i].Stream == "random" || ins[i].Stream == "flow" || ins[i].Stream == "hook" || ins[i].Stream == "hook-shared" || ins[i].Stream == "window") && hasTrigger(ins[i].Input) {
			ins[i].Stream = "trigger"
		}
	}
	return ins, false
}

var Driver = core.Driver[Input, Obs]{
	Spec: core.Spec{Property: "C09", Imports: []string{"Json", "C09_Model", "C09_Spec", "C09_WinModel", "C09_Corr"}, Corr: "C09_Corr", Triggers: []string{"F8", "F30", "F31"}, ShrinkKey: "ctxs",
		Rule: "lists of 1-4 binding contexts rendered by ConvertBindingContextList(version,ctxs).Json(); objects go through the real applyFilter(+RemoveFullObject), kubernetes contexts through ConvertKubeEventToBindingContext; expected jq values from /usr/bin/jq; streams: corpus (F3/F15 witnesses, doc examples, legacy string filter results), random (documented kinds x options), trigger (jq results that are not one object, F8), malformed (undocumented struct states: model agreement only), exhaustive (thorough: kind x jqFilter x keepFull x snapshots x version), flow (one kubernetes binding on a fake cluster: the files of the real informer path), hook (a hook with kubernetes and schedule/validating/mutating/conversion bindings that share names across the binding types and include different snapshots: ONE combined array rendered as Hook.Run does, namesakes in both orders; conversion bindings with 1-4 rules, several bindings per CRD, a request per rule), hook-shared (2-3 kubernetes bindings of one hook on ONE resource - one shared client-go informer - with different keepFullObjectsInMemory / jqFilter / executeHookOnEvent / includeSnapshotsFrom: every cluster operation is one delivery to each of them, the combined array mixes their Synchronization and Event contexts and is rendered after all of them handled the deliveries; every item is judged with ITS binding's options), window (one kubernetes binding whose events are still LOCKED when the cluster changes: one object modified 2-4 times in a row inside / outside the part the jqFilter selects, alone or interleaved with other objects, runs of the Synchronization hook, the unlock where the driver puts it, deliveries afterwards; every file handed out is rendered as Hook.Run does and /usr/bin/jq is asked again about the object each Event file shows; thorough: every sequence of 2-4 modifications over {data, spec, label} x filter x keepFull x {alone, interleaved}), in every second flow / hook case and every fifth list the objects are shaped as an API server returns them (metadata.managedFields with 1-3 managers, uid, resourceVersion, creationTimestamp, generation, sometimes the last-applied annotation; tags objects:api-server-shaped / jq-reads:server-fields) and the jqFilter mostly reads those fields (`.`, `.metadata`, `{m: [.metadata.managedFields[]?.manager]}`, ...): /usr/bin/jq answers for the object as created in the cluster, the model runs jq on ApplyFilter's deep copy of it; trigger-F30 / trigger-F31 (hooks in which two bindings of one type, or a validating and a mutating binding, share a name: recorded findings); non-trivial = some context carries objects, snapshots or a review; distinct = distinct input JSON"},
	Gen: Gen, Run: Run, Render: Render, PerShard: 20, Workers: 8, CaseTimout: 20 * time.Second,
}
