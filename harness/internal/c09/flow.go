// flow.go: the "flow" case class of C09 — binding contexts that come out of the REAL informer
// path.  A hook configuration with one kubernetes binding is written from the case's options
// (keepFullObjectsInMemory set/unset/false, executeHookOnEvent, jqFilter, includeSnapshotsFrom,
// group, executeHookOnSynchronization; v1 and v0), loaded by the real config loader and run
// by the real KubeEventsManager (monitor, resourceInformer on a fake cluster) and the real
// HookController.  Objects that exist before the monitor starts go through
// loadExistedObjects; every later create/update/delete goes through the client-go handlers
// into handleWatchEvent.  Every BindingExecutionInfo the controller hands out is rendered
// as Hook.Run does: UpdateSnapshots -> ConvertBindingContextList(version) -> Json().
package c09

import (
	"context"
	"encoding/json"
	"fmt"
	"sort"
	"sync/atomic"
	"time"

	"github.com/deckhouse/deckhouse/pkg/log"
	metav1 "k8s.io/apimachinery/pkg/apis/meta/v1"
	"k8s.io/apimachinery/pkg/runtime/schema"
	"k8s.io/apimachinery/pkg/watch"
	dynamicfake "k8s.io/client-go/dynamic/fake"
	clienttesting "k8s.io/client-go/testing"

	"github.com/flant/kube-client/fake"
	bctx "github.com/flant/shell-operator/pkg/hook/binding_context"
	"github.com/flant/shell-operator/pkg/hook/config"
	"github.com/flant/shell-operator/pkg/hook/controller"
	kem "github.com/flant/shell-operator/pkg/kube_events_manager"
	kemtypes "github.com/flant/shell-operator/pkg/kube_events_manager/types"
	"github.com/flant/shell-operator/pkg/metric"
	metricstorage "github.com/flant/shell-operator/pkg/metric_storage"

	"verifharness/internal/core"
)

// Flow: the options of the single kubernetes binding (the hook config text is generated from
// them, see ConfigText) and the objects that exist before the monitor is created.  The
// cluster operations are the elements of Input.Ctxs (Ctx.Op = "apply" | "delete").
type Flow struct {
	Legacy   bool      `json:"legacy,omitempty"`    // a v0 config (onKubernetesEvent)
	Name     string    `json:"name,omitempty"`      // binding name ("" = not given)
	JqFilter string    `json:"jq_filter,omitempty"` // jqFilter ("" = not given)
	Keep     *bool     `json:"keep,omitempty"`      // keepFullObjectsInMemory (nil = not given: documented default true)
	Events   *[]string `json:"events,omitempty"`    // executeHookOnEvent (nil = not given: all three)
	InclSelf bool      `json:"incl_self,omitempty"` // includeSnapshotsFrom: [own name]
	Group    string    `json:"group,omitempty"`
	NoSync   bool      `json:"no_sync,omitempty"` // executeHookOnSynchronization: false
	Initial  []Item    `json:"initial,omitempty"`
	Window   bool      `json:"window,omitempty"` // a window case (win.go): the events are still locked when the operations begin; Ctxs also hold "sync" and "unlock"
}

// FlowFile is one rendered binding-context file.
type FlowFile struct {
	Step  int       `json:"step"`            // 0 = after enabling the binding (Synchronization), k = after the k-th effective operation
	Ids   []string  `json:"ids"`             // Metadata.ResourceId of the context's Objects, in their order
	Snaps []SnapIds `json:"snaps,omitempty"` // the context's Snapshots: names sorted, ResourceIds in their order
	Out   string    `json:"out"`             // ConvertBindingContextList(version, UpdateSnapshots(ctxs)).Json()
	N     int       `json:"n"`               // number of contexts in the file
	Sync  bool      `json:"sync,omitempty"`  // window cases: the file of a run of the Synchronization hook
	Rejq  *Rejq     `json:"rejq,omitempty"`  // window cases: /usr/bin/jq JQFILTER on the `object` this Event file shows
}

type Rejq struct {
	Outs []any `json:"outs"`
}

type SnapIds struct {
	Name string   `json:"name"`
	Ids  []string `json:"ids"`
}

var flowGVR = schema.GroupVersionResource{Group: "", Version: "v1", Resource: "configmaps"}

const flowKind = "ConfigMap"

// ---- the documented reading of the options (used for the Coq term; never taken from the loaded config) ----

func (f *Flow) version() string {
	if f.Legacy {
		return "v0"
	}
	return "v1"
}

func (f *Flow) bindingName() string {
	if f.Name != "" {
		return f.Name
	}
	if f.Legacy {
		return "onKubernetesEvent"
	}
	return "kubernetes"
}

func (f *Flow) keep() bool { return f.Legacy || f.Keep == nil || *f.Keep }

func (f *Flow) events() []string {
	if f.Events == nil {
		return []string{"Added", "Modified", "Deleted"}
	}
	return *f.Events
}

// names whose snapshots the contexts of the binding include (own includeSnapshotsFrom and,
// for a grouped binding, the kubernetes bindings of the group)
func (f *Flow) includes() []string {
	if f.Legacy {
		return nil
	}
	if f.InclSelf || f.Group != "" {
		return []string{f.bindingName()}
	}
	return nil
}

func (f *Flow) syncRun() bool { return !f.Legacy && !f.NoSync }

// ConfigText writes the hook configuration (JSON) the options stand for.
func (f *Flow) ConfigText() string {
	b := map[string]any{"kind": flowKind}
	if f.Name != "" {
		b["name"] = f.Name
	}
	if f.JqFilter != "" {
		b["jqFilter"] = f.JqFilter
	}
	if f.Legacy {
		if f.Events != nil {
			ev := []string{}
			for _, e := range *f.Events {
				ev = append(ev, map[string]string{"Added": "add", "Modified": "update", "Deleted": "delete"}[e])
			}
			b["event"] = ev
		}
		out, _ := json.Marshal(map[string]any{"onKubernetesEvent": []any{b}})
		return string(out)
	}
	b["apiVersion"] = "v1"
	if f.Keep != nil {
		b["keepFullObjectsInMemory"] = *f.Keep
	}
	if f.Events != nil {
		b["executeHookOnEvent"] = *f.Events
	}
	if f.InclSelf {
		b["includeSnapshotsFrom"] = []string{f.bindingName()}
	}
	if f.Group != "" {
		b["group"] = f.Group
	}
	if f.NoSync {
		b["executeHookOnSynchronization"] = false
	}
	out, _ := json.Marshal(map[string]any{"configVersion": "v1", "kubernetes": []any{b}})
	return string(out)
}

// ---- the cluster's view of the operations ----

func objMeta(obj any) (ns, name string) {
	m, _ := obj.(map[string]any)
	md, _ := m["metadata"].(map[string]any)
	ns, _ = md["namespace"].(string)
	name, _ = md["name"].(string)
	return ns, name
}

func resourceID(obj any) string {
	ns, name := objMeta(obj)
	return fmt.Sprintf("%s/%s/%s", ns, flowKind, name)
}

// WatchEv is the watch event an operation causes.
type WatchEv struct {
	Type string // Added Modified Deleted
	Item Item   // the object (for Deleted: its last state) with the jq oracle's answer
}

// watchEvents replays the operations on a map: "apply" creates or replaces, "delete" removes
// (an operation on nothing, or an apply that changes nothing, is no operation).
func watchEvents(f *Flow, ops []Ctx) []WatchEv {
	state := map[string]Item{}
	for _, it := range f.Initial {
		state[resourceID(it.Obj)] = it
	}
	var evs []WatchEv
	for _, op := range ops {
		if len(op.Objects) != 1 {
			continue
		}
		it := op.Objects[0]
		id := resourceID(it.Obj)
		cur, exists := state[id]
		switch op.Op {
		case "apply":
			if exists {
				a, _ := json.Marshal(cur.Obj)
				b, _ := json.Marshal(it.Obj)
				if string(a) == string(b) {
					continue
				}
				evs = append(evs, WatchEv{"Modified", it})
			} else {
				evs = append(evs, WatchEv{"Added", it})
			}
			state[id] = it
		case "delete":
			if exists {
				evs = append(evs, WatchEv{"Deleted", cur})
				delete(state, id)
			}
		}
	}
	return evs
}

// ---- running ----

// countingStorage counts the completed calls of resourceInformer.handleWatchEvent (its
// deferred duration metric) so that the driver knows when an operation has been handled.
type countingStorage struct {
	metric.Storage
	handled atomic.Int64
}

func (c *countingStorage) HistogramObserve(m string, value float64, labels map[string]string, buckets []float64) {
	c.Storage.HistogramObserve(m, value, labels, buckets)
	if m == "{PREFIX}kube_event_duration_seconds" {
		c.handled.Add(1)
	}
}

// lateStart is the real KubeEventsManager except that StartMonitor is postponed until the
// driver calls startAll: the Synchronization file can then be rendered from what
// loadExistedObjects cached, before the shared informer replays the existing objects through
// handleWatchEvent (in the operator the hook may run on either side of that replay).
type lateStart struct {
	kem.KubeEventsManager
	pending []string
}

func (l *lateStart) StartMonitor(monitorID string) { l.pending = append(l.pending, monitorID) }
func (l *lateStart) startAll() {
	for _, id := range l.pending {
		l.KubeEventsManager.StartMonitor(id)
	}
	l.pending = nil
}

func runFlow(in Input) (obs Obs) {
	f := in.Flow
	if f.Window {
		return runWindow(in)
	}
	log.SetDefaultLevel(log.LevelFatal)
	kem.DefaultSyncTime = time.Millisecond
	kem.DefaultFactoryStore.Reset()
	fc := fake.NewFakeCluster(fake.ClusterVersionV119)
	ctx, cancel := context.WithCancel(context.Background())
	defer cancel()
	// the driver must not change the cluster before the reflector's watch is registered with the
	// fake tracker (a change in between would be lost): count the registrations
	var watches atomic.Int64
	if fd, ok := fc.Client.Dynamic().(*dynamicfake.FakeDynamicClient); ok {
		fd.PrependWatchReactor("*", func(action clienttesting.Action) (bool, watch.Interface, error) {
			w, err := fd.Tracker().Watch(action.GetResource(), action.GetNamespace())
			if err != nil {
				return false, nil, err
			}
			watches.Add(1)
			return true, w, nil
		})
	} else {
		watches.Add(1)
	}
	dyn := fc.Client.Dynamic().Resource(flowGVR)
	for _, it := range f.Initial {
		ns, _ := objMeta(it.Obj)
		if _, err := dyn.Namespace(ns).Create(ctx, toUnstructured(it.Obj), metav1.CreateOptions{}); err != nil {
			obs.Err = "initial: " + err.Error()
			return obs
		}
	}
	hc := &config.HookConfig{}
	if err := hc.LoadAndValidate([]byte(f.ConfigText())); err != nil {
		obs.Err = "LoadAndValidate: " + err.Error()
		return obs
	}
	ms := &countingStorage{Storage: metricstorage.NewMetricStorage(ctx, "c09_", true, log.NewNop())}
	mgr := &lateStart{KubeEventsManager: kem.NewKubeEventsManager(ctx, fc.Client, log.NewNop())}
	mgr.WithMetricStorage(ms)
	hctl := controller.NewHookController()
	hctl.InitKubernetesBindings(hc.OnKubernetesEvents, mgr, log.NewNop())

	render := func(step int, bcs []bctx.BindingContext) {
		fresh := hctl.UpdateSnapshots(bcs)
		data, err := bctx.ConvertBindingContextList(hc.Version, fresh).Json()
		if err != nil {
			obs.Err = "Json: " + err.Error()
			return
		}
		file := FlowFile{Step: step, Out: string(data), N: len(fresh), Ids: []string{}}
		if len(fresh) > 0 {
			for _, o := range fresh[0].Objects {
				file.Ids = append(file.Ids, o.Metadata.ResourceId)
			}
			for name, items := range fresh[0].Snapshots {
				s := SnapIds{Name: name, Ids: []string{}}
				for _, o := range items {
					s.Ids = append(s.Ids, o.Metadata.ResourceId)
				}
				file.Snaps = append(file.Snaps, s)
			}
			sort.Slice(file.Snaps, func(i, j int) bool { return file.Snaps[i].Name < file.Snaps[j].Name })
		}
		obs.Files = append(obs.Files, file)
	}
	// events delivered by the manager are handled as the operator's events handler does
	take := func(step int) {
		for {
			select {
			case ev := <-mgr.Ch():
				hctl.HandleKubeEvent(ev, func(info controller.BindingExecutionInfo) { render(step, info.BindingContext) })
			default:
				return
			}
		}
	}
	// waits until the informer has completed `target` calls of handleWatchEvent
	wait := func(step int, target int64) bool {
		deadline := time.Now().Add(4 * time.Second)
		for ms.handled.Load() < target {
			take(step)
			if time.Now().After(deadline) {
				return false
			}
			time.Sleep(100 * time.Microsecond)
		}
		take(step)
		return true
	}

	var infos []controller.BindingExecutionInfo
	if err := hctl.HandleEnableKubernetesBindings(func(info controller.BindingExecutionInfo) { infos = append(infos, info) }); err != nil {
		obs.Err = "enable: " + err.Error()
		return obs
	}
	// the Synchronization file over what loadExistedObjects cached ...
	renderSync := func() {
		for _, info := range infos {
			if info.KubernetesBinding.ExecuteHookOnSynchronization {
				render(0, info.BindingContext)
			}
		}
	}
	renderSync()
	first := len(obs.Files)
	// ... and again after the shared informer has replayed the existing objects as Added
	// (kept only if it differs: the replay must not change what a hook sees)
	mgr.startAll()
	if !wait(0, int64(len(f.Initial))) {
		obs.Err = "the informer did not replay the existing objects"
		return obs
	}
	target := int64(len(f.Initial))
	renderSync()
	if b1, _ := json.Marshal(obs.Files[:first]); true {
		b2, _ := json.Marshal(obs.Files[first:])
		if string(b1) == string(b2) {
			obs.Files = obs.Files[:first]
		}
	}
	hctl.UnlockKubernetesEvents()
	take(0)
	for deadline := time.Now().Add(4 * time.Second); watches.Load() == 0; {
		if time.Now().After(deadline) {
			obs.Err = "the informer did not start its watch"
			return obs
		}
		time.Sleep(100 * time.Microsecond)
	}

	for k, ev := range watchEvents(f, in.Ctxs) {
		ns, name := objMeta(ev.Item.Obj)
		var err error
		switch ev.Type {
		case "Added":
			_, err = dyn.Namespace(ns).Create(ctx, toUnstructured(ev.Item.Obj), metav1.CreateOptions{})
		case "Modified":
			_, err = dyn.Namespace(ns).Update(ctx, toUnstructured(ev.Item.Obj), metav1.UpdateOptions{})
		case "Deleted":
			err = dyn.Namespace(ns).Delete(ctx, name, metav1.DeleteOptions{})
		}
		if err != nil {
			obs.Err = fmt.Sprintf("operation %d (%s): %v", k+1, ev.Type, err)
			return obs
		}
		target++
		if !wait(k+1, target) {
			obs.Err = fmt.Sprintf("operation %d (%s): the informer did not handle the watch event", k+1, ev.Type)
			return obs
		}
	}
	mgr.PauseHandleEvents()
	return obs
}

var _ = kemtypes.TypeEvent

// ---- rendering to Coq ----

func coqWobj(it Item) string {
	ns, name := objMeta(it.Obj)
	return fmt.Sprintf("mkWobj %s %s %s\n      %s\n      %s", core.CoqBytes(ns), core.CoqBytes(name), core.CoqBytes(resourceID(it.Obj)),
		core.CoqJSON(it.Obj), core.CoqList(it.JqOut, func(v any) string { return core.CoqJSON(v) }))
}

func coqWev(t string) string {
	switch t {
	case "Added":
		return "WAdded"
	case "Modified":
		return "WModified"
	case "Deleted":
		return "WDeleted"
	}
	return "WNone"
}

func renderFlow(in Input, obs *Obs, crash string) core.Case {
	f := in.Flow
	if f.Window {
		return renderWindow(in, obs, crash)
	}
	c := core.Case{}
	evs := watchEvents(f, in.Ctxs)
	binding := fmt.Sprintf("(mkBinding %s %s %s %s %s %s %s)", core.CoqBytes(f.bindingName()), core.CoqBool(f.JqFilter != ""),
		core.CoqBool(f.keep()), core.CoqList(f.events(), coqWev), core.CoqList(f.includes(), core.CoqBytes),
		core.CoqBytes(f.Group), core.CoqBool(f.syncRun()))
	flow := fmt.Sprintf("(mkFlow %s %s\n    %s\n    %s)", coqVersion(f.version()), binding,
		core.CoqList(f.Initial, func(it Item) string { return "(" + coqWobj(it) + ")" }),
		core.CoqList(evs, func(e WatchEv) string { return "(" + coqWev(e.Type) + ", " + coqWobj(e.Item) + ")" }))
	observed := "None"
	var human any
	switch {
	case crash != "":
		human = map[string]any{"crash": crash}
	case obs.Crash != "":
		human = map[string]any{"crash": obs.Crash}
	case obs.Err != "":
		human = map[string]any{"error": obs.Err}
	default:
		files := core.CoqList(obs.Files, func(ff FlowFile) string {
			out := "None"
			if s, ok := core.CoqJSONBytes([]byte(ff.Out)); ok && ff.N == 1 {
				out = "(Some " + s + ")"
			}
			return fmt.Sprintf("mkFobs %d %s %s\n      %s", ff.Step, core.CoqList(ff.Ids, core.CoqBytes),
				core.CoqList(ff.Snaps, func(s SnapIds) string {
					return "(" + core.CoqBytes(s.Name) + ", " + core.CoqList(s.Ids, core.CoqBytes) + ")"
				}), out)
		})
		observed = "(Some " + files + ")"
		var hf []any
		for _, ff := range obs.Files {
			hf = append(hf, map[string]any{"step": ff.Step, "ids": ff.Ids, "snapshot_ids": ff.Snaps, "file": json.RawMessage(ff.Out)})
		}
		var hev []string
		for k, e := range evs {
			hev = append(hev, fmt.Sprintf("%d: %s %s", k+1, e.Type, resourceID(e.Item.Obj)))
		}
		human = map[string]any{"hook_config": f.ConfigText(), "watch_events": hev, "files": hf}
	}
	c.Coq = "CFlow " + flow + "\n  " + observed
	c.JSON = human
	kb, _ := json.Marshal(in)
	c.Key = string(kb)
	c.Nontrivial = len(evs) > 0 || len(f.Initial) > 0
	keep := "unset"
	if f.Keep != nil {
		keep = fmt.Sprint(*f.Keep)
	}
	events := "unset"
	if f.Events != nil {
		events = ""
		for _, e := range *f.Events {
			events += e[:1]
		}
		if events == "" {
			events = "none"
		}
	}
	jq := "unset"
	if f.JqFilter != "" {
		jq = "set"
	}
	c.Tags = append(c.Tags, serverTags(in)...)
	c.Tags = append(c.Tags, "kind:flow", "version:"+f.version(), "flow:keepFull="+keep, "flow:executeHookOnEvent="+events, "flow:jqFilter:"+jq,
		fmt.Sprintf("flow:existing-objects=%d", len(f.Initial)), fmt.Sprintf("flow:watch-events=%d", len(evs)))
	if f.JqFilter != "" {
		c.Tags = append(c.Tags, "filter:"+f.JqFilter)
	}
	if f.InclSelf {
		c.Tags = append(c.Tags, "flow:includeSnapshotsFrom-self")
	}
	if f.Group != "" {
		c.Tags = append(c.Tags, "flow:group")
	}
	if f.NoSync {
		c.Tags = append(c.Tags, "flow:executeHookOnSynchronization=false")
	}
	for _, e := range evs {
		c.Tags = append(c.Tags, "flow-watch:"+e.Type)
	}
	if obs != nil {
		for _, ff := range obs.Files {
			kind := "Synchronization"
			if ff.Step > 0 && ff.Step <= len(evs) {
				kind = "Event/" + evs[ff.Step-1].Type
			}
			c.Tags = append(c.Tags, fmt.Sprintf("flow-file:%s keepFull=%v", kind, f.keep()))
		}
	}
	return c
}

// ---- generation ----

func flowObj(ns, name string, base map[string]any) map[string]any {
	o := map[string]any{}
	for k, v := range base {
		o[k] = v
	}
	meta := map[string]any{}
	if m, ok := base["metadata"].(map[string]any); ok {
		for k, v := range m {
			meta[k] = v
		}
	}
	meta["name"], meta["namespace"] = name, ns
	if _, ok := meta["uid"]; ok {
		meta["uid"] = uidFor(ns, name) // one uid per object of the cluster, whatever its later versions
	}
	o["metadata"], o["kind"], o["apiVersion"] = meta, flowKind, "v1"
	return o
}

func bptr(b bool) *bool { return &b }

func (g *gen) flow(triggerPct int) Input {
	f := &Flow{}
	legacy := g.r.Chance(10)
	f.Legacy = legacy
	f.Name = g.pick([]string{"", "cms", "monitor-cm", "b"})
	o := g.opts(triggerPct, 0)
	if legacy && triggerPct == 0 && o.filter == "" && g.r.Bool() {
		o.filter = g.pick(objectFilters)
	}
	f.JqFilter = o.filter
	if !legacy {
		switch k := g.r.Intn(100); {
		case k < 50:
			f.Keep = bptr(false)
		case k < 75:
			f.Keep = bptr(true)
		}
		f.InclSelf = g.r.Chance(50)
		if g.r.Chance(15) {
			f.Group = g.pick([]string{"pods", "g"})
		}
		f.NoSync = g.r.Chance(20)
	}
	if g.r.Chance(55) {
		ev := []string{}
		for _, e := range []string{"Added", "Modified", "Deleted"} {
			if g.r.Chance(65) {
				ev = append(ev, e)
			}
		}
		f.Events = &ev
	}
	names := []string{"a", "b", "c"}
	nss := []string{"d", "ks"}
	type key struct{ ns, name string }
	alive := []key{}
	mkItem := func(k key) Item { return Item{Obj: flowObj(k.ns, k.name, g.obj()), Filter: f.JqFilter, Keep: f.keep()} }
	for i := g.r.Intn(3); i > 0; i-- {
		k := key{g.pick(nss), g.pick(names)}
		dup := false
		for _, a := range alive {
			dup = dup || a == k
		}
		if !dup {
			alive = append(alive, k)
			f.Initial = append(f.Initial, mkItem(k))
		}
	}
	in := Input{Version: f.version(), Flow: f}
	for i := 1 + g.r.Intn(5); i > 0; i-- {
		if len(alive) > 0 && g.r.Chance(35) {
			j := g.r.Intn(len(alive))
			k := alive[j]
			alive = append(alive[:j], alive[j+1:]...)
			in.Ctxs = append(in.Ctxs, Ctx{Kind: "flow-op", Op: "delete", Objects: []Item{{Obj: flowObj(k.ns, k.name, nil), Keep: f.keep()}}})
			continue
		}
		var k key
		if len(alive) > 0 && g.r.Chance(50) {
			k = alive[g.r.Intn(len(alive))]
		} else {
			k = key{g.pick(nss), g.pick(names)}
			dup := false
			for _, a := range alive {
				dup = dup || a == k
			}
			if !dup {
				alive = append(alive, k)
			}
		}
		in.Ctxs = append(in.Ctxs, Ctx{Kind: "flow-op", Op: "apply", Objects: []Item{mkItem(k)}})
	}
	return in
}

func cmData(ns, name, v string) map[string]any {
	return map[string]any{"apiVersion": "v1", "kind": flowKind, "metadata": map[string]any{"name": name, "namespace": ns},
		"data": map[string]any{"foo": v}}
}

// the history used by the fixed cases: an object exists; it is modified, another one is added, the first one is deleted
func flowHistory(f *Flow) Input {
	it := func(o map[string]any) Item { return Item{Obj: o, Filter: f.JqFilter, Keep: f.keep()} }
	f.Initial = []Item{it(cmData("default", "cm-1", "bar"))}
	return Input{Version: f.version(), Flow: f, Ctxs: []Ctx{
		{Kind: "flow-op", Op: "apply", Objects: []Item{it(cmData("default", "cm-1", "baz"))}},
		{Kind: "flow-op", Op: "apply", Objects: []Item{it(cmData("default", "cm-2", "qux"))}},
		{Kind: "flow-op", Op: "delete", Objects: []Item{{Obj: cmData("default", "cm-1", ""), Keep: f.keep()}}},
	}}
}

// servedCM: cmData(...) as an API server returns it (resourceVersion rv, nmgr field managers).
func servedCM(ns, name, v string, rv, nmgr int) map[string]any {
	o := cmData(ns, name, v)
	serverFields(o, nmgr, rv, nmgr > 1, func(i int) int { return i })
	return o
}

// the same history on a real cluster: every object carries what the API server adds, and every
// write gives it a new resourceVersion (the second write of cm-1 also a second field manager)
func flowHistoryServed(f *Flow) Input {
	it := func(o map[string]any) Item { return Item{Obj: o, Filter: f.JqFilter, Keep: f.keep()} }
	f.Initial = []Item{it(servedCM("default", "cm-1", "bar", 48213, 1))}
	return Input{Version: f.version(), Flow: f, Ctxs: []Ctx{
		{Kind: "flow-op", Op: "apply", Objects: []Item{it(servedCM("default", "cm-1", "baz", 48220, 2))}},
		{Kind: "flow-op", Op: "apply", Objects: []Item{it(servedCM("default", "cm-2", "qux", 48231, 1))}},
		{Kind: "flow-op", Op: "delete", Objects: []Item{{Obj: cmData("default", "cm-1", ""), Keep: f.keep()}}},
	}}
}

// flowCorpus: one fixed history under the option combinations that matter for the contract.
func flowCorpus() []core.In[Input] {
	all := []string{"Added", "Modified", "Deleted"}
	var out []core.In[Input]
	add := func(f *Flow) { out = append(out, core.In[Input]{Input: flowHistory(f), Stream: "corpus"}) }
	// keepFullObjectsInMemory false / true / not given, with a jqFilter, all events listed, own snapshots
	add(&Flow{Name: "cms", JqFilter: "{data: .data}", Keep: bptr(false), Events: &all, InclSelf: true})
	add(&Flow{Name: "cms", JqFilter: "{data: .data}", Keep: bptr(true), Events: &all, InclSelf: true})
	add(&Flow{Name: "cms", JqFilter: "{data: .data}", InclSelf: true})
	// the documentation's example: no jqFilter and no full objects (empty elements)
	add(&Flow{Name: "pods", Keep: bptr(false)})
	// only Deleted is listed; grouped; unnamed; v0
	add(&Flow{Name: "cms", JqFilter: ".data", Keep: bptr(false), Events: &[]string{"Deleted"}, NoSync: true})
	add(&Flow{Name: "cms", JqFilter: ".data", Keep: bptr(false), Group: "g"})
	add(&Flow{JqFilter: ".metadata | {name, namespace}", Keep: bptr(false), InclSelf: true})
	add(&Flow{Legacy: true, JqFilter: ".data", Events: &all})
	add(&Flow{Legacy: true})
	// a real cluster (objects with managedFields, uid, resourceVersion, ...) and jqFilters that read those
	// fields directly or wholesale; full objects kept / not kept / default
	served := func(f *Flow) { out = append(out, core.In[Input]{Input: flowHistoryServed(f), Stream: "corpus"}) }
	served(&Flow{Name: "cms", JqFilter: `{m: [.metadata.managedFields[]?.manager]}`, Keep: bptr(true), Events: &all, InclSelf: true})
	served(&Flow{Name: "cms", JqFilter: `.metadata`, Keep: bptr(false), Events: &all, InclSelf: true})
	served(&Flow{Name: "cms", JqFilter: `.`})
	served(&Flow{JqFilter: `{n: (.metadata.managedFields | length)}`, Keep: bptr(false), Group: "g"})
	served(&Flow{Name: "cms", JqFilter: `{data: .data}`, Keep: bptr(true), InclSelf: true})
	served(&Flow{Legacy: true, JqFilter: `{meta: .metadata}`, Events: &all})
	return out
}

// flowServedExhaustive (thorough, search): every filter that reads what the API server adds x
// keepFullObjectsInMemory {unset,true,false} x includeSnapshotsFrom {no, self} over the served history.
func flowServedExhaustive() []core.In[Input] {
	var out []core.In[Input]
	for _, filter := range metaFilters {
		for _, keep := range []*bool{nil, bptr(true), bptr(false)} {
			for _, incl := range []bool{false, true} {
				out = append(out, core.In[Input]{Input: flowHistoryServed(&Flow{Name: "cms", JqFilter: filter, Keep: keep, InclSelf: incl}), Stream: "exhaustive"})
			}
		}
	}
	return out
}

// flowExhaustive (thorough, search): keepFullObjectsInMemory {unset,true,false} x executeHookOnEvent
// {unset, every subset} x jqFilter {unset, object-valued} x includeSnapshotsFrom {no, self} over the fixed history.
func flowExhaustive() []core.In[Input] {
	var out []core.In[Input]
	all := []string{"Added", "Modified", "Deleted"}
	for _, keep := range []*bool{nil, bptr(true), bptr(false)} {
		for mask := -1; mask < 8; mask++ {
			for _, filter := range []string{"", "{data: .data}"} {
				for _, incl := range []bool{false, true} {
					f := &Flow{Name: "cms", JqFilter: filter, Keep: keep, InclSelf: incl}
					if mask >= 0 {
						ev := []string{}
						for i, e := range all {
							if mask&(1<<i) != 0 {
								ev = append(ev, e)
							}
						}
						f.Events = &ev
					}
					out = append(out, core.In[Input]{Input: flowHistory(f), Stream: "exhaustive"})
				}
			}
		}
	}
	return out
}
