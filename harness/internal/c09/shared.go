// shared.go: hook cases in which SEVERAL kubernetes bindings - of one hook - watch the SAME resource
// (same kind, namespace, no selectors) with DIFFERENT options: keepFullObjectsInMemory true / false /
// not given, with / without a jqFilter (different filters), different executeHookOnEvent lists,
// includeSnapshotsFrom of each other.  Their monitors get an equal FactoryIndex, hence ONE client-go
// informer (kube_events_manager/factory.go); every handler registered on it is handed the same
// *Unstructured - the one in the informer's store - and keeps that pointer in its cachedObjects and in
// the KubeEvent; it is rendered only when the hook runs.  The property is per binding: what one binding
// drops (RemoveFullObject), projects (jqFilter) or keeps must not show in what another binding renders.
//
// The cases are ordinary hook cases (hook.go: real KubeEventsManager + HookController on the fake
// cluster, Synchronization of every binding, then cluster operations, ONE combined array rendered at
// the end as Hook.Run does - i.e. AFTER every other binding has handled the same deliveries): a
// cluster operation in a namespace is one delivery to every binding of that namespace; the Coq case
// lists it as one HWatch per binding, in configuration order, each with that binding's own jq answer.
package c09

import (
	"fmt"

	"verifharness/internal/core"
)

// sharedOp: a cluster operation on `obj` in the namespace of binding k, seen by every binding of that namespace
func sharedOp(h *Hook, op string, k int, obj map[string]any) Ctx {
	c := Ctx{Kind: "hook-ev", Op: op, K: k}
	for _, j := range h.group(k) {
		kb := h.Kube[j]
		it := Item{Obj: obj, Keep: kb.keep()}
		if op == "apply" {
			it.Filter = kb.JqFilter
		}
		c.Objects = append(c.Objects, it)
	}
	return c
}

// sharedInitial: the objects that exist at start, listed by every binding of the namespace
func sharedInitial(h *Hook, ns string, objs []map[string]any) {
	for i := range h.Kube {
		if h.Kube[i].Ns != ns {
			continue
		}
		h.Kube[i].Initial = nil
		for _, o := range objs {
			h.Kube[i].Initial = append(h.Kube[i].Initial, Item{Obj: o, Filter: h.Kube[i].JqFilter, Keep: h.Kube[i].keep()})
		}
	}
}

var sharedFilters = []string{`{foo: .data.foo}`, `{name: .metadata.name}`, `.metadata | {name, namespace}`, `.spec`,
	`{labels: .metadata.labels, ns: .metadata.namespace}`, `.`, `del(.spec)`, `.metadata`}

// hookShared: 2-3 kubernetes bindings on one namespace (sometimes a further binding on another one and a
// schedule binding that includes them), mostly with different keepFullObjectsInMemory / jqFilter /
// executeHookOnEvent; a few objects at start; Synchronization of the bindings and 2-5 cluster operations
// in any order.
func (g *gen) hookShared(triggerPct int) Input {
	h := &Hook{}
	ns := hookNamespaces[0]
	n := 2
	if g.r.Chance(35) {
		n = 3
	}
	names := append([]string{}, hookNames...)
	for i := len(names) - 1; i > 0; i-- {
		j := g.r.Intn(i + 1)
		names[i], names[j] = names[j], names[i]
	}
	keeps := []*bool{nil, bptr(true), bptr(false)}
	for i := 0; i < n; i++ {
		k := HookKube{Name: names[i], Ns: ns, Keep: keeps[g.r.Intn(3)]}
		switch p := g.r.Intn(100); {
		case p < triggerPct:
			k.JqFilter = g.pick(triggerFilters)
		case p < triggerPct+60:
			k.JqFilter = g.pick(sharedFilters)
			if g.served && g.r.Chance(50) {
				k.JqFilter = g.pick(metaFilters)
			}
		}
		if g.r.Chance(35) {
			ev := g.subset([]string{"Added", "Modified", "Deleted"}, 70)
			if ev == nil {
				ev = []string{}
			}
			k.Events = &ev
		}
		h.Kube = append(h.Kube, k)
	}
	// mostly: one binding drops the full objects and another one keeps them
	if g.r.Chance(75) {
		a := g.r.Intn(n)
		b := (a + 1 + g.r.Intn(n-1)) % n
		h.Kube[a].Keep = bptr(false)
		if g.r.Bool() {
			h.Kube[b].Keep = nil
		} else {
			h.Kube[b].Keep = bptr(true)
		}
	}
	if g.r.Chance(25) {
		h.Kube = append(h.Kube, HookKube{Name: names[n], Ns: hookNamespaces[1], JqFilter: g.pick([]string{"", sharedFilters[1]})})
	}
	var kubeNames []string
	for _, k := range h.Kube {
		kubeNames = append(kubeNames, k.Name)
	}
	for i := range h.Kube {
		if g.r.Chance(45) {
			h.Kube[i].Incl = g.subset(kubeNames, 60)
		}
	}
	if g.r.Chance(30) {
		h.Other = append(h.Other, HookOther{Type: "schedule", Name: g.pick([]string{"every.minute", kubeNames[0]}), Incl: g.subset(kubeNames, 70)})
	}
	mk := func(nspace, name string) map[string]any {
		o := flowObj(nspace, name, g.obj())
		if g.r.Chance(60) {
			o["data"] = map[string]any{"foo": g.pick([]string{"bar", "baz", "x<&>"})}
		}
		return o
	}
	var initial []map[string]any
	alive := []string{}
	for _, name := range []string{"a", "b"} {
		if g.r.Chance(55) {
			initial = append(initial, mk(ns, name))
			alive = append(alive, name)
		}
	}
	sharedInitial(h, ns, initial)
	in := Input{Version: "v1", Hook: h}
	for k := 0; k < n; k++ {
		if g.r.Chance(60) {
			in.Ctxs = append(in.Ctxs, Ctx{Kind: "hook-ev", Op: "sync", K: k})
		}
	}
	for m := 2 + g.r.Intn(4); m > 0; m-- {
		switch p := g.r.Intn(100); {
		case p < 10:
			in.Ctxs = append(in.Ctxs, Ctx{Kind: "hook-ev", Op: "sync", K: g.r.Intn(len(h.Kube))})
		case p < 20 && len(h.Other) > 0:
			in.Ctxs = append(in.Ctxs, Ctx{Kind: "hook-ev", Op: "fire", K: 0})
		case p < 28 && len(h.Kube) > n:
			in.Ctxs = append(in.Ctxs, sharedOp(h, "apply", n, mk(hookNamespaces[1], g.pick([]string{"a", "z"}))))
		case p < 45 && len(alive) > 0:
			j := g.r.Intn(len(alive))
			name := alive[j]
			alive = append(alive[:j], alive[j+1:]...)
			in.Ctxs = append(in.Ctxs, sharedOp(h, "delete", g.r.Intn(n), flowObj(ns, name, nil)))
		default:
			name := g.pick([]string{"a", "b", "c"})
			found := false
			for _, x := range alive {
				found = found || x == name
			}
			if !found {
				alive = append(alive, name)
			}
			in.Ctxs = append(in.Ctxs, sharedOp(h, "apply", g.r.Intn(n), mk(ns, name)))
		}
	}
	return in
}

// sharedCase: the bindings `kube` (all on namespace "default"), ConfigMap cm-0 exists at start; the array is
// [Synchronization of every binding (when sync), Added cm-1, Modified cm-0, Deleted cm-1] as each binding sees it.
func sharedCase(kube []HookKube, sync bool, ops int) Input {
	h := &Hook{Kube: kube}
	for i := range h.Kube {
		h.Kube[i].Ns = "default"
	}
	sharedInitial(h, "default", []map[string]any{withLabels(cmData("default", "cm-0", "bar"))})
	in := Input{Version: "v1", Hook: h}
	if sync {
		for k := range h.Kube {
			in.Ctxs = append(in.Ctxs, Ctx{Kind: "hook-ev", Op: "sync", K: k})
		}
	}
	all := []Ctx{
		sharedOp(h, "apply", 0, withLabels(cmData("default", "cm-1", "bar"))),
		sharedOp(h, "apply", len(kube)-1, withLabels(cmData("default", "cm-0", "baz"))),
		sharedOp(h, "delete", 0, cmData("default", "cm-1", "bar")),
	}
	in.Ctxs = append(in.Ctxs, all[:ops]...)
	return in
}

func withLabels(o map[string]any) map[string]any {
	o["metadata"].(map[string]any)["labels"] = map[string]any{"app": "demo"}
	return o
}

// sharedCorpus: the documented example of two bindings on one resource: `full` (default
// keepFullObjectsInMemory, jqFilter over .data) and `slim` (keepFullObjectsInMemory: false, jqFilter over
// the name), in both configuration orders, with and without the Synchronization items; three bindings
// with three option sets.
func sharedCorpus() []core.In[Input] {
	full := HookKube{Name: "full", JqFilter: `{foo: .data.foo}`}
	slim := HookKube{Name: "slim", JqFilter: `{name: .metadata.name}`, Keep: bptr(false)}
	plain := HookKube{Name: "plain", Keep: bptr(true), Incl: []string{"slim", "full"}}
	added := []string{"Added"}
	onlyAdded := HookKube{Name: "only-added", Keep: bptr(false), Events: &added}
	var out []core.In[Input]
	add := func(in Input) { out = append(out, core.In[Input]{Input: in, Stream: "corpus"}) }
	add(sharedCase([]HookKube{full, slim}, true, 1))
	add(sharedCase([]HookKube{slim, full}, true, 3))
	add(sharedCase([]HookKube{full, slim}, false, 3))
	add(sharedCase([]HookKube{plain, slim, full}, true, 3))
	plain.Incl = []string{"full", "only-added"}
	add(sharedCase([]HookKube{full, onlyAdded, plain}, true, 3))
	return out
}

// sharedExhaustive (thorough, search): every pair of option sets {keep: not given / true / false} x
// {no jqFilter, filter over .data, filter over the name} for two bindings on one resource, each with and
// without the other's snapshot, the same three operations.
func sharedExhaustive() []core.In[Input] {
	var sets []HookKube
	for _, keep := range []*bool{nil, bptr(true), bptr(false)} {
		for _, f := range []string{"", `{foo: .data.foo}`, `{name: .metadata.name}`} {
			sets = append(sets, HookKube{JqFilter: f, Keep: keep})
		}
	}
	var out []core.In[Input]
	for i, a := range sets {
		for j, b := range sets {
			for _, incl := range []bool{false, true} {
				a.Name, b.Name = "first", "second"
				a.Incl, b.Incl = nil, nil
				if incl {
					a.Incl, b.Incl = []string{"second"}, []string{"first", "second"}
				}
				in := sharedCase([]HookKube{a, b}, (i+j)%2 == 0, 3)
				out = append(out, core.In[Input]{Input: in, Stream: "shared-exhaustive"})
			}
		}
	}
	return out
}

// sharedTags: what the bindings of one resource differ in, and whether the array holds contexts of
// different bindings for one and the same delivery
func sharedTags(h *Hook, evs []HookEv) []string {
	var tags []string
	seen := map[string]bool{}
	tag := func(t string) {
		if !seen[t] {
			seen[t] = true
			tags = append(tags, t)
		}
	}
	for k := range h.Kube {
		g := h.group(k)
		if len(g) < 2 || g[0] != k {
			continue
		}
		tag(fmt.Sprintf("shared-informer:bindings=%d", len(g)))
		for _, j := range g[1:] {
			a, b := h.Kube[k], h.Kube[j]
			if a.keep() != b.keep() {
				tag("shared-informer:keepFullObjectsInMemory-differs")
			}
			if a.JqFilter != b.JqFilter {
				tag("shared-informer:jqFilter-differs")
			}
			if (a.JqFilter == "") != (b.JqFilter == "") {
				tag("shared-informer:with-and-without-jqFilter")
			}
			if fmt.Sprint(a.events()) != fmt.Sprint(b.events()) {
				tag("shared-informer:executeHookOnEvent-differs")
			}
		}
		if len(h.Kube[k].Initial) > 0 {
			tag("shared-informer:objects-at-start")
		}
	}
	for _, ev := range evs {
		if ev.Op == "watch" && len(ev.Group) > 1 {
			tag("shared-informer:delivery:" + ev.Type)
		}
		if ev.Op == "sync" && len(h.group(ev.K)) > 1 {
			tag("shared-informer:Synchronization-in-array")
		}
	}
	return tags
}
