package c07

// Class "op": sessions on the REAL operator.  A ShellOperator is assembled once per child
// process (hook manager with three real shell hooks h1.sh..h3.sh, each with schedule bindings
// in the queues main/qa/qb/qc, a kubernetesValidating, a kubernetesMutating and a
// kubernetesCustomResourceConversion binding; the real initValidatingWebhookManager installs the
// admission event handler, the real conversionEventHandler serves conversions).  A case
//   - creates the named queues of its set with the operator's task handler (NewNamedQueue as
//     bootstrapMainQueue / initAndStartHookQueues do; the workers are NOT started),
//   - fills them with HookRun tasks built like the schedule handler builds them (plus
//     EnableScheduleBindings tasks as tasks of another type),
//   - runs its steps one after the other:
//       head        the harness plays the worker of one queue exactly as TaskQueue.Start does:
//                   GetFirst, Handler (= the real taskHandler), Remove on Success, stays on Fail;
//       validating / mutating / conversion
//                   an admission event / a conversion request goes to the real event handler,
//                   which builds its queue-less HookRun task and runs it through taskHandler;
//       direct      a HookRun task carrying a chosen queue name (no queue has it, or "") that sits
//                   in no queue is handed to the real taskHandler;
//   - after every step reads which hook processes ran with which binding-context file and the
//     full content of every queue.
// The hook processes are real (bash): they copy $BINDING_CONTEXT_PATH, answer the webhook
// (response files prepared by the harness) and exit with the step's code.

import (
	"context"
	"encoding/json"
	"fmt"
	"os"
	"path/filepath"
	"strconv"
	"strings"
	"time"

	"github.com/deckhouse/deckhouse/pkg/log"
	admv1 "k8s.io/api/admission/v1"
	apixv1 "k8s.io/apiextensions-apiserver/pkg/apis/apiextensions/v1"
	metav1 "k8s.io/apimachinery/pkg/apis/meta/v1"
	"k8s.io/apimachinery/pkg/runtime"

	"github.com/flant/shell-operator/pkg/hook"
	"github.com/flant/shell-operator/pkg/hook/task_metadata"
	htypes "github.com/flant/shell-operator/pkg/hook/types"
	metricstorage "github.com/flant/shell-operator/pkg/metric_storage"
	shell_operator "github.com/flant/shell-operator/pkg/shell-operator"
	"github.com/flant/shell-operator/pkg/task"
	"github.com/flant/shell-operator/pkg/webhook/admission"
	"github.com/flant/shell-operator/pkg/webhook/conversion"

	"verifharness/internal/core"
)

const opHooks = 3

// RunObs is one execution of a hook process.
type RunObs struct {
	Hook int   `json:"hook"`
	Ctxs []Ctx `json:"ctxs"`
}

// StepObs is what one step did.
type StepObs struct {
	Runs    []RunObs `json:"runs"`
	Success bool     `json:"success"`
	State   [][]Task `json:"state"` // every queue of the set afterwards, in the order of Input.Queues
	Note    string   `json:"note,omitempty"`
}

const opHookScript = `#!/bin/bash
S='%s'
H='%s'
if [ "$1" = "--config" ]; then cat "$S/$H.config"; exit 0; fi
k=0
[ -f "$S/count" ] && read k < "$S/count"
echo $((k+1)) > "$S/count"
cp "$BINDING_CONTEXT_PATH" "$S/ctx.$k"
echo "$H" > "$S/who.$k"
[ -f "$S/aresp" ] && cp "$S/aresp" "$VALIDATING_RESPONSE_PATH"
[ -f "$S/cresp" ] && cp "$S/cresp" "$CONVERSION_RESPONSE_PATH"
e=0
[ -f "$S/exit" ] && read e < "$S/exit"
exit $e
`

type opRig struct {
	op    *shell_operator.ShellOperator
	state string
	runs  int
	// class "sync": the numbers of the real monitor ids, the hooks with a v0 config
	monNum map[string]int
	v0     map[int]bool
}

var theRig *opRig
var rigErr error

// RigRootEnv names the environment variable through which the parent process tells its child
// processes where to put their operator rigs (hooks, record files).
const RigRootEnv = "VERIF_C07_RIG_ROOT"

func valName(h int) string  { return fmt.Sprintf("v%d.example.com", h) }
func mutName(h int) string  { return fmt.Sprintf("m%d.example.com", h) }
func convName(h int) string { return fmt.Sprintf("x%d-conversion", h) }
func crdName(h int) string  { return fmt.Sprintf("crd%d.example.com", h) }

func getRig() (*opRig, error) {
	if theRig != nil || rigErr != nil {
		return theRig, rigErr
	}
	theRig, rigErr = newOpRig()
	return theRig, rigErr
}

func newOpRig() (*opRig, error) {
	// one directory per child process, inside the directory the parent process made for this run
	// (RigRootEnv; the parent removes it when the run is over)
	base := os.Getenv(RigRootEnv)
	if base == "" {
		base = os.TempDir()
	}
	root := filepath.Join(base, fmt.Sprintf("c07-rig-%d", os.Getpid()))
	_ = os.RemoveAll(root)
	if err := os.Mkdir(root, 0o755); err != nil {
		return nil, err
	}
	hooksDir, state, tmp := filepath.Join(root, "hooks"), filepath.Join(root, "state"), filepath.Join(root, "tmp")
	for _, d := range []string{hooksDir, state, tmp} {
		if err := os.Mkdir(d, 0o755); err != nil {
			return nil, err
		}
	}
	rule := []map[string]any{{"apiGroups": []string{""}, "apiVersions": []string{"v1"}, "operations": []string{"*"}, "resources": []string{"pods"}}}
	for h := 1; h <= opHooks; h++ {
		name := hookName(h)
		var sched []map[string]any
		for n := 1; n < len(queueNames); n++ {
			// 30 February: the crontab never fires by itself
			sched = append(sched, map[string]any{"name": "s-" + queueNames[n], "crontab": "0 0 30 2 *", "queue": queueNames[n]})
			// the same with the other failure policy
			sched = append(sched, map[string]any{"name": "l-" + queueNames[n], "crontab": "0 0 30 2 *", "queue": queueNames[n], "allowFailure": true})
		}
		cfg := map[string]any{
			"configVersion":        "v1",
			"schedule":             sched,
			"kubernetesValidating": []map[string]any{{"name": valName(h), "rules": rule}},
			"kubernetesMutating":   []map[string]any{{"name": mutName(h), "rules": rule}},
			"kubernetesCustomResourceConversion": []map[string]any{{"name": convName(h), "crdName": crdName(h),
				"conversions": []map[string]any{{"fromVersion": "example.com/v1", "toVersion": "example.com/v2"}}}},
		}
		b, _ := json.Marshal(cfg)
		if err := os.WriteFile(filepath.Join(state, name+".config"), b, 0o644); err != nil {
			return nil, err
		}
		if err := os.WriteFile(filepath.Join(hooksDir, name), []byte(fmt.Sprintf(opHookScript, state, name)), 0o755); err != nil {
			return nil, err
		}
	}
	caFile := filepath.Join(root, "ca.pem")
	_ = os.WriteFile(caFile, []byte("not a real CA: the bundle is only copied into the webhook configuration\n"), 0o644)

	// the operator, assembled from its exported parts as assembleShellOperator does, minus
	// listeners, kube client and certificates
	op := shell_operator.NewShellOperator(context.Background(), shell_operator.WithLogger(log.NewNop()))
	op.MetricStorage = metricstorage.NewMetricStorage(context.Background(), "verif_", true, log.NewNop())
	op.HookMetricStorage = metricstorage.NewMetricStorage(context.Background(), "verif_hook_", true, log.NewNop())
	op.SetupEventManagers()
	op.AdmissionWebhookManager = admission.NewWebhookManager(nil)
	op.AdmissionWebhookManager.Settings = &admission.WebhookSettings{CAPath: caFile, ConfigurationName: "verif-c07"}
	op.AdmissionWebhookManager.Settings.ServiceName = "verif-svc"
	op.AdmissionWebhookManager.Namespace = "default"
	op.ConversionWebhookManager = conversion.NewWebhookManager()
	op.ConversionWebhookManager.Settings = &conversion.WebhookSettings{}
	op.HookManager = hook.NewHookManager(&hook.ManagerConfig{
		WorkingDir: hooksDir, TempDir: tmp,
		Kmgr: op.KubeEventsManager, Smgr: op.ScheduleManager,
		Wmgr: op.AdmissionWebhookManager, Cmgr: op.ConversionWebhookManager, Logger: log.NewNop(),
	})
	if err := op.HookManager.Init(); err != nil {
		return nil, fmt.Errorf("hook manager init: %w", err)
	}
	// the real initValidatingWebhookManager: Init(), EnableAdmissionBindings, the admission event
	// handler; its Start() stops at the missing server certificate before any listener is opened
	err := op.VerifInitValidatingWebhookManager()
	if err == nil || !strings.Contains(err.Error(), "load TLS certs") {
		return nil, fmt.Errorf("initValidatingWebhookManager: unexpected result %v", err)
	}
	if op.AdmissionWebhookManager.Handler == nil || op.AdmissionWebhookManager.Handler.Handler == nil {
		return nil, fmt.Errorf("admission event handler was not installed")
	}
	// initConversionWebhookManager without the TLS server: the handler it installs is
	// op.conversionEventHandler, called below through its verif export
	names, _ := op.HookManager.GetHooksInOrder(htypes.KubernetesConversion)
	for _, n := range names {
		op.HookManager.GetHook(n).HookController.EnableConversionBindings()
	}
	for h := 1; h <= opHooks; h++ {
		if op.HookManager.GetHook(hookName(h)) == nil {
			return nil, fmt.Errorf("hook %s not loaded", hookName(h))
		}
	}
	return &opRig{op: op, state: state}, nil
}

func hookIndex(name string) int {
	var h int
	if _, err := fmt.Sscanf(name, "h%d.sh", &h); err == nil {
		return h
	}
	return 999999
}

func typeIndex(ty task.TaskType) int {
	switch ty {
	case task_metadata.HookRun:
		return 0
	case task_metadata.EnableScheduleBindings:
		return 1
	}
	return 99
}

// mkOpTask: a queued task of the operator. HookRun tasks as the schedule handler builds them
// (task_metadata.HookMetadata with schedule contexts, WithQueueName, WithQueuedAt); type 1 is an
// EnableScheduleBindings task as bootstrapMainQueue builds it.
func mkOpTask(t Task) task.Task {
	if t.Ty == 1 {
		bt := task.NewTask(task_metadata.EnableScheduleBindings).
			WithMetadata(task_metadata.HookMetadata{HookName: hookName(t.Hook), Binding: string(task_metadata.EnableScheduleBindings)}).
			WithQueueName(qname(t.Name))
		bt.Id = strconv.Itoa(t.Id)
		bt.WithQueuedAt(time.Now())
		return bt
	}
	t.Ty = 0
	bt := mkNamed(t)
	bt.WithQueuedAt(time.Now())
	return bt
}

func (rg *opRig) state0(in Input) [][]Task {
	var st [][]Task
	for _, n := range in.Queues {
		ts := []Task{}
		q := rg.op.TaskQueues.GetByName(qname(n))
		if q == nil {
			st = append(st, []Task{{Id: 999999}})
			continue
		}
		q.Iterate(func(tsk task.Task) {
			o := Task{Id: atoi(tsk.GetId()), Ty: typeIndex(tsk.GetType()), Ctxs: []Ctx{}, Mids: []int{}, Qn: n, Name: qindex(tsk.GetQueueName())}
			if hm, ok := tsk.GetMetadata().(task_metadata.HookMetadata); ok {
				o.Hook = hookIndex(hm.HookName)
				for _, bc := range hm.BindingContext {
					o.Ctxs = append(o.Ctxs, unCtx(bc))
				}
				for _, m := range hm.MonitorIDs {
					if k, ok := rg.monNum[m]; ok {
						o.Mids = append(o.Mids, k)
					} else {
						o.Mids = append(o.Mids, atoi(m))
					}
				}
				o.Kube = hm.BindingType == htypes.OnKubernetesEvent
				o.AF = hm.AllowFailure
				o.Exec = hm.ExecuteOnSynchronization
				o.Group = 99
				for i, g := range groups {
					if g == hm.Group {
						o.Group = i
					}
				}
			} else {
				o.NoMeta = true
			}
			ts = append(ts, o)
		})
		st = append(st, ts)
	}
	return st
}

// newRuns reads the records of the hook processes that ran since the last call.
func (rg *opRig) newRuns(st Step) []RunObs {
	n := rg.runs
	if b, err := os.ReadFile(filepath.Join(rg.state, "count")); err == nil {
		n, _ = strconv.Atoi(strings.TrimSpace(string(b)))
	}
	runs := []RunObs{}
	for k := rg.runs; k < n; k++ {
		who, _ := os.ReadFile(filepath.Join(rg.state, fmt.Sprintf("who.%d", k)))
		r := RunObs{Hook: hookIndex(strings.TrimSpace(string(who))), Ctxs: []Ctx{}}
		var ctxs []struct {
			Binding       string  `json:"binding"`
			Type          string  `json:"type"`
			GroupName     string  `json:"groupName"`
			ResourceEvent *string `json:"resourceEvent"` // v0 format, kubernetes contexts only
		}
		b, _ := os.ReadFile(filepath.Join(rg.state, fmt.Sprintf("ctx.%d", k)))
		if err := json.Unmarshal(b, &ctxs); err != nil {
			r.Ctxs = append(r.Ctxs, Ctx{Tag: 999999, Group: 99})
		}
		for _, c := range ctxs {
			x := Ctx{Tag: 999999, Group: 99}
			switch {
			case rg.v0[r.Hook] && (strings.HasPrefix(c.Binding, "c") || strings.HasPrefix(c.Binding, "k")):
				// the v0 format shows the binding name (and resourceEvent): no type, no group - the tasks of
				// v0 hooks carry no group (the v0 config has none)
				if v, err := strconv.Atoi(c.Binding[1:]); err == nil && c.Type == "" && c.GroupName == "" {
					x = Ctx{Tag: v, Group: 0, Sync: c.Binding[0] == 'k'}
				}
			case strings.HasPrefix(c.Binding, "c"), strings.HasPrefix(c.Binding, "k"):
				// c<tag>: a context made by the harness, never a Synchronization; k<tag>: the context of a
				// real binding - only its Synchronization context exists in a session.  A context with a
				// group is shown as type Group, otherwise the type tells Synchronization from the rest.
				x.Sync = c.Binding[0] == 'k'
				if v, err := strconv.Atoi(c.Binding[1:]); err == nil && (c.Type == "Group" || (c.Type == "Synchronization") == x.Sync) {
					x.Tag = v
				}
				for i, g := range groups {
					if g == c.GroupName && (g == "") == (c.Type != "Group") {
						x.Group = i
					}
				}
			case c.Binding == valName(st.Hook) && c.Type == "Validating" && st.Kind == "validating",
				c.Binding == mutName(st.Hook) && c.Type == "Mutating" && st.Kind == "mutating",
				c.Binding == convName(st.Hook) && c.Type == "Conversion" && st.Kind == "conversion":
				// the webhook task's own context
				x = Ctx{Tag: st.Tag, Group: 0}
			}
			r.Ctxs = append(r.Ctxs, x)
		}
		runs = append(runs, r)
	}
	rg.runs = n
	return runs
}

func (rg *opRig) step(in Input, st Step) (o StepObs) {
	for _, f := range []string{"aresp", "cresp", "exit"} {
		_ = os.Remove(filepath.Join(rg.state, f))
	}
	code := "0\n"
	if st.Fail {
		code = "1\n"
	}
	_ = os.WriteFile(filepath.Join(rg.state, "exit"), []byte(code), 0o644)
	op := rg.op
	switch st.Kind {
	case "head":
		// task_queue.go Start(): t := waitForTask (GetFirst), taskRes := q.Handler(t), then by status
		q := op.TaskQueues.GetByName(qname(st.Qn))
		if q == nil || q.IsEmpty() {
			o.Success = true
			break
		}
		t := q.GetFirst()
		res := q.Handler(t)
		switch res.Status {
		case "Success":
			q.Remove(t.GetId())
			o.Success = true
		case "Fail":
			t.IncrementFailureCount()
		default:
			o.Note = "handler status " + string(res.Status)
		}
		if len(res.HeadTasks)+len(res.TailTasks)+len(res.AfterTasks) > 0 {
			o.Note += " handler returned new tasks"
		}
	case "validating", "mutating":
		hk := op.HookManager.GetHook(hookName(st.Hook))
		if hk == nil {
			o.Note = "no such hook"
			break
		}
		ev := admission.Event{Request: &admv1.AdmissionRequest{
			UID: "uid-1", Operation: admv1.Create, Name: "p", Namespace: "default",
			Kind:     metav1.GroupVersionKind{Version: "v1", Kind: "Pod"},
			Resource: metav1.GroupVersionResource{Version: "v1", Resource: "pods"},
		}}
		if st.Kind == "validating" {
			md := hk.GetConfig().KubernetesValidating[0].Webhook.Metadata
			ev.WebhookId, ev.ConfigurationId = md.WebhookId, md.ConfigurationId
		} else {
			md := hk.GetConfig().KubernetesMutating[0].Webhook.Metadata
			ev.WebhookId, ev.ConfigurationId = md.WebhookId, md.ConfigurationId
		}
		_ = os.WriteFile(filepath.Join(rg.state, "aresp"), []byte(`{"allowed":true}`), 0o644)
		// the handler installed by initValidatingWebhookManager
		resp, err := op.AdmissionWebhookManager.Handler.Handler(ev)
		switch {
		case err != nil:
			o.Note = "admission handler: " + err.Error()
		case resp.Allowed:
			o.Success = true
		case resp.Message != "Hook failed":
			o.Note = "admission answer: " + resp.Message
		}
	case "conversion":
		_ = os.WriteFile(filepath.Join(rg.state, "cresp"),
			[]byte(`{"convertedObjects":[{"apiVersion":"example.com/v2","kind":"K","metadata":{"name":"o1"}}]}`), 0o644)
		req := &apixv1.ConversionRequest{UID: "uid-1", DesiredAPIVersion: "example.com/v2",
			Objects: []runtime.RawExtension{{Raw: []byte(`{"apiVersion":"example.com/v1","kind":"K","metadata":{"name":"o1"}}`)}}}
		resp, err := op.VerifConversionEventHandler(crdName(st.Hook), req)
		switch {
		case err != nil:
			o.Note = "conversion handler: " + err.Error()
		case resp.FailedMessage == "":
			o.Success = true
		case !strings.HasPrefix(resp.FailedMessage, "Hook failed to convert"):
			o.Note = "conversion answer: " + resp.FailedMessage
		}
	case "direct":
		t := mkOpTask(Task{Id: st.Id, Hook: st.Hook, Ctxs: []Ctx{{Tag: st.Tag}}, Name: st.Name})
		res := op.VerifTaskHandler(t)
		switch res.Status {
		case "Success":
			o.Success = true
		case "Fail":
		default:
			o.Note = "handler status " + string(res.Status)
		}
	default:
		o.Note = "unknown step kind " + st.Kind
	}
	o.Runs = rg.newRuns(st)
	o.State = rg.state0(in)
	return o
}

func runOp(in Input) (obs Observation) {
	rg, err := getRig()
	if err != nil {
		obs.Note = "rig: " + err.Error()
		return
	}
	// a fresh record directory and fresh queues
	if ents, err := os.ReadDir(rg.state); err == nil {
		for _, e := range ents {
			if !strings.HasSuffix(e.Name(), ".config") {
				_ = os.Remove(filepath.Join(rg.state, e.Name()))
			}
		}
	}
	rg.runs = 0
	op := rg.op
	for _, n := range in.Queues {
		op.TaskQueues.NewNamedQueue(qname(n), op.VerifTaskHandler)
	}
	defer func() {
		for _, n := range in.Queues {
			op.TaskQueues.Remove(qname(n))
		}
	}()
	for _, t := range in.Q {
		if q := op.TaskQueues.GetByName(qname(t.Qn)); q != nil {
			bt := mkOpTask(t)
			if t.Ty == 0 {
				if note := rg.declaredPolicy(bt, t); note != "" {
					obs.Note = note
					return
				}
			}
			q.AddLast(bt)
		}
	}
	for _, st := range in.Steps {
		obs.Steps = append(obs.Steps, rg.step(in, st))
	}
	return obs
}

// declaredPolicy: the task's AllowFailure is what the REAL binding of its hook declares - as the schedule
// handler does it (operator.go:163-191: AllowFailure: info.AllowFailure, from the loaded config of the
// binding).  A lenient task is a tick of the hook's schedule binding "l-<queue>" (allowFailure: true), a
// strict one of "s-<queue>" (the default); tasks carrying a name no queue has are ticks of the bindings
// of "main".
func (rg *opRig) declaredPolicy(bt task.Task, t Task) string {
	hk := rg.op.HookManager.GetHook(hookName(t.Hook))
	if hk == nil {
		return "no such hook"
	}
	qn := qname(t.Name)
	if t.Name < 1 || t.Name >= len(queueNames) {
		qn = queueNames[1]
	}
	name := "s-" + qn
	if t.AF {
		name = "l-" + qn
	}
	for _, sc := range hk.GetConfig().Schedules {
		if sc.BindingName == name {
			hm := task_metadata.HookMetadataAccessor(bt)
			hm.AllowFailure = sc.AllowFailure
			bt.UpdateMetadata(hm)
			return ""
		}
	}
	return "the loaded config of " + hookName(t.Hook) + " has no schedule binding " + name
}

// ---- rendering ----

func coqStep(st Step) string {
	ok := core.CoqBool(!st.Fail)
	if st.Kind == "head" {
		return fmt.Sprintf("SHead %d %s", st.Qn, ok)
	}
	name := st.Name
	if st.Kind != "direct" {
		name = 0 // the webhook handlers' tasks carry no queue name
	}
	return fmt.Sprintf("SLoose (TQ %d %d 0 true [C %d 0] [] %d) %s", st.Id, st.Hook, st.Tag, name, ok)
}

func coqOpInput(in Input) string {
	v0s := []int{}
	for i, h := range in.Hooks {
		if h.V0 {
			v0s = append(v0s, i+1)
		}
	}
	return fmt.Sprintf("(mkOIn %s %s\n   %s)", core.CoqList(v0s, core.CoqN), coqQsetWith(in.Queues, in.Q, coqFullTask), core.CoqList(in.Steps, coqStep))
}

func coqStepObs(in Input, o StepObs) string {
	runs := core.CoqList(o.Runs, func(r RunObs) string { return fmt.Sprintf("R %d %s", r.Hook, core.CoqList(r.Ctxs, coqCtx)) })
	parts := make([]string, len(in.Queues))
	for i, n := range in.Queues {
		ts := []Task{{Id: 999999, Ctxs: []Ctx{}, Mids: []int{}}}
		if i < len(o.State) {
			ts = o.State[i]
		}
		parts[i] = fmt.Sprintf("(%d, %s)", n, core.CoqList(ts, coqFullTask))
	}
	return fmt.Sprintf("mkSO %s %s [%s]", runs, core.CoqBool(o.Success), joinSemi(parts))
}

func renderOp(in Input, obs *Observation, crash string) core.Case {
	var o Observation
	if obs != nil {
		o = *obs
	}
	c := core.Case{}
	steps := make([]string, len(o.Steps))
	for i, s := range o.Steps {
		steps[i] = coqStepObs(in, s)
	}
	c.Coq = fmt.Sprintf("COp %s\n  [%s]", coqOpInput(in), joinSemi(steps))
	c.JSON = map[string]any{"steps": o.Steps, "note": o.Note, "crash": crash}
	c.Key = coqOpInput(in)
	c.Tags = append(c.Tags, "class:"+in.Kind, fmt.Sprintf("queues:%d", len(in.Queues)), fmt.Sprintf("tasks:%02d", len(in.Q)), fmt.Sprintf("steps:%d", len(in.Steps)))
	// the queue contents before each step, as observed (before the first one: as given)
	prev := make([][]Task, len(in.Queues))
	for i, n := range in.Queues {
		for _, t := range in.Q {
			if t.Qn == n {
				prev[i] = append(prev[i], t)
			}
		}
	}
	for i, st := range in.Steps {
		tag := "step:" + st.Kind
		if st.Fail {
			tag += "-hook-fails"
		}
		c.Tags = append(c.Tags, tag)
		if st.Kind == "head" && i < len(o.Steps) {
			for k, n := range in.Queues {
				if n != st.Qn || k >= len(prev) || len(prev[k]) == 0 || prev[k][0].Ty != 0 {
					continue
				}
				h := prev[k][0]
				kind := "schedule"
				switch {
				case len(h.Ctxs) > 0 && h.Ctxs[0].Sync && h.Group == 0:
					kind = "sync-ungrouped"
				case len(h.Ctxs) > 0 && h.Ctxs[0].Sync:
					kind = "sync-grouped"
				case h.Kube:
					kind = "kube-event"
				}
				if len(h.Ctxs) > 0 && h.Ctxs[0].Sync && !h.Exec {
					kind += "-no-exec"
				}
				if len(o.Steps[i].Runs) > 0 {
					c.Tags = append(c.Tags, policyTags(prev[k])...)
					if st.Fail && o.Steps[i].Success {
						c.Tags = append(c.Tags, "failed-run-forgiven")
					}
				}
				if h.Hook >= 1 && h.Hook <= len(in.Hooks) && in.Hooks[h.Hook-1].V0 {
					kind += "-v0"
				}
				follower := ""
				if len(prev[k]) > 1 && prev[k][1].Hook == h.Hook && prev[k][1].Ty == 0 {
					follower = "+same-hook-follower"
				}
				if len(o.Steps[i].Runs) == 0 {
					c.Tags = append(c.Tags, "head-not-executed:"+kind+follower)
				} else {
					c.Tags = append(c.Tags, "head-executed:"+kind+follower)
				}
			}
		}
		if i < len(o.Steps) && len(o.Steps[i].State) == len(prev) {
			prev = o.Steps[i].State
		}
		if i < len(o.Steps) {
			for _, r := range o.Steps[i].Runs {
				if len(r.Ctxs) >= 2 {
					c.Tags = append(c.Tags, "run-with-several-contexts")
				}
			}
			if o.Steps[i].Note != "" {
				c.Tags = append(c.Tags, "note:"+o.Steps[i].Note)
			}
		}
	}
	if o.Note != "" {
		c.Tags = append(c.Tags, "note:"+o.Note)
	}
	c.Nontrivial = len(in.Q) >= 2 && len(in.Steps) >= 1
	return c
}

// ---- generation ----

func (g *gen) opSession() Input {
	in := Input{Kind: "op", Stop: []int{}, Q: []Task{}, App: []Task{}, Steps: []Step{}}
	in.Queues = []int{1}
	for n := 2; n <= 4; n++ {
		if g.r.Chance(60 - 20*(n-2)) {
			in.Queues = append(in.Queues, n)
		}
	}
	n := 2 + g.r.Intn(7)
	nSteps := 1 + g.r.Intn(4)
	g.ids = nil
	for i := 1; i <= n+nSteps; i++ {
		g.ids = append(g.ids, i)
	}
	for i := len(g.ids) - 1; i > 0; i-- {
		j := g.r.Intn(i + 1)
		g.ids[i], g.ids[j] = g.ids[j], g.ids[i]
	}
	g.tag, g.mid = 0, 0
	nHooks := 1 + g.r.Intn(opHooks)
	g.hook = 1 + g.r.Intn(nHooks)
	g.grp = g.r.Intn(3)
	for i := 0; i < n; i++ {
		t := g.task(nHooks)
		t.NoMeta = false
		t.Mids = []int{} // schedule tasks carry no monitor ids
		if len(t.Ctxs) == 0 {
			g.tag++
			t.Ctxs = []Ctx{{Tag: g.tag, Group: g.grp}}
		}
		if t.Ty == 1 {
			t.Ctxs = []Ctx{}
		} else {
			t.Group = t.Ctxs[0].Group // Group: info.Group, the binding's group, as in its contexts
		}
		t.Qn = in.Queues[0]
		if g.r.Chance(45) {
			t.Qn = in.Queues[g.r.Intn(len(in.Queues))]
		}
		t.Name = t.Qn
		switch k := g.r.Intn(100); {
		case k < 4: // bootstrap-like: carries no name
			t.Name = 0
		case k < 6: // carries another queue's name / a name no queue has
			t.Name = 1 + g.r.Intn(5)
		}
		in.Q = append(in.Q, t)
	}
	g.policies(in.Q, nil)
	for i := range in.Q {
		if in.Q[i].Ty == 1 { // EnableScheduleBindings: no binding, no policy
			in.Q[i].AF = false
		}
	}
	headHook := func(qn int) int {
		for _, t := range in.Q {
			if t.Qn == qn {
				return t.Hook
			}
		}
		return 1 + g.r.Intn(opHooks)
	}
	for i := 0; i < nSteps; i++ {
		st := Step{Fail: g.r.Chance(25)}
		k := g.r.Intn(100)
		if i == 0 && k < 45 && g.r.Chance(50) {
			k = 45 + g.r.Intn(55) // more sessions that begin with a queue-less run
		}
		switch {
		case k < 45:
			st.Kind = "head"
			st.Qn = in.Queues[g.r.Intn(len(in.Queues))]
			if g.r.Chance(5) {
				st.Qn = 1 + g.r.Intn(5)
			}
		default:
			switch {
			case k < 62:
				st.Kind = "validating"
			case k < 72:
				st.Kind = "mutating"
			case k < 84:
				st.Kind = "conversion"
			default:
				st.Kind = "direct"
				st.Name = []int{0, 0, 5, 6}[g.r.Intn(4)]
			}
			st.Hook = 1 + g.r.Intn(opHooks)
			if g.r.Chance(75) { // the hook whose tasks head a queue (mostly main)
				st.Hook = headHook(in.Queues[0])
				if g.r.Chance(25) {
					st.Hook = headHook(in.Queues[g.r.Intn(len(in.Queues))])
				}
			}
			st.Id = g.nextId()
			g.tag++
			st.Tag = 900 + g.tag
		}
		in.Steps = append(in.Steps, st)
	}
	return in
}

// OpCorpus: the scenario of the demonstration of seeded change C07-5 and neighbours.
func OpCorpus() []Input {
	var ins []Input
	add := func(queues []int, steps []Step, q ...Task) {
		q = append([]Task{}, q...)
		for i := range q {
			if q[i].Ty == 0 && len(q[i].Ctxs) > 0 {
				q[i].Group = q[i].Ctxs[0].Group
			}
		}
		ins = append(ins, Input{Kind: "op", Stop: []int{}, App: []Task{}, Queues: queues, Q: q, Steps: steps})
	}
	main3 := []Task{nt(1, 1, 1, 1, ctxs(10, 0)), nt(2, 1, 1, 1, ctxs(20, 0)), nt(3, 2, 1, 1, ctxs(30, 0))}
	qa2 := []Task{nt(4, 1, 2, 2, ctxs(40, 1)), nt(5, 1, 2, 2, ctxs(50, 1))}
	all := append(append([]Task{}, main3...), qa2...)
	// an admission request for hook 1 while its two tasks head "main"; then the worker of "main"
	add([]int{1}, []Step{{Kind: "validating", Hook: 1, Id: 90, Tag: 900}, {Kind: "head", Qn: 1}, {Kind: "head", Qn: 1}}, main3...)
	// the head fails (back-off, merged contexts stored), a conversion request for the same hook
	// arrives, the retry succeeds; "qa" is never touched by "main"'s runs
	add([]int{1, 2}, []Step{{Kind: "head", Qn: 1, Fail: true}, {Kind: "conversion", Hook: 1, Id: 90, Tag: 900},
		{Kind: "head", Qn: 1}, {Kind: "head", Qn: 2}}, all...)
	// a failing mutating run: its task is not retried, the queues keep everything
	add([]int{1, 2}, []Step{{Kind: "mutating", Hook: 1, Id: 90, Tag: 900, Fail: true}, {Kind: "head", Qn: 2, Fail: true}, {Kind: "head", Qn: 2}}, all...)
	// tasks carrying a name no queue has / "" handed to the task handler
	add([]int{1, 2}, []Step{{Kind: "direct", Hook: 1, Name: 5, Id: 90, Tag: 900}, {Kind: "direct", Hook: 1, Name: 0, Id: 91, Tag: 901}, {Kind: "head", Qn: 1}}, all...)
	// a task of another type at the head; an empty / missing queue
	add([]int{1, 2}, []Step{{Kind: "head", Qn: 1}, {Kind: "head", Qn: 1}, {Kind: "head", Qn: 3}, {Kind: "head", Qn: 2}},
		Task{Id: 1, Hook: 1, Ty: 1, Ctxs: []Ctx{}, Mids: []int{}, Qn: 1, Name: 1}, nt(2, 1, 1, 1, ctxs(20, 2)), nt(3, 1, 1, 1, ctxs(30, 2)))
	// failure policies (the demonstration of seeded change C07-7): ticks of the bindings strict, lenient, strict
	// of one hook pile up in "main": ONE run with the three contexts; it fails (one merged task is strict: Fail,
	// the head stays with everything), the retry succeeds
	lt := func(t Task) Task { t.AF = true; return t }
	add([]int{1}, []Step{{Kind: "head", Qn: 1, Fail: true}, {Kind: "head", Qn: 1}, {Kind: "head", Qn: 1}},
		nt(1, 1, 1, 1, ctxs(10, 0)), lt(nt(2, 1, 1, 1, ctxs(20, 0))), nt(3, 1, 1, 1, ctxs(30, 0)), nt(4, 2, 1, 1, ctxs(40, 0)))
	// a lenient head, strict and lenient followers with one group: compacted over the policy boundaries
	add([]int{1, 2}, []Step{{Kind: "head", Qn: 1}, {Kind: "head", Qn: 2, Fail: true}, {Kind: "head", Qn: 2}},
		lt(nt(1, 1, 1, 1, ctxs(10, 1))), nt(2, 1, 1, 1, ctxs(20, 1)), lt(nt(3, 1, 1, 1, ctxs(30, 1))),
		lt(nt(4, 1, 2, 2, ctxs(40, 0))), lt(nt(5, 1, 2, 2, ctxs(50, 0))), nt(6, 1, 2, 2, ctxs(60, 0)))
	// every merged task lenient: the failed run is forgiven, the head leaves
	add([]int{1}, []Step{{Kind: "head", Qn: 1, Fail: true}, {Kind: "head", Qn: 1}},
		lt(nt(1, 1, 1, 1, ctxs(10, 0))), lt(nt(2, 1, 1, 1, ctxs(20, 0))), nt(3, 2, 1, 1, ctxs(30, 0)))
	return ins
}
