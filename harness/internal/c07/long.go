package c07

// Long backlogs (since seeded change C07-9).  "The tasks immediately following it for the same hook are merged
// into it ... all their binding contexts, exactly those tasks disappear" has no bound: a hook that was slow, in
// back-off or rate limited while events kept arriving finds 130, 300, 1000 tasks of its own behind the head.
//
// A long layout is DESCRIBED by a few numbers (Long) and expanded deterministically by the harness into an
// ordinary Input of the class it names (queue / set / op), so that the recorded input of a case (and a replay
// file) stays small while the layout itself is as long as it has to be:
//
//   head(hook 1), N followers of hook 1 and the head's type, [a task of hook 2, one more task of hook 1],
//   [tasks of hook 1 arriving during the call]
//
// class queue: the real combineBindingContextForHook / CombineBindingContextForHook on the queue object;
// class set:   the same through the lookup of taskHandleHookRun, with a second queue "qa" that holds tasks of
//              the same hook and must keep them;
// class op:    a session on the real operator: the worker of "main" executes the head (the real hook process
//              records its binding context file with all the contexts), then the task of hook 2, then the last
//              task of hook 1; with Fail the first run exits 1, the head stays with everything and is retried.

import (
	"fmt"
	"math/rand"
)

type Long struct {
	Class string `json:"class"`          // queue | set | op
	N     int    `json:"n"`              // tasks of the head's hook and type immediately behind the head
	Pat   string `json:"pat"`            // ungrouped | one-group | alternating | runs | random
	Tail  bool   `json:"tail,omitempty"` // a task of hook 2 behind the run and one more task of hook 1 behind it
	App   int    `json:"app,omitempty"`  // tasks of hook 1 arriving while the call is in progress (queue, set)
	Fail  bool   `json:"fail,omitempty"` // class op: the first run of the head exits 1
	Seed  int64  `json:"seed,omitempty"` // Pat random: contexts per task (0-2; op: 1), groups, monitor ids, policies
}

// LongSizes: around powers of two and typical buffer sizes.
var LongSizes = []int{63, 64, 65, 127, 128, 129, 130, 255, 256, 257, 300, 513, 1000}

var longPats = []string{"ungrouped", "one-group", "alternating", "runs"}

func (l Long) follower(k int, rnd *rand.Rand) Task {
	id := k + 1
	t := Task{Id: id, Hook: 1, Ctxs: []Ctx{}, Mids: []int{}}
	g := 0
	switch l.Pat {
	case "one-group":
		g = 1
	case "alternating":
		g = 1 + k%2
	case "runs":
		// runs of 1, 3, 5, 7 ... contexts over the groups "", a, b, a, "", b ...
		r := 0
		for (r+1)*(r+1) <= k {
			r++
		}
		g = []int{0, 1, 2, 1, 0, 2}[r%6]
	}
	n := 1
	if rnd != nil {
		g = rnd.Intn(3)
		if l.Class != "op" {
			n = []int{0, 1, 1, 1, 1, 2}[rnd.Intn(6)]
		}
		t.AF = rnd.Intn(4) == 0
	}
	for j := 0; j < n; j++ {
		if rnd != nil && j > 0 && rnd.Intn(2) == 0 {
			g = rnd.Intn(3)
		}
		t.Ctxs = append(t.Ctxs, Ctx{Tag: 10*id + j, Group: g})
	}
	if (rnd == nil && k%3 == 0) || (rnd != nil && rnd.Intn(3) == 0) {
		t.Mids = []int{100000 + id}
	}
	return t
}

// expand turns a described long layout into the Input of its class; every other input is returned as it is.
func expand(in Input) Input {
	if in.Long == nil {
		return in
	}
	l := *in.Long
	var rnd *rand.Rand
	if l.Pat == "random" {
		rnd = rand.New(rand.NewSource(l.Seed))
	}
	out := Input{Long: in.Long, Stop: []int{}, Q: []Task{}, App: []Task{}}
	for k := 0; k <= l.N; k++ {
		out.Q = append(out.Q, l.follower(k, rnd))
	}
	next := l.N + 2
	if l.Tail {
		out.Q = append(out.Q,
			Task{Id: next, Hook: 2, Ctxs: []Ctx{{Tag: 10 * next}}, Mids: []int{}},
			Task{Id: next + 1, Hook: 1, Ctxs: []Ctx{{Tag: 10 * (next + 1), Group: out.Q[l.N].lastGroup()}}, Mids: []int{}})
		next += 2
	}
	if l.Class != "op" {
		for a := 0; a < l.App; a++ {
			out.App = append(out.App, Task{Id: next, Hook: 1, Ctxs: []Ctx{{Tag: 10 * next, Group: out.Q[l.N].lastGroup()}}, Mids: []int{}})
			next++
		}
	}
	switch l.Class {
	case "set", "op":
		out.Kind = l.Class
		out.Queues = []int{1, 2}
		for i := range out.Q {
			out.Q[i].Qn, out.Q[i].Name = 1, 1
		}
		for i := range out.App {
			out.App[i].Qn, out.App[i].Name = 1, 1
		}
		// "qa" holds tasks of the same hook: they keep their place
		for k := 0; k < 3; k++ {
			out.Q = append(out.Q, Task{Id: next, Hook: 1, Ctxs: []Ctx{{Tag: 10 * next, Group: 1}}, Mids: []int{}, Qn: 2, Name: 2})
			next++
		}
	}
	if l.Class == "op" {
		for i := range out.Q {
			if len(out.Q[i].Ctxs) > 0 {
				out.Q[i].Group = out.Q[i].Ctxs[0].Group
			}
		}
		out.Steps = []Step{{Kind: "head", Qn: 1, Fail: l.Fail}, {Kind: "head", Qn: 1}, {Kind: "head", Qn: 1}, {Kind: "head", Qn: 2}}
	}
	out.T = out.Q[0]
	return out
}

func (t Task) lastGroup() int {
	if len(t.Ctxs) == 0 {
		return 0
	}
	return t.Ctxs[len(t.Ctxs)-1].Group
}

func longBucket(n int) string {
	switch {
	case n < 64:
		return "0033-0063"
	case n <= 128:
		return "0064-0128"
	case n <= 256:
		return "0129-0256"
	case n <= 512:
		return "0257-0512"
	}
	return "0513-1100"
}

func longTags(l Long) []string {
	tags := []string{"long-backlog", "long-class:" + l.Class, "backlog:" + longBucket(l.N), "backlog-pat:" + l.Pat}
	for _, s := range LongSizes {
		if s == l.N {
			tags = append(tags, fmt.Sprintf("backlog-size:%04d", s))
		}
	}
	if l.Tail {
		tags = append(tags, "backlog-then-other-hook-then-same-hook")
	} else {
		tags = append(tags, "backlog-to-the-end-of-the-queue")
	}
	if l.App > 0 && l.Class != "op" {
		tags = append(tags, "backlog+arrivals")
	}
	if l.Fail && l.Class == "op" {
		tags = append(tags, "backlog-first-run-fails")
	}
	return tags
}

// LongCorpus: fixed long layouts, ascending (the first one that fails is the shortest).  quick: every size once per
// class queue (patterns in rotation), the sizes next to 128 and 300 in every pattern, a few on the set and the
// operator; thorough / search: every size x pattern x class.
func LongCorpus(tier string) []Input {
	var ins []Input
	add := func(l Long) { l2 := l; ins = append(ins, Input{Long: &l2}) }
	full := tier != "quick"
	for i, n := range LongSizes {
		for j, p := range longPats {
			if full || j == i%len(longPats) || n == 129 || n == 130 || n == 300 {
				add(Long{Class: "queue", N: n, Pat: p, Tail: (i+j)%3 != 0, App: (i + j) % 2})
			}
		}
	}
	for i, n := range LongSizes {
		for j, p := range longPats {
			if full || (j == (i+1)%len(longPats) && (n == 64 || n == 128 || n == 129 || n == 130 || n == 300 || n == 1000)) {
				add(Long{Class: "set", N: n, Pat: p, Tail: (i+j)%3 != 1, App: (i + j + 1) % 2})
			}
		}
	}
	for i, n := range LongSizes {
		for j, p := range longPats {
			if full || (j == (i+2)%len(longPats) && (n == 127 || n == 129 || n == 130 || n == 300 || n == 1000)) {
				add(Long{Class: "op", N: n, Pat: p, Tail: (i+j)%3 != 2, Fail: (i+j)%4 == 0})
			}
		}
	}
	return ins
}

// longRandom: a long layout of random length (33 .. 1100, half of them within 8 of a size of LongSizes), random
// class, with random contexts / groups / monitor ids / failure policies per task.
func (g *gen) longRandom() Input {
	n := 33 + g.r.Intn(1068)
	if g.r.Chance(50) {
		n = LongSizes[g.r.Intn(len(LongSizes))] - 8 + g.r.Intn(17)
	}
	l := Long{N: n, Pat: "random", Seed: int64(1 + g.r.Intn(1<<30)), Tail: g.r.Chance(70)}
	switch k := g.r.Intn(100); {
	case k < 50:
		l.Class = "queue"
	case k < 80:
		l.Class = "set"
	default:
		l.Class = "op"
		l.Fail = g.r.Chance(30)
	}
	if l.Class != "op" && g.r.Chance(40) {
		l.App = 1 + g.r.Intn(3)
	}
	if g.r.Chance(25) {
		l.Pat = longPats[g.r.Intn(len(longPats))]
		l.Seed = 0
	}
	return Input{Long: &l}
}
