package c07

// Class "set": a SET of named queues in a real queue.TaskQueueSet and an executed task that
// carries a queue name.  The real combineBindingContextForHook / CombineBindingContextForHook
// are called with the expression taskHandleHookRun uses,
//
//	combineBindingContextForHook(tqs, tqs.GetByName(t.GetQueueName()), t, stopCombineFn)
//
// i.e. the queue is looked up by the REAL GetByName under the name the task carries: "", "main",
// another queue's name, or a name no queue of the set has; the task is the head of that queue,
// sits elsewhere in it, sits in another queue, or in no queue at all (what the admission and
// conversion webhook handlers run).
//
// Tasks arriving "while the combination is in progress" really arrive during the call: every
// queued task is a task.Task whose GetMetadata counts its calls.  Iterate (under the queue's
// lock) asks each task at most once; the merge loop that follows asks the collected tasks
// again, outside every lock and before Filter.  The first such second call appends the
// arrivals (AddLast on the real queues).  When nothing is collected (no second call) the
// function returns before Filter and the arrivals are appended after the call, which is the
// same queue content.

import (
	"fmt"
	"reflect"
	"strconv"

	bctx "github.com/flant/shell-operator/pkg/hook/binding_context"
	"github.com/flant/shell-operator/pkg/hook/task_metadata"
	htypes "github.com/flant/shell-operator/pkg/hook/types"
	kemtypes "github.com/flant/shell-operator/pkg/kube_events_manager/types"
	shell_operator "github.com/flant/shell-operator/pkg/shell-operator"
	"github.com/flant/shell-operator/pkg/task"
	"github.com/flant/shell-operator/pkg/task/queue"

	"verifharness/internal/core"
)

// queue names by index; 0 is the empty name, 1 the main queue; from 5 on no queue ever has the name
var queueNames = []string{"", "main", "qa", "qb", "qc"}

func qname(n int) string {
	if n >= 0 && n < len(queueNames) {
		return queueNames[n]
	}
	return fmt.Sprintf("no-such-queue-%d", n)
}

func qindex(s string) int {
	for i, n := range queueNames {
		if n == s {
			return i
		}
	}
	var k int
	if _, err := fmt.Sscanf(s, "no-such-queue-%d", &k); err == nil {
		return k
	}
	return 999999
}

type trigger struct {
	fired bool
	fire  func()
}

func (tr *trigger) once() {
	if tr == nil || tr.fired || tr.fire == nil {
		return
	}
	tr.fired = true
	tr.fire()
}

// wtask is a task.Task that reports the second GetMetadata call on it.
type wtask struct {
	*task.BaseTask
	calls int
	trig  *trigger
}

func (w *wtask) GetMetadata() interface{} {
	w.calls++
	if w.calls == 2 {
		w.trig.once()
	}
	return w.BaseTask.GetMetadata()
}

// mkNamed builds the task with the queue name it carries; schedule-typed contexts (what the
// operator's schedule handler creates), so that the same constructor serves the real task handler.
func mkNamed(t Task) *task.BaseTask {
	ty := types[0]
	if t.Ty >= 0 && t.Ty < len(types) {
		ty = types[t.Ty]
	}
	bt := task.NewTask(ty).WithQueueName(qname(t.Name))
	bt.Id = strconv.Itoa(t.Id)
	if t.NoMeta {
		return bt
	}
	// as the schedule handler (operator.go:163-191) or, for Kube, the kubernetes event handler
	// (operator.go:133-161) builds it; ExecuteOnSynchronization is set by taskHandleEnableKubernetesBindings only
	hm := task_metadata.HookMetadata{HookName: hookName(t.Hook), BindingType: htypes.Schedule,
		Group: groups[t.Group%len(groups)], ExecuteOnSynchronization: t.Exec, AllowFailure: t.AF}
	if t.Kube {
		hm.BindingType = htypes.OnKubernetesEvent
	}
	for _, c := range t.Ctxs {
		bc := bctx.BindingContext{Binding: "c" + strconv.Itoa(c.Tag)}
		bc.Metadata.BindingType = htypes.Schedule
		switch {
		case c.Sync:
			bc.Metadata.BindingType = htypes.OnKubernetesEvent
			bc.Type = kemtypes.TypeSynchronization
		case t.Kube:
			bc.Metadata.BindingType = htypes.OnKubernetesEvent
			bc.Type = kemtypes.TypeEvent
			bc.WatchEvent = kemtypes.WatchEventAdded
		}
		bc.Metadata.Group = groups[c.Group%len(groups)]
		hm.BindingContext = append(hm.BindingContext, bc)
	}
	if len(t.Ctxs) > 0 {
		hm.Binding = "c" + strconv.Itoa(t.Ctxs[0].Tag)
	}
	for _, m := range t.Mids {
		hm.MonitorIDs = append(hm.MonitorIDs, strconv.Itoa(m))
	}
	return bt.WithMetadata(hm)
}

func hookName(h int) string { return fmt.Sprintf("h%d.sh", h) }

func runSet(in Input, exported bool) (Res, [][]int) {
	tqs := queue.NewTaskQueueSet()
	queues := map[int]*queue.TaskQueue{}
	for _, n := range in.Queues {
		q := queue.NewTasksQueue().WithName(qname(n))
		tqs.Add(q)
		queues[n] = q
	}
	tr := &trigger{}
	var t task.Task
	for i := range in.Q {
		q := queues[in.Q[i].Qn]
		if q == nil {
			continue
		}
		o := &wtask{BaseTask: mkNamed(in.Q[i]), trig: tr}
		q.AddLast(o)
		if t == nil && reflect.DeepEqual(in.Q[i], in.T) {
			t = o // the executed task is the queue's own object
		}
	}
	if t == nil {
		t = &wtask{BaseTask: mkNamed(in.T), trig: tr}
	}
	tr.fire = func() {
		for _, a := range in.App {
			if q := queues[a.Qn]; q != nil {
				q.AddLast(&wtask{BaseTask: mkNamed(a)})
			}
		}
	}
	var stop func(task.Task) bool
	if len(in.Stop) > 0 {
		ids := map[string]bool{}
		for _, s := range in.Stop {
			ids[strconv.Itoa(s)] = true
		}
		stop = func(tsk task.Task) bool { return ids[tsk.GetId()] }
	}
	// operator.go, taskHandleHookRun:
	//   op.combineBindingContextForHook(op.TaskQueues, op.TaskQueues.GetByName(t.GetQueueName()), t, stopCombineFn)
	r := shell_operator.VerifC07Combine(tqs, tqs.GetByName(t.GetQueueName()), t, stop, exported)
	tr.once() // nothing was collected: the arrivals come after the call
	res := Res{Nil: r == nil, Ctxs: []Ctx{}, Mids: []int{}, Queue: []int{}}
	if r != nil {
		for _, bc := range r.BindingContexts {
			res.Ctxs = append(res.Ctxs, unCtx(bc))
		}
		for _, m := range r.MonitorIDs {
			res.Mids = append(res.Mids, atoi(m))
		}
	}
	var after [][]int
	for _, n := range in.Queues {
		ids := []int{}
		// the queue object the SET holds under that name now
		if q := tqs.Queues[qname(n)]; q != nil {
			q.Iterate(func(tsk task.Task) { ids = append(ids, atoi(tsk.GetId())) })
		} else {
			ids = append(ids, 999999)
		}
		after = append(after, ids)
	}
	return res, after
}

// ---- rendering ----

func coqNamedTask(t Task) string {
	s := fmt.Sprintf("TQ %d %d %d %s %s %s %d", t.Id, t.Hook, t.Ty, core.CoqBool(!t.NoMeta),
		core.CoqList(t.Ctxs, coqCtx), core.CoqList(t.Mids, core.CoqN), t.Name)
	if t.AF {
		return "AF (" + s + ")"
	}
	return s
}

// coqFullTask: the task with the three fields the task handler reads (classes "op" and "sync")
func coqFullTask(t Task) string {
	return fmt.Sprintf("TG %d %d %d %s %s %s %d %s %d %s %s", t.Id, t.Hook, t.Ty, core.CoqBool(!t.NoMeta),
		core.CoqList(t.Ctxs, coqCtx), core.CoqList(t.Mids, core.CoqN), t.Name, core.CoqBool(t.Kube), t.Group, core.CoqBool(t.Exec), core.CoqBool(t.AF))
}

func coqQset(queues []int, q []Task) string { return coqQsetWith(queues, q, coqNamedTask) }

func coqQsetWith(queues []int, q []Task, coqNamedTask func(Task) string) string {
	parts := make([]string, len(queues))
	for i, n := range queues {
		var ts []Task
		for _, t := range q {
			if t.Qn == n {
				ts = append(ts, t)
			}
		}
		parts[i] = fmt.Sprintf("(%d, %s)", n, core.CoqList(ts, coqNamedTask))
	}
	return "[" + joinSemi(parts) + "]"
}

func joinSemi(parts []string) string {
	s := ""
	for i, p := range parts {
		if i > 0 {
			s += ";\n    "
		}
		s += p
	}
	return s
}

func coqSetInput(in Input) string {
	app := make([]string, len(in.App))
	for i, a := range in.App {
		app[i] = fmt.Sprintf("(%d, %s)", a.Qn, coqNamedTask(a))
	}
	return fmt.Sprintf("(mkSIn (%s) %s\n   %s\n   [%s])", coqNamedTask(in.T), core.CoqList(in.Stop, core.CoqN),
		coqQset(in.Queues, in.Q), joinSemi(app))
}

func coqSetObs(queues []int, r Res, after [][]int) string {
	res := "None"
	if !r.Nil {
		res = fmt.Sprintf("(Some (%s, %s))", core.CoqList(r.Ctxs, coqCtx), core.CoqList(r.Mids, core.CoqN))
	}
	parts := make([]string, len(queues))
	for i, n := range queues {
		ids := []int{999999}
		if i < len(after) {
			ids = after[i]
		}
		parts[i] = fmt.Sprintf("(%d, %s)", n, core.CoqList(ids, core.CoqN))
	}
	return fmt.Sprintf("(mkSObs %s [%s])", res, joinSemi(parts))
}

// where the executed task is, relative to the queue its name points to (tags / non-triviality)
func setSituation(in Input) string {
	has := map[int]bool{}
	for _, n := range in.Queues {
		has[n] = true
	}
	pos, inQueue := -1, -1
	count := map[int]int{}
	for _, t := range in.Q {
		if t.Id == in.T.Id && pos < 0 {
			pos, inQueue = count[t.Qn], t.Qn
		}
		count[t.Qn]++
	}
	nm := "named"
	switch {
	case in.T.Name == 0:
		nm = "emptyname"
	case !has[in.T.Name]:
		nm = "unknownname"
	}
	switch {
	case pos < 0:
		return nm + "/in-no-queue"
	case has[in.T.Name] && inQueue == in.T.Name && pos == 0:
		return nm + "/head-of-its-queue"
	case has[in.T.Name] && inQueue == in.T.Name:
		return nm + "/in-its-queue-not-head"
	default:
		return nm + "/in-another-queue"
	}
}

func renderSet(in Input, obs *Observation, crash string) core.Case {
	var o Observation
	if obs != nil {
		o = *obs
	} else {
		o = Observation{Int: Res{Nil: true}, Exp: Res{Nil: true}}
	}
	c := core.Case{}
	c.Coq = fmt.Sprintf("CSet %s\n  %s\n  %s", coqSetInput(in), coqSetObs(in.Queues, o.Int, o.IntQueues), coqSetObs(in.Queues, o.Exp, o.ExpQueues))
	c.JSON = map[string]any{"internal": o.Int, "exported": o.Exp, "internal_queues": o.IntQueues, "exported_queues": o.ExpQueues, "crash": crash}
	c.Key = coqSetInput(in)
	sit := setSituation(in)
	c.Tags = append(c.Tags, "class:set", fmt.Sprintf("queues:%d", len(in.Queues)), fmt.Sprintf("tasks:%02d", len(in.Q)), "task:"+sit)
	left := 0
	for _, ids := range o.IntQueues {
		left += len(ids)
	}
	if merged := len(in.Q) + len(in.App) - left; merged > 0 {
		c.Tags = append(c.Tags, fmt.Sprintf("merged:%02d", merged))
	}
	if len(in.Stop) > 0 {
		c.Tags = append(c.Tags, "stopCombineFn")
	}
	if len(in.App) > 0 {
		c.Tags = append(c.Tags, fmt.Sprintf("arrivals:%d", len(in.App)))
	}
	if sit == "named/head-of-its-queue" {
		var own []Task
		for _, t := range in.Q {
			if t.Qn == in.T.Name {
				own = append(own, t)
			}
		}
		c.Tags = append(c.Tags, policyTags(own)...)
	}
	seen := map[int]bool{}
	dup := false
	for _, t := range append(append([]Task{}, in.Q...), in.App...) {
		if seen[t.Id] {
			dup = true
		}
		seen[t.Id] = true
	}
	if dup {
		c.Tags = append(c.Tags, "outside-wf:duplicate-ids")
	}
	c.Nontrivial = !dup && len(in.Q) >= 2 && len(in.Queues) >= 1
	return c
}

// ---- generation ----

// setLayout: 1-4 queues (main nearly always), 1-12 tasks spread over them, the executed task in
// one of the situations the lookup distinguishes.
func (g *gen) setLayout() Input {
	in := Input{Kind: "set", Stop: []int{}, Q: []Task{}, App: []Task{}}
	in.Queues = []int{1}
	if g.r.Chance(4) {
		in.Queues = []int{} // a set without "main"
	}
	for n := 2; n <= 4; n++ {
		if g.r.Chance(55 - 12*(n-2)) {
			in.Queues = append(in.Queues, n)
		}
	}
	if len(in.Queues) == 0 {
		in.Queues = []int{2}
	}
	if g.r.Chance(30) { // map order is no order: any listing order
		for i := len(in.Queues) - 1; i > 0; i-- {
			j := g.r.Intn(i + 1)
			in.Queues[i], in.Queues[j] = in.Queues[j], in.Queues[i]
		}
	}
	n := 1 + g.r.Intn(12)
	nApp := 0
	if g.r.Chance(25) {
		nApp = 1 + g.r.Intn(3)
	}
	g.ids = nil
	for i := 1; i <= n+nApp+2; i++ {
		g.ids = append(g.ids, i)
	}
	for i := len(g.ids) - 1; i > 0; i-- {
		j := g.r.Intn(i + 1)
		g.ids[i], g.ids[j] = g.ids[j], g.ids[i]
	}
	g.tag, g.mid = 0, 0
	nHooks := 1 + g.r.Intn(3)
	g.hook = 1 + g.r.Intn(nHooks)
	g.grp = g.r.Intn(3)
	pickQ := func() int {
		if g.r.Chance(50) {
			return in.Queues[0]
		}
		return in.Queues[g.r.Intn(len(in.Queues))]
	}
	for i := 0; i < n; i++ {
		t := g.task(nHooks)
		t.Qn = pickQ()
		t.Name = t.Qn
		in.Q = append(in.Q, t)
	}
	for i := 0; i < nApp; i++ {
		t := g.task(nHooks)
		t.Qn = pickQ()
		t.Name = t.Qn
		in.App = append(in.App, t)
	}
	g.policies(in.Q, in.App)
	heads := map[int]int{} // queue -> index in in.Q of its head
	for i := len(in.Q) - 1; i >= 0; i-- {
		heads[in.Q[i].Qn] = i
	}
	var headIdx []int
	for _, qn := range in.Queues {
		if i, ok := heads[qn]; ok {
			headIdx = append(headIdx, i)
		}
	}
	aHead := headIdx[g.r.Intn(len(headIdx))]
	otherName := func(not int) int {
		switch k := g.r.Intn(10); {
		case k < 5:
			return 0
		case k < 7:
			return 5 + g.r.Intn(2) // a name no queue has
		default:
			c := in.Queues[g.r.Intn(len(in.Queues))]
			if c == not {
				return 0
			}
			return c
		}
	}
	switch k := g.r.Intn(100); {
	case k < 48: // the head of the queue its name points to
		in.Q[aHead].NoMeta = false
		in.T = in.Q[aHead]
	case k < 76: // in no queue, the name points nowhere: what the webhook handlers run
		in.T = g.task(nHooks)
		in.T.NoMeta = false
		in.T.Ty = 0
		in.T.AF = g.r.Chance(30)
		if g.r.Chance(75) { // same hook as a head, so that there is something it could (wrongly) merge
			in.T.Hook = in.Q[aHead].Hook
		}
		in.T.Name = 0
		if g.r.Chance(35) {
			in.T.Name = 5 + g.r.Intn(2)
		}
	case k < 82: // in no queue, but carrying an existing queue's name
		in.T = g.task(nHooks)
		in.T.NoMeta = false
		in.T.Name = in.Queues[g.r.Intn(len(in.Queues))]
	case k < 88: // in the queue it names, not at its head
		in.T = in.Q[g.r.Intn(len(in.Q))]
	default: // a head that carries another name: "" (bootstrap tasks), a name no queue has, another queue's
		in.Q[aHead].NoMeta = false
		in.Q[aHead].Name = otherName(in.Q[aHead].Qn)
		in.T = in.Q[aHead]
	}
	if g.r.Chance(12) {
		for k := 0; k <= g.r.Intn(2); k++ {
			in.Stop = append(in.Stop, in.Q[g.r.Intn(len(in.Q))].Id)
		}
	}
	if g.r.Chance(3) && len(in.Q) >= 2 { // outside the domain: two tasks with one id
		i := g.r.Intn(len(in.Q) - 1)
		wasT := reflect.DeepEqual(in.Q[i+1], in.T)
		in.Q[i+1].Id = in.Q[i].Id
		if wasT {
			in.T = in.Q[i+1]
		}
	}
	return in
}

func nt(id, hook, qn, name int, cs []Ctx, mids ...int) Task {
	if mids == nil {
		mids = []int{}
	}
	return Task{Id: id, Hook: hook, Ctxs: cs, Mids: mids, Qn: qn, Name: name}
}

// SetCorpus: fixed set-level layouts that run first.
func SetCorpus() []Input {
	var ins []Input
	add := func(t Task, queues []int, app []Task, q ...Task) {
		if app == nil {
			app = []Task{}
		}
		ins = append(ins, Input{Kind: "set", T: t, Stop: []int{}, Queues: queues, Q: q, App: app})
	}
	main3 := []Task{nt(1, 1, 1, 1, ctxs(10, 0)), nt(2, 1, 1, 1, ctxs(20, 0)), nt(3, 2, 1, 1, ctxs(30, 0))}
	qa2 := []Task{nt(4, 1, 2, 2, ctxs(40, 1)), nt(5, 1, 2, 2, ctxs(50, 1), 500)}
	all := append(append([]Task{}, main3...), qa2...)
	// a webhook task of hook 1 (empty name, in no queue) while hook 1's tasks head "main" and "qa"
	add(nt(9, 1, 0, 0, ctxs(90, 0)), []int{1, 2}, nil, all...)
	// the same with a name no queue has, and with arrivals for both queues
	add(nt(9, 1, 0, 6, ctxs(90, 0)), []int{1, 2}, []Task{nt(7, 1, 1, 1, ctxs(70, 0)), nt(8, 1, 2, 2, ctxs(80, 1))}, all...)
	// the head of "main" and the head of "qa" executed: the other queue keeps everything
	add(main3[0], []int{1, 2}, nil, all...)
	add(qa2[0], []int{1, 2}, []Task{nt(7, 1, 1, 1, ctxs(70, 0)), nt(8, 1, 2, 2, ctxs(80, 1))}, all...)
	// a bootstrap-like head: sits in "main", carries ""
	add(nt(1, 1, 1, 0, ctxs(10, 0)), []int{1, 2}, nil, append([]Task{nt(1, 1, 1, 0, ctxs(10, 0))}, all[1:]...)...)
	// the head of "qa" carrying the name "main": outside the domain (model agreement, queues it does not name)
	add(nt(4, 1, 2, 1, ctxs(40, 1)), []int{1, 2}, nil, append(append([]Task{}, main3...), nt(4, 1, 2, 1, ctxs(40, 1)), qa2[1])...)
	// a set without "main"; an empty queue named by the task
	add(nt(9, 1, 0, 0, ctxs(90, 0)), []int{2}, nil, qa2...)
	add(nt(9, 1, 0, 3, ctxs(90, 0)), []int{1, 3}, nil, main3...)
	// failure policies: the head of "qa" strict, its follower lenient; the head of "main" lenient, its follower strict
	lt := func(t Task) Task { t.AF = true; return t }
	mixed := []Task{lt(main3[0]), main3[1], main3[2], qa2[0], lt(qa2[1])}
	add(mixed[0], []int{1, 2}, nil, mixed...)
	add(mixed[3], []int{1, 2}, []Task{lt(nt(8, 1, 2, 2, ctxs(80, 1)))}, mixed...)
	return ins
}

// exhaustiveSet: queues "main" and "qa", each holding every sequence of <= maxLen tasks over
// {hook 1, hook 2} x {one context without group, one of group a}; the executed task: the head of
// either queue, or a HookRun task of hook 1 that sits in no queue and carries "", a name no queue
// has, "main" or "qa".
func exhaustiveSet(maxLen int) []Input {
	type sh struct{ hook, g int }
	alpha := []sh{{1, 0}, {1, 1}, {2, 0}, {2, 1}}
	var seqs [][]sh
	var rec func(cur []sh)
	rec = func(cur []sh) {
		seqs = append(seqs, append([]sh{}, cur...))
		if len(cur) >= maxLen {
			return
		}
		for _, a := range alpha {
			rec(append(cur, a))
		}
	}
	rec(nil)
	var out []Input
	for _, m := range seqs {
		for _, a := range seqs {
			var q []Task
			id := 0
			for _, x := range m {
				id++
				q = append(q, nt(id, x.hook, 1, 1, []Ctx{{Tag: id * 10, Group: x.g}}))
			}
			mainLen := len(q)
			for _, x := range a {
				id++
				q = append(q, nt(id, x.hook, 2, 2, []Ctx{{Tag: id * 10, Group: x.g}}, 100+id))
			}
			base := Input{Kind: "set", Stop: []int{}, App: []Task{}, Queues: []int{1, 2}, Q: q}
			if len(q) == 0 {
				base.Q = []Task{}
			}
			var ts []Task
			if mainLen > 0 {
				ts = append(ts, q[0])
			}
			if len(q) > mainLen {
				ts = append(ts, q[mainLen])
			}
			for _, name := range []int{0, 5, 1, 2} {
				ts = append(ts, nt(99, 1, 0, name, []Ctx{{Tag: 990, Group: 0}}))
			}
			for _, t := range ts {
				in := base
				in.T = t
				out = append(out, in)
			}
		}
	}
	return out
}
