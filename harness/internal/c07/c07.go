// Package c07: correspondence driver for C07 (combining adjacent tasks keeps every binding
// context, in order).  Drives the REAL combineBindingContextForHook and its exported twin
// CombineBindingContextForHook (through the add-only verif export VerifC07Combine) on
// generated queue layouts held in real queue.TaskQueue objects.
//
// Tasks appended "while the combination is in progress" are emulated deterministically,
// without goroutines: the function iterates the queue object it is handed (q) and filters
// the queue object it finds by name in the queue set.  For layouts with appended tasks the
// harness hands it a queue holding the layout as it was at Iterate time and registers,
// under the task's queue name, a second queue holding the same task objects plus the
// appended ones (the state at Filter time).  Iterate and Filter each take the queue lock, so
// every real interleaving with AddLast is equivalent to such a pair of states.
package c07

import (
	"fmt"
	"os"
	"reflect"
	"strconv"
	"strings"
	"time"

	bctx "github.com/flant/shell-operator/pkg/hook/binding_context"
	"github.com/flant/shell-operator/pkg/hook/task_metadata"
	shell_operator "github.com/flant/shell-operator/pkg/shell-operator"
	"github.com/flant/shell-operator/pkg/task"
	"github.com/flant/shell-operator/pkg/task/queue"

	"verifharness/internal/core"
)

type Ctx struct {
	Tag   int  `json:"tag"`
	Group int  `json:"g"`              // 0 = "", 1 = "a", 2 = "b"
	Sync  bool `json:"sync,omitempty"` // a kubernetes Synchronization context (classes "op" and "sync" only)
}

type Task struct {
	Id     int   `json:"id"`
	Hook   int   `json:"hook"`
	Ty     int   `json:"ty"` // 0 = HookRun, 1 = EnableKubernetesBindings (class "op": EnableScheduleBindings)
	NoMeta bool  `json:"nometa,omitempty"`
	Ctxs   []Ctx `json:"ctxs"`
	Mids   []int `json:"mids"`
	// classes "set" and "op" only (the single-queue class uses one queue "main" and tasks that carry "main"):
	Qn   int `json:"qn,omitempty"`   // the queue the task sits in (index into queueNames; 1 = "main")
	Name int `json:"name,omitempty"` // the queue name the task CARRIES, GetQueueName() (0 = "")
	// classes "op" and "sync" only: three more fields of HookMetadata the task handler reads
	Kube  bool `json:"kube,omitempty"`  // BindingType is kubernetes (otherwise schedule)
	Group int  `json:"group,omitempty"` // HookMetadata.Group (index into groups)
	Exec  bool `json:"exec,omitempty"`  // ExecuteOnSynchronization
	// every class (since seeded change C07-7): HookMetadata.AllowFailure, the failure policy of the task's binding
	AF bool `json:"af,omitempty"`
}

// KB is one kubernetes binding of a hook of class "sync" (binding j of hook h is named k<100h+j>, its
// monitor is numbered 100h+j, its Synchronization context carries the tag 100h+j).
type KB struct {
	Group int  `json:"g"`
	Exec  bool `json:"exec"` // executeHookOnSynchronization
	AF    bool `json:"af,omitempty"` // allowFailure: true
}

// HookCfg is the config of hook h<i+1>.sh of class "sync".
type HookCfg struct {
	V0   bool `json:"v0,omitempty"` // a v0 config (no configVersion): no groups, never executed on Synchronization
	Kube []KB `json:"kube"`
}

// Step is one step of a session on the real operator (class "op").
type Step struct {
	Kind string `json:"kind"`           // head | validating | mutating | conversion | direct
	Qn   int    `json:"qn,omitempty"`   // head: the queue whose worker runs
	Hook int    `json:"hook,omitempty"` // webhook / direct: the hook
	Name int    `json:"name,omitempty"` // direct: the queue name the task carries (webhook tasks carry "")
	Id   int    `json:"id,omitempty"`   // webhook / direct: the id the task has in the model (the real one is a uuid)
	Tag  int    `json:"tag,omitempty"`  // webhook / direct: the tag standing for the task's single binding context
	Fail bool   `json:"fail,omitempty"` // the hook process exits 1
}

// Input: Kind "" = one queue handed to the function directly (T, Stop, Q, App);
// "set" = a set of named queues, lookup by the executed task's name (T, Stop, Queues, Q with qn/name, App with qn);
// "op" = a session on the real operator (Queues, Q, Steps);
// "sync" = a session on a real operator assembled for the case on a fake cluster, with the hooks Hooks: the tasks of Q
// that are Synchronization tasks are the REAL tasks made by the real EnableKubernetesBindings task (Hooks, Queues, Q, Steps).
type Input struct {
	Kind   string `json:"kind,omitempty"`
	T      Task   `json:"t"`
	Stop   []int  `json:"stop"`
	Q      []Task `json:"q"`
	App    []Task `json:"app"`
	Queues []int  `json:"queues,omitempty"`
	Steps  []Step `json:"steps,omitempty"`
	Hooks  []HookCfg `json:"hooks,omitempty"`
	// a long backlog, described (long.go): expanded by Run and Render into T, Q, App, Queues, Steps
	Long *Long `json:"long,omitempty"`
}

type Res struct {
	Nil   bool  `json:"nil"`
	Ctxs  []Ctx `json:"ctxs"`
	Mids  []int `json:"mids"`
	Queue []int `json:"queue"`
}

type Observation struct {
	Int Res `json:"internal"`
	Exp Res `json:"exported"`
	// class "set": ids of every queue of the set afterwards, in the order of Input.Queues
	IntQueues [][]int `json:"internal_queues,omitempty"`
	ExpQueues [][]int `json:"exported_queues,omitempty"`
	// class "op"
	Steps []StepObs `json:"steps,omitempty"`
	Note  string    `json:"note,omitempty"`
}

var groups = []string{"", "a", "b"}
var types = []task.TaskType{task_metadata.HookRun, task_metadata.EnableKubernetesBindings}

const queueName = "main"

func mk(t Task) task.Task {
	ty := types[0]
	if t.Ty >= 0 && t.Ty < len(types) {
		ty = types[t.Ty]
	}
	bt := task.NewTask(ty).WithQueueName(queueName)
	bt.Id = strconv.Itoa(t.Id)
	if t.NoMeta {
		return bt
	}
	hm := task_metadata.HookMetadata{HookName: fmt.Sprintf("hook%d.sh", t.Hook), AllowFailure: t.AF}
	for _, c := range t.Ctxs {
		bc := bctx.BindingContext{Binding: "c" + strconv.Itoa(c.Tag)}
		bc.Metadata.Group = groups[c.Group%len(groups)]
		hm.BindingContext = append(hm.BindingContext, bc)
	}
	for _, m := range t.Mids {
		hm.MonitorIDs = append(hm.MonitorIDs, strconv.Itoa(m))
	}
	return bt.WithMetadata(hm)
}

func unCtx(bc bctx.BindingContext) Ctx {
	c := Ctx{Tag: 999999, Group: 99, Sync: bc.IsSynchronization()}
	// c<tag>: a context made by the harness; k<tag>: the context of a real kubernetes binding (class "sync")
	if strings.HasPrefix(bc.Binding, "c") || strings.HasPrefix(bc.Binding, "k") {
		if n, err := strconv.Atoi(bc.Binding[1:]); err == nil {
			c.Tag = n
		}
	}
	for i, g := range groups {
		if g == bc.Metadata.Group {
			c.Group = i
		}
	}
	return c
}

func atoi(s string) int {
	n, err := strconv.Atoi(s)
	if err != nil {
		return 999999
	}
	return n
}

func runOne(in Input, exported bool) Res {
	tqs := queue.NewTaskQueueSet()
	var objs []task.Task
	for _, t := range in.Q {
		objs = append(objs, mk(t))
	}
	// the executed task: the queue's own object when the layout contains it
	var t task.Task
	for i := range in.Q {
		if reflect.DeepEqual(in.Q[i], in.T) {
			t = objs[i]
			break
		}
	}
	if t == nil {
		t = mk(in.T)
	}
	qf := queue.NewTasksQueue().WithName(queueName)
	qi := qf
	if len(in.App) > 0 {
		qi = queue.NewTasksQueue().WithName(queueName) // state seen by Iterate; not registered
		for _, o := range objs {
			qi.AddLast(o)
		}
	}
	for _, o := range objs {
		qf.AddLast(o)
	}
	for _, a := range in.App {
		qf.AddLast(mk(a))
	}
	tqs.Add(qf)
	var stop func(task.Task) bool
	if len(in.Stop) > 0 {
		ids := map[string]bool{}
		for _, s := range in.Stop {
			ids[strconv.Itoa(s)] = true
		}
		stop = func(tsk task.Task) bool { return ids[tsk.GetId()] }
	}
	r := shell_operator.VerifC07Combine(tqs, qi, t, stop, exported)
	res := Res{Nil: r == nil, Ctxs: []Ctx{}, Mids: []int{}, Queue: []int{}}
	if r != nil {
		for _, bc := range r.BindingContexts {
			res.Ctxs = append(res.Ctxs, unCtx(bc))
		}
		for _, m := range r.MonitorIDs {
			res.Mids = append(res.Mids, atoi(m))
		}
	}
	qf.Iterate(func(tsk task.Task) { res.Queue = append(res.Queue, atoi(tsk.GetId())) })
	return res
}

// Run executes both real functions, each on a fresh copy of the layout (classes "" and "set"),
// or the session on the real operator (class "op").
func Run(in Input) Observation {
	os.Setenv("QUEUE_ACTIONS_METRICS", "no")
	in = expand(in)
	switch in.Kind {
	case "set":
		i, iq := runSet(in, false)
		e, eq := runSet(in, true)
		return Observation{Int: i, Exp: e, IntQueues: iq, ExpQueues: eq}
	case "op":
		return runOp(in)
	case "sync":
		return runSync(in)
	}
	return Observation{Int: runOne(in, false), Exp: runOne(in, true)}
}

// ---- rendering ----

func coqCtx(c Ctx) string {
	if c.Sync {
		return fmt.Sprintf("CS %d %d", c.Tag, c.Group)
	}
	return fmt.Sprintf("C %d %d", c.Tag, c.Group)
}
func coqTask(t Task) string {
	s := fmt.Sprintf("T %d %d %d %s %s %s", t.Id, t.Hook, t.Ty, core.CoqBool(!t.NoMeta),
		core.CoqList(t.Ctxs, coqCtx), core.CoqList(t.Mids, core.CoqN))
	if t.AF {
		return "AF (" + s + ")"
	}
	return s
}

// policyTags: how the failure policies (allowFailure) are spread over one backlog - the head of a queue
// and the tasks of its hook and type immediately behind it (what is merged whatever the policies are).
func policyTags(q []Task) []string {
	var tags []string
	seen := map[string]bool{}
	add := func(s string) {
		if !seen[s] {
			seen[s] = true
			tags = append(tags, s)
		}
	}
	heads := map[int]bool{}
	for i, h := range q {
		if heads[h.Qn] {
			continue
		}
		heads[h.Qn] = true
		if h.NoMeta {
			continue
		}
		strict, lenient := 0, 0
		for _, x := range q[i+1:] {
			if x.Qn != h.Qn {
				continue
			}
			if x.NoMeta || x.Hook != h.Hook || x.Ty != h.Ty {
				break
			}
			if x.AF {
				lenient++
			} else {
				strict++
			}
		}
		if strict+lenient == 0 {
			continue
		}
		hd := "strict"
		if h.AF {
			hd = "lenient"
		}
		switch {
		case strict > 0 && lenient > 0:
			add("policy:head-" + hd + "+followers-mixed")
		case lenient > 0:
			add("policy:head-" + hd + "+followers-lenient")
		default:
			add("policy:head-" + hd + "+followers-strict")
		}
	}
	return tags
}

// policies spreads failure policies over the tasks of one layout (q in queue order, then the tasks that
// arrive later): all default; independent per task; the head of every queue strict and everything else
// lenient; the other way round; one policy per hook.
func (g *gen) policies(q, app []Task) {
	mode := g.r.Intn(100)
	perHook := map[int]bool{}
	heads := map[int]bool{}
	set := func(t *Task, head bool) {
		switch {
		case mode < 20:
			t.AF = false
		case mode < 55:
			t.AF = g.r.Chance(50)
		case mode < 72:
			t.AF = !head
		case mode < 89:
			t.AF = head
		default:
			if _, ok := perHook[t.Hook]; !ok {
				perHook[t.Hook] = g.r.Chance(50)
			}
			t.AF = perHook[t.Hook]
		}
		if t.NoMeta {
			t.AF = false
		}
	}
	for i := range q {
		set(&q[i], !heads[q[i].Qn])
		heads[q[i].Qn] = true
	}
	for i := range app {
		set(&app[i], false)
	}
}
func coqRes(r Res) string {
	res := "None"
	if !r.Nil {
		res = fmt.Sprintf("(Some (%s, %s))", core.CoqList(r.Ctxs, coqCtx), core.CoqList(r.Mids, core.CoqN))
	}
	return fmt.Sprintf("(mkObs %s %s)", res, core.CoqList(r.Queue, core.CoqN))
}
func coqInput(in Input) string {
	return fmt.Sprintf("(mkIn (%s) %s\n   %s\n   %s)", coqTask(in.T), core.CoqList(in.Stop, core.CoqN),
		core.CoqList(in.Q, coqTask), core.CoqList(in.App, coqTask))
}

// wellFormed mirrors C07_Spec.wf (used only for tags and the non-triviality rule).
func wellFormed(in Input) (bool, string) {
	if len(in.Q) == 0 {
		return false, "empty-queue"
	}
	if in.Q[0].Id != in.T.Id {
		return false, "not-at-head"
	}
	if in.T.NoMeta {
		return false, "head-without-metadata"
	}
	seen := map[int]bool{}
	for _, t := range append(append([]Task{}, in.Q...), in.App...) {
		if seen[t.Id] {
			return false, "duplicate-ids"
		}
		seen[t.Id] = true
	}
	return true, ""
}

func Render(in Input, obs *Observation, crash string) core.Case {
	if in.Long != nil {
		l := *in.Long
		in = expand(in)
		in.Long = nil
		c := Render(in, obs, crash)
		c.Tags = append(c.Tags, longTags(l)...)
		return c
	}
	switch in.Kind {
	case "set":
		return renderSet(in, obs, crash)
	case "op", "sync":
		return renderOp(in, obs, crash)
	}
	var o Observation
	if obs != nil {
		o = *obs
	} else {
		o = Observation{Int: Res{Nil: true}, Exp: Res{Nil: true}}
	}
	c := core.Case{}
	c.Coq = fmt.Sprintf("mkCase %s\n  %s\n  %s", coqInput(in), coqRes(o.Int), coqRes(o.Exp))
	c.JSON = map[string]any{"internal": o.Int, "exported": o.Exp, "crash": crash}
	c.Key = coqInput(in)
	wf, why := wellFormed(in)
	c.Tags = append(c.Tags, "class:queue", fmt.Sprintf("tasks:%02d", len(in.Q)))
	if wf {
		c.Tags = append(c.Tags, "wellformed")
		merged := len(in.Q) + len(in.App) - len(o.Int.Queue)
		c.Tags = append(c.Tags, fmt.Sprintf("merged:%02d", merged))
		if !o.Int.Nil {
			total := len(in.T.Ctxs)
			for _, t := range in.Q[1:] {
				if merged > 0 {
					total += len(t.Ctxs)
					merged--
				}
			}
			if len(o.Int.Ctxs) < total {
				c.Tags = append(c.Tags, "compacted")
			} else {
				c.Tags = append(c.Tags, "merged-not-compacted")
			}
			if len(o.Int.Mids) > len(in.T.Mids) {
				c.Tags = append(c.Tags, "monitor-ids-merged")
			}
		}
	} else {
		c.Tags = append(c.Tags, "outside-wf:"+why)
	}
	if len(in.Stop) > 0 {
		c.Tags = append(c.Tags, "stopCombineFn")
	}
	if len(in.App) > 0 {
		c.Tags = append(c.Tags, fmt.Sprintf("appended:%d", len(in.App)))
	}
	hooks := map[int]bool{}
	tys := map[int]bool{}
	for _, t := range in.Q {
		hooks[t.Hook] = true
		tys[t.Ty] = true
	}
	c.Tags = append(c.Tags, fmt.Sprintf("hooks:%d", len(hooks)), fmt.Sprintf("types:%d", len(tys)))
	if wf {
		c.Tags = append(c.Tags, policyTags(in.Q)...)
	}
	c.Nontrivial = wf && len(in.Q) >= 2
	return c
}

// ---- generation ----

type gen struct {
	r    *core.Rng
	tag  int
	mid  int
	hook int
	grp  int
	ids  []int
}

func (g *gen) nextId() int {
	id := g.ids[0]
	g.ids = g.ids[1:]
	return id
}

func (g *gen) task(nHooks int) Task {
	if !g.r.Chance(65) {
		g.hook = 1 + g.r.Intn(nHooks)
	}
	t := Task{Id: g.nextId(), Hook: g.hook, Ctxs: []Ctx{}, Mids: []int{}}
	if g.r.Chance(15) {
		t.Ty = 1
	}
	if g.r.Chance(3) {
		t.NoMeta = true
	}
	n := 1
	switch k := g.r.Intn(100); {
	case k < 2:
		n = 0
	case k < 72:
		n = 1
	case k < 92:
		n = 2
	default:
		n = 3
	}
	for i := 0; i < n; i++ {
		if !g.r.Chance(50) {
			g.grp = g.r.Intn(3)
		}
		g.tag++
		t.Ctxs = append(t.Ctxs, Ctx{Tag: g.tag, Group: g.grp})
	}
	nm := 0
	switch k := g.r.Intn(100); {
	case k < 50:
		nm = 0
	case k < 85:
		nm = 1
	default:
		nm = 2
	}
	for i := 0; i < nm; i++ {
		g.mid++
		t.Mids = append(t.Mids, 100+g.mid)
	}
	return t
}

func (g *gen) layout(maxTasks int, malformed bool) Input {
	n := 1 + g.r.Intn(maxTasks)
	nApp := 0
	if g.r.Chance(25) {
		nApp = 1 + g.r.Intn(3)
	}
	// shuffled dense ids so that id order is unrelated to queue order
	g.ids = nil
	for i := 1; i <= n+nApp+1; i++ {
		g.ids = append(g.ids, i)
	}
	for i := len(g.ids) - 1; i > 0; i-- {
		j := g.r.Intn(i + 1)
		g.ids[i], g.ids[j] = g.ids[j], g.ids[i]
	}
	g.tag, g.mid = 0, 0
	nHooks := 1 + g.r.Intn(3)
	g.hook = 1 + g.r.Intn(nHooks)
	g.grp = g.r.Intn(3)
	in := Input{Stop: []int{}, Q: []Task{}, App: []Task{}}
	for i := 0; i < n; i++ {
		in.Q = append(in.Q, g.task(nHooks))
	}
	for i := 0; i < nApp; i++ {
		in.App = append(in.App, g.task(nHooks))
	}
	in.Q[0].NoMeta = false
	g.policies(in.Q, in.App)
	in.T = in.Q[0]
	if g.r.Chance(12) {
		for k := 0; k <= g.r.Intn(2); k++ {
			in.Stop = append(in.Stop, in.Q[g.r.Intn(len(in.Q))].Id)
		}
	}
	if malformed {
		switch g.r.Intn(4) {
		case 0: // the executed task is not the first of its queue
			in.T = in.Q[g.r.Intn(len(in.Q))]
		case 1: // the executed task is not in the queue at all
			in.T = g.task(nHooks)
			in.T.AF = !in.T.NoMeta && g.r.Chance(40)
		case 2: // two tasks with one id
			if len(in.Q) >= 2 {
				i := g.r.Intn(len(in.Q) - 1)
				j := i + 1 + g.r.Intn(len(in.Q)-i-1)
				in.Q[j].Id = in.Q[i].Id
				in.T = in.Q[0]
			}
		case 3: // the executed task has no metadata
			in.Q[0].NoMeta = true
			in.Q[0].AF = false
			in.T = in.Q[0]
		}
	}
	return in
}

func ctxs(tagBase int, gs ...int) []Ctx {
	r := []Ctx{}
	for i, g := range gs {
		r = append(r, Ctx{Tag: tagBase + i, Group: g})
	}
	return r
}

// Corpus: fixed layouts that run first.
func Corpus() []Input {
	ht := func(id, hook, ty int, cs []Ctx, mids ...int) Task {
		if mids == nil {
			mids = []int{}
		}
		return Task{Id: id, Hook: hook, Ty: ty, Ctxs: cs, Mids: mids}
	}
	var ins []Input
	add := func(stop []int, app []Task, q ...Task) {
		if stop == nil {
			stop = []int{}
		}
		if app == nil {
			app = []Task{}
		}
		ins = append(ins, Input{T: q[0], Stop: stop, Q: q, App: app})
	}
	// the non-vacuity example of C07_Properties.v
	add(nil, []Task{ht(7, 1, 0, ctxs(70, 2), 700)},
		ht(1, 1, 0, ctxs(10, 1, 1), 100), ht(2, 1, 0, ctxs(20, 1, 0, 2), 200, 201), ht(3, 1, 0, ctxs(30, 2)),
		ht(4, 1, 1, ctxs(40, 2), 400), ht(5, 2, 0, ctxs(50, 2)), ht(6, 1, 0, ctxs(60, 2)))
	// a single task; a single task whose own contexts are not in compacted form
	add(nil, nil, ht(1, 1, 0, ctxs(10, 0)))
	add(nil, nil, ht(1, 1, 0, ctxs(10, 1, 1)))
	// shapes of the repository's own tests: several hooks; groups a a b b . a a
	add(nil, nil, ht(1, 1, 0, ctxs(10, 0)), ht(2, 1, 0, ctxs(20, 0)), ht(3, 1, 0, ctxs(30, 0)), ht(4, 2, 0, ctxs(40, 0)),
		ht(5, 2, 0, ctxs(50, 0)), ht(6, 1, 0, ctxs(60, 0)))
	add(nil, nil, ht(1, 1, 0, ctxs(10, 1)), ht(2, 1, 0, ctxs(20, 1)), ht(3, 1, 0, ctxs(30, 2)), ht(4, 1, 0, ctxs(40, 2)),
		ht(5, 1, 0, ctxs(50, 0)), ht(6, 1, 0, ctxs(60, 1)), ht(7, 1, 0, ctxs(70, 1)))
	// interleaved groups a b a b: nothing may be dropped
	add(nil, nil, ht(1, 1, 0, ctxs(10, 1)), ht(2, 1, 0, ctxs(20, 2)), ht(3, 1, 0, ctxs(30, 1)), ht(4, 1, 0, ctxs(40, 2)))
	// other type directly behind the head; task without metadata in the block
	add(nil, nil, ht(1, 1, 0, ctxs(10, 1)), ht(2, 1, 1, ctxs(20, 1)), ht(3, 1, 0, ctxs(30, 1)))
	add(nil, nil, ht(1, 1, 0, ctxs(10, 1)), ht(2, 1, 0, ctxs(20, 1)), Task{Id: 3, Hook: 1, NoMeta: true, Ctxs: []Ctx{}, Mids: []int{}}, ht(4, 1, 0, ctxs(40, 1)))
	// stopCombineFn stops at task 3
	add([]int{3}, nil, ht(1, 1, 0, ctxs(10, 1)), ht(2, 1, 0, ctxs(20, 1)), ht(3, 1, 0, ctxs(30, 1)), ht(4, 1, 0, ctxs(40, 1)))
	// appended task of the same hook right behind the block: must survive
	add(nil, []Task{ht(3, 1, 0, ctxs(30, 1), 300)}, ht(1, 1, 0, ctxs(10, 1), 100), ht(2, 1, 0, ctxs(20, 1), 200))
	// tasks with no contexts and no monitor ids
	add(nil, nil, ht(1, 1, 0, ctxs(10)), ht(2, 1, 0, ctxs(20)), ht(3, 1, 0, ctxs(30, 2)))
	// failure policies (seeded change C07-7): strict, lenient, strict of one hook - one block, the grouped
	// contexts compacted over the policy boundaries; and a lenient head followed by strict tasks
	lt := func(t Task) Task { t.AF = true; return t }
	add(nil, nil, ht(1, 1, 0, ctxs(10, 1)), lt(ht(2, 1, 0, ctxs(20, 1), 200)), ht(3, 1, 0, ctxs(30, 1)), ht(4, 2, 0, ctxs(40, 0)))
	add(nil, []Task{lt(ht(5, 1, 0, ctxs(50, 0)))}, lt(ht(1, 1, 0, ctxs(10, 0))), ht(2, 1, 0, ctxs(20, 2)), ht(3, 1, 0, ctxs(30, 2)), lt(ht(4, 1, 1, ctxs(40, 0))))
	return ins
}

// exhaustive small scope: head of hook 1 / type 0 (symmetry), then every sequence of
// up to maxLen-1 tasks over {hook 1,2} x {type 0,1} x {one context of group "", a, b} plus the
// task without metadata; three shapes of head contexts.
func exhaustive(maxLen int) []Input {
	var alpha []Task
	for hook := 1; hook <= 2; hook++ {
		for ty := 0; ty <= 1; ty++ {
			for g := 0; g <= 2; g++ {
				alpha = append(alpha, Task{Hook: hook, Ty: ty, Ctxs: []Ctx{{Group: g}}})
			}
		}
	}
	alpha = append(alpha, Task{Hook: 1, NoMeta: true})
	heads := [][]int{{0}, {1}, {1, 1}}
	var out []Input
	var rec func(q []Task)
	rec = func(q []Task) {
		in := Input{Stop: []int{}, App: []Task{}}
		// failure policies, by the layout's number: all strict / odd positions lenient / only the head lenient /
		// everything but the head lenient
		pat := len(out) % 4
		for pos, t := range q {
			n := Task{Id: pos + 1, Hook: t.Hook, Ty: t.Ty, NoMeta: t.NoMeta, Ctxs: []Ctx{}, Mids: []int{}}
			n.AF = !t.NoMeta && ((pat == 1 && pos%2 == 1) || (pat == 2 && pos == 0) || (pat == 3 && pos > 0))
			for j, c := range t.Ctxs {
				n.Ctxs = append(n.Ctxs, Ctx{Tag: (pos+1)*10 + j, Group: c.Group})
			}
			if pos%2 == 1 && !t.NoMeta {
				n.Mids = []int{100 + pos}
			}
			in.Q = append(in.Q, n)
		}
		in.T = in.Q[0]
		out = append(out, in)
		if len(q) >= maxLen {
			return
		}
		for _, a := range alpha {
			rec(append(append([]Task{}, q...), a))
		}
	}
	for _, h := range heads {
		hd := Task{Hook: 1, Ty: 0}
		for _, g := range h {
			hd.Ctxs = append(hd.Ctxs, Ctx{Group: g})
		}
		rec([]Task{hd})
	}
	return out
}

func Gen(r *core.Rng, tier string) ([]core.In[Input], bool) {
	var corpus, ins []core.In[Input]
	for _, c := range SyncCorpus() {
		corpus = append(corpus, core.In[Input]{Input: c, Stream: "corpus"})
	}
	for _, c := range OpCorpus() {
		corpus = append(corpus, core.In[Input]{Input: c, Stream: "corpus"})
	}
	for _, c := range SetCorpus() {
		corpus = append(corpus, core.In[Input]{Input: c, Stream: "corpus"})
	}
	for _, c := range Corpus() {
		corpus = append(corpus, core.In[Input]{Input: c, Stream: "corpus"})
	}
	g := &gen{r: r}
	nRandom, nSet, nOp, nSync, nLong := 500, 600, 300, 260, 10
	switch tier {
	case "thorough":
		nRandom, nSet, nOp, nSync, nLong = 20000, 12000, 2000, 3000, 600
	case "search":
		nRandom, nSet, nOp, nSync, nLong = 3000, 3000, 600, 800, 60
	}
	for i := 0; i < nRandom; i++ {
		if i%10 == 9 {
			ins = append(ins, core.In[Input]{Input: g.layout(12, true), Stream: "malformed"})
		} else {
			ins = append(ins, core.In[Input]{Input: g.layout(12, false), Stream: "random"})
		}
	}
	for i := 0; i < nSet; i++ {
		ins = append(ins, core.In[Input]{Input: g.setLayout(), Stream: "set"})
	}
	// the sessions run real hook processes: spread them evenly over the workers' chunks
	var ops []core.In[Input]
	for i := 0; i < nOp || i < nSync; i++ {
		if i < nOp {
			ops = append(ops, core.In[Input]{Input: g.opSession(), Stream: "op"})
		}
		if i < nSync {
			ops = append(ops, core.In[Input]{Input: g.syncSession(), Stream: "sync"})
		}
	}
	if len(ops) > 0 {
		var mixed []core.In[Input]
		per := len(ins)/len(ops) + 1
		k := 0
		for i, in := range ins {
			mixed = append(mixed, in)
			if (i+1)%per == 0 && k < len(ops) {
				mixed = append(mixed, ops[k])
				k++
			}
		}
		mixed = append(mixed, ops[k:]...)
		ins = mixed
	}
	ins = append(corpus, ins...) // the corpus runs first
	// long backlogs (long.go): the fixed ones in ascending length, then random ones; their Coq terms are large
	// (up to 1000 tasks), so they are spread evenly over the case files instead of filling the first one
	var longs []core.In[Input]
	for _, c := range LongCorpus(tier) {
		longs = append(longs, core.In[Input]{Input: c, Stream: "long-corpus"})
	}
	for i := 0; i < nLong; i++ {
		longs = append(longs, core.In[Input]{Input: g.longRandom(), Stream: "long-random"})
	}
	if len(longs) > 0 {
		var mixed []core.In[Input]
		per := len(ins)/len(longs) + 1
		k := 0
		for i, in := range ins {
			if i%per == 0 && k < len(longs) {
				mixed = append(mixed, longs[k])
				k++
			}
			mixed = append(mixed, in)
		}
		ins = append(mixed, longs[k:]...)
	}
	if tier == "thorough" {
		for _, in := range exhaustive(5) {
			ins = append(ins, core.In[Input]{Input: in, Stream: "exhaustive"})
		}
		for _, in := range exhaustiveSet(2) {
			ins = append(ins, core.In[Input]{Input: in, Stream: "exhaustive-set"})
		}
	}
	if tier == "search" {
		for _, in := range exhaustive(4) {
			ins = append(ins, core.In[Input]{Input: in, Stream: "exhaustive"})
		}
		for _, in := range exhaustiveSet(2) {
			ins = append(ins, core.In[Input]{Input: in, Stream: "exhaustive-set"})
		}
	}
	return ins, false
}

var Driver = core.Driver[Input, Observation]{
	Spec: core.Spec{Property: "C07", Imports: []string{"C07_Model", "C07_Spec", "C07_Corr"}, Corr: "C07_Corr", Triggers: nil, ShrinkKey: "q",
		Rule: "class queue: queue layouts in real TaskQueue objects, the real combineBindingContextForHook and CombineBindingContextForHook each run on a fresh copy, the queue object handed over directly; " +
			"streams: corpus, random (1-12 tasks, 1-3 hooks, 2 task types, 0-3 contexts per task with groups \"\",a,b repeated/interleaved, monitor ids, shuffled ids, " +
			"12% with a stopCombineFn, 25% with 1-3 tasks appended between Iterate and Filter, emulated by two queue objects), malformed (executed task not at head / absent / duplicate ids / no metadata: model agreement only), " +
			"exhaustive (thorough: head of hook 1/type 0 with contexts [\"\"],[a],[a a] followed by every sequence of <=4 tasks over 2 hooks x 2 types x 3 groups + a task without metadata); " +
			"class set: a real TaskQueueSet of 1-4 named queues (main nearly always), 1-12 tasks spread over them, both functions called as taskHandleHookRun calls them, combine(tqs, tqs.GetByName(t.GetQueueName()), t, stop); " +
			"the executed task carries \"\", main, another queue's name or a name no queue has and is the head of the queue it names (48%), in no queue with a name that points nowhere (28%: what the webhook handlers run), " +
			"in no queue with an existing name (6%), in its queue but not at the head (6%), a head carrying another name (12%); 25% with 1-3 tasks arriving at any queue DURING the call (second GetMetadata call of a collected task), 12% stopCombineFn, 3% duplicate ids; " +
			"exhaustive-set (thorough/search: queues main and qa with every pair of sequences of <=2 tasks over 2 hooks x {no group, group a}, executed task = either head or a queue-less task named \"\", no-such-queue, main, qa); " +
			"class op: sessions of 1-4 steps on the real operator (task handler, admission event handler of initValidatingWebhookManager, conversionEventHandler, real bash hooks): 1-4 named queues with 2-8 tasks (HookRun with schedule contexts, 15% EnableScheduleBindings, 6% carrying a foreign or empty name), " +
			"steps head-of-queue (harness plays the worker: GetFirst, Handler, Remove on Success) / validating / mutating / conversion request / queue-less task with name \"\" or unknown handed to taskHandler, 25% of the hook runs exit 1; " +
			"failure policies (since seeded change C07-7; every class): each task carries the allowFailure of its binding - per layout all default (20%), independent per task (35%), the head of every queue strict and all other tasks lenient (17%), " +
			"the other way round (17%), one policy per hook (11%); class op: the value is read from the loaded config of the hook's real schedule binding s-<queue> / l-<queue> (allowFailure: true); class sync: the kubernetes bindings declare allowFailure (40%), " +
			"their real Synchronization tasks carry it, events / ticks carry the policy of one of the hook's bindings; a failed run of a head that allows failure after the merge is a Success (tag failed-run-forgiven); exhaustive: four policy patterns by layout number; " +
			"long backlogs (since seeded change C07-9; streams long-corpus, long-random; classes queue, set and op): head + N tasks of its hook and type immediately behind it, N in 63,64,65,127,128,129,130,255,256,257,300,513,1000 (corpus, ascending) " +
			"or random in 33..1100 (half within 8 of one of these sizes), patterns ungrouped / one group / alternating groups a b a b / runs of 1,3,5,... equal groups / random per task (0-2 contexts, 3 groups, monitor ids, failure policies), " +
			"with or without [a task of hook 2, one more task of hook 1] behind the run, with 0-3 tasks arriving during the call; class set: a second queue with 3 tasks of the same hook; class op: the worker of main executes the head (real hook process, context file with all contexts; 30% first run fails and is retried), " +
			"then the rest of the queue; such a layout is recorded by its description (class, n, pat, tail, app, fail, seed) and expanded deterministically by Run and Render; Coq evaluates the _lz forms of the predicates (equal to P / P_set / P_session: theorems C07_lz_is_*) and the count clauses P_count / P_set_count / P_session_count; " +
			"non-trivial = well-formed (unique ids) with >=2 queued tasks (class op: and >=1 step); distinct = distinct input text"},
	Gen: Gen, Run: Run, Render: Render, PerShard: 150, Workers: 8, CaseTimout: 20 * time.Second,
	Extra: func() map[string]any {
		return map[string]any{
			"concurrent_appends": "class queue: emulated, Iterate runs on a queue object holding the layout, Filter on a second registered queue object holding layout ++ appended (same task objects), no goroutines; " +
				"class set: real arrivals during the call (AddLast from the second GetMetadata call on a collected task, i.e. after Iterate, outside every lock, before Filter)",
			"exhaustive_scope": "thorough: 3 head shapes x sum_{k<=4} 13^k = 92823 layouts of <=5 tasks; set: 21 x 21 queue pairs x up to 6 executed tasks",
			"not_driven": "class queue/set: the gate in front of the call (operator.go:564-573: v1 hook, hook is run, not an ungrouped kubernetes Synchronization) is outside the driven function; class op drives it with schedule-typed contexts (gate open, stopCombineFn nil); " +
				"a webhook run arriving WHILE a worker is inside the hook process of the head is not driven (after the head's combine the queue is [head(merged), rest], the state a failed head leaves: that state is driven)",
		}
	},
}
