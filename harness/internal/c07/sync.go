package c07

// Class "sync": sessions whose queues hold kubernetes Synchronization tasks - heads that are NOT
// executed among them (added after seeded change C07-6).
//
// For every case a ShellOperator is assembled around a fake cluster (VerifAssemble: the real hook
// manager loads the case's hook files h1.sh.. - real bash scripts that print the case's config on
// --config and record their binding-context file on every run).  A hook has a v1 or a v0 config and
// 0-3 kubernetes bindings, each with or without a group and with executeHookOnSynchronization true or
// false (v0: the config has neither).  The real bootstrapMainQueue makes the EnableKubernetesBindings
// tasks, the real task handler runs them (monitors on the fake cluster are created and started) and
// returns the REAL Synchronization tasks, one per binding.  The harness then lays the queues out as
// the case says - those real Synchronization tasks plus kubernetes Event and schedule tasks built like
// the operator's event handlers build them - and plays the queue worker exactly as class "op" does:
// GetFirst, the real taskHandler, Remove on Success.  The first step of every session names a queue
// that does not exist: nothing happens, and the observation is the initial content of the queues as
// the real tasks have it (compared with the case's description by the model comparison).

import (
	"context"
	"encoding/json"
	"fmt"
	"os"
	"path/filepath"
	"sync"
	"time"

	"github.com/deckhouse/deckhouse/pkg/log"

	"github.com/flant/kube-client/fake"
	"github.com/flant/shell-operator/pkg/hook/task_metadata"
	kem "github.com/flant/shell-operator/pkg/kube_events_manager"
	shell_operator "github.com/flant/shell-operator/pkg/shell-operator"
	"github.com/flant/shell-operator/pkg/task"
)

// binding j (from 1) of hook h: name k<100h+j>, monitor number and Synchronization tag 100h+j
func syncNum(h, j int) int { return 100*h + j }

func syncConfig(h int, hc HookCfg) string {
	never := "0 0 30 2 *" // 30 February
	if hc.V0 {
		var kb []map[string]any
		for j := range hc.Kube {
			m := map[string]any{"name": fmt.Sprintf("k%d", syncNum(h, j+1)), "kind": "ConfigMap",
				"namespaceSelector": map[string]any{"matchNames": []string{"default"}}}
			if hc.Kube[j].AF {
				m["allowFailure"] = true
			}
			kb = append(kb, m)
		}
		cfg := map[string]any{"schedule": []map[string]any{{"name": "s", "crontab": never}}}
		if len(kb) > 0 {
			cfg["onKubernetesEvent"] = kb
		}
		b, _ := json.Marshal(cfg)
		return string(b)
	}
	var kb []map[string]any
	for j, k := range hc.Kube {
		m := map[string]any{"name": fmt.Sprintf("k%d", syncNum(h, j+1)), "apiVersion": "v1", "kind": "ConfigMap",
			"namespace": map[string]any{"nameSelector": map[string]any{"matchNames": []string{"default"}}},
			"executeHookOnSynchronization": k.Exec}
		if k.AF {
			m["allowFailure"] = true
		}
		if k.Group != 0 {
			m["group"] = groups[k.Group%len(groups)]
		}
		kb = append(kb, m)
	}
	cfg := map[string]any{"configVersion": "v1", "schedule": []map[string]any{{"name": "s", "crontab": never}}}
	if len(kb) > 0 {
		cfg["kubernetes"] = kb
	}
	b, _ := json.Marshal(cfg)
	return string(b)
}

var syncOnce sync.Once

func runSync(in Input) (obs Observation) {
	syncOnce.Do(func() {
		kem.DefaultSyncTime = time.Millisecond
		log.SetDefaultLevel(log.LevelFatal)
	})
	base := os.Getenv(RigRootEnv)
	if base == "" {
		base = os.TempDir()
	}
	root := filepath.Join(base, fmt.Sprintf("c07-sync-%d", os.Getpid()))
	_ = os.RemoveAll(root)
	defer os.RemoveAll(root)
	hooksDir, state, tmp := filepath.Join(root, "hooks"), filepath.Join(root, "state"), filepath.Join(root, "tmp")
	for _, d := range []string{root, hooksDir, state, tmp} {
		if err := os.Mkdir(d, 0o755); err != nil {
			obs.Note = "dir: " + err.Error()
			return
		}
	}
	v0 := map[int]bool{}
	for i, hc := range in.Hooks {
		h := i + 1
		v0[h] = hc.V0
		name := hookName(h)
		if err := os.WriteFile(filepath.Join(state, name+".config"), []byte(syncConfig(h, hc)), 0o644); err != nil {
			obs.Note = "config: " + err.Error()
			return
		}
		if err := os.WriteFile(filepath.Join(hooksDir, name), []byte(fmt.Sprintf(opHookScript, state, name)), 0o755); err != nil {
			obs.Note = "hook file: " + err.Error()
			return
		}
	}

	kem.DefaultFactoryStore.Reset()
	fc := fake.NewFakeCluster(fake.ClusterVersionV119)
	ctx, cancel := context.WithCancel(context.Background())
	defer cancel()
	op, err := shell_operator.VerifAssemble(ctx, fc.Client, hooksDir, tmp, log.NewNop())
	if err != nil {
		obs.Note = "assemble: " + err.Error()
		return
	}
	defer op.KubeEventsManager.PauseHandleEvents()

	// the monitors' numbers, from the loaded configs
	rg := &opRig{op: op, state: state, monNum: map[string]int{}, v0: v0}
	for i, hc := range in.Hooks {
		h := i + 1
		hk := op.VerifHookManager().GetHook(hookName(h))
		if hk == nil {
			obs.Note = "hook " + hookName(h) + " was not loaded"
			return
		}
		cfgs := hk.GetConfig().OnKubernetesEvents
		if len(cfgs) != len(hc.Kube) {
			obs.Note = "the loaded config has other kubernetes bindings than the case"
			return
		}
		for j, c := range cfgs {
			if c.BindingName != fmt.Sprintf("k%d", syncNum(h, j+1)) {
				obs.Note = "the loaded config has the bindings in another order than the case"
				return
			}
			rg.monNum[c.Monitor.Metadata.MonitorId] = syncNum(h, j+1)
		}
	}

	// the real EnableKubernetesBindings tasks, made by the real bootstrapMainQueue, run by the real
	// task handler: their HeadTasks are the Synchronization tasks
	op.VerifBootstrapMainQueue()
	var enable []task.Task
	op.TaskQueues.GetMain().Iterate(func(t task.Task) {
		if t.GetType() == task_metadata.EnableKubernetesBindings {
			enable = append(enable, t)
		}
	})
	real := map[int]task.Task{} // Synchronization tag -> the real task
	for _, et := range enable {
		res := op.VerifTaskHandler(et)
		if res.Status != "Success" {
			obs.Note = "EnableKubernetesBindings: status " + string(res.Status)
			return
		}
		for _, st := range res.HeadTasks {
			hm := task_metadata.HookMetadataAccessor(st)
			if len(hm.MonitorIDs) != 1 || rg.monNum[hm.MonitorIDs[0]] == 0 {
				obs.Note = "a Synchronization task without a known monitor id"
				return
			}
			real[rg.monNum[hm.MonitorIDs[0]]] = st
		}
	}
	op.TaskQueues.Remove("main")

	// the queues of the case
	for _, n := range in.Queues {
		op.TaskQueues.NewNamedQueue(qname(n), op.VerifTaskHandler)
	}
	for _, t := range in.Q {
		q := op.TaskQueues.GetByName(qname(t.Qn))
		if q == nil {
			continue
		}
		if len(t.Ctxs) == 1 && t.Ctxs[0].Sync && t.Ty == 0 && !t.NoMeta {
			// a Synchronization task: the real one (its id is a uuid: the case's id is put on it)
			rt, ok := real[t.Ctxs[0].Tag].(*task.BaseTask)
			if !ok || rt == nil {
				obs.Note = fmt.Sprintf("the case has a Synchronization task %d that no binding of its hooks produced", t.Ctxs[0].Tag)
				return
			}
			delete(real, t.Ctxs[0].Tag) // at most once
			rt.Id = fmt.Sprint(t.Id)
			q.AddLast(rt)
			continue
		}
		q.AddLast(mkOpTask(t))
	}
	for _, st := range in.Steps {
		if st.Kind != "head" && st.Kind != "direct" {
			obs.Steps = append(obs.Steps, StepObs{Note: "step kind " + st.Kind + " is not part of class sync", Runs: []RunObs{}})
			continue
		}
		obs.Steps = append(obs.Steps, rg.step(in, st))
	}
	return obs
}

// ---- generation ----

func (g *gen) syncSession() Input {
	in := Input{Kind: "sync", Stop: []int{}, Q: []Task{}, App: []Task{}, Steps: []Step{}}
	in.Queues = []int{1}
	if g.r.Chance(30) {
		in.Queues = append(in.Queues, 2)
	}
	nHooks := 1 + g.r.Intn(3)
	for h := 1; h <= nHooks; h++ {
		hc := HookCfg{V0: g.r.Chance(20), Kube: []KB{}}
		nb := g.r.Intn(4)
		if h == 1 && nb == 0 {
			nb = 1 + g.r.Intn(3)
		}
		grp := g.r.Intn(3)
		for j := 0; j < nb; j++ {
			if !g.r.Chance(60) {
				grp = g.r.Intn(3)
			}
			k := KB{Group: grp, Exec: !g.r.Chance(45), AF: g.r.Chance(40)}
			if hc.V0 {
				k = KB{AF: k.AF}
			}
			hc.Kube = append(hc.Kube, k)
		}
		in.Hooks = append(in.Hooks, hc)
	}
	// ids: shuffled dense numbers
	g.ids = nil
	for i := 1; i <= 40; i++ {
		g.ids = append(g.ids, i)
	}
	for i := len(g.ids) - 1; i > 0; i-- {
		j := g.r.Intn(i + 1)
		g.ids[i], g.ids[j] = g.ids[j], g.ids[i]
	}
	g.tag = 0
	synthetic := func(h int) Task {
		g.tag++
		hc := in.Hooks[h-1]
		grp := g.r.Intn(3)
		if len(hc.Kube) > 0 && g.r.Chance(70) { // the group of one of the hook's bindings
			grp = hc.Kube[g.r.Intn(len(hc.Kube))].Group
		}
		if hc.V0 {
			grp = 0
		}
		t := Task{Id: g.nextId(), Hook: h, Ctxs: []Ctx{{Tag: g.tag, Group: grp}}, Mids: []int{}, Kube: g.r.Chance(55), Group: grp, Qn: 1, Name: 1}
		// the policy of the binding the event / tick comes from: one of the hook's kubernetes bindings, or a schedule binding
		t.AF = g.r.Chance(40)
		if t.Kube && len(hc.Kube) > 0 && g.r.Chance(60) {
			t.AF = hc.Kube[g.r.Intn(len(hc.Kube))].AF
		}
		if g.r.Chance(12) { // a task that already holds two contexts (the state a failed, merged head leaves)
			g.tag++
			t.Ctxs = append(t.Ctxs, Ctx{Tag: g.tag, Group: grp})
		}
		if g.r.Chance(4) {
			t = Task{Id: t.Id, Hook: h, Ty: 1, Ctxs: []Ctx{}, Mids: []int{}, Qn: 1, Name: 1} // another task type
		}
		return t
	}
	// main as the start-up leaves it: hook by hook the Synchronization tasks in config order (sometimes
	// only the last ones: the first are done), tasks of the hook and of other hooks behind and between them
	var q []Task
	for h := 1; h <= nHooks; h++ {
		hc := in.Hooks[h-1]
		from := 0
		if len(hc.Kube) > 1 && g.r.Chance(20) {
			from = g.r.Intn(len(hc.Kube))
		}
		for j := from; j < len(hc.Kube); j++ {
			k := hc.Kube[j]
			n := syncNum(h, j+1)
			q = append(q, Task{Id: g.nextId(), Hook: h, Ctxs: []Ctx{{Tag: n, Group: k.Group, Sync: true}}, Mids: []int{n},
				Kube: true, Group: k.Group, Exec: k.Exec, AF: k.AF, Qn: 1, Name: 1})
			if g.r.Chance(15) {
				q = append(q, synthetic(h))
			}
		}
		for n := g.r.Intn(3); n > 0; n-- {
			if g.r.Chance(70) {
				q = append(q, synthetic(h))
			} else {
				q = append(q, synthetic(1+g.r.Intn(nHooks)))
			}
		}
	}
	if g.r.Chance(25) { // any order
		for i := len(q) - 1; i > 0; i-- {
			j := g.r.Intn(i + 1)
			q[i], q[j] = q[j], q[i]
		}
	}
	if len(q) > 9 {
		q = q[:9]
	}
	if len(in.Queues) > 1 { // tasks of the named queue: never Synchronization tasks (they go to main)
		for n := 1 + g.r.Intn(2); n > 0; n-- {
			t := synthetic(1 + g.r.Intn(nHooks))
			t.Qn, t.Name = 2, 2
			q = append(q, t)
		}
	}
	in.Q = q
	in.Steps = append(in.Steps, Step{Kind: "head", Qn: 9}) // no such queue: the initial content is observed
	nSteps := 2 + g.r.Intn(4)
	for i := 0; i < nSteps; i++ {
		st := Step{Kind: "head", Qn: 1, Fail: g.r.Chance(20)}
		if len(in.Queues) > 1 && g.r.Chance(15) {
			st.Qn = 2
		}
		in.Steps = append(in.Steps, st)
	}
	return in
}

// SyncCorpus: fixed sessions that run first.
func SyncCorpus() []Input {
	var ins []Input
	syncT := func(id, h, j int, k KB) Task {
		n := syncNum(h, j)
		return Task{Id: id, Hook: h, Ctxs: []Ctx{{Tag: n, Group: k.Group, Sync: true}}, Mids: []int{n}, Kube: true, Group: k.Group, Exec: k.Exec, AF: k.AF, Qn: 1, Name: 1}
	}
	ev := func(id, h, tag, grp int) Task {
		return Task{Id: id, Hook: h, Ctxs: []Ctx{{Tag: tag, Group: grp}}, Mids: []int{}, Kube: true, Group: grp, Qn: 1, Name: 1}
	}
	sch := func(id, h, tag, grp int) Task {
		return Task{Id: id, Hook: h, Ctxs: []Ctx{{Tag: tag, Group: grp}}, Mids: []int{}, Group: grp, Qn: 1, Name: 1}
	}
	heads := func(n int, fail ...int) []Step {
		st := []Step{{Kind: "head", Qn: 9}}
		for i := 0; i < n; i++ {
			s := Step{Kind: "head", Qn: 1}
			for _, f := range fail {
				if f == i {
					s.Fail = true
				}
			}
			st = append(st, s)
		}
		return st
	}
	add := func(hooks []HookCfg, steps []Step, q ...Task) {
		ins = append(ins, Input{Kind: "sync", Stop: []int{}, App: []Task{}, Queues: []int{1}, Hooks: hooks, Q: q, Steps: steps})
	}
	src, ord := KB{Group: 1, Exec: false}, KB{Group: 1, Exec: true}
	// a hook with two bindings in one group, the FIRST a snapshot source only
	// (executeHookOnSynchronization: false), the second ordinary; a task of another hook behind them
	h2 := []HookCfg{{Kube: []KB{src, ord}}, {Kube: []KB{}}}
	add(h2, heads(3), syncT(1, 1, 1, src), syncT(2, 1, 2, ord), sch(3, 2, 1, 0))
	// the same head followed by an event and a schedule tick of the hook (same group)
	add(h2, heads(3), syncT(1, 1, 1, src), ev(2, 1, 1, 1), sch(3, 1, 2, 1))
	// the other order: the ordinary Synchronization is executed and stops in front of the exempt one
	add(h2, heads(3, 0), syncT(1, 1, 2, ord), syncT(2, 1, 1, src), ev(3, 1, 1, 1))
	// without a group: an executed Synchronization is run alone, a skipped one leaves alone
	u0, u1 := KB{Exec: false}, KB{Exec: true}
	add([]HookCfg{{Kube: []KB{u1, u0, u1}}}, heads(4), syncT(1, 1, 1, u1), syncT(2, 1, 2, u0), syncT(3, 1, 3, u1), ev(4, 1, 1, 0))
	// a v0 hook: its Synchronization is never executed, its other tasks run one by one
	add([]HookCfg{{V0: true, Kube: []KB{{}, {}}}, {Kube: []KB{ord}}}, heads(5), syncT(1, 1, 1, KB{}), syncT(2, 1, 2, KB{}), ev(3, 1, 1, 0), sch(4, 1, 2, 0), syncT(5, 2, 1, ord))
	// grouped Synchronizations that are all executed: merged and compacted to the last one; the run fails once
	add([]HookCfg{{Kube: []KB{ord, ord, {Group: 2, Exec: true}}}}, heads(3, 0), syncT(1, 1, 1, ord), syncT(2, 1, 2, ord), syncT(3, 1, 3, KB{Group: 2, Exec: true}), sch(4, 1, 1, 2))
	// failure policies: bindings of one group that declare different allowFailure - their REAL Synchronization
	// tasks (strict, lenient) and a lenient event are merged into one run, which fails and is retried
	len1 := KB{Group: 1, Exec: true, AF: true}
	lev := ev(3, 1, 1, 1)
	lev.AF = true
	add([]HookCfg{{Kube: []KB{ord, len1}}, {Kube: []KB{}}}, heads(3, 0), syncT(1, 1, 1, ord), syncT(2, 1, 2, len1), lev, sch(4, 2, 2, 0))
	// the lenient Synchronization first, a strict tick behind it; all lenient: the failed run is forgiven
	add([]HookCfg{{Kube: []KB{len1, ord}}}, heads(3, 0), syncT(1, 1, 1, len1), syncT(2, 1, 2, ord), sch(3, 1, 1, 1))
	add([]HookCfg{{Kube: []KB{len1, len1}}}, heads(2, 0), syncT(1, 1, 1, len1), syncT(2, 1, 2, len1), lev)
	return ins
}
