#!/bin/sh
# Regenerates harness/go.mod from /repo/go.mod (go/toolchain lines and replace
# directives are copied; the repository itself is replaced by the working tree).
set -e
REPO="${VERIF_REPO:-/repo}"
cd "$(dirname "$0")"
{
  echo "module verifharness"
  echo
  grep -E '^(go|toolchain) ' "$REPO/go.mod"
  echo
  echo "require github.com/flant/shell-operator v0.0.0"
  echo
  echo "replace github.com/flant/shell-operator => $REPO"
  grep -E '^replace ' "$REPO/go.mod" || true
} > go.mod
cp "$REPO/go.sum" go.sum
