#!/bin/sh
# usage: gomod.sh <outdir>
# Writes <outdir>/go.mod and <outdir>/go.sum for `go build -modfile=<outdir>/go.mod`:
# go/toolchain lines and every replace directive are copied from $VERIF_REPO/go.mod and the
# repository itself is replaced by the working tree at $VERIF_REPO (default /repo).
set -e
REPO="${VERIF_REPO:-/repo}"
OUT="$1"
mkdir -p "$OUT"
{
  echo "module verifharness"
  echo
  grep -E '^(go|toolchain) ' "$REPO/go.mod"
  echo
  echo "require github.com/flant/shell-operator v0.0.0"
  echo
  echo "replace github.com/flant/shell-operator => $REPO"
  grep -E '^replace ' "$REPO/go.mod" || true
} > "$OUT/go.mod"
cp "$REPO/go.sum" "$OUT/go.sum"
