// Command harness: correspondence drivers, one sub-command per property.
package main

import (
	"fmt"
	"os"

	"verifharness/internal/c05"
)

func main() {
	if len(os.Args) < 2 {
		fmt.Fprintln(os.Stderr, "usage: harness <property> [-tier T] [-seed N] -out DIR [-replay FILE]")
		os.Exit(2)
	}
	prop, args := os.Args[1], os.Args[2:]
	switch prop {
	case "C05":
		c05.Driver.Main(prop, args)
	default:
		fmt.Fprintln(os.Stderr, "unknown property", prop)
		os.Exit(2)
	}
}
