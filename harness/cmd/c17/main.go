// Command c17: correspondence driver for property C17.
package main

import (
	"os"

	"verifharness/internal/c17"
)

func main() { c17.Driver.Main("C17", os.Args[1:]) }
