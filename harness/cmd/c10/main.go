// Command c10: correspondence driver for property C10 (built by ./check as .build/harness-C10).
package main

import (
	"os"

	"verifharness/internal/c10"
)

func main() { c10.Driver.Main("C10", os.Args[1:]) }
