// Command hookstub: a hook executable fully scripted by the harness.
// On start it connects to the unix socket $VERIF_SOCK, reports what a hook can see
// (argv, cwd, the *_PATH environment, the binding-context file, a listing of the temp
// directory), then obeys the reply: bytes for each output file, text for stdout, exit
// code.  The reply arrives only when the harness decides that the execution ends.
//
// HOW an output file is written is part of the reply (optional, default: in place): see WaySpec.
package main

import (
	"bufio"
	"encoding/json"
	"net"
	"os"
	"path/filepath"
	"strconv"
	"strings"
	"syscall"
	"time"
)

type Hello struct {
	Argv0    string            `json:"argv0"`
	Args     []string          `json:"args"`
	Cwd      string            `json:"cwd"`
	Env      map[string]string `json:"env"`
	Context  string            `json:"context"`
	Files    map[string]string `json:"files"`     // initial content of the four output files
	TmpFiles []string          `json:"tmp_files"` // listing of the directory holding the context file
	Pid      int               `json:"pid"`
}

type Reply struct {
	Stdout string            `json:"stdout"`
	Exit   int               `json:"exit"`
	Files  map[string]string `json:"files"` // env var name -> content to write
	// optional: env var name -> how the file is written (absent: in place, the whole content at once).
	// Drivers that can only hand on the files map may put the JSON of a WaySpec under the key
	// "WAY:<env var name>" of Files instead (such keys name no variable, older stubs ignore them).
	Ways map[string]WaySpec `json:"ways,omitempty"`
}

// WaySpec says how the hook produces the file at the path $VAR.
//
//	inplace   open(path, O_TRUNC), write                      > "$P"
//	append    open(path, O_APPEND), write; never truncates    >> "$P"
//	rename    write a scratch file beside it, rename it onto the path      (mv, sed -i, atomic write)
//	recreate  remove the path, create it again                (cp --remove-destination)
//	hardlink  link(path, scratch); write scratch; remove scratch
//	symlink   write a file outside the temp directory, remove the path, symlink(file, path)
//	remove    remove the path and write nothing
//
// Chunks (optional): the content is written in these pieces, one open/write/close each (the first
// opens as the way says, the others append); absent: one piece, Files[VAR].
type WaySpec struct {
	How    string   `json:"how"`
	Chunks []string `json:"chunks,omitempty"`
}

func writeChunks(p string, chunks []string, firstFlag int) error {
	for i, c := range chunks {
		flag := os.O_WRONLY | os.O_CREATE | os.O_APPEND
		if i == 0 {
			flag = os.O_WRONLY | os.O_CREATE | firstFlag
		}
		f, err := os.OpenFile(p, flag, 0o644)
		if err != nil {
			return err
		}
		_, err = f.Write([]byte(c))
		if cerr := f.Close(); err == nil {
			err = cerr
		}
		if err != nil {
			return err
		}
	}
	return nil
}

// writeOutput produces content at path p in the given way.  elsewhere is a directory that is not the
// temp directory (for the target of a symbolic link).  Errors are reported on stderr and the hook goes on.
func writeOutput(name, p string, content string, w WaySpec, elsewhere string) {
	chunks := w.Chunks
	if chunks == nil {
		chunks = []string{content}
	}
	// short names: the path itself may be as long as a file name can be
	tag := strconv.Itoa(os.Getpid()) + "-" + name
	scratch := filepath.Join(filepath.Dir(p), ".w"+tag)
	var err error
	switch w.How {
	case "", "inplace":
		err = writeChunks(p, chunks, os.O_TRUNC)
	case "append":
		err = writeChunks(p, chunks, os.O_APPEND)
	case "rename":
		if err = writeChunks(scratch, chunks, os.O_TRUNC); err == nil {
			err = os.Rename(scratch, p)
		}
	case "recreate":
		if err = os.Remove(p); err == nil {
			err = writeChunks(p, chunks, os.O_TRUNC)
		}
	case "hardlink":
		if err = os.Link(p, scratch); err == nil {
			if err = writeChunks(scratch, chunks, os.O_TRUNC); err == nil {
				err = os.Remove(scratch)
			}
		}
	case "symlink":
		target := filepath.Join(elsewhere, "linked-"+tag)
		if err = writeChunks(target, chunks, os.O_TRUNC); err == nil {
			if err = os.Remove(p); err == nil {
				err = os.Symlink(target, p)
			}
		}
	case "remove":
		err = os.Remove(p)
	default:
		os.Stderr.WriteString("hookstub: unknown way " + w.How + "\n")
		err = writeChunks(p, chunks, os.O_TRUNC)
	}
	if err != nil {
		os.Stderr.WriteString("hookstub: writing " + p + " (" + w.How + "): " + err.Error() + "\n")
	}
}

func main() {
	sock := os.Getenv("VERIF_SOCK")
	if sock == "" {
		os.Stderr.WriteString("hookstub: VERIF_SOCK not set\n")
		os.Exit(97)
	}
	conn, err := net.Dial("unix", sock)
	if err != nil {
		os.Stderr.WriteString("hookstub: " + err.Error() + "\n")
		os.Exit(98)
	}
	defer conn.Close()
	h := Hello{Argv0: os.Args[0], Args: os.Args[1:], Env: map[string]string{}, Files: map[string]string{}, Pid: os.Getpid()}
	h.Cwd, _ = os.Getwd()
	for _, kv := range os.Environ() {
		i := strings.IndexByte(kv, '=')
		if i > 0 && strings.HasSuffix(kv[:i], "_PATH") {
			h.Env[kv[:i]] = kv[i+1:]
		}
	}
	if p := h.Env["BINDING_CONTEXT_PATH"]; p != "" {
		b, _ := os.ReadFile(p)
		h.Context = string(b)
		if ents, err := os.ReadDir(filepath.Dir(p)); err == nil {
			for _, e := range ents {
				h.TmpFiles = append(h.TmpFiles, e.Name())
			}
		}
	}
	for _, k := range []string{"METRICS_PATH", "KUBERNETES_PATCH_PATH", "ADMISSION_RESPONSE_PATH", "VALIDATING_RESPONSE_PATH", "CONVERSION_RESPONSE_PATH"} {
		if p := h.Env[k]; p != "" {
			b, err := os.ReadFile(p)
			if err != nil {
				h.Files[k] = "<unreadable: " + err.Error() + ">"
			} else {
				h.Files[k] = string(b)
			}
		}
	}
	enc := json.NewEncoder(conn)
	if err := enc.Encode(h); err != nil {
		os.Exit(99)
	}
	var r Reply
	if err := json.NewDecoder(bufio.NewReader(conn)).Decode(&r); err != nil {
		os.Exit(96)
	}
	for k, v := range r.Files {
		if p := os.Getenv(k); p != "" {
			w, ok := r.Ways[k]
			if !ok {
				if js, has := r.Files["WAY:"+k]; has {
					ok = json.Unmarshal([]byte(js), &w) == nil
				}
			}
			if !ok {
				os.WriteFile(p, []byte(v), 0o644)
				continue
			}
			writeOutput(k, p, v, w, filepath.Dir(sock))
		}
	}
	os.Stdout.WriteString(r.Stdout)
	if r.Exit < 0 {
		// a negative exit code means: die by that signal (the process has no exit status then)
		os.Stdout.Sync()
		syscall.Kill(os.Getpid(), syscall.Signal(-r.Exit))
		time.Sleep(5 * time.Second)
	}
	os.Exit(r.Exit)
}
