// Command hookstub: a hook executable fully scripted by the harness.
// On start it connects to the unix socket $VERIF_SOCK, reports what a hook can see
// (argv, cwd, the *_PATH environment, the binding-context file, a listing of the temp
// directory), then obeys the reply: bytes for each output file, text for stdout, exit
// code.  The reply arrives only when the harness decides that the execution ends.
package main

import (
	"bufio"
	"encoding/json"
	"net"
	"os"
	"path/filepath"
	"strings"
	"syscall"
	"time"
)

type Hello struct {
	Argv0    string            `json:"argv0"`
	Args     []string          `json:"args"`
	Cwd      string            `json:"cwd"`
	Env      map[string]string `json:"env"`
	Context  string            `json:"context"`
	Files    map[string]string `json:"files"`     // initial content of the four output files
	TmpFiles []string          `json:"tmp_files"` // listing of the directory holding the context file
	Pid      int               `json:"pid"`
}

type Reply struct {
	Stdout string            `json:"stdout"`
	Exit   int               `json:"exit"`
	Files  map[string]string `json:"files"` // env var name -> content to write
}

func main() {
	sock := os.Getenv("VERIF_SOCK")
	if sock == "" {
		os.Stderr.WriteString("hookstub: VERIF_SOCK not set\n")
		os.Exit(97)
	}
	conn, err := net.Dial("unix", sock)
	if err != nil {
		os.Stderr.WriteString("hookstub: " + err.Error() + "\n")
		os.Exit(98)
	}
	defer conn.Close()
	h := Hello{Argv0: os.Args[0], Args: os.Args[1:], Env: map[string]string{}, Files: map[string]string{}, Pid: os.Getpid()}
	h.Cwd, _ = os.Getwd()
	for _, kv := range os.Environ() {
		i := strings.IndexByte(kv, '=')
		if i > 0 && strings.HasSuffix(kv[:i], "_PATH") {
			h.Env[kv[:i]] = kv[i+1:]
		}
	}
	if p := h.Env["BINDING_CONTEXT_PATH"]; p != "" {
		b, _ := os.ReadFile(p)
		h.Context = string(b)
		if ents, err := os.ReadDir(filepath.Dir(p)); err == nil {
			for _, e := range ents {
				h.TmpFiles = append(h.TmpFiles, e.Name())
			}
		}
	}
	for _, k := range []string{"METRICS_PATH", "KUBERNETES_PATCH_PATH", "ADMISSION_RESPONSE_PATH", "VALIDATING_RESPONSE_PATH", "CONVERSION_RESPONSE_PATH"} {
		if p := h.Env[k]; p != "" {
			b, err := os.ReadFile(p)
			if err != nil {
				h.Files[k] = "<unreadable: " + err.Error() + ">"
			} else {
				h.Files[k] = string(b)
			}
		}
	}
	enc := json.NewEncoder(conn)
	if err := enc.Encode(h); err != nil {
		os.Exit(99)
	}
	var r Reply
	if err := json.NewDecoder(bufio.NewReader(conn)).Decode(&r); err != nil {
		os.Exit(96)
	}
	for k, v := range r.Files {
		if p := os.Getenv(k); p != "" {
			os.WriteFile(p, []byte(v), 0o644)
		}
	}
	os.Stdout.WriteString(r.Stdout)
	if r.Exit < 0 {
		// a negative exit code means: die by that signal (the process has no exit status then)
		os.Stdout.Sync()
		syscall.Kill(os.Getpid(), syscall.Signal(-r.Exit))
		time.Sleep(5 * time.Second)
	}
	os.Exit(r.Exit)
}
