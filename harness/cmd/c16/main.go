// Command c16: correspondence driver for property C16 (built by ./check as .build/harness-C16).
package main

import (
	"os"

	"verifharness/internal/c16"
)

func main() { c16.Driver.Main("C16", os.Args[1:]) }
