// Command c05: correspondence driver for property C05 (built by ./check as .build/harness-C05).
package main

import (
	"os"

	"verifharness/internal/c05"
)

func main() { c05.Driver.Main("C05", os.Args[1:]) }
