package main

import (
	"context"
	"fmt"
	"time"

	"github.com/deckhouse/deckhouse/pkg/log"
	"github.com/flant/kube-client/fake"
	"github.com/flant/kube-client/manifest"
	objectpatch "github.com/flant/shell-operator/pkg/kube/object_patch"
	metav1 "k8s.io/apimachinery/pkg/apis/meta/v1"
)

func dump(c *fake.Cluster) {
	gvr, _ := c.Client.GroupVersionResource("v1", "ConfigMap")
	l, err := c.Client.Dynamic().Resource(gvr).Namespace("").List(context.TODO(), metav1.ListOptions{})
	if err != nil {
		fmt.Println("list err", err)
		return
	}
	for _, o := range l.Items {
		fmt.Printf("   %s/%s rv=%q data=%v labels=%v\n", o.GetNamespace(), o.GetName(), o.GetResourceVersion(), o.Object["data"], o.GetLabels())
	}
}

func try(name string, c *fake.Cluster, stream string) {
	defer func() {
		if r := recover(); r != nil {
			fmt.Printf("== %s: PANIC %v\n", name, r)
		}
	}()
	t0 := time.Now()
	ops, err := objectpatch.ParseOperations([]byte(stream))
	fmt.Printf("== %s: parse ops=%d err=%v\n", name, len(ops), err != nil)
	if err != nil {
		fmt.Println("   ", err)
		return
	}
	p := objectpatch.NewObjectPatcher(c.Client, log.NewNop())
	err = p.ExecuteOperations(ops)
	fmt.Printf("   exec err=%v (%v)\n", err, time.Since(t0))
	dump(c)
}

func main() {
	t0 := time.Now()
	c := fake.NewFakeCluster(fake.ClusterVersionV119)
	fmt.Println("new cluster", time.Since(t0))
	c.CreateNs("default")
	c.Create("default", manifest.MustFromYAML("apiVersion: v1\nkind: ConfigMap\nmetadata:\n  name: cm1\ndata:\n  foo: bar\n"))
	dump(c)
	try("create json", c, `{"operation":"Create","object":{"apiVersion":"v1","kind":"ConfigMap","metadata":{"name":"cm2","namespace":"default","labels":{"n":"1"}},"data":{"a":"1"}}}`)
	try("create existing", c, `{"operation":"Create","object":{"apiVersion":"v1","kind":"ConfigMap","metadata":{"name":"cm2","namespace":"default"},"data":{"a":"2"}}}`)
	try("createIfNotExists existing", c, `{"operation":"CreateIfNotExists","object":{"apiVersion":"v1","kind":"ConfigMap","metadata":{"name":"cm2","namespace":"default"},"data":{"a":"3"}}}`)
	try("createOrUpdate existing", c, `{"operation":"CreateOrUpdate","object":{"apiVersion":"v1","kind":"ConfigMap","metadata":{"name":"cm2","namespace":"default"},"data":{"a":"4"}}}`)
	try("create string obj", c, `{"operation":"Create","object":"apiVersion: v1\nkind: ConfigMap\nmetadata:\n  name: cm3\n  namespace: default\n  annotations:\n    n: \"5\"\ndata:\n  x: y\n"}`)
	try("merge", c, `{"operation":"MergePatch","kind":"ConfigMap","apiVersion":"v1","namespace":"default","name":"cm1","mergePatch":{"data":{"foo":null,"z":"1"}}}`)
	try("merge missing", c, `{"operation":"MergePatch","kind":"ConfigMap","apiVersion":"v1","namespace":"default","name":"nope","mergePatch":{"data":{"z":"1"}}}
{"operation":"MergePatch","kind":"ConfigMap","apiVersion":"v1","namespace":"default","name":"cm1","mergePatch":"{\"data\":{\"after\":\"err\"}}"}`)
	try("merge missing ignore", c, `{"operation":"MergePatch","kind":"ConfigMap","apiVersion":"v1","namespace":"default","name":"nope","ignoreMissingObject":true,"mergePatch":{"data":{"z":"1"}}}`)
	try("jsonpatch", c, `{"operation":"JSONPatch","kind":"ConfigMap","apiVersion":"v1","namespace":"default","name":"cm1","jsonPatch":[{"op":"add","path":"/data/q","value":"1"},{"op":"remove","path":"/data/z","value":null}]}`)
	try("jsonpatch bad", c, `{"operation":"JSONPatch","kind":"ConfigMap","apiVersion":"v1","namespace":"default","name":"cm1","jsonPatch":[{"op":"remove","path":"/data/nonexistent","value":null}]}`)
	try("jq", c, `{"operation":"JQPatch","kind":"ConfigMap","apiVersion":"v1","namespace":"default","name":"cm1","jqFilter":".data.j = \"k\""}`)
	try("jq missing", c, `{"operation":"JQPatch","kind":"ConfigMap","apiVersion":"v1","namespace":"default","name":"nope","jqFilter":".data.j = \"k\""}`)
	try("jq status subresource", c, `{"operation":"JQPatch","kind":"ConfigMap","apiVersion":"v1","namespace":"default","name":"cm1","subresource":"status","jqFilter":".data.s = \"t\""}`)
	try("merge subresource", c, `{"operation":"MergePatch","kind":"ConfigMap","apiVersion":"v1","namespace":"default","name":"cm1","subresource":"status","mergePatch":{"data":{"sub":"1"}}}`)
	try("delete bg", c, `{"operation":"DeleteInBackground","kind":"ConfigMap","apiVersion":"v1","namespace":"default","name":"cm2"}`)
	try("delete nc missing", c, `{"operation":"DeleteNonCascading","kind":"ConfigMap","apiVersion":"v1","namespace":"default","name":"cm2"}`)
	try("delete fg", c, `{"operation":"Delete","kind":"ConfigMap","apiVersion":"v1","namespace":"default","name":"cm3"}`)
	try("unknown kind", c, `{"operation":"DeleteInBackground","kind":"Nope","apiVersion":"v1","namespace":"default","name":"cm3"}`)
	try("no namespace create", c, `{"operation":"Create","object":{"apiVersion":"v1","kind":"ConfigMap","metadata":{"name":"cm9"},"data":{"a":"1"}}}`)
	try("yaml create int", c, "operation: Create\nobject:\n  apiVersion: v1\n  kind: ConfigMap\n  metadata:\n    name: cmy\n    namespace: default\n    labels:\n      a: b\n  data:\n    a: \"1\"\n  immutable: false\n  x: 5\n")
	try("yaml createOrUpdate no int", c, "operation: CreateOrUpdate\nobject:\n  apiVersion: v1\n  kind: ConfigMap\n  metadata:\n    name: cm1\n    namespace: default\n  data:\n    a: \"1\"\n")
	try("invalid second", c, `{"operation":"Create","object":{"apiVersion":"v1","kind":"ConfigMap","metadata":{"name":"cm7","namespace":"default"}}}
{"operation":"Bogus"}`)
}
