// Command c13: correspondence driver for property C13 (built by ./check as .build/harness-C13).
package main

import (
	"os"

	"verifharness/internal/c13"
)

func main() { c13.Driver.Main("C13", os.Args[1:]) }
