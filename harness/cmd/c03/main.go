// Command c03: correspondence driver for property C03.
package main

import (
	"os"

	"verifharness/internal/c03"
)

func main() { c03.Driver.Main("C03", os.Args[1:]) }
