// Command c12: correspondence driver for property C12.
package main

import (
	"os"

	"verifharness/internal/c12"
)

func main() { c12.Driver.Main("C12", os.Args[1:]) }
