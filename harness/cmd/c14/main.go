// Command c14: correspondence driver for property C14 (built by ./check as .build/harness-C14).
package main

import (
	"os"

	"verifharness/internal/c14"
)

func main() { c14.Driver.Main("C14", os.Args[1:]) }
