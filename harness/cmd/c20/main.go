// Command c20: correspondence driver for property C20 (built by ./check as .build/harness-C20).
package main

import (
	"os"

	"verifharness/internal/c20"
)

func main() { c20.Driver.Main("C20", os.Args[1:]) }
