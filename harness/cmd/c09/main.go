// Command c09: correspondence driver for property C09 (built by ./check as .build/harness-C09).
package main

import (
	"os"

	"verifharness/internal/c09"
)

func main() { c09.Driver.Main("C09", os.Args[1:]) }
