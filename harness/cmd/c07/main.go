// Command c07: correspondence driver for property C07 (built by ./check as .build/harness-C07).
package main

import (
	"os"

	"verifharness/internal/c07"
)

func main() {
	child := false
	for i, a := range os.Args[1:] {
		if a == "-child" || a == "--child" {
			child = true
		}
		// the large tiers: fewer, larger case files (every coqc start costs ~0.4 s)
		if (a == "-tier" || a == "--tier") && i+2 < len(os.Args) && os.Args[i+2] != "quick" {
			c07.Driver.PerShard = 1000
		}
	}
	if !child {
		// the operator rigs of the child processes (class "op") live here; removed when the run is over
		if root, err := os.MkdirTemp("", "c07-rigs-"); err == nil {
			os.Setenv(c07.RigRootEnv, root)
			defer os.RemoveAll(root)
		}
	}
	c07.Driver.Main("C07", os.Args[1:])
}
