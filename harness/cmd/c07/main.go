// Command c07: correspondence driver for property C07 (built by ./check as .build/harness-C07).
package main

import (
	"os"

	"verifharness/internal/c07"
)

func main() { c07.Driver.Main("C07", os.Args[1:]) }
