// Command skeleton: prints, for the functions the concurrency models rest on, the ordered
// list of lock operations, verifpoint marks, channel sends and accesses to the modelled
// fields, as found in the source of the repository's working tree.  The atomic steps of the
// LTS models (C01_Model, C01_Monitor, Op_Model's worker loop) were written from this text; the
// check compares it with coq/skeleton/<property>.expected on every run: a difference means
// that the atomicity the theorems assume is no longer what the code does.
package main

import (
	"fmt"
	"go/ast"
	"go/parser"
	"go/token"
	"os"
	"path/filepath"
	"sort"
	"strings"
)

type target struct {
	file  string
	funcs []string // "Recv.Name" or "Name"
}

var fields = map[string]bool{"eventBuf": true, "eventCbEnabled": true, "cachedObjects": true, "eventsEnabled": true,
	"items": true, "VaryingInformers": true, "ResourceInformers": true}

var sets = map[string][]target{
	// what Shutdown() has to get through before it reaches the queues, and who else takes those locks
	"C17": {
		{"pkg/shell-operator/operator.go", []string{"ShellOperator.Shutdown"}},
		{"pkg/kube_events_manager/kube_events_manager.go", []string{"kubeEventsManager.AddMonitor", "kubeEventsManager.HasMonitor", "kubeEventsManager.GetMonitor", "kubeEventsManager.StartMonitor", "kubeEventsManager.StopMonitor", "kubeEventsManager.PauseHandleEvents"}},
		{"pkg/schedule_manager/schedule_manager.go", []string{"scheduleManager.Stop"}},
	},
	"C01": {
		{"pkg/kube_events_manager/resource_informer.go", []string{"resourceInformer.handleWatchEvent", "resourceInformer.getCachedObjects", "resourceInformer.enableKubeEventCb", "resourceInformer.loadExistedObjects"}},
		{"pkg/kube_events_manager/monitor.go", []string{"monitor.EnableKubeEventCb", "monitor.CreateInformers", "monitor.Snapshot"}},
	},
	"C03": {
		{"pkg/task/queue/task_queue.go", []string{"TaskQueue.Start", "TaskQueue.waitForTask", "TaskQueue.withLock", "TaskQueue.AddLast", "TaskQueue.Filter", "TaskQueue.Iterate"}},
		{"pkg/task/queue/queue_set.go", []string{"TaskQueueSet.DoWithLock", "TaskQueueSet.Stop", "TaskQueueSet.Iterate", "TaskQueueSet.GetByName", "TaskQueueSet.GetMain", "TaskQueueSet.Add", "TaskQueueSet.NewNamedQueue"}},
		{"pkg/shell-operator/manager_events_handler.go", []string{"ManagerEventsHandler.Start"}},
	},
}

func recvName(fd *ast.FuncDecl) string {
	if fd.Recv == nil || len(fd.Recv.List) == 0 {
		return fd.Name.Name
	}
	t := fd.Recv.List[0].Type
	if s, ok := t.(*ast.StarExpr); ok {
		t = s.X
	}
	if id, ok := t.(*ast.Ident); ok {
		return id.Name + "." + fd.Name.Name
	}
	return fd.Name.Name
}

func selPath(e ast.Expr) string {
	switch x := e.(type) {
	case *ast.Ident:
		return x.Name
	case *ast.SelectorExpr:
		return selPath(x.X) + "." + x.Sel.Name
	case *ast.CallExpr:
		return selPath(x.Fun) + "()"
	case *ast.IndexExpr:
		return selPath(x.X) + "[]"
	case *ast.StarExpr:
		return selPath(x.X)
	case *ast.UnaryExpr:
		return selPath(x.X)
	}
	return "?"
}

func walkFunc(fd *ast.FuncDecl, out *[]string) {
	written := map[ast.Node]bool{}
	ast.Inspect(fd.Body, func(n ast.Node) bool {
		switch x := n.(type) {
		case *ast.AssignStmt:
			for _, l := range x.Lhs {
				if se, ok := l.(*ast.SelectorExpr); ok && fields[se.Sel.Name] {
					*out = append(*out, "  write "+se.Sel.Name)
					written[se] = true
				}
				if ie, ok := l.(*ast.IndexExpr); ok {
					if se, ok := ie.X.(*ast.SelectorExpr); ok && fields[se.Sel.Name] {
						*out = append(*out, "  write "+se.Sel.Name+"[]")
						written[se] = true
					}
				}
			}
		case *ast.DeferStmt:
			*out = append(*out, "  defer "+selPath(x.Call.Fun))
			return false
		case *ast.GoStmt:
			*out = append(*out, "  go")
		case *ast.SendStmt:
			*out = append(*out, "  send "+selPath(x.Chan))
		case *ast.CallExpr:
			p := selPath(x.Fun)
			last := p
			if i := strings.LastIndex(p, "."); i >= 0 {
				last = p[i+1:]
			}
			switch last {
			case "Lock", "Unlock", "RLock", "RUnlock":
				*out = append(*out, "  "+p)
			case "Hit":
				if len(x.Args) == 1 {
					if bl, ok := x.Args[0].(*ast.BasicLit); ok {
						*out = append(*out, "  mark "+bl.Value)
					}
				}
			case "putEvent", "enableKubeEventCb", "getCachedObjects", "Store", "RangeValue", "Range", "start", "Handler",
				"waitForTask", "addAfter", "remove", "addFirst", "addLast", "withLock", "withRLock", "Done", "cancel", "AddLast", "DoWithLock", "GetMain", "GetByName",
				"CreateInformers", "PauseHandleEvents", "Stop", "WaitStopWithTimeout", "NewMonitor":
				*out = append(*out, "  call "+last)
			}
		case *ast.SelectorExpr:
			if fields[x.Sel.Name] && !written[x] {
				*out = append(*out, "  read "+x.Sel.Name)
			}
		}
		return true
	})
}

func main() {
	if len(os.Args) < 3 {
		fmt.Fprintln(os.Stderr, "usage: skeleton <repo> <set>")
		os.Exit(2)
	}
	repo, set := os.Args[1], os.Args[2]
	ts, ok := sets[set]
	if !ok {
		fmt.Fprintln(os.Stderr, "unknown set", set)
		os.Exit(2)
	}
	for _, t := range ts {
		fset := token.NewFileSet()
		f, err := parser.ParseFile(fset, filepath.Join(repo, t.file), nil, 0)
		if err != nil {
			fmt.Println("PARSE ERROR", t.file, err)
			continue
		}
		want := map[string]bool{}
		for _, n := range t.funcs {
			want[n] = true
		}
		var names []string
		decls := map[string]*ast.FuncDecl{}
		for _, d := range f.Decls {
			if fd, ok := d.(*ast.FuncDecl); ok && fd.Body != nil && want[recvName(fd)] {
				decls[recvName(fd)] = fd
				names = append(names, recvName(fd))
			}
		}
		sort.Strings(names)
		for _, n := range names {
			fmt.Printf("%s %s\n", t.file, n)
			var out []string
			walkFunc(decls[n], &out)
			for _, l := range out {
				fmt.Println(l)
			}
		}
		for _, n := range t.funcs {
			if decls[n] == nil {
				fmt.Printf("%s %s MISSING\n", t.file, n)
			}
		}
	}
}
