// Command c06: correspondence driver for property C06.
package main

import (
	"os"

	"verifharness/internal/c06"
)

func main() { c06.Driver.Main("C06", os.Args[1:]) }
