// Command c01: correspondence driver for property C01.
package main

import (
	"os"

	"verifharness/internal/c01"
)

func main() { c01.Driver.Main("C01", os.Args[1:]) }
