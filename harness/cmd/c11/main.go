// Command c11: correspondence driver for property C11 (built by ./check as .build/harness-C11).
package main

import (
	"os"

	"verifharness/internal/c11"
)

func main() { c11.Driver.Main("C11", os.Args[1:]) }
