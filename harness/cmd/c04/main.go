// Command c04: correspondence driver for property C04.
package main

import (
	"os"

	"verifharness/internal/c04"
)

func main() { c04.Driver.Main("C04", os.Args[1:]) }
