// Command c02: correspondence driver for property C02.
package main

import (
	"os"

	"verifharness/internal/c02"
)

func main() { c02.Driver.Main("C02", os.Args[1:]) }
