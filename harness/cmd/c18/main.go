// Command c18: correspondence driver for property C18 (built by ./check as .build/harness-C18).
package main

import (
	"os"

	"verifharness/internal/c18"
)

func main() { c18.Driver.Main("C18", os.Args[1:]) }
