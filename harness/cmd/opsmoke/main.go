// Command opsmoke: run one fixed operator scenario and print the observation (development aid).
package main

import (
	"encoding/json"
	"fmt"
	"os"

	"verifharness/internal/opsim"
)

func main() {
	one := 1
	in := opsim.Input{
		Cfg: []opsim.Hook{
			{Id: 1, Startup: &one, Kube: []opsim.KB{{Name: 1, Queue: 0, ExecSync: true}, {Name: 2, Queue: 2, Group: 1, ExecSync: true}}, Sched: []opsim.SB{{Name: 3, Queue: 3, Cron: 1}}},
			{Id: 2, Sched: []opsim.SB{{Name: 4, Queue: 3, Cron: 1}}},
		},
		Acts: []opsim.Action{{Kind: "Boot"}, {Kind: "Finish", Q: 0, Ok: false}, {Kind: "Finish", Q: 0, Ok: true}, {Kind: "Finish", Q: 0, Ok: true}, {Kind: "Finish", Q: 0, Ok: true},
			{Kind: "Tick", C: 1}, {Kind: "KubeEv", Mon: 2, Obj: 7}, {Kind: "KubeEv", Mon: 2, Obj: 8}, {Kind: "Finish", Q: 3, Ok: true}, {Kind: "Finish", Q: 2, Ok: true}, {Kind: "Stop"}, {Kind: "Tick", C: 1}, {Kind: "Finish", Q: 3, Ok: true}},
	}
	if len(os.Args) > 1 {
		b, _ := os.ReadFile(os.Args[1])
		in = opsim.Input{}
		json.Unmarshal(b, &in)
	}
	obs := opsim.Run(in)
	for i, st := range obs.Steps {
		b, _ := json.Marshal(st)
		fmt.Printf("%d %v\n   %s\n", i, in.Acts[i], b)
	}
	if obs.InitErr != "" {
		fmt.Println("init error:", obs.InitErr)
	}
}
