// Command c15: correspondence driver for property C15 (built by ./check as .build/harness-C15).
package main

import (
	"os"

	"verifharness/internal/c15"
)

func main() { c15.Driver.Main("C15", os.Args[1:]) }
