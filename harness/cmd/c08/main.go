// Command c08: correspondence driver for property C08 (built by ./check as .build/harness-C08).
package main

import (
	"os"

	"verifharness/internal/c08"
)

func main() { c08.Driver.Main("C08", os.Args[1:]) }
