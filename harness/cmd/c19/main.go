// Command c19: correspondence driver for property C19 (built by ./check as .build/harness-C19).
package main

import (
	"os"

	"verifharness/internal/c19"
)

func main() { c19.Driver.Main("C19", os.Args[1:]) }
