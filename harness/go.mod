// Placeholder that marks the module root. The real module file is generated on every
// run by gomod.sh from /repo/go.mod and passed with -modfile (see ../check).
module verifharness

go 1.23.8
