#!/bin/bash
# usage: seed_confirm.sh Cnn [wave]  — confirm an independently written breaking change found in /tmp/wt<wave>-Cnn + /tmp/out<wave>-Cnn:
# builds, unchanged suite passes with it, demonstration fails with it and passes without it; then copies it to /verif/seeded/Cnn[-wave]/.
id=$1; wave=${2:-}; wt=/tmp/wt$wave-$id; out=/tmp/out$wave-$id; dest=$id; [ -n "$wave" ] && dest=$id-$wave
export GOFLAGS=-mod=mod GOPROXY=off
cd $wt || exit 2
demos=$(git status --porcelain | grep '^??' | awk '{print $2}')
log=/tmp/seed-$id.log; : > $log
echo "demo files: $demos" >> $log
# the patch as delivered must be what is applied
git diff > /tmp/seed-$id.cur.diff
if ! diff -q <(grep -v '^index ' /tmp/seed-$id.cur.diff) <(grep -v '^index ' $out/patch.diff) >/dev/null; then echo "NOTE: worktree diff differs from patch.diff (using worktree diff)" >> $log; fi
cp /tmp/seed-$id.cur.diff /tmp/seed-$id.patch
# 1. build + unchanged suite with the change (demo moved away)
mkdir -p /tmp/seed-$id.demo; for f in $demos; do mkdir -p /tmp/seed-$id.demo/$(dirname $f); mv $f /tmp/seed-$id.demo/$f; done
go build ./... >> $log 2>&1 && echo "BUILD ok" >> $log || { echo "BUILD FAILED" >> $log; }
go test -count=1 ./... > /tmp/seed-$id.suite 2>&1; if grep -q "^FAIL\|^--- FAIL" /tmp/seed-$id.suite; then echo "SUITE FAILS with change" >> $log; grep "^FAIL\|^--- FAIL" /tmp/seed-$id.suite | head -5 >> $log; else echo "SUITE ok with change" >> $log; fi
# 2. demo with the change
for f in $demos; do mv /tmp/seed-$id.demo/$f $f; done
pkgs=$(for f in $demos; do case $f in *_test.go) echo ./$(dirname $f)/;; esac; done | sort -u)
if [ -n "$pkgs" ]; then
  go test -count=1 $pkgs > /tmp/seed-$id.demo1 2>&1; if grep -q "^FAIL\|^--- FAIL" /tmp/seed-$id.demo1; then echo "DEMO fails with change (expected)" >> $log; else echo "DEMO DOES NOT FAIL with change" >> $log; fi
  git stash -q; go test -count=1 $pkgs > /tmp/seed-$id.demo2 2>&1; if grep -q "^FAIL\|^--- FAIL" /tmp/seed-$id.demo2; then echo "DEMO FAILS WITHOUT change" >> $log; grep "^--- FAIL" /tmp/seed-$id.demo2 | head -3 >> $log; else echo "DEMO passes without change (expected)" >> $log; fi
  git stash pop -q
else
  echo "demo is not a go test: see README (not auto-run)" >> $log
fi
mkdir -p /verif/seeded/$dest/demo
cp /tmp/seed-$id.patch /verif/seeded/$dest/patch.diff
for f in $demos; do mkdir -p /verif/seeded/$dest/demo/$(dirname $f); cp -r $f /verif/seeded/$dest/demo/$f; done
cp $out/README.md /verif/seeded/$dest/README.md 2>/dev/null
cat $log
