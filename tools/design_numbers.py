#!/usr/bin/env python3
# rewrites the table between <!-- NUMBERS-BEGIN --> and <!-- NUMBERS-END --> in DESIGN.md from evidence/*.json
import json, glob, re
rows = ["| property | theorems (all closed) | cases in the last quick run | distinct non-trivial | open findings shown |", "|---|---|---|---|---|"]
tot = 0
for f in sorted(glob.glob('/verif/evidence/C*.json')):
    d = json.load(open(f)); c = d['coverage']
    tot += c['obligations']
    rows.append(f"| {d['property_id']} | {c['discharged']}/{c['obligations']} | {c['evaluations']} ({d['tier']}) | {c['distinct_nontrivial']} | {', '.join(sorted(c.get('trigger_cases', {}).keys())) or '-'} |")
rows.append(f"| total | {tot} | | | |")
s = open('/verif/DESIGN.md').read()
s = re.sub(r'<!-- NUMBERS-BEGIN -->.*?<!-- NUMBERS-END -->', '<!-- NUMBERS-BEGIN -->\n' + "\n".join(rows) + '\n<!-- NUMBERS-END -->', s, flags=re.S)
open('/verif/DESIGN.md', 'w').write(s)
print(tot, "theorems")
