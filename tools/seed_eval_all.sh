#!/bin/bash
# evaluates every seeded change the official way (patch applied to /repo, ./check of its property, patch undone)
cd /verif
out=seeded/last_eval.txt; : > $out
for d in seeded/C*/; do
  s=$(basename $d)
  if ! git -C /repo apply --check /verif/$d/patch.diff 2>/dev/null; then echo "$s does-not-apply" >> $out; continue; fi
  tools/seed_eval.sh $s 2>&1 | grep "^$s" >> $out
done
git -C /repo status --short >> $out
echo DONE >> $out
