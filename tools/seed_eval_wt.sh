#!/bin/bash
# like seed_eval.sh but against the scratch worktree /tmp/wt-<seed> (patch already applied there), leaving /repo alone
seed=$1; shift; props=${@:-${seed%%-*}}; wt=/tmp/wt-$seed; case $seed in *-2) wt=/tmp/wt2-${seed%%-*};; *-3) wt=/tmp/wt3-${seed%%-*};; *-4) wt=/tmp/wt4-${seed%%-*};; *-5) wt=/tmp/ev5-${seed%%-*};; *-6) wt=/tmp/ev6-${seed%%-*};; *-7) wt=/tmp/ev7-${seed%%-*};; *-8) wt=/tmp/ev8-${seed%%-*};; *-9) wt=/tmp/ev9-${seed%%-*};; *-10) wt=/tmp/ev10-${seed%%-*};; esac
cd /verif
for p in $props; do
  out=$(VERIF_BUILD=/tmp/vb-$seed VERIF_EVIDENCE=/tmp/vb-$seed/evidence VERIF_REPO=$wt ./check $p --no-coqchk 2>&1); rc=$?
  v=$(echo "$out" | grep '^VIOLATION' | head -1)
  if [ $rc -eq 0 ]; then r=MISSED; elif echo "$v" | grep -q no-failing-input-found; then r=nfif; else r=caught; fi
  echo "$seed $p rc=$rc $r $v" | cut -c1-300
done
rm -rf /tmp/vb-$seed
