#!/bin/bash
# evaluates every seeded change in a scratch worktree of its own (patch applied there, /repo untouched), N at a time:
# usage: [ONLY=regex] [SKIP=regex] [OUT=suffix] seed_eval_par.sh [N] ; writes seeded/last_eval.txt (one line per change: id property rc verdict VIOLATION-line)
N=${1:-3}
cd /verif
one() {
  s=$1; p=${s%%-*}; wt=/tmp/evA-$s
  git -C /repo worktree remove --force $wt >/dev/null 2>&1; rm -rf $wt
  git -C /repo worktree add --detach $wt HEAD >/dev/null 2>&1 || { echo "$s cannot-create-worktree"; return; }
  if ! git -C $wt apply /verif/seeded/$s/patch.diff 2>/dev/null; then echo "$s does-not-apply"; git -C /repo worktree remove --force $wt >/dev/null 2>&1; return; fi
  out=$(VERIF_BUILD=/tmp/vbA-$s VERIF_EVIDENCE=/tmp/vbA-$s/evidence VERIF_REPO=$wt ./check $p --no-coqchk 2>&1); rc=$?
  v=$(echo "$out" | grep '^VIOLATION' | head -1)
  if [ $rc -eq 0 ]; then r=MISSED; elif [ $rc -eq 2 ]; then r=CHECK-ERROR; elif echo "$v" | grep -q no-failing-input-found; then r=nfif; else r=caught; fi
  echo "$s $p rc=$rc $r $v" | cut -c1-300
  git -C /repo worktree remove --force $wt >/dev/null 2>&1; rm -rf /tmp/vbA-$s
}
export -f one
ls -d seeded/C*/ | xargs -n1 basename | grep -E "${ONLY:-.}" | grep -vE "${SKIP:-^\$}" | xargs -P $N -I{} bash -c 'one {}' > seeded/last_eval${OUT:-}.tmp
sort seeded/last_eval${OUT:-}.tmp > seeded/last_eval${OUT:-}.txt; rm -f seeded/last_eval${OUT:-}.tmp
echo DONE >> seeded/last_eval${OUT:-}.txt
