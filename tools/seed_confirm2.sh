#!/bin/bash
# usage: seed_confirm2.sh Cnn wave — confirm an independently written breaking change delivered in /tmp/out<wave>-Cnn
# (patch.diff, demo/, README.md) in a scratch worktree of our own, /tmp/ev<wave>-Cnn (no git stash: the stash is
# shared by all worktrees of a repository): builds, the unchanged suite passes with it, the demonstration fails with
# it and passes without it; then copies it to /verif/seeded/Cnn-<wave>/.  The worktree is kept for seed_eval_wt.sh.
id=$1; wave=$2; out=/tmp/out$wave-$id; agentwt=/tmp/wt$wave-$id; wt=/tmp/ev$wave-$id; dest=$id-$wave
export GOFLAGS=-mod=mod GOPROXY=off
log=/tmp/seed-$dest.log; : > $log
git -C /repo worktree remove --force $wt >/dev/null 2>&1; rm -rf $wt
git -C /repo worktree add --detach $wt HEAD >/dev/null 2>&1 || { echo "cannot create $wt" >> $log; cat $log; exit 2; }
cd $wt
git apply $out/patch.diff >> $log 2>&1 || { echo "PATCH DOES NOT APPLY" >> $log; cat $log; exit 2; }
# where do the demo files go?
demos=""
for f in $(cd $out/demo 2>/dev/null && find . -type f | sed 's|^\./||'); do
  b=$(basename $f); rel=""
  case $f in */*) rel=$f;; esac
  [ -z "$rel" ] && rel=$(cd $agentwt 2>/dev/null && git status --porcelain | grep '^??' | awk '{print $2}' | grep "/$b\$" | head -1)
  [ -z "$rel" ] && rel=$(grep -o "[A-Za-z0-9_./-]*/$b" $out/README.md | grep -v '^/' | grep -v '^demo/' | head -1)
  [ -z "$rel" ] && { echo "cannot place demo file $f" >> $log; continue; }
  mkdir -p /tmp/seed-$dest.demo/$(dirname $rel); cp $out/demo/$f /tmp/seed-$dest.demo/$rel; demos="$demos $rel"
done
echo "demo files:$demos" >> $log
go build ./... >> $log 2>&1 && echo "BUILD ok" >> $log || echo "BUILD FAILED" >> $log
go test -count=1 ./... > /tmp/seed-$dest.suite 2>&1; if grep -q "^FAIL\|^--- FAIL" /tmp/seed-$dest.suite; then echo "SUITE FAILS with change" >> $log; grep "^FAIL\|^--- FAIL" /tmp/seed-$dest.suite | head -5 >> $log; else echo "SUITE ok with change" >> $log; fi
for f in $demos; do mkdir -p $(dirname $f); cp /tmp/seed-$dest.demo/$f $f; done
pkgs=$(for f in $demos; do case $f in *_test.go) echo ./$(dirname $f)/;; esac; done | sort -u)
if [ -n "$pkgs" ]; then
  go test -count=1 $pkgs > /tmp/seed-$dest.demo1 2>&1; if grep -q "^FAIL\|^--- FAIL" /tmp/seed-$dest.demo1; then echo "DEMO fails with change (expected)" >> $log; else echo "DEMO DOES NOT FAIL with change" >> $log; fi
  git apply -R $out/patch.diff
  go test -count=1 $pkgs > /tmp/seed-$dest.demo2 2>&1; if grep -q "^FAIL\|^--- FAIL" /tmp/seed-$dest.demo2; then echo "DEMO FAILS WITHOUT change" >> $log; grep "^--- FAIL" /tmp/seed-$dest.demo2 | head -3 >> $log; else echo "DEMO passes without change (expected)" >> $log; fi
  git apply $out/patch.diff
else
  echo "demo is not a go test: see README (not auto-run)" >> $log
fi
mkdir -p /verif/seeded/$dest; rm -rf /verif/seeded/$dest/demo /verif/seeded/$dest/patch.diff; mkdir -p /verif/seeded/$dest/demo
git diff > /verif/seeded/$dest/patch.diff
for f in $demos; do mkdir -p /verif/seeded/$dest/demo/$(dirname $f); cp $f /verif/seeded/$dest/demo/$f; done
cp $out/README.md /verif/seeded/$dest/README.md 2>/dev/null
cat $log
