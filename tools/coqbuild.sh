#!/bin/sh
# usage: coqbuild.sh Target1 Target2 ... (module names without path/extension); builds them and their dependencies
cd /verif/coq
{ echo "-Q theories Verif"; ls theories/*.v | sort; } > _CoqProject.tmp
cmp -s _CoqProject.tmp _CoqProject || cp _CoqProject.tmp _CoqProject; rm -f _CoqProject.tmp
[ -f Makefile ] && [ Makefile -nt _CoqProject ] || coq_makefile -f _CoqProject -o Makefile >/dev/null
t=""; for m in "$@"; do t="$t theories/$m.vo"; done
timeout 1200 make -j8 $t 2>&1 | grep -v "^COQDEP\|^COQC\|^make" | head -${LINES_MAX:-40}
