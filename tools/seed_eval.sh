#!/bin/bash
# usage: seed_eval.sh <seed-id> [property ...]   — apply seeded/<seed-id>/patch.diff to /repo, run the quick
# checks of the named properties (default: the property the seed breaks), undo the patch straight afterwards.
# Prints one line per check: "<seed> <prop> caught|MISSED|nfif <first VIOLATION line>".
set -u
seed=$1; shift
props=${@:-${seed%%-*}}
cd /verif
if ! git -C /repo diff --quiet; then echo "/repo is dirty, refusing"; exit 2; fi
git -C /repo apply /verif/seeded/$seed/patch.diff || exit 2
trap 'git -C /repo checkout -- .' EXIT
for p in $props; do
  out=$(./check $p --no-coqchk 2>&1); rc=$?
  v=$(echo "$out" | grep '^VIOLATION' | head -1)
  if [ $rc -eq 0 ]; then r=MISSED; elif echo "$v" | grep -q no-failing-input-found; then r=nfif; else r=caught; fi
  echo "$seed $p rc=$rc $r $v" | cut -c1-300
  rp=$(echo "$v" | sed -n 's/.*replay=\([^ ]*\).*/\1/p')
  [ -n "$rp" ] && [ -f "$rp" ] && { mkdir -p /tmp/seed-replays; cp "$rp" /tmp/seed-replays/$seed-$p.replay; }
done
