#!/bin/sh
# usage: opdiff.sh RUNDIR SHARD INDEX — print first differing step of case INDEX in a shard (Op-based properties)
d=$1; sh=$2; k=$3
cd "$d" && (sed '/^Definition mism/,$d' "$sh.v"; echo "Eval vm_compute in Op_Corr.first_diff (nth $k cases ([],[],[])).") > dbg.v && coqc -Q /verif/coq/theories Verif dbg.v | python3 -c "
import sys,re
t=sys.stdin.read()
t=re.sub(r'\s+',' ',t)
t=t.replace('{| t_type','\n      {| t_type').replace('{| qo_name','\n   {| qo_name').replace('so_execs','\n  so_execs').replace('so_unlocked','\n  so_unlocked').replace('Some {| so_queues','\n Some {| so_queues')
print(t)"
