#!/bin/sh
# usage: goal.sh theories/File.v LINE  — prints the proof state after LINE (scratch, not part of the checks)
f=$1; n=$2
tmp=$(mktemp -d)
head -n "$n" "$f" > "$tmp/G.v"
printf '\nShow.\nAbort All.\n' >> "$tmp/G.v"
(cd /verif/coq && coqc -Q theories Verif "$tmp/G.v" 2>&1 | tail -n ${3:-40})
rm -rf "$tmp"
