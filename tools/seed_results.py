#!/usr/bin/env python3
# writes seeded/RESULTS.md from seeded/results.json and the meta.json files
import json, os
R = json.load(open('/verif/seeded/results.json'))
out = ["# Seeded breaking changes and what the checks say about them", "",
       "Each change was written by a fresh sub-agent that saw only the property text and a scratch worktree of /repo",
       "(nothing from /verif), compiles, passes the unchanged test suite, and comes with a demonstration that fails with",
       "it and passes without it - all confirmed here (`tools/seed_confirm.sh`, from wave 5 on `tools/seed_confirm2.sh` in a worktree of our own). Evaluate one with",
       "`tools/seed_eval.sh <id>` (applies the patch to /repo, runs `./check`, undoes it); `tools/seed_eval_par.sh` evaluates all of them, each in a scratch worktree of its own (`seeded/last_eval.txt`).", "",
       "| seed | property | what it needs to manifest | first run of the check | now | what was strengthened |", "|---|---|---|---|---|---|"]
for k in sorted(R):
    m = json.load(open(f'/verif/seeded/{k}/meta.json')) if os.path.exists(f'/verif/seeded/{k}/meta.json') else {}
    r = R[k]
    out.append(f"| {k} | {m.get('breaks_property', k[:3])} | {m.get('needs_to_manifest','')} | {r['first']} | {r['now']} | {r['strengthened']} |")
first_missed = [k for k in R if R[k]['first'].startswith('MISSED')]
nfif = [k for k in R if R[k]['first'].startswith('no-failing')]
now_missed = [k for k in R if R[k]["now"].startswith("MISSED") or R[k]["now"].startswith("pending")]
import re
cross = [k for k in R if re.search(r'caught by (the )?C\d\d', R[k]['now']) and not R[k]['now'].startswith('caught (')]
out += ["", f"First run: {len(R)-len(first_missed)-len(nfif)} of {len(R)} reported with a failing input, {len(nfif)} as no-failing-input-found, {len(first_missed)} missed ({', '.join(sorted(first_missed))}).",
        f"Now: not caught by any check: {', '.join(sorted(now_missed)) or 'none'}; caught with a failing input only by the check of ANOTHER property: {', '.join(sorted(cross)) or 'none'}."]
open('/verif/seeded/RESULTS.md', 'w').write("\n".join(out) + "\n")
print("\n".join(out[-2:]))
