#!/bin/sh
# Run once after a fresh restore, offline: builds the Coq development (full .vo) and
# the Go harness (warms the Go build cache).
set -e
cd "$(dirname "$0")"
export GOFLAGS=-mod=mod GOPROXY=off
unset GOSUMDB GOTOOLCHAIN || true
mkdir -p .build evidence replays
( cd coq && coq_makefile -f _CoqProject -o Makefile >/dev/null && timeout 3000 make -j16 )
sh harness/gomod.sh
( cd harness && timeout 3000 go build -tags verif -o ../.build/harness . )
echo "setup ok"
