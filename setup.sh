#!/bin/sh
# Run once after a fresh restore, offline: builds the Coq development (full .vo) and
# the Go harness (warms the Go build cache).
set -e
cd "$(dirname "$0")"
export GOFLAGS=-mod=mod GOPROXY=off
unset GOSUMDB GOTOOLCHAIN || true
mkdir -p .build evidence replays
( cd coq && { echo "-Q theories Verif"; ls theories/*.v | sort; } > _CoqProject && coq_makefile -f _CoqProject -o Makefile >/dev/null && { timeout 3000 make -k -j16 || echo 'WARNING: some Coq files did not build (each ./check reports its own property)'; } )
( cd harness && for d in cmd/c[0-9]*/; do p=$(basename "$d" | tr a-z A-Z); sh ./gomod.sh "../.build/mod-$p"; timeout 3000 go build -modfile="../.build/mod-$p/go.mod" -tags verif -o "../.build/harness-$p" "./$d" || echo "WARNING: harness $p did not build"; done )
( cd harness && go build -modfile="../.build/mod-C05/go.mod" -o ../.build/hookstub ./cmd/hookstub )
echo "setup ok"
