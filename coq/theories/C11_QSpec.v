(* C11_QSpec.v — the clause of C11 about WHERE the tasks of a firing are, as a decidable
   predicate over the observed CONTENTS of the queues; written from the property text.  It
   mentions the data types of C11_Model / C11_Hm / C11_QModel (binding, stask, op, queues, qobs)
   and the expected tasks of a firing as C11_HmSpec states them ([expected_from]: one task per
   binding with that crontab of every hook enabled at that moment, carrying that binding's
   queue, name, group, allowFailure, snapshot list) - none of the model's functions.

   Text: "Each firing of a crontab produces exactly one task for every enabled schedule binding
   with that crontab - carrying that binding's name, group, allowFailure and snapshot list,
   PLACED IN THAT BINDING'S QUEUE - and none for other bindings."  Over "all sets of hooks
   sharing or not sharing crontabs and queues".

   "Placed in that binding's queue" is a statement about the queues, not about the name a task
   carries: after a firing of crontab c, while the hooks [en] are enabled,
     - every queue q holds what it held before followed by the tasks of the bindings with crontab
       c of the enabled hooks WHOSE QUEUE IS q (one each), and nothing else: in particular the
       task of a binding is in no other queue, a queue none of those bindings names is unchanged;
     - every such binding's queue exists (or its task would be nowhere);
     - firings handled one after the other leave their tasks in that order: what a later firing
       adds comes after what an earlier one added.
   Within one firing the order of the tasks in a queue is not prescribed (a permutation of the
   expected ones is accepted).  Queues are not running here: nothing is taken out.

   Judged: operations whose firings are handled one at a time in an order the operations
   determine (OFire, OTick, OTickAll; a consumer that is never behind).  From the first OStart
   (jobs started together while nobody receives: which of them the consumer gets first is the
   Go runtime's choice) or OStop (nothing is said about firings during shutdown) on, the
   contents are not judged any more - what C11_HmSpec.T_from says about the tasks as a multiset
   stays. *)
From Verif Require Import Common C11_Model C11_Spec C11_Hm C11_HmSpec C11_StartSpec C11_QModel.

(* the tasks among [ts] that belong in queue q *)
Definition in_queue (q : N) (ts : list stask) : list stask := filter (fun t => N.eqb q (st_queue t)) ts.

(* [d] is, segment by segment, a permutation of the lists [es] *)
Fixpoint segs_ok (d : list stask) (es : list (list stask)) : bool :=
  match es with
  | [] => is_nil d
  | e :: r => is_tperm (firstn (length e) d) e && segs_ok (skipn (length e) d) r
  end.

Fixpoint forallb2 {A B} (f : A -> B -> bool) (a : list A) (b : list B) : bool :=
  match a, b with
  | [], [] => true
  | x :: a', y :: b' => f x y && forallb2 f a' b'
  | _, _ => false
  end.

(* queue (q, old) became (q', new) while the firings [cs] were handled with the hooks [en] enabled *)
Definition check_queue (hooks : list (list binding)) (en : list bool) (cs : list ct)
           (p n : N * list stask) : bool :=
  N.eqb (fst p) (fst n)
  && list_eqb stask_eqb (firstn (length (snd p)) (snd n)) (snd p)
  && segs_ok (skipn (length (snd p)) (snd n))
             (map (fun c => in_queue (fst n) (expected_from 0 c hooks en)) cs).

(* all queues: [pq] before, [nq] after *)
Definition check_queues (hooks : list (list binding)) (en : list bool) (cs : list ct)
           (pq nq : queues) : bool :=
  nodupb (map fst nq)
  && forallb (fun t => mem_N (st_queue t) (map fst nq)) (expected_tasks hooks en cs)
  && forallb2 (check_queue hooks en cs) pq nq.

(* the firings an operation makes the consumer handle, when it is never behind *)
Definition fired_by (o : op) (ob : obs) : list ct :=
  match o with
  | OFire c => [c]
  | OTick n => match nth_error (o_cron ob) (N.to_nat n) with Some (_, c) => [c] | None => [] end
  | OTickAll => map snd (o_cron ob)
  | _ => []
  end.

(* along the operations; [st]: registry and enabled flags (C11_Spec.spec_step); [pq]: the queues
   after the previous operation *)
Fixpoint Q_from (i : input) (st : spec_state) (pq : queues) (ops : list op) (os : list qobs) : bool :=
  match ops, os with
  | [], [] => true
  | o :: ops', qo :: os' =>
      match o with
      | OStart _ | OStop => Nat.eqb (length ops') (length os')
      | _ =>
          let st' := spec_step (i_hooks i) st o in
          check_queues (i_hooks i) (snd st') (fired_by o (h_obs (q_hobs qo))) pq (q_queues qo)
          && Q_from i st' (q_queues qo) ops' os'
      end
  | _, _ => false
  end.

(* before the first operation every queue is empty *)
Definition blank (m : queues) : queues := map (fun p => (fst p, [])) m.
Definition Q (i : input) (os : list qobs) : bool :=
  match os with
  | [] => is_nil (i_ops i)
  | qo :: _ => Q_from i (spec_init (i_hooks i)) (blank (q_queues qo)) (i_ops i) os
  end.

(* the predicate of the queues class, on the case as the operator sees it (configurations
   loaded): everything the operator-level class demands, and the contents of the queues *)
Definition P_q (i : input) (os : list qobs) : bool :=
  P_op_start i (map q_hobs os)
  && (negb (ids_distinct (i_hooks i)) || Q i os).
