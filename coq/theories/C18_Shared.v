(* C18_Shared.v — proofs about one queue shared by several hooks (C18_Model.serve): the
   limiter of a hook is asked with the instant at which the HANDLER of its task is entered -
   after the task has waited in the queue behind the tasks of other hooks, however long -
   never with the instant at which the task was queued.

   serve_grants            the starts of a hook are the grants of ITS limiter over the
                           instants at which the handlers of ITS tasks were entered, and those
                           instants are in time order whatever the queueing instants were
   shared_respects_limit   hence the window bound, for every list of tasks (any interleaving
                           of hooks, any queueing instants, any execution times / back-offs)
   serve_queued_irrelevant tasks that were all queued while the queue was held start at
                           instants that do not depend on WHEN they were queued
   serve_monotone          everything later (queueing, ends, limiter states) => every start later:
                           the reason why an implementation may be compared one-sidedly (never
                           earlier) with the model run on instants that are known lower bounds
   charged_at_queueing     (NOT the code) the same worker asking the limiter with the task's
                           queued-at instant: violates the spec predicate (Example in
                           C18_Properties) - the moment of the reservation matters. *)
From Verif Require Import Common C18_Model C18_Spec C18_Proofs.
Open Scope Z_scope.

(* ---- the starts of a hook are grants over its handler-entry instants ---- *)

Lemma serve_grants h : forall ts lims free,
  sr_acts h (serve lims free ts) = grants (lims h) (sr_reqs h (serve lims free ts)) /\
  Forall (fun t => free <= t) (sr_reqs h (serve lims free ts)) /\
  sortedb (sr_reqs h (serve lims free ts)) = true.
Proof.
  induction ts as [|t r IH]; intros lims free.
  - cbn. repeat split. constructor.
  - cbn [serve]. set (entered := Z.max free (qt_queued t)).
    destruct (reserve (lims (qt_hook t)) entered) as [b' a] eqn:Er.
    destruct a as [act|].
    + pose proof (reserve_ge _ _ _ _ Er) as Hge.
      destruct (IH (set_lim lims (qt_hook t) b') (Z.max act (qt_end t))) as (IH1 & IH2 & IH3).
      unfold sr_acts, sr_reqs, runs_of in *. cbn [filter sr_hook].
      destruct (N.eqb_spec (qt_hook t) h) as [E|Hn].
      * subst h. cbn [map sr_entered sr_start grants]. rewrite Er.
        rewrite set_lim_same in IH1. split; [f_equal; exact IH1|].
        assert (Hf : Forall (fun y => entered <= y)
                       (map sr_entered (filter (fun r0 => N.eqb (sr_hook r0) (qt_hook t))
                          (serve (set_lim lims (qt_hook t) b') (Z.max act (qt_end t)) r)))).
        { eapply Forall_impl; [|exact IH2]. cbn. intros y Hy. lia. }
        split.
        -- constructor; [subst entered; lia|]. eapply Forall_impl; [|exact Hf]. cbn. intros y Hy. subst entered. lia.
        -- apply sortedb_cons_intro; [exact Hf | exact IH3].
      * rewrite (set_lim_other _ _ _ _ Hn) in IH1. split; [exact IH1|]. split; [|exact IH3].
        eapply Forall_impl; [|exact IH2]. cbn. intros y Hy. subst entered. lia.
    + unfold sr_acts, sr_reqs, runs_of. cbn [filter sr_hook].
      destruct (N.eqb_spec (qt_hook t) h) as [E|Hn].
      * subst h. cbn [map sr_entered sr_start grants]. rewrite Er. repeat split.
        constructor; [subst entered; lia | constructor].
      * cbn. repeat split. constructor.
Qed.

Lemma init_limiters_eq hs h : init_limiters hs h = create_rate_limiter (settings_of hs h).
Proof. reflexivity. Qed.

Lemma sr_starts_of h : forall rs, starts_of h (sr_all rs) = somes (sr_acts h rs).
Proof.
  unfold starts_of, sr_acts, runs_of. induction rs as [|r rest IH]; [reflexivity|].
  cbn [sr_all filter]. destruct (sr_start r) as [s|] eqn:Es.
  - cbn [filter fst]. destruct (N.eqb (sr_hook r) h); cbn [map snd somes]; [rewrite Es; cbn [somes]; f_equal|]; exact IH.
  - destruct (N.eqb (sr_hook r) h); cbn [map somes]; [rewrite Es; cbn [somes]|]; exact IH.
Qed.

(* the limiter of hook h is asked with the handler-entry instants of h's tasks; every task
   enters its handler at or after it was queued, and the entries are in time order *)
Lemma serve_entered : forall ts lims free,
  Forall (fun r => sr_queued r <= sr_entered r /\ free <= sr_entered r) (serve lims free ts) /\
  sortedb (map sr_entered (serve lims free ts)) = true.
Proof.
  induction ts as [|t r IH]; intros lims free; [split; [constructor | reflexivity]|].
  cbn [serve]. set (entered := Z.max free (qt_queued t)).
  destruct (reserve (lims (qt_hook t)) entered) as [b' a] eqn:Er.
  destruct a as [act|].
  - pose proof (reserve_ge _ _ _ _ Er) as Hge.
    destruct (IH (set_lim lims (qt_hook t) b') (Z.max act (qt_end t))) as [IH1 IH2].
    split.
    + constructor; [cbn; subst entered; lia|].
      eapply Forall_impl; [|exact IH1]. cbn. intros x [H1 H2]. subst entered. lia.
    + cbn [map sr_entered]. apply sortedb_cons_intro; [|exact IH2].
      apply Forall_forall. intros y Hy. apply in_map_iff in Hy as (x & Ex & Hx).
      rewrite Forall_forall in IH1. destruct (IH1 x Hx) as [_ H2]. subst y. lia.
  - split; [constructor; [cbn; subst entered; lia | constructor] | reflexivity].
Qed.

Lemma shared_charged_at_entry hs ts free h :
  let rs := serve (init_limiters hs) free ts in
  sr_acts h rs = grants (create_rate_limiter (settings_of hs h)) (sr_reqs h rs) /\
  sortedb (sr_reqs h rs) = true /\
  Forall (fun r => sr_queued r <= sr_entered r /\ free <= sr_entered r) rs /\
  sortedb (map sr_entered rs) = true.
Proof.
  cbv zeta. destruct (serve_grants h ts (init_limiters hs) free) as (H1 & _ & H3).
  destruct (serve_entered ts (init_limiters hs) free) as [H4 H5].
  rewrite init_limiters_eq in H1. repeat split; assumption.
Qed.

(* ---- the window bound ---- *)
Lemma shared_respects_limit hs ts free h I B :
  settings_of hs h = Some (mkSettings I B) -> 0 < I -> 1 <= B ->
  respects_limit I B (starts_of h (sr_all (serve (init_limiters hs) free ts))).
Proof.
  intros Hset HI HB. rewrite sr_starts_of.
  destruct (serve_grants h ts (init_limiters hs) free) as (H1 & _ & H3).
  rewrite H1, init_limiters_eq, Hset. apply respects_limit_model; assumption.
Qed.

Lemma shared_starts_sorted hs ts free h :
  sortedb (starts_of h (sr_all (serve (init_limiters hs) free ts))) = true.
Proof.
  rewrite sr_starts_of.
  destruct (serve_grants h ts (init_limiters hs) free) as (H1 & _ & H3).
  rewrite H1, init_limiters_eq. apply grants_sorted. exact H3.
Qed.

(* a hook without a limit is never made to wait by a limiter *)
Lemma serve_not_throttled h : forall ts lims free,
  b_limit (lims h) = None -> ~ In h (sr_throttled (serve lims free ts)).
Proof.
  induction ts as [|t r IH]; intros lims free Hl; [intros []|].
  cbn [serve]. set (entered := Z.max free (qt_queued t)).
  destruct (reserve (lims (qt_hook t)) entered) as [b' a] eqn:Er.
  destruct (N.eqb_spec (qt_hook t) h) as [E|Hn].
  - rewrite E in Er. rewrite (reserve_inf _ _ Hl) in Er. inversion Er; subst b' a.
    cbn [sr_throttled sr_start sr_entered]. rewrite Z.eqb_refl.
    apply IH. rewrite E, set_lim_same. exact Hl.
  - destruct a as [act|].
    + cbn [sr_throttled sr_start sr_entered sr_hook].
      assert (Hrec : ~ In h (sr_throttled (serve (set_lim lims (qt_hook t) b') (Z.max act (qt_end t)) r))).
      { apply IH. rewrite (set_lim_other _ _ _ _ Hn). exact Hl. }
      destruct (act =? entered); [exact Hrec|].
      intros [E|Hin]; [exact (Hn E) | exact (Hrec Hin)].
    + cbn. intros [E|[]]. exact (Hn E).
Qed.

(* the decidable predicate used at the operator level holds of every served queue *)
Lemma shared_P_holds hs ts free :
  let rs := serve (init_limiters hs) free ts in
  P_op hs (sr_all rs) (sr_throttled rs) = true.
Proof.
  cbv zeta. unfold P_op. apply forallb_forall. intros h _. unfold P_hook.
  destruct (settings_of hs h) as [[I B]|] eqn:Hset.
  - cbn [s_interval s_burst].
    destruct (Z.ltb_spec 0 I) as [HI|_]; [|reflexivity].
    destruct (Z.leb_spec 1 B) as [HB|_]; [|reflexivity].
    cbn [andb]. rewrite sr_starts_of.
    destruct (serve_grants h ts (init_limiters hs) free) as (H1 & _ & H3).
    rewrite H1, init_limiters_eq, Hset.
    pose proof (spec_holds (Some (mkSettings I B)) _ H3) as HP.
    unfold P in HP. cbn [s_interval s_burst] in HP. rewrite H3 in HP.
    destruct (Z.ltb_spec 0 I) as [_|]; [|lia].
    destruct (Z.leb_spec 1 B) as [_|]; [|lia].
    exact HP.
  - apply negb_true_iff. destruct (mem_N h _) eqn:Em; [|reflexivity].
    apply mem_N_In in Em. exfalso. revert Em. apply serve_not_throttled.
    rewrite init_limiters_eq, Hset. reflexivity.
Qed.

(* ---- anchored judgement, anchors valid for some hooks only ---- *)
Lemma anchored_for_intro (cfg : option settings) (anchors : list Z) (starts : list Z) :
  sortedb starts = true ->
  (forall I B, cfg = Some (mkSettings I B) -> 0 < I -> 1 <= B -> respects_limit I B starts) ->
  P_hook_anchored cfg anchors starts = true.
Proof.
  intros Hs Hr. unfold P_hook_anchored. destruct cfg as [[I B]|]; [|reflexivity].
  cbn [s_interval s_burst].
  destruct (Z.ltb_spec 0 I) as [HI|_]; [|reflexivity].
  destruct (Z.leb_spec 1 B) as [HB|_]; [|reflexivity].
  cbn [andb]. rewrite Hs. cbn [andb].
  apply forallb_forall. intros a _.
  apply (late_observation_sound I B a starts); try assumption.
  - exact (Hr I B eq_refl HI HB).
  - apply Forall2_le_refl.
  - intros r x Hin Hax. apply In_combine_same in Hin. subst. exact Hax.
Qed.

Lemma shared_P_timed_for_holds hs ts free anchors :
  P_timed_for hs anchors (sr_all (serve (init_limiters hs) free ts)) = true.
Proof.
  unfold P_timed_for. apply forallb_forall. intros h _.
  apply anchored_for_intro.
  - apply shared_starts_sorted.
  - intros I B Hset HI HB. exact (shared_respects_limit hs ts free h I B Hset HI HB).
Qed.

Lemma op_P_timed_for_holds cfg hs script anchors : sortedb (map fst script) = true ->
  P_timed_for hs anchors (starts_all (final_log cfg hs script)) = true.
Proof.
  intros Hs. unfold P_timed_for. apply forallb_forall. intros h _. rewrite starts_of_all.
  apply anchored_for_intro.
  - exact (op_starts_sorted cfg hs script h Hs).
  - intros I B Hset HI HB. exact (op_respects_limit cfg hs script h I B Hset HI HB Hs).
Qed.

(* judging late observations with anchors that are valid for the hook: the premises are those of
   late_observation_sound for every anchor listed for the hook *)
Lemma late_observation_sound_for I B (anchors : list Z) reals meas :
  0 < I -> 1 <= B -> respects_limit I B reals -> Forall2 Z.le reals meas -> sortedb meas = true ->
  (forall a, In a anchors -> forall r x, In (r, x) (List.combine reals meas) -> a <= x -> a <= r) ->
  P_hook_anchored (Some (mkSettings I B)) anchors meas = true.
Proof.
  intros HI HB Hr HF Hs Hanch. unfold P_hook_anchored. cbn [s_interval s_burst].
  destruct (Z.ltb_spec 0 I) as [_|]; [|lia].
  destruct (Z.leb_spec 1 B) as [_|]; [|lia].
  cbn [andb]. rewrite Hs. cbn [andb].
  apply forallb_forall. intros a Ha.
  exact (late_observation_sound I B a reals meas HI Hr HF Hs (Hanch a Ha)).
Qed.

(* ---- WHEN the tasks were queued does not matter while the queue is held ---- *)
Definition sr_view (r : srun) : N * Z * option Z := (sr_hook r, sr_entered r, sr_start r).

Lemma serve_queued_irrelevant free0 : forall ts ts',
  Forall2 (fun t t' => qt_hook t = qt_hook t' /\ qt_end t = qt_end t' /\
                       qt_queued t <= free0 /\ qt_queued t' <= free0) ts ts' ->
  forall lims free, free0 <= free ->
  map sr_view (serve lims free ts) = map sr_view (serve lims free ts').
Proof.
  intros ts ts' HF. induction HF as [|t t' r r' (Hh & He & Hq & Hq') HF IH]; intros lims free Hle; [reflexivity|].
  cbn [serve]. rewrite <- Hh, <- He.
  replace (Z.max free (qt_queued t')) with (Z.max free (qt_queued t)) by lia.
  destruct (reserve (lims (qt_hook t)) (Z.max free (qt_queued t))) as [b' a] eqn:Er.
  destruct a as [act|].
  - pose proof (reserve_ge _ _ _ _ Er) as Hge.
    cbn [map]. f_equal. apply IH. lia.
  - reflexivity.
Qed.

(* ---- later inputs, later starts ---- *)

(* the instant at which the bucket was / would be empty; None: a limiter that was never used
   (full whatever the instant) *)
Definition zopt (b : bucket) : option Z :=
  match b_last b with None => None | Some l => Some (l - b_tokens b) end.
Definition ole (x y : option Z) : Prop :=
  match x, y with None, _ => True | Some a, Some b => a <= b | Some _, None => False end.

(* a limiter as the operator can have it at an instant [free] at or after its last use *)
Definition bstate_ok (free : Z) (b : bucket) : Prop :=
  match b_limit b with
  | None => True
  | Some iv => 0 < iv /\ 1 <= b_burst b /\
              match b_last b with None => b_tokens b = b_burst b * iv | Some l => l <= free end
  end.

Definition ble (free free' : Z) (b b' : bucket) : Prop :=
  b_limit b = b_limit b' /\ b_burst b = b_burst b' /\ bstate_ok free b /\ bstate_ok free' b' /\
  (b_limit b <> None -> ole (zopt b) (zopt b')).

Lemma reserve_monotone free free' b b' t t' :
  ble free free' b b' -> free <= t -> free' <= t' -> t <= t' ->
  exists b1 a b1' a', reserve b t = (b1, Some a) /\ reserve b' t' = (b1', Some a') /\ a <= a' /\
                      t <= a /\ ble t t' b1 b1'.
Proof.
  intros (Hl & Hb & Hok & Hok' & Hz) Hft Hft' Htt.
  unfold reserve, reserve_n. rewrite <- Hl. destruct (b_limit b) as [I|] eqn:El.
  - unfold bstate_ok in Hok, Hok'. rewrite <- Hl in Hok'. rewrite El in Hok.
    destruct Hok as (HI & HB & Hlast). destruct Hok' as (_ & HB' & Hlast').
    specialize (Hz ltac:(discriminate)).
    assert (E1 : (1 <=? b_burst b) = true) by (apply Z.leb_le; exact HB).
    assert (E1' : (1 <=? b_burst b') = true) by (apply Z.leb_le; exact HB').
    rewrite E1, E1'. cbn [andb].
    do 4 eexists. split; [reflexivity|]. split; [reflexivity|].
    unfold ble, bstate_ok, zopt, advance, max_duration in *. cbn [b_limit b_burst b_last b_tokens].
    rewrite <- Hb in *.
    set (BI := b_burst b * I) in *.
    destruct (b_last b) as [l|]; destruct (b_last b') as [l'|]; cbn [ole] in *.
    + repeat split; try assumption; try discriminate; try lia; intros; lia.
    + contradiction.
    + repeat split; try assumption; try discriminate; try lia; intros; lia.
    + repeat split; try assumption; try discriminate; try lia; intros; lia.
  - do 4 eexists. split; [reflexivity|]. split; [reflexivity|]. split; [exact Htt|]. split; [lia|].
    unfold ble, bstate_ok. rewrite <- Hl, El. repeat split; auto; intros H; congruence.
Qed.

Lemma ble_time free free' t t' b b' : ble free free' b b' -> free <= t -> free' <= t' -> ble t t' b b'.
Proof.
  intros (Hl & Hb & Hok & Hok' & Hz) Ht Ht'. unfold ble, bstate_ok in *.
  repeat split; try assumption.
  - destruct (b_limit b); [|exact I]. destruct Hok as (H1 & H2 & H3). repeat split; try assumption.
    destruct (b_last b); [lia | exact H3].
  - destruct (b_limit b'); [|exact I]. destruct Hok' as (H1 & H2 & H3). repeat split; try assumption.
    destruct (b_last b'); [lia | exact H3].
Qed.

Definition lle (free free' : Z) (lims lims' : limiters) : Prop := forall h, ble free free' (lims h) (lims' h).

Definition run_le (r r' : srun) : Prop :=
  sr_hook r = sr_hook r' /\ sr_entered r <= sr_entered r' /\
  match sr_start r, sr_start r' with Some s, Some s' => s <= s' | _, _ => False end.

Lemma serve_monotone : forall ts ts',
  Forall2 (fun t t' => qt_hook t = qt_hook t' /\ qt_queued t <= qt_queued t' /\ qt_end t <= qt_end t') ts ts' ->
  forall lims lims' free free', lle free free' lims lims' -> free <= free' ->
  Forall2 run_le (serve lims free ts) (serve lims' free' ts').
Proof.
  intros ts ts' HF. induction HF as [|t t' r r' (Hh & Hq & He) HF IH]; intros lims lims' free free' Hl Hff; [constructor|].
  cbn [serve]. rewrite <- Hh.
  set (en := Z.max free (qt_queued t)). set (en' := Z.max free' (qt_queued t')).
  destruct (reserve_monotone free free' (lims (qt_hook t)) (lims' (qt_hook t)) en en' (Hl (qt_hook t)))
    as (b1 & a & b1' & a' & Er & Er' & Haa & Hta & Hble); try (subst en en'; lia).
  rewrite Er, Er'.
  pose proof (reserve_ge _ _ _ _ Er') as Hge'.
  constructor.
  - unfold run_le. cbn. repeat split; try exact Haa; subst en en'; lia.
  - apply IH; [|lia].
    intros h. unfold set_lim. destruct (N.eqb h (qt_hook t)).
    + eapply ble_time; [exact Hble | lia | lia].
    + eapply ble_time; [exact (Hl h) | subst en; lia | subst en'; lia].
Qed.

(* from the configuration: every hook's settings have a burst that lets it run at all *)
Lemma init_ble hs free free' :
  (forall h s, settings_of hs h = Some s -> 0 <= s_burst s) ->
  lle free free' (init_limiters hs) (init_limiters hs).
Proof.
  intros Hb h. rewrite init_limiters_eq.
  assert (Hok : forall f, bstate_ok f (create_rate_limiter (settings_of hs h))).
  { intros f. unfold bstate_ok, create_rate_limiter.
    destruct (settings_of hs h) as [[I B]|] eqn:Hset; [|exact Logic.I].
    specialize (Hb h _ Hset). cbn [s_interval s_burst] in *.
    destruct (I =? 0); [exact Logic.I|]. unfold every.
    destruct (Z.leb_spec I 0) as [|HI]; [exact Logic.I|].
    cbn [new_limiter b_limit b_burst b_last b_tokens interval_of].
    destruct (Z.eqb_spec B 0); repeat split; lia. }
  unfold ble. repeat split; try apply Hok.
  intros _. unfold zopt, ole.
  destruct (b_last (create_rate_limiter (settings_of hs h))) eqn:E; [|exact Logic.I].
  unfold create_rate_limiter in E. destruct (settings_of hs h) as [[I B]|]; cbn in E; [|discriminate].
  destruct (I =? 0); cbn in E; [discriminate|]. destruct (every I); discriminate.
Qed.

Lemma shared_monotone hs ts ts' free free' :
  (forall h s, settings_of hs h = Some s -> 0 <= s_burst s) ->
  Forall2 (fun t t' => qt_hook t = qt_hook t' /\ qt_queued t <= qt_queued t' /\ qt_end t <= qt_end t') ts ts' ->
  free <= free' ->
  Forall2 run_le (serve (init_limiters hs) free ts) (serve (init_limiters hs) free' ts').
Proof.
  intros Hb HF Hff. apply serve_monotone; [exact HF | apply init_ble; exact Hb | exact Hff].
Qed.

(* ---- NOT the code: the same worker asking the limiter with the instant the task was QUEUED
        (rate.Limiter.ReserveN(queuedAt, 1)) and sleeping for what is left of the delay ---- *)
Fixpoint charged_at_queueing (lims : limiters) (free : Z) (ts : list qtask) : list srun :=
  match ts with
  | [] => []
  | t :: r =>
      let entered := Z.max free (qt_queued t) in
      let (b', a) := reserve (lims (qt_hook t)) (qt_queued t) in
      match a with
      | Some act =>
          let start := Z.max entered act in
          mkSR (qt_hook t) (qt_queued t) entered (Some start)
          :: charged_at_queueing (set_lim lims (qt_hook t) b') (Z.max start (qt_end t)) r
      | None => [mkSR (qt_hook t) (qt_queued t) entered None]
      end
  end.
