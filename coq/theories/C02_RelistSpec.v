(* C02_RelistSpec.v — C02 for histories with watch outages: "contain exactly the objects that
   currently match that binding (kind, namespaces, names) as known to the operator - each once, in
   an order that depends only on namespace/kind/name, each with the binding's filter applied - and
   once the cluster is quiet they equal the real cluster state".
   At EVERY read point of the history (the cluster is quiet there: every watch event is delivered,
   every re-list is through) the snapshot shows exactly the objects of the cluster AS IT IS THEN
   that match the binding, each once, ordered by namespace and name, each entry with the CURRENT
   content of its object (filter result; whole object when kept) - whether the operator saw the
   last change of an object as a watch event or had to find it by listing again: no ghost of an
   object deleted during an outage, no stale entry of one modified during an outage, none missing
   of those created during an outage.
   The cluster at a read point is computed here from the history alone (final_cluster of the
   changes so far, inside and outside outages alike); nothing of the informer model is used. *)
From Verif Require Import Common C02_Model C02_Spec C02_Relist.
Open Scope N_scope.

Fixpoint forall2b {A B} (f : A -> B -> bool) (l : list A) (m : list B) : bool :=
  match l, m with
  | [], [] => true
  | a :: l', b :: m' => f a b && forall2b f l' m'
  | _, _ => false
  end.

(* the binding matches an object: its namespace is named (static; none named = all) / carries the
   label (labelSelector), its name is selected (none selected = any) *)
Definition rmatching (i : rl_in) (o : obj) : bool :=
  (if ri_dyn i then mem_N (o_ns o) (ri_nss i)
   else match ri_nss i with [] => true | l => mem_N (o_ns o) l end)
  && (match ri_names i with [] => true | l => mem_N (o_name o) l end).

Definition rexpected_view (i : rl_in) (o : obj) : view :=
  (o_ns o, o_name o,
   if ri_filter i then Some (snd o mod 10) else None,
   if ri_keep i then Some (snd o) else None).

(* the cluster after a history prefix: every change so far, inside and outside outages alike *)
Definition rl_cluster (i : rl_in) (pre : list rstep) : list obj :=
  fold_left cl_apply (flat_ops pre) (fold_left (fun c o => cl_set o c) (ri_initial i) []).

Definition P_rview_list (i : rl_in) (pre : list rstep) (vs : list view) : bool :=
  v_strictly_sorted vs
  && forallb (fun v => existsb (fun o => rmatching i o && view_eqb v (rexpected_view i o)) (rl_cluster i pre)) vs
  && forallb (fun o => if rmatching i o then mem_view (rexpected_view i o) vs else true) (rl_cluster i pre).

(* one list per read point, each exactly the matching objects of the cluster at that point *)
Definition P_rl (i : rl_in) (reads : list (list view)) (bad : bool) : bool :=
  negb bad && forall2b (P_rview_list i) (read_points [] (ri_steps i)) reads.
